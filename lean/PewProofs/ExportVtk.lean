import PewProofs.Export

/-! # C16 — the VTK file: decimal numbers, the attribute scanner, reading back the rendered header -/
namespace Pew.Export

/-! ### decimal numbers -/

theorem digit_cases (d : Nat) (h : d < 10) :
    d = 0 ∨ d = 1 ∨ d = 2 ∨ d = 3 ∨ d = 4 ∨ d = 5 ∨ d = 6 ∨ d = 7 ∨ d = 8 ∨ d = 9 := by omega

theorem digitVal_digitChar (d : Nat) (h : d < 10) : digitVal (digitChar d) = some d := by
  rcases digit_cases d h with e | e | e | e | e | e | e | e | e | e <;> subst e <;> decide

/-- a digit is none of the characters that matter to the header syntax -/
theorem digitChar_plain (d : Nat) (h : d < 10) :
    digitChar d ≠ ' ' ∧ digitChar d ≠ '"' ∧ digitChar d ≠ '&' ∧ digitChar d ≠ '\n' := by
  rcases digit_cases d h with e | e | e | e | e | e | e | e | e | e <;> subst e <;> decide

theorem parseNatAux_snoc (acc : Nat) (s : Str) (d : Nat) (h : d < 10) :
    parseNatAux acc (s ++ [digitChar d]) = (parseNatAux acc s).map (· * 10 + d) := by
  induction s generalizing acc with
  | nil => simp [parseNatAux, digitVal_digitChar d h]
  | cons c cs ih =>
    simp only [List.cons_append, parseNatAux]
    cases digitVal c with
    | none => rfl
    | some v => exact ih _

theorem natStr_ne_nil (n : Nat) : natStr n ≠ [] := by
  rw [natStr]
  split <;> simp

theorem parseNatAux_natStr (n : Nat) : parseNatAux 0 (natStr n) = some n := by
  induction n using Nat.strongRecOn with
  | _ n ih =>
    rw [natStr]
    split
    · rename_i h
      simp [parseNatAux, digitVal_digitChar n h]
    · rename_i h
      rw [parseNatAux_snoc _ _ _ (Nat.mod_lt _ (by omega)), ih (n / 10) (by omega)]
      simp only [Option.map_some]
      congr 1
      omega

/-- reading the printed number gives the number -/
theorem parseNat_natStr (n : Nat) : parseNat (natStr n) = some n := by
  rw [parseNat, if_neg (natStr_ne_nil n), parseNatAux_natStr]

theorem natStr_digits (n : Nat) : ∀ c ∈ natStr n, ∃ d, d < 10 ∧ c = digitChar d := by
  induction n using Nat.strongRecOn with
  | _ n ih =>
    intro c hc
    rw [natStr] at hc
    split at hc
    · rename_i h
      simp at hc
      exact ⟨n, h, hc⟩
    · rename_i h
      rcases List.mem_append.mp hc with h1 | h1
      · exact ih (n / 10) (by omega) c h1
      · simp at h1
        exact ⟨n % 10, Nat.mod_lt _ (by omega), h1⟩

theorem natStr_plain (n : Nat) : ∀ c ∈ natStr n, c ≠ ' ' ∧ c ≠ '"' ∧ c ≠ '&' ∧ c ≠ '\n' := by
  intro c hc
  obtain ⟨d, hd, rfl⟩ := natStr_digits n c hc
  exact digitChar_plain d hd

/-! ### the attribute scanner -/

theorem scan_key (acc k rest : Str) (hk : '=' ∉ k) :
    scanAttrs (.key acc) (k ++ '=' :: rest) = scanAttrs (.quote (acc ++ k)) rest := by
  induction k generalizing acc with
  | nil => simp [scanAttrs]
  | cons c cs ih =>
    have hc : c ≠ '=' := fun e => hk (by simp [e])
    have hcs : '=' ∉ cs := fun e => hk (by simp [e])
    simp only [List.cons_append, scanAttrs, if_neg hc]
    rw [ih _ hcs]
    simp

theorem scan_val (k acc v rest : Str) (hv : '"' ∉ v) :
    scanAttrs (.val k acc) (v ++ '"' :: rest) =
      match scanAttrs .start rest with
      | some (as, e) => some ((k, unescape (acc ++ v)) :: as, e)
      | none => none := by
  induction v generalizing acc with
  | nil =>
    simp only [List.nil_append, scanAttrs, if_true, List.append_nil]
    cases scanAttrs .start rest <;> rfl
  | cons c cs ih =>
    have hc : c ≠ '"' := fun e => hv (by simp [e])
    have hcs : '"' ∉ cs := fun e => hv (by simp [e])
    simp only [List.cons_append, scanAttrs, if_neg hc]
    rw [ih _ hcs]
    simp

/-- the scanner reads back the attributes that were written, values entity-decoded -/
theorem scan_attrs (attrs : List (Str × Str)) (tail : Str)
    (h : ∀ p ∈ attrs, '=' ∉ p.1 ∧ '"' ∉ p.2) (ht : tail.head? ≠ some ' ') :
    scanAttrs .start (attrsText attrs ++ tail) = some (attrs.map (fun p => (p.1, unescape p.2)), tail) := by
  induction attrs with
  | nil =>
    cases tail with
    | nil => simp [attrsText, scanAttrs]
    | cons c r =>
      have : c ≠ ' ' := fun e => ht (by simp [e])
      simp [attrsText, scanAttrs, this]
  | cons p ps ih =>
    have hp := h p (by simp)
    have ih' := ih (fun q hq => h q (by simp [hq]))
    simp only [attrsText, List.flatMap_cons, attr, List.cons_append, List.append_assoc, scanAttrs, if_true]
    rw [scan_key _ _ _ hp.1]
    simp only [scanAttrs, if_true, List.nil_append]
    have : (ps.flatMap (fun p => ' ' :: (p.1 ++ '=' :: '"' :: (p.2 ++ ['"'])))) = attrsText ps := by
      simp [attrsText, attr]
    rw [this, scan_val _ _ _ _ hp.2, ih']
    simp

/-! ### tags -/

theorem takeWhile_dropWhile_prefix (p : Char → Bool) (name rest : Str) (hn : ∀ c ∈ name, p c = true)
    (hr : ∀ c, rest.head? = some c → p c = false) :
    (name ++ rest).takeWhile p = name ∧ (name ++ rest).dropWhile p = rest := by
  induction name with
  | nil =>
    cases rest with
    | nil => simp
    | cons c r => simp [hr c rfl]
  | cons c cs ih =>
    have := ih (fun x hx => hn x (by simp [hx]))
    simp [hn c (by simp), this]

theorem unescape_noamp (s : Str) (h : '&' ∉ s) : unescape s = s := by
  induction s with
  | nil => simp [unescape]
  | cons c cs ih =>
    have hc : c ≠ '&' := fun e => h (by simp [e])
    rw [unescape_plain c cs hc, ih (fun e => h (by simp [e]))]

/-- what the scanner makes of a written tag body: name, attributes, closer -/
theorem parseTag_render (name : Str) (attrs : List (Str × Str)) (closer : Str)
    (hn : name ≠ []) (hn1 : ∀ c ∈ name, isNameChar c = true ∧ c ≠ '?')
    (ha : ∀ p ∈ attrs, '=' ∉ p.1 ∧ '"' ∉ p.2) (hc : closer = ['>'] ∨ closer = ['/', '>']) :
    parseTag (tagLine name attrs closer) =
      if closer = ['>'] then some (.opening name (attrs.map fun p => (p.1, unescape p.2)))
      else some (.empty name (attrs.map fun p => (p.1, unescape p.2))) := by
  unfold tagLine
  cases name with
  | nil => exact absurd rfl hn
  | cons d r' =>
    have hd := hn1 d (by simp)
    have hd1 : d ≠ '?' := hd.2
    have hd2 : d ≠ '/' := by
      intro e; subst e
      have := hd.1
      simp [isNameChar] at this
    have hhead : ∀ c, (attrsText attrs ++ closer).head? = some c → isNameChar c = false := by
      intro c hcq
      cases attrs with
      | nil =>
        rcases hc with e | e <;> subst e <;> simp [attrsText] at hcq <;> subst hcq <;> decide
      | cons p ps =>
        simp [attrsText, attr] at hcq
        subst hcq; decide
    have htd := takeWhile_dropWhile_prefix isNameChar (d :: r') (attrsText attrs ++ closer)
      (fun c hcm => (hn1 c hcm).1) hhead
    have hcl : closer.head? ≠ some ' ' := by
      rcases hc with e | e <;> subst e <;> simp
    have hscan := scan_attrs attrs closer ha hcl
    simp only [parseTag, ne_eq, not_true_eq_false, if_false, List.cons_append, if_neg hd1, if_neg hd2]
    have e1 : (d :: (r' ++ (attrsText attrs ++ closer))) = (d :: r') ++ (attrsText attrs ++ closer) := rfl
    rw [e1, htd.1, htd.2, hscan]
    rcases hc with e | e <;> subst e <;> simp

/-! ### escaped names -/

theorem mem_escChar (x c : Char) (h : c ∈ escChar x) :
    (c = x ∧ x ≠ '"' ∧ x ≠ '&' ∧ x ≠ '<' ∧ x ≠ '>' ∧ x ≠ '\'') ∨ c ∈ "&amp;ltgquos".toList := by
  unfold escChar at h
  split at h
  · right; revert h; revert c; decide
  · split at h
    · right; revert h; revert c; decide
    · split at h
      · right; revert h; revert c; decide
      · split at h
        · right; revert h; revert c; decide
        · split at h
          · right; revert h; revert c; decide
          · left
            simp at h
            subst h
            refine ⟨rfl, ?_, ?_, ?_, ?_, ?_⟩ <;> assumption

theorem escapeMech_eq_spec (s : Str) : escapeMech s = escapeSpec s := by
  unfold escapeMech escapeSpec
  simp only [replaceC_eq]
  induction s with
  | nil => rfl
  | cons x s ih =>
    simp only [List.flatMap_cons, List.flatMap_append]
    rw [ih, escape_char x]

/-- an escaped name holds no double quote, and no line break unless the name had one -/
theorem escapeMech_chars (s : Str) : '"' ∉ escapeMech s ∧ ('\n' ∉ s → '\n' ∉ escapeMech s) := by
  rw [escapeMech_eq_spec]
  unfold escapeSpec
  constructor
  · intro h
    obtain ⟨x, _, hx⟩ := List.mem_flatMap.mp h
    rcases mem_escChar x _ hx with ⟨e, h1, _⟩ | h2
    · exact h1 e.symm
    · revert h2; decide
  · intro hs h
    obtain ⟨x, hxs, hx⟩ := List.mem_flatMap.mp h
    rcases mem_escChar x _ hx with ⟨e, _⟩ | h2
    · exact hs (e ▸ hxs)
    · revert h2; decide

theorem unescape_escapeMech (s : Str) : unescape (escapeMech s) = s := by
  rw [escapeMech_eq_spec]
  induction s with
  | nil => simp [escapeSpec, unescape]
  | cons c s ih =>
    have hcons : escapeSpec (c :: s) = escChar c ++ escapeSpec s := by simp [escapeSpec]
    rw [hcons]
    unfold escChar
    by_cases h1 : c = '&'
    · subst h1
      rw [if_pos rfl]
      have := unescape_entity "amp;".toList '&' (escapeSpec s) (by simp [entityAt])
      simpa [ih] using this
    · rw [if_neg h1]
      by_cases h2 : c = '<'
      · subst h2
        rw [if_pos rfl]
        have := unescape_entity "lt;".toList '<' (escapeSpec s) (by simp [entityAt])
        simpa [ih] using this
      · rw [if_neg h2]
        by_cases h3 : c = '>'
        · subst h3
          rw [if_pos rfl]
          have := unescape_entity "gt;".toList '>' (escapeSpec s) (by simp [entityAt])
          simpa [ih] using this
        · rw [if_neg h3]
          by_cases h4 : c = '"'
          · subst h4
            rw [if_pos rfl]
            have := unescape_entity "quot;".toList '"' (escapeSpec s) (by simp [entityAt])
            simpa [ih] using this
          · rw [if_neg h4]
            by_cases h5 : c = '\''
            · subst h5
              rw [if_pos rfl]
              have := unescape_entity "apos;".toList '\'' (escapeSpec s) (by simp [entityAt])
              simpa [ih] using this
            · rw [if_neg h5]
              simp only [List.singleton_append]
              rw [unescape_plain c _ h1, ih]

/-! ### the lines of the header read back -/

theorem lookup_head (k v : Str) (r : List (Str × Str)) : lookup k ((k, v) :: r) = some v := by simp [lookup]

theorem lookup_skip (k k' v : Str) (r : List (Str × Str)) (h : k' ≠ k) : lookup k ((k', v) :: r) = lookup k r := by
  simp [lookup, h]

theorem nameChars_ok (n : Str) (h : n.all (fun c => isNameChar c && c != '?') = true) :
    ∀ c ∈ n, isNameChar c = true ∧ c ≠ '?' := by
  intro c hc
  have := List.all_eq_true.mp h c hc
  simpa using this

/-- a written `DataArray` line gives back name, type, format and offset -/
theorem arrayOf_arrayLine (name : Str) (off : Nat) :
    (parseTag (arrayLine name off)).bind arrayOf
      = some { name := name, type := "Float64".toList, format := "appended".toList, offset := off } := by
  have hq : '"' ∉ natStr off := fun h => (natStr_plain off _ h).2.1 rfl
  have ha : '&' ∉ natStr off := fun h => (natStr_plain off _ h).2.2.1 rfl
  have hattrs : ∀ p ∈ [("Name".toList, escapeMech name), ("type".toList, "Float64".toList),
      ("format".toList, "appended".toList), ("offset".toList, natStr off)], '=' ∉ p.1 ∧ '"' ∉ p.2 := by
    intro p hp
    simp only [List.mem_cons, List.mem_nil_iff, or_false] at hp
    rcases hp with e | e | e | e <;> subst e
    · exact ⟨by show '=' ∉ "Name".toList; decide, (escapeMech_chars name).1⟩
    · exact ⟨by decide, by decide⟩
    · exact ⟨by decide, by decide⟩
    · exact ⟨by show '=' ∉ "offset".toList; decide, hq⟩
  rw [arrayLine, parseTag_render "DataArray".toList _ ['/', '>'] (by decide) (nameChars_ok _ (by decide)) hattrs (Or.inr rfl)]
  have e1 : unescape "Float64".toList = "Float64".toList := unescape_noamp _ (by decide)
  have e2 : unescape "appended".toList = "appended".toList := unescape_noamp _ (by decide)
  have hne : (['/', '>'] : Str) ≠ ['>'] := by decide
  rw [if_neg hne]
  simp only [Option.bind_some, List.map_cons, List.map_nil, unescape_escapeMech, unescape_noamp _ ha, e1, e2]
  rw [arrayOf, if_pos rfl, lookup_head, lookup_skip _ _ _ _ (by decide), lookup_head,
    lookup_skip _ _ _ _ (by decide), lookup_skip _ _ _ _ (by decide), lookup_head,
    lookup_skip _ _ _ _ (by decide), lookup_skip _ _ _ _ (by decide), lookup_skip _ _ _ _ (by decide), lookup_head,
    Option.bind_some, parseNat_natStr]

theorem arrayOf_closing : (parseTag "</CellData>".toList).bind arrayOf = none := by decide

theorem spanArrays_lines (nos : List (Str × Nat)) (rest : List Str) :
    spanArrays (nos.map (fun p => arrayLine p.1 p.2) ++ "</CellData>".toList :: rest)
      = (nos.map (fun p => ({ name := p.1, type := "Float64".toList, format := "appended".toList, offset := p.2 } : ArrayMeta)),
         "</CellData>".toList :: rest) := by
  induction nos with
  | nil =>
    show spanArrays ("</CellData>".toList :: rest) = _
    rw [spanArrays, arrayOf_closing]
    rfl
  | cons p ps ih =>
    simp only [List.map_cons, List.cons_append]
    rw [spanArrays, arrayOf_arrayLine, ih]

/-! ### numbers and tokens in attribute values -/

theorem mapOpt_cons {β γ : Type} (f : β → Option γ) (x : β) (xs : List β) (y : γ) (ys : List γ)
    (h1 : f x = some y) (h2 : mapOpt f xs = some ys) : mapOpt f (x :: xs) = some (y :: ys) := by
  simp [mapOpt, h1, h2]

theorem extentStr_plain (nx ny nz : Nat) : ∀ c ∈ extentStr nx ny nz, c ≠ '"' ∧ c ≠ '&' ∧ c ≠ '\n' := by
  intro c hc
  simp only [extentStr, List.mem_cons, List.mem_append] at hc
  have hd : ∀ n, c ∈ natStr n → c ≠ '"' ∧ c ≠ '&' ∧ c ≠ '\n' := fun n h => (natStr_plain n c h).2
  rcases hc with e | e | e | e | e | e | e | e | e | e | e
  · subst e; decide
  · subst e; decide
  · exact hd _ e
  · subst e; decide
  · subst e; decide
  · subst e; decide
  · exact hd _ e
  · subst e; decide
  · subst e; decide
  · subst e; decide
  · exact hd _ e

/-- the extent string reads back as the six numbers -/
theorem parseNats_extentStr (nx ny nz : Nat) : parseNats (extentStr nx ny nz) = some [0, nx, 0, ny, 0, nz] := by
  have hs : ∀ n, ' ' ∉ natStr n := fun n h => (natStr_plain n _ h).1 rfl
  have h0 : (' ' : Char) ∉ (['0'] : Str) := by decide
  have hsplit : splitOn ' ' (extentStr nx ny nz) = [['0'], natStr nx, ['0'], natStr ny, ['0'], natStr nz] := by
    unfold extentStr
    have e1 : ∀ r : Str, ('0' :: ' ' :: r) = ['0'] ++ ' ' :: r := fun _ => rfl
    rw [e1, splitOn_append ' ' _ _ h0, splitOn_append ' ' _ _ (hs nx), e1, splitOn_append ' ' _ _ h0,
      splitOn_append ' ' _ _ (hs ny), e1, splitOn_append ' ' _ _ h0, splitOn_clean ' ' _ (hs nz)]
  have z : parseNat ['0'] = some 0 := by decide
  unfold parseNats
  rw [hsplit]
  exact mapOpt_cons _ _ _ _ _ z (mapOpt_cons _ _ _ _ _ (parseNat_natStr nx) (mapOpt_cons _ _ _ _ _ z
    (mapOpt_cons _ _ _ _ _ (parseNat_natStr ny) (mapOpt_cons _ _ _ _ _ z (mapOpt_cons _ _ _ _ _ (parseNat_natStr nz) rfl)))))

/-- what the header needs of the opaque tokens (`sys.byteorder`'s name, `str(spacing[i])`): no
quote, ampersand or line break, and no space inside a spacing value -/
structure HeadOk (endian : Str) (spacing : Str × Str × Str) (names : List Str) : Prop where
  endian : ∀ c ∈ endian, c ≠ '"' ∧ c ≠ '&' ∧ c ≠ '\n'
  spacing : ∀ t ∈ [spacing.1, spacing.2.1, spacing.2.2], ∀ c ∈ t, c ≠ '"' ∧ c ≠ '&' ∧ c ≠ '\n' ∧ c ≠ ' '
  names : ∀ n ∈ names, '\n' ∉ n

theorem headOkB_sound (endian : Str) (spacing : Str × Str × Str) (names : List Str)
    (h : headOkB endian spacing names = true) : HeadOk endian spacing names := by
  simp only [headOkB, Bool.and_eq_true, List.all_eq_true, decide_eq_true_eq, ne_eq, Bool.not_eq_true',
    List.contains_eq_mem, decide_eq_false_iff_not] at h
  obtain ⟨⟨h1, h2⟩, h3⟩ := h
  refine ⟨?_, ?_, ?_⟩
  · intro c hc
    have := h1 c hc
    simpa [and_assoc] using this
  · intro t ht c hc
    have := h2 t ht c hc
    simpa [and_assoc] using this
  · intro n hn
    exact h3 n hn

theorem spacing_split (s0 s1 s2 : Str) (h0 : ' ' ∉ s0) (h1 : ' ' ∉ s1) (h2 : ' ' ∉ s2) :
    splitOn ' ' (s0 ++ ' ' :: (s1 ++ ' ' :: s2)) = [s0, s1, s2] := by
  rw [splitOn_append ' ' _ _ h0, splitOn_append ' ' _ _ h1, splitOn_clean ' ' _ h2]

theorem splitOn_linesToFile_tail (ls : List Str) (t : Str) (h : ∀ l ∈ ls, '\n' ∉ l) :
    splitOn '\n' (ls.flatMap (· ++ ['\n']) ++ t) = ls ++ splitOn '\n' t := by
  induction ls with
  | nil => rfl
  | cons l ls ih =>
    simp only [List.flatMap_cons, List.append_assoc, List.cons_append, List.nil_append]
    rw [splitOn_append '\n' l _ (h l (by simp)), ih (fun x hx => h x (by simp [hx]))]

theorem mem_tagLine (name : Str) (attrs : List (Str × Str)) (closer : Str) (c : Char) (h : c ∈ tagLine name attrs closer) :
    c = '<' ∨ c ∈ name ∨ c ∈ closer ∨ c = ' ' ∨ c = '=' ∨ c = '"' ∨ ∃ p ∈ attrs, c ∈ p.1 ∨ c ∈ p.2 := by
  simp only [tagLine, attrsText, attr, List.mem_cons, List.mem_append, List.mem_flatMap, List.mem_nil_iff, or_false] at h
  rcases h with e | e | ⟨p, hp, e⟩ | e
  · exact Or.inl e
  · exact Or.inr (Or.inl e)
  · rcases e with ((e | e) | (e | e | e)) | e
    · exact Or.inr (Or.inr (Or.inr (Or.inl e)))
    · exact Or.inr (Or.inr (Or.inr (Or.inr (Or.inr (Or.inr ⟨p, hp, Or.inl e⟩)))))
    · exact Or.inr (Or.inr (Or.inr (Or.inr (Or.inl e))))
    · exact Or.inr (Or.inr (Or.inr (Or.inr (Or.inr (Or.inl e)))))
    · exact Or.inr (Or.inr (Or.inr (Or.inr (Or.inr (Or.inr ⟨p, hp, Or.inr e⟩)))))
    · exact Or.inr (Or.inr (Or.inr (Or.inr (Or.inr (Or.inl e)))))
  · exact Or.inr (Or.inr (Or.inl e))

/-- a tag whose parts hold no line break holds none -/
theorem tagLine_noNL (name : Str) (attrs : List (Str × Str)) (closer : Str) (hn : '\n' ∉ name) (hc : '\n' ∉ closer)
    (ha : ∀ p ∈ attrs, '\n' ∉ p.1 ∧ '\n' ∉ p.2) : '\n' ∉ tagLine name attrs closer := by
  intro h
  rcases mem_tagLine _ _ _ _ h with e | e | e | e | e | e | ⟨p, hp, e | e⟩
  · exact absurd e (by decide)
  · exact hn e
  · exact hc e
  · exact absurd e (by decide)
  · exact absurd e (by decide)
  · exact absurd e (by decide)
  · exact (ha p hp).1 e
  · exact (ha p hp).2 e

/-! ### the whole header -/

theorem openAttrs_tagLine (nm : String) (attrs : List (Str × Str)) (hn : nm.toList ≠ [])
    (hn1 : ∀ c ∈ nm.toList, isNameChar c = true ∧ c ≠ '?') (ha : ∀ p ∈ attrs, '=' ∉ p.1 ∧ '"' ∉ p.2) :
    openAttrs nm (parseTag (tagLine nm.toList attrs ['>'])) = some (attrs.map fun p => (p.1, unescape p.2)) := by
  rw [parseTag_render nm.toList attrs ['>'] hn hn1 ha (Or.inl rfl), if_pos rfl, openAttrs, if_pos rfl]

theorem map_unescape_noamp (attrs : List (Str × Str)) (h : ∀ p ∈ attrs, '&' ∉ p.2) :
    attrs.map (fun p => (p.1, unescape p.2)) = attrs := by
  induction attrs with
  | nil => rfl
  | cons p ps ih =>
    simp only [List.map_cons]
    rw [unescape_noamp _ (h p (by simp)), ih (fun q hq => h q (by simp [hq]))]

theorem spacingStr_plain (sp : Str × Str × Str)
    (h : ∀ t ∈ [sp.1, sp.2.1, sp.2.2], ∀ c ∈ t, c ≠ '"' ∧ c ≠ '&' ∧ c ≠ '\n' ∧ c ≠ ' ') :
    ∀ c ∈ sp.1 ++ ' ' :: (sp.2.1 ++ ' ' :: sp.2.2), c ≠ '"' ∧ c ≠ '&' ∧ c ≠ '\n' := by
  intro c hc
  simp only [List.mem_append, List.mem_cons] at hc
  rcases hc with e | e | e | e | e
  · have := h sp.1 (by simp) c e; exact ⟨this.1, this.2.1, this.2.2.1⟩
  · subst e; decide
  · have := h sp.2.1 (by simp) c e; exact ⟨this.1, this.2.1, this.2.2.1⟩
  · subst e; decide
  · have := h sp.2.2 (by simp) c e; exact ⟨this.1, this.2.1, this.2.2.1⟩

theorem headLines_noNL (endian : Str) (sp : Str × Str × Str) (nx ny nz : Nat) (names : List Str) (offsets : List Nat)
    (h : HeadOk endian sp names) : ∀ l ∈ vtkHeadLines endian sp nx ny nz names offsets, '\n' ∉ l := by
  intro l hl
  have hext : '\n' ∉ extentStr nx ny nz := fun hm => (extentStr_plain nx ny nz _ hm).2.2 rfl
  have hsp : '\n' ∉ sp.1 ++ ' ' :: (sp.2.1 ++ ' ' :: sp.2.2) := fun hm => (spacingStr_plain sp h.spacing _ hm).2.2 rfl
  have hend : '\n' ∉ endian := fun hm => (h.endian _ hm).2.2 rfl
  have hnm : ∀ n ∈ names, '\n' ∉ escapeMech n := fun n hn => (escapeMech_chars n).2 (h.names n hn)
  have hhead : '\n' ∉ escapeMech (names.headD []) := by
    cases names with
    | nil => decide
    | cons n ns => exact hnm n (by simp)
  simp only [vtkHeadLines, List.mem_append, List.mem_cons, List.mem_map, List.mem_nil_iff, or_false] at hl
  rcases hl with (e | e | e | e | e) | ⟨p, hp, e⟩ | e | e | e | e
  · subst e; decide
  · subst e
    apply tagLine_noNL _ _ _ (by decide) (by decide)
    intro p hp
    simp only [List.mem_cons, List.mem_nil_iff, or_false] at hp
    rcases hp with e | e | e | e <;> subst e
    · exact ⟨by decide, by decide⟩
    · exact ⟨by decide, by decide⟩
    · exact ⟨by show '\n' ∉ "byte_order".toList; decide, hend⟩
    · exact ⟨by decide, by decide⟩
  · subst e
    apply tagLine_noNL _ _ _ (by decide) (by decide)
    intro p hp
    simp only [List.mem_cons, List.mem_nil_iff, or_false] at hp
    rcases hp with e | e | e <;> subst e
    · exact ⟨by show '\n' ∉ "WholeExtent".toList; decide, hext⟩
    · exact ⟨by decide, by decide⟩
    · exact ⟨by show '\n' ∉ "Spacing".toList; decide, hsp⟩
  · subst e
    apply tagLine_noNL _ _ _ (by decide) (by decide)
    intro p hp
    simp only [List.mem_cons, List.mem_nil_iff, or_false] at hp
    subst hp
    exact ⟨by show '\n' ∉ "Extent".toList; decide, hext⟩
  · subst e
    apply tagLine_noNL _ _ _ (by decide) (by decide)
    intro p hp
    simp only [List.mem_cons, List.mem_nil_iff, or_false] at hp
    subst hp
    exact ⟨by show '\n' ∉ "Scalars".toList; decide, hhead⟩
  · subst e
    unfold arrayLine
    apply tagLine_noNL _ _ _ (by decide) (by decide)
    intro q hq
    simp only [List.mem_cons, List.mem_nil_iff, or_false] at hq
    rcases hq with e | e | e | e <;> subst e
    · exact ⟨by show '\n' ∉ "Name".toList; decide, hnm _ (List.of_mem_zip hp).1⟩
    · exact ⟨by decide, by decide⟩
    · exact ⟨by decide, by decide⟩
    · exact ⟨by show '\n' ∉ "offset".toList; decide, fun hm => (natStr_plain _ _ hm).2.2.2 rfl⟩
  · subst e; decide
  · subst e; decide
  · subst e; decide
  · subst e
    apply tagLine_noNL _ _ _ (by decide) (by decide)
    intro p hp
    simp only [List.mem_cons, List.mem_nil_iff, or_false] at hp
    subst hp
    exact ⟨by decide, by decide⟩
/-- the reader gives back what the writer put into the header lines -/
theorem vtkParse_headLines (endian : Str) (sp : Str × Str × Str) (nx ny nz : Nat) (names : List Str) (offsets : List Nat)
    (h : HeadOk endian sp names) :
    vtkParse ((vtkHeadLines endian sp nx ny nz names offsets).flatMap (· ++ ['\n']) ++ ['_']) =
      some { fileType := "ImageData".toList, version := "1.0".toList, byteOrder := endian, headerType := "UInt64".toList,
             whole := [0, nx, 0, ny, 0, nz], origin := ["0.0".toList, "0.0".toList, "0.0".toList],
             spacing := [sp.1, sp.2.1, sp.2.2], piece := [0, nx, 0, ny, 0, nz], scalars := names.headD [],
             arrays := (List.zip names offsets).map fun p =>
               { name := p.1, type := "Float64".toList, format := "appended".toList, offset := p.2 },
             encoding := "raw".toList } := by
  have hmark : splitOn '\n' ['_'] = [['_']] := by decide
  rw [vtkParse, splitOn_linesToFile_tail _ _ (headLines_noNL endian sp nx ny nz names offsets h), hmark]
  simp only [vtkHeadLines, List.cons_append, List.nil_append, List.append_assoc]
  -- the five opening lines
  have h0 : parseTag "<?xml version=\"1.0\"?>".toList = some Tag.decl := by decide
  have hendq : '"' ∉ endian := fun hm => (h.endian _ hm).1 rfl
  have henda : '&' ∉ endian := fun hm => (h.endian _ hm).2.1 rfl
  have hextq : '"' ∉ extentStr nx ny nz := fun hm => (extentStr_plain nx ny nz _ hm).1 rfl
  have hexta : '&' ∉ extentStr nx ny nz := fun hm => (extentStr_plain nx ny nz _ hm).2.1 rfl
  have hspq : '"' ∉ sp.1 ++ ' ' :: (sp.2.1 ++ ' ' :: sp.2.2) := fun hm => (spacingStr_plain sp h.spacing _ hm).1 rfl
  have hspa : '&' ∉ sp.1 ++ ' ' :: (sp.2.1 ++ ' ' :: sp.2.2) := fun hm => (spacingStr_plain sp h.spacing _ hm).2.1 rfl
  have h1 := openAttrs_tagLine "VTKFile" [("type".toList, "ImageData".toList), ("version".toList, "1.0".toList),
      ("byte_order".toList, endian), ("header_type".toList, "UInt64".toList)] (by decide) (nameChars_ok _ (by decide))
    (by
      intro p hp
      simp only [List.mem_cons, List.mem_nil_iff, or_false] at hp
      rcases hp with e | e | e | e <;> subst e
      · exact ⟨by decide, by decide⟩
      · exact ⟨by decide, by decide⟩
      · exact ⟨by show '=' ∉ "byte_order".toList; decide, hendq⟩
      · exact ⟨by decide, by decide⟩)
  rw [map_unescape_noamp _ (by
      intro p hp
      simp only [List.mem_cons, List.mem_nil_iff, or_false] at hp
      rcases hp with e | e | e | e <;> subst e
      · decide
      · decide
      · exact henda
      · decide)] at h1
  have h2 := openAttrs_tagLine "ImageData" [("WholeExtent".toList, extentStr nx ny nz), ("Origin".toList, "0.0 0.0 0.0".toList),
      ("Spacing".toList, sp.1 ++ ' ' :: (sp.2.1 ++ ' ' :: sp.2.2))] (by decide) (nameChars_ok _ (by decide))
    (by
      intro p hp
      simp only [List.mem_cons, List.mem_nil_iff, or_false] at hp
      rcases hp with e | e | e <;> subst e
      · exact ⟨by show '=' ∉ "WholeExtent".toList; decide, hextq⟩
      · exact ⟨by decide, by decide⟩
      · exact ⟨by show '=' ∉ "Spacing".toList; decide, hspq⟩)
  rw [map_unescape_noamp _ (by
      intro p hp
      simp only [List.mem_cons, List.mem_nil_iff, or_false] at hp
      rcases hp with e | e | e <;> subst e
      · exact hexta
      · decide
      · exact hspa)] at h2
  have h3 := openAttrs_tagLine "Piece" [("Extent".toList, extentStr nx ny nz)] (by decide) (nameChars_ok _ (by decide))
    (by
      intro p hp
      simp only [List.mem_cons, List.mem_nil_iff, or_false] at hp
      subst hp
      exact ⟨by show '=' ∉ "Extent".toList; decide, hextq⟩)
  rw [map_unescape_noamp _ (by
      intro p hp
      simp only [List.mem_cons, List.mem_nil_iff, or_false] at hp
      subst hp
      exact hexta)] at h3
  have h4 := openAttrs_tagLine "CellData" [("Scalars".toList, escapeMech (names.headD []))] (by decide) (nameChars_ok _ (by decide))
    (by
      intro p hp
      simp only [List.mem_cons, List.mem_nil_iff, or_false] at hp
      subst hp
      exact ⟨by show '=' ∉ "Scalars".toList; decide, (escapeMech_chars _).1⟩)
  simp only [List.map_cons, List.map_nil, unescape_escapeMech] at h4
  have h5 := openAttrs_tagLine "AppendedData" [("encoding".toList, "raw".toList)] (by decide) (nameChars_ok _ (by decide))
    (by
      intro p hp
      simp only [List.mem_cons, List.mem_nil_iff, or_false] at hp
      subst hp
      exact ⟨by decide, by decide⟩)
  rw [map_unescape_noamp _ (by
      intro p hp
      simp only [List.mem_cons, List.mem_nil_iff, or_false] at hp
      subst hp
      decide)] at h5
  have hspan := spanArrays_lines (names.zip offsets) ["</Piece>".toList, "</ImageData>".toList,
    tagLine "AppendedData".toList [("encoding".toList, "raw".toList)] ['>'], ['_']]
  have c0 : parseTag "</CellData>".toList = some (Tag.closing "CellData".toList) := by decide
  have c1 : parseTag "</Piece>".toList = some (Tag.closing "Piece".toList) := by decide
  have c2 : parseTag "</ImageData>".toList = some (Tag.closing "ImageData".toList) := by decide
  rw [h0, h1, h2, h3, h4, hspan]
  simp only [c0, c1, c2, and_self, if_true, h5]
  have horg : splitOn ' ' "0.0 0.0 0.0".toList = ["0.0".toList, "0.0".toList, "0.0".toList] := by decide
  have hsps : splitOn ' ' (sp.1 ++ ' ' :: (sp.2.1 ++ ' ' :: sp.2.2)) = [sp.1, sp.2.1, sp.2.2] :=
    spacing_split _ _ _ (fun hm => (h.spacing sp.1 (by simp) _ hm).2.2.2 rfl)
      (fun hm => (h.spacing sp.2.1 (by simp) _ hm).2.2.2 rfl) (fun hm => (h.spacing sp.2.2 (by simp) _ hm).2.2.2 rfl)
  rw [lookup_head, lookup_skip _ _ _ _ (by decide), lookup_head,
    lookup_skip _ _ _ _ (by decide), lookup_skip _ _ _ _ (by decide), lookup_head,
    lookup_skip _ _ _ _ (by decide), lookup_skip _ _ _ _ (by decide), lookup_skip _ _ _ _ (by decide), lookup_head,
    lookup_head, lookup_skip _ _ _ _ (by decide), lookup_head,
    lookup_skip _ _ _ _ (by decide), lookup_skip _ _ _ _ (by decide), lookup_head,
    lookup_head, lookup_head, Option.bind_some, Option.bind_some, lookup_head, parseNats_extentStr]
  simp only [horg, hsps]

end Pew.Export
