import PewProofs.SyncRows

/-! # C08 — the rendered signal: sample times against laser events -/
namespace Pew.Sync

/-! ## counting a prefix -/

theorem count_prefix {β} (l : List β) (f : β → Bool) (Q : Nat)
    (h : ∀ n x, l[n]? = some x → (f x = true ↔ n < Q)) : (l.filter f).length = min Q l.length := by
  induction l generalizing Q with
  | nil => simp
  | cons x xs ih =>
    have hx := h 0 x (by simp)
    cases Q with
    | zero =>
      have hfx : f x = false := by
        cases hf : f x with
        | false => rfl
        | true => exact absurd (hx.mp hf) (by omega)
      have := ih 0 (fun n y hy => by
        have := h (n + 1) y (by simpa using hy)
        constructor
        · intro hf; have := this.mp hf; omega
        · intro hn; omega)
      simp [hfx, this]
    | succ Q =>
      have hfx : f x = true := hx.mpr (by omega)
      have := ih Q (fun n y hy => by
        have := h (n + 1) y (by simpa using hy)
        constructor
        · intro hf; have := this.mp hf; omega
        · intro hn; exact this.mpr (by omega))
      simp [hfx, this]

theorem window_getElem? {β} (l : List β) (s m n : Nat) :
    ((l.drop s).take m)[n]? = if n < m then l[s + n]? else none := by
  rw [List.getElem?_take]
  split
  · rw [List.getElem?_drop]
  · rfl

theorem window_length {β} (l : List β) (s m : Nat) (h : s + m ≤ l.length) : ((l.drop s).take m).length = m := by
  simp; omega

/-- in a window `[s, s+m)` of a list that `f` splits at index `P`, `f` holds for `min (P − s) m` entries -/
theorem count_window {β} (l : List β) (f : β → Bool) (P s m : Nat) (hlen : s + m ≤ l.length)
    (h : ∀ n x, l[n]? = some x → (f x = true ↔ n < P)) :
    (((l.drop s).take m).filter f).length = min (P - s) m := by
  rw [count_prefix _ f (P - s), window_length l s m hlen]
  intro n x hx
  rw [window_getElem?] at hx
  split at hx
  · have := h (s + n) x hx
    rw [this]; omega
  · simp at hx

theorem foldl_min_eq (x : Rat) (l : List Rat) (h : ∀ y ∈ l, x ≤ y) : l.foldl min x = x := by
  induction l with
  | nil => rfl
  | cons y ys ih =>
    have hy := h y (by simp)
    simp only [List.foldl_cons, min_eq_left hy]
    exact ih (fun z hz => h z (by simp [hz]))

/-! ## all samples of an acquisition -/

section acq
variable (a : Acq) (h0 : 0 < a.phase) (h1 : a.phase < 1) (hd : ∀ p ∈ a.patterns, 0 < p.dwell)
include h0 h1

theorem tailS_bounds (s : Sample) (h : s ∈ a.tailS) :
    ((patsEnd 0 a.patterns : Nat) : Rat) < s.t ∧ s.cell = none := by
  unfold Acq.tailS at h
  split at h
  · simp at h
  · rename_i hg
    obtain ⟨j, hj, rfl⟩ := mem_slotSamples _ _ _ _ _ _ h
    exact ⟨(slot_bounds a.phase h0 h1 _ a.tailGap a.tailSamples j hj (by omega)).1, rfl⟩

omit h0 h1 in
theorem tailS_sorted : a.tailS.Pairwise (fun x y => x.t < y.t) := by
  unfold Acq.tailS
  split
  · exact List.Pairwise.nil
  · exact slotSamples_sorted _ _ _ _ _ (by omega)

include hd

omit h0 h1 in
theorem lines_dwell (l : LineRec) (hl : l ∈ a.lines) : 0 < l.p.dwell := hd _ (mem_lines a l hl).1

omit h0 h1 hd in
theorem lines_chained : chained 0 a.lines ∧ lastClock 0 a.lines = patsEnd 0 a.patterns :=
  layPatterns_chained 0 a.patterns

theorem all_sorted : (emitAll a).samples.Pairwise (fun x y => x.t < y.t) := by
  simp only [emitAll]
  rw [List.pairwise_append]
  have hc := lines_chained a
  refine ⟨chain_sorted a.phase h0 h1 0 a.lines hc.1 (lines_dwell a hd), tailS_sorted a, ?_⟩
  intro x hx y hy
  have := (chain_bounds a.phase h0 h1 0 a.lines hc.1 (lines_dwell a hd) x hx).2
  rw [hc.2] at this
  linarith [(tailS_bounds a h0 h1 y hy).1]

/-- the `On` and `Off` events of a line split the acquisition's sample list at the line's prefix sums -/
theorem all_times (lP : LineRec × Nat) (hlP : lP ∈ lineStarts 0 a.lines) (n : Nat) (s : Sample)
    (hs : (emitAll a).samples[n]? = some s) :
    (s.t < (lP.1.on : Rat) ↔ n < lP.2) ∧ (s.t < (lP.1.off : Rat) ↔ n < lP.2 + lP.1.p.npix) := by
  have hc := lines_chained a
  have := layout_times a.phase h0 h1 a.lines 0 0 hc.1 (lines_dwell a hd) a.tailS
    (fun s hs => by rw [hc.2]; exact (tailS_bounds a h0 h1 s hs).1) lP hlP n s hs
  simpa using this

omit hd in
/-- a sample with a stage cell is pixel `j` of a line -/
theorem all_cell_of_index (n : Nat) (s : Sample) (q : Int × Int × Int)
    (hs : (emitAll a).samples[n]? = some s) (hq : s.cell = some q) :
    ∃ lP ∈ lineStarts 0 a.lines, ∃ j, j < lP.1.p.npix ∧ n = lP.2 + j ∧
      q = (lP.1.p.seq, (lP.1.p.stepCell lP.1.i j).1, (lP.1.p.stepCell lP.1.i j).2) := by
  have := layout_cell_of_index a.phase a.lines 0 a.tailS (fun s hs => (tailS_bounds a h0 h1 s hs).2) n s q hs hq
  simpa using this

end acq

/-- pixel `j` of a line is the sample at the line's prefix sum + `j` -/
theorem all_index_of_cell (a : Acq) (lP : LineRec × Nat) (hlP : lP ∈ lineStarts 0 a.lines) (j : Nat)
    (hj : j < lP.1.p.npix) :
    ∃ s, (emitAll a).samples[lP.2 + j]? = some s ∧
      s.cell = some (lP.1.p.seq, (lP.1.p.stepCell lP.1.i j).1, (lP.1.p.stepCell lP.1.i j).2) := by
  exact (layout_index_of_cell a.phase a.lines 0 a.tailS lP hlP j hj).2

/-! ## the rendered times -/

theorem signal_getElem? (a : Acq) (k : Nat) :
    (signal a)[k]? = if k < a.take then (emitAll a).samples[a.skip + k]? else none :=
  window_getElem? _ _ _ _

theorem signal_length (a : Acq) (h : a.skip + a.take ≤ (emitAll a).samples.length) : (signal a).length = a.take :=
  window_length _ _ _ h

theorem signal_sorted (a : Acq) (h0 : 0 < a.phase) (h1 : a.phase < 1) (hd : ∀ p ∈ a.patterns, 0 < p.dwell) :
    (signal a).Pairwise (fun x y => x.t < y.t) :=
  (all_sorted a h0 h1 hd).sublist ((List.take_sublist _ _).trans (List.drop_sublist _ _))

/-- What `sync` does with the rendered times and delay: the sample times shifted to start at zero plus
the delay are the samples' laser-clock times counted from the first firing `f`. -/
theorem shifted_times (a : Acq) (h0 : 0 < a.phase) (h1 : a.phase < 1) (hd : ∀ p ∈ a.patterns, 0 < p.dwell)
    (s0 : Sample) (hs0 : (signal a).head? = some s0) (f : Int) :
    shiftTimes ((signal a).map (fun x => a.t0 + (x.t - s0.t) / 1000)) ((s0.t - (f : Rat)) / 1000)
      = (signal a).map (fun x => (x.t - (f : Rat)) / 1000) := by
  have hsorted := signal_sorted a h0 h1 hd
  cases hsig : signal a with
  | nil => rw [hsig] at hs0; simp at hs0
  | cons x rest =>
    rw [hsig] at hs0 hsorted
    simp only [List.head?_cons, Option.some.injEq] at hs0
    subst hs0
    rw [List.pairwise_cons] at hsorted
    have hmin : minRat ((x :: rest).map (fun y => a.t0 + (y.t - x.t) / 1000)) = a.t0 := by
      simp only [List.map_cons, minRat]
      rw [foldl_min_eq]
      · simp
      · intro y hy
        obtain ⟨z, hz, rfl⟩ := List.mem_map.mp hy
        have := hsorted.1 z hz
        simp only [sub_self, zero_div, add_zero]
        have : 0 ≤ (z.t - x.t) / 1000 := div_nonneg (by linarith) (by norm_num)
        linarith
    unfold shiftTimes
    simp only [hmin, List.map_map]
    apply List.map_congr_left
    intro y _
    simp only [Function.comp]
    ring

/-- `searchsorted` of a laser event at laser clock `v` in the shifted times counts the samples of the
signal recorded before `v`; if the event splits the acquisition's samples at index `P`, that is
`min (P − skip) take`. -/
theorem searchsorted_event (a : Acq)
    (hlen : a.skip + a.take ≤ (emitAll a).samples.length)
    (f : Int) (v P : Nat)
    (hP : ∀ n s, (emitAll a).samples[n]? = some s → (s.t < (v : Rat) ↔ n < P)) :
    searchsorted ((signal a).map (fun x => (x.t - (f : Rat)) / 1000)) ((((v : Int) - f : Int) : Rat) / 1000)
      = min (P - a.skip) a.take := by
  unfold searchsorted
  rw [List.filter_map, List.length_map]
  have hfun : ((fun (t : Rat) => decide (t < (((v : Int) - f : Int) : Rat) / 1000)) ∘
      (fun (x : Sample) => (x.t - (f : Rat)) / 1000)) = (fun (x : Sample) => decide (x.t < (v : Rat))) := by
    funext x
    simp only [Function.comp]
    congr 1
    apply propext
    push_cast
    constructor
    · intro h
      have := (div_lt_div_iff_of_pos_right (by norm_num : (0 : Rat) < 1000)).mp h
      linarith
    · intro h
      exact (div_lt_div_iff_of_pos_right (by norm_num : (0 : Rat) < 1000)).mpr (by linarith)
  rw [hfun]
  unfold signal
  apply count_window _ _ P a.skip a.take hlen
  intro n x hx
  simp only [decide_eq_true_eq]
  exact hP n x hx

end Pew.Sync
