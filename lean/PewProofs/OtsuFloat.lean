import PewProofs.OtsuScale
import Mathlib.Data.List.Forall2

/-! # C15 — the criterion in floating point: every computed entry is within the budget of the exact one -/
namespace Pew.Otsu


/-- the computed value `x` is within the bound of the exact value -/
def Near (x : Rat) (p : EB) : Prop := |x - p.1| ≤ p.2

section
variable {fl : Rat → Rat} {u η : Rat} (hu : 0 ≤ u) (hfl : ∀ x, |fl x - x| ≤ u * |x| + η)
include hu hfl

omit hu hfl in
theorem le_upB (q : Rat) : q ≤ upB q := by
  unfold upB
  have hG : (0 : Rat) < ((2 ^ 1200 : Nat) : Rat) := Nat.cast_pos.mpr (Nat.two_pow_pos 1200)
  rw [le_div_iff₀ hG]
  exact Rat.le_ceil

theorem near_rnd {x : Rat} {p : EB} (h : Near x p) : Near (fl x) (rndB u η p) := by
  unfold Near rndB at *
  simp only [absQ_eq_abs]
  refine le_trans ?_ (le_upB _)
  have h1 := hfl x
  have h2 : |x| ≤ |p.1| + p.2 := by
    have := abs_sub_abs_le_abs_sub x p.1
    linarith
  have h3 : |fl x - p.1| ≤ |fl x - x| + |x - p.1| := by
    have := abs_sub_le (fl x) x p.1
    linarith
  have h4 : u * |x| ≤ u * (|p.1| + p.2) := mul_le_mul_of_nonneg_left h2 hu
  nlinarith

end

theorem near_exact (x : Rat) : Near x (x, 0) := by simp [Near]

theorem near_nonneg {x : Rat} {p : EB} (h : Near x p) : 0 ≤ p.2 := le_trans (abs_nonneg _) h

theorem near_add {x y : Rat} {p q : EB} (hx : Near x p) (hy : Near y q) : Near (x + y) (addB p q) := by
  unfold Near addB at *
  have : x + y - (p.1 + q.1) = (x - p.1) + (y - q.1) := by ring
  rw [this]
  exact le_trans (abs_add_le _ _) (add_le_add hx hy)

theorem near_sub {x y : Rat} {p q : EB} (hx : Near x p) (hy : Near y q) : Near (x - y) (subB p q) := by
  unfold Near subB at *
  have : x - y - (p.1 - q.1) = (x - p.1) - (y - q.1) := by ring
  rw [this]
  exact le_trans (abs_sub _ _) (add_le_add hx hy)

theorem near_mul {x y : Rat} {p q : EB} (hx : Near x p) (hy : Near y q) : Near (x * y) (mulB p q) := by
  unfold Near mulB at *
  simp only [absQ_eq_abs]
  have e : x * y - p.1 * q.1 = p.1 * (y - q.1) + q.1 * (x - p.1) + (x - p.1) * (y - q.1) := by ring
  rw [e]
  have h1 : |p.1 * (y - q.1)| ≤ |p.1| * q.2 := by
    rw [abs_mul]; exact mul_le_mul_of_nonneg_left hy (abs_nonneg _)
  have h2 : |q.1 * (x - p.1)| ≤ |q.1| * p.2 := by
    rw [abs_mul]; exact mul_le_mul_of_nonneg_left hx (abs_nonneg _)
  have h3 : |(x - p.1) * (y - q.1)| ≤ p.2 * q.2 := by
    rw [abs_mul]; exact mul_le_mul hx hy (abs_nonneg _) (le_trans (abs_nonneg _) hx)
  have := abs_add_three (p.1 * (y - q.1)) (q.1 * (x - p.1)) ((x - p.1) * (y - q.1))
  linarith

theorem near_div {x : Rat} {p : EB} (hx : Near x p) (w : Rat) : Near (x / w) (divB p w) := by
  unfold Near divB at *
  simp only [absQ_eq_abs]
  rw [← sub_div, abs_div]
  exact div_le_div_of_nonneg_right hx (abs_nonneg w)

/-! ### lists -/

open List in
theorem forall₂_zipWith {α β γ δ ε ζ : Type} {R : α → β → Prop} {S : γ → δ → Prop} {T : ε → ζ → Prop}
    {f : α → γ → ε} {g : β → δ → ζ} (hT : ∀ a b c d, R a b → S c d → T (f a c) (g b d)) :
    ∀ {as : List α} {bs : List β} {cs : List γ} {ds : List δ}, Forall₂ R as bs → Forall₂ S cs ds →
      Forall₂ T (zipWith f as cs) (zipWith g bs ds)
  | _, _, _, _, .nil, _ => by simp
  | _, _, _, _, .cons _ _, .nil => by simp
  | _, _, _, _, .cons h1 t1, .cons h2 t2 => by
    simp only [zipWith_cons_cons]
    exact .cons (hT _ _ _ _ h1 h2) (forall₂_zipWith hT t1 t2)

open List in
theorem forall₂_eq_self {α : Type} (l : List α) : Forall₂ (· = ·) l l := by
  induction l with
  | nil => exact .nil
  | cons a l ih => exact .cons rfl ih

open List in
theorem forall₂_tail {α β : Type} {R : α → β → Prop} {as : List α} {bs : List β} (h : Forall₂ R as bs) :
    Forall₂ R as.tail bs.tail := by
  cases h with
  | nil => exact .nil
  | cons _ t => exact t

open List in
theorem forall₂_map {α β γ δ : Type} {R : α → β → Prop} {T : γ → δ → Prop} {f : α → γ} {g : β → δ}
    (hT : ∀ a b, R a b → T (f a) (g b)) {as : List α} {bs : List β} (h : Forall₂ R as bs) :
    Forall₂ T (as.map f) (bs.map g) := by
  induction h with
  | nil => exact .nil
  | cons h _ ih => exact .cons (hT _ _ h) ih

section
variable {fl : Rat → Rat} {u η : Rat} (hu : 0 ≤ u) (hfl : ∀ x, |fl x - x| ≤ u * |x| + η)
include hu hfl

open List in
theorem near_cumsumFrom : ∀ {as : List Rat} {bs : List EB} {acc : Rat} {accB : EB}, Near acc accB →
    Forall₂ Near as bs → Forall₂ Near (cumsumFromR fl acc as) (cumsumFromB u η accB bs)
  | _, _, _, _, _, .nil => .nil
  | _, _, _, _, hacc, .cons h t => by
    simp only [cumsumFromR, cumsumFromB]
    have := near_rnd hu hfl (near_add hacc h)
    exact .cons this (near_cumsumFrom this t)

open List in
theorem near_cumsum {as : List Rat} {bs : List EB} (h : Forall₂ Near as bs) :
    Forall₂ Near (cumsumR fl as) (cumsumB u η bs) := by
  cases h with
  | nil => exact .nil
  | cons h t => exact .cons h (near_cumsumFrom hu hfl h t)

open List in
/-- the float criterion array is, entry by entry, within the budget of the exact one -/
theorem near_critList (hist : List Nat) {cs : List Rat} {csB : List EB} (hc : Forall₂ Near cs csB) :
    Forall₂ Near (critListR fl hist cs) (critListB u η hist csB) := by
  unfold critListR critListB
  simp only
  generalize hist.map (fun (k : Nat) => (k : Rat)) = h
  have hhc : Forall₂ Near (zipWith (fun a c => fl (a * c)) h cs)
      (zipWith (fun a c => rndB u η (mulB (a, 0) c)) h csB) :=
    forall₂_zipWith (R := (· = ·)) (fun a b c d hab hcd => by
      subst hab; exact near_rnd hu hfl (near_mul (near_exact a) hcd)) (forall₂_eq_self h) hc
  have hu1 := forall₂_zipWith (S := (· = ·)) (T := Near) (f := fun s w => fl (s / w))
      (g := fun s w => rndB u η (divB s w))
      (fun a b c d hab hcd => by subst hcd; exact near_rnd hu hfl (near_div hab c))
      (near_cumsum hu hfl hhc) (forall₂_eq_self (cumsum h))
  have hu2 := forall₂_zipWith (S := (· = ·)) (T := Near) (f := fun s w => fl (s / w))
      (g := fun s w => rndB u η (divB s w))
      (fun a b c d hab hcd => by subst hcd; exact near_rnd hu hfl (near_div hab c))
      (near_cumsum hu hfl (rel_reverse hhc)) (forall₂_eq_self (cumsum h.reverse).reverse.reverse)
  have hdu := forall₂_zipWith (T := Near) (f := fun a b => fl (a - b)) (g := fun a b => rndB u η (subB a b))
      (fun a b c d hab hcd => near_rnd hu hfl (near_sub hab hcd)) hu1 (forall₂_tail (rel_reverse hu2))
  exact forall₂_zipWith (R := (· = ·)) (fun a b c d hab hcd => by
      subst hab
      exact near_rnd hu hfl (near_mul (near_rnd hu hfl (near_exact a)) (near_rnd hu hfl (near_mul hcd hcd))))
    (forall₂_eq_self _) hdu

open List in
theorem near_scaledCentres (edges : List Rat) :
    Forall₂ Near (scaledCentresR fl edges) (scaledCentresB u η edges) := by
  unfold scaledCentresR scaledCentresB centresR centresB
  apply forall₂_map (R := Near)
  · intro a b hab
    exact near_mul (near_exact _) hab
  · exact forall₂_zipWith (R := (· = ·)) (S := (· = ·)) (fun a b c d hab hcd => by
      subst hab; subst hcd
      exact near_rnd hu hfl (near_div (near_rnd hu hfl (near_exact (a + c))) 2)) (forall₂_eq_self _) (forall₂_eq_self _)

end

/-! ### the exact components of the budget program are the exact criterion -/

theorem cumsumFromB_fst (u η : Rat) : ∀ (l : List EB) (acc : EB),
    (cumsumFromB u η acc l).map Prod.fst = (cumsum (l.map Prod.fst)).map (acc.1 + ·)
  | [], _ => rfl
  | a :: l, acc => by
    simp only [cumsumFromB, List.map_cons, cumsum, cumsumFromB_fst u η l, List.map_map]
    congr 1
    apply List.map_congr_left
    intro x _
    simp only [Function.comp, rndB, addB]
    ring

theorem cumsumB_fst (u η : Rat) (l : List EB) : (cumsumB u η l).map Prod.fst = cumsum (l.map Prod.fst) := by
  cases l with
  | nil => rfl
  | cons a l => simp only [cumsumB, List.map_cons, cumsum, cumsumFromB_fst]

theorem critListB_fst (u η : Rat) (hist : List Nat) (csB : List EB) :
    (critListB u η hist csB).map Prod.fst = critList hist (csB.map Prod.fst) := by
  unfold critListB critList
  simp only
  generalize hist.map (fun (k : Nat) => (k : Rat)) = h
  have hhc : (List.zipWith (fun a c => rndB u η (mulB (a, 0) c)) h csB).map Prod.fst
      = List.zipWith (· * ·) h (csB.map Prod.fst) := by
    rw [List.map_zipWith, List.zipWith_map_right]; rfl
  have hdiv : ∀ (sB : List EB) (ws : List Rat),
      (List.zipWith (fun s w => rndB u η (divB s w)) sB ws).map Prod.fst = List.zipWith (· / ·) (sB.map Prod.fst) ws := by
    intro sB ws
    rw [List.map_zipWith, List.zipWith_map_left]; rfl
  have hu1 := hdiv (cumsumB u η (List.zipWith (fun a c => rndB u η (mulB (a, 0) c)) h csB)) (cumsum h)
  rw [cumsumB_fst, hhc] at hu1
  have hu2 := hdiv (cumsumB u η (List.zipWith (fun a c => rndB u η (mulB (a, 0) c)) h csB).reverse)
    (cumsum h.reverse).reverse.reverse
  rw [cumsumB_fst, List.map_reverse, hhc] at hu2
  rw [List.map_zipWith]
  rw [← hu1, ← hu2]
  rw [← List.map_reverse, ← List.map_tail, List.zipWith_map_left, List.zipWith_map_right,
    List.zipWith_zipWith_right]
  rw [List.zipWith_zipWith_right]
  congr 1
  funext a b c
  simp only [rndB, mulB, subB]
  ring

theorem centresB_fst (u η : Rat) (edges : List Rat) : (centresB u η edges).map Prod.fst = centres edges := by
  unfold centresB centres
  rw [List.map_zipWith]
  rfl

theorem scaledCentresB_fst (u η : Rat) (edges : List Rat) :
    (scaledCentresB u η edges).map Prod.fst = scaledCentres edges := by
  unfold scaledCentresB scaledCentres
  rw [← centresB_fst u η edges, List.map_map, List.map_map]
  rfl

open List in
theorem near_getD {xs : List Rat} {ps : List EB} (h : Forall₂ Near xs ps) :
    ∀ (i : Nat), i < xs.length → |xs.getD i 0 - (ps.map Prod.fst).getD i 0| ≤ (ps.getD i (0, 0)).2 := by
  induction h with
  | nil => intro i hi; simp at hi
  | cons h _ ih =>
    intro i hi
    cases i with
    | zero => simpa [Near] using h
    | succ i => simpa using ih i (by simpa using hi)

theorem cumsumFromR_length (fl : Rat → Rat) : ∀ (l : List Rat) (acc : Rat), (cumsumFromR fl acc l).length = l.length
  | [], _ => rfl
  | a :: l, acc => by simp [cumsumFromR, cumsumFromR_length fl l]

@[simp] theorem cumsumR_length (fl : Rat → Rat) (l : List Rat) : (cumsumR fl l).length = l.length := by
  cases l with
  | nil => rfl
  | cons a l => simp [cumsumR, cumsumFromR_length]

theorem critListR_length (fl : Rat → Rat) (hist : List Nat) (cs : List Rat) (hc : cs.length = hist.length) :
    (critListR fl hist cs).length = hist.length - 1 := by
  simp [critListR, hc]

theorem scaledCentresR_length (fl : Rat → Rat) (edges : List Rat) :
    (scaledCentresR fl edges).length = edges.length - 1 := by
  simp [scaledCentresR, centresR]

theorem scaledCentres_length (edges : List Rat) : (scaledCentres edges).length = edges.length - 1 := by
  simp [scaledCentres]

/-- T1 -/
theorem float_criterion_within_budget' (fl : Rat → Rat) (u η : Rat) (hu : 0 ≤ u)
    (hfl : ∀ x, |fl x - x| ≤ u * |x| + η)
    (hist : List Nat) (edges : List Rat) (he : edges.length = hist.length + 1) (i : Nat) (hi : i + 1 < hist.length) :
    |(critListR fl hist (scaledCentresR fl edges)).getD i 0 - specCrit hist (scaledCentres edges) i|
      ≤ ((critListB u η hist (scaledCentresB u η edges)).getD i (0, 0)).2 := by
  have hN := near_critList hu hfl hist (near_scaledCentres hu hfl edges)
  have hlen : (critListR fl hist (scaledCentresR fl edges)).length = hist.length - 1 :=
    critListR_length fl hist _ (by rw [scaledCentresR_length, he]; omega)
  have := near_getD hN i (by rw [hlen]; omega)
  rw [critListB_fst, scaledCentresB_fst] at this
  have hcl : (scaledCentres edges).length = hist.length := by rw [scaledCentres_length, he]; omega
  have key : (critList hist (scaledCentres edges)).getD i 0 = specCrit hist (scaledCentres edges) i := by
    rw [List.getD_eq_getElem?_getD, critList_getElem? hist _ hcl i hi]; rfl
  rwa [key] at this

/-- T2 -/
theorem float_argmax_within_budget' (fl : Rat → Rat) (u η : Rat) (hu : 0 ≤ u)
    (hfl : ∀ x, |fl x - x| ≤ u * |x| + η)
    (hist : List Nat) (edges : List Rat) (hn : 2 ≤ hist.length) (he : edges.length = hist.length + 1) :
    argmaxFirst (critListR fl hist (scaledCentresR fl edges)) + 1 < hist.length ∧
    otsuHistR fl hist edges = (centresR fl edges).getD (argmaxFirst (critListR fl hist (scaledCentresR fl edges))) 0 ∧
    ∀ j, j + 1 < hist.length →
      specCrit hist (scaledCentres edges) j ≤
        specCrit hist (scaledCentres edges) (argmaxFirst (critListR fl hist (scaledCentresR fl edges)))
        + ((critListB u η hist (scaledCentresB u η edges)).getD
            (argmaxFirst (critListR fl hist (scaledCentresR fl edges))) (0, 0)).2
        + ((critListB u η hist (scaledCentresB u η edges)).getD j (0, 0)).2 := by
  have hlen : (critListR fl hist (scaledCentresR fl edges)).length = hist.length - 1 :=
    critListR_length fl hist _ (by rw [scaledCentresR_length, he]; omega)
  have hne : critListR fl hist (scaledCentresR fl edges) ≠ [] := by
    intro h; rw [h] at hlen; simp at hlen; omega
  obtain ⟨hlt, hmax⟩ := argmaxFirst_spec _ hne
  rw [hlen] at hlt
  refine ⟨by omega, rfl, fun j hj => ?_⟩
  have b1 := float_criterion_within_budget' fl u η hu hfl hist edges he j hj
  have b2 := float_criterion_within_budget' fl u η hu hfl hist edges he _ (by omega : argmaxFirst (critListR fl hist (scaledCentresR fl edges)) + 1 < hist.length)
  have b3 := (hmax j (by rw [hlen]; omega)).1
  have c1 := abs_le.mp b1
  have c2 := abs_le.mp b2
  linarith [c1.1, c2.2]

theorem specCrit_scaled_units (hist : List Nat) (edges : List Rat) (i : Nat) :
    specCrit hist (scaledCentres edges) i = pow2 (-(scaleExp edges)) ^ 2 * specCrit hist (centres edges) i := by
  unfold scaledCentres
  exact specCrit_scale _ hist _ i

end Pew.Otsu
