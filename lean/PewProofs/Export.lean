import PewModel.Export

namespace Pew.Export

/-! ### split / join -/

theorem splitOn_ne_nil (d : Char) (s : Str) : splitOn d s ≠ [] := by
  induction s with
  | nil => simp [splitOn]
  | cons c cs ih =>
    simp only [splitOn]
    split
    · simp
    · split <;> simp

theorem splitOn_clean (d : Char) (s : Str) (h : d ∉ s) : splitOn d s = [s] := by
  induction s with
  | nil => rfl
  | cons c cs ih =>
    have hc : c ≠ d := fun e => h (by simp [e])
    have hcs : d ∉ cs := fun e => h (by simp [e])
    simp only [splitOn, if_neg hc, ih hcs]

theorem splitOn_append (d : Char) (x rest : Str) (h : d ∉ x) :
    splitOn d (x ++ d :: rest) = x :: splitOn d rest := by
  induction x with
  | nil => simp [splitOn]
  | cons c cs ih =>
    have hc : c ≠ d := fun e => h (by simp [e])
    have hcs : d ∉ cs := fun e => h (by simp [e])
    simp only [List.cons_append, splitOn, if_neg hc, ih hcs]

theorem splitOn_join (d : Char) (fs : List Str) (hne : fs ≠ []) (h : ∀ f ∈ fs, d ∉ f) :
    splitOn d (join d fs) = fs := by
  induction fs with
  | nil => exact absurd rfl hne
  | cons x r ih =>
    cases r with
    | nil => simp only [join]; exact splitOn_clean d x (h x (by simp))
    | cons y r =>
      simp only [join]
      rw [splitOn_append d x _ (h x (by simp)), ih (by simp) (fun f hf => h f (by simp [hf]))]

/-! ### text round trip -/

section text
variable {α : Type}

/-- the assumptions on the opaque number printer / converter (`'%.18g' % x` and `float`) -/
structure Clean (fmt : α → Str) (conv : Str → α) : Prop where
  roundtrip : ∀ x, conv (fmt x) = x
  nonempty : ∀ x, fmt x ≠ []
  chars : ∀ x, ∀ c ∈ fmt x, c ≠ ',' ∧ c ≠ ';' ∧ c ≠ '\t' ∧ c ≠ '\n' ∧ c ≠ '\r' ∧ c ≠ '#' ∧ c ≠ ' '

def linesToFile (ls : List Str) : Str := ls.flatMap (· ++ ['\n'])

theorem splitOn_linesToFile (ls : List Str) (h : ∀ l ∈ ls, '\n' ∉ l) :
    splitOn '\n' (linesToFile ls) = ls ++ [[]] := by
  induction ls with
  | nil => rfl
  | cons l ls ih =>
    simp only [linesToFile, List.flatMap_cons, List.append_assoc, List.singleton_append]
    rw [splitOn_append '\n' l _ (h l (by simp))]
    simp only [List.cons_append, List.cons.injEq, true_and]
    exact ih (fun x hx => h x (by simp [hx]))

/-- iterating over a file whose lines are all terminated yields the lines with their terminator -/
theorem pyLines_linesToFile (ls : List Str) (h : ∀ l ∈ ls, '\n' ∉ l) :
    pyLines (linesToFile ls) = ls.map (· ++ ['\n']) := by
  simp [pyLines, splitOn_linesToFile ls h]

/-- a text without carriage returns is read as it is -/
theorem universalNewlines_noCR (s : Str) (h : '\r' ∉ s) : universalNewlines false s = s := by
  induction s with
  | nil => rfl
  | cons c cs ih =>
    have hc : c ≠ '\r' := fun e => h (by simp [e])
    have hcs : '\r' ∉ cs := fun e => h (by simp [e])
    by_cases hn : c = '\n'
    · subst hn; simp [universalNewlines, ih hcs]
    · simp [universalNewlines, hc, hn, ih hcs]

theorem mem_join (d : Char) (fs : List Str) (c : Char) (hc : c ∈ join d fs) :
    c = d ∨ ∃ f ∈ fs, c ∈ f := by
  induction fs with
  | nil => simp [join] at hc
  | cons x r ih =>
    cases r with
    | nil => simp only [join] at hc; exact Or.inr ⟨x, by simp, hc⟩
    | cons y r =>
      simp only [join, List.mem_append, List.mem_cons] at hc
      rcases hc with h | h | h
      · exact Or.inr ⟨x, by simp, h⟩
      · exact Or.inl h
      · rcases ih h with e | ⟨f, hf, hcf⟩
        · exact Or.inl e
        · exact Or.inr ⟨f, by simp [hf], hcf⟩

theorem join_ne_nil (d : Char) (fs : List Str) (hne : fs ≠ []) (h : ∀ f ∈ fs, f ≠ []) : join d fs ≠ [] := by
  cases fs with
  | nil => exact absurd rfl hne
  | cons x r =>
    cases r with
    | nil => simpa [join] using h x (by simp)
    | cons y r => simp [join]

theorem normalise_clean (l : Str) (h : ∀ c ∈ l, c ≠ ';' ∧ c ≠ '\t') : normalise l = l := by
  unfold normalise
  induction l with
  | nil => rfl
  | cons c cs ih =>
    have hc := h c (by simp)
    simp only [List.map_cons, List.cons.injEq]
    exact ⟨by simp [hc.1, hc.2], ih (fun x hx => h x (by simp [hx]))⟩

theorem cutComment_clean (l : Str) (h : ∀ c ∈ l, c ≠ '#') : cutComment l = l := by
  unfold cutComment
  induction l with
  | nil => rfl
  | cons c cs ih =>
    have hc := h c (by simp)
    simp only [List.takeWhile_cons, ne_eq, hc, not_false_eq_true, decide_true, if_true, List.cons.injEq, true_and]
    exact ih (fun x hx => h x (by simp [hx]))

theorem dropWhile_head_false (p : Char → Bool) (l : Str) (h : ∀ c, l.head? = some c → p c = false) :
    l.dropWhile p = l := by
  cases l with
  | nil => rfl
  | cons a t => simp [h a rfl]

/-- a line whose characters are not stripped, followed by its terminator, is stripped to the line -/
theorem strip_line (s : Str) (hne : s ≠ []) (h : ∀ c ∈ s, isStripChar c = false) :
    strip (s ++ ['\n']) = s := by
  unfold strip
  have h1 : (s ++ ['\n']).dropWhile isStripChar = s ++ ['\n'] := by
    apply dropWhile_head_false
    intro c hc
    cases s with
    | nil => exact absurd rfl hne
    | cons a t => simp at hc; subst hc; exact h a (by simp)
  rw [h1, List.reverse_append]
  have h2 : (['\n'].reverse ++ s.reverse).dropWhile isStripChar = s.reverse := by
    have : isStripChar '\n' = true := by decide
    simp only [List.reverse_cons, List.reverse_nil, List.nil_append, List.singleton_append, List.dropWhile_cons,
      this, if_true]
    apply dropWhile_head_false
    intro c hc
    have : c ∈ s := by
      have : c ∈ s.reverse := List.mem_of_mem_head? hc
      simpa using this
    exact h c this
  rw [h2, List.reverse_reverse]

def rowLine (fmt : α → Str) (row : List α) : Str := join ',' (row.map fmt)

theorem rowLine_chars (fmt : α → Str) (conv : Str → α) (hc : Clean fmt conv) (row : List α) :
    ∀ c ∈ rowLine fmt row, c ≠ ';' ∧ c ≠ '\t' ∧ c ≠ '\n' ∧ c ≠ '\r' ∧ c ≠ '#' ∧ c ≠ ' ' := by
  intro c hcm
  rcases mem_join _ _ _ hcm with e | ⟨f, hf, hcf⟩
  · rw [e]; decide
  · obtain ⟨x, _, rfl⟩ := List.mem_map.mp hf
    exact (hc.chars x c hcf).2

theorem rowLine_ne_nil (fmt : α → Str) (conv : Str → α) (hc : Clean fmt conv) (row : List α) (hrow : row ≠ []) :
    rowLine fmt row ≠ [] :=
  join_ne_nil _ _ (by simpa using hrow)
    (fun f hf => by obtain ⟨x, _, rfl⟩ := List.mem_map.mp hf; exact hc.nonempty x)

/-- the splitter gives back the printed fields of a written row (comma separated, terminated) -/
theorem splitLine_rowLine (fmt : α → Str) (conv : Str → α) (hc : Clean fmt conv) (row : List α) (hrow : row ≠ []) :
    splitLine (normalise (rowLine fmt row ++ ['\n'])) = row.map fmt := by
  have hch := rowLine_chars fmt conv hc row
  have hnorm : normalise (rowLine fmt row ++ ['\n']) = rowLine fmt row ++ ['\n'] := by
    apply normalise_clean
    intro c hcm
    rcases List.mem_append.mp hcm with h | h
    · exact ⟨(hch c h).1, (hch c h).2.1⟩
    · simp at h; subst h; decide
  have hcut : cutComment (rowLine fmt row ++ ['\n']) = rowLine fmt row ++ ['\n'] := by
    apply cutComment_clean
    intro c hcm
    rcases List.mem_append.mp hcm with h | h
    · exact (hch c h).2.2.2.2.1
    · simp at h; subst h; decide
  have hne := rowLine_ne_nil fmt conv hc row hrow
  have hstrip : strip (rowLine fmt row ++ ['\n']) = rowLine fmt row := by
    apply strip_line _ hne
    intro c hcm
    have := hch c hcm
    simp [isStripChar, this.2.2.1, this.2.2.2.1, this.2.2.2.2.2]
  have hnocomma : ∀ f ∈ row.map fmt, ',' ∉ f := by
    intro f hf hcf
    obtain ⟨x, _, rfl⟩ := List.mem_map.mp hf
    exact (hc.chars x ',' hcf).1 rfl
  unfold splitLine
  simp only [hnorm, hcut, hstrip, if_neg hne]
  exact splitOn_join ',' _ (by simpa using hrow) hnocomma

/-- a line that starts with the comment character has no field, whatever follows -/
theorem splitLine_comment (rest : Str) : splitLine (normalise ('#' :: rest)) = [] := by
  simp [splitLine, normalise, cutComment, strip]

/-- the header text is one comment line per line of the header -/
theorem headerText_lines (h : Str) (hne : h ≠ []) :
    headerText h = linesToFile ((splitOn '\n' h).map ('#' :: ·)) := by
  have key : ∀ t : Str, t.flatMap (fun c => if c = '\n' then ['\n', '#'] else [c]) ++ ['\n']
      = (match splitOn '\n' t with
          | [] => []
          | x :: xs => x ++ '\n' :: linesToFile (xs.map ('#' :: ·))) := by
    intro t
    induction t with
    | nil => simp [splitOn, linesToFile]
    | cons c cs ih =>
      by_cases hc : c = '\n'
      · subst hc
        simp only [List.flatMap_cons, if_true, splitOn, List.nil_append, List.cons_append]
        rw [ih]
        cases hs : splitOn '\n' cs with
        | nil => exact absurd hs (splitOn_ne_nil _ _)
        | cons x xs => simp [linesToFile]
      · simp only [List.flatMap_cons, if_neg hc, splitOn, List.cons_append, List.nil_append]
        rw [ih]
        cases hs : splitOn '\n' cs with
        | nil => exact absurd hs (splitOn_ne_nil _ _)
        | cons x xs => simp
  unfold headerText
  rw [if_neg hne, List.cons_append, key h]
  cases hs : splitOn '\n' h with
  | nil => exact absurd hs (splitOn_ne_nil _ _)
  | cons x xs => simp [linesToFile]

theorem splitOn_no_delim (d : Char) (s : Str) : ∀ l ∈ splitOn d s, d ∉ l := by
  induction s with
  | nil => simp [splitOn]
  | cons c cs ih =>
    intro l hl
    by_cases hc : c = d
    · simp only [splitOn, if_pos hc] at hl
      rcases List.mem_cons.mp hl with e | e
      · subst e; simp
      · exact ih l e
    · simp only [splitOn, if_neg hc] at hl
      cases hs : splitOn d cs with
      | nil => exact absurd hs (splitOn_ne_nil _ _)
      | cons x xs =>
        rw [hs] at hl ih
        rcases List.mem_cons.mp hl with e | e
        · subst e
          intro hm
          rcases List.mem_cons.mp hm with e2 | e2
          · exact hc e2.symm
          · exact ih x (by simp) e2
        · exact ih l (by simp [e])

def hdrLines (h : Str) : List Str := if h = [] then [] else (splitOn '\n' h).map ('#' :: ·)

theorem saveText_lines (fmt : α → Str) (header : Str) (img : List (List α)) :
    saveText fmt header img = linesToFile (hdrLines header ++ img.map (rowLine fmt)) := by
  have hrows : (img.flatMap fun row => join ',' (row.map fmt) ++ ['\n']) = linesToFile (img.map (rowLine fmt)) := by
    simp [linesToFile, rowLine, List.flatMap_map]
  unfold saveText hdrLines
  rw [hrows]
  by_cases hh : header = []
  · simp [hh, headerText, linesToFile]
  · rw [headerText_lines header hh, if_neg hh]
    simp [linesToFile]

theorem fieldRows_append (a b : List Str) : fieldRows (a ++ b) = fieldRows a ++ fieldRows b := by
  simp [fieldRows]

theorem fieldRows_header (h : Str) : fieldRows (((hdrLines h).map (· ++ ['\n'])).map normalise) = [] := by
  unfold hdrLines fieldRows
  by_cases hh : h = []
  · simp [hh]
  · rw [if_neg hh]
    simp only [List.map_map]
    rw [List.filter_eq_nil_iff]
    intro r hr
    obtain ⟨l, _, rfl⟩ := List.mem_map.mp hr
    simp [splitLine_comment]

theorem fieldRows_rows (fmt : α → Str) (conv : Str → α) (hc : Clean fmt conv) (img : List (List α))
    (hne : ∀ row ∈ img, row ≠ []) :
    fieldRows (((img.map (rowLine fmt)).map (· ++ ['\n'])).map normalise) = img.map (·.map fmt) := by
  induction img with
  | nil => rfl
  | cons row img ih =>
    have hrow := hne row (by simp)
    have := splitLine_rowLine fmt conv hc row hrow
    simp only [fieldRows, List.map_cons, this] at ih ⊢
    rw [List.filter_cons_of_pos (by simpa using hrow)]
    rw [ih (fun r hr => hne r (by simp [hr]))]

/-- the rows of fields `genfromtxt` finds in a saved file: exactly the printed values -/
theorem fieldRows_saved (fmt : α → Str) (conv : Str → α) (hc : Clean fmt conv)
    (header : Str) (hh : '\r' ∉ header) (img : List (List α)) (hne : ∀ row ∈ img, row ≠ []) :
    fieldRows (loaderLines (saveText fmt header img)) = img.map (·.map fmt) := by
  have hnl : ∀ l ∈ hdrLines header ++ img.map (rowLine fmt), '\n' ∉ l := by
    intro l hl
    rcases List.mem_append.mp hl with h | h
    · unfold hdrLines at h
      split at h
      · simp at h
      · obtain ⟨p, hp, rfl⟩ := List.mem_map.mp h
        intro hm
        rcases List.mem_cons.mp hm with e | e
        · exact absurd e (by decide)
        · exact splitOn_no_delim '\n' header p hp e
    · obtain ⟨row, _, rfl⟩ := List.mem_map.mp h
      intro hm
      exact (rowLine_chars fmt conv hc row _ hm).2.2.1 rfl
  have hcr : '\r' ∉ saveText fmt header img := by
    intro hm
    unfold saveText at hm
    rcases List.mem_append.mp hm with h | h
    · unfold headerText at h
      split at h
      · simp at h
      · simp only [List.cons_append, List.mem_cons, List.mem_append, List.mem_flatMap] at h
        rcases h with e | ⟨c, hcm, hx⟩ | e
        · exact absurd e (by decide)
        · split at hx
          · simp at hx
          · simp at hx; subst hx; exact hh hcm
        · simp at e
    · obtain ⟨row, _, hx⟩ := List.mem_flatMap.mp h
      rcases List.mem_append.mp hx with e | e
      · exact (rowLine_chars fmt conv hc row _ e).2.2.2.1 rfl
      · simp at e
  unfold loaderLines
  rw [universalNewlines_noCR _ hcr, saveText_lines, pyLines_linesToFile _ hnl, List.map_append, List.map_append,
    fieldRows_append, fieldRows_header, List.nil_append, fieldRows_rows fmt conv hc img hne]

theorem shapeRule_two (r c : Nat) : shapeRule 2 [r, c] = [r, c] := by
  simp [shapeRule]

/-- from the rows of fields to the loaded image -/
theorem load_of_rows (conv : Str → α) (fmt : α → Str) (hrt : ∀ x, conv (fmt x) = x) (file : Str)
    (img : List (List α)) (c : Nat) (hne : img ≠ []) (hcols : ∀ row ∈ img, row.length = c)
    (h : fieldRows (loaderLines file) = img.map (·.map fmt)) :
    loadText conv 2 file = some ([img.length, c], img.flatten) := by
  unfold loadText loadFields
  rw [h]
  cases img with
  | nil => exact absurd rfl hne
  | cons r rs =>
    have hr : r.length = c := hcols r (by simp)
    have hall : (rs.map (·.map fmt)).all (fun q => q.length == (r.map fmt).length) = true := by
      rw [List.all_eq_true]
      intro q hq
      obtain ⟨q', hq', rfl⟩ := List.mem_map.mp hq
      simp [hcols q' (by simp [hq']), hr]
    have hdata : ((r :: rs).map (·.map fmt)).flatten.map conv = (r :: rs).flatten := by
      rw [List.map_flatten, List.map_map]
      congr 1
      conv => rhs; rw [← List.map_id (r :: rs)]
      apply List.map_congr_left
      intro row _
      simp only [Function.comp, id, List.map_map]
      conv => rhs; rw [← List.map_id row]
      exact List.map_congr_left (fun x _ => hrt x)
    simp only [List.length_map, hr] at hall
    simp only [List.map_cons, hall, if_true, Option.map_some, List.length_map, shapeRule_two, List.length_cons, hr]
    simp only [List.map_cons] at hdata
    rw [hdata]

/-! ### the choice of delimiter never matters -/

theorem normalise_append (x y : Str) : normalise (x ++ y) = normalise x ++ normalise y := by
  simp [normalise]

theorem normalise_idem (s : Str) : normalise (normalise s) = normalise s := by
  unfold normalise
  rw [List.map_map]
  apply List.map_congr_left
  intro c _
  by_cases h : c = ';' ∨ c = '\t'
  · simp [h]
  · simp [h]

theorem normalise_char (c : Char) :
    ((if c = ';' ∨ c = '\t' then ',' else c) = '\r' ↔ c = '\r') ∧
    ((if c = ';' ∨ c = '\t' then ',' else c) = '\n' ↔ c = '\n') := by
  by_cases h : c = ';' ∨ c = '\t'
  · rw [if_pos h]
    rcases h with e | e <;> subst e <;> decide
  · rw [if_neg h]; exact ⟨Iff.rfl, Iff.rfl⟩

theorem universalNewlines_normalise (b : Bool) (s : Str) :
    universalNewlines b (normalise s) = normalise (universalNewlines b s) := by
  induction s generalizing b with
  | nil => rfl
  | cons c cs ih =>
    have hch := normalise_char c
    have hnl : normalise ['\n'] = ['\n'] := by decide
    by_cases h1 : c = '\r'
    · subst h1
      have := ih true
      simp only [normalise] at this
      simp [universalNewlines, normalise, this]
    · by_cases h2 : c = '\n'
      · subst h2
        have := ih false
        simp only [normalise] at this
        cases b <;> simp [universalNewlines, normalise, this]
      · have e1 : ¬ (if c = ';' ∨ c = '\t' then ',' else c) = '\r' := fun e => h1 (hch.1.mp e)
        have e2 : ¬ (if c = ';' ∨ c = '\t' then ',' else c) = '\n' := fun e => h2 (hch.2.mp e)
        have := ih false
        simp only [normalise] at this
        simp only [normalise, List.map_cons, universalNewlines, if_neg e1, if_neg e2, if_neg h1, if_neg h2, this]

theorem splitOn_normalise (s : Str) : splitOn '\n' (normalise s) = (splitOn '\n' s).map normalise := by
  induction s with
  | nil => rfl
  | cons c cs ih =>
    have hch := (normalise_char c).2
    by_cases h2 : c = '\n'
    · subst h2
      have : normalise ('\n' :: cs) = '\n' :: normalise cs := by simp [normalise]
      rw [this]
      simp only [splitOn, if_true, ih, List.map_cons]
      rfl
    · have e2 : ¬ (if c = ';' ∨ c = '\t' then ',' else c) = '\n' := fun e => h2 (hch.mp e)
      have : normalise (c :: cs) = (if c = ';' ∨ c = '\t' then ',' else c) :: normalise cs := by simp [normalise]
      rw [this]
      simp only [splitOn, if_neg e2, if_neg h2, ih]
      cases hs : splitOn '\n' cs with
      | nil => exact absurd hs (splitOn_ne_nil _ _)
      | cons x xs => simp [normalise]

theorem pyLines_normalise (s : Str) : pyLines (normalise s) = (pyLines s).map normalise := by
  unfold pyLines
  rw [splitOn_normalise]
  have hne := splitOn_ne_nil '\n' s
  generalize splitOn '\n' s = p at hne
  have hlast : (p.map normalise).getLast? = p.getLast?.map normalise := by simp [List.getLast?_map]
  show (List.map (fun x => x ++ ['\n']) (p.map normalise).dropLast ++
      match (p.map normalise).getLast? with
      | some [] => []
      | some l => [l]
      | none => []) = _
  rw [hlast]
  simp only [List.map_append, List.map_map, ← List.map_dropLast]
  congr 1
  · apply List.map_congr_left
    intro l _
    simp [Function.comp, normalise_append]
    rfl
  · cases hg : p.getLast? with
    | none => rfl
    | some l =>
      cases l with
      | nil => rfl
      | cons a t => simp [normalise]

/-- the lines the loader works on depend only on the file with `;` and tab already replaced -/
theorem loaderLines_normalise (file : Str) : loaderLines (normalise file) = loaderLines file := by
  unfold loaderLines
  rw [universalNewlines_normalise, pyLines_normalise, List.map_map]
  apply List.map_congr_left
  intro l _
  exact normalise_idem l

def IsDelim (c : Char) : Prop := c = ',' ∨ c = ';' ∨ c = '\t'

theorem normalise_joinWith (ss : List Char) (fs : List Str) (hs : ∀ s ∈ ss, IsDelim s)
    (hf : ∀ f ∈ fs, ∀ c ∈ f, c ≠ ';' ∧ c ≠ '\t') :
    normalise (joinWith ss fs) = join ',' fs := by
  induction fs generalizing ss with
  | nil => cases ss <;> rfl
  | cons x r ih =>
    have hx : normalise x = x := normalise_clean x (hf x (by simp))
    cases r with
    | nil => cases ss <;> simpa [joinWith, join] using hx
    | cons y r =>
      cases ss with
      | nil =>
        simp only [joinWith, join]
        rw [normalise_append, hx]
        have : normalise (',' :: joinWith [] (y :: r)) = ',' :: normalise (joinWith [] (y :: r)) := by
          simp [normalise]
        rw [this, ih [] (by simp) (fun f h => hf f (by simp [h]))]
      | cons s ss =>
        simp only [joinWith, join]
        rw [normalise_append, hx]
        have hsd : IsDelim s := hs s (by simp)
        have : normalise (s :: joinWith ss (y :: r)) = ',' :: normalise (joinWith ss (y :: r)) := by
          rcases hsd with e | e | e <;> subst e <;> simp [normalise]
        rw [this, ih ss (fun t ht => hs t (by simp [ht])) (fun f h => hf f (by simp [h]))]

/-- replacing `;` and tab in a file written with any mixture of separators gives the file `save` writes -/
theorem normalise_saveWith (fmt : α → Str) (conv : Str → α) (hc : Clean fmt conv)
    (seps : List (List Char)) (img : List (List α)) (hlen : seps.length = img.length)
    (hs : ∀ ss ∈ seps, ∀ s ∈ ss, IsDelim s) :
    normalise (saveWith fmt seps img) = saveText fmt [] img := by
  unfold saveWith saveText headerText
  simp only [if_true, List.nil_append]
  induction img generalizing seps with
  | nil => cases seps <;> simp [normalise]
  | cons row img ih =>
    cases seps with
    | nil => simp at hlen
    | cons ss seps =>
      simp only [List.zip_cons_cons, List.flatMap_cons]
      rw [normalise_append, normalise_append, ih seps (by simpa using hlen) (fun t ht => hs t (by simp [ht]))]
      rw [normalise_joinWith ss _ (hs ss (by simp))]
      · rfl
      · intro f hf c hcf
        obtain ⟨x, _, rfl⟩ := List.mem_map.mp hf
        have := hc.chars x c hcf
        exact ⟨this.2.1, this.2.2.1⟩

end text

section vtk
variable {α : Type}

/-! ### Fortran-order flattening -/

theorem flatMap_range_length {β : Type} (n m : Nat) (f : Nat → List β) (h : ∀ i, i < n → (f i).length = m) :
    ((List.range n).flatMap f).length = n * m := by
  induction n with
  | zero => simp
  | succ n ih =>
    rw [List.range_succ, List.flatMap_append, List.length_append, ih (fun i hi => h i (by omega))]
    simp [h n (by omega), Nat.succ_mul]

theorem flatMap_range_index {β : Type} (n m : Nat) (f : Nat → List β) (h : ∀ i, i < n → (f i).length = m)
    (i j : Nat) (hi : i < n) (hj : j < m) :
    ((List.range n).flatMap f)[i * m + j]? = (f i)[j]? := by
  induction n with
  | zero => omega
  | succ n ih =>
    rw [List.range_succ, List.flatMap_append]
    have hlen := flatMap_range_length n m f (fun i hi => h i (by omega))
    by_cases hin : i < n
    · have : i * m + j < n * m := by
        have : (i + 1) * m ≤ n * m := Nat.mul_le_mul_right m hin
        rw [Nat.succ_mul] at this; omega
      rw [List.getElem?_append_left (by omega)]
      exact ih (fun i hi => h i (by omega)) hin
    · have e : i = n := by omega
      subst e
      rw [List.getElem?_append_right (by omega), hlen]
      simp

theorem map_range_index {β : Type} (n : Nat) (g : Nat → β) (i : Nat) (hi : i < n) :
    ((List.range n).map g)[i]? = some (g i) := by
  simp [hi]

theorem ravelF_length (w : Vol α) : (ravelF w).length = w.n2 * (w.n1 * w.n0) := by
  unfold ravelF
  apply flatMap_range_length
  intro k _
  apply flatMap_range_length
  intro j _
  simp

/-- `ravel("F")`: element `(i, j, k)` is at position `i + n0·(j + n1·k)` -/
theorem ravelF_index (w : Vol α) (i j k : Nat) (hi : i < w.n0) (hj : j < w.n1) (hk : k < w.n2) :
    (ravelF w)[i + w.n0 * (j + w.n1 * k)]? = some (w.get i j k) := by
  have e : i + w.n0 * (j + w.n1 * k) = k * (w.n1 * w.n0) + (j * w.n0 + i) := by
    rw [Nat.mul_add, ← Nat.mul_assoc, Nat.mul_comm w.n0 w.n1, Nat.mul_comm w.n0 j, Nat.mul_comm k]
    omega
  have hji : j * w.n0 + i < w.n1 * w.n0 := by
    have : (j + 1) * w.n0 ≤ w.n1 * w.n0 := Nat.mul_le_mul_right _ hj
    rw [Nat.succ_mul] at this; omega
  unfold ravelF
  rw [e, flatMap_range_index w.n2 (w.n1 * w.n0) _ (fun k _ => by
      apply flatMap_range_length; intro j _; simp) k _ hk hji,
    flatMap_range_index w.n1 w.n0 _ (fun j _ => by simp) j i hj hi, map_range_index _ _ _ hi]


/-! ### offsets into the appended section -/

theorem offsetsFrom_get (o : Nat) (ns : List Nat) (k : Nat) (hk : k < ns.length) :
    (offsetsFrom o ns)[k]? = some (o + ((ns.take k).map (fun n => n * 8 + 8)).sum) := by
  induction ns generalizing o k with
  | nil => simp at hk
  | cons n ns ih =>
    cases k with
    | zero => simp [offsetsFrom]
    | succ k =>
      simp only [offsetsFrom, List.getElem?_cons_succ, List.take_succ_cons, List.map_cons, List.sum_cons]
      rw [ih _ k (by simpa using hk)]
      congr 1
      omega

theorem offsetsFrom_length (o : Nat) (ns : List Nat) : (offsetsFrom o ns).length = ns.length := by
  induction ns generalizing o with
  | nil => rfl
  | cons n ns ih => simp [offsetsFrom, ih]

theorem sum_blocks_mod (bs : List (List α)) : ((bs.map (fun b => b.length * 8 + 8))).sum % 8 = 0 := by
  induction bs with
  | nil => rfl
  | cons b bs ih => simp only [List.map_cons, List.sum_cons]; omega

theorem sum_blocks_div (bs : List (List α)) :
    ((bs.map (fun b => b.length * 8 + 8))).sum / 8 = (bs.map (fun b => b.length + 1)).sum := by
  induction bs with
  | nil => simp
  | cons b bs ih =>
    simp only [List.map_cons, List.sum_cons]
    have := sum_blocks_mod bs
    omega

theorem appended_skip (pre bs : List (List α)) (i : Nat) :
    (appended (pre ++ bs))[(pre.map (fun b => b.length + 1)).sum + i]? = (appended bs)[i]? := by
  induction pre with
  | nil => simp
  | cons b pre ih =>
    simp only [List.cons_append, appended, List.map_cons, List.sum_cons]
    have e : b.length + 1 + (pre.map (fun b => b.length + 1)).sum + i
        = ((pre.map (fun b => b.length + 1)).sum + i) + (b.length + 1) := by omega
    rw [e]
    have : (Word.len (b.length * 8) :: (b.map Word.val ++ appended (pre ++ bs)))
        = (Word.len (b.length * 8) :: b.map Word.val) ++ appended (pre ++ bs) := by simp
    rw [this, List.getElem?_append_right (by simp)]
    simp only [List.length_cons, List.length_map]
    rw [Nat.add_sub_cancel]
    exact ih

theorem appended_head (b : List α) (bs : List (List α)) :
    (appended (b :: bs))[0]? = some (Word.len (b.length * 8)) ∧
      ∀ p (hp : p < b.length), (appended (b :: bs))[1 + p]? = some (Word.val b[p]) := by
  refine ⟨by simp [appended], ?_⟩
  intro p hp
  simp only [appended]
  rw [List.getElem?_append_left (by simp; omega), Nat.add_comm, List.getElem?_cons_succ]
  simp [hp]

end vtk

/-! ### XML escaping -/

theorem replaceC_eq (c : Char) (rep s : Str) : replaceC c rep s = s.flatMap (fun x => if x = c then rep else [x]) := rfl

theorem escape_char (x : Char) :
    (((((if x = '&' then "&amp;".toList else [x]).flatMap (fun x => if x = '<' then "&lt;".toList else [x])).flatMap
      (fun x => if x = '>' then "&gt;".toList else [x])).flatMap
      (fun x => if x = '"' then "&quot;".toList else [x])).flatMap
      (fun x => if x = '\'' then "&apos;".toList else [x])) = escChar x := by
  unfold escChar
  by_cases h1 : x = '&'
  · subst h1; decide
  · by_cases h2 : x = '<'
    · subst h2; decide
    · by_cases h3 : x = '>'
      · subst h3; decide
      · by_cases h4 : x = '"'
        · subst h4; decide
        · by_cases h5 : x = '\''
          · subst h5; decide
          · simp [h1, h2, h3, h4, h5]

theorem unescape_entity (e : Str) (d : Char) (t : Str) (h : entityAt (e ++ t) = some (d, t)) :
    unescape ('&' :: (e ++ t)) = d :: unescape t := by
  rw [unescape]
  simp only [if_true]
  split
  · rename_i d' t' heq
    rw [h] at heq
    injection heq with heq
    injection heq with h1 h2
    rw [h1, h2]
  · rename_i heq
    rw [h] at heq
    exact absurd heq (by simp)

theorem unescape_plain (c : Char) (r : Str) (h : c ≠ '&') : unescape (c :: r) = c :: unescape r := by
  rw [unescape]
  simp [h]


end Pew.Export
