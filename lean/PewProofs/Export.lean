import PewModel.Export

namespace Pew.Export

/-! ### split / join -/

theorem splitOn_ne_nil (d : Char) (s : Str) : splitOn d s ≠ [] := by
  induction s with
  | nil => simp [splitOn]
  | cons c cs ih =>
    simp only [splitOn]
    split
    · simp
    · split <;> simp

theorem splitOn_clean (d : Char) (s : Str) (h : d ∉ s) : splitOn d s = [s] := by
  induction s with
  | nil => rfl
  | cons c cs ih =>
    have hc : c ≠ d := fun e => h (by simp [e])
    have hcs : d ∉ cs := fun e => h (by simp [e])
    simp only [splitOn, if_neg hc, ih hcs]

theorem splitOn_append (d : Char) (x rest : Str) (h : d ∉ x) :
    splitOn d (x ++ d :: rest) = x :: splitOn d rest := by
  induction x with
  | nil => simp [splitOn]
  | cons c cs ih =>
    have hc : c ≠ d := fun e => h (by simp [e])
    have hcs : d ∉ cs := fun e => h (by simp [e])
    simp only [List.cons_append, splitOn, if_neg hc, ih hcs]

theorem splitOn_join (d : Char) (fs : List Str) (hne : fs ≠ []) (h : ∀ f ∈ fs, d ∉ f) :
    splitOn d (join d fs) = fs := by
  induction fs with
  | nil => exact absurd rfl hne
  | cons x r ih =>
    cases r with
    | nil => simp only [join]; exact splitOn_clean d x (h x (by simp))
    | cons y r =>
      simp only [join]
      rw [splitOn_append d x _ (h x (by simp)), ih (by simp) (fun f hf => h f (by simp [hf]))]

/-! ### text round trip -/

section text
variable {α : Type}

/-- the assumptions on the opaque number printer / parser -/
structure Clean (fmt : α → Str) (parse : Str → Option α) : Prop where
  roundtrip : ∀ x, parse (fmt x) = some x
  nonempty : ∀ x, fmt x ≠ []
  chars : ∀ x, ∀ c ∈ fmt x, c ≠ ',' ∧ c ≠ ';' ∧ c ≠ '\t' ∧ c ≠ '\n' ∧ c ≠ '#'

def linesToFile (ls : List Str) : Str := ls.flatMap (· ++ ['\n'])

theorem splitOn_linesToFile (ls : List Str) (h : ∀ l ∈ ls, '\n' ∉ l) :
    splitOn '\n' (linesToFile ls) = ls ++ [[]] := by
  induction ls with
  | nil => rfl
  | cons l ls ih =>
    simp only [linesToFile, List.flatMap_cons, List.append_assoc, List.singleton_append]
    rw [splitOn_append '\n' l _ (h l (by simp))]
    simp only [List.cons_append, List.cons.injEq, true_and]
    exact ih (fun x hx => h x (by simp [hx]))

theorem fileLines_linesToFile (ls : List Str) (h : ∀ l ∈ ls, '\n' ∉ l) :
    fileLines (linesToFile ls) = ls := by
  simp [fileLines, splitOn_linesToFile ls h]

theorem mem_join (d : Char) (fs : List Str) (c : Char) (hc : c ∈ join d fs) :
    c = d ∨ ∃ f ∈ fs, c ∈ f := by
  induction fs with
  | nil => simp [join] at hc
  | cons x r ih =>
    cases r with
    | nil => simp only [join] at hc; exact Or.inr ⟨x, by simp, hc⟩
    | cons y r =>
      simp only [join, List.mem_append, List.mem_cons] at hc
      rcases hc with h | h | h
      · exact Or.inr ⟨x, by simp, h⟩
      · exact Or.inl h
      · rcases ih h with e | ⟨f, hf, hcf⟩
        · exact Or.inl e
        · exact Or.inr ⟨f, by simp [hf], hcf⟩

theorem join_ne_nil (d : Char) (fs : List Str) (hne : fs ≠ []) (h : ∀ f ∈ fs, f ≠ []) : join d fs ≠ [] := by
  cases fs with
  | nil => exact absurd rfl hne
  | cons x r =>
    cases r with
    | nil => simpa [join] using h x (by simp)
    | cons y r => simp [join]

theorem normalise_clean (l : Str) (h : ∀ c ∈ l, c ≠ ';' ∧ c ≠ '\t') : normalise l = l := by
  unfold normalise
  induction l with
  | nil => rfl
  | cons c cs ih =>
    have hc := h c (by simp)
    simp only [List.map_cons, List.cons.injEq]
    exact ⟨by simp [hc.1, hc.2], ih (fun x hx => h x (by simp [hx]))⟩

theorem cutComment_clean (l : Str) (h : ∀ c ∈ l, c ≠ '#') : cutComment l = l := by
  unfold cutComment
  induction l with
  | nil => rfl
  | cons c cs ih =>
    have hc := h c (by simp)
    simp only [List.takeWhile_cons, ne_eq, hc, not_false_eq_true, decide_true, if_true, List.cons.injEq, true_and]
    exact ih (fun x hx => h x (by simp [hx]))

theorem parseFields_fmt (fmt : α → Str) (parse : Str → Option α) (hc : Clean fmt parse) (row : List α) :
    parseFields parse (row.map fmt) = some row := by
  induction row with
  | nil => rfl
  | cons x xs ih => simp [parseFields, hc.roundtrip, ih]

/-- a line that is the comma-joined print of a non-empty row parses back to the row -/
theorem parseRows_rows (fmt : α → Str) (parse : Str → Option α) (hc : Clean fmt parse)
    (rows : List (List α)) (hne : ∀ row ∈ rows, row ≠ []) :
    parseRows parse (rows.map fun row => join ',' (row.map fmt)) = some rows := by
  induction rows with
  | nil => rfl
  | cons row rows ih =>
    have hrow : row ≠ [] := hne row (by simp)
    have hfs : row.map fmt ≠ [] := by simpa using hrow
    have hchars : ∀ c ∈ join ',' (row.map fmt), c ≠ '#' := by
      intro c hcm
      rcases mem_join _ _ _ hcm with e | ⟨f, hf, hcf⟩
      · rw [e]; decide
      · obtain ⟨x, _, rfl⟩ := List.mem_map.mp hf
        exact (hc.chars x c hcf).2.2.2.2
    have hnocomma : ∀ f ∈ row.map fmt, ',' ∉ f := by
      intro f hf hcf
      obtain ⟨x, _, rfl⟩ := List.mem_map.mp hf
      exact (hc.chars x ',' hcf).1 rfl
    have hbody : join ',' (row.map fmt) ≠ [] :=
      join_ne_nil _ _ hfs (fun f hf => by obtain ⟨x, _, rfl⟩ := List.mem_map.mp hf; exact hc.nonempty x)
    simp only [List.map_cons, parseRows]
    rw [cutComment_clean _ hchars, if_neg hbody, splitOn_join ',' _ hfs hnocomma, parseFields_fmt fmt parse hc,
      ih (fun r hr => hne r (by simp [hr]))]

theorem shapeRule_two (r c : Nat) : shapeRule 2 r c = [r, c] := by
  simp [shapeRule]


def rowLine (fmt : α → Str) (row : List α) : Str := join ',' (row.map fmt)

theorem rowLine_chars (fmt : α → Str) (parse : Str → Option α) (hc : Clean fmt parse) (row : List α) :
    ∀ c ∈ rowLine fmt row, c ≠ ';' ∧ c ≠ '\t' ∧ c ≠ '\n' ∧ c ≠ '#' := by
  intro c hcm
  rcases mem_join _ _ _ hcm with e | ⟨f, hf, hcf⟩
  · rw [e]; decide
  · obtain ⟨x, _, rfl⟩ := List.mem_map.mp hf
    have := hc.chars x c hcf
    exact ⟨this.2.1, this.2.2.1, this.2.2.2.1, this.2.2.2.2⟩

def hdrLines : Option Str → List Str
  | none => []
  | some h => ['#' :: ' ' :: h]

theorem saveText_lines (fmt : α → Str) (header : Option Str) (img : List (List α)) :
    saveText fmt header img = linesToFile (hdrLines header ++ img.map (rowLine fmt)) := by
  cases header with
  | none => simp [saveText, headerLines, hdrLines, linesToFile, rowLine, List.flatMap_map]
  | some h =>
    simp [saveText, headerLines, hdrLines, linesToFile, rowLine, List.flatMap_map]

theorem parseRows_skip_header (parse : Str → Option α) (header : Option Str) (rest : List Str) :
    parseRows parse ((hdrLines header).map normalise ++ rest) = parseRows parse rest := by
  cases header with
  | none => rfl
  | some h =>
    simp only [hdrLines, List.map_cons, List.map_nil, List.cons_append, List.nil_append, parseRows]
    have : cutComment (normalise ('#' :: ' ' :: h)) = [] := by
      simp [normalise, cutComment]
    rw [this]
    simp

/-- the table that `genfromtxt` builds from a saved file -/
theorem parse_saved (fmt : α → Str) (parse : Str → Option α) (hc : Clean fmt parse)
    (header : Option Str) (hh : ∀ h, header = some h → '\n' ∉ h) (img : List (List α))
    (hne : ∀ row ∈ img, row ≠ []) :
    parseRows parse ((fileLines (saveText fmt header img)).map normalise) = some img := by
  rw [saveText_lines, fileLines_linesToFile]
  · rw [List.map_append, parseRows_skip_header]
    have : (img.map (rowLine fmt)).map normalise = img.map (fun row => join ',' (row.map fmt)) := by
      rw [List.map_map]
      apply List.map_congr_left
      intro row _
      simp only [Function.comp]
      exact normalise_clean _ (fun c hcm => by
        have := rowLine_chars fmt parse hc row c hcm; exact ⟨this.1, this.2.1⟩)
    rw [this]
    exact parseRows_rows fmt parse hc img hne
  · intro l hl
    rcases List.mem_append.mp hl with h | h
    · cases header with
      | none => simp [hdrLines] at h
      | some hd =>
        simp only [hdrLines, List.mem_singleton] at h
        subst h
        have := hh hd rfl
        intro hmem
        simp only [List.mem_cons] at hmem
        rcases hmem with e | e | e
        · exact absurd e (by decide)
        · exact absurd e (by decide)
        · exact this e
    · obtain ⟨row, _, rfl⟩ := List.mem_map.mp h
      intro hmem
      exact (rowLine_chars fmt parse hc row _ hmem).2.2.1 rfl

theorem load_of_table (parse : Str → Option α) (file : Str) (img : List (List α)) (c : Nat)
    (hne : img ≠ []) (hcols : ∀ row ∈ img, row.length = c)
    (h : parseRows parse ((fileLines file).map normalise) = some img) :
    loadText parse 2 file = some ([img.length, c], img.flatten) := by
  unfold loadText
  rw [h]
  cases img with
  | nil => exact absurd rfl hne
  | cons r rs =>
    have hr : r.length = c := hcols r (by simp)
    have hall : rs.all (fun q => q.length == r.length) = true := by
      rw [List.all_eq_true]
      intro q hq
      simp [hcols q (by simp [hq]), hr]
    rw [hr] at hall
    simp only [shapeRule_two, List.length_cons, hr, hall, if_true]


def IsDelim (c : Char) : Prop := c = ',' ∨ c = ';' ∨ c = '\t'

theorem normalise_append (x y : Str) : normalise (x ++ y) = normalise x ++ normalise y := by
  simp [normalise]

theorem normalise_joinWith (ss : List Char) (fs : List Str) (hs : ∀ s ∈ ss, IsDelim s)
    (hf : ∀ f ∈ fs, ∀ c ∈ f, c ≠ ';' ∧ c ≠ '\t') :
    normalise (joinWith ss fs) = join ',' fs := by
  induction fs generalizing ss with
  | nil => cases ss <;> rfl
  | cons x r ih =>
    have hx : normalise x = x := normalise_clean x (hf x (by simp))
    cases r with
    | nil => cases ss <;> simpa [joinWith, join] using hx
    | cons y r =>
      cases ss with
      | nil =>
        simp only [joinWith, join]
        rw [normalise_append, hx]
        have : normalise (',' :: joinWith [] (y :: r)) = ',' :: normalise (joinWith [] (y :: r)) := by
          simp [normalise]
        rw [this, ih [] (by simp) (fun f h => hf f (by simp [h]))]
      | cons s ss =>
        simp only [joinWith, join]
        rw [normalise_append, hx]
        have hsd : IsDelim s := hs s (by simp)
        have : normalise (s :: joinWith ss (y :: r)) = ',' :: normalise (joinWith ss (y :: r)) := by
          rcases hsd with e | e | e <;> subst e <;> simp [normalise]
        rw [this, ih ss (fun t ht => hs t (by simp [ht])) (fun f h => hf f (by simp [h]))]

theorem newline_mem_normalise (l : Str) (h : '\n' ∈ l) : '\n' ∈ normalise l := by
  unfold normalise
  rw [List.mem_map]
  exact ⟨'\n', h, by decide⟩

theorem saveWith_lines (fmt : α → Str) (seps : List (List Char)) (img : List (List α)) :
    saveWith fmt seps img = linesToFile ((List.zip seps img).map fun p => joinWith p.1 (p.2.map fmt)) := by
  simp [saveWith, linesToFile, List.flatMap_map]

theorem zip_lines_normalise (fmt : α → Str) (parse : Str → Option α) (hc : Clean fmt parse)
    (seps : List (List Char)) (img : List (List α)) (hlen : seps.length = img.length)
    (hs : ∀ ss ∈ seps, ∀ s ∈ ss, IsDelim s) :
    ((List.zip seps img).map fun p => joinWith p.1 (p.2.map fmt)).map normalise
      = img.map (fun row => join ',' (row.map fmt)) := by
  induction img generalizing seps with
  | nil => cases seps <;> simp
  | cons row img ih =>
    cases seps with
    | nil => simp at hlen
    | cons ss seps =>
      simp only [List.zip_cons_cons, List.map_cons, List.cons.injEq]
      refine ⟨?_, ih seps (by simpa using hlen) (fun t ht => hs t (by simp [ht]))⟩
      apply normalise_joinWith ss _ (hs ss (by simp))
      intro f hf c hcf
      obtain ⟨x, _, rfl⟩ := List.mem_map.mp hf
      have := hc.chars x c hcf
      exact ⟨this.2.1, this.2.2.1⟩

theorem parse_saveWith (fmt : α → Str) (parse : Str → Option α) (hc : Clean fmt parse)
    (seps : List (List Char)) (img : List (List α)) (hlen : seps.length = img.length)
    (hs : ∀ ss ∈ seps, ∀ s ∈ ss, IsDelim s) (hne : ∀ row ∈ img, row ≠ []) :
    parseRows parse ((fileLines (saveWith fmt seps img)).map normalise) = some img := by
  have hn := zip_lines_normalise fmt parse hc seps img hlen hs
  rw [saveWith_lines, fileLines_linesToFile, hn]
  · exact parseRows_rows fmt parse hc img hne
  · intro l hl hmem
    have h1 : normalise l ∈ ((List.zip seps img).map fun p => joinWith p.1 (p.2.map fmt)).map normalise :=
      List.mem_map.mpr ⟨l, hl, rfl⟩
    rw [hn] at h1
    obtain ⟨row, _, hrow⟩ := List.mem_map.mp h1
    have h2 := newline_mem_normalise l hmem
    rw [← hrow] at h2
    exact (rowLine_chars fmt parse hc row _ h2).2.2.1 rfl

end text

section vtk
variable {α : Type}

/-! ### Fortran-order flattening -/

theorem flatMap_range_length {β : Type} (n m : Nat) (f : Nat → List β) (h : ∀ i, i < n → (f i).length = m) :
    ((List.range n).flatMap f).length = n * m := by
  induction n with
  | zero => simp
  | succ n ih =>
    rw [List.range_succ, List.flatMap_append, List.length_append, ih (fun i hi => h i (by omega))]
    simp [h n (by omega), Nat.succ_mul]

theorem flatMap_range_index {β : Type} (n m : Nat) (f : Nat → List β) (h : ∀ i, i < n → (f i).length = m)
    (i j : Nat) (hi : i < n) (hj : j < m) :
    ((List.range n).flatMap f)[i * m + j]? = (f i)[j]? := by
  induction n with
  | zero => omega
  | succ n ih =>
    rw [List.range_succ, List.flatMap_append]
    have hlen := flatMap_range_length n m f (fun i hi => h i (by omega))
    by_cases hin : i < n
    · have : i * m + j < n * m := by
        have : (i + 1) * m ≤ n * m := Nat.mul_le_mul_right m hin
        rw [Nat.succ_mul] at this; omega
      rw [List.getElem?_append_left (by omega)]
      exact ih (fun i hi => h i (by omega)) hin
    · have e : i = n := by omega
      subst e
      rw [List.getElem?_append_right (by omega), hlen]
      simp

theorem map_range_index {β : Type} (n : Nat) (g : Nat → β) (i : Nat) (hi : i < n) :
    ((List.range n).map g)[i]? = some (g i) := by
  simp [hi]

theorem ravelF_length (w : Vol α) : (ravelF w).length = w.n2 * (w.n1 * w.n0) := by
  unfold ravelF
  apply flatMap_range_length
  intro k _
  apply flatMap_range_length
  intro j _
  simp

/-- `ravel("F")`: element `(i, j, k)` is at position `i + n0·(j + n1·k)` -/
theorem ravelF_index (w : Vol α) (i j k : Nat) (hi : i < w.n0) (hj : j < w.n1) (hk : k < w.n2) :
    (ravelF w)[i + w.n0 * (j + w.n1 * k)]? = some (w.get i j k) := by
  have e : i + w.n0 * (j + w.n1 * k) = k * (w.n1 * w.n0) + (j * w.n0 + i) := by
    rw [Nat.mul_add, ← Nat.mul_assoc, Nat.mul_comm w.n0 w.n1, Nat.mul_comm w.n0 j, Nat.mul_comm k]
    omega
  have hji : j * w.n0 + i < w.n1 * w.n0 := by
    have : (j + 1) * w.n0 ≤ w.n1 * w.n0 := Nat.mul_le_mul_right _ hj
    rw [Nat.succ_mul] at this; omega
  unfold ravelF
  rw [e, flatMap_range_index w.n2 (w.n1 * w.n0) _ (fun k _ => by
      apply flatMap_range_length; intro j _; simp) k _ hk hji,
    flatMap_range_index w.n1 w.n0 _ (fun j _ => by simp) j i hj hi, map_range_index _ _ _ hi]


/-! ### offsets into the appended section -/

theorem offsetsFrom_get (o : Nat) (ns : List Nat) (k : Nat) (hk : k < ns.length) :
    (offsetsFrom o ns)[k]? = some (o + ((ns.take k).map (fun n => n * 8 + 8)).sum) := by
  induction ns generalizing o k with
  | nil => simp at hk
  | cons n ns ih =>
    cases k with
    | zero => simp [offsetsFrom]
    | succ k =>
      simp only [offsetsFrom, List.getElem?_cons_succ, List.take_succ_cons, List.map_cons, List.sum_cons]
      rw [ih _ k (by simpa using hk)]
      congr 1
      omega

theorem sum_blocks_mod (bs : List (List α)) : ((bs.map (fun b => b.length * 8 + 8))).sum % 8 = 0 := by
  induction bs with
  | nil => rfl
  | cons b bs ih => simp only [List.map_cons, List.sum_cons]; omega

theorem sum_blocks_div (bs : List (List α)) :
    ((bs.map (fun b => b.length * 8 + 8))).sum / 8 = (bs.map (fun b => b.length + 1)).sum := by
  induction bs with
  | nil => simp
  | cons b bs ih =>
    simp only [List.map_cons, List.sum_cons]
    have := sum_blocks_mod bs
    omega

theorem appended_skip (pre bs : List (List α)) (i : Nat) :
    (appended (pre ++ bs))[(pre.map (fun b => b.length + 1)).sum + i]? = (appended bs)[i]? := by
  induction pre with
  | nil => simp
  | cons b pre ih =>
    simp only [List.cons_append, appended, List.map_cons, List.sum_cons]
    have e : b.length + 1 + (pre.map (fun b => b.length + 1)).sum + i
        = ((pre.map (fun b => b.length + 1)).sum + i) + (b.length + 1) := by omega
    rw [e]
    have : (Word.len (b.length * 8) :: (b.map Word.val ++ appended (pre ++ bs)))
        = (Word.len (b.length * 8) :: b.map Word.val) ++ appended (pre ++ bs) := by simp
    rw [this, List.getElem?_append_right (by simp)]
    simp only [List.length_cons, List.length_map]
    rw [Nat.add_sub_cancel]
    exact ih

theorem appended_head (b : List α) (bs : List (List α)) :
    (appended (b :: bs))[0]? = some (Word.len (b.length * 8)) ∧
      ∀ p (hp : p < b.length), (appended (b :: bs))[1 + p]? = some (Word.val b[p]) := by
  refine ⟨by simp [appended], ?_⟩
  intro p hp
  simp only [appended]
  rw [List.getElem?_append_left (by simp; omega), Nat.add_comm, List.getElem?_cons_succ]
  simp [hp]

end vtk

/-! ### XML escaping -/

theorem replaceC_eq (c : Char) (rep s : Str) : replaceC c rep s = s.flatMap (fun x => if x = c then rep else [x]) := rfl

theorem escape_char (x : Char) :
    (((((if x = '&' then "&amp;".toList else [x]).flatMap (fun x => if x = '<' then "&lt;".toList else [x])).flatMap
      (fun x => if x = '>' then "&gt;".toList else [x])).flatMap
      (fun x => if x = '"' then "&quot;".toList else [x])).flatMap
      (fun x => if x = '\'' then "&apos;".toList else [x])) = escChar x := by
  unfold escChar
  by_cases h1 : x = '&'
  · subst h1; decide
  · by_cases h2 : x = '<'
    · subst h2; decide
    · by_cases h3 : x = '>'
      · subst h3; decide
      · by_cases h4 : x = '"'
        · subst h4; decide
        · by_cases h5 : x = '\''
          · subst h5; decide
          · simp [h1, h2, h3, h4, h5]

theorem unescape_entity (e : Str) (d : Char) (t : Str) (h : entityAt (e ++ t) = some (d, t)) :
    unescape ('&' :: (e ++ t)) = d :: unescape t := by
  rw [unescape]
  simp only [if_true]
  split
  · rename_i d' t' heq
    rw [h] at heq
    injection heq with heq
    injection heq with h1 h2
    rw [h1, h2]
  · rename_i heq
    rw [h] at heq
    exact absurd heq (by simp)

theorem unescape_plain (c : Char) (r : Str) (h : c ≠ '&') : unescape (c :: r) = c :: unescape r := by
  rw [unescape]
  simp [h]


end Pew.Export
