import PewProofs.LaserEditObj

/-! helper lemmas for C07: several lasers in one memory (`MWorld`, `mstep`) -/
namespace Pew.LaserEdit

/-! ## what a method of one laser may do to the common memory -/

/-- every cell, `Calibration`, config, offsets array and dict that existed keeps its content — except (possibly)
dict object `d` -/
def Ext (d : Option Nat) (h h' : Heap) : Prop :=
  h.cells.length ≤ h'.cells.length ∧ (∀ i, i < h.cells.length → h'.cells[i]? = h.cells[i]?) ∧
  h.cals.length ≤ h'.cals.length ∧ (∀ i, i < h.cals.length → h'.cals[i]? = h.cals[i]?) ∧
  h.cfgs.length ≤ h'.cfgs.length ∧ (∀ i, i < h.cfgs.length → h'.cfgs[i]? = h.cfgs[i]?) ∧
  h.offs.length ≤ h'.offs.length ∧ (∀ i, i < h.offs.length → h'.offs[i]? = h.offs[i]?) ∧
  h.dicts.length ≤ h'.dicts.length ∧ (∀ i, i < h.dicts.length → some i ≠ d → h'.dicts[i]? = h.dicts[i]?)

theorem Ext.refl (d : Option Nat) (h : Heap) : Ext d h h :=
  ⟨Nat.le_refl _, fun _ _ => rfl, Nat.le_refl _, fun _ _ => rfl, Nat.le_refl _, fun _ _ => rfl,
   Nat.le_refl _, fun _ _ => rfl, Nat.le_refl _, fun _ _ _ => rfl⟩

theorem Ext.trans {d : Option Nat} {a b c : Heap} (h1 : Ext d a b) (h2 : Ext d b c) : Ext d a c := by
  obtain ⟨a1, a2, a3, a4, a5, a6, a7, a8, a9, a10⟩ := h1
  obtain ⟨b1, b2, b3, b4, b5, b6, b7, b8, b9, b10⟩ := h2
  exact ⟨Nat.le_trans a1 b1, fun i hi => (b2 i (Nat.lt_of_lt_of_le hi a1)).trans (a2 i hi),
    Nat.le_trans a3 b3, fun i hi => (b4 i (Nat.lt_of_lt_of_le hi a3)).trans (a4 i hi),
    Nat.le_trans a5 b5, fun i hi => (b6 i (Nat.lt_of_lt_of_le hi a5)).trans (a6 i hi),
    Nat.le_trans a7 b7, fun i hi => (b8 i (Nat.lt_of_lt_of_le hi a7)).trans (a8 i hi),
    Nat.le_trans a9 b9, fun i hi hd => (b10 i (Nat.lt_of_lt_of_le hi a9) hd).trans (a10 i hi hd)⟩

/-- nothing at all is changed ⇒ nothing but `d` is changed -/
theorem Ext.weaken {d : Option Nat} {a b : Heap} (h : Ext none a b) : Ext d a b := by
  obtain ⟨a1, a2, a3, a4, a5, a6, a7, a8, a9, a10⟩ := h
  exact ⟨a1, a2, a3, a4, a5, a6, a7, a8, a9, fun i hi _ => a10 i hi (by simp)⟩

theorem Ext.of_grows {d : Option Nat} {h h' : Heap} (g : Grows h h') : Ext d h h' := by
  obtain ⟨g1, g2, g3, g4, g5, g6⟩ := g
  exact ⟨g1, g2, Nat.le_of_eq (by rw [g3]), fun _ _ => by rw [g3], Nat.le_of_eq (by rw [g4]), fun _ _ => by rw [g4],
    Nat.le_of_eq (by rw [g5]), fun _ _ => by rw [g5], Nat.le_of_eq (by rw [g6]), fun _ _ _ => by rw [g6]⟩

theorem Ext.of_growsC {d : Option Nat} {h h' : Heap} (g : GrowsC h h') : Ext d h h' := by
  obtain ⟨g1, g2, g3, g4, g5, g6⟩ := g
  exact ⟨Nat.le_of_eq (by rw [g1]), fun _ _ => by rw [g1], g2, g3, Nat.le_of_eq (by rw [g4]), fun _ _ => by rw [g4],
    Nat.le_of_eq (by rw [g5]), fun _ _ => by rw [g5], Nat.le_of_eq (by rw [g6]), fun _ _ _ => by rw [g6]⟩

theorem ext_setDict (h : Heap) (i : Nat) (x : IdDict) : Ext (some i) h { h with dicts := h.dicts.set i x } :=
  ⟨Nat.le_refl _, fun _ _ => rfl, Nat.le_refl _, fun _ _ => rfl, Nat.le_refl _, fun _ _ => rfl,
   Nat.le_refl _, fun _ _ => rfl, by simp, fun j _ hj => by
     show (h.dicts.set i x)[j]? = _
     rw [List.getElem?_set_ne (fun (e : i = j) => hj (by rw [e]))]⟩

theorem ext_allocDict (d : Option Nat) (h : Heap) (x : IdDict) : Ext d h (h.allocDict x).2 :=
  ⟨Nat.le_refl _, fun _ _ => rfl, Nat.le_refl _, fun _ _ => rfl, Nat.le_refl _, fun _ _ => rfl,
   Nat.le_refl _, fun _ _ => rfl, by simp [Heap.allocDict], fun j hj _ => by
     show (h.dicts ++ [x])[j]? = _
     exact List.getElem?_append_left hj⟩

theorem ext_allocCal (d : Option Nat) (h : Heap) (c : Nat) : Ext d h (h.allocCal c).2 :=
  ⟨Nat.le_refl _, fun _ _ => rfl, by simp [Heap.allocCal], fun j hj => by
     show (h.cals ++ [c])[j]? = _
     exact List.getElem?_append_left hj, Nat.le_refl _, fun _ _ => rfl,
   Nat.le_refl _, fun _ _ => rfl, Nat.le_refl _, fun _ _ _ => rfl⟩

theorem ext_allocCfg (d : Option Nat) (h : Heap) (c : Cfg) : Ext d h (h.allocCfg c).2 :=
  ⟨Nat.le_refl _, fun _ _ => rfl, Nat.le_refl _, fun _ _ => rfl, by simp [Heap.allocCfg], fun j hj => by
     show (h.cfgs ++ [c])[j]? = _
     exact List.getElem?_append_left hj,
   Nat.le_refl _, fun _ _ => rfl, Nat.le_refl _, fun _ _ _ => rfl⟩

theorem ext_allocOffs (d : Option Nat) (h : Heap) (c : Nat) : Ext d h (h.allocOffs c).2 :=
  ⟨Nat.le_refl _, fun _ _ => rfl, Nat.le_refl _, fun _ _ => rfl, Nat.le_refl _, fun _ _ => rfl,
   by simp [Heap.allocOffs], fun j hj => by
     show (h.offs ++ [c])[j]? = _
     exact List.getElem?_append_left hj, Nat.le_refl _, fun _ _ _ => rfl⟩

theorem ext_storeCal (h : Heap) (i : Nat) (n : Name) (cal : Option Nat) : Ext (some i) h (h.storeCal i n cal) := by
  cases cal with
  | none =>
    rw [storeCal_none]
    exact ⟨Nat.le_refl _, fun _ _ => rfl, by simp, fun j hj => List.getElem?_append_left hj, Nat.le_refl _,
      fun _ _ => rfl, Nat.le_refl _, fun _ _ => rfl, by simp, fun j _ hj => by
        show (h.dicts.set i _)[j]? = _
        rw [List.getElem?_set_ne (fun (e : i = j) => hj (by rw [e]))]⟩
  | some k =>
    rw [storeCal_some]
    exact ⟨Nat.le_refl _, fun _ _ => rfl, Nat.le_refl _, fun _ _ => rfl, Nat.le_refl _,
      fun _ _ => rfl, Nat.le_refl _, fun _ _ => rfl, by simp, fun j _ hj => by
        show (h.dicts.set i _)[j]? = _
        rw [List.getElem?_set_ne (fun (e : i = j) => hj (by rw [e]))]⟩

theorem Ext.cell {d : Option Nat} {h h' : Heap} (e : Ext d h h') {i : Nat} (hi : i < h.cells.length) :
    h'.cell i = h.cell i := by unfold Heap.cell; rw [e.2.1 i hi]

theorem Ext.calOf {d : Option Nat} {h h' : Heap} (e : Ext d h h') {i : Nat} (hi : i < h.cals.length) :
    h'.calOf i = h.calOf i := by unfold Heap.calOf; rw [e.2.2.2.1 i hi]

theorem Ext.cfgOf {d : Option Nat} {h h' : Heap} (e : Ext d h h') {i : Nat} (hi : i < h.cfgs.length) :
    h'.cfgOf i = h.cfgOf i := by unfold Heap.cfgOf; rw [e.2.2.2.2.2.1 i hi]

theorem Ext.offsOf {d : Option Nat} {h h' : Heap} (e : Ext d h h') {i : Nat} (hi : i < h.offs.length) :
    h'.offsOf i = h.offsOf i := by unfold Heap.offsOf; rw [e.2.2.2.2.2.2.2.1 i hi]

theorem Ext.dict {d : Option Nat} {h h' : Heap} (e : Ext d h h') {i : Nat} (hi : i < h.dicts.length) (hd : some i ≠ d) :
    h'.dict i = h.dict i := by unfold Heap.dict; rw [e.2.2.2.2.2.2.2.2.2 i hi hd]

/-- a method of a laser changes nothing that existed, except the laser's own dict object -/
theorem hstep_ext (w : World) (hv : Valid w) (op : HOp) (ha : ArgsOK w.heap op) (hc : op.isCall = true) :
    Ext (some w.laser.cal) w.heap (hstep w op).state.heap := by
  cases op with
  | add n xs cal =>
    simp only [hstep]
    unfold hAdd
    split
    · exact Ext.refl _ _
    · cases hE : hAddLayers n w.laser.data xs w.heap with
      | error q =>
        obtain ⟨e, ls, h⟩ := q
        obtain ⟨_, hg, _⟩ := hAddLayers_error n _ _ _ _ _ _ hv.data_ok ha.1 hE
        exact Ext.of_grows hg
      | ok q =>
        obtain ⟨ls, h⟩ := q
        obtain ⟨_, hg, _, _⟩ := hAddLayers_ok n _ _ _ _ _ hv.data_ok ha.1 hE
        exact (Ext.of_grows hg).trans (ext_storeCal h w.laser.cal n cal)
  | remove ns =>
    simp only [hstep]
    have hspec := hDropLayers_spec ns w.laser.data w.heap hv.data_ok
    unfold hRemove
    rcases hD : hDropLayers ns w.laser.data w.heap with ⟨dl, dh⟩
    rw [hD] at hspec
    obtain ⟨_, hg, _, _⟩ := hspec
    simp only at hg ⊢
    have key : Ext (some w.laser.cal) w.heap
        ⟨dh.cells, dh.cals, dh.cfgs, dh.offs, dh.dicts.set w.laser.cal (popAllE (dh.dict w.laser.cal) ns).1⟩ :=
      (Ext.of_grows hg).trans (ext_setDict dh w.laser.cal _)
    split <;> exact key
  | rename m =>
    simp only [hstep]
    unfold hRename
    cases hE : renameLayersE m w.laser.data with
    | error p => obtain ⟨e, ls⟩ := p; exact Ext.refl _ _
    | ok ls => exact ext_allocDict _ _ _
  | get layer t c =>
    simp only [hstep]
    obtain ⟨hok, _⟩ := hGet_spec w hv layer t c
    cases hg : hGet w layer t c with
    | error e => exact Ext.refl _ _
    | ok q =>
      obtain ⟨r, h'⟩ := q
      obtain ⟨_, h2, _, _⟩ := hok r h' hg
      exact Ext.of_grows h2
  | setCal k c => simp [HOp.isCall] at hc
  | setCfg k c => simp [HOp.isCall] at hc
  | setOffsets k c => simp [HOp.isCall] at hc
  | writeOffsets o c => simp [HOp.isCall] at hc
  | setDict k d => simp [HOp.isCall] at hc
  | writeCell i c => simp [HOp.isCall] at hc

/-- a laser whose dict is not the one that was changed sees nothing -/
theorem view_ext {h h' : Heap} {l : Obj} {d : Option Nat} (hv : Valid ⟨h, l⟩) (he : Ext d h h') (hd : some l.cal ≠ d) :
    view ⟨h', l⟩ = view ⟨h, l⟩ ∧ Valid ⟨h', l⟩ := by
  obtain ⟨v1, v2, v3, v4⟩ := hv
  simp only at v1 v2 v3 v4
  have hdict : h'.dict l.cal = h.dict l.cal := he.dict v1 hd
  refine ⟨?_, ?_⟩
  · apply State.ext'
    · rfl
    · show l.data.map (viewLayer h') = l.data.map (viewLayer h)
      apply List.map_congr_left
      intro a ha
      unfold viewLayer
      congr 1
      exact mapV_congr (fun e hm => he.cell (v4 a ha e hm))
    · show viewDict h' (h'.dict l.cal) = viewDict h (h.dict l.cal)
      rw [hdict]
      exact viewDict_congr (fun e hm => he.calOf (v2 e hm))
    · show (h'.cfgOf l.cfg).scal = (h.cfgOf l.cfg).scal
      rw [he.cfgOf v3]
  · refine ⟨Nat.lt_of_lt_of_le v1 he.2.2.2.2.2.2.2.2.1, ?_, Nat.lt_of_lt_of_le v3 he.2.2.2.2.1, ?_⟩
    · show ∀ e ∈ h'.dict l.cal, e.2 < h'.cals.length
      rw [hdict]
      exact fun e hm => Nat.lt_of_lt_of_le (v2 e hm) he.2.2.1
    · exact fun a ha e hm => Nat.lt_of_lt_of_le (v4 a ha e hm) he.1

theorem sep_ext {F : Foreign} {h h' : Heap} {l : Obj} {d : Option Nat} (hv : Valid ⟨h, l⟩) (hs : Sep F ⟨h, l⟩)
    (he : Ext d h h') (hd : some l.cal ≠ d) : Sep F ⟨h', l⟩ := by
  obtain ⟨b1, b2, b3, s1, s2, s3⟩ := hs
  have hdict : h'.dict l.cal = h.dict l.cal := he.dict hv.1 hd
  refine ⟨fun k hk => Nat.lt_of_lt_of_le (b1 k hk) he.2.2.1, fun k hk => Nat.lt_of_lt_of_le (b2 k hk) he.2.2.2.2.2.2.2.2.1,
    fun k hk => Nat.lt_of_lt_of_le (b3 k hk) he.2.2.2.2.1, s1, ?_, s3⟩
  show ∀ e ∈ h'.dict l.cal, e.2 ∉ F.cals
  rw [hdict]
  exact s2

/-! ## small facts about `Res`, lists and `hstep` -/

theorem Res.map_state {σ τ : Type} (f : σ → τ) (r : Res σ) : (r.map f).state = f r.state := by cases r <;> rfl
theorem Res.map_err {σ τ : Type} (f : σ → τ) (r : Res σ) : (r.map f).err = r.err := by cases r <;> rfl

theorem Res.ext' {σ : Type} {a b : Res σ} (h1 : a.state = b.state) (h2 : a.err = b.err) : a = b := by
  cases a <;> cases b <;> simp_all [Res.state, Res.err]

theorem pairwise_get {α : Type} {R : α → α → Prop} (hs : ∀ a b, R a b → R b a) {l : List α} (hp : l.Pairwise R)
    {i j : Nat} {a b : α} (hi : l[i]? = some a) (hj : l[j]? = some b) (hne : i ≠ j) : R a b := by
  rw [List.pairwise_iff_getElem] at hp
  obtain ⟨hi', rfl⟩ := List.getElem?_eq_some_iff.1 hi
  obtain ⟨hj', rfl⟩ := List.getElem?_eq_some_iff.1 hj
  rcases Nat.lt_or_gt_of_ne hne with h | h
  · exact hp i j hi' hj' h
  · exact hs _ _ (hp j i hj' hi' h)

theorem pairwise_set {α : Type} {R : α → α → Prop} (hs : ∀ a b, R a b → R b a) {l : List α} (hp : l.Pairwise R)
    (i : Nat) (x : α) (hx : ∀ j b, j ≠ i → l[j]? = some b → R x b) : (l.set i x).Pairwise R := by
  rw [List.pairwise_iff_getElem]
  intro a b ha hb hab
  simp only [List.length_set] at ha hb
  rw [List.getElem_set, List.getElem_set]
  split <;> split
  · omega
  · exact hx b _ (by omega) (List.getElem?_eq_getElem hb)
  · exact hs _ _ (hx a _ (by omega) (List.getElem?_eq_getElem ha))
  · exact (List.pairwise_iff_getElem.1 hp) a b ha hb hab

theorem mem_set_cases {α : Type} {l : List α} {i : Nat} {x a : α} (h : a ∈ l.set i x) :
    a = x ∨ ∃ j, j ≠ i ∧ l[j]? = some a := by
  obtain ⟨j, hj⟩ := List.mem_iff_getElem?.1 h
  rw [List.getElem?_set] at hj
  split at hj
  · split at hj
    · left; simpa using hj.symm
    · simp at hj
  · right; exact ⟨j, fun e => by omega, hj⟩

/-- a method leaves the kind of the laser alone -/
theorem hstep_srr (w : World) (op : HOp) : (hstep w op).state.laser.srr = w.laser.srr := by
  cases op with
  | add n xs cal =>
    simp only [hstep, hAdd]
    split
    · rfl
    · split <;> rfl
  | remove ns =>
    simp only [hstep, hRemove]
    split <;> rfl
  | rename m =>
    simp only [hstep, hRename]
    split <;> rfl
  | get layer t c =>
    simp only [hstep]
    split <;> rfl
  | setCal k c => rfl
  | setCfg k c => rfl
  | setOffsets k c => rfl
  | writeOffsets o c => rfl
  | setDict k d => rfl
  | writeCell i c => rfl

/-- an edit by a holder is `Heap.edit` on the memory, whatever laser is looked at -/
theorem hstep_edit (w : World) (op : HOp) (hc : op.isCall = false) :
    hstep w op = .ok { w with heap := w.heap.edit op } := by
  cases op <;> first | rfl | (simp [HOp.isCall] at hc)

/-! ## one laser among several -/

/-- no two lasers have their dict or their list of layers in common -/
def Apart (a b : MObj) : Prop := a.cal ≠ b.cal ∧ a.data.apart b.data

theorem DataRef.apart_symm {a b : DataRef} (h : a.apart b) : b.apart a := by
  cases a <;> cases b <;> simp_all [DataRef.apart]
  exact fun e => h e.symm

theorem Apart.symm {a b : MObj} (h : Apart a b) : Apart b a := ⟨fun e => h.1 e.symm, DataRef.apart_symm h.2⟩

theorem MValid.valid {m : MWorld} (hv : MValid m) {i : Nat} {o : MObj} (hi : m.lasers[i]? = some o) :
    Valid (m.world o) := hv.1 o (List.mem_of_getElem? hi)

theorem MValid.below {m : MWorld} (hv : MValid m) {i : Nat} {o : MObj} (hi : m.lasers[i]? = some o) :
    o.data.below m.lists.length := hv.2.1 o (List.mem_of_getElem? hi)

theorem MValid.apart {m : MWorld} (hv : MValid m) {i j : Nat} {oi oj : MObj} (hi : m.lasers[i]? = some oi)
    (hj : m.lasers[j]? = some oj) (hne : i ≠ j) : Apart oi oj :=
  pairwise_get (R := Apart) (fun _ _ h => h.symm) hv.2.2 hi hj hne

theorem listOf_set_self (h : Heap) (ls : List (List Arr)) (L : List MObj) {k : Nat} (hk : k < ls.length) (d : List Arr) :
    MWorld.listOf ⟨h, ls.set k d, L⟩ k = d := by
  unfold MWorld.listOf
  simp [List.getElem?_set_self hk]

theorem listOf_set_ne (h : Heap) (ls : List (List Arr)) (L : List MObj) {k k' : Nat} (hk : k ≠ k') (d : List Arr) :
    MWorld.listOf ⟨h, ls.set k d, L⟩ k' = (ls[k']?).getD [] := by
  unfold MWorld.listOf
  simp [List.getElem?_set_ne hk]

/-- after a method of laser `i`: laser `i` of the new world is exactly what the method left -/
theorem put_self (m : MWorld) (i : Nat) (o : MObj) (w : World)
    (hb : o.data.below m.lists.length) (hsrr : w.laser.srr = o.srr) :
    ∃ o', (m.put i o w).lasers = m.lasers.set i o' ∧ (m.put i o w).world o' = w ∧
      o'.cal = w.laser.cal ∧ (∀ d : DataRef, d.apart o.data → d.apart o'.data) ∧ o'.data.below (m.put i o w).lists.length ∧
      (m.put i o w).heap = w.heap ∧ (m.put i o w).lists.length = m.lists.length ∧
      (∀ k, o.data ≠ .list k → (m.put i o w).listOf k = m.listOf k) ∧ (∀ k, o'.data = .list k → o.data = .list k) := by
  obtain ⟨wh, ⟨ws, wd, wc, wf⟩⟩ := w
  simp only at hsrr
  subst hsrr
  cases hd : o.data with
  | own ls =>
    refine ⟨{ o with data := .own wd, cal := wc, cfg := wf }, ?_, ?_, rfl, ?_, ?_, ?_, ?_, ?_, ?_⟩
    · simp only [MWorld.put, hd]
    · simp only [MWorld.put, hd, MWorld.world, DataRef.layers]
    · intro d _; cases d <;> simp [DataRef.apart]
    · simp [DataRef.below]
    · simp only [MWorld.put, hd]
    · simp only [MWorld.put, hd]
    · intro k _; simp only [MWorld.put, hd, MWorld.listOf]
    · intro k hk; simp at hk
  | list k =>
    have hk : k < m.lists.length := by rw [hd] at hb; exact hb
    refine ⟨{ o with cal := wc, cfg := wf }, ?_, ?_, rfl, ?_, ?_, ?_, ?_, ?_, ?_⟩
    · simp only [MWorld.put, hd]
    · simp only [MWorld.put, hd, MWorld.world, DataRef.layers]
      rw [listOf_set_self _ _ _ hk]
    · intro d h; simpa [hd] using h
    · simp only [MWorld.put, hd, DataRef.below, List.length_set]; exact hk
    · simp only [MWorld.put, hd]
    · simp only [MWorld.put, hd, List.length_set]
    · intro k' hk'
      have : k ≠ k' := fun e => hk' (by rw [e])
      simp only [MWorld.put, hd]
      rw [listOf_set_ne _ _ _ this]
      rfl
    · intro k' hk'; simpa [hd] using hk'

/-- …and every other laser holds the references it held, to the layers it held -/
theorem put_other (m : MWorld) (i : Nat) (o : MObj) (w : World) {oj : MObj} (hap : o.data.apart oj.data) :
    (m.put i o w).world oj = ⟨w.heap, (m.world oj).laser⟩ := by
  cases hd : o.data with
  | own ls => simp only [MWorld.put, hd, MWorld.world]; cases oj.data <;> rfl
  | list k =>
    simp only [MWorld.put, hd, MWorld.world]
    cases hj : oj.data with
    | own ls => rfl
    | list k' =>
      have hne : k ≠ k' := by rw [hd, hj] at hap; exact hap
      simp only [DataRef.layers]
      rw [listOf_set_ne _ _ _ hne]
      rfl

theorem mstep_call (m : MWorld) {i : Nat} {o : MObj} (hi : m.lasers[i]? = some o) (op : HOp) :
    mstep m (.call i op) = (hstep (m.world o) op).map (m.put i o) := by
  simp only [mstep, hi]

/-- A method of laser `i` among several lasers: laser `i` does what the content level says (success or exception),
every other laser stores what it stored, every list object other than laser `i`'s own holds what it held, and
the world stays well-formed. -/
theorem multi_call' (m : MWorld) (hv : MValid m) (i : Nat) (o : MObj) (hi : m.lasers[i]? = some o) (op : HOp)
    (ha : ArgsOK m.heap op) (hc : op.isCall = true) :
    (mstep m (.call i op)).map (fun m' => mview m' i) = (stepE (view (m.world o)) (absOp m.heap op)).map some ∧
    (∃ o', (mstep m (.call i op)).state.lasers[i]? = some o' ∧
      (mstep m (.call i op)).state.world o' = (hstep (m.world o) op).state ∧ (∀ k, o'.data = .list k → o.data = .list k)) ∧
    (∀ (j : Nat) (oj : MObj), j ≠ i → m.lasers[j]? = some oj → (mstep m (.call i op)).state.lasers[j]? = some oj ∧
      (mstep m (.call i op)).state.world oj = ⟨(mstep m (.call i op)).state.heap, (m.world oj).laser⟩ ∧
      view ((mstep m (.call i op)).state.world oj) = view (m.world oj)) ∧
    (∀ j, j ≠ i → mview (mstep m (.call i op)).state j = mview m j) ∧
    (∀ k, o.data ≠ .list k → (mstep m (.call i op)).state.listOf k = m.listOf k) ∧
    (mstep m (.call i op)).state.lasers.length = m.lasers.length ∧
    (mstep m (.call i op)).state.lists.length = m.lists.length ∧
    MValid (mstep m (.call i op)).state ∧
    Ext (some o.cal) m.heap (mstep m (.call i op)).state.heap := by
  have hvo : Valid (m.world o) := hv.valid hi
  obtain ⟨hsim, hval'⟩ := hstep_view' (m.world o) hvo op ha hc
  rw [show (m.world o).heap = m.heap from rfl] at hsim
  have hext : Ext (some o.cal) m.heap (hstep (m.world o) op).state.heap := hstep_ext (m.world o) hvo op ha hc
  have hkeeps := hstep_keeps (m.world o) hvo op ha hc
  have hsrr : (hstep (m.world o) op).state.laser.srr = o.srr := hstep_srr (m.world o) op
  rw [mstep_call m hi op]
  generalize hr : hstep (m.world o) op = r at hsim hval' hext hkeeps hsrr
  obtain ⟨o', p1, p2, p3, p4, p5, p6, p7, p8, p9⟩ := put_self m i o r.state (hv.below hi) hsrr
  have hilt : i < m.lasers.length := (List.getElem?_eq_some_iff.1 hi).1
  have hself : (m.put i o r.state).lasers[i]? = some o' := by rw [p1]; exact List.getElem?_set_self hilt
  have hother : ∀ j, j ≠ i → (m.put i o r.state).lasers[j]? = m.lasers[j]? := by
    intro j hj; rw [p1]; exact List.getElem?_set_ne (fun e => hj e.symm)
  -- what another laser sees
  have hframe : ∀ (j : Nat) (oj : MObj), j ≠ i → m.lasers[j]? = some oj →
      (m.put i o r.state).world oj = ⟨r.state.heap, (m.world oj).laser⟩ ∧
      view ((m.put i o r.state).world oj) = view (m.world oj) ∧ Valid ((m.put i o r.state).world oj) := by
    intro j oj hj hoj
    have hap := hv.apart hi hoj (fun e => hj e.symm)
    rw [put_other m i o r.state hap.2]
    exact ⟨rfl, view_ext (hv.valid hoj) hext (fun e => hap.1 (Option.some.inj e).symm)⟩
  simp only [Res.map_state]
  refine ⟨?_, ⟨o', hself, p2, p9⟩, ?_, ?_, p8, by rw [p1, List.length_set], p7, ?_, by rw [p6]; exact hext⟩
  · apply Res.ext'
    · simp only [Res.map_state, mview, hself, Option.map_some, p2]
      rw [← hsim, Res.map_state]
    · simp only [Res.map_err]
      rw [← hsim, Res.map_err]
  · intro j oj hj hoj
    obtain ⟨f1, f2, _⟩ := hframe j oj hj hoj
    exact ⟨by rw [hother j hj]; exact hoj, by rw [f1, p6], f2⟩
  · intro j hj
    simp only [mview, hother j hj]
    cases hoj : m.lasers[j]? with
    | none => rfl
    | some oj => simp only [Option.map_some]; rw [(hframe j oj hj hoj).2.1]
  · refine ⟨?_, ?_, ?_⟩
    · intro x hx
      rw [p1] at hx
      rcases mem_set_cases hx with rfl | ⟨j, hj, hoj⟩
      · rw [p2]; exact hval'
      · exact (hframe j x hj hoj).2.2
    · intro x hx
      rw [p1] at hx
      rcases mem_set_cases hx with rfl | ⟨j, hj, hoj⟩
      · exact p5
      · rw [p7]; exact hv.below hoj
    · rw [p1]
      apply pairwise_set (R := Apart) (fun _ _ h => h.symm) hv.2.2
      intro j b hj hb
      have hap := hv.apart hi hb (fun e => hj e.symm)
      refine ⟨?_, DataRef.apart_symm (p4 _ (DataRef.apart_symm hap.2))⟩
      rw [p3]
      rcases hkeeps.2.2.2.2.2.2.1 with h | h
      · rw [h]; exact hap.1
      · have := (hv.valid hb).1
        intro e
        rw [e] at h
        exact absurd this (Nat.not_lt.2 h)

/-! ## constructors and the loader only allocate -/

theorem allocDefaults_ext (d : Option Nat) : ∀ (ns : List Name) (dd : IdDict) (h : Heap), Ext d h (allocDefaults ns dd h).2
  | [], _, h => Ext.refl _ h
  | _ :: ns, _, h => (ext_allocCal d h 0).trans (allocDefaults_ext d ns _ _)

theorem deepcopyEntries_ext (d : Option Nat) : ∀ (g : IdDict) (memo : List (Nat × Nat)) (out : IdDict) (h : Heap),
    Ext d h (deepcopyEntries g memo out h).2 := by
  intro g
  induction g with
  | nil => intro memo out h; exact Ext.refl _ h
  | cons e r ih =>
    intro memo out h
    unfold deepcopyEntries
    split
    · exact ih _ _ _
    · exact (ext_allocCal d h _).trans (ih _ _ _)

theorem conCal_ext (d : Option Nat) (h : Heap) (els : List Name) (given : Option Nat) : Ext d h (conCal h els given).2 := by
  cases given with
  | none => exact allocDefaults_ext d els [] h
  | some g => exact (allocDefaults_ext d els [] h).trans (deepcopyEntries_ext d _ _ _ _)

theorem conCfg_ext (d : Option Nat) (h : Heap) (srr : Bool) (config : Option Nat) : Ext d h (conCfg h srr config).2 := by
  cases config with
  | some k => exact ext_allocCfg d h _
  | none =>
    unfold conCfg
    cases srr with
    | true => exact (ext_allocOffs d h 0).trans (ext_allocCfg d _ _)
    | false => exact ext_allocCfg d h _

theorem hConstruct_ext (d : Option Nat) {h : Heap} {srr : Bool} {data : List Arr} {given config : Option Nat} {w : World}
    (hw : hConstruct h srr data given config = some w) : Ext d h w.heap := by
  unfold hConstruct at hw
  split at hw
  · simp at hw
  · simp only [Option.some.injEq] at hw
    subst hw
    exact ((conCal_ext d h _ given).trans (ext_allocDict d _ _)).trans (conCfg_ext d _ srr config)

theorem copyArrs_ext (d : Option Nat) : ∀ (as : List Arr) (h : Heap), Ext d h (copyArrs as h).2
  | [], h => Ext.refl _ h
  | a :: as, h => (Ext.of_grows (copyArr_grows h a)).trans (copyArrs_ext d as _)

theorem freshEntries_ext (d : Option Nat) : ∀ (g out : IdDict) (h : Heap), Ext d h (freshEntries g out h).2
  | [], _, h => Ext.refl _ h
  | _ :: r, _, h => (ext_allocCal d h _).trans (freshEntries_ext d r _ _)

theorem loadCfg_ext (d : Option Nat) (h : Heap) (c0 : Cfg) : Ext d h (loadCfg h c0).2 := by
  unfold loadCfg
  cases c0.offs with
  | some o => exact (ext_allocOffs d h _).trans (ext_allocCfg d _ _)
  | none => exact ext_allocCfg d h _

theorem hRoundTrip_ext (d : Option Nat) {w w' : World} (hw : hRoundTrip w = some w') : Ext d w.heap w'.heap := by
  unfold hRoundTrip at hw
  exact ((((copyArrs_ext d _ _).trans (freshEntries_ext d _ _ _)).trans (ext_allocDict d _ _)).trans
    (loadCfg_ext d _ _)).trans (hConstruct_ext d hw)

/-! ## a new laser joins -/

theorem push_spec (m : MWorld) (w : World) :
    ∃ o', (m.push w).lasers = m.lasers ++ [o'] ∧ (m.push w).world o' = w ∧ o'.cal = w.laser.cal ∧ o'.cfg = w.laser.cfg ∧
      (m.push w).heap = w.heap ∧ m.lists.length ≤ (m.push w).lists.length ∧
      (∀ k, k < m.lists.length → (m.push w).listOf k = m.listOf k) ∧
      (∀ x : DataRef, x.below m.lists.length → x.apart o'.data) ∧ o'.data.below (m.push w).lists.length ∧
      (w.laser.srr = true → o'.data = .list m.lists.length) := by
  obtain ⟨wh, ⟨ws, wd, wc, wf⟩⟩ := w
  cases ws with
  | true =>
    refine ⟨{ srr := true, data := .list m.lists.length, cal := wc, cfg := wf }, ?_, ?_, rfl, rfl, ?_, ?_, ?_, ?_, ?_, ?_⟩
    · simp [MWorld.push]
    · simp [MWorld.push, MWorld.world, DataRef.layers, MWorld.listOf]
    · simp [MWorld.push]
    · simp [MWorld.push]
    · intro k hk
      simp only [MWorld.push, MWorld.listOf, if_true]
      rw [List.getElem?_append_left hk]
    · intro x hx
      cases x with
      | own ls => simp [DataRef.apart]
      | list k => simp only [DataRef.apart]; simp only [DataRef.below] at hx; omega
    · simp [MWorld.push, DataRef.below]
    · intro _; rfl
  | false =>
    refine ⟨{ srr := false, data := .own wd, cal := wc, cfg := wf }, ?_, ?_, rfl, rfl, ?_, ?_, ?_, ?_, ?_, ?_⟩
    · simp [MWorld.push]
    · simp [MWorld.push, MWorld.world, DataRef.layers]
    · simp [MWorld.push]
    · simp [MWorld.push]
    · intro k _; simp [MWorld.push, MWorld.listOf]
    · intro x _; cases x <;> simp [DataRef.apart]
    · simp [DataRef.below]
    · intro h; simp at h

/-- the lasers that existed hold the references they held, to the layers they held -/
theorem push_other (m : MWorld) (w : World) {oj : MObj} (hb : oj.data.below m.lists.length) :
    (m.push w).world oj = ⟨w.heap, (m.world oj).laser⟩ := by
  unfold MWorld.push
  split
  · simp only [MWorld.world]
    cases hj : oj.data with
    | own ls => rfl
    | list k =>
      have hk : k < m.lists.length := by rw [hj] at hb; exact hb
      simp only [DataRef.layers, MWorld.listOf]
      rw [List.getElem?_append_left hk]
  · simp only [MWorld.world]
    cases oj.data <;> rfl

/-- A laser built next to the others — from memory that only grew, with a dict object that did not exist before:
the new laser stands for what was built, every laser that existed stores what it stored, every list object that
existed holds what it held, the world stays well-formed. -/
theorem push_frame (m : MWorld) (hv : MValid m) (w : World) (he : Ext none m.heap w.heap) (hw : Valid w)
    (hnew : m.heap.dicts.length ≤ w.laser.cal) :
    ∃ o', (m.push w).lasers = m.lasers ++ [o'] ∧ (m.push w).world o' = w ∧ o'.cal = w.laser.cal ∧ o'.cfg = w.laser.cfg ∧
      mview (m.push w) m.lasers.length = some (view w) ∧
      (∀ j, j < m.lasers.length → mview (m.push w) j = mview m j) ∧
      (∀ (j : Nat) (oj : MObj), m.lasers[j]? = some oj → (m.push w).world oj = ⟨w.heap, (m.world oj).laser⟩) ∧
      (∀ k, k < m.lists.length → (m.push w).listOf k = m.listOf k) ∧ m.lists.length ≤ (m.push w).lists.length ∧
      (w.laser.srr = true → o'.data = .list m.lists.length) ∧ (∀ k, k < m.lists.length → o'.data ≠ .list k) ∧
      (m.push w).heap = w.heap ∧ MValid (m.push w) := by
  obtain ⟨o', p1, p2, p3, p4, p5, p6, p7, p8, p9, p10⟩ := push_spec m w
  have pnew : ∀ k, k < m.lists.length → o'.data ≠ .list k := by
    intro k hk e
    have := p8 (.list k) hk
    rw [e] at this
    exact this rfl
  have hold : ∀ (j : Nat) (oj : MObj), m.lasers[j]? = some oj →
      (m.push w).world oj = ⟨w.heap, (m.world oj).laser⟩ ∧ view ⟨w.heap, (m.world oj).laser⟩ = view (m.world oj) ∧
        Valid (⟨w.heap, (m.world oj).laser⟩ : World) := by
    intro j oj hoj
    refine ⟨push_other m w (hv.below hoj), ?_⟩
    exact view_ext (hv.valid hoj) he (by simp)
  refine ⟨o', p1, p2, p3, p4, ?_, ?_, fun j oj hoj => (hold j oj hoj).1, p7, p6, p10, pnew, p5, ?_⟩
  · simp only [mview, p1]
    rw [List.getElem?_append_right (Nat.le_refl _)]
    simp [p2]
  · intro j hj
    simp only [mview, p1]
    rw [List.getElem?_append_left hj]
    cases hoj : m.lasers[j]? with
    | none => rfl
    | some oj =>
      obtain ⟨h1, h2, _⟩ := hold j oj hoj
      simp only [Option.map_some]
      rw [h1, h2]
  · refine ⟨?_, ?_, ?_⟩
    · intro x hx
      rw [p1] at hx
      rcases List.mem_append.1 hx with hx | hx
      · obtain ⟨j, hoj⟩ := List.mem_iff_getElem?.1 hx
        obtain ⟨h1, _, h3⟩ := hold j x hoj
        rw [h1]; exact h3
      · simp only [List.mem_singleton] at hx
        subst hx
        rw [p2]; exact hw
    · intro x hx
      rw [p1] at hx
      rcases List.mem_append.1 hx with hx | hx
      · obtain ⟨j, hoj⟩ := List.mem_iff_getElem?.1 hx
        have := hv.below hoj
        cases hxd : x.data with
        | own ls => simp [DataRef.below]
        | list k => rw [hxd] at this; simp only [DataRef.below] at this ⊢; omega
      · simp only [List.mem_singleton] at hx
        subst hx
        exact p9
    · rw [p1]
      apply List.pairwise_append.2
      refine ⟨hv.2.2, by simp, ?_⟩
      intro a ha b hb
      simp only [List.mem_singleton] at hb
      subst hb
      obtain ⟨j, hoj⟩ := List.mem_iff_getElem?.1 ha
      refine ⟨?_, p8 _ (hv.below hoj)⟩
      rw [p3]
      have := (hv.valid hoj).1
      simp only [MWorld.world] at this
      omega

/-- `Laser(…)` / `SRRLaser(…)` next to the lasers that exist -/
theorem multi_construct' (m m' : MWorld) (hv : MValid m) (srr : Bool) (data : DataRef) (given config : Option Nat)
    (hd : ∀ a ∈ data.layers m, ∀ e ∈ a.fields, e.2 < m.heap.cells.length)
    (hg : ∀ g, given = some g → ∀ e ∈ m.heap.dict g, e.2 < m.heap.cals.length)
    (hm : mConstruct m srr data given config = some m') :
    ∃ o', m'.lasers = m.lasers ++ [o'] ∧
      mview m' m.lasers.length = some (mkState srr ((data.layers m).map (viewLayer m.heap))
        (given.map (fun g => viewDict m.heap (m.heap.dict g))) ((config.map (fun k => (m.heap.cfgOf k).scal)).getD 0)) ∧
      (∀ j, j < m.lasers.length → mview m' j = mview m j) ∧
      (∀ (j : Nat) (oj : MObj), m.lasers[j]? = some oj → m'.world oj = ⟨m'.heap, (m.world oj).laser⟩) ∧
      (∀ k, k < m.lists.length → m'.listOf k = m.listOf k) ∧ m.lists.length ≤ m'.lists.length ∧
      (srr = true → o'.data = .list m.lists.length) ∧ (∀ k, k < m.lists.length → o'.data ≠ .list k) ∧
      m.heap.dicts.length ≤ o'.cal ∧ m.heap.cfgs.length ≤ o'.cfg ∧
      (∀ e ∈ m'.heap.dict o'.cal, m.heap.cals.length ≤ e.2) ∧
      (∀ k, config = some k → (m'.heap.cfgOf o'.cfg).offs = (m.heap.cfgOf k).offs) ∧
      Ext none m.heap m'.heap ∧ MValid m' ∧
      (∀ F : Foreign, (∀ k ∈ F.cals, k < m.heap.cals.length) → (∀ k ∈ F.dicts, k < m.heap.dicts.length) →
        (∀ k ∈ F.cfgs, k < m.heap.cfgs.length) → Sep F (m'.world o')) := by
  unfold mConstruct at hm
  cases hc : hConstruct m.heap srr (data.layers m) given config with
  | none => rw [hc] at hm; simp at hm
  | some w =>
    rw [hc] at hm
    simp only [Option.map_some, Option.some.injEq] at hm
    subst hm
    obtain ⟨s1, s2, _, s4, s5, s6, s7, s8, _, _, _, _⟩ := hConstruct_spec m.heap srr (data.layers m) given config w hd hg hc
    have he : Ext none m.heap w.heap := hConstruct_ext none hc
    obtain ⟨o', q1, q2, q3, q4, q5, q6, q7, q8, q9, q10, qn, q11, q12⟩ := push_frame m hv w he s2 s5
    refine ⟨o', q1, by rw [q5, s1], q6, ?_, q8, q9, fun h => q10 (by rw [s4]; exact h), qn, by rw [q3]; exact s5,
      by rw [q4]; exact s7, ?_, ?_, by rw [q11]; exact he, q12, ?_⟩
    · intro j oj hoj; rw [q7 j oj hoj, q11]
    · rw [q11, q3]; exact s6
    · rw [q11, q4]; exact s8
    · intro F f1 f2 f3
      rw [q2]
      exact hConstruct_sep hd hg hc F ⟨f1, f2, f3⟩

/-- `npz.load(npz.save(lasers[i]))` next to the lasers that exist (the saved one among them) -/
theorem multi_load' (m m' : MWorld) (hv : MValid m) (i : Nat) (o : MObj) (hi : m.lasers[i]? = some o)
    (hm : mLoad m i = some m') :
    ∃ o', m'.lasers = m.lasers ++ [o'] ∧
      mview m' m.lasers.length = some (mkState o.srr (view (m.world o)).layers (some (view (m.world o)).cal)
        (view (m.world o)).cfg) ∧
      (∀ j, j < m.lasers.length → mview m' j = mview m j) ∧
      (∀ (j : Nat) (oj : MObj), m.lasers[j]? = some oj → m'.world oj = ⟨m'.heap, (m.world oj).laser⟩) ∧
      (∀ k, k < m.lists.length → m'.listOf k = m.listOf k) ∧ m.lists.length ≤ m'.lists.length ∧
      (∀ k, k < m.lists.length → o'.data ≠ .list k) ∧
      (∀ a ∈ (m'.world o').laser.data, ∀ e ∈ a.fields, m.heap.cells.length ≤ e.2) ∧
      Ext none m.heap m'.heap ∧ MValid m' ∧
      (∀ F : Foreign, (∀ k ∈ F.cals, k < m.heap.cals.length) → (∀ k ∈ F.dicts, k < m.heap.dicts.length) →
        (∀ k ∈ F.cfgs, k < m.heap.cfgs.length) → Sep F (m'.world o')) := by
  unfold mLoad at hm
  rw [hi] at hm
  simp only at hm
  cases hc : hRoundTrip (m.world o) with
  | none => rw [hc] at hm; simp at hm
  | some w =>
    rw [hc] at hm
    simp only [Option.map_some, Option.some.injEq] at hm
    subst hm
    obtain ⟨s1, s2, s3, s4⟩ := hRoundTrip_spec (m.world o) w (hv.valid hi) hc
    have he : Ext none m.heap w.heap := hRoundTrip_ext none hc
    have hnew : m.heap.dicts.length ≤ w.laser.cal := by
      -- the loaded laser references no dict that existed: take all of them as foreign
      have hs := s4 ⟨[], List.range m.heap.dicts.length, []⟩ (by simp) (by simp [MWorld.world]) (by simp)
      have hnot := hs.2.2.2.1
      simp only [List.mem_range] at hnot
      omega
    obtain ⟨o', q1, q2, q3, q4, q5, q6, q7, q8, q9, q10, qn, q11, q12⟩ := push_frame m hv w he s2 hnew
    refine ⟨o', q1, by rw [q5, s1]; rfl, q6, ?_, q8, q9, qn, by rw [q2]; exact s3, by rw [q11]; exact he, q12, ?_⟩
    · intro j oj hoj; rw [q7 j oj hoj, q11]
    · intro F f1 f2 f3
      rw [q2]
      exact s4 F f1 f2 f3

/-! ## two lasers built from the same arguments -/

theorem layers_kept {m m' : MWorld} {data : DataRef} (hk : data.below m.lists.length)
    (h : ∀ k, k < m.lists.length → m'.listOf k = m.listOf k) : data.layers m' = data.layers m := by
  cases data with
  | own ls => rfl
  | list k => exact h k hk

theorem shared_arguments' (m m1 m2 : MWorld) (hv : MValid m) (srr : Bool) (data : DataRef) (given config : Option Nat)
    (hd : ∀ a ∈ data.layers m, ∀ e ∈ a.fields, e.2 < m.heap.cells.length) (hk : data.below m.lists.length)
    (hg : ∀ g, given = some g → g < m.heap.dicts.length ∧ ∀ e ∈ m.heap.dict g, e.2 < m.heap.cals.length)
    (hcf : ∀ c, config = some c → c < m.heap.cfgs.length)
    (h1 : mConstruct m srr data given config = some m1) (h2 : mConstruct m1 srr data given config = some m2) :
    m2.lasers.length = m.lasers.length + 2 ∧
    mview m2 m.lasers.length = some (mkState srr ((data.layers m).map (viewLayer m.heap))
      (given.map (fun g => viewDict m.heap (m.heap.dict g))) ((config.map (fun k => (m.heap.cfgOf k).scal)).getD 0)) ∧
    mview m2 (m.lasers.length + 1) = mview m2 m.lasers.length ∧
    MValid m2 ∧ data.layers m2 = data.layers m ∧
    (∀ i j, (i = m.lasers.length ∧ j = m.lasers.length + 1) ∨ (i = m.lasers.length + 1 ∧ j = m.lasers.length) →
      ∀ op, ArgsOK m2.heap op → op.isCall = true →
        mview (mstep m2 (.call i op)).state j = mview m2 j ∧
        data.layers (mstep m2 (.call i op)).state = data.layers m ∧ MValid (mstep m2 (.call i op)).state) := by
  obtain ⟨o1, a1, a2, _, _, a5, a6, _, a8, _, _, _, _, aE, aV, _⟩ :=
    multi_construct' m m1 hv srr data given config hd (fun g hgg => (hg g hgg).2) h1
  have hB : data.layers m1 = data.layers m := layers_kept hk a5
  have hk1 : data.below m1.lists.length := by
    cases data with
    | own ls => simp [DataRef.below]
    | list k => simp only [DataRef.below] at hk ⊢; omega
  have hd1 : ∀ a ∈ data.layers m1, ∀ e ∈ a.fields, e.2 < m1.heap.cells.length := by
    rw [hB]; exact fun a ha e he => Nat.lt_of_lt_of_le (hd a ha e he) aE.1
  have hdict : ∀ g, given = some g → m1.heap.dict g = m.heap.dict g :=
    fun g hgg => aE.dict (hg g hgg).1 (by simp)
  have hg1 : ∀ g, given = some g → ∀ e ∈ m1.heap.dict g, e.2 < m1.heap.cals.length := by
    intro g hgg e he
    rw [hdict g hgg] at he
    exact Nat.lt_of_lt_of_le ((hg g hgg).2 e he) aE.2.2.1
  obtain ⟨o2, b1, b2, b3, _, b5, _, _, b8, _, _, _, _, _, bV, _⟩ :=
    multi_construct' m1 m2 aV srr data given config hd1 hg1 h2
  have hlen1 : m1.lasers.length = m.lasers.length + 1 := by rw [a1]; simp
  -- the second laser stands for the same contents as the first
  have hS : mkState srr ((data.layers m1).map (viewLayer m1.heap)) (given.map (fun g => viewDict m1.heap (m1.heap.dict g)))
        ((config.map (fun k => (m1.heap.cfgOf k).scal)).getD 0) =
      mkState srr ((data.layers m).map (viewLayer m.heap)) (given.map (fun g => viewDict m.heap (m.heap.dict g)))
        ((config.map (fun k => (m.heap.cfgOf k).scal)).getD 0) := by
    congr 1
    · rw [hB]
      apply List.map_congr_left
      intro a ha
      unfold viewLayer
      congr 1
      exact mapV_congr (fun e he => aE.cell (hd a ha e he))
    · cases given with
      | none => rfl
      | some g =>
        simp only [Option.map_some, Option.some.injEq]
        rw [hdict g rfl]
        exact viewDict_congr (fun e he => aE.calOf ((hg g rfl).2 e he))
    · cases config with
      | none => rfl
      | some c => simp only [Option.map_some, Option.getD_some]; rw [aE.cfgOf (hcf c rfl)]
  have hp : mview m2 m.lasers.length = mview m1 m.lasers.length := b3 _ (by omega)
  have hl2 : data.layers m2 = data.layers m := by rw [layers_kept hk1 b5, hB]
  have ho1 : m2.lasers[m.lasers.length]? = some o1 := by
    rw [b1, a1, List.append_assoc, List.getElem?_append_right (Nat.le_refl _)]; simp
  have ho2 : m2.lasers[m.lasers.length + 1]? = some o2 := by
    rw [b1, List.getElem?_append_right (by omega), hlen1]; simp
  have hnot1 : ∀ k, data = .list k → o1.data ≠ .list k := by
    intro k e; subst e; exact a8 k hk
  have hnot2 : ∀ k, data = .list k → o2.data ≠ .list k := by
    intro k e; subst e; exact b8 k hk1
  refine ⟨by rw [b1]; simp [hlen1], by rw [hp, a2], by rw [← hlen1, b2, hS, hp, a2], bV, hl2, ?_⟩
  intro i j hij op ha hc
  have key : ∀ (o : MObj), m2.lasers[i]? = some o → (∀ k, data = .list k → o.data ≠ .list k) → j ≠ i →
      mview (mstep m2 (.call i op)).state j = mview m2 j ∧
      data.layers (mstep m2 (.call i op)).state = data.layers m ∧ MValid (mstep m2 (.call i op)).state := by
    intro o ho hnot hji
    obtain ⟨_, _, _, c4, c5, _, _, c8, _⟩ := multi_call' m2 bV i o ho op ha hc
    refine ⟨c4 j hji, ?_, c8⟩
    rw [← hl2]
    cases hdd : data with
    | own ls => rfl
    | list k => exact c5 k (hnot k hdd)
  rcases hij with ⟨rfl, rfl⟩ | ⟨rfl, rfl⟩
  · exact key o1 ho1 hnot1 (by omega)
  · exact key o2 ho2 hnot2 (by omega)

/-! ## edits by holders, and histories over several lasers -/

theorem stable_edit {F : Foreign} {h0 h : Heap} {op : HOp} (hs : Stable F h0 h) (ha : Allowed F h0 op)
    (hc : op.isCall = false) : Stable F h0 (h.edit op) := by
  obtain ⟨a1, a2, a3, a4⟩ := hs
  cases op with
  | add n xs cal => simp [HOp.isCall] at hc
  | remove ns => simp [HOp.isCall] at hc
  | rename m => simp [HOp.isCall] at hc
  | get layer t c => simp [HOp.isCall] at hc
  | setCal k c =>
    have hk : k ∈ F.cals := ha
    refine ⟨a1, a2, by show _ ≤ (h.cals.set k c).length; rw [List.length_set]; exact a3, ?_⟩
    intro j hj hn
    show ((h.cals.set k c)[j]?).getD 0 = _
    rw [List.getElem?_set_ne (fun (hh : k = j) => hn (hh ▸ hk))]
    exact a4 j hj hn
  | setCfg k c => exact ⟨a1, a2, a3, a4⟩
  | setOffsets k c => exact ⟨a1, a2, a3, a4⟩
  | writeOffsets o c => exact ⟨a1, a2, a3, a4⟩
  | setDict k d => exact ⟨a1, a2, a3, a4⟩
  | writeCell i c => exact absurd ha (by simp [Allowed])

theorem world_edit (m : MWorld) (op : HOp) (o : MObj) :
    ({ m with heap := m.heap.edit op } : MWorld).world o = { m.world o with heap := (m.world o).heap.edit op } := by
  simp only [MWorld.world]
  cases o.data <;> rfl

/-- an edit of foreign objects by their holders: no laser sees it -/
theorem multi_edit' {F : Foreign} {L : List Nat} {h0 : Heap} (m : MWorld) (hv : MValid m) (hs : MSep F L m)
    (hst : Stable F h0 m.heap) (op : HOp) (ha : Allowed F h0 op) (hc : op.isCall = false) :
    (∀ o ∈ m.lasers, view (({ m with heap := m.heap.edit op } : MWorld).world o) = view (m.world o)) ∧
    MValid { m with heap := m.heap.edit op } ∧ MSep F L { m with heap := m.heap.edit op } ∧
    Stable F h0 (m.heap.edit op) := by
  have hone : ∀ o ∈ m.lasers, view (({ m with heap := m.heap.edit op } : MWorld).world o) = view (m.world o) ∧
      Valid (({ m with heap := m.heap.edit op } : MWorld).world o) ∧
      Sep F (({ m with heap := m.heap.edit op } : MWorld).world o) := by
    intro o ho
    obtain ⟨w', e1, e2, _, e4, e5, _⟩ := foreign_edit (hv.1 o ho) (hs.1 o ho) (h0 := h0) hst ha hc
    rw [hstep_edit _ _ hc] at e1
    simp only [Res.ok.injEq] at e1
    rw [world_edit]
    rw [e1]
    exact ⟨e2, e4, e5⟩
  exact ⟨fun o ho => (hone o ho).1, ⟨fun o ho => (hone o ho).2.1, hv.2.1, hv.2.2⟩,
    ⟨fun o ho => (hone o ho).2.2, hs.2.1, hs.2.2⟩, stable_edit hst ha hc⟩

theorem world_setList (m : MWorld) (k : Nat) (l : List Arr) (o : MObj) (hne : o.data ≠ .list k) :
    ({ m with lists := m.lists.set k l } : MWorld).world o = m.world o := by
  simp only [MWorld.world]
  cases hd : o.data with
  | own ls => rfl
  | list k' =>
    have : k ≠ k' := fun e => hne (by rw [hd, e])
    simp only [DataRef.layers]
    rw [listOf_set_ne _ _ _ this]
    rfl

/-- the holder of a foreign list edits it: no laser keeps its layers there -/
theorem multi_setList' {F : Foreign} {L : List Nat} (m : MWorld) (hv : MValid m) (hs : MSep F L m) (k : Nat) (l : List Arr)
    (hk : k ∈ L) :
    (∀ o ∈ m.lasers, ({ m with lists := m.lists.set k l } : MWorld).world o = m.world o) ∧
    MValid { m with lists := m.lists.set k l } ∧ MSep F L { m with lists := m.lists.set k l } := by
  have hone : ∀ o ∈ m.lasers, ({ m with lists := m.lists.set k l } : MWorld).world o = m.world o :=
    fun o ho => world_setList m k l o (hs.2.2 o ho k hk)
  refine ⟨hone, ⟨fun o ho => by rw [hone o ho]; exact hv.1 o ho, ?_, hv.2.2⟩,
    ⟨fun o ho => by rw [hone o ho]; exact hs.1 o ho, ?_, hs.2.2⟩⟩
  · intro o ho
    show o.data.below (m.lists.set k l).length
    rw [List.length_set]; exact hv.2.1 o ho
  · intro k' hk'
    show k' < (m.lists.set k l).length
    rw [List.length_set]; exact hs.2.1 k' hk'

/-- the foreign lists a history does not assign -/
def keepsList (k : Nat) : MOp → Prop
  | .setList k' _ => k' ≠ k
  | _ => True

/-- Any history over several lasers (by induction): methods of any of the lasers — arguments as in `Allowed` —,
edits of the foreign objects and of the foreign lists by their holders, in any order.  If everything succeeds,
every laser's contents are those of the content-level run of ITS OWN calls (`projOp`: everything else does
nothing), the foreign lists that were not assigned hold what they held, and the invariants still hold. -/
theorem multi_history' (F : Foreign) (L : List Nat) (h0 : Heap) : ∀ (ops : List MOp) (m m' : MWorld), MValid m →
    MSep F L m → Stable F h0 m.heap → (∀ op ∈ ops, MAllowed F L h0 op) → mrun m ops = some m' →
    (∀ (j : Nat) (o : MObj), m.lasers[j]? = some o → ∃ o', m'.lasers[j]? = some o' ∧
      run (view (m.world o)) (ops.map (projOp h0 j)) = some (view (m'.world o'))) ∧
    m'.lasers.length = m.lasers.length ∧
    (∀ k ∈ L, (∀ op ∈ ops, keepsList k op) → m'.listOf k = m.listOf k) ∧
    MValid m' ∧ MSep F L m' := by
  intro ops
  induction ops with
  | nil =>
    intro m m' hv hs _ _ hr
    simp only [mrun, Option.some.injEq] at hr
    subst hr
    exact ⟨fun j o ho => ⟨o, ho, rfl⟩, rfl, fun _ _ _ => rfl, hv, hs⟩
  | cons op r ih =>
    intro m m' hv hs hst hall hr
    have ha : MAllowed F L h0 op := hall op (by simp)
    have hall' : ∀ o ∈ r, MAllowed F L h0 o := fun o ho => hall o (by simp [ho])
    simp only [mrun] at hr
    cases op with
    | construct srr data given config => exact absurd ha (by simp [MAllowed])
    | load i => exact absurd ha (by simp [MAllowed])
    | call i cop =>
      obtain ⟨hc, hal⟩ := ha
      cases hoi : m.lasers[i]? with
      | none => simp [mstep, hoi] at hr
      | some o =>
        have hargs : ArgsOK m.heap cop := Allowed.argsOK hst hal
        obtain ⟨c1, ⟨o1, c2a, c2b, c2c⟩, c3, _, c5, c6, c7, c8, c9⟩ := multi_call' m hv i o hoi cop hargs hc
        have hkeeps := hstep_keeps (m.world o) (hv.valid hoi) cop hargs hc
        rw [Allowed.absOp_eq hst hal] at c1
        cases hstp : mstep m (.call i cop) with
        | fail e m1 => rw [hstp] at hr; simp at hr
        | ok m1 =>
          rw [hstp] at hr c1 c2a c2b c3 c5 c6 c7 c8 c9
          simp only [Res.state] at c2a c3 c5 c6 c7 c8 c9
          have c2b' : m1.world o1 = (hstep (m.world o) cop).state := c2b
          -- the content-level call of laser `i` succeeds, with the new view
          have hstep' : step (view (m.world o)) (absOp h0 cop) = some (view (m1.world o1)) := by
            cases hE : stepE (view (m.world o)) (absOp h0 cop) with
            | fail e s1 => rw [hE] at c1; simp [Res.map] at c1
            | ok s1 =>
              rw [hE] at c1
              simp only [Res.map, Res.ok.injEq, mview, c2a, Option.map_some, Option.some.injEq] at c1
              rw [← stepE_toOption, hE, c1]; rfl
          -- invariants of the new world
          have hs1 : MSep F L m1 := by
            refine ⟨?_, fun k hk => by rw [c7]; exact hs.2.1 k hk, ?_⟩
            · intro x hx
              obtain ⟨j, hj⟩ := List.mem_iff_getElem?.1 hx
              by_cases hji : j = i
              · subst hji
                rw [c2a] at hj
                simp only [Option.some.injEq] at hj
                subst hj
                rw [c2b']
                exact (hs.1 o (List.mem_of_getElem? hoi)).of_keeps hkeeps (Allowed.passed_not_foreign hal)
              · have hjlt : j < m.lasers.length := by
                  rw [← c6]; exact (List.getElem?_eq_some_iff.1 hj).1
                obtain ⟨oj, hoj⟩ : ∃ oj, m.lasers[j]? = some oj := ⟨_, List.getElem?_eq_getElem hjlt⟩
                obtain ⟨d1, d2, _⟩ := c3 j oj hji hoj
                rw [d1] at hj
                simp only [Option.some.injEq] at hj
                subst hj
                rw [d2]
                have hap := hv.apart hoi hoj (fun e => hji e.symm)
                exact sep_ext (hv.valid hoj) (hs.1 oj (List.mem_of_getElem? hoj)) c9
                  (fun e => hap.1 (Option.some.inj e).symm)
            · intro x hx k hk
              obtain ⟨j, hj⟩ := List.mem_iff_getElem?.1 hx
              by_cases hji : j = i
              · subst hji
                rw [c2a] at hj
                simp only [Option.some.injEq] at hj
                subst hj
                exact fun e => hs.2.2 o (List.mem_of_getElem? hoi) k hk (c2c k e)
              · have hjlt : j < m.lasers.length := by
                  rw [← c6]; exact (List.getElem?_eq_some_iff.1 hj).1
                obtain ⟨oj, hoj⟩ : ∃ oj, m.lasers[j]? = some oj := ⟨_, List.getElem?_eq_getElem hjlt⟩
                obtain ⟨d1, _, _⟩ := c3 j oj hji hoj
                rw [d1] at hj
                simp only [Option.some.injEq] at hj
                subst hj
                exact hs.2.2 oj (List.mem_of_getElem? hoj) k hk
          have hst1 : Stable F h0 m1.heap := by
            have := hst.of_keeps (w := m.world o) (w' := m1.world o1) (by rw [c2b']; exact hkeeps)
            exact this
          obtain ⟨i1, i2, i3, i4, i5⟩ := ih m1 m' c8 hs1 hst1 hall' hr
          refine ⟨?_, by rw [i2, c6], ?_, i4, i5⟩
          · intro j oj hoj
            simp only [List.map_cons, run]
            by_cases hji : j = i
            · subst hji
              rw [hoi] at hoj
              simp only [Option.some.injEq] at hoj
              subst hoj
              simp only [projOp, if_true]
              rw [hstep']
              exact i1 j o1 c2a
            · obtain ⟨d1, _, d3⟩ := c3 j oj hji hoj
              simp only [projOp, if_neg (fun e : i = j => hji e.symm), step]
              rw [← d3]
              exact i1 j oj d1
          · intro k hk hkeep
            rw [i3 k hk (fun op hop => hkeep op (by simp [hop]))]
            exact c5 k (hs.2.2 o (List.mem_of_getElem? hoi) k hk)
    | edit eop =>
      obtain ⟨hc, hal⟩ := ha
      simp only [mstep] at hr
      obtain ⟨e1, e2, e3, e4⟩ := multi_edit' m hv hs hst eop hal hc
      obtain ⟨i1, i2, i3, i4, i5⟩ := ih _ m' e2 e3 e4 hall' hr
      refine ⟨?_, i2, ?_, i4, i5⟩
      · intro j oj hoj
        simp only [List.map_cons, run, projOp, step]
        rw [← e1 oj (List.mem_of_getElem? hoj)]
        exact i1 j oj hoj
      · intro k hk hkeep
        exact i3 k hk (fun op hop => hkeep op (by simp [hop]))
    | setList k l =>
      have hk : k ∈ L := ha
      simp only [mstep] at hr
      obtain ⟨e1, e2, e3⟩ := multi_setList' (F := F) m hv hs k l hk
      obtain ⟨i1, i2, i3, i4, i5⟩ := ih _ m' e2 e3 hst hall' hr
      refine ⟨?_, i2, ?_, i4, i5⟩
      · intro j oj hoj
        simp only [List.map_cons, run, projOp, step]
        rw [← e1 oj (List.mem_of_getElem? hoj)]
        exact i1 j oj hoj
      · intro k' hk' hkeep
        rw [i3 k' hk' (fun op hop => hkeep op (by simp [hop]))]
        have hne : k ≠ k' := hkeep (.setList k l) (by simp)
        rw [listOf_set_ne _ _ _ hne]
        rfl

end Pew.LaserEdit
