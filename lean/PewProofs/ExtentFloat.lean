import PewModel.Extent
import PewProofs.Extent
import PewProofs.Srr

/-! helper lemmas for C10: the float64 pipeline (`fl`) of extents and of the extent → index conversion -/
namespace Pew
namespace Extent


theorem nearBoundary_iff (b p : Rat) (k : Nat) :
    NearBoundary b p k ↔ |b - (k : Rat) * p| ≤ (k : Rat) * p / 2 ^ 50 := by
  unfold NearBoundary
  have e : (2 : Rat) ^ 50 = 1125899906842624 := by norm_num
  rw [e]
  split_ifs with h
  · rw [abs_of_neg h]; constructor <;> intro h' <;> linarith
  · rw [abs_of_nonneg (not_lt.mp h)]

/-- rounding to float64 keeps positivity -/
theorem fl_pos (x : Rat) (hx : 0 < x) : 0 < fl x := by
  have h := fl_relerr x
  rw [abs_of_pos hx] at h
  have h2 := (abs_le.mp h).1
  have : x / 2 ^ 53 ≤ x / 2 := by
    apply div_le_div_of_nonneg_left hx.le (by norm_num) (by norm_num)
  linarith

/-- **the float quotient of a bound near the pixel boundary `k` is within 5·10⁻⁷ of `k`**, for every positive pixel
size and every `k ≤ 2²⁸`: one rounding of the division on top of the `k / 2⁵⁰` the bound may be off -/
theorem float_quotient_near (p b : Rat) (k : Nat) (hp : 0 < p) (hk : k ≤ 2 ^ 28) (hb : NearBoundary b p k) :
    |fl (b / p) - (k : Rat)| < 5 / 10000000 := by
  rw [nearBoundary_iff] at hb
  have hkR : (k : Rat) ≤ 2 ^ 28 := by exact_mod_cast hk
  have hk0 : (0 : Rat) ≤ (k : Rat) := Nat.cast_nonneg k
  have hq : |b / p - (k : Rat)| ≤ (k : Rat) / 2 ^ 50 := by
    have e : b / p - (k : Rat) = (b - (k : Rat) * p) / p := by field_simp
    rw [e, abs_div, abs_of_pos hp, div_le_iff₀ hp]
    calc |b - (k : Rat) * p| ≤ (k : Rat) * p / 2 ^ 50 := hb
      _ = (k : Rat) / 2 ^ 50 * p := by ring
  have hqa : |b / p| ≤ (k : Rat) + (k : Rat) / 2 ^ 50 := by
    have := abs_sub_abs_le_abs_sub (b / p) (k : Rat)
    rw [abs_of_nonneg hk0] at this
    linarith
  have hz := fl_relerr (b / p)
  have t := abs_sub_le (fl (b / p)) (b / p) (k : Rat)
  have h53 : (0 : Rat) < 2 ^ 53 := by positivity
  have h1 : |b / p| / 2 ^ 53 ≤ ((k : Rat) + (k : Rat) / 2 ^ 50) / 2 ^ 53 := div_le_div_of_nonneg_right hqa h53.le
  have h2 : ((k : Rat) + (k : Rat) / 2 ^ 50) / 2 ^ 53 + (k : Rat) / 2 ^ 50
      ≤ ((2 : Rat) ^ 28 + 2 ^ 28 / 2 ^ 50) / 2 ^ 53 + 2 ^ 28 / 2 ^ 50 := by
    have a1 : (k : Rat) / 2 ^ 50 ≤ 2 ^ 28 / 2 ^ 50 := div_le_div_of_nonneg_right hkR (by positivity)
    have a2 : ((k : Rat) + (k : Rat) / 2 ^ 50) / 2 ^ 53 ≤ ((2 : Rat) ^ 28 + 2 ^ 28 / 2 ^ 50) / 2 ^ 53 :=
      div_le_div_of_nonneg_right (by linarith) h53.le
    linarith
  have h3 : ((2 : Rat) ^ 28 + 2 ^ 28 / 2 ^ 50) / 2 ^ 53 + 2 ^ 28 / 2 ^ 50 < 5 / 10000000 := by norm_num
  linarith

/-- hence `int(round(fl(b / p), 6))` is `k` -/
theorem toIndex_float (p b : Rat) (k : Nat) (hp : 0 < p) (hk : k ≤ 2 ^ 28) (hb : NearBoundary b p k) :
    toIndex (fl (b / p)) = (k : Int) := by
  have h := abs_lt.mp (float_quotient_near p b k hp hk hb)
  exact toIndex_near _ _ (by push_cast; linarith [h.1]) (by push_cast; linarith [h.2])

/-- the product a caller (and `data_extent`) computes, `fl(p · k)`, is near the boundary `k` -/
theorem fl_mul_near (p : Rat) (k : Nat) (hp : 0 < p) : NearBoundary (fl (p * (k : Rat))) p k := by
  rw [nearBoundary_iff]
  have hk0 : (0 : Rat) ≤ (k : Rat) := Nat.cast_nonneg k
  have h := fl_relerr (p * (k : Rat))
  rw [abs_of_nonneg (mul_nonneg hp.le hk0)] at h
  have e : (k : Rat) * p = p * (k : Rat) := by ring
  rw [e]
  have : p * (k : Rat) / 2 ^ 53 ≤ p * (k : Rat) / 2 ^ 50 :=
    div_le_div_of_nonneg_left (mul_nonneg hp.le hk0) (by positivity) (by norm_num)
  linarith

/-- the exact zero is the boundary 0 -/
theorem zero_near (p : Rat) : NearBoundary 0 p 0 := by
  rw [nearBoundary_iff]; simp

/-- one more float operation on a value near the boundary: anything within a relative `2⁻⁵²` (one ulp, `nextafter`)
of a correctly rounded product is still near the boundary -/
theorem near_of_close (b b' p : Rat) (k : Nat) (hp : 0 < p)
    (h1 : |b - (k : Rat) * p| ≤ (k : Rat) * p / 2 ^ 52) (h2 : |b' - b| ≤ |b| / 2 ^ 52) : NearBoundary b' p k := by
  rw [nearBoundary_iff]
  have hk0 : (0 : Rat) ≤ (k : Rat) := Nat.cast_nonneg k
  have hkp : 0 ≤ (k : Rat) * p := mul_nonneg hk0 hp.le
  have hba : |b| ≤ (k : Rat) * p + (k : Rat) * p / 2 ^ 52 := by
    have := abs_sub_abs_le_abs_sub b ((k : Rat) * p)
    rw [abs_of_nonneg hkp] at this
    linarith
  have t := abs_sub_le b' b ((k : Rat) * p)
  have h52 : (0 : Rat) < 2 ^ 52 := by positivity
  have h3 : |b| / 2 ^ 52 ≤ ((k : Rat) * p + (k : Rat) * p / 2 ^ 52) / 2 ^ 52 := div_le_div_of_nonneg_right hba h52.le
  have h4 : ((k : Rat) * p + (k : Rat) * p / 2 ^ 52) / 2 ^ 52 + (k : Rat) * p / 2 ^ 52 ≤ (k : Rat) * p / 2 ^ 50 := by
    have : ((k : Rat) * p + (k : Rat) * p / 2 ^ 52) / 2 ^ 52 + (k : Rat) * p / 2 ^ 52
        = (k : Rat) * p * ((1 + 1 / 2 ^ 52) / 2 ^ 52 + 1 / 2 ^ 52) := by ring
    rw [this]
    have : (k : Rat) * p / 2 ^ 50 = (k : Rat) * p * (1 / 2 ^ 50) := by ring
    rw [this]
    exact mul_le_mul_of_nonneg_left (by norm_num) hkp
  linarith

/-- the float64 extent value `fl(fl(v·t) · n)` against the exact `n · v · t` -/
theorem extent_value_close (v t : Rat) (n : Nat) (hv : 0 < v) (ht : 0 < t) :
    |fl (fl (v * t) * (n : Rat)) - (n : Rat) * (v * t)| ≤ (n : Rat) * (v * t) / 2 ^ 51 := by
  have hn0 : (0 : Rat) ≤ (n : Rat) := Nat.cast_nonneg n
  have hvt : 0 < v * t := mul_pos hv ht
  have h1 := fl_relerr (v * t)
  rw [abs_of_pos hvt] at h1
  have hp := fl_pos (v * t) hvt
  have h2 := fl_relerr (fl (v * t) * (n : Rat))
  rw [abs_of_nonneg (mul_nonneg hp.le hn0)] at h2
  have hfa : fl (v * t) ≤ v * t + v * t / 2 ^ 53 := by linarith [(abs_le.mp h1).2]
  have t' := abs_sub_le (fl (fl (v * t) * (n : Rat))) (fl (v * t) * (n : Rat)) ((n : Rat) * (v * t))
  have h3 : |fl (v * t) * (n : Rat) - (n : Rat) * (v * t)| ≤ (n : Rat) * (v * t) / 2 ^ 53 := by
    have e : fl (v * t) * (n : Rat) - (n : Rat) * (v * t) = (n : Rat) * (fl (v * t) - v * t) := by ring
    rw [e, abs_mul, abs_of_nonneg hn0]
    calc (n : Rat) * |fl (v * t) - v * t| ≤ (n : Rat) * (v * t / 2 ^ 53) := mul_le_mul_of_nonneg_left h1 hn0
      _ = (n : Rat) * (v * t) / 2 ^ 53 := by ring
  have h4 : fl (v * t) * (n : Rat) / 2 ^ 53 ≤ (v * t + v * t / 2 ^ 53) * (n : Rat) / 2 ^ 53 :=
    div_le_div_of_nonneg_right (mul_le_mul_of_nonneg_right hfa hn0) (by positivity)
  have h5 : (v * t + v * t / 2 ^ 53) * (n : Rat) / 2 ^ 53 + (n : Rat) * (v * t) / 2 ^ 53 ≤ (n : Rat) * (v * t) / 2 ^ 51 := by
    have : (v * t + v * t / 2 ^ 53) * (n : Rat) / 2 ^ 53 + (n : Rat) * (v * t) / 2 ^ 53
        = (n : Rat) * (v * t) * ((1 + 1 / 2 ^ 53) / 2 ^ 53 + 1 / 2 ^ 53) := by ring
    rw [this]
    have : (n : Rat) * (v * t) / 2 ^ 51 = (n : Rat) * (v * t) * (1 / 2 ^ 51) := by ring
    rw [this]
    exact mul_le_mul_of_nonneg_left (by norm_num) (mul_nonneg hn0 hvt.le)
  linarith

/-- the float pixel sizes of a configuration with positive parameters are positive -/
theorem pixelF_pos (c : Cfg) (hc : c.Positive) : 0 < c.pixelWidthF ∧ 0 < c.pixelHeightF := by
  cases c with
  | raster s v t => exact ⟨fl_pos _ (mul_pos hc.2.1 hc.2.2), hc.1⟩
  | spot sx sy => exact ⟨hc.1, hc.2⟩

end Extent
end Pew
