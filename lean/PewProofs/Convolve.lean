import PewModel.Convolve
import Mathlib.Algebra.BigOperators.Ring.List
import Mathlib.Algebra.Order.BigOperators.Group.List
import Mathlib.Algebra.Order.Field.Rat
import Mathlib.Data.Rat.Floor
import Mathlib.Tactic.Linarith
import Mathlib.Tactic.Ring
import Mathlib.Tactic.FieldSimp
import Mathlib.Tactic.NormNum
import Mathlib.Tactic.Positivity

/-! # C18 — helper lemmas for `PewModel.Convolve` -/
namespace Pew.Convolve

theorem at0_of_lt (l : List Rat) (i : Nat) (h : i < l.length) : at0 l i = l[i] := by
  simp [at0, List.getD, List.getElem?_eq_getElem h]

theorem at0_of_ge (l : List Rat) (i : Nat) (h : l.length ≤ i) : at0 l i = 0 := by
  simp [at0, List.getD, List.getElem?_eq_none h]

theorem at0_replicate (N : Nat) (c : Rat) (i : Nat) (h : i < N) : at0 (List.replicate N c) i = c := by
  rw [at0_of_lt _ _ (by simpa using h)]; simp

theorem map_at0_range (l : List Rat) : (List.range l.length).map (at0 l) = l := by
  apply List.ext_getElem
  · simp
  · intro i h1 h2
    simp only [List.getElem_map, List.getElem_range]
    exact at0_of_lt l i h2

theorem sum_at0_range (l : List Rat) : ((List.range l.length).map (at0 l)).sum = l.sum := by
  rw [map_at0_range]

theorem at0_append_left (a b : List Rat) (i : Nat) (h : i < a.length) : at0 (a ++ b) i = at0 a i := by
  simp [at0, List.getD, List.getElem?_append_left h]

theorem at0_append_right (a b : List Rat) (i : Nat) (h : a.length ≤ i) : at0 (a ++ b) i = at0 b (i - a.length) := by
  simp [at0, List.getD, List.getElem?_append_right h]

theorem padEdge_length (x : List Rat) (l r : Nat) : (padEdge x l r).length = l + x.length + r := by
  simp [padEdge]; omega

/-- inside the original signal the padded array is the signal shifted by the left pad -/
theorem padEdge_interior (x : List Rat) (l r i : Nat) (h1 : l ≤ i) (h2 : i < l + x.length) :
    at0 (padEdge x l r) i = at0 x (i - l) := by
  unfold padEdge
  rw [at0_append_left _ _ _ (by simp; omega), at0_append_right _ _ _ (by simp; omega)]
  simp

theorem padLens (m : Nat) (hm : 0 < m) : m / 2 + (m / 2 + m % 2 - 1) = m - 1 := by omega


/-! ## full convolution and series division -/

theorem fullConvAt_of_ge (x psf : List Rat) (t : Nat) (h : x.length + psf.length - 1 ≤ t) (hm : 0 < psf.length) :
    fullConvAt x psf t = 0 := by
  unfold fullConvAt
  apply List.sum_eq_zero
  intro v hv
  obtain ⟨j, hj, rfl⟩ := List.mem_map.mp hv
  have hj' : j < psf.length := List.mem_range.mp hj
  split
  · rw [at0_of_ge x _ (by omega)]; ring
  · rfl

theorem at0_fullConv (x psf : List Rat) (hm : 0 < psf.length) (t : Nat) :
    at0 (fullConv x psf) t = fullConvAt x psf t := by
  by_cases h : t < x.length + psf.length - 1
  · unfold fullConv
    rw [at0_of_lt _ _ (by simpa using h)]
    simp
  · rw [fullConvAt_of_ge x psf t (by omega) hm]
    exact at0_of_ge _ _ (by simp [fullConv]; omega)

theorem map_at0_range_succ (x : List Rat) (r : Nat) :
    (List.range (r + 1)).map (at0 x) = (List.range r).map (at0 x) ++ [at0 x r] := by
  rw [List.range_succ, List.map_append]; rfl

theorem map_at0_range_ge (x : List Rat) (r : Nat) (h : x.length ≤ r) :
    (List.range r).map (at0 x) = x ++ List.replicate (r - x.length) 0 := by
  apply List.ext_getElem
  · simp; omega
  · intro i h1 h2
    simp only [List.getElem_map, List.getElem_range]
    by_cases hi : i < x.length
    · rw [List.getElem_append_left hi]; exact at0_of_lt x i hi
    · rw [List.getElem_append_right (by omega)]
      simp only [List.getElem_replicate]
      exact at0_of_ge x i (by omega)

/-! ## the mechanism before /repo 5e4648b: `np.trim_zeros` between the quotient and the slice -/

/-- `np.trim_zeros` -/
def trimZeros (l : List Rat) : List Rat :=
  ((l.dropWhile (· == 0)).reverse.dropWhile (· == 0)).reverse

/-- `deconvolve(c, psf)` before the repair: `np.trim_zeros(np.real(y))[: c.size - psf.size - 1]` -/
def deconvolveOld (c psf : List Rat) : List Rat :=
  let r := nextPow2 (max c.length psf.length)
  pySliceTo (trimZeros (seriesDiv c psf r)) ((c.length : Int) - (psf.length : Int) - 1)

theorem dropWhile_zeros (k : Nat) (l : List Rat) :
    (List.replicate k (0 : Rat) ++ l).dropWhile (· == 0) = l.dropWhile (· == 0) := by
  induction k with
  | zero => simp
  | succ k ih => simp [List.replicate_succ, List.dropWhile_cons, ih]

theorem dropWhile_head_ne (l : List Rat) (h : ∀ a, l.head? = some a → a ≠ 0) :
    l.dropWhile (· == 0) = l := by
  cases l with
  | nil => rfl
  | cons a t =>
    have := h a rfl
    simp [List.dropWhile_cons, this]

/-- trailing zeros go; a list whose first and last entries are non-zero stays -/
theorem trimZeros_append_zeros (x : List Rat) (hh : ∀ a, x.head? = some a → a ≠ 0)
    (hl : ∀ a, x.getLast? = some a → a ≠ 0) (k : Nat) :
    trimZeros (x ++ List.replicate k 0) = x := by
  unfold trimZeros
  cases x with
  | nil =>
    have : (List.replicate k (0 : Rat)).dropWhile (· == 0) = [] := by
      have := dropWhile_zeros k []
      simpa using this
    simp [this]
  | cons a t =>
    rw [dropWhile_head_ne (a :: t ++ List.replicate k 0) (by intro b hb; simp at hb; subst hb; exact hh _ (by simp))]
    rw [List.reverse_append, List.reverse_replicate, dropWhile_zeros]
    rw [dropWhile_head_ne]
    · simp
    · intro b hb
      rw [List.head?_reverse] at hb
      exact hl b hb

theorem le_nextPow2 (n : Nat) : n ≤ nextPow2 n := by
  unfold nextPow2
  split
  · omega
  · split
    · omega
    · have := Nat.lt_log2_self (n := n - 1)
      omega

theorem seriesDiv_length (c psf : List Rat) (r : Nat) : (seriesDiv c psf r).length = r := by
  induction r with
  | zero => rfl
  | succ r ih => simp [seriesDiv, ih]

theorem pySliceTo_length {α : Type} (l : List α) (k : Int) :
    (pySliceTo l k).length = if 0 ≤ k then min k.toNat l.length else l.length - (-k).toNat := by
  unfold pySliceTo
  split <;> simp

/-! ## sums -/

theorem sum_map_div (l : List Rat) (c : Rat) : (l.map (· / c)).sum = l.sum / c := by
  simp only [div_eq_mul_inv]
  rw [List.sum_map_mul_right]
  simp

theorem sum_map_div_field {K : Type} [Field K] (l : List K) (c : K) : (l.map (· / c)).sum = l.sum / c := by
  simp only [div_eq_mul_inv]
  rw [List.sum_map_mul_right]
  simp

end Pew.Convolve
