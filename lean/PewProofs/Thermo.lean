import PewModel.Thermo

/-! # C03 — helper lemmas -/
namespace Pew.Thermo

/-! ## generic list lemmas -/

theorem map_getD_range (l : List String) : (List.range l.length).map (fun i => l.getD i "") = l := by
  apply List.ext_getElem
  · simp
  · intro i h1 h2
    simp at h1
    simp [List.getD, List.getElem?_eq_getElem h1]

theorem filter_flatMap_outer {β γ : Type} (g : β → List γ) (p : γ → Bool) (q : β → Bool) :
    ∀ (l : List β), (∀ j ∈ l, ∀ x ∈ g j, p x = q j) → (l.flatMap g).filter p = (l.filter q).flatMap g
  | [], _ => rfl
  | a :: t, h => by
    have ih := filter_flatMap_outer g p q t (fun j hj => h j (List.mem_cons_of_mem _ hj))
    rw [List.flatMap_cons, List.filter_append, ih, List.filter_cons]
    have ha := h a List.mem_cons_self
    cases hq : q a with
    | true =>
      have : (g a).filter p = g a := List.filter_eq_self.mpr (fun x hx => by rw [ha x hx, hq])
      simp [this]
    | false =>
      have : (g a).filter p = [] := List.filter_eq_nil_iff.mpr (fun x hx => by rw [ha x hx, hq]; simp)
      simp [this]

theorem filter_range_eq (C ci : Nat) (h : ci < C) : (List.range C).filter (fun c => c == ci) = [ci] := by
  induction C with
  | zero => omega
  | succ C ih =>
    rw [List.range_succ, List.filter_append]
    by_cases hc : ci < C
    · rw [ih hc]
      have : (C == ci) = false := by simp; omega
      simp [this]
    · have hci : ci = C := by omega
      subst hci
      have : (List.range ci).filter (fun c => c == ci) = [] := by
        apply List.filter_eq_nil_iff.mpr
        intro x hx
        have := List.mem_range.mp hx
        simp; omega
      simp [this]

/-- selecting from an index range by a predicate that singles out `ci` -/
theorem filter_range_single (C ci : Nat) (h : ci < C) (q : Nat → Bool) (hq : ∀ c, c < C → q c = (c == ci)) :
    (List.range C).filter q = [ci] := by
  rw [← filter_range_eq C ci h]
  apply List.filter_congr
  intro x hx
  exact hq x (List.mem_range.mp hx)

theorem allSome_map {β γ : Type} (g : β → Option γ) (f : β → γ) :
    ∀ (l : List β), (∀ x ∈ l, g x = some (f x)) → allSome (l.map g) = some (l.map f)
  | [], _ => rfl
  | a :: t, h => by
    simp only [List.map_cons, h a List.mem_cons_self, allSome,
      allSome_map g f t (fun x hx => h x (List.mem_cons_of_mem _ hx)), Option.map_some]

theorem zip_map_append_single {β γ δ : Type} (f : β → γ) (g : β → δ) (u : γ) (v : δ) (l : List β) :
    (l.map f ++ [u]).zip (l.map g ++ [v]) = l.map (fun x => (f x, g x)) ++ [(u, v)] := by
  induction l with
  | nil => rfl
  | cons a t ih => simp [ih]

/-! ## first appearance -/

theorem firstAppAux_seen (seen : List String) : ∀ (l : List String), (∀ x ∈ l, x ∈ seen) → firstAppAux seen l = []
  | [], _ => rfl
  | a :: t, h => by
    have ha : seen.contains a = true := by simpa using h a List.mem_cons_self
    simp only [firstAppAux, ha, if_true]
    exact firstAppAux_seen seen t (fun x hx => h x (List.mem_cons_of_mem _ hx))

/-- a duplicate-free list followed by anything made of its members -/
theorem firstAppAux_nodup (seen l rest : List String) (hn : l.Nodup) (hd : ∀ x ∈ l, x ∉ seen)
    (hr : ∀ x ∈ rest, x ∈ seen ∨ x ∈ l) : firstAppAux seen (l ++ rest) = l := by
  induction l generalizing seen with
  | nil =>
    simp only [List.nil_append]
    exact firstAppAux_seen seen rest (fun x hx => by simpa using hr x hx)
  | cons a t ih =>
    have ha : seen.contains a = false := by
      have := hd a List.mem_cons_self
      simpa using this
    simp only [List.cons_append, firstAppAux, ha, Bool.false_eq_true, if_false]
    rw [List.nodup_cons] at hn
    congr 1
    apply ih (a :: seen) hn.2
    · intro x hx
      simp only [List.mem_cons, not_or]
      exact ⟨fun e => hn.1 (e ▸ hx), hd x (List.mem_cons_of_mem _ hx)⟩
    · intro x hx
      rcases hr x hx with h | h
      · exact Or.inl (List.mem_cons_of_mem _ h)
      · rcases List.mem_cons.mp h with h | h
        · exact Or.inl (by simp [h])
        · exact Or.inr h

/-- `m ≥ 1` copies of a duplicate-free list, in blocks: first appearance gives the list back -/
theorem firstApp_blocks (l : List String) (hn : l.Nodup) (m : Nat) (hm : 0 < m) :
    firstApp ((List.range m).flatMap (fun _ => l)) = l := by
  cases m with
  | zero => omega
  | succ m =>
    rw [List.range_succ_eq_map, List.flatMap_cons]
    unfold firstApp
    apply firstAppAux_nodup [] l _ hn (by simp)
    intro x hx
    right
    simp only [List.mem_flatMap] at hx
    obtain ⟨_, _, h⟩ := hx
    exact h

/-- every element repeated in runs of length `m ≥ 1`: first appearance gives the list back -/
theorem firstApp_runs : ∀ (l : List String) (seen : List String) (m : Nat), 0 < m → l.Nodup → (∀ x ∈ l, x ∉ seen) →
    firstAppAux seen (l.flatMap (fun e => (List.range m).map (fun _ => e))) = l
  | [], _, _, _, _, _ => rfl
  | a :: t, seen, m, hm, hn, hd => by
    rw [List.flatMap_cons]
    rw [List.nodup_cons] at hn
    cases m with
    | zero => omega
    | succ m =>
      have hrun : (List.range (m + 1)).map (fun _ => a) = a :: (List.range m).map (fun _ => a) := by
        simp [List.range_succ_eq_map]
      rw [hrun]
      have ha : seen.contains a = false := by simpa using hd a List.mem_cons_self
      simp only [List.cons_append, firstAppAux, ha, Bool.false_eq_true, if_false]
      congr 1
      -- the remaining copies of `a` are skipped
      have hskip : ∀ (r : List String) (tail : List String), (∀ x ∈ r, x = a) →
          firstAppAux (a :: seen) (r ++ tail) = firstAppAux (a :: seen) tail := by
        intro r tail hr
        induction r with
        | nil => rfl
        | cons b r ih =>
          have hb : b = a := hr b List.mem_cons_self
          subst hb
          simp only [List.cons_append, firstAppAux, List.contains_cons, BEq.rfl, Bool.true_or, if_true]
          exact ih (fun x hx => hr x (List.mem_cons_of_mem _ hx))
      rw [hskip _ _ (by intro x hx; simp at hx; exact hx.2.symm)]
      apply firstApp_runs t (a :: seen) (m + 1) (by omega) hn.2
      intro x hx
      simp only [List.mem_cons, not_or]
      exact ⟨fun e => hn.1 (e ▸ hx), hd x (List.mem_cons_of_mem _ hx)⟩

/-! ## maxima -/

theorem foldl_max_ge (l : List Int) (x : Int) : x ≤ l.foldl max x ∧ ∀ y ∈ l, y ≤ l.foldl max x := by
  induction l generalizing x with
  | nil => simp
  | cons a t ih =>
    simp only [List.foldl_cons]
    have := ih (max x a)
    refine ⟨by omega, ?_⟩
    intro y hy
    rcases List.mem_cons.mp hy with h | h
    · subst h; omega
    · exact this.2 y h

theorem foldl_max_le (l : List Int) (x b : Int) (hx : x ≤ b) (hl : ∀ y ∈ l, y ≤ b) : l.foldl max x ≤ b := by
  induction l generalizing x with
  | nil => simpa
  | cons a t ih =>
    simp only [List.foldl_cons]
    apply ih
    · have := hl a List.mem_cons_self; omega
    · exact fun y hy => hl y (List.mem_cons_of_mem _ hy)

/-- a list of scan numbers that are all `< m` and contain `m - 1` has maximum `m - 1` -/
theorem maxInt_eq (l : List Nat) (m : Nat) (hm : 0 < m) (hlt : ∀ y ∈ l, y < m) (hmem : m - 1 ∈ l) :
    maxInt (l.map (fun (y : Nat) => (y : Int))) + 1 = (m : Int) := by
  cases l with
  | nil => simp at hmem
  | cons a t =>
    simp only [List.map_cons, maxInt]
    have hge := foldl_max_ge (t.map (fun (y : Nat) => (y : Int))) (a : Int)
    have hle := foldl_max_le (t.map (fun (y : Nat) => (y : Int))) (a : Int) ((m : Int) - 1)
      (by have := hlt a List.mem_cons_self; omega)
      (by
        intro y hy
        obtain ⟨z, hz, rfl⟩ := List.mem_map.mp hy
        have := hlt z (List.mem_cons_of_mem _ hz); omega)
    have hlow : ((m : Int) - 1) ≤ (t.map (fun (y : Nat) => (y : Int))).foldl max (a : Int) := by
      rcases List.mem_cons.mp hmem with h | h
      · have := hge.1; omega
      · have := hge.2 ((m - 1 : Nat) : Int) (List.mem_map.mpr ⟨m - 1, h, rfl⟩); omega
    omega

/-! ## widths -/

theorem fitCols_ok {α : Type} (w : Nat) (plane : List (List α)) : fitCols w w plane = some plane := by
  simp [fitCols]

theorem sameLen_of_all (l : Table) (N : Nat) (hne : l ≠ []) (h : ∀ r ∈ l, r.length = N) : sameLen l = some N := by
  cases l with
  | nil => contradiction
  | cons r t =>
    have hr := h r List.mem_cons_self
    have : t.all (fun q => q.length == r.length) = true := by
      rw [List.all_eq_true]; intro q hq; simp [h q (List.mem_cons_of_mem _ hq), hr]
    rw [hr] at this
    simp only [sameLen, hr, this, if_true]

theorem bcast_self (L : Nat) (r : Row) (h : r.length = L) : bcast L r = r := by
  unfold bcast
  by_cases h1 : r.length = 1
  · match r, h1 with
    | [f], _ =>
      subst h
      simp
  · have : (r.length == 1) = false := by simpa using h1
    simp [this]

/-! ## the line handling of `genfromtxt` -/

theorem mapLast_append_single (g : String → String) (z : String) : ∀ (l : Row), mapLast g (l ++ [z]) = l ++ [g z]
  | [] => rfl
  | [a] => rfl
  | a :: b :: t => by
    have ih := mapLast_append_single g z (b :: t)
    simp only [List.cons_append] at ih ⊢
    simp only [mapLast, ih]

theorem rstrip_eol : rstrip "\n" = "" := by decide
theorem fixDec_eol (c : Bool) : fixDec c "\n" = "\n" := by cases c <;> decide
theorem fixDec_ident (c : Bool) : fixDec c "<Identifier>" = "<Identifier>" := by cases c <;> decide
theorem fixDec_main (c : Bool) : fixDec c "MainRuns" = "MainRuns" := by cases c <;> decide
theorem lstrip_main : lstrip "MainRuns" = "MainRuns" := by decide
theorem lstrip_empty : lstrip "" = "" := by decide

/-- a line that ends with the delimiter and the terminator, whatever its fields hold (a `#` included):
`genfromtxt(comments=None)` sees the same fields, the first stripped of leading blanks, the last one empty -/
theorem gfSplit_line (f : String) (mid : Row) :
    gfSplit (f :: (mid ++ ["\n"])) = lstrip f :: (mid ++ [""]) := by
  unfold gfSplit
  have hl : mapLast rstrip (lstrip f :: (mid ++ ["\n"])) = lstrip f :: (mid ++ [""]) := by
    have := mapLast_append_single rstrip "\n" (lstrip f :: mid)
    simpa [rstrip_eol] using this
  simp only [mapHead, hl]
  have : ((lstrip f :: (mid ++ [""])) == [""]) = false := by
    rw [beq_eq_false_iff_ne]
    intro he
    have := congrArg List.length he
    simp at this
  rw [this]
  simp

/-- the non-blank lines of a block of lines that each split to something non-empty -/
theorem gfLines_map {β : Type} (comma : Bool) (F G : β → Row) (L : List β)
    (h : ∀ y ∈ L, gfSplit ((F y).map (fixDec comma)) = G y) (hne : ∀ y ∈ L, (G y).isEmpty = false) :
    gfLinesWith gfSplit comma (L.map F) = L.map G := by
  unfold gfLinesWith
  rw [List.map_map]
  have : L.map ((fun r => gfSplit (r.map (fixDec comma))) ∘ F) = L.map G :=
    List.map_congr_left (fun y hy => h y hy)
  rw [this]
  apply List.filter_eq_self.mpr
  intro r hr
  obtain ⟨y, hy, rfl⟩ := List.mem_map.mp hr
  simp [hne y hy]

/-! ## NumPy's default `comments="#"` (the mechanism before e68affa) on lines without a `#` -/

theorem cutComment_id : ∀ (r : Row), (∀ g ∈ r, hasHash g = false) → cutComment r = r
  | [], _ => rfl
  | f :: t, h => by
    simp only [cutComment, h f List.mem_cons_self, Bool.false_eq_true, if_false]
    rw [cutComment_id t (fun g hg => h g (List.mem_cons_of_mem _ hg))]

/-- the decimal-comma replacement neither makes nor removes a `#` -/
theorem hasHash_fixDec (c : Bool) (s : String) : hasHash (fixDec c s) = hasHash s := by
  cases c with
  | false => rfl
  | true =>
    simp only [hasHash, fixDec, if_true, String.toList_ofList]
    induction s.toList with
    | nil => rfl
    | cons a t ih =>
      simp only [List.map_cons, List.contains_cons, ih]
      by_cases ha : a = ','
      · subst ha; simp
      · have : (a == ',') = false := beq_false_of_ne ha
        simp [this]

/-- on a line without a `#` the old splitter is the new one -/
theorem gfSplitOld_eq (r : Row) (h : ∀ g ∈ r, hasHash g = false) : gfSplitOld r = gfSplit r := by
  unfold gfSplitOld
  rw [cutComment_id r h]

theorem gfLinesOld_eq (comma : Bool) (t : Table) (h : ∀ r ∈ t, ∀ g ∈ r, hasHash g = false) :
    gfLinesWith gfSplitOld comma t = gfLinesWith gfSplit comma t := by
  unfold gfLinesWith
  congr 1
  apply List.map_congr_left
  intro r hr
  apply gfSplitOld_eq
  intro g hg
  obtain ⟨g', hg', rfl⟩ := List.mem_map.mp hg
  rw [hasHash_fixDec]
  exact h r hr g' hg'

end Pew.Thermo
