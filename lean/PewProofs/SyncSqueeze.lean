import PewProofs.SyncClock
import Mathlib.Data.List.Induction

/-! # C08 — `squeeze`: the mechanism is the specification, and no pixel that holds data is lost -/namespace Pew.Sync

theorem filter_eq_range {α} (d : α) (p : α → Bool) (l : List α) :
    l.filter p = ((List.range l.length).filter (fun i => p (l.getD i d))).map (fun i => l.getD i d) := by
  induction l using List.reverseRecOn with
  | nil => simp
  | append_singleton l a ih =>
    rw [List.filter_append, List.length_append, List.length_singleton, List.range_succ, List.filter_append,
      List.map_append]
    congr 1
    · rw [ih]
      have h1 : (List.range l.length).filter (fun i => p ((l ++ [a]).getD i d))
          = (List.range l.length).filter (fun i => p (l.getD i d)) := by
        apply List.filter_congr
        intro i hi
        have : i < l.length := List.mem_range.mp hi
        simp [List.getD, List.getElem?_append_left this]
      rw [h1]
      apply List.map_congr_left
      intro i hi
      have : i < l.length := List.mem_range.mp (List.mem_filter.mp hi).1
      simp [List.getD, List.getElem?_append_left this]
    · have : (l ++ [a]).getD l.length d = a := by simp [List.getD]
      by_cases hp : p a <;> simp [List.filter, hp]

theorem all_filter_of {α} (q f : α → Bool) (l : List α) (h : ∀ x ∈ l, q x = false → f x = true) :
    (l.filter q).all f = l.all f := by
  induction l with
  | nil => rfl
  | cons a l ih =>
    have ih' := ih (fun x hx => h x (List.mem_cons_of_mem _ hx))
    by_cases hq : q a
    · simp [List.filter, hq, ih']
    · have := h a (List.mem_cons_self) (by simpa using hq)
      simp [List.filter, hq, ih', this]

theorem getD_nan_of_all (isnan : Nat → Bool) (r : List (Option Nat)) (h : r.all (isNanPx isnan) = true) (c : Nat) :
    isNanPx isnan (r.getD c none) = true := by
  unfold List.getD
  cases hc : r[c]? with
  | none => simp [isNanPx]
  | some v =>
    have : v ∈ r := List.mem_of_getElem? hc
    simp only [Option.getD_some]
    exact (List.all_eq_true.mp h) v this

/-- the mechanism (rows removed first, the column mask recomputed on what is left) is the specification (both
masks taken from the whole image) -/
theorem squeezeImg_eq_spec (isnan : Nat → Bool) (w : Nat) (img : List (List (Option Nat))) :
    squeezeImg isnan w img = (squeezeSpec isnan w img, (keptCols isnan w img).length) := by
  unfold squeezeImg squeezeSpec
  have hrows : img.filter (fun r => !(r.all (isNanPx isnan)))
      = (keptRows isnan img).map (fun i => img.getD i []) := by
    rw [filter_eq_range [] _ img]
    unfold keptRows
    congr 1
    apply List.filter_congr
    intro i _
    simp [pxHasData, List.any_eq_not_all_not]
  have hkeep : (List.range w).filter (fun c => !((img.filter (fun r => !(r.all (isNanPx isnan)))).all
        (fun r => isNanPx isnan (r.getD c none)))) = keptCols isnan w img := by
    unfold keptCols
    apply List.filter_congr
    intro c _
    rw [all_filter_of]
    · simp [pxHasData, List.any_eq_not_all_not]
    · intro r _ hr
      apply getD_nan_of_all
      simpa using hr
  simp only [hkeep]
  simp only [hrows, List.map_map]
  rfl

theorem range_filter_sorted (n : Nat) (p : Nat → Bool) : ((List.range n).filter p).Pairwise (· < ·) :=
  List.Pairwise.sublist List.filter_sublist List.pairwise_lt_range

/-- a pixel of the image that holds data is found in the squeezed image, in the row / column given by the rank of
its row / column among those that hold data -/
theorem squeezeSpec_keeps (isnan : Nat → Bool) (w : Nat) (img : List (List (Option Nat))) (r c k : Nat)
    (row : List (Option Nat)) (hr : img[r]? = some row) (hc : c < w) (hk : row[c]? = some (some k))
    (hn : isnan k = false) :
    ∃ (i j : Nat), (keptRows isnan img)[i]? = some r ∧ (keptCols isnan w img)[j]? = some c ∧
      ((squeezeSpec isnan w img)[i]?.bind (fun (row : List (Option Nat)) => row[j]?)) = some (some k) := by
  have hrl : r < img.length := by
    rcases Nat.lt_or_ge r img.length with h | h
    · exact h
    · rw [List.getElem?_eq_none h] at hr; cases hr
  have hgr : img.getD r [] = row := by simp [List.getD, hr]
  have hgc : row.getD c none = some k := by simp [List.getD, hk]
  have hdata : pxHasData isnan (some k) = true := by simp [pxHasData, isNanPx, hn]
  have hrmem : r ∈ keptRows isnan img := by
    unfold keptRows
    rw [List.mem_filter]
    refine ⟨List.mem_range.mpr hrl, ?_⟩
    rw [hgr, List.any_eq_true]
    exact ⟨some k, List.mem_of_getElem? hk, hdata⟩
  have hcmem : c ∈ keptCols isnan w img := by
    unfold keptCols
    rw [List.mem_filter]
    refine ⟨List.mem_range.mpr hc, ?_⟩
    rw [List.any_eq_true]
    exact ⟨row, List.mem_of_getElem? hr, by rw [hgc]; exact hdata⟩
  obtain ⟨i, hi⟩ := List.getElem?_of_mem hrmem
  obtain ⟨j, hj⟩ := List.getElem?_of_mem hcmem
  refine ⟨i, j, hi, hj, ?_⟩
  unfold squeezeSpec
  rw [List.getElem?_map, hi]
  simp only [Option.map_some, Option.bind_some]
  rw [List.getElem?_map, hj]
  simp [hr, hk]

/-- value of the ground-truth image at a ground-truth cell -/
theorem truthImage_at (a : Acq) (sel : Option (List Int)) (h w : Nat)
    (hnd : ((truthCells a sel).map (fun e => (e.1, e.2.1))).Nodup) (e : Int × Int × Nat) (he : e ∈ truthCells a sel)
    (h1 : 0 ≤ e.1) (h2 : e.1 < (h : Int)) (h3 : 0 ≤ e.2.1) (h4 : e.2.1 < (w : Int)) :
    ∃ row, (truthImage a sel h w)[e.1.toNat]? = some row ∧ row[e.2.1.toNat]? = some (some e.2.2) := by
  unfold truthImage
  have hr : e.1.toNat < h := by omega
  have hc : e.2.1.toNat < w := by omega
  refine ⟨_, by rw [List.getElem?_map, List.getElem?_range hr]; rfl, ?_⟩
  rw [List.getElem?_map, List.getElem?_range hc]
  simp only [Option.map_some, Option.some.injEq]
  have e1 : ((e.1.toNat : Nat) : Int) = e.1 := by omega
  have e2 : ((e.2.1.toNat : Nat) : Int) = e.2.1 := by omega
  rw [e1, e2]
  cases hf : (truthCells a sel).find? (fun e' => e'.1 == e.1 && e'.2.1 == e.2.1) with
  | none =>
    rw [List.find?_eq_none] at hf
    exact absurd (by simp) (hf e he)
  | some e' =>
    have he' := List.mem_of_find?_eq_some hf
    have hpe := List.find?_some hf
    simp only [Bool.and_eq_true, beq_iff_eq] at hpe
    have := inj_of_nodup_map (fun e : Int × Int × Nat => (e.1, e.2.1)) _ hnd e' e he' he (by simp [hpe.1, hpe.2])
    rw [this]; rfl

end Pew.Sync
