import PewProofs.Thermo

/-! # C03 — the samples-in-rows reader on a rendered acquisition -/
namespace Pew.Thermo

/-- hypotheses for reading channel `ci` back from the samples-in-rows export -/
structure RowsOK {α : Type} (x : Ext α) (sh : Nat → String) (a : Acq) (ci : Nat) : Prop where
  nscans : 0 < a.nscans
  nelements : 0 < a.elements.length
  distinct : a.elements.Nodup
  /-- labels fit the 32-character name field -/
  labels : ∀ e ∈ a.elements, trunc 32 e = e
  chanIdx : ci < a.channels.length
  /-- the channel row is compared after truncation to 7 characters: the requested channel is recognisable -/
  chans : ∀ c, c < a.channels.length → (trunc 7 (a.chan c) == a.chan ci) = (c == ci)
  /-- scan numbers survive `str` → 16-character field → `int` -/
  scans : ∀ s, s < a.nscans → x.readInt (trunc 16 (sh s)) = some (s : Int)

def blankHdr : Hdr := { run := "", scan := "", name := "", type := "" }

/-- the column of the line terminators: the last field of every rendered line -/
def eolHdr : Hdr := { run := "\n", scan := "\n", name := "\n", type := "\n" }

theorem colOk_eol (chan : String) : colOk chan eolHdr = false := by
  have : (trunc 8 "\n" == "MainRuns") = false := by decide
  simp [colOk, eolHdr, this]

def hdrOf (sh : Nat → String) (a : Acq) (x : Nat × Nat × Nat) : Hdr :=
  { run := "MainRuns", scan := sh x.1, name := a.elem x.2.1, type := a.chan x.2.2 }

theorem zipHdr_map {β : Type} (f1 f2 f3 f4 : β → String) (r1 r2 r3 r4 : Row) : ∀ (l : List β),
    zipHdr (l.map f1 ++ r1) (l.map f2 ++ r2) (l.map f3 ++ r3) (l.map f4 ++ r4)
      = l.map (fun x => { run := f1 x, scan := f2 x, name := f3 x, type := f4 x }) ++ zipHdr r1 r2 r3 r4
  | [] => rfl
  | a :: t => by simp [zipHdr, zipHdr_map f1 f2 f3 f4 r1 r2 r3 r4 t]

theorem colOk_blank (chan : String) : colOk chan blankHdr = false := by
  have : (trunc 8 "" == "MainRuns") = false := by decide
  simp [colOk, blankHdr, this]

theorem trunc8_mainruns : (trunc 8 "MainRuns" == "MainRuns") = true := by decide

/-- the selected cells of the rows layout: every scan, every element, channel `ci` -/
def rowsSel (m k ci : Nat) : List (Nat × Nat × Nat) :=
  (List.range m).flatMap fun s => (List.range k).map fun e => (s, e, ci)

theorem enumRows_filter (m k C ci : Nat) (h : ci < C) (q : Nat → Bool) (hq : ∀ c, c < C → q c = (c == ci)) :
    (enumRows m k C).filter (fun x => q x.2.2) = rowsSel m k ci := by
  unfold enumRows rowsSel
  rw [List.filter_flatMap]
  congr 1
  funext s
  rw [List.filter_flatMap]
  have : ∀ e : Nat, ((List.range C).map (fun c => (s, e, c))).filter (fun x => q x.2.2) = [(s, e, ci)] := by
    intro e
    rw [List.filter_map]
    have : (List.range C).filter ((fun x : Nat × Nat × Nat => q x.2.2) ∘ fun c => (s, e, c)) = [ci] :=
      filter_range_single C ci h _ (fun c hc => by simpa using hq c hc)
    rw [this]; rfl
  simp only [this]
  induction (List.range k) with
  | nil => rfl
  | cons a t ih => simp [ih]

theorem mem_rowsSel {m k ci : Nat} {x : Nat × Nat × Nat} : x ∈ rowsSel m k ci ↔ x.1 < m ∧ x.2.1 < k ∧ x.2.2 = ci := by
  unfold rowsSel
  simp only [List.mem_flatMap, List.mem_range, List.mem_map]
  constructor
  · rintro ⟨s, hs, e, he, rfl⟩; exact ⟨hs, he, rfl⟩
  · rintro ⟨h1, h2, h3⟩; exact ⟨x.1, h1, x.2.1, h2, by rw [← h3]⟩

theorem mem_enumRows {m k C : Nat} {x : Nat × Nat × Nat} : x ∈ enumRows m k C ↔ x.1 < m ∧ x.2.1 < k ∧ x.2.2 < C := by
  unfold enumRows
  simp only [List.mem_flatMap, List.mem_range, List.mem_map]
  constructor
  · rintro ⟨s, hs, e, he, c, hc, rfl⟩; exact ⟨hs, he, hc⟩
  · rintro ⟨h1, h2, h3⟩; exact ⟨x.1, h1, x.2.1, h2, x.2.2, h3, rfl⟩

/-- selecting element `ei` among the selected cells: one cell per scan, in scan order -/
theorem rowsSel_filter_elem (m k ci ei : Nat) (h : ei < k) (q : Nat → Bool) (hq : ∀ e, e < k → q e = (e == ei)) :
    (rowsSel m k ci).filter (fun x => q x.2.1) = (List.range m).map (fun s => (s, ei, ci)) := by
  unfold rowsSel
  rw [List.filter_flatMap]
  have : ∀ s : Nat, ((List.range k).map (fun e => (s, e, ci))).filter (fun x => q x.2.1) = [(s, ei, ci)] := by
    intro s
    rw [List.filter_map]
    have : (List.range k).filter ((fun x : Nat × Nat × Nat => q x.2.1) ∘ fun e => (s, e, ci)) = [ei] :=
      filter_range_single k ei h _ (fun c hc => by simpa using hq c hc)
    rw [this]; rfl
  simp only [this]
  induction (List.range m) with
  | nil => rfl
  | cons a t ih => simp [ih]

theorem elem_inj (a : Acq) (hn : a.elements.Nodup) (e ei : Nat) (he : e < a.elements.length) (hei : ei < a.elements.length) :
    (a.elem e == a.elem ei) = (e == ei) := by
  unfold Acq.elem
  have := List.getD_inj (fallback := "") he hei hn
  by_cases h : e = ei
  · subst h; simp
  · have hne : a.elements.getD e "" ≠ a.elements.getD ei "" := fun heq => h (this.mp heq)
    have h1 : (a.elements.getD e "" == a.elements.getD ei "") = false := beq_false_of_ne hne
    have h2 : (e == ei) = false := beq_false_of_ne h
    rw [h1, h2]

theorem elem_mem (a : Acq) (e : Nat) (he : e < a.elements.length) : a.elem e ∈ a.elements := by
  unfold Acq.elem
  simp [List.getD, List.getElem?_eq_getElem he]


theorem colOk_hdrOf (sh : Nat → String) (a : Acq) (chan : String) (x : Nat × Nat × Nat) :
    colOk chan (hdrOf sh a x) = (trunc 7 (a.chan x.2.2) == chan) := by
  simp [colOk, hdrOf, trunc8_mainruns]

theorem map_elems {β : Type} (a : Acq) (F : String → β) :
    a.elements.map F = (List.range a.elements.length).map (fun ei => F (a.elem ei)) := by
  have h := map_getD_range a.elements
  conv => lhs; rw [← h]
  rw [List.map_map]
  rfl

theorem sample_mem (a : Acq) (i : Nat) (hi : i < a.samples.length) : a.samples.getD i "" ∈ a.samples := by
  simp [List.getD, List.getElem?_eq_getElem hi]

theorem readRowsH_render {α : Type} (x : Ext α) (sh : Nat → String) (comma : Bool) (a : Acq) (ci : Nat)
    (h : RowsOK x sh a ci) :
    readRowsH x comma (a.chan ci)
      (blankHdr :: blankHdr :: ((enumRows a.nscans a.elements.length a.channels.length).map (hdrOf sh a) ++ [eolHdr]))
      ((List.range a.samples.length).map (fun i => a.samples.getD i "" :: "<Identifier>" ::
        ((enumRows a.nscans a.elements.length a.channels.length).map (fun x => a.value i x.1 x.2.1 x.2.2) ++ ["\n"])))
    = some (specImg x comma a ci) := by
  obtain ⟨hm, hk, hnd, hlab, hci, hch, hsc⟩ := h
  have hsel : (blankHdr :: blankHdr :: ((enumRows a.nscans a.elements.length a.channels.length).map (hdrOf sh a) ++ [eolHdr])).filter (colOk (a.chan ci))
      = (rowsSel a.nscans a.elements.length ci).map (hdrOf sh a) := by
    simp only [List.filter_cons, colOk_blank, colOk_eol, Bool.false_eq_true, if_false, List.filter_append, List.filter_nil,
      List.append_nil, List.filter_map]
    congr 1
    have := enumRows_filter a.nscans a.elements.length a.channels.length ci hci
      (fun c => trunc 7 (a.chan c) == a.chan ci) hch
    rw [← this]
    apply List.filter_congr
    intro y _
    simp [colOk_hdrOf]
  have hmem0 : (0, 0, ci) ∈ rowsSel a.nscans a.elements.length ci := mem_rowsSel.mpr ⟨hm, hk, rfl⟩
  have hany : (blankHdr :: blankHdr :: ((enumRows a.nscans a.elements.length a.channels.length).map (hdrOf sh a) ++ [eolHdr])).any
      (fun h => trunc 8 h.run == "MainRuns") = true := by
    simp only [List.any_cons, List.any_append, List.any_map, Bool.or_eq_true]
    right; right; left
    rw [List.any_eq_true]
    exact ⟨(0, 0, ci), mem_enumRows.mpr ⟨hm, hk, hci⟩, by simp [hdrOf, trunc8_mainruns]⟩
  have hscan : allSome (((rowsSel a.nscans a.elements.length ci).map (hdrOf sh a)).map (fun h => x.readInt (trunc 16 h.scan)))
      = some (((rowsSel a.nscans a.elements.length ci).map (·.1)).map (fun (y : Nat) => (y : Int))) := by
    rw [List.map_map, List.map_map]
    apply allSome_map
    intro y hy
    exact hsc y.1 (mem_rowsSel.mp hy).1
  have hnames : ((rowsSel a.nscans a.elements.length ci).map (hdrOf sh a)).map (fun h => trunc 32 h.name)
      = (rowsSel a.nscans a.elements.length ci).map (fun y => a.elem y.2.1) := by
    rw [List.map_map]
    apply List.map_congr_left
    intro y hy
    simp only [Function.comp, hdrOf]
    exact hlab _ (elem_mem a y.2.1 (mem_rowsSel.mp hy).2.1)
  have hblocks : (rowsSel a.nscans a.elements.length ci).map (fun y => a.elem y.2.1)
      = (List.range a.nscans).flatMap (fun _ => a.elements) := by
    unfold rowsSel
    rw [List.map_flatMap]
    congr 1
    funext s
    rw [List.map_map]
    conv => rhs; rw [← map_getD_range a.elements]
    rfl
  have hw : maxInt (((rowsSel a.nscans a.elements.length ci).map (·.1)).map (fun (y : Nat) => (y : Int))) + 1 = (a.nscans : Int) := by
    apply maxInt_eq _ _ hm
    · intro y hy
      obtain ⟨z, hz, rfl⟩ := List.mem_map.mp hy
      exact (mem_rowsSel.mp hz).1
    · exact List.mem_map.mpr ⟨(a.nscans - 1, 0, ci), mem_rowsSel.mpr ⟨by simp; omega, hk, rfl⟩, rfl⟩
  -- the sample rows as `genfromtxt` sees them
  have hlines : gfLinesWith gfSplit comma ((List.range a.samples.length).map (fun i => a.samples.getD i "" :: "<Identifier>" ::
        ((enumRows a.nscans a.elements.length a.channels.length).map (fun x => a.value i x.1 x.2.1 x.2.2) ++ ["\n"])))
      = (List.range a.samples.length).map (fun i => lstrip (fixDec comma (a.samples.getD i "")) :: "<Identifier>" ::
        ((enumRows a.nscans a.elements.length a.channels.length).map (fun x => fixDec comma (a.value i x.1 x.2.1 x.2.2)) ++ [""])) := by
    apply gfLines_map
    · intro i hi
      have hi' := List.mem_range.mp hi
      simp only [List.map_cons, List.map_append, List.map_map, List.map_nil, fixDec_ident, fixDec_eol]
      have := gfSplit_line (fixDec comma (a.samples.getD i ""))
        ("<Identifier>" :: (enumRows a.nscans a.elements.length a.channels.length).map (fun x => fixDec comma (a.value i x.1 x.2.1 x.2.2)))
      simpa [Function.comp_def] using this
    · intro i _; rfl
  have hdata : ∀ i : Nat,
      (((lstrip (fixDec comma (a.samples.getD i "")) :: "<Identifier>" ::
          ((enumRows a.nscans a.elements.length a.channels.length).map (fun y => fixDec comma (a.value i y.1 y.2.1 y.2.2)) ++ [""])).zip
        (blankHdr :: blankHdr :: ((enumRows a.nscans a.elements.length a.channels.length).map (hdrOf sh a) ++ [eolHdr]))).filter
          (fun p => colOk (a.chan ci) p.2)).map (fun p => (x.parse p.1, trunc 32 p.2.name))
      = (rowsSel a.nscans a.elements.length ci).map (fun y => (x.parse (fixDec comma (a.value i y.1 y.2.1 y.2.2)), a.elem y.2.1)) := by
    intro i
    rw [List.zip_cons_cons, List.zip_cons_cons, zip_map_append_single]
    simp only [List.filter_cons, colOk_blank, colOk_eol, Bool.false_eq_true, if_false, List.filter_append, List.filter_nil,
      List.append_nil, List.filter_map, List.map_map]
    have := enumRows_filter a.nscans a.elements.length a.channels.length ci hci
      (fun c => trunc 7 (a.chan c) == a.chan ci) hch
    rw [← this]
    have hf : (enumRows a.nscans a.elements.length a.channels.length).filter
        ((fun p : String × Hdr => colOk (a.chan ci) p.2) ∘ fun y => (fixDec comma (a.value i y.1 y.2.1 y.2.2), hdrOf sh a y))
        = (enumRows a.nscans a.elements.length a.channels.length).filter (fun y => trunc 7 (a.chan y.2.2) == a.chan ci) := by
      apply List.filter_congr
      intro y _
      simp [colOk_hdrOf]
    rw [hf]
    apply List.map_congr_left
    intro y hy
    have hy' := (mem_enumRows.mp (List.mem_filter.mp hy).1)
    simp only [Function.comp, hdrOf]
    rw [hlab _ (elem_mem a y.2.1 hy'.2.1)]
  have h1 : ((rowsSel a.nscans a.elements.length ci).map (hdrOf sh a)).isEmpty = false := by
    cases hr : rowsSel a.nscans a.elements.length ci with
    | nil => rw [hr] at hmem0; simp at hmem0
    | cons _ _ => rfl
  have h4 : ¬ ((a.nscans : Int) < 0) := by omega
  unfold readRowsH readRowsHWith
  rw [hany, hsel, hlines]
  simp only [Bool.not_true, Bool.false_eq_true, if_false, h1, hscan, hnames, hw, h4, Int.toNat_natCast]
  simp only [List.map_map, Function.comp_def, hdata, List.any_map, List.length_map, bne_self_eq_false]
  rw [hblocks, firstApp_blocks a.elements hnd a.nscans hm, ← hblocks, map_elems]
  have hpl : allSome ((List.range a.elements.length).map (fun ei =>
      fitCols a.nscans (((rowsSel a.nscans a.elements.length ci).map (fun y => a.elem y.2.1)).filter (fun nm => nm == a.elem ei)).length
        ((List.range a.samples.length).map (fun i =>
        (((rowsSel a.nscans a.elements.length ci).map
            (fun y => (x.parse (fixDec comma (a.value i y.1 y.2.1 y.2.2)), a.elem y.2.1))).filter
          (fun p => p.2 == a.elem ei)).map (·.1)))))
      = some (specImg x comma a ci).planes := by
    unfold specImg
    apply allSome_map
    intro ei hei
    have hei' := List.mem_range.mp hei
    have hsel' := rowsSel_filter_elem a.nscans a.elements.length ci ei hei' (fun e => a.elem e == a.elem ei)
      (fun e he => elem_inj a hnd e ei he hei')
    have hcnt : (((rowsSel a.nscans a.elements.length ci).map (fun y => a.elem y.2.1)).filter (fun nm => nm == a.elem ei)).length = a.nscans := by
      rw [List.filter_map]
      have hf : (rowsSel a.nscans a.elements.length ci).filter ((fun nm => nm == a.elem ei) ∘ fun y => a.elem y.2.1)
          = (rowsSel a.nscans a.elements.length ci).filter (fun y => a.elem y.2.1 == a.elem ei) := rfl
      rw [hf, hsel']
      simp
    have hrow : ∀ i : Nat, (((rowsSel a.nscans a.elements.length ci).map
            (fun y => (x.parse (fixDec comma (a.value i y.1 y.2.1 y.2.2)), a.elem y.2.1))).filter
          (fun p => p.2 == a.elem ei)).map (·.1)
        = (List.range a.nscans).map (fun s => x.parse (fixDec comma (a.value i s ei ci))) := by
      intro i
      rw [List.filter_map, List.map_map]
      have hf : (rowsSel a.nscans a.elements.length ci).filter
          ((fun p : α × String => p.2 == a.elem ei) ∘ fun y => (x.parse (fixDec comma (a.value i y.1 y.2.1 y.2.2)), a.elem y.2.1))
          = (rowsSel a.nscans a.elements.length ci).filter (fun y => a.elem y.2.1 == a.elem ei) := rfl
      rw [hf, hsel', List.map_map]
      rfl
    simp only [hrow, hcnt]
    exact fitCols_ok _ _
  have h5 : ∀ (l : List Nat), (l.any fun _ => false) = false := by
    intro l; induction l <;> simp_all
  rw [hpl, h5]
  rfl


theorem hdr_render (sh : Nat → String) (a : Acq) (cells : List (Nat × Nat × Nat)) :
    zipHdr ("" :: "" :: (cells.map (fun _ => "MainRuns") ++ ["\n"])) ("" :: "" :: (cells.map (fun x => sh x.1) ++ ["\n"]))
      ("" :: "" :: (cells.map (fun x => a.elem x.2.1) ++ ["\n"])) ("" :: "" :: (cells.map (fun x => a.chan x.2.2) ++ ["\n"]))
    = blankHdr :: blankHdr :: (cells.map (hdrOf sh a) ++ [eolHdr]) := by
  simp only [zipHdr]
  rw [zipHdr_map]
  rfl

theorem readRows_render_aux {α : Type} (x : Ext α) (sh : Nat → String) (comma : Bool) (a : Acq) (ci : Nat)
    (h : RowsOK x sh a ci) :
    readRows x comma (a.chan ci) (renderRows sh a) = some (specImg x comma a ci) := by
  unfold renderRows readRows readRowsWith
  simp only [List.cons_append, List.nil_append, List.getD_cons_zero, List.getD_cons_succ, List.length_cons, List.length_append,
    List.length_map, List.length_nil, Nat.max_self, List.drop_succ_cons, List.drop_zero]
  rw [bcast_self _ _ (by simp), bcast_self _ _ (by simp)]
  simp only [List.length_cons, List.length_append, List.length_map, List.length_nil,
    BEq.rfl, Bool.and_self, Bool.not_true, Bool.false_eq_true, if_false]
  rw [hdr_render]
  exact readRowsH_render x sh comma a ci h

end Pew.Thermo
