import PewProofs.ThermoHistory

/-! # C03 — the text layer: byte order mark, universal newlines, lines with their terminator -/
namespace Pew.Thermo

theorem univNl_cons_ne (c : Char) (t : List Char) (hc : (c == '\r') = false) : univNl (c :: t) = c :: univNl t := by
  cases t with
  | nil => simp [univNl, hc]
  | cons d t => simp [univNl, hc]

theorem univNl_crlf (t : List Char) : univNl ('\r' :: '\n' :: t) = '\n' :: univNl t := by
  simp [univNl]

theorem univNl_append (rest : List Char) : ∀ (body : List Char), '\r' ∉ body → univNl (body ++ rest) = body ++ univNl rest
  | [], _ => rfl
  | c :: b, h => by
    have hc : (c == '\r') = false := by
      rw [beq_eq_false_iff_ne]; intro e; exact h (by rw [e]; exact List.mem_cons_self)
    rw [List.cons_append, univNl_cons_ne c _ hc, univNl_append rest b (fun hm => h (List.mem_cons_of_mem _ hm))]
    rfl

theorem splitKeep_append (rest : List Char) : ∀ (body : List Char), '\n' ∉ body →
    splitKeep (body ++ '\n' :: rest) = (body ++ ['\n']) :: splitKeep rest
  | [], _ => by simp [splitKeep]
  | c :: b, h => by
    have hc : (c == '\n') = false := by
      rw [beq_eq_false_iff_ne]; intro e; exact h (by rw [e]; exact List.mem_cons_self)
    have ih := splitKeep_append rest b (fun hm => h (List.mem_cons_of_mem _ hm))
    simp only [List.cons_append, splitKeep, hc, Bool.false_eq_true, if_false, ih]

/-- a line of a text file as Qtegra writes it: some characters that are no line end, then `\n` -/
def IsLine (l : String) : Prop := ∃ body, l.toList = body ++ ['\n'] ∧ '\n' ∉ body ∧ '\r' ∉ body

theorem univNl_lines (eol : List Char) (heol : eol = ['\n'] ∨ eol = ['\r', '\n']) : ∀ (lines : List String),
    (∀ l ∈ lines, IsLine l) → univNl (lines.flatMap (rawLine eol)) = lines.flatMap String.toList
  | [], _ => rfl
  | l :: tl, h => by
    obtain ⟨body, hl, _, hr⟩ := h l List.mem_cons_self
    have ih := univNl_lines eol heol tl (fun q hq => h q (List.mem_cons_of_mem _ hq))
    have hraw : rawLine eol l = body ++ eol := by
      unfold rawLine; rw [hl, List.dropLast_concat]
    simp only [List.flatMap_cons, hraw, List.append_assoc, hl]
    rw [univNl_append _ body hr]
    congr 1
    rcases heol with rfl | rfl
    · rw [List.singleton_append, univNl_cons_ne '\n' _ (by decide), ih]; rfl
    · show univNl ('\r' :: '\n' :: _) = _
      rw [univNl_crlf]
      show '\n' :: univNl (List.flatMap (rawLine ['\r', '\n']) tl) = _
      rw [ih]; rfl

theorem splitKeep_lines : ∀ (lines : List String), (∀ l ∈ lines, IsLine l) →
    splitKeep (lines.flatMap String.toList) = lines.map String.toList
  | [], _ => rfl
  | l :: tl, h => by
    obtain ⟨body, hl, hn, _⟩ := h l List.mem_cons_self
    have ih := splitKeep_lines tl (fun q hq => h q (List.mem_cons_of_mem _ hq))
    simp only [List.flatMap_cons, List.map_cons, hl, List.append_assoc, List.singleton_append]
    rw [splitKeep_append _ body hn, ih]

theorem head_rawLine_ne_bom (eol : List Char) (heol : eol = ['\n'] ∨ eol = ['\r', '\n']) (l : String) (hl : IsLine l)
    (hb : l.toList.head? ≠ some bomChar) (rest : List Char) :
    stripBom (rawLine eol l ++ rest) = rawLine eol l ++ rest := by
  obtain ⟨body, hbody, _, _⟩ := hl
  have hraw : rawLine eol l = body ++ eol := by
    unfold rawLine; rw [hbody, List.dropLast_concat]
  rw [hraw]
  cases body with
  | nil =>
    rcases heol with rfl | rfl <;> simp [stripBom, bomChar] <;> decide
  | cons c b =>
    have hc : (c == bomChar) = false := by
      rw [beq_eq_false_iff_ne]; intro e
      apply hb; rw [hbody, e]; rfl
    simp [stripBom, hc]

/-! ## the lines of a rendered table are such lines -/

theorem joinC_append_single (d : Char) (z : List Char) : ∀ (ls : List (List Char)), ls ≠ [] →
    joinC d (ls ++ [z]) = joinC d ls ++ d :: z
  | [], h => absurd rfl h
  | [f], _ => by simp [joinC]
  | f :: g :: t, _ => by
    have ih := joinC_append_single d z (g :: t) (by simp)
    simp only [List.cons_append, joinC] at ih ⊢
    rw [ih]
    simp

theorem mem_joinC (d c : Char) : ∀ (ls : List (List Char)), c ∈ joinC d ls → c = d ∨ ∃ l ∈ ls, c ∈ l
  | [], h => by simp [joinC] at h
  | [f], h => by
    simp only [joinC] at h
    exact Or.inr ⟨f, List.mem_cons_self, h⟩
  | f :: g :: t, h => by
    simp only [joinC, List.mem_append, List.mem_cons] at h
    rcases h with h | h | h
    · exact Or.inr ⟨f, List.mem_cons_self, h⟩
    · exact Or.inl h
    · rcases mem_joinC d c (g :: t) h with h' | ⟨l, hl, hc⟩
      · exact Or.inl h'
      · exact Or.inr ⟨l, List.mem_cons_of_mem _ hl, hc⟩

/-- no line end inside the field -/
def NoEol (f : String) : Prop := '\n' ∉ f.toList ∧ '\r' ∉ f.toList

theorem isLine_joinLine (d : Char) (hdn : d ≠ '\n') (hdr : d ≠ '\r') (fs : Row) (h : ∀ f ∈ fs, NoEol f) :
    IsLine (joinLine d (fs ++ ["\n"])) := by
  unfold IsLine joinLine
  rw [String.toList_ofList, List.map_append]
  have hz : (["\n"] : List String).map String.toList = [['\n']] := rfl
  rw [hz]
  by_cases hfs : fs = []
  · subst hfs
    exact ⟨[], by simp [joinC], by simp, by simp⟩
  · have hne : fs.map String.toList ≠ [] := by simpa using hfs
    rw [joinC_append_single d ['\n'] _ hne]
    refine ⟨joinC d (fs.map String.toList) ++ [d], by simp, ?_, ?_⟩
    · intro hm
      rcases List.mem_append.mp hm with hm | hm
      · rcases mem_joinC d '\n' _ hm with h' | ⟨l, hl, hc⟩
        · exact hdn h'.symm
        · obtain ⟨f, hf, rfl⟩ := List.mem_map.mp hl
          exact (h f hf).1 hc
      · simp at hm; exact hdn hm.symm
    · intro hm
      rcases List.mem_append.mp hm with hm | hm
      · rcases mem_joinC d '\r' _ hm with h' | ⟨l, hl, hc⟩
        · exact hdr h'.symm
        · obtain ⟨f, hf, rfl⟩ := List.mem_map.mp hl
          exact (h f hf).2 hc
      · simp at hm; exact hdr hm.symm

theorem row_split (r : Row) (h : r.getLast? = some "\n") : r = r.dropLast ++ ["\n"] := by
  have hne : r ≠ [] := by intro e; rw [e] at h; cases h
  have h1 := List.dropLast_concat_getLast hne
  have h2 : r.getLast hne = "\n" := by
    have := List.getLast?_eq_some_getLast hne
    rw [h] at this
    exact (Option.some.inj this).symm
  rw [h2] at h1
  exact h1.symm

theorem getLast_end (pre : Row) : (pre ++ ["\n"]).getLast? = some "\n" := by simp

theorem renderRows_getLast (sh : Nat → String) (a : Acq) : ∀ r ∈ renderRows sh a, r.getLast? = some "\n" := by
  intro r hr
  unfold renderRows at hr
  simp only [List.cons_append, List.nil_append, List.mem_cons, List.mem_map] at hr
  rcases hr with hr | hr | hr | hr | ⟨i, _, hr⟩
  all_goals (first | rw [hr] | rw [← hr])
  all_goals (rw [← List.cons_append, ← List.cons_append]; exact getLast_end _)

theorem renderCols_getLast (sh : Nat → String) (a : Acq) : ∀ r ∈ renderCols sh a, r.getLast? = some "\n" := by
  intro r hr
  unfold renderCols at hr
  simp only [List.mem_cons, List.mem_map] at hr
  rcases hr with hr | hr | ⟨y, _, hr⟩
  · rw [hr]; exact getLast_end _
  · rw [hr]; exact getLast_end _
  · rw [← hr]; exact getLast_end _

end Pew.Thermo
