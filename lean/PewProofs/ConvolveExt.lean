import PewProofs.ConvolveDens
import Mathlib.Algebra.Order.AbsoluteValue.Basic
import Mathlib.Algebra.Order.Field.Basic

/-! # C18 — helper lemmas of the extension round: the edge-padded array entry by entry, sums of element-wise
perturbed lists, sub-collection products -/
namespace Pew.Convolve

/-! ## `np.pad(mode="edge")` entry by entry -/

theorem headD_eq_at0 (x : List Rat) : x.headD 0 = at0 x 0 := by
  cases x <;> simp [at0]

theorem getLastD_eq_at0 (x : List Rat) (hx : x ≠ []) : x.getLastD 0 = at0 x (x.length - 1) := by
  rw [at0_of_lt _ _ (by have := List.length_pos_iff.mpr hx; omega)]
  rw [List.getLastD_eq_getLast?, List.getLast?_eq_some_getLast hx, List.getLast_eq_getElem]
  rfl

/-- every entry of the padded array is the signal at the index clamped into `0 .. n − 1` -/
theorem padEdge_at (x : List Rat) (hx : x ≠ []) (l r i : Nat) (hi : i < l + x.length + r) :
    at0 (padEdge x l r) i = at0 x (clampIdx x.length ((i : Int) - (l : Int))) := by
  have hn : 0 < x.length := List.length_pos_iff.mpr hx
  by_cases h1 : i < l
  · have : clampIdx x.length ((i : Int) - (l : Int)) = 0 := by
      unfold clampIdx; rw [if_pos (by omega)]
    rw [this]
    unfold padEdge
    rw [List.append_assoc, at0_append_left _ _ _ (by simpa using h1), at0_replicate _ _ _ h1, headD_eq_at0]
  · by_cases h2 : i < l + x.length
    · have : clampIdx x.length ((i : Int) - (l : Int)) = i - l := by
        unfold clampIdx; rw [if_neg (by omega), if_neg (by omega)]; omega
      rw [this]
      exact padEdge_interior x l r i (by omega) h2
    · have : clampIdx x.length ((i : Int) - (l : Int)) = x.length - 1 := by
        unfold clampIdx; rw [if_neg (by omega), if_pos (by omega)]
      rw [this]
      unfold padEdge
      rw [at0_append_right _ _ _ (by simp; omega), at0_replicate _ _ _ (by simp; omega), getLastD_eq_at0 x hx]

/-! ## sums of lists that agree element by element up to a relative error -/

/-- if `|wᵢ − vᵢ| ≤ u · vᵢ` element by element then `|Σ w − Σ v| ≤ u · Σ v` -/
theorem abs_sum_sub_sum_le {K : Type} [Field K] [LinearOrder K] [IsStrictOrderedRing K] (u : K)
    (w v : List K) (h : List.Forall₂ (fun wi vi => |wi - vi| ≤ u * vi) w v) :
    |w.sum - v.sum| ≤ u * v.sum := by
  induction h with
  | nil => simp
  | @cons a b l₁ l₂ hab _ ih =>
    simp only [List.sum_cons]
    have e : a + l₁.sum - (b + l₂.sum) = (a - b) + (l₁.sum - l₂.sum) := by ring
    rw [e, mul_add]
    exact (abs_add_le _ _).trans (add_le_add hab ih)

/-! ## products of sub-collections -/

theorem one_mem_subProducts (fs : List Rat) : (1 : Rat) ∈ subProducts fs := by
  induction fs with
  | nil => simp [subProducts]
  | cons f fs ih => simp only [subProducts, List.mem_append]; exact Or.inl ih

/-- the product of every sublist of the factors is among `subProducts` -/
theorem prod_mem_subProducts (l fs : List Rat) (h : l.Sublist fs) : l.prod ∈ subProducts fs := by
  induction h with
  | slnil => simp [subProducts]
  | cons a _ ih => simp only [subProducts, List.mem_append]; exact Or.inl ih
  | cons_cons a _ ih =>
    simp only [subProducts, List.mem_append, List.mem_map, List.prod_cons]
    exact Or.inr ⟨_, ih, rfl⟩

/-! ## the ordinary convolution over the antidiagonal -/

theorem sum_range_reflect_list (f : Nat → Rat) (n : Nat) :
    ((List.range n).map (fun j => f (n - 1 - j))).sum = ((List.range n).map f).sum := by
  induction n generalizing f with
  | zero => simp
  | succ n ih =>
    have e : (List.map ((fun j => f (n + 1 - 1 - j)) ∘ Nat.succ) (List.range n))
        = (List.range n).map (fun j => f (n - 1 - j)) := by
      apply List.map_congr_left
      intro j hj
      have : j < n := List.mem_range.mp hj
      simp only [Function.comp]
      congr 1; omega
    have hl : ((List.range (n + 1)).map (fun j => f (n + 1 - 1 - j))).sum = f n + ((List.range n).map f).sum := by
      rw [List.range_succ_eq_map, List.map_cons, List.sum_cons, List.map_map, e, ih f]
      simp
    have hr : ((List.range (n + 1)).map f).sum = ((List.range n).map f).sum + f n := by
      rw [List.range_succ, List.map_append, List.sum_append]; simp
    rw [hl, hr]; ring

theorem sum_range_extend (g : Nat → Rat) (a b : Nat) (hab : a ≤ b) (hz : ∀ j, a ≤ j → g j = 0) :
    ((List.range b).map g).sum = ((List.range a).map g).sum := by
  induction b with
  | zero => have : a = 0 := by omega
            subst this; rfl
  | succ b ih =>
    rcases Nat.lt_or_ge b a with h | h
    · have : a = b + 1 := by omega
      subst this; rfl
    · rw [List.range_succ, List.map_append, List.sum_append, ih h]; simp [hz b h]

/-- the ordinary convolution written over the antidiagonal `j = 0 .. t` -/
theorem fullConvAt_eq_range (x psf : List Rat) (t : Nat) :
    fullConvAt x psf t = ((List.range (t + 1)).map (fun j => at0 psf j * at0 x (t - j))).sum := by
  unfold fullConvAt
  set g : Nat → Rat := fun j => if j ≤ t then at0 psf j * at0 x (t - j) else 0 with hg
  have hz1 : ∀ j, psf.length ≤ j → g j = 0 := by
    intro j hj; simp only [hg]; split
    · rw [at0_of_ge _ _ hj]; simp
    · rfl
  have hz2 : ∀ j, t + 1 ≤ j → g j = 0 := by
    intro j hj; simp only [hg]; rw [if_neg (by omega)]
  have e1 : ((List.range psf.length).map g).sum = ((List.range (max psf.length (t + 1))).map g).sum :=
    (sum_range_extend g _ _ (le_max_left _ _) hz1).symm
  have e2 : ((List.range (t + 1)).map g).sum = ((List.range (max psf.length (t + 1))).map g).sum :=
    (sum_range_extend g _ _ (le_max_right _ _) hz2).symm
  have e3 : (List.range (t + 1)).map g = (List.range (t + 1)).map (fun j => at0 psf j * at0 x (t - j)) := by
    apply List.map_congr_left
    intro j hj
    have : j < t + 1 := List.mem_range.mp hj
    simp only [hg]; rw [if_pos (by omega)]
  rw [← e3, e2, ← e1]

end Pew.Convolve
