import PewProofs.LaserEdit

/-! helper lemmas for C07: the calls with their exceptions (`stepE`) against the success-only `step` -/
namespace Pew.LaserEdit

theorem Res.toOption_ok {σ : Type} {r : Res σ} {s : σ} : r.toOption = some s ↔ r = .ok s := by
  cases r <;> simp [Res.toOption]

/-! ## agreement with `step` -/

theorem Layer.addE_toOption (l : Layer) (n : Name) (a : ArrIn) : (l.addE n a).toOption = l.add n a := by
  unfold Layer.addE Layer.add
  split
  · rfl
  · split <;> rfl

theorem addLayersE_toOption (n : Name) : ∀ (ls : List Layer) (as : List ArrIn), as.length = ls.length →
    (addLayersE n ls as).toOption = addLayers n ls as := by
  intro ls
  induction ls with
  | nil => intro as h; cases as <;> simp_all [addLayersE, addLayers, Except.toOption]
  | cons l t ih =>
    intro as h
    cases as with
    | nil => simp at h
    | cons a u =>
      have ih' := ih u (by simpa using h)
      have h1 := Layer.addE_toOption l n a
      simp only [addLayersE, addLayers]
      cases hl : l.addE n a with
      | error e =>
        rw [hl] at h1
        simp only [Except.toOption] at h1
        simp [← h1, Except.toOption]
      | ok l' =>
        rw [hl] at h1
        simp only [Except.toOption] at h1
        rw [← h1]
        cases ht : addLayersE n t u with
        | error p =>
          rw [ht] at ih'
          simp only [Except.toOption] at ih'
          obtain ⟨e, r⟩ := p
          simp [← ih', Except.toOption]
        | ok r =>
          rw [ht] at ih'
          simp only [Except.toOption] at ih'
          simp [← ih', Except.toOption]

theorem addLayers_length {n : Name} : ∀ {ls : List Layer} {as : List ArrIn} {r : List Layer},
    addLayers n ls as = some r → as.length = ls.length := by
  intro ls as r h
  rw [addLayers_eq] at h
  split at h
  · next hc => exact shapes_length hc.2
  · simp at h

theorem addE_toOption (s : State) (n : Name) (ds : List ArrIn) (c : Nat) :
    (addE s n ds c).toOption = add s n ds c := by
  unfold addE add
  by_cases hlen : ds.length = s.layers.length
  · have h := addLayersE_toOption n s.layers ds hlen
    simp only [ne_eq, hlen, not_true_eq_false, if_false]
    cases hE : addLayersE n s.layers ds with
    | error p =>
      obtain ⟨e, ls⟩ := p
      rw [hE] at h
      simp only [Except.toOption] at h
      simp [← h, Res.toOption]
    | ok ls =>
      rw [hE] at h
      simp only [Except.toOption] at h
      simp [← h, Res.toOption]
  · simp only [ne_eq, hlen, not_false_eq_true, if_true, Res.toOption]
    cases h : addLayers n s.layers ds with
    | none => rfl
    | some r => exact absurd (addLayers_length h) hlen

theorem popAllE_toOption : ∀ (ns : List Name) (d : Dict),
    popAll d ns = (match popAllE d ns with
      | (d', none) => some d'
      | (_, some _) => none) := by
  intro ns
  induction ns with
  | nil => intro d; rfl
  | cons a r ih =>
    intro d
    simp only [popAll, popAllE]
    cases h : dictPop d a with
    | none => rfl
    | some d' => exact ih d'

theorem removeE_toOption (s : State) (ns : List Name) : (removeE s ns).toOption = remove s ns := by
  unfold removeE remove
  rw [popAllE_toOption]
  rcases h : popAllE s.cal ns with ⟨d, _ | e⟩ <;> simp [Res.toOption]

theorem renameLayersE_toOption (m : NameMap) : ∀ ls : List Layer,
    (renameLayersE m ls).toOption = renameLayers m ls := by
  intro ls
  induction ls with
  | nil => rfl
  | cons l t ih =>
    simp only [renameLayersE, renameLayers]
    cases hl : l.rename m with
    | none => simp [Except.toOption]
    | some l' =>
      cases ht : renameLayersE m t with
      | error p =>
        rw [ht] at ih
        simp only [Except.toOption] at ih
        obtain ⟨e, r⟩ := p
        simp [← ih, Except.toOption]
      | ok r =>
        rw [ht] at ih
        simp only [Except.toOption] at ih
        simp [← ih, Except.toOption]

theorem renameE_toOption (s : State) (m : NameMap) : (renameE s m).toOption = rename s m := by
  unfold renameE rename
  have h := renameLayersE_toOption m s.layers
  cases hE : renameLayersE m s.layers with
  | error p =>
    obtain ⟨e, ls⟩ := p
    rw [hE] at h
    simp only [Except.toOption] at h
    simp [← h, Res.toOption]
  | ok ls =>
    rw [hE] at h
    simp only [Except.toOption] at h
    simp [← h, Res.toOption]

theorem calibrateAllE_toOption (cal : Dict) : ∀ f : Fields,
    (calibrateAllE cal f).toOption = calibrateAll cal f := by
  intro f
  induction f with
  | nil => rfl
  | cons e r ih =>
    simp only [calibrateAllE, calibrateAll]
    cases hc : get? cal e.1 with
    | none => simp [Except.toOption]
    | some c =>
      cases hr : calibrateAllE cal r with
      | error x =>
        rw [hr] at ih
        simp only [Except.toOption] at ih
        simp [← ih, Except.toOption]
      | ok out =>
        rw [hr] at ih
        simp only [Except.toOption] at ih
        simp [← ih, Except.toOption]

theorem readE_toOption (s : State) (layer : Nat) (t : Option Name) (c : Bool) :
    (readE s layer t c).toOption = read s layer t c := by
  unfold readE read
  cases s.layers[layer]? with
  | none => rfl
  | some l =>
    simp only [readLayerE, readLayer]
    cases t with
    | some n =>
      simp only
      cases get? l.fields n with
      | none => rfl
      | some d =>
        simp only
        cases c with
        | false => rfl
        | true =>
          simp only [if_true]
          cases get? s.cal n <;> rfl
    | none =>
      simp only
      cases c with
      | false => rfl
      | true => simp only [if_true]; exact calibrateAllE_toOption s.cal l.fields

theorem stepE_toOption (s : State) (op : Op) : (stepE s op).toOption = step s op := by
  cases op with
  | add n ds c => exact addE_toOption s n ds c
  | remove ns => exact removeE_toOption s ns
  | rename m => exact renameE_toOption s m
  | get layer t c =>
    simp only [stepE, step]
    have h := readE_toOption s layer t c
    cases hr : readE s layer t c with
    | error e =>
      rw [hr] at h
      simp only [Except.toOption] at h
      simp [← h, Res.toOption]
    | ok out =>
      rw [hr] at h
      simp only [Except.toOption] at h
      simp [← h, Res.toOption]
  | callerEdit => rfl

/-! ## what a failing call leaves behind -/

/-- a failing layer loop of `add` leaves the layers as they were, or the first layer extended and some
later layer not -/
theorem addLayersE_error (n : Name) : ∀ (ls : List Layer) (as : List ArrIn) (e : Err) (ls' : List Layer),
    addLayersE n ls as = .error (e, ls') →
      ls'.map (·.shape) = ls.map (·.shape) ∧
      (ls' = ls ∨ ∃ l0 r l1 t, ls' = l0 :: r ∧ ls = l1 :: t ∧ keys l0.fields = keys l1.fields ++ [n] ∧
        ∃ l ∈ r, l ∈ t) := by
  intro ls
  induction ls with
  | nil => intro as e ls' h; simp [addLayersE] at h
  | cons l t ih =>
    intro as e ls' h
    cases as with
    | nil =>
      simp only [addLayersE, Except.error.injEq, Prod.mk.injEq] at h
      obtain ⟨_, rfl⟩ := h
      exact ⟨rfl, Or.inl rfl⟩
    | cons a u =>
      simp only [addLayersE] at h
      cases hl : l.addE n a with
      | error x =>
        rw [hl] at h
        simp only [Except.error.injEq, Prod.mk.injEq] at h
        obtain ⟨_, rfl⟩ := h
        exact ⟨rfl, Or.inl rfl⟩
      | ok l' =>
        rw [hl] at h
        have hl' : l'.shape = l.shape ∧ keys l'.fields = keys l.fields ++ [n] := by
          unfold Layer.addE at hl
          split at hl
          · simp at hl
          · split at hl
            · simp at hl
            · simp only [Except.ok.injEq] at hl
              subst hl
              simp
        cases ht : addLayersE n t u with
        | ok r => rw [ht] at h; simp at h
        | error p =>
          obtain ⟨e', r⟩ := p
          rw [ht] at h
          simp only [Except.error.injEq, Prod.mk.injEq] at h
          obtain ⟨_, rfl⟩ := h
          obtain ⟨hsh, hcase⟩ := ih u e' r ht
          refine ⟨by simp [hl'.1, hsh], Or.inr ⟨l', r, l, t, rfl, rfl, hl'.2, ?_⟩⟩
          rcases hcase with rfl | ⟨l0, r', l1, t', rfl, rfl, _, l2, hl2, hl2t⟩
          · cases r with
            | nil => simp [addLayersE] at ht
            | cons x y => exact ⟨x, by simp, by simp⟩
          · exact ⟨l2, by simp [hl2], by simp [hl2t]⟩

theorem addE_fail {s s' : State} (h : Inv s) {n : Name} {ds : List ArrIn} {c : Nat} {e : Err}
    (hs : addE s n ds c = .fail e s') :
    s'.cal = s.cal ∧ s'.cfg = s.cfg ∧ s'.srr = s.srr ∧
      s'.layers.map (·.shape) = s.layers.map (·.shape) ∧ (s' = s ∨ ¬ Inv s') := by
  unfold addE at hs
  split at hs
  · simp only [Res.fail.injEq] at hs
    obtain ⟨_, rfl⟩ := hs
    exact ⟨rfl, rfl, rfl, rfl, Or.inl rfl⟩
  · cases hE : addLayersE n s.layers ds with
    | ok r => rw [hE] at hs; simp at hs
    | error p =>
      obtain ⟨e', ls'⟩ := p
      rw [hE] at hs
      simp only [Res.fail.injEq] at hs
      obtain ⟨_, rfl⟩ := hs
      obtain ⟨hsh, hcase⟩ := addLayersE_error n s.layers ds e' ls' hE
      refine ⟨rfl, rfl, rfl, hsh, ?_⟩
      rcases hcase with rfl | ⟨l0, r, l1, t, rfl, hst, hk, l, hlr, hlt⟩
      · exact Or.inl rfl
      · right
        intro h'
        have h1 : keys l.fields = keys l0.fields := by
          have := h'.layer_keys (l := l) (by simp [hlr])
          simpa [State.elements, elementsOf] using this
        have h2 : keys l.fields = keys l1.fields := by
          have := h.layer_keys (l := l) (by rw [hst]; simp [hlt])
          rw [this]
          simp [State.elements, elementsOf, hst]
        rw [h2, hk] at h1
        have := congrArg List.length h1
        simp at this

/-- a failing `popAll`: the names before the failing one are popped, the failing one is not a key any more -/
theorem popAllE_error : ∀ (ns : List Name) (d d' : Dict) (e : Err), popAllE d ns = (d', some e) →
    e = .key ∧ ∃ k, k < ns.length ∧ d' = d.filter (fun x => decide (x.1 ∉ ns.take k)) ∧
      ∀ x, ns[k]? = some x → x ∉ keys d' := by
  intro ns
  induction ns with
  | nil => intro d d' e h; simp [popAllE] at h
  | cons a r ih =>
    intro d d' e h
    simp only [popAllE, dictPop] at h
    by_cases ha : a ∈ keys d
    · simp only [if_pos ha] at h
      obtain ⟨he, k, hk, hd, hx⟩ := ih _ d' e h
      refine ⟨he, k + 1, by simpa using hk, ?_, by simpa using hx⟩
      rw [hd, List.filter_filter]
      apply List.filter_congr
      intro x _
      simp only [List.take_succ_cons, List.mem_cons, not_or, Bool.decide_and]
      by_cases h1 : x.1 = a <;> by_cases h2 : x.1 ∈ List.take k r <;> simp [h1, h2]
    · simp only [if_neg ha, Prod.mk.injEq, Option.some.injEq] at h
      obtain ⟨rfl, rfl⟩ := h
      refine ⟨rfl, 0, by simp, by simp, ?_⟩
      intro x hx
      simp only [List.getElem?_cons_zero, Option.some.injEq] at hx
      exact hx ▸ ha

theorem removeE_fail {s s' : State} {ns : List Name} {e : Err} (hs : removeE s ns = .fail e s') :
    e = .key ∧ s'.layers = s.layers.map (·.drop ns) ∧ s'.cfg = s.cfg ∧ s'.srr = s.srr ∧
      ∃ k, k < ns.length ∧ s'.cal = s.cal.filter (fun x => decide (x.1 ∉ ns.take k)) ∧
        ∀ x, ns[k]? = some x → x ∉ keys s'.cal := by
  unfold removeE at hs
  rcases hp : popAllE s.cal ns with ⟨d, _ | e'⟩
  · rw [hp] at hs; simp at hs
  · rw [hp] at hs
    simp only [Res.fail.injEq] at hs
    obtain ⟨rfl, rfl⟩ := hs
    obtain ⟨he, k, hk, hd, hx⟩ := popAllE_error ns s.cal d e' hp
    exact ⟨he, rfl, rfl, rfl, k, hk, hd, hx⟩

theorem renameLayersE_ok_of (m : NameMap) : ∀ ls : List Layer,
    (∀ l ∈ ls, ((keys l.fields).map (sub m)).Nodup) → ∃ r, renameLayersE m ls = .ok r := by
  intro ls
  induction ls with
  | nil => intro _; exact ⟨[], rfl⟩
  | cons l t ih =>
    intro h
    obtain ⟨r, hr⟩ := ih (fun x hx => h x (by simp [hx]))
    have hl : ((keys l.fields).map (sub m)).Nodup := h l (by simp)
    refine ⟨{ shape := l.shape, fields := l.fields.map (fun e => (sub m e.1, e.2)) } :: r, ?_⟩
    simp only [renameLayersE, Layer.rename, keys_mapKey, if_pos hl, hr]

theorem renameE_fail {s s' : State} (h : Inv s) {m : NameMap} {e : Err} (hs : renameE s m = .fail e s') :
    e = .value ∧ s' = s := by
  unfold renameE at hs
  cases hE : renameLayersE m s.layers with
  | ok r => rw [hE] at hs; simp at hs
  | error p =>
    obtain ⟨e', ls'⟩ := p
    rw [hE] at hs
    simp only [Res.fail.injEq] at hs
    obtain ⟨rfl, rfl⟩ := hs
    -- all layers have the same names: the first layer is the one that fails
    cases hls : s.layers with
    | nil => rw [hls] at hE; simp [renameLayersE] at hE
    | cons l t =>
      rw [hls] at hE
      simp only [renameLayersE] at hE
      cases hl : l.rename m with
      | none =>
        rw [hl] at hE
        simp only [Except.error.injEq, Prod.mk.injEq] at hE
        obtain ⟨rfl, rfl⟩ := hE
        refine ⟨rfl, ?_⟩
        cases s
        simp_all
      | some l' =>
        exfalso
        have hnd : ((keys l.fields).map (sub m)).Nodup := by
          unfold Layer.rename at hl
          simp only [keys_mapKey] at hl
          split at hl
          · assumption
          · simp at hl
        have hall : ∀ x ∈ s.layers, ((keys x.fields).map (sub m)).Nodup := by
          intro x hx
          rw [h.layer_keys hx, ← h.layer_keys (l := l) (by rw [hls]; simp)]
          exact hnd
        obtain ⟨r, hr⟩ := renameLayersE_ok_of m t (fun x hx => hall x (by rw [hls]; simp [hx]))
        rw [hl, hr] at hE
        simp at hE

end Pew.LaserEdit
