import PewModel.RegisterFast
import PewProofs.Register
import Mathlib.Algebra.Order.Ring.Int
import Mathlib.Data.Rat.Defs
import Mathlib.Data.Rat.Cast.Defs
import Mathlib.Data.Int.Cast.Lemmas
import Mathlib.Data.Nat.Cast.Field

/-! # C12 — the array twin (`PewModel.RegisterFast`) equals the model: helper lemmas -/
namespace Pew.Register
open Finset

/-! ### the counting loop -/

theorem sumLoop_go (f : Nat → Int) (k i : Nat) (acc : Int) :
    sumLoop.go f k i acc = acc + ∑ j ∈ range k, f (i + j) := by
  induction k generalizing i acc with
  | zero => simp [sumLoop.go]
  | succ k ih =>
    rw [sumLoop.go, ih, Finset.sum_range_succ']
    have : ∀ j, f (i + 1 + j) = f (i + (j + 1)) := fun j => by rw [Nat.add_assoc, Nat.add_comm 1 j]
    simp only [this, Nat.add_zero]
    ring

theorem sumLoop_eq (lo n : Nat) (f : Nat → Int) : sumLoop lo n f = ∑ j ∈ range n, f (lo + j) := by
  rw [sumLoop, sumLoop_go, zero_add]

theorem sumLoop_cast (lo n : Nat) (f : Nat → Int) :
    ((sumLoop lo n f : Int) : Rat) = ∑ j ∈ range n, ((f (lo + j) : Int) : Rat) := by
  rw [sumLoop_eq, Int.cast_sum]

/-- the loop over `lo ≤ n < hi` (with `hi ≤ b`) is the sum over `n < b` of the terms inside the window -/
theorem sumLoop_window (b lo hi : Nat) (hhi : hi ≤ b) (f : Nat → Int) (T : Nat → Rat)
    (hT : ∀ n, lo ≤ n → n < hi → ((f n : Int) : Rat) = T n) :
    ((sumLoop lo (hi - lo) f : Int) : Rat) = sumRange b (fun n => if lo ≤ n ∧ n < hi then T n else 0) := by
  rw [sumLoop_cast, sumRange_eq, ← Finset.sum_filter]
  have hset : (range b).filter (fun n => lo ≤ n ∧ n < hi) = Ico lo hi := by
    ext n
    simp only [Finset.mem_filter, Finset.mem_range, Finset.mem_Ico]
    omega
  rw [hset, Finset.sum_Ico_eq_sum_range]
  apply Finset.sum_congr rfl
  intro j hj
  have := Finset.mem_range.mp hj
  exact hT _ (by omega) (by omega)

/-! ### reading a flat array at an offset -/

/-- the integer array read at `off + flatIndex shape idx`, zero outside the box -/
def getOff (shape : List Nat) (A : Array Int) (off : Nat) : List Nat → Int := fun idx =>
  match flatIndex shape idx with
  | some k => A.getD (off + k) 0
  | none => 0

theorem getOff_nil (A : Array Int) (off : Nat) : getOff [] A off [] = A.getD off 0 := by
  simp [getOff, flatIndex]

theorem getOff_cons (s : Nat) (ss : List Nat) (A : Array Int) (off i : Nat) (hi : i < s) (r : List Nat) :
    getOff (s :: ss) A off (i :: r) = getOff ss A (off + i * ss.foldl (· * ·) 1) r := by
  simp only [getOff, flatIndex, hi, if_true]
  cases flatIndex ss r with
  | none => rfl
  | some k => simp [Nat.add_assoc]

/-- the per-axis description of the two images: `(a, b, stride of a, stride of b)` -/
def axes : List Nat → List Nat → List (Nat × Nat × Nat × Nat)
  | a :: as, b :: bs => (a, b, as.foldl (· * ·) 1, bs.foldl (· * ·) 1) :: axes as bs
  | _, _ => []

theorem axesOf_eq (sa sb : List Nat) (da db : Array Int) (ca cb : Rat) :
    axesOf ⟨sa, stridesOf sa, da, ca⟩ ⟨sb, stridesOf sb, db, cb⟩ = axes sa sb := by
  induction sa generalizing sb with
  | nil => simp [axesOf, axes]
  | cons a as ih =>
    cases sb with
    | nil => simp [axesOf, axes]
    | cons b bs =>
      have := ih bs
      simp only [axesOf] at this
      simp [axesOf, axes, stridesOf, this]

/-! ### the linear correlation -/

theorem linGo_cons (A B : Array Int) (a b sa sb : Nat) (rest : List (Nat × Nat × Nat × Nat)) (l : Int)
    (ls : List Int) (ia ib : Nat) :
    linGo A B ((a, b, sa, sb) :: rest) (l :: ls) ia ib
      = sumLoop (-l).toNat (min b ((a : Int) - l).toNat - (-l).toNat)
          (fun n => linGo A B rest ls (ia + ((n : Int) + l).toNat * sa) (ib + n * sb)) := by
  cases rest with
  | nil =>
    cases ls with
    | nil => simp [linGo]
    | cons _ _ => simp [linGo]
  | cons _ _ => simp [linGo]

theorem linGo_eq (sa sb : List Nat) (h : sa.length = sb.length) (A B : Array Int) (l : List Int) (ia ib : Nat) :
    ((linGo A B (axes sa sb) l ia ib : Int) : Rat)
      = lin sb (zext sa (fun r => ((getOff sa A ia r : Int) : Rat))) (fun r => ((getOff sb B ib r : Int) : Rat)) l := by
  induction sa generalizing sb l ia ib with
  | nil =>
    cases sb with
    | nil => simp [axes, linGo, lin, zext, inBoxI, getOff_nil]
    | cons _ _ => simp at h
  | cons a as ih =>
    cases sb with
    | nil => simp at h
    | cons b bs =>
      have h' : as.length = bs.length := by simpa using h
      cases l with
      | nil => simp [axes, linGo, lin]
      | cons l0 ls =>
        rw [lin_cons, axes, linGo_cons]
        rw [sumLoop_window b (-l0).toNat (min b ((a : Int) - l0).toNat) (Nat.min_le_left _ _) _
          (fun n => lin bs (zext as (fun r => ((getOff (a :: as) A ia (((n : Int) + l0).toNat :: r) : Int) : Rat)))
            (fun r => ((getOff (b :: bs) B ib (n :: r) : Int) : Rat)) ls)]
        · apply sumRange_congr
          intro n hn
          by_cases c : 0 ≤ (n : Int) + l0 ∧ (n : Int) + l0 < a
          · rw [if_pos c, if_pos (by omega)]
          · rw [if_neg c, if_neg (by omega)]
        · intro n h1 h2
          rw [ih bs h']
          congr 1
          · congr 1
            funext r
            rw [getOff_cons _ _ _ _ _ (by omega)]
          · funext r
            rw [getOff_cons _ _ _ _ _ (by omega)]

/-! ### the circular correlation -/

theorem sumRange_tail (n m : Nat) (f : Nat → Rat)
    (h : ∀ i, (n ≤ i ∧ i < m) ∨ (m ≤ i ∧ i < n) → f i = 0) : sumRange n f = sumRange m f := by
  rw [sumRange_eq, sumRange_eq]
  rcases Nat.le_total n m with hle | hle
  · obtain ⟨d, rfl⟩ := Nat.exists_eq_add_of_le hle
    rw [Finset.sum_range_add, Finset.sum_eq_zero (s := range d), add_zero]
    intro x hx
    have := Finset.mem_range.mp hx
    exact h _ (Or.inl (by omega))
  · obtain ⟨d, rfl⟩ := Nat.exists_eq_add_of_le hle
    rw [Finset.sum_range_add, Finset.sum_eq_zero (s := range d), add_zero]
    intro x hx
    have := Finset.mem_range.mp hx
    exact h _ (Or.inr (by omega))

theorem circGo_cons (A B : Array Int) (a b sa sb : Nat) (rest : List (Nat × Nat × Nat × Nat)) (k : Nat)
    (ks : List Nat) (ia ib : Nat) :
    circGo A B ((a, b, sa, sb) :: rest) (k :: ks) ia ib
      = sumLoop 0 b (fun n => if (n + k) % (a + b - 1) < a then
          circGo A B rest ks (ia + (n + k) % (a + b - 1) * sa) (ib + n * sb) else 0) := by
  cases rest with
  | nil =>
    cases ks with
    | nil => simp [circGo]
    | cons _ _ => simp [circGo]
  | cons _ _ => simp [circGo]

theorem circGo_eq (sa sb : List Nat) (h : sa.length = sb.length) (A B : Array Int) (k : List Nat) (ia ib : Nat) :
    ((circGo A B (axes sa sb) k ia ib : Int) : Rat)
      = circ (padShape sa sb) (padN sa (fun r => ((getOff sa A ia r : Int) : Rat)))
          (padN sb (fun r => ((getOff sb B ib r : Int) : Rat))) k := by
  induction sa generalizing sb k ia ib with
  | nil =>
    cases sb with
    | nil => simp [axes, circGo, circ, padShape, padN, inBox, getOff_nil]
    | cons _ _ => simp at h
  | cons a as ih =>
    cases sb with
    | nil => simp at h
    | cons b bs =>
      have h' : as.length = bs.length := by simpa using h
      cases k with
      | nil => simp [axes, circGo, circ, padShape]
      | cons k0 ks =>
        rw [axes, circGo_cons, padShape, circ, sumLoop_cast]
        rw [sumRange_tail (a + b - 1) b, sumRange_eq]
        · apply Finset.sum_congr rfl
          intro n hn
          have hn : n < b := Finset.mem_range.mp hn
          rw [Nat.zero_add]
          by_cases hm : (n + k0) % (a + b - 1) < a
          · rw [if_pos hm, padN_cons_lt a as _ _ hm, padN_cons_lt b bs _ _ hn, ih bs h']
            congr 2
            · funext r
              rw [getOff_cons _ _ _ _ _ hm]
            · funext r
              rw [getOff_cons _ _ _ _ _ hn]
          · rw [if_neg hm, Int.cast_zero]
            exact (circ_zero_left _ _ _ _ (fun r => padN_cons_ge a as _ _ (by omega) r)).symm
        · intro i hi
          rcases hi with hi | hi
          · exact circ_zero_left _ _ _ _ (fun r => padN_cons_ge a as _ _ (by omega) r)
          · exact circ_zero_right _ _ _ _ (fun r => padN_cons_ge b bs _ _ (by omega) r)

/-! ### homogeneity -/

theorem lin_smul (bs : List Nat) (A : List Int → Rat) (B : List Nat → Rat) (c d : Rat) (l : List Int) :
    lin bs (fun r => A r * c) (fun r => B r * d) l = lin bs A B l * (c * d) := by
  induction bs generalizing A B l with
  | nil => simp only [lin]; ring
  | cons b bs ih =>
    cases l with
    | nil => simp [lin]
    | cons l0 ls =>
      simp only [lin, sumRange_eq, Finset.sum_mul]
      exact Finset.sum_congr rfl (fun n _ => ih _ _ _)

theorem zext_smul (sa : List Nat) (f : List Nat → Rat) (c : Rat) :
    zext sa (fun r => f r * c) = fun r => zext sa f r * c := by
  funext r
  simp only [zext]
  split <;> simp

theorem circ_smul (ss : List Nat) (A B : List Nat → Rat) (c d : Rat) (k : List Nat) :
    circ ss (fun r => A r * c) (fun r => B r * d) k = circ ss A B k * (c * d) := by
  induction ss generalizing A B k with
  | nil => simp only [circ]; ring
  | cons s ss ih =>
    cases k with
    | nil => simp [circ]
    | cons k0 ks =>
      simp only [circ, sumRange_eq, Finset.sum_mul]
      exact Finset.sum_congr rfl (fun n _ => ih _ _ _)

theorem padN_smul (sa : List Nat) (f : List Nat → Rat) (c : Rat) :
    padN sa (fun r => f r * c) = fun r => padN sa f r * c := by
  funext r
  simp only [padN]
  split <;> simp

/-! ### common denominator, common factor (`toFImg`) -/

theorem scale_arith (q : Rat) (D G : Nat) (hD : D ≠ 0) (hG : G ≠ 0) (hd : q.den ∣ D)
    (hg : (G : Int) ∣ q.num * ((D / q.den : Nat) : Int)) :
    (((q.num * ((D / q.den : Nat) : Int) / (G : Int) : Int)) : Rat) * mkRat G D = q := by
  have hG' : ((G : Int) : Rat) ≠ 0 := by exact_mod_cast hG
  have hD' : (D : Rat) ≠ 0 := by exact_mod_cast hD
  have hq : (q.den : Rat) ≠ 0 := by exact_mod_cast q.den_nz
  rw [Int.cast_div hg hG', Int.cast_mul, Int.cast_natCast, Nat.cast_div hd hq, Rat.mkRat_eq_div]
  push_cast
  field_simp
  rw [mul_comm]
  exact (Rat.mul_den_eq_num q).symm

theorem foldl_lcm_dvd (data : List Rat) (init : Nat) :
    init ∣ data.foldl (fun d q => Nat.lcm d q.den) init ∧
      ∀ q ∈ data, q.den ∣ data.foldl (fun d q => Nat.lcm d q.den) init := by
  induction data generalizing init with
  | nil => simp
  | cons q qs ih =>
    obtain ⟨h1, h2⟩ := ih (Nat.lcm init q.den)
    simp only [List.foldl_cons, List.mem_cons, forall_eq_or_imp]
    exact ⟨Nat.dvd_trans (Nat.dvd_lcm_left _ _) h1, Nat.dvd_trans (Nat.dvd_lcm_right _ _) h1, h2⟩

theorem foldl_lcm_ne_zero (data : List Rat) (init : Nat) (h : init ≠ 0) :
    data.foldl (fun d q => Nat.lcm d q.den) init ≠ 0 := by
  induction data generalizing init with
  | nil => simpa
  | cons q qs ih => exact ih _ (Nat.lcm_ne_zero h q.den_nz)

theorem foldl_gcd_dvd (ints : List Int) (init : Nat) :
    ints.foldl (fun g v => Nat.gcd g v.natAbs) init ∣ init ∧
      ∀ v ∈ ints, ints.foldl (fun g v => Nat.gcd g v.natAbs) init ∣ v.natAbs := by
  induction ints generalizing init with
  | nil => simp
  | cons v vs ih =>
    obtain ⟨h1, h2⟩ := ih (Nat.gcd init v.natAbs)
    simp only [List.foldl_cons, List.mem_cons, forall_eq_or_imp]
    exact ⟨Nat.dvd_trans h1 (Nat.gcd_dvd_left _ _), Nat.dvd_trans h1 (Nat.gcd_dvd_right _ _), h2⟩


theorem toFImg_getD (sh : List Nat) (data : List Rat) (k : Nat) :
    (((toFImg sh data).data.getD k 0 : Int) : Rat) * (toFImg sh data).scale = data.toArray.getD k 0 := by
  simp only [toFImg]
  generalize hD : data.foldl (fun d q => Nat.lcm d q.den) 1 = D
  generalize hG0 : (data.map fun q => q.num * ((D / q.den : Nat) : Int)).foldl (fun g v => Nat.gcd g v.natAbs) 0 = G0
  have hDnz : D ≠ 0 := hD ▸ foldl_lcm_ne_zero data 1 (by decide)
  have hden : ∀ q ∈ data, q.den ∣ D := hD ▸ (foldl_lcm_dvd data 1).2
  have hgcd : ∀ v ∈ data.map (fun q => q.num * ((D / q.den : Nat) : Int)), G0 ∣ v.natAbs :=
    hG0 ▸ (foldl_gcd_dvd _ 0).2
  by_cases hk : k < data.length
  · have hq : data[k] ∈ data := List.getElem_mem hk
    have hG : (if G0 = 0 then 1 else G0) ≠ 0 := by split <;> omega
    have hdv : (((if G0 = 0 then 1 else G0 : Nat) : Int)) ∣ data[k].num * ((D / data[k].den : Nat) : Int) := by
      split
      · simp
      · exact Int.natCast_dvd.mpr (hgcd _ (List.mem_map.mpr ⟨_, hq, rfl⟩))
    have := scale_arith data[k] D _ hDnz hG (hden _ hq) hdv
    simpa [Array.getD, hk] using this
  · simp [Array.getD, hk]

theorem mkGet_eq (sh : List Nat) (data : List Rat) :
    mkGet sh data.toArray
      = fun r => ((getOff sh (toFImg sh data).data 0 r : Int) : Rat) * (toFImg sh data).scale := by
  funext r
  simp only [mkGet, getOff]
  cases flatIndex sh r with
  | none => simp
  | some k => simp only [Nat.zero_add, toFImg_getD]

theorem axesOf_toFImg (sa sb : List Nat) (da db : List Rat) :
    axesOf (toFImg sa da) (toFImg sb db) = axes sa sb := axesOf_eq sa sb _ _ _ _

end Pew.Register
