import PewProofs.FastParse
/-! # C17 — attribute text: without `&` (and tab / line breaks) ElementTree's decoding is the identity -/
namespace Pew.FastParse

theorem xmlDecodeL_id (l : List Char) (h : ∀ c ∈ l, badChar c = false) : xmlDecodeL none l = l := by
  induction l with
  | nil => rfl
  | cons c r ih =>
    have hc := h c (by simp)
    simp only [badChar, Bool.or_eq_false_iff, beq_eq_false_iff_ne, ne_eq] at hc
    obtain ⟨⟨⟨⟨⟨h1, _⟩, _⟩, h4⟩, h5⟩, h6⟩ := hc
    have hn : normWs c = c := by simp [normWs, h4, h5, h6]
    simp only [xmlDecodeL, h1, if_false, hn]
    rw [ih (fun c' hc' => h c' (by simp [hc']))]

theorem xmlDecode_id (s : String) (h : textOk s = true) : xmlDecode s = s := by
  unfold xmlDecode
  rw [xmlDecodeL_id s.toList]
  · exact String.ofList_toList
  · intro c hc
    unfold textOk at h
    rw [List.all_eq_true] at h
    simpa using h c hc

theorem xmlItem_id (it : Item) (h : itemOk it = true) : xmlItem it = it := by
  cases it with
  | cv a v =>
    cases v with
    | none => rfl
    | some s =>
      simp only [itemOk, Bool.and_eq_true] at h
      simp [xmlItem, xmlDecode_id s h.2]
  | ref r =>
    simp only [itemOk] at h
    simp [xmlItem, xmlDecode_id r h]
  | misc => rfl

theorem map_id_of_mem {α} (f : α → α) (l : List α) (h : ∀ a ∈ l, f a = a) : l.map f = l := by
  induction l with
  | nil => rfl
  | cons a r ih => simp [h a (by simp), ih (fun a' ha' => h a' (by simp [ha']))]

theorem xmlItems_id (l : List Item) (h : itemsOk l = true) : xmlItems l = l := by
  unfold itemsOk at h
  rw [List.all_eq_true] at h
  exact map_id_of_mem _ _ (fun it hit => xmlItem_id it (h it hit))

theorem xmlSects_id (l : List Sect) (h : sectsOk l = true) : l.map xmlSect = l := by
  unfold sectsOk at h
  rw [List.all_eq_true] at h
  apply map_id_of_mem
  intro s hs
  cases s with
  | mk items => simp [xmlSect, xmlItems_id items (h _ hs)]

theorem xmlSpecDoc_id (s : Spec) (h : specTextOk s = true) : xmlSpecDoc s = s := by
  simp only [specTextOk, Bool.and_eq_true, List.all_eq_true] at h
  obtain ⟨⟨⟨⟨h1, h2⟩, h3⟩, h4⟩, h5⟩ := h
  cases s with
  | mk items scanlist scans arrays tail =>
    simp only [xmlSpecDoc, xmlItems_id _ h1, xmlItems_id _ h2, xmlItems_id _ h5,
      map_id_of_mem _ scans (fun l hl => xmlItems_id l (h3 l hl))]
    congr
    apply map_id_of_mem
    intro a ha
    cases a with
    | mk ai => simp [xmlItems_id ai (h4 _ ha)]

/-- a document whose attribute texts are plain is the document the XML parser sees -/
theorem xmlDoc_id (d : Doc) (h : TextOk d) : xmlDoc d = d := by
  simp only [TextOk, textOkDoc, Bool.and_eq_true, List.all_eq_true] at h
  obtain ⟨⟨⟨⟨⟨⟨h1, h2⟩, h3⟩, h4⟩, h5⟩, h6⟩, h7⟩ := h
  cases d with
  | mk decl pre mid1 mid2 post settingsFirst groups settings spectra =>
    simp only [xmlDoc, xmlSects_id _ h1, xmlSects_id _ h2, xmlSects_id _ h3, xmlSects_id _ h4]
    congr
    · apply map_id_of_mem
      intro g hg
      have := h5 g hg
      cases g with
      | mk id items => simp [xmlDecode_id id this.1, xmlItems_id items this.2]
    · apply map_id_of_mem
      intro s hs
      cases s with
      | mk items => simp [xmlItems_id items (h6 _ hs)]
    · exact map_id_of_mem _ _ (fun s hs => xmlSpecDoc_id s (h7 s hs))

end Pew.FastParse
