import PewProofs.SyncTimes

/-! # C08 — the rendered coordinates: pixel indices of the line ends, cells of a line -/
namespace Pew.Sync

theorem toPix_aligned (o : Int) (u j : Nat) (hu : 0 < u) :
    toPix o ((u : Rat) / 10000) (o + ((j * u : Nat) : Int)) = (j : Int) := by
  have := pixIdx_aligned o u j hu 0 (by norm_num) (by norm_num)
  simpa [toPix] using this

theorem div_aligned (o : Int) (m u : Nat) (hu : 0 < u) :
    (o + ((m * u : Nat) : Int) - o) / (u : Int) = (m : Int) := by
  have : o + ((m * u : Nat) : Int) - o = (m : Int) * (u : Int) := by push_cast; ring
  rw [this]
  exact Int.mul_ediv_cancel _ (by exact_mod_cast hu.ne')

/-- a coordinate on the grid: origin plus a whole number of spot sizes -/
theorem aligned_of_mod (X o : Int) (u : Nat) (hu : 0 < u) (hle : o ≤ X) (hmod : (X - o) % (u : Int) = 0) :
    ∃ c : Nat, X = o + ((c * u : Nat) : Int) := by
  have hdvd : (u : Int) ∣ (X - o) := Int.dvd_of_emod_eq_zero hmod
  obtain ⟨q, hq⟩ := hdvd
  have hu' : (0 : Int) < (u : Int) := by exact_mod_cast hu
  have hq0 : 0 ≤ q := by
    by_contra hneg
    have : q ≤ -1 := by omega
    have : (u : Int) * q ≤ (u : Int) * (-1) := Int.mul_le_mul_of_nonneg_left this (by omega)
    omega
  refine ⟨q.toNat, ?_⟩
  push_cast
  rw [Int.toNat_of_nonneg hq0]
  have : X = o + (u : Int) * q := by omega
  rw [this]; ring

theorem add_aligned (X o : Int) (c m u : Nat) (hX : X = o + ((c * u : Nat) : Int)) :
    X + ((m * u : Nat) : Int) = o + (((c + m) * u : Nat) : Int) := by
  rw [hX]; push_cast; ring

/-! ## cells of a segment -/

theorem seg_cell_bounds (g : Seg) (j : Nat) (hj : j < g.len) :
    min g.y0 g.y1 ≤ (g.cellAt j).1 ∧ (g.cellAt j).1 ≤ max g.y0 g.y1 ∧
    min g.x0 g.x1 ≤ (g.cellAt j).2 ∧ (g.cellAt j).2 ≤ max g.x0 g.x1 := by
  unfold Seg.len at hj
  unfold Seg.cellAt
  by_cases hy : g.y0 = g.y1
  · rw [if_pos hy] at hj
    rw [if_pos hy]
    by_cases hx : g.x0 ≤ g.x1
    · rw [if_pos hx]; simp only; omega
    · rw [if_neg hx]; simp only; omega
  · rw [if_neg hy] at hj
    rw [if_neg hy]
    by_cases hx : g.y0 ≤ g.y1
    · rw [if_pos hx]; simp only; omega
    · rw [if_neg hx]; simp only; omega

theorem foldl_max_le (l : List Int) (a : Int) : a ≤ l.foldl max a ∧ ∀ x ∈ l, x ≤ l.foldl max a := by
  induction l generalizing a with
  | nil => simp
  | cons y ys ih =>
    simp only [List.foldl_cons, List.mem_cons, forall_eq_or_imp]
    have := ih (max a y)
    refine ⟨by omega, by omega, this.2⟩

theorem le_maxList (l : List Int) (x : Int) (hx : x ∈ l) : x ≤ maxList l := by
  cases l with
  | nil => simp at hx
  | cons a as =>
    simp only [maxList]
    rcases List.mem_cons.mp hx with h | h
    · subst h; exact (foldl_max_le as x).1
    · exact (foldl_max_le as a).2 x h

theorem minList_eq_of (l : List Int) (m : Int) (hm : m ∈ l) (hle : ∀ x ∈ l, m ≤ x) : minList l = m := by
  have h1 := minList_le l m hm
  have h2 := hle _ (minList_mem l (List.ne_nil_of_mem hm))
  omega

/-! ## the four directions -/

/-- Pixel indices of the `On`/`Off` coordinates of line `i` of a pattern that sits on the grid
(`X = ox + cx·sxu`, `Y = oy + cy·syu`): the segment is axis-parallel, `npix` long, its travel step `j`
is the ground-truth pixel of `stepCell i j`, and it lies in the quadrant of non-negative indices. -/
theorem seg_geom (p : Pattern) (i : Nat) (ox oy : Int) (cx cy : Nat)
    (hX : p.X = ox + ((cx * p.sxu : Nat) : Int)) (hY : p.Y = oy + ((cy * p.syu : Nat) : Int))
    (hu : 0 < p.sxu) (hv : 0 < p.syu) (hn : 0 < p.npix) (g : Seg)
    (hx0 : g.x0 = toPix ox ((p.sxu : Rat) / 10000) (p.lineEnds i).1.1)
    (hx1 : g.x1 = toPix ox ((p.sxu : Rat) / 10000) (p.lineEnds i).2.1)
    (hy0 : g.y0 = toPix oy ((p.syu : Rat) / 10000) (p.lineEnds i).1.2)
    (hy1 : g.y1 = toPix oy ((p.syu : Rat) / 10000) (p.lineEnds i).2.2) :
    (g.y0 = g.y1 ∨ g.x0 = g.x1) ∧ g.len = p.npix ∧
    (∀ j, j < p.npix → g.cellAt j =
      (((p.stepCell i j).2 - oy) / (p.syu : Int), ((p.stepCell i j).1 - ox) / (p.sxu : Int))) ∧
    0 ≤ g.x0 ∧ 0 ≤ g.x1 ∧ 0 ≤ g.y0 ∧ 0 ≤ g.y1 := by
  have hX0 : p.X = ox + (((cx + 0) * p.sxu : Nat) : Int) := by simpa using hX
  have hY0 : p.Y = oy + (((cy + 0) * p.syu : Nat) : Int) := by simpa using hY
  unfold Pattern.lineEnds at hx0 hx1 hy0 hy1
  unfold Pattern.stepCell
  cases hd : p.lineDir i with
  | lr =>
    simp only [hd] at hx0 hx1 hy0 hy1 ⊢
    rw [hX0, toPix_aligned _ _ _ hu] at hx0
    rw [add_aligned p.X ox cx p.npix p.sxu hX, toPix_aligned _ _ _ hu] at hx1
    rw [add_aligned p.Y oy cy i p.syu hY, toPix_aligned _ _ _ hv] at hy0 hy1
    refine ⟨Or.inl (by omega), ?_, ?_, by omega, by omega, by omega, by omega⟩
    · unfold Seg.len; rw [if_pos (by omega)]; omega
    · intro j hj
      rw [add_aligned p.X ox cx j p.sxu hX, add_aligned p.Y oy cy i p.syu hY, div_aligned _ _ _ hu,
        div_aligned _ _ _ hv]
      unfold Seg.cellAt
      rw [if_pos (by omega), if_pos (by omega)]
      ext <;> simp only <;> omega
  | rl =>
    simp only [hd] at hx0 hx1 hy0 hy1 ⊢
    rw [hX0, toPix_aligned _ _ _ hu] at hx1
    rw [add_aligned p.X ox cx p.npix p.sxu hX, toPix_aligned _ _ _ hu] at hx0
    rw [add_aligned p.Y oy cy i p.syu hY, toPix_aligned _ _ _ hv] at hy0 hy1
    refine ⟨Or.inl (by omega), ?_, ?_, by omega, by omega, by omega, by omega⟩
    · unfold Seg.len; rw [if_pos (by omega)]; omega
    · intro j hj
      rw [add_aligned p.X ox cx (p.npix - 1 - j) p.sxu hX, add_aligned p.Y oy cy i p.syu hY,
        div_aligned _ _ _ hu, div_aligned _ _ _ hv]
      unfold Seg.cellAt
      rw [if_pos (by omega), if_neg (by omega)]
      ext <;> simp only <;> omega
  | tb =>
    simp only [hd] at hx0 hx1 hy0 hy1 ⊢
    rw [hY0, toPix_aligned _ _ _ hv] at hy0
    rw [add_aligned p.Y oy cy p.npix p.syu hY, toPix_aligned _ _ _ hv] at hy1
    rw [add_aligned p.X ox cx i p.sxu hX, toPix_aligned _ _ _ hu] at hx0 hx1
    refine ⟨Or.inr (by omega), ?_, ?_, by omega, by omega, by omega, by omega⟩
    · unfold Seg.len; rw [if_neg (by omega)]; omega
    · intro j hj
      rw [add_aligned p.X ox cx i p.sxu hX, add_aligned p.Y oy cy j p.syu hY, div_aligned _ _ _ hu,
        div_aligned _ _ _ hv]
      unfold Seg.cellAt
      rw [if_neg (by omega), if_pos (by omega)]
      ext <;> simp only <;> omega
  | bt =>
    simp only [hd] at hx0 hx1 hy0 hy1 ⊢
    rw [hY0, toPix_aligned _ _ _ hv] at hy1
    rw [add_aligned p.Y oy cy p.npix p.syu hY, toPix_aligned _ _ _ hv] at hy0
    rw [add_aligned p.X ox cx i p.sxu hX, toPix_aligned _ _ _ hu] at hx0 hx1
    refine ⟨Or.inr (by omega), ?_, ?_, by omega, by omega, by omega, by omega⟩
    · unfold Seg.len; rw [if_neg (by omega)]; omega
    · intro j hj
      rw [add_aligned p.X ox cx i p.sxu hX, add_aligned p.Y oy cy (p.npix - 1 - j) p.syu hY,
        div_aligned _ _ _ hu, div_aligned _ _ _ hv]
      unfold Seg.cellAt
      rw [if_neg (by omega), if_neg (by omega)]
      ext <;> simp only <;> omega

/-- the `On`/`Off` coordinates of a line never lie below the pattern's low corner, and line 0
touches it on both axes -/
theorem lineEnds_ge (p : Pattern) (i : Nat) :
    p.X ≤ (p.lineEnds i).1.1 ∧ p.X ≤ (p.lineEnds i).2.1 ∧ p.Y ≤ (p.lineEnds i).1.2 ∧ p.Y ≤ (p.lineEnds i).2.2 := by
  unfold Pattern.lineEnds
  cases p.lineDir i <;> simp only <;> omega

theorem lineEnds_zero (p : Pattern) :
    ((p.lineEnds 0).1.1 = p.X ∨ (p.lineEnds 0).2.1 = p.X) ∧ ((p.lineEnds 0).1.2 = p.Y ∨ (p.lineEnds 0).2.2 = p.Y) := by
  unfold Pattern.lineEnds
  cases p.lineDir 0 <;> simp

end Pew.Sync
