import PewProofs.Export

/-! # C16 — the appended section of the `.vti` file byte by byte -/
namespace Pew.Export

variable {α : Type}

theorem le64_length (n : Nat) : (le64 n).length = 8 := by simp [le64]

/-- the 8 bytes of a number below 2^64 give the number back -/
theorem ofLe64_le64 (n : Nat) (h : n < 2 ^ 64) : ofLe64 (le64 n) = n := by
  simp only [le64, List.range, List.range.loop, List.map, ofLe64]
  simp only [Nat.reducePow] at h ⊢
  omega

theorem flatMap_drop_const {β γ : Type} (f : β → List γ) (n : Nat) (ws : List β) (h : ∀ w ∈ ws, (f w).length = n)
    (i : Nat) : (ws.flatMap f).drop (n * i) = (ws.drop i).flatMap f := by
  induction ws generalizing i with
  | nil => simp
  | cons x xs ih =>
    cases i with
    | zero => simp
    | succ i =>
      rw [Nat.mul_succ, Nat.add_comm, ← List.drop_drop, List.flatMap_cons, List.drop_left' (h x (by simp)), List.drop_succ_cons]
      exact ih (fun w hw => h w (by simp [hw])) i

theorem flatMap_take_const {β γ : Type} (f : β → List γ) (n : Nat) (ws : List β) (h : ∀ w ∈ ws, (f w).length = n)
    (m : Nat) : (ws.flatMap f).take (n * m) = (ws.take m).flatMap f := by
  induction ws generalizing m with
  | nil => simp
  | cons x xs ih =>
    cases m with
    | zero => simp
    | succ m =>
      have hx := h x (by simp)
      rw [List.flatMap_cons, List.take_succ_cons, List.flatMap_cons, Nat.mul_succ, Nat.add_comm,
        List.take_append, hx, Nat.add_sub_cancel_left, ih (fun w hw => h w (by simp [hw])) m]
      congr 1
      exact List.take_of_length_le (by omega)

theorem flatMap_drop_take {β γ : Type} (f : β → List γ) (n : Nat) (ws : List β) (h : ∀ w ∈ ws, (f w).length = n)
    (i : Nat) (w : β) (hi : ws[i]? = some w) : ((ws.flatMap f).drop (n * i)).take n = f w := by
  rw [flatMap_drop_const f n ws h i]
  have hlt : i < ws.length := (List.getElem?_eq_some_iff.mp hi).1
  have hw : ws[i] = w := (List.getElem?_eq_some_iff.mp hi).2
  rw [List.drop_eq_getElem_cons hlt, List.flatMap_cons, hw]
  exact List.take_left' (h w (by rw [← hw]; exact List.getElem_mem hlt))

theorem flatMap_length_const {β γ : Type} (f : β → List γ) (n : Nat) (ws : List β) (h : ∀ w ∈ ws, (f w).length = n) :
    (ws.flatMap f).length = n * ws.length := by
  induction ws with
  | nil => simp
  | cons x xs ih =>
    simp only [List.flatMap_cons, List.length_append, List.length_cons, h x (by simp), ih (fun w hw => h w (by simp [hw])),
      Nat.mul_succ]
    omega

theorem wordBytes_length (little : Bool) (enc : α → List Nat) (henc : ∀ a, (enc a).length = 8) (w : Word α) :
    (wordBytes little enc w).length = 8 := by
  cases w <;> cases little <;> simp [wordBytes, le64_length, henc]

theorem appended_length (bs : List (List α)) : (appended bs).length = (bs.map (fun b => b.length + 1)).sum := by
  induction bs with
  | nil => rfl
  | cons b bs ih => simp [appended, ih]; omega

theorem sum_blocks_eq (bs : List (List α)) :
    (bs.map (fun b => b.length * 8 + 8)).sum = 8 * (bs.map (fun b => b.length + 1)).sum := by
  induction bs with
  | nil => rfl
  | cons b bs ih => simp only [List.map_cons, List.sum_cons, ih]; omega

theorem appended_append (a b : List (List α)) : appended (a ++ b) = appended a ++ appended b := by
  induction a with
  | nil => rfl
  | cons x xs ih => simp [appended, ih]

theorem appended_block_words' (pre : List (List α)) (b : List α) (rest : List (List α)) :
    ((appended (pre ++ b :: rest)).drop ((pre.map (fun b => b.length + 1)).sum + 1)).take b.length = b.map Word.val := by
  rw [appended_append, ← appended_length pre, ← List.drop_drop, List.drop_left' rfl]
  simp only [appended]
  exact List.take_left' (by simp)

/-- the words after the byte count of block `k` are its values -/
theorem appended_block_words (blocks : List (List α)) (k : Nat) (hk : k < blocks.length) :
    ((appended blocks).drop (((blocks.take k).map (fun b => b.length + 1)).sum + 1)).take blocks[k].length
      = blocks[k].map Word.val := by
  have hsplit : blocks.take k ++ (blocks[k] :: blocks.drop (k + 1)) = blocks := by
    rw [List.getElem_cons_drop hk, List.take_append_drop]
  have := appended_block_words' (blocks.take k) blocks[k] (blocks.drop (k + 1))
  rw [hsplit] at this
  exact this

theorem groups8_flatMap {β : Type} (g : β → List Nat) (l : List β) (h : ∀ a ∈ l, (g a).length = 8) :
    groups8 l.length (l.flatMap g) = l.map g := by
  induction l with
  | nil => rfl
  | cons a t ih =>
    simp only [List.length_cons, groups8, List.flatMap_cons, List.map_cons]
    rw [List.take_left' (h a (by simp)), List.drop_left' (h a (by simp)), ih (fun x hx => h x (by simp [hx]))]

end Pew.Export
