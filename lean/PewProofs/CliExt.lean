import PewProofs.Cli

/-! # C20 — helper lemmas for the storage-type, object and final-state theorems -/
namespace Pew.Cli

/-! ## `Grid.map` and concatenation -/

theorem vcat_map {α β} (f : α → β) (a b : Grid α) :
    vcat (a.map f) (b.map f) = (vcat a b).map (Grid.map f) := by
  unfold vcat
  by_cases h : a.w = b.w
  · simp only [Grid.map, h, if_true, Option.map_some]
    congr 2
    funext i j
    split <;> rfl
  · simp [Grid.map, h]

theorem hcat_map {α β} (f : α → β) (a b : Grid α) :
    hcat (a.map f) (b.map f) = (hcat a b).map (Grid.map f) := by
  unfold hcat
  by_cases h : a.h = b.h
  · simp only [Grid.map, h, if_true, Option.map_some]
    congr 2
    funext i j
    split <;> rfl
  · simp [Grid.map, h]

theorem concat_map {α β} (f : α → β) (cat : Grid α → Grid α → Option (Grid α))
    (cat' : Grid β → Grid β → Option (Grid β))
    (hcat : ∀ a b, cat' (a.map f) (b.map f) = (cat a b).map (Grid.map f)) (l : List (Grid α)) :
    concat cat' (l.map (Grid.map f)) = (concat cat l).map (Grid.map f) := by
  induction l with
  | nil => rfl
  | cons g t ih =>
    cases t with
    | nil => rfl
    | cons g' gs =>
      simp only [List.map_cons, concat] at ih ⊢
      rw [ih]
      cases concat cat (g' :: gs) with
      | none => rfl
      | some G => simp only [Option.map_some, Option.bind_some, hcat]

/-- when every input's own types hold the pad value, the typed stack is the plain stack followed
by the conversion of every value to the promoted types -/
theorem stackT_eq_map (C : Casting) (o : Orient) (pad : Tok) (ds : List (Grid Px × (String → DType)))
    (hpad : ∀ d ∈ ds, ∀ n, C.cast (d.2 n) pad = pad) :
    stackT C o pad ds =
      (stack o (fun _ => pad) (ds.map (·.1))).map
        (Grid.map (castPx C fun n => C.promote (ds.map (·.2 n)))) := by
  have hp : ∀ d ∈ ds, (castPx C d.2 fun _ => pad) = fun _ => pad := by
    intro d hd
    funext n
    exact hpad d hd n
  cases o with
  | horizontal =>
    simp only [stackT, stack, List.map_map]
    rw [← concat_map _ hcat hcat (hcat_map _), List.map_map]
    congr 1
    apply List.map_congr_left
    intro d hd
    simp only [Function.comp, hp d hd]
    rfl
  | vertical =>
    simp only [stackT, stack, List.map_map]
    rw [← concat_map _ vcat vcat (vcat_map _), List.map_map]
    congr 1
    apply List.map_congr_left
    intro d hd
    simp only [Function.comp, hp d hd]
    rfl

/-- a pixel of `stackSpec` is a pixel of one of the inputs (inside that input) or the pad value -/
theorem stackSpec_pixel {α} (o : Orient) (pad : α) (ds : List (Grid α)) (r c : Nat) :
    (stackSpec o pad ds).get r c = pad ∨
      ∃ d ∈ ds, ∃ i j, i < d.h ∧ j < d.w ∧ (stackSpec o pad ds).get r c = d.get i j := by
  cases o with
  | vertical =>
    simp only [stackSpec]
    by_cases hr : r < (ds.map (·.h)).sum
    · obtain ⟨k, i, hl, hk, hi, -⟩ := locate_some (ds.map (·.h)) r hr
      have hk' : k < ds.length := by simpa using hk
      have hi' : i < ds[k].h := by simpa using hi
      simp only [hl, List.getElem?_eq_getElem hk']
      by_cases hc : c < ds[k].w
      · exact Or.inr ⟨ds[k], List.getElem_mem hk', i, c, hi', hc, by simp [hc]⟩
      · exact Or.inl (by simp [hc])
    · rw [locate_none _ _ (by omega)]
      exact Or.inl rfl
  | horizontal =>
    simp only [stackSpec]
    by_cases hc : c < (ds.map (·.w)).sum
    · obtain ⟨k, j, hl, hk, hj, -⟩ := locate_some (ds.map (·.w)) c hc
      have hk' : k < ds.length := by simpa using hk
      have hj' : j < ds[k].w := by simpa using hj
      simp only [hl, List.getElem?_eq_getElem hk']
      by_cases hr : r < ds[k].h
      · exact Or.inr ⟨ds[k], List.getElem_mem hk', r, j, hr, hj', by simp [hr]⟩
      · exact Or.inl (by simp [hr])
    · rw [locate_none _ _ (by omega)]
      exact Or.inl rfl

/-! ## lists -/

theorem mem_enum_getElem {α} (l : List α) (x : Nat × α) (h : x ∈ enum l) :
    ∃ hk : x.1 < l.length, l[x.1] = x.2 := by
  unfold enum at h
  obtain ⟨i, hi, he⟩ := List.mem_iff_getElem.mp h
  have hi' : i < l.length := by simpa using hi
  simp only [List.getElem_zip, List.getElem_range] at he
  subst he
  exact ⟨hi', rfl⟩

theorem enum_length {α} (l : List α) : (enum l).length = l.length := by simp [enum]

theorem enum_getElem {α} (l : List α) (k : Nat) (hk : k < (enum l).length) :
    (enum l)[k] = (k, l[k]'(by simpa [enum] using hk)) := by
  simp [enum]

theorem enum_map_fst {α} (l : List α) : (enum l).map Prod.fst = List.range l.length := by
  simp [enum, List.map_fst_zip]

theorem FilesEq.flatMap {α} (F G : α → List File) (l : List α) (h : ∀ x ∈ l, FilesEq (F x) (G x)) :
    FilesEq (l.flatMap F) (l.flatMap G) := by
  induction l with
  | nil => trivial
  | cons x t ih =>
    simp only [List.flatMap_cons]
    exact FilesEq.append (h x (by simp)) (ih fun y hy => h y (List.mem_cons_of_mem _ hy))

/-! ## filter: two filters that agree on the original elements of an image -/

theorem filterSpec_congr (f f' : String → Grid Tok → Grid Tok) (sel : Option (List String)) (l : Laser)
    (h : ∀ n ∈ l.elements, ∀ i j, (f' n (l.field n)).get i j = (f n (l.field n)).get i j) :
    LaserEq (filterSpec f' sel l) (filterSpec f sel l) := by
  refine ⟨rfl, rfl, rfl, rfl, rfl, ?_⟩
  intro i j _ _
  funext n
  rw [filterSpec_get, filterSpec_get]
  by_cases hs : selected sel l n = true
  · have hm : n ∈ l.elements := by
      simp only [selected, Bool.and_eq_true, List.contains_iff_mem] at hs
      exact hs.1
    simp only [hs, if_true]
    exact h n hm i j
  · simp [hs]

theorem save_spec' (l : Laser) (p : Path) (h : lower p.suffix ∈ validFormats) :
    save l p = .ok (specFiles (lower p.suffix) l p) := by
  simp only [validFormats, List.mem_cons, List.not_mem_nil, or_false] at h
  rcases h with h | h | h <;> simp [save, specFiles, h, Path.withStem] <;> rfl

/-- saving two images that are the same leaves the same files (or fails alike) -/
theorem save_congr {l l' : Laser} (h : LaserEq l l') (p : Path) :
    match save l p, save l' p with
    | .ok fs, .ok fs' => FilesEq fs fs'
    | .error _, .error _ => True
    | _, _ => False := by
  by_cases hv : lower p.suffix ∈ validFormats
  · rw [save_spec' l p hv, save_spec' l' p hv]
    exact specFiles_congr _ p h
  · rw [save_bad l p hv, save_bad l' p hv]
    trivial

/-! ## filter with storage types -/

/-- the argument checks of `specRun` for a command with `--elements sel` -/
def specBad (a : Args) (sel : Option (List String)) : Bool :=
  a.inputs.isEmpty || a.inputs.any (fun i => !i.present) || !validFormats.contains a.format
    || !(match sel with
      | none => true
      | some els => els.all fun e => a.inputs.any fun i => i.laser.elements.contains e)

theorem specRun_filter (a : Args) (f : Nat → String → Grid Tok → Grid Tok) (sel : Option (List String))
    (hc : a.cmd = .filter f sel) :
    specRun a =
      if specBad a sel then ⟨.error, []⟩
      else
        match specOutputs false (a.inputs.map (·.path)) a.format a.output a.isDir with
        | none => ⟨.error, []⟩
        | some outs =>
          ⟨.ok, (enum ((a.inputs.map (·.laser)).zip outs)).flatMap fun x =>
            specFiles a.format (filterSpec (f x.1) sel x.2.1) x.2.2⟩ := by
  unfold specRun specBad
  simp only [hc, Cmd.requested, Cmd.isStack]
  rfl

/-- the specification of a `filter` run depends on the filter only through what it makes of the
original elements of each input -/
theorem specRun_filter_congr (a : Args) (f f' : Nat → String → Grid Tok → Grid Tok)
    (sel : Option (List String)) (hc : a.cmd = .filter f sel)
    (h : ∀ k (hk : k < a.inputs.length),
      LaserEq (filterSpec (f' k) sel a.inputs[k].laser) (filterSpec (f k) sel a.inputs[k].laser)) :
    RunEq (specRun { a with cmd := .filter f' sel }) (specRun a) := by
  rw [specRun_filter a f sel hc, specRun_filter { a with cmd := .filter f' sel } f' sel rfl]
  have e : specBad { a with cmd := .filter f' sel } sel = specBad a sel := rfl
  rw [e]
  simp only
  split
  · exact RunEq.refl _
  · split
    · exact RunEq.refl _
    · rename_i outs _
      refine ⟨rfl, FilesEq.flatMap _ _ _ ?_⟩
      intro x hx
      obtain ⟨hk, hx2⟩ := mem_enum_getElem _ x hx
      obtain ⟨k, l, out⟩ := x
      simp only at hk hx2 ⊢
      have hk' : k < a.inputs.length := by
        simp only [List.length_zip, List.length_map] at hk; omega
      have hl : l = a.inputs[k].laser := by
        have := congrArg Prod.fst hx2
        simp only [List.getElem_zip, List.getElem_map] at this
        exact this.symm
      subst hl
      exact specFiles_congr _ out (h k hk')

/-! ## the inputs of a run with their storage types -/

/-- input `k` of a run paired with its field types -/
def typedInputs (ls : List Laser) (ty : Nat → String → DType) : List (Laser × (String → DType)) :=
  (enum ls).map fun x => (x.2, ty x.1)

theorem typedInputs_fst (ls : List Laser) (ty : Nat → String → DType) :
    (typedInputs ls ty).map (·.1) = ls := by
  simp only [typedInputs, List.map_map]
  exact snd_enum ls

theorem typedInputs_data (ls : List Laser) (ty : Nat → String → DType) :
    ((typedInputs ls ty).map fun l => (l.1.data, l.2)).map (·.1) = ls.map (·.data) := by
  conv_rhs => rw [← typedInputs_fst ls ty]
  simp only [List.map_map]
  rfl

theorem typedInputs_types (ls : List Laser) (ty : Nat → String → DType) (n : String) :
    ((typedInputs ls ty).map fun l => (l.1.data, l.2)).map (·.2 n) = (List.range ls.length).map fun k => ty k n := by
  rw [← enum_map_fst ls]
  simp only [typedInputs, List.map_map]
  rfl

theorem typedInputs_mem (ls : List Laser) (ty : Nat → String → DType) (d : Grid Px × (String → DType))
    (hd : d ∈ (typedInputs ls ty).map fun l => (l.1.data, l.2)) :
    ∃ k, ∃ hk : k < ls.length, d = (ls[k].data, ty k) := by
  simp only [typedInputs, List.map_map, List.mem_map] at hd
  obtain ⟨x, hx, rfl⟩ := hd
  obtain ⟨hk, he⟩ := mem_enum_getElem ls x hx
  exact ⟨x.1, hk, by simp [he]⟩

theorem typedInputs_cons (l0 : Laser) (t : List Laser) (ty : Nat → String → DType) :
    typedInputs (l0 :: t) ty = (l0, ty 0) :: typedInputs t (fun k => ty (k + 1)) := by
  simp only [typedInputs, enum, List.length_cons, List.range_succ_eq_map, List.zip_cons_cons, List.map_cons,
    List.zip_map_left, List.map_map]
  congr 1

/-! ## objects -/

theorem stepObj_convert (cfg : Option Cfg) (els : Option (List String)) (k : Nat) (l : Laser) :
    (stepObj (.convert cfg els) k l).2 = convertStep cfg els l := by
  cases cfg <;> cases els <;> simp [stepObj, convertStep]

theorem stepObj_filter (f : Nat → String → Grid Tok → Grid Tok) (sel : Option (List String)) (k : Nat) (l : Laser) :
    (stepObj (.filter f sel) k l).2 = some (filterStep (f k) sel l) := rfl

/-- the loop on objects is the loop on values when no two work items share an object -/
theorem loopRef_fresh (cmd : Cmd) (work : List (Nat × Nat × Path)) (ws : List (Nat × Laser × Path))
    (heap : List Laser) (acc : List File)
    (hnd : (work.map (·.2.1)).Nodup) (hlen : work.length = ws.length)
    (hw : ∀ i (h1 : i < work.length) (h2 : i < ws.length),
      ws[i].1 = work[i].1 ∧ ws[i].2.2 = work[i].2.2 ∧ heap[work[i].2.1]? = some ws[i].2.1) :
    loopRef cmd work heap acc = loop cmd ws acc := by
  induction work generalizing ws heap acc with
  | nil =>
    cases ws with
    | nil => simp [loopRef, loop]
    | cons _ _ => simp at hlen
  | cons x rest ih =>
    cases ws with
    | nil => simp at hlen
    | cons y ws' =>
      obtain ⟨k, r, out⟩ := x
      obtain ⟨k', l, out'⟩ := y
      obtain ⟨hk, ho, hh⟩ := hw 0 (by simp) (by simp)
      simp only [List.getElem_cons_zero] at hk ho hh
      subst hk ho
      have hnd' : r ∉ rest.map (·.2.1) ∧ (rest.map (·.2.1)).Nodup := by
        have := hnd
        rw [List.map_cons, List.nodup_cons] at this
        exact this
      have hlen' : rest.length = ws'.length := by simpa using hlen
      have hrest : ∀ (heap' : List Laser), (∀ r', r' ≠ r → heap'[r']? = heap[r']?) →
          ∀ i (h1 : i < rest.length) (h2 : i < ws'.length),
            ws'[i].1 = rest[i].1 ∧ ws'[i].2.2 = rest[i].2.2 ∧ heap'[rest[i].2.1]? = some ws'[i].2.1 := by
        intro heap' hheap i h1 h2
        obtain ⟨a1, a2, a3⟩ := hw (i + 1) (by simp; omega) (by simp; omega)
        simp only [List.getElem_cons_succ] at a1 a2 a3
        refine ⟨a1, a2, ?_⟩
        rw [hheap _ ?_]
        · exact a3
        · intro he
          apply hnd'.1
          rw [← he]
          exact List.mem_map.mpr ⟨rest[i], List.getElem_mem h1, rfl⟩
      have hset : ∀ obj : Laser, ∀ r', r' ≠ r → (heap.set r obj)[r']? = heap[r']? := by
        intro obj r' hne
        rw [List.getElem?_set_ne (Ne.symm hne)]
      cases cmd with
      | stack o pad => simp [loopRef, loop]
      | convert cfg els =>
        simp only [loopRef, hh, loop]
        have hs := stepObj_convert cfg els k' l
        cases hc : convertStep cfg els l with
        | none =>
          rw [hc] at hs
          simp only [hs]
          exact ih ws' _ acc hnd'.2 hlen' (hrest _ (hset _))
        | some l' =>
          rw [hc] at hs
          simp only [hs]
          cases hsv : save l' out' with
          | ok fs => simp only; exact ih ws' _ _ hnd'.2 hlen' (hrest _ (hset _))
          | error e => rfl
      | filter f sel =>
        simp only [loopRef, hh, loop, stepObj]
        cases hsv : save (filterStep (f k') sel l) out' with
        | ok fs => simp only; exact ih ws' _ _ hnd'.2 hlen' (hrest _ (hset _))
        | error e => rfl

/-- with one fresh object per argument the work list on objects matches the work list on values -/
theorem fresh_work (ls : List Laser) (outs : List Path) (cmd : Cmd) (acc : List File) :
    loopRef cmd (enum ((freshRefs ls.length).zip outs)) ls acc = loop cmd (enum (ls.zip outs)) acc := by
  have hl1 : (enum ((freshRefs ls.length).zip outs)).length = (enum (ls.zip outs)).length := by
    simp [enum, freshRefs, List.length_zip]
  have hget : ∀ i (h1 : i < (enum ((freshRefs ls.length).zip outs)).length),
      (enum ((freshRefs ls.length).zip outs))[i] =
        (i, i, outs[i]'(by simp [enum, freshRefs, List.length_zip] at h1; omega)) := by
    intro i h1
    simp [enum, freshRefs]
  apply loopRef_fresh
  · have : (enum ((freshRefs ls.length).zip outs)).map (·.2.1) =
        List.range (enum ((freshRefs ls.length).zip outs)).length := by
      apply List.ext_getElem
      · simp
      · intro i h1 h2
        have h1' : i < (enum ((freshRefs ls.length).zip outs)).length := by simpa using h1
        simp only [List.getElem_map, hget i h1', List.getElem_range]
    rw [this]
    exact List.nodup_range
  · exact hl1
  · intro i h1 h2
    have hi : i < ls.length ∧ i < outs.length := by
      simp [enum, freshRefs, List.length_zip] at h1; omega
    rw [hget i h1]
    simp [enum, hi.1]

/-! ## what is on disk afterwards -/

theorem FilesEq.any_path {fs gs : List File} (h : FilesEq fs gs) (p : Path) :
    fs.any (fun g => g.path == p) = gs.any (fun g => g.path == p) := by
  have := FilesEq.paths h
  have e1 : fs.any (fun g => g.path == p) = (fs.map (·.path)).any (· == p) := by
    rw [List.any_map]; rfl
  have e2 : gs.any (fun g => g.path == p) = (gs.map (·.path)).any (· == p) := by
    rw [List.any_map]; rfl
  rw [e1, e2, this]

theorem finalFiles_congr {fs gs : List File} (h : FilesEq fs gs) :
    FilesEq (finalFiles fs) (finalFiles gs) := by
  induction fs generalizing gs with
  | nil =>
    cases gs with
    | nil => trivial
    | cons g t => exact h.elim
  | cons f t ih =>
    cases gs with
    | nil => exact h.elim
    | cons g t' =>
      obtain ⟨hfg, ht⟩ := h
      simp only [finalFiles]
      rw [FilesEq.any_path ht f.path, hfg.1]
      split
      · exact ih ht
      · exact ⟨hfg, ih ht⟩

theorem finalFiles_sub (fs : List File) : ∀ f ∈ finalFiles fs, f ∈ fs := by
  induction fs with
  | nil => simp [finalFiles]
  | cons f t ih =>
    intro x hx
    simp only [finalFiles] at hx
    split at hx
    · exact List.mem_cons_of_mem _ (ih x hx)
    · rcases List.mem_cons.mp hx with rfl | hx'
      · simp
      · exact List.mem_cons_of_mem _ (ih x hx')

theorem finalFiles_nodup (fs : List File) : ((finalFiles fs).map (·.path)).Nodup := by
  induction fs with
  | nil => simp [finalFiles]
  | cons f t ih =>
    simp only [finalFiles]
    split
    · exact ih
    · rename_i hno
      simp only [List.map_cons, List.nodup_cons]
      refine ⟨?_, ih⟩
      intro hm
      obtain ⟨g, hg, hp⟩ := List.mem_map.mp hm
      apply hno
      simp only [List.any_eq_true, beq_iff_eq]
      exact ⟨g, finalFiles_sub t g hg, hp⟩

theorem finalFiles_paths (fs : List File) (p : Path) :
    p ∈ (finalFiles fs).map (·.path) ↔ p ∈ fs.map (·.path) := by
  induction fs with
  | nil => simp [finalFiles]
  | cons f t ih =>
    simp only [finalFiles]
    split
    · rename_i hany
      simp only [List.map_cons, List.mem_cons]
      rw [ih]
      constructor
      · exact Or.inr
      · rintro (rfl | h)
        · simp only [List.any_eq_true, beq_iff_eq] at hany
          obtain ⟨g, hg, hp⟩ := hany
          exact List.mem_map.mpr ⟨g, hg, hp⟩
        · exact h
    · simp only [List.map_cons, List.mem_cons, ih]

theorem lastAt_cons (f : File) (t : List File) (p : Path) :
    lastAt (f :: t) p = match lastAt t p with
      | some c => some c
      | none => if f.path == p then some f.content else none := by
  simp only [lastAt, List.reverse_cons, List.find?_append]
  cases h : t.reverse.find? (fun g => g.path == p) with
  | some g => simp
  | none =>
    simp only [Option.none_or, Option.map_none]
    by_cases hp : (f.path == p) = true
    · simp [List.find?, hp]
    · have : (f.path == p) = false := by simpa using hp
      simp [List.find?, this]

theorem lastAt_none_iff (t : List File) (p : Path) :
    lastAt t p = none ↔ t.any (fun g => g.path == p) = false := by
  simp only [lastAt, Option.map_eq_none_iff, List.find?_eq_none, List.mem_reverse]
  rw [Bool.eq_false_iff]
  simp only [ne_eq, List.any_eq_true, not_exists, not_and]

theorem finalFiles_last (fs : List File) (f : File) (hf : f ∈ finalFiles fs) :
    lastAt fs f.path = some f.content := by
  induction fs with
  | nil => simp [finalFiles] at hf
  | cons g t ih =>
    rw [lastAt_cons]
    simp only [finalFiles] at hf
    split at hf
    · rw [ih hf]
    · rename_i hno
      rcases List.mem_cons.mp hf with rfl | hf'
      · have : lastAt t f.path = none := (lastAt_none_iff t f.path).mpr (by simpa using hno)
        rw [this]
        simp
      · rw [ih hf']

end Pew.Cli
