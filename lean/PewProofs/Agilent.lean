import PewModel.Agilent
import PewProofs.SortAgilent
import Mathlib.Data.List.Basic
import Mathlib.Data.List.TakeWhile
import Mathlib.Tactic.Ring
import Mathlib.Tactic.Linarith
import Mathlib.Tactic.NormNum
import Mathlib.Tactic.Positivity
import Mathlib.Tactic.NormNum.Basic
import Mathlib.Algebra.Order.Field.Rat

/-! Helper lemmas for C02 (`PewModel/Agilent.lean`). -/
namespace Pew.Agilent

/-! ## keep-last de-duplication -/
section keepLast
variable {α : Type} [DecidableEq α]

theorem appendLast_eq (acc : List α) (p : α) : appendLast acc p = acc.erase p ++ [p] := by
  unfold appendLast
  split
  · rfl
  · rw [List.erase_of_not_mem ‹_›]

theorem keepLast_cons (x : α) (xs : List α) :
    keepLast (x :: xs) = if x ∈ xs then keepLast xs else x :: keepLast xs := by rw [keepLast]

theorem mem_keepLast (l : List α) (x : α) : x ∈ keepLast l ↔ x ∈ l := by
  induction l with
  | nil => simp [keepLast]
  | cons y ys ih =>
    unfold keepLast
    split
    · rw [ih]; constructor
      · exact fun h => List.mem_cons_of_mem _ h
      · intro h; rcases List.mem_cons.mp h with rfl | h
        · assumption
        · exact h
    · simp [ih]

theorem keepLast_nodup (l : List α) : (keepLast l).Nodup := by
  induction l with
  | nil => simp [keepLast]
  | cons y ys ih =>
    unfold keepLast
    split
    · exact ih
    · exact List.nodup_cons.mpr ⟨by rwa [mem_keepLast], ih⟩

theorem keepLast_of_nodup (l : List α) (h : l.Nodup) : keepLast l = l := by
  induction l with
  | nil => rfl
  | cons y ys ih =>
    have := List.nodup_cons.mp h
    unfold keepLast
    rw [if_neg this.1, ih this.2]

/-- the remove-then-append loop: what was there and does not come again stays in place, followed by
the new names, each at its last occurrence -/
theorem foldl_appendLast (l acc : List α) (h : acc.Nodup) :
    l.foldl appendLast acc = acc.filter (fun a => decide (a ∉ l)) ++ keepLast l := by
  induction l generalizing acc with
  | nil => simp [keepLast]
  | cons x xs ih =>
    have hn : (acc.erase x ++ [x]).Nodup := by
      rw [List.nodup_append]
      refine ⟨h.erase x, by simp, ?_⟩
      intro a ha b hb
      simp only [List.mem_singleton] at hb
      subst hb
      intro e; subst e
      exact (List.Nodup.not_mem_erase h) ha
    rw [List.foldl_cons, appendLast_eq, ih _ hn, List.filter_append, h.erase_eq_filter, List.filter_filter]
    have e1 : List.filter (fun a => decide (a ∉ xs) && (a != x)) acc
        = List.filter (fun a => decide (a ∉ x :: xs)) acc := by
      apply List.filter_congr
      intro a _
      by_cases hax : a = x <;> simp [hax]
    rw [e1, List.append_assoc]
    congr 1
    rw [keepLast_cons]
    by_cases hx : x ∈ xs
    · simp [hx]
    · simp [hx]

end keepLast

/-! ## `rfind` and `basename` -/

theorem rfind_ge (c : Char) (s : Name) : -1 ≤ rfind c s := by
  induction s with
  | nil => simp [rfind]
  | cons x xs ih => simp only [rfind]; split <;> [omega; (split <;> omega)]

/-- `rfind` is `-1` when the character does not occur, otherwise the position after which it does not occur again -/
theorem rfind_spec (c : Char) (s : Name) :
    (rfind c s = -1 ∧ c ∉ s) ∨
    (∃ pre post, s = pre ++ c :: post ∧ c ∉ post ∧ rfind c s = (pre.length : Int)) := by
  induction s with
  | nil => left; simp [rfind]
  | cons x xs ih =>
    simp only [rfind]
    rcases ih with ⟨h1, h2⟩ | ⟨pre, post, h1, h2, h3⟩
    · rw [h1]
      by_cases hx : x = c
      · right; refine ⟨[], xs, by simp [hx], h2, by simp [hx]⟩
      · left; refine ⟨by simp [hx], ?_⟩
        simp only [List.mem_cons, not_or]; exact ⟨fun e => hx e.symm, h2⟩
    · right
      refine ⟨x :: pre, post, by simp [h1], h2, ?_⟩
      rw [h3, if_pos (by omega)]; simp

theorem drop_of_split (pre post : Name) (c : Char) : (pre ++ c :: post).drop (pre.length + 1) = post := by
  induction pre with
  | nil => simp
  | cons x xs ih => simp

theorem basenameSpec_eq_of_split (pre post : Name) (c : Char) (hc : isSep c = true)
    (hpost : ∀ d ∈ post, isSep d = false) : basenameSpec (pre ++ c :: post) = post := by
  unfold basenameSpec
  rw [List.reverse_append, List.reverse_cons, List.append_assoc, List.takeWhile_append_of_pos]
  · simp [hc]
  · intro d hd
    have := hpost d (List.mem_reverse.mp hd)
    simp [this]

theorem basenameSpec_eq_self (s : Name) (h : ∀ d ∈ s, isSep d = false) : basenameSpec s = s := by
  unfold basenameSpec
  rw [List.takeWhile_eq_self_iff.mpr]
  · simp
  · intro d hd
    have := h d (List.mem_reverse.mp hd)
    simp [this]

theorem isSep_iff (c : Char) : isSep c = true ↔ c = '\\' ∨ c = '/' := by
  simp [isSep]

theorem not_sep_of (post : Name) (h1 : '\\' ∉ post) (h2 : '/' ∉ post) : ∀ d ∈ post, isSep d = false := by
  intro d hd
  by_contra hne
  have : isSep d = true := by simpa using hne
  rcases (isSep_iff d).mp this with rfl | rfl
  · exact h1 hd
  · exact h2 hd

/-- the slicing mechanism returns the longest separator-free suffix -/
theorem basename_eq_spec (s : Name) : basename s = basenameSpec s := by
  unfold basename
  rcases rfind_spec '\\' s with ⟨a1, a2⟩ | ⟨p1, q1, a1, a2, a3⟩ <;>
  rcases rfind_spec '/' s with ⟨b1, b2⟩ | ⟨p2, q2, b1, b2, b3⟩
  · rw [a1, b1]; simp
    exact (basenameSpec_eq_self s (not_sep_of s a2 b2)).symm
  · rw [a1, b3]
    have : (max (-1 : Int) (p2.length : Int) + 1).toNat = p2.length + 1 := by omega
    rw [this]
    have hq : '\\' ∉ q2 := fun h => a2 (by rw [b1]; simp [h])
    conv_lhs => rw [b1]
    conv_rhs => rw [b1]
    rw [drop_of_split, basenameSpec_eq_of_split _ _ _ (by simp [isSep]) (not_sep_of q2 hq b2)]
  · rw [a3, b1]
    have : (max (p1.length : Int) (-1 : Int) + 1).toNat = p1.length + 1 := by omega
    rw [this]
    have hq : '/' ∉ q1 := fun h => b2 (by rw [a1]; simp [h])
    conv_lhs => rw [a1]
    conv_rhs => rw [a1]
    rw [drop_of_split, basenameSpec_eq_of_split _ _ _ (by simp [isSep]) (not_sep_of q1 a2 hq)]
  · rw [a3, b3]
    rcases Nat.lt_trichotomy p1.length p2.length with hlt | heq | hgt
    · have : (max (p1.length : Int) (p2.length : Int) + 1).toNat = p2.length + 1 := by omega
      rw [this]
      -- q2 is a suffix of q1
      have hq : '\\' ∉ q2 := by
        intro h
        apply a2
        have e : q1 = (p1 ++ '\\' :: q1).drop (p1.length + 1) := (drop_of_split _ _ _).symm
        have e2 : q2 = (p2 ++ '/' :: q2).drop (p2.length + 1) := (drop_of_split _ _ _).symm
        rw [← a1] at e; rw [← b1] at e2
        rw [e]
        have : q2 = (s.drop (p1.length + 1)).drop (p2.length - p1.length) := by
          rw [List.drop_drop]; rw [e2]; congr 1; omega
        rw [this] at h
        exact List.mem_of_mem_drop h
      conv_lhs => rw [b1]
      conv_rhs => rw [b1]
      rw [drop_of_split, basenameSpec_eq_of_split _ _ _ (by simp [isSep]) (not_sep_of q2 hq b2)]
    · exfalso
      have h1 : s[p1.length]? = some '\\' := by rw [a1]; simp
      have h2 : s[p1.length]? = some '/' := by rw [heq, b1]; simp
      rw [h1] at h2; simp at h2
    · have : (max (p1.length : Int) (p2.length : Int) + 1).toNat = p1.length + 1 := by omega
      rw [this]
      have hq : '/' ∉ q1 := by
        intro h
        apply b2
        have e : q1 = (p1 ++ '\\' :: q1).drop (p1.length + 1) := (drop_of_split _ _ _).symm
        have e2 : q2 = (p2 ++ '/' :: q2).drop (p2.length + 1) := (drop_of_split _ _ _).symm
        rw [← a1] at e; rw [← b1] at e2
        rw [e2]
        have : q1 = (s.drop (p2.length + 1)).drop (p1.length - p2.length) := by
          rw [List.drop_drop]; rw [e]; congr 1; omega
        rw [this] at h
        exact List.mem_of_mem_drop h
      conv_lhs => rw [a1]
      conv_rhs => rw [a1]
      rw [drop_of_split, basenameSpec_eq_of_split _ _ _ (by simp [isSep]) (not_sep_of q1 a2 hq)]

/-! ## the two log readers -/

/-- names the XML loop appends, in log order (mechanism `basename`) -/
def xmlNames (log : List LogEntry) : List Name :=
  log.filterMap (fun e => if e.result = pass then e.file.map basename else none)

theorem xmlNames_eq_passNames (log : List LogEntry) : xmlNames log = passNames log := by
  unfold xmlNames passNames
  congr 1
  funext e
  split
  · cases e.file <;> simp [basename_eq_spec]
  · rfl

theorem foldl_xmlStep (log : List LogEntry) (acc : List Name) :
    log.foldl xmlStep acc = (xmlNames log).foldl appendLast acc := by
  induction log generalizing acc with
  | nil => rfl
  | cons e es ih =>
    rw [List.foldl_cons, ih]
    unfold xmlNames
    by_cases hp : e.result = pass
    · cases hf : e.file with
      | none => simp [xmlStep, hp, hf]
      | some f => simp [xmlStep, hp, hf]
    · simp [xmlStep, hp]

theorem batchXml_eq (log : List LogEntry) : batchXml log = keepLast (xmlNames log) := by
  unfold batchXml
  rw [foldl_xmlStep, foldl_appendLast _ _ List.nodup_nil]
  simp

/-- names the CSV loop appends -/
def csvNames (rows : List CsvRow) : List Name :=
  rows.filterMap (fun r => if r.result.take 4 = pass then some (basename (r.file.take 264)) else none)

theorem foldl_csvStep (rows : List CsvRow) (acc : List Name) :
    rows.foldl csvStep acc = (csvNames rows).foldl appendLast acc := by
  induction rows generalizing acc with
  | nil => rfl
  | cons r rs ih =>
    rw [List.foldl_cons, ih]
    unfold csvNames
    by_cases hp : r.result.take 4 = pass
    · simp [csvStep, hp]
    · simp [csvStep, hp]

theorem batchCsv_eq (rows : List CsvRow) : batchCsv rows = keepLast (csvNames rows) := by
  unfold batchCsv
  rw [foldl_csvStep, foldl_appendLast _ _ List.nodup_nil]
  simp

theorem csvNames_eq_xmlNames (log : List LogEntry) (rows : List CsvRow)
    (hsame : List.Forall₂ (fun e r => e.file = some r.file ∧ r.result = e.result) log rows)
    (hres : ∀ e ∈ log, e.result.take 4 = pass → e.result = pass)
    (hlen : ∀ r ∈ rows, r.file.length ≤ 264) :
    csvNames rows = xmlNames log := by
  induction hsame with
  | nil => rfl
  | @cons e r es rs h _ ih =>
    have ih' := ih (fun e he => hres e (List.mem_cons_of_mem _ he)) (fun r hr => hlen r (List.mem_cons_of_mem _ hr))
    have hl : r.file.take 264 = r.file := List.take_of_length_le (hlen r (by simp))
    unfold csvNames xmlNames at *
    rw [List.filterMap_cons, List.filterMap_cons, ih', h.1, h.2, hl]
    by_cases hp : e.result = pass
    · have h4 : List.take 4 pass = pass := rfl
      simp [hp, h4]
    · have : ¬ e.result.take 4 = pass := fun h4 => hp (hres e (by simp) h4)
      simp [hp, this]

theorem csvNames_eq_spec (rows : List CsvRow)
    (h : ∀ r ∈ rows, (r.result.take 4 = pass → r.result = pass) ∧ r.file.length ≤ 264) :
    csvNames rows = (rows.filter (fun r => r.result = pass)).map (fun r => basenameSpec r.file) := by
  induction rows with
  | nil => rfl
  | cons r rs ih =>
    have hr := h r (by simp)
    have ih' := ih (fun x hx => h x (by simp [hx]))
    unfold csvNames at *
    rw [List.filterMap_cons, ih', List.filter_cons]
    have hl : r.file.take 264 = r.file := List.take_of_length_le hr.2
    by_cases hp : r.result = pass
    · have h4 : List.take 4 pass = pass := rfl
      simp [hp, h4, hl, basename_eq_spec]
    · have : ¬ r.result.take 4 = pass := fun h4 => hp (hr.1 h4)
      simp [hp, this]

/-! ## method file vs log -/

theorem sortByInt_of_perm_strict (samples planned : List Sample) (hperm : samples.Perm planned)
    (hinc : planned.Pairwise (fun a b => sampleKey a < sampleKey b)) :
    sortByInt sampleKey samples = planned :=
  Pew.SortAgilent.sortKey_of_perm_strict sampleKey samples planned hperm hinc

theorem xmlNames_of_allPass (log : List LogEntry) (h : ∀ e ∈ log, e.result = pass) :
    xmlNames log = (log.map logName).filterMap id := by
  induction log with
  | nil => rfl
  | cons e es ih =>
    have := ih (fun e he => h e (List.mem_cons_of_mem _ he))
    unfold xmlNames at *
    rw [List.filterMap_cons, this, List.map_cons, List.filterMap_cons]
    simp [h e (by simp), logName]

theorem nodup_filterMap_id {β : Type} (l : List (Option β)) (h : l.Nodup) : (l.filterMap id).Nodup := by
  induction l with
  | nil => simp
  | cons x xs ih =>
    have hx := List.nodup_cons.mp h
    cases x with
    | none => simpa using ih hx.2
    | some v =>
      rw [List.filterMap_cons]
      refine List.nodup_cons.mpr ⟨?_, ih hx.2⟩
      intro hm
      rw [List.mem_filterMap] at hm
      obtain ⟨a, ha, e⟩ := hm
      have : a = some v := e
      subst this
      exact hx.1 ha

/-! ## directory scan -/

theorem dataDirs_perm (l₁ l₂ : List Entry) (hp : l₁.Perm l₂) : (dataDirs l₁).Perm (dataDirs l₂) :=
  (hp.filter _).map _

theorem insertByNum_perm (x : Name) (l : List Name) : (insertByNum x l).Perm (x :: l) := by
  induction l with
  | nil => simp [insertByNum]
  | cons y ys ih =>
    unfold insertByNum
    split
    · exact List.Perm.refl _
    · exact (List.Perm.cons y ih).trans (List.Perm.swap x y ys)

theorem insertByNum_sorted (x : Name) (l : List Name)
    (h : l.Pairwise (fun a b => digitsVal a ≤ digitsVal b)) :
    (insertByNum x l).Pairwise (fun a b => digitsVal a ≤ digitsVal b) := by
  induction l with
  | nil => simp [insertByNum]
  | cons y ys ih =>
    have hy := List.pairwise_cons.mp h
    unfold insertByNum
    split
    · rename_i hlt
      refine List.pairwise_cons.mpr ⟨?_, h⟩
      intro b hb
      rcases List.mem_cons.mp hb with rfl | hb
      · omega
      · have := hy.1 b hb; omega
    · rename_i hge
      refine List.pairwise_cons.mpr ⟨?_, ih hy.2⟩
      intro b hb
      have hb' := (insertByNum_perm x ys).mem_iff.mp hb
      rcases List.mem_cons.mp hb' with rfl | hb'
      · omega
      · exact hy.1 b hb'

theorem foldl_insert_perm_sorted (l acc : List Name)
    (h : acc.Pairwise (fun a b => digitsVal a ≤ digitsVal b)) :
    (l.foldl (fun acc x => insertByNum x acc) acc).Perm (l ++ acc) ∧
    (l.foldl (fun acc x => insertByNum x acc) acc).Pairwise (fun a b => digitsVal a ≤ digitsVal b) := by
  induction l generalizing acc with
  | nil => exact ⟨by simp, h⟩
  | cons x xs ih =>
    have := ih (insertByNum x acc) (insertByNum_sorted x acc h)
    refine ⟨?_, this.2⟩
    rw [List.foldl_cons]
    refine this.1.trans ?_
    refine ((insertByNum_perm x acc).append_left xs).trans ?_
    simp

/-! ## flattened profile index (from `design/spikes/FlattenIndex.lean`) -/

theorem flatten_index {α : Type} (M : List (List α)) (k : Nat)
    (hk : ∀ row ∈ M, row.length = k) (r j : Nat) (hr : r < M.length) (hj : j < k) :
    M.flatten[r * k + j]? = (M[r]?).bind (fun row => row[j]?) := by
  induction M generalizing r with
  | nil => simp at hr
  | cons row rest ih =>
    have hrow : row.length = k := hk row (by simp)
    cases r with
    | zero =>
      simp only [List.flatten_cons, Nat.zero_mul, Nat.zero_add, List.getElem?_cons_zero, Option.bind_some]
      rw [List.getElem?_append_left (by omega)]
    | succ r' =>
      have hr' : r' < rest.length := by simpa using hr
      have := ih (fun x hx => hk x (by simp [hx])) r' hr'
      simp only [List.flatten_cons, List.getElem?_cons_succ]
      rw [List.getElem?_append_right (by rw [hrow, Nat.succ_mul]; omega)]
      have e : (r' + 1) * k + j - row.length = r' * k + j := by rw [hrow, Nat.succ_mul]; omega
      rw [e, this]

/-- the clip in `binary_read_datafile` is inactive -/
theorem clip_inactive (R k r j : Nat) (hr : r < R) (hj : j < k) : r * k + j ≤ R * k - 1 := by
  have h1 : r * k + j < (r + 1) * k := by rw [Nat.succ_mul]; omega
  have h2 : (r + 1) * k ≤ R * k := Nat.mul_le_mul_right k hr
  omega

/-- `(SpectrumOffset - 68) // ByteCount` recovers the record number -/
theorem offset_div (r bc : Nat) (hbc : 0 < bc) :
    (((68 + r * bc : Nat) : Int) - profileHeader) / (bc : Int) = (r : Int) := by
  unfold profileHeader
  have : (((68 + r * bc : Nat) : Int) - 68) = (r : Int) * (bc : Int) := by push_cast; ring
  rw [this, Int.mul_ediv_cancel _ (by omega)]

theorem decodeMass_getElem {α : Type} {R k bc : Nat} {scans : List ScanRec} {profile : List (List α)}
    (L : Layout R k bc scans profile) (r j : Nat) (hr : r < R) (hj : j < k) :
    (decodeMass k scans profile (j + 1))[r]? = some ((profile[r]?).bind (fun row => row[j]?)) := by
  unfold decodeMass
  have hr' : r < scans.length := by rw [L.nscans]; exact hr
  rw [List.getElem?_map, List.getElem?_eq_getElem hr']
  simp only [Option.map_some]
  have ho := L.offs r hr'
  rw [ho.1, ho.2, offset_div r bc L.pos, L.nprofile]
  have hc := clip_inactive R k r j hr hj
  have hidx : min ((r : Int) * (k : Int) + (((j + 1 : Nat) : Int) - 1)) (((R * k : Nat) : Int) - 1)
      = ((r * k + j : Nat) : Int) := by
    push_cast
    have h1 : (r : Int) * k + j ≤ (R : Int) * k - 1 := by
      have : ((r * k + j : Nat) : Int) ≤ ((R * k - 1 : Nat) : Int) := by exact_mod_cast hc
      have hpos : 1 ≤ R * k := by
        have : 0 < R * k := Nat.mul_pos (by omega) (by omega)
        omega
      push_cast [Nat.cast_sub hpos] at this
      linarith
    rw [min_eq_left (by linarith)]
    ring
  rw [hidx]
  unfold pyIndex
  rw [if_pos (by positivity)]
  simp only [Int.toNat_natCast]
  unfold flat
  rw [flatten_index profile k L.width r j (by rw [L.nprofile]; exact hr) hj]

theorem profile_getElem_some {α : Type} {R k bc : Nat} {scans : List ScanRec} {profile : List (List α)}
    (L : Layout R k bc scans profile) (r j : Nat) (hr : r < R) (hj : j < k) :
    ∃ v, (profile[r]?).bind (fun row => row[j]?) = some v := by
  have hr' : r < profile.length := by rw [L.nprofile]; exact hr
  have hw := L.width profile[r] (List.getElem_mem hr')
  refine ⟨profile[r][j], ?_⟩
  rw [List.getElem?_eq_getElem hr']
  simp only [Option.bind_some]
  rw [List.getElem?_eq_getElem]

/-! ## stacking -/

theorem allSome_map_of_forall {β γ : Type} (l : List β) (f : β → Option γ) (g : β → γ)
    (h : ∀ x ∈ l, f x = some (g x)) : allSome (l.map f) = some (l.map g) := by
  induction l with
  | nil => rfl
  | cons x xs ih =>
    rw [List.map_cons, h x (by simp)]
    simp only [allSome]
    rw [ih (fun y hy => h y (by simp [hy]))]
    rfl

theorem allSome_map_some {β : Type} (l : List β) : allSome (l.map some) = some l := by
  have := allSome_map_of_forall l some id (fun _ _ => rfl)
  simpa using this

theorem allSome_eq_some {β : Type} (l : List (Option β)) (r : List β) (h : allSome l = some r) :
    l = r.map some := by
  induction l generalizing r with
  | nil => simp [allSome] at h; subst h; rfl
  | cons x xs ih =>
    cases x with
    | none => simp [allSome] at h
    | some v =>
      simp only [allSome] at h
      cases hx : allSome xs with
      | none => rw [hx] at h; simp at h
      | some t =>
        rw [hx] at h
        simp only [Option.map_some, Option.some.injEq] at h
        subst h
        rw [ih t hx]
        rfl

theorem mem_files_of_lines {α : Type} (files : List (DataFile α)) (lines : List Name) (dfs : List (DataFile α))
    (h : allSome (lines.map (findFile files)) = some dfs) : ∀ f ∈ dfs, f ∈ files := by
  intro f hf
  have e := allSome_eq_some _ _ h
  have : some f ∈ lines.map (findFile files) := by rw [e]; exact List.mem_map.mpr ⟨f, hf, rfl⟩
  obtain ⟨n, _, hn⟩ := List.mem_map.mp this
  exact List.mem_of_find?_eq_some hn

theorem column_getElem {α : Type} (profile : List (List α)) (j : Nat)
    (h : ∀ row ∈ profile, ∃ v, row[j]? = some v) (r : Nat) :
    (column profile j)[r]? = (profile[r]?).bind (fun row => row[j]?) := by
  unfold column
  induction profile generalizing r with
  | nil => simp
  | cons row rest ih =>
    obtain ⟨v, hv⟩ := h row (by simp)
    rw [List.filterMap_cons, hv]
    cases r with
    | zero => simp [hv]
    | succ r' =>
      simp only [List.getElem?_cons_succ]
      exact ih (fun x hx => h x (by simp [hx])) r'

theorem column_length {α : Type} (profile : List (List α)) (j : Nat)
    (h : ∀ row ∈ profile, ∃ v, row[j]? = some v) : (column profile j).length = profile.length := by
  unfold column
  induction profile with
  | nil => rfl
  | cons row rest ih =>
    obtain ⟨v, hv⟩ := h row (by simp)
    rw [List.filterMap_cons, hv]
    simp only [List.length_cons]
    rw [ih (fun x hx => h x (by simp [hx]))]

theorem decodeMass_eq_column {α : Type} {R k bc : Nat} {scans : List ScanRec} {profile : List (List α)}
    (L : Layout R k bc scans profile) (j : Nat) (hj : j < k) :
    decodeMass k scans profile (j + 1) = (column profile j).map some := by
  have hcol : ∀ row ∈ profile, ∃ v, row[j]? = some v := by
    intro row hrow
    have := L.width row hrow
    exact ⟨row[j], by rw [List.getElem?_eq_getElem]⟩
  apply List.ext_getElem?
  intro r
  by_cases hr : r < R
  · rw [decodeMass_getElem L r j hr hj, List.getElem?_map, column_getElem profile j hcol r]
    obtain ⟨v, hv⟩ := profile_getElem_some L r j hr hj
    rw [hv]; rfl
  · have h1 : (decodeMass k scans profile (j + 1)).length ≤ r := by
      unfold decodeMass; rw [List.length_map, L.nscans]; omega
    have h2 : ((column profile j).map some).length ≤ r := by
      rw [List.length_map, column_length profile j hcol, L.nprofile]; omega
    rw [List.getElem?_eq_none h1, List.getElem?_eq_none h2]

theorem decode_allSome {α : Type} {R k bc : Nat} {scans : List ScanRec} {profile : List (List α)}
    (L : Layout R k bc scans profile) :
    allSome ((decode (List.range' 1 k) scans profile).map allSome) = some ((List.range k).map (column profile)) := by
  unfold decode
  rw [List.length_range', List.map_map]
  have hr : List.range' 1 k = (List.range k).map (· + 1) := by
    apply List.ext_getElem
    · simp
    · intro i h1 h2; simp; omega
  rw [hr, List.map_map]
  apply allSome_map_of_forall
  intro j hj
  simp only [Function.comp]
  rw [decodeMass_eq_column L j (List.mem_range.mp hj), allSome_map_some]

/-! ## scan time -/

theorem sum_diffs (a : Rat) (l : List Rat) : (diffs (a :: l)).sum = (a :: l).getLastD 0 - a := by
  induction l generalizing a with
  | nil => simp [diffs]
  | cons b rest ih =>
    rw [diffs, List.sum_cons, ih b]
    simp only [List.getLastD_cons]
    ring

theorem length_diffs (l : List Rat) : (diffs l).length = l.length - 1 := by
  induction l with
  | nil => simp [diffs]
  | cons a rest ih =>
    cases rest with
    | nil => simp [diffs]
    | cons b r2 =>
      rw [diffs, List.length_cons, ih]
      simp

theorem sum_flatten_rat (ls : List (List Rat)) : ls.flatten.sum = (ls.map List.sum).sum := by
  induction ls with
  | nil => simp
  | cons x xs ih => simp [ih]

theorem length_flatten_const {β : Type} (ls : List (List β)) (n : Nat) (h : ∀ l ∈ ls, l.length = n) :
    ls.flatten.length = ls.length * n := by
  induction ls with
  | nil => simp
  | cons x xs ih =>
    rw [List.flatten_cons, List.length_append, ih (fun l hl => h l (by simp [hl])), h x (by simp),
      List.length_cons, Nat.succ_mul]
    omega

/-! ## CSV line filter -/

theorem validLines_past (n : Nat) (data foot : List Name)
    (hdata : ∀ l ∈ data, countCommas l = n)
    (hfoot : ∀ l ∈ foot, countCommas l ≠ n ∧ startsWithTime l = false) :
    validLines true n (data ++ foot) = data := by
  induction data with
  | nil =>
    simp only [List.nil_append]
    induction foot with
    | nil => rfl
    | cons f fs ih =>
      have hf := hfoot f (by simp)
      rw [validLines]
      have h1 : (true && countCommas f == n) = false := by simp [hf.1]
      rw [h1, hf.2]
      simp only [Bool.false_eq_true, if_false]
      exact ih (fun l hl => hfoot l (by simp [hl]))
  | cons d ds ih =>
    rw [List.cons_append, validLines]
    have h1 : (true && countCommas d == n) = true := by simp [hdata d (by simp)]
    rw [h1]
    simp only [if_true]
    rw [ih (fun l hl => hdata l (by simp [hl]))]

theorem validLines_pre (pre rest : List Name) (hpre : ∀ l ∈ pre, startsWithTime l = false) :
    validLines false 0 (pre ++ rest) = validLines false 0 rest := by
  induction pre with
  | nil => rfl
  | cons p ps ih =>
    rw [List.cons_append, validLines]
    simp only [Bool.false_and, Bool.false_eq_true, if_false]
    rw [hpre p (by simp)]
    simp only [Bool.false_eq_true, if_false]
    exact ih (fun l hl => hpre l (by simp [hl]))

/-! ## CSV text: fields ↔ lines -/

theorem splitOn_ne_nil (c : Char) (s : Name) : splitOn c s ≠ [] := by
  induction s with
  | nil => simp [splitOn]
  | cons x xs ih =>
    rw [splitOn]
    cases h : splitOn c xs with
    | nil => simp
    | cons f fs => simp only; split <;> simp

theorem splitOn_nocomma (f : Name) (h : ',' ∉ f) : splitOn ',' f = [f] := by
  induction f with
  | nil => rfl
  | cons x xs ih =>
    have hx : x ≠ ',' := fun e => h (by simp [e])
    have hxs : ',' ∉ xs := fun e => h (by simp [e])
    rw [splitOn, ih hxs]
    simp [hx]

theorem splitOn_append_comma (f rest : Name) (h : ',' ∉ f) :
    splitOn ',' (f ++ ',' :: rest) = f :: splitOn ',' rest := by
  induction f with
  | nil =>
    simp only [List.nil_append]
    rw [splitOn]
    cases hr : splitOn ',' rest with
    | nil => exact absurd hr (splitOn_ne_nil _ _)
    | cons g gs => simp
  | cons x xs ih =>
    have hx : x ≠ ',' := fun e => h (by simp [e])
    have hxs : ',' ∉ xs := fun e => h (by simp [e])
    rw [List.cons_append, splitOn, ih hxs]
    simp [hx]

/-- splitting the joined line gives the fields back -/
theorem splitOn_joinFields (fs : List Name) (hne : fs ≠ []) (h : ∀ f ∈ fs, ',' ∉ f) :
    splitOn ',' (joinFields fs) = fs := by
  induction fs with
  | nil => exact absurd rfl hne
  | cons f rest ih =>
    cases rest with
    | nil => simp only [joinFields]; exact splitOn_nocomma f (h f (by simp))
    | cons g gs =>
      simp only [joinFields]
      rw [splitOn_append_comma f _ (h f (by simp)), ih (by simp) (fun x hx => h x (by simp [hx]))]

theorem count_joinFields (fs : List Name) (hne : fs ≠ []) (h : ∀ f ∈ fs, ',' ∉ f) :
    countCommas (joinFields fs) = fs.length - 1 := by
  induction fs with
  | nil => exact absurd rfl hne
  | cons f rest ih =>
    cases rest with
    | nil =>
      simp only [joinFields, countCommas, List.length_singleton]
      exact List.count_eq_zero.mpr (h f (by simp))
    | cons g gs =>
      have := ih (by simp) (fun x hx => h x (by simp [hx]))
      simp only [joinFields, countCommas] at this ⊢
      rw [List.count_append, List.count_cons_self, this, List.count_eq_zero.mpr (h f (by simp))]
      simp

theorem dropWhile_all {p : Char → Bool} (e : Name) (h : ∀ c ∈ e, p c = true) (rest : Name) :
    (e ++ rest).dropWhile p = rest.dropWhile p := by
  induction e with
  | nil => rfl
  | cons x xs ih =>
    rw [List.cons_append, List.dropWhile_cons_of_pos (h x (by simp))]
    exact ih (fun c hc => h c (by simp [hc]))

/-- stripping a line that starts and ends with a non-blank character, followed by an all-blank
terminator residue, removes exactly the residue -/
theorem stripChars_line (p : Char → Bool) (x e : Name) (hx : x ≠ [])
    (hfirst : p (x.head hx) = false) (hlast : p (x.getLast hx) = false) (he : ∀ c ∈ e, p c = true) :
    stripChars p (x ++ e) = x := by
  unfold stripChars
  have h1 : (x ++ e).dropWhile p = x ++ e := by
    cases x with
    | nil => exact absurd rfl hx
    | cons a as =>
      simp only [List.head_cons] at hfirst
      rw [List.cons_append, List.dropWhile_cons_of_neg (by simp [hfirst])]
  rw [h1, List.reverse_append, dropWhile_all e.reverse (fun c hc => he c (List.mem_reverse.mp hc))]
  have h2 : x.reverse.dropWhile p = x.reverse := by
    have hr : x.reverse ≠ [] := by simpa using hx
    have : x.reverse.head hr = x.getLast hx := by simp [List.head_reverse]
    cases hxr : x.reverse with
    | nil => exact absurd hxr hr
    | cons a as =>
      have ha : a = x.getLast hx := by
        rw [← this]; simp [hxr]
      rw [List.dropWhile_cons_of_neg (by rw [ha]; simp [hlast])]
  rw [h2, List.reverse_reverse]

theorem eol_count {c : CsvFile} (W : CsvWF c) : countCommas c.eol = 0 := by
  unfold countCommas
  apply List.count_eq_zero.mpr
  intro h
  have := W.eol_blank ',' h
  simp [lineWs] at this

theorem strip_line {c : CsvFile} (W : CsvWF c) (fs : List Name) (hfs : fs ∈ c.header :: c.rows) :
    stripChars (fun ch => ch = ' ' || ch = '\r' || ch = '\n') (joinFields fs ++ c.eol) = joinFields fs := by
  obtain ⟨hne, h1, h2⟩ := W.ends fs hfs
  exact stripChars_line _ _ _ hne h1 h2 W.eol_blank

theorem fields_line {c : CsvFile} (W : CsvWF c) (fs : List Name) (hfs : fs ∈ c.header :: c.rows) :
    fields (joinFields fs ++ c.eol) = fs := by
  unfold fields
  rw [strip_line W fs hfs]
  have hne : fs ≠ [] := by
    rcases List.mem_cons.mp hfs with rfl | h
    · exact W.header_ne
    · intro e
      have := W.width fs h
      rw [e] at this
      exact W.header_ne (List.length_eq_zero_iff.mp this.symm)
  exact splitOn_joinFields fs hne (W.nocomma fs hfs)

theorem count_line {c : CsvFile} (W : CsvWF c) (fs : List Name) (hfs : fs ∈ c.header :: c.rows) :
    countCommas (joinFields fs ++ c.eol) = c.header.length - 1 := by
  have hne : fs ≠ [] := by
    rcases List.mem_cons.mp hfs with rfl | h
    · exact W.header_ne
    · intro e
      have := W.width fs h
      rw [e] at this
      exact W.header_ne (List.length_eq_zero_iff.mp this.symm)
  have hl : fs.length = c.header.length := by
    rcases List.mem_cons.mp hfs with rfl | h
    · rfl
    · exact W.width fs h
  have h1 := count_joinFields fs hne (W.nocomma fs hfs)
  have h2 := eol_count W
  unfold countCommas at *
  rw [List.count_append, h1, h2, hl]; simp

theorem allSome_parse (r : List Name) (h : ∀ f ∈ r, ∃ q, parseDec f = some q) :
    allSome (r.map parseDec) = some (r.filterMap parseDec) ∧ (r.filterMap parseDec).length = r.length := by
  induction r with
  | nil => exact ⟨rfl, rfl⟩
  | cons f fs ih =>
    obtain ⟨q, hq⟩ := h f (by simp)
    have := ih (fun g hg => h g (by simp [hg]))
    rw [List.map_cons, List.filterMap_cons, hq]
    simp only [allSome, this.1, Option.map_some, List.length_cons, this.2, and_self]

/-! ## mass table -/

def updMass (msms : Bool) (m : MassInfo) (a : XAdd) : MassInfo :=
  { m with mz := a.precursor, mz2 := if msms then some a.product else m.mz2 }

theorem foldl_applyAdd (msms : Bool) (rows : List XAdd) (tbl : List MassInfo) :
    rows.foldl (applyAdd msms) tbl = tbl.map (fun m =>
      match rows.reverse.find? (fun a => a.index = m.id) with
      | none => m
      | some a => updMass msms m a) := by
  induction rows generalizing tbl with
  | nil => simp
  | cons a rs ih =>
    rw [List.foldl_cons, ih, applyAdd, List.map_map]
    apply List.map_congr_left
    intro m _
    simp only [Function.comp, List.reverse_cons, List.find?_append]
    by_cases hm : m.id = a.index
    · simp only [hm, if_true]
      cases hf : List.find? (fun x => decide (x.index = a.index)) rs.reverse with
      | none => simp [updMass]; exact hm.symm
      | some b =>
        simp only [Option.some_or, updMass]
        cases msms <;> simp <;> exact hm.symm
    · simp only [hm, if_false]
      have : (fun x : XAdd => decide (x.index = m.id)) a = false := by
        simp; exact fun e => hm e.symm
      cases hf : List.find? (fun x => decide (x.index = m.id)) rs.reverse with
      | none => simp [this]
      | some b => simp

/-! ## CSV import = specification -/

/-- the table `readCsv` delivers for a well-formed file -/
def tableOf (c : CsvFile) : Table :=
  { names := c.header.map validName, rows := c.rows.map (fun r => r.filterMap parseDec) }

theorem filterMap_parse_getElem (r : List Name) (h : ∀ f ∈ r, ∃ q, parseDec f = some q) (j : Nat) :
    (r.filterMap parseDec)[j]? = (r[j]?).bind parseDec := by
  induction r generalizing j with
  | nil => simp
  | cons f fs ih =>
    obtain ⟨q, hq⟩ := h f (by simp)
    rw [List.filterMap_cons, hq]
    cases j with
    | zero => simp [hq]
    | succ j' =>
      simp only [List.getElem?_cons_succ]
      exact ih (fun g hg => h g (by simp [hg])) j'

theorem csvCols_eq_spec (ncol nscan : Nat) (c : CsvFile) (hparse : ∀ r ∈ c.rows, ∀ f ∈ r, ∃ q, parseDec f = some q)
    (hwidth : ∀ r ∈ c.rows, r.length = ncol) (hrows : c.rows.length = nscan) :
    csvLineSpec ncol nscan (some c) = some (csvCols ncol nscan (some (tableOf c))) := by
  unfold csvLineSpec csvCols transpose tableOf csvRows
  simp only [List.length_map, hrows, if_true]
  apply allSome_map_of_forall
  intro j hj
  rw [List.map_map]
  apply allSome_map_of_forall
  intro r hr
  simp only [Function.comp]
  have hj' : j < r.length := by rw [hwidth r hr]; exact List.mem_range.mp hj
  have h1 := filterMap_parse_getElem r (hparse r hr) j
  obtain ⟨q, hq⟩ := hparse r hr r[j] (List.getElem_mem hj')
  rw [List.getElem?_eq_getElem hj'] at h1 ⊢
  simp only [Option.bind_some] at h1 ⊢
  rw [hq] at h1 ⊢
  simp [List.getD, h1]

theorem filterMap_id_map_option {β γ δ : Type} (l : List β) (g : β → Option γ) (h : γ → δ) :
    (l.map (fun f => (g f).map h)).filterMap id = (l.filterMap g).map h := by
  induction l with
  | nil => rfl
  | cons f fs ih =>
    rw [List.map_cons, List.filterMap_cons, List.filterMap_cons]
    cases g f with
    | none => simpa using ih
    | some v => simpa using ih

theorem renameFields_full (t : Name) (rest ns : List Name) (h : ns.length = rest.length) :
    renameFields (t :: rest) ns = t :: ns := by
  show t :: (List.range rest.length).map (fun i => (ns[i]?).getD (rest.getD i [])) = t :: ns
  congr 1
  apply List.ext_getElem
  · simp [h]
  · intro i h1 h2
    simp [List.getElem?_eq_getElem h2]

/-! ## element names from the method file -/

def elemLe (a b : AcqElement) : Bool := decide (a.mz < b.mz ∨ (a.mz = b.mz ∧ a.selected ≤ b.selected))

theorem sortElements_eq (es : List AcqElement) : sortElements es = es.mergeSort elemLe := rfl

theorem elemLe_trans (a b c : AcqElement) : elemLe a b = true → elemLe b c = true → elemLe a c = true := by
  simp only [elemLe, decide_eq_true_eq]; omega

theorem elemLe_total (a b : AcqElement) : (elemLe a b || elemLe b a) = true := by
  simp only [elemLe, Bool.or_eq_true, decide_eq_true_eq]; omega

theorem sortElements_of_perm_strict (es sorted : List AcqElement) (hp : es.Perm sorted)
    (hs : sorted.Pairwise (fun a b => a.mz < b.mz ∨ (a.mz = b.mz ∧ a.selected < b.selected))) :
    sortElements es = sorted := by
  rw [sortElements_eq]
  apply Pew.SortAgilent.mergeSort_eq_of_perm_strict elemLe elemLe_trans elemLe_total es sorted hp
  apply hs.imp
  intro a b h
  simp only [elemLe, decide_eq_true_eq, decide_eq_false_iff_not]
  omega

/-! ## entry points with options -/

/-- `Except.map` commutes with the binary-then-CSV fallback of `load` -/
theorem load_map {γ δ : Type} (g : γ → δ) (b c : Except Err γ) :
    (load b c).map g = load (b.map g) (c.map g) := by
  cases b <;> rfl

/-- the image part of a `load_binary` return value, whatever `full` is -/
theorem loadBinaryCall_image {α : Type} (m : Meta) (files : List (DataFile α)) (masses : Option (List MassInfo))
    (divide : List MassInfo → Image α → Image α) (o : CallOpts) :
    (loadBinaryCall m files masses divide o).map Returned.image
      = (loadBinary m files masses o.methodsV).map
          (fun im => ((dropElems o.drop (if o.cpsV then divide (masses.getD []) im else im)).names,
                      (dropElems o.drop (if o.cpsV then divide (masses.getD []) im else im)).img)) := by
  unfold loadBinaryCall
  cases loadBinary m files masses o.methodsV with
  | error e => rfl
  | ok im => cases h2 : o.fullV <;> rfl

/-- the image part of a `load_csv` return value, whatever `full` is -/
theorem loadCsvCall_image {α : Type} (m : Meta) (files : List (DataFile α)) (acq : Option (List Name)) (o : CallOpts) :
    (loadCsvCall m files acq o).map Returned.image
      = (loadCsv m files (if o.useAcqV then acq else none) o.methodsV).map
          (fun im => ((dropElems o.drop im).names, (dropElems o.drop im).img)) := by
  unfold loadCsvCall
  cases loadCsv m files (if o.useAcqV then acq else none) o.methodsV with
  | error e => rfl
  | ok im => cases h2 : o.fullV <;> rfl

/-! ## shapes, pixels of `cps`, the memo table, listing order (helpers of the composed theorems) -/

theorem allSome_length {β : Type} (l : List (Option β)) (r : List β) (h : allSome l = some r) : r.length = l.length := by
  rw [allSome_eq_some l r h]; simp

theorem allSome_mem {β : Type} (l : List (Option β)) (r : List β) (h : allSome l = some r) (x : β) (hx : x ∈ r) :
    some x ∈ l := by
  rw [allSome_eq_some l r h]; exact List.mem_map.mpr ⟨x, hx, rfl⟩

theorem csvLineSpec_shape (ncol nscan : Nat) (csv : Option CsvFile) (hrows : ∀ c, csv = some c → c.rows.length = nscan)
    (cols : List (List Rat)) (h : csvLineSpec ncol nscan csv = some cols) :
    cols.length = ncol ∧ ∀ col ∈ cols, col.length = nscan := by
  cases csv with
  | none =>
    simp only [csvLineSpec, Option.some.injEq] at h
    subst h
    simp
  | some c =>
    simp only [csvLineSpec] at h
    refine ⟨by rw [allSome_length _ _ h]; simp, ?_⟩
    intro col hcol
    have := allSome_mem _ _ h col hcol
    simp only [List.mem_map, List.mem_range] at this
    obtain ⟨j, _, hj⟩ := this
    rw [allSome_length _ _ hj]
    simp [hrows c rfl]

theorem px_some {β : Type} (img : List (List (List β))) (i j r : Nat) (x : β) (h : px img i j r = some x) :
    ∃ la ca, img[i]? = some la ∧ la[j]? = some ca ∧ ca[r]? = some x := by
  unfold px at h
  cases hi : img[i]? with
  | none => rw [hi] at h; simp at h
  | some la =>
    rw [hi] at h
    simp only [Option.bind_some] at h
    cases hj : la[j]? with
    | none => rw [hj] at h; simp at h
    | some ca =>
      rw [hj] at h
      simp only [Option.bind_some] at h
      exact ⟨la, ca, rfl, hj, h⟩

theorem cps_line (ms : List MassInfo) (im : Image Rat) (i : Nat) (la : List (List Rat)) (h : (cps ms im).img[i]? = some la) :
    ∃ line, im.img[i]? = some line ∧ la.length = min line.length ms.length ∧
      ∀ ca ∈ la, ∃ col ∈ line, ca.length = col.length := by
  simp only [cps, List.getElem?_map] at h
  cases hl : im.img[i]? with
  | none => rw [hl] at h; simp at h
  | some line =>
    rw [hl] at h
    simp only [Option.map_some, Option.some.injEq] at h
    subst h
    refine ⟨line, rfl, by simp, ?_⟩
    intro ca hca
    simp only [List.mem_map] at hca
    obtain ⟨⟨col, mj⟩, hz, rfl⟩ := hca
    exact ⟨col, (List.of_mem_zip hz).1, by simp⟩

theorem load_eq_of_eq {γ : Type} (b b' c c' : Except Err γ) (hb : b = b') (hc : c = c') : load b c = load b' c' := by
  rw [hb, hc]

theorem memoGet_mem {κ β : Type} [DecidableEq κ] (k : κ) (l : List (κ × β)) (v : β) (h : memoGet k l = some v) :
    (k, v) ∈ l := by
  induction l with
  | nil => simp [memoGet] at h
  | cons p rest ih =>
    obtain ⟨k', v'⟩ := p
    unfold memoGet at h
    split at h
    · rename_i hk
      simp only [Option.some.injEq] at h
      subst hk; subst h
      simp
    · exact List.mem_cons_of_mem _ (ih h)

theorem exists_perm (m₁ m₂ : Meta) (h : m₁.listing.Perm m₂.listing) (n : Name) : m₁.exists n = m₂.exists n := by
  unfold Meta.exists
  exact h.any_eq

end Pew.Agilent
