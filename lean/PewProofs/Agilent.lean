import PewModel.Agilent
import PewProofs.SortAgilent
import Mathlib.Data.List.Basic
import Mathlib.Data.List.TakeWhile
import Mathlib.Tactic.Ring
import Mathlib.Tactic.Linarith
import Mathlib.Algebra.Order.Field.Rat

/-! Helper lemmas for C02 (`PewModel/Agilent.lean`). -/
namespace Pew.Agilent

/-! ## keep-last de-duplication -/
section keepLast
variable {α : Type} [DecidableEq α]

theorem appendLast_eq (acc : List α) (p : α) : appendLast acc p = acc.erase p ++ [p] := by
  unfold appendLast
  split
  · rfl
  · rw [List.erase_of_not_mem ‹_›]

theorem keepLast_cons (x : α) (xs : List α) :
    keepLast (x :: xs) = if x ∈ xs then keepLast xs else x :: keepLast xs := by rw [keepLast]

theorem mem_keepLast (l : List α) (x : α) : x ∈ keepLast l ↔ x ∈ l := by
  induction l with
  | nil => simp [keepLast]
  | cons y ys ih =>
    unfold keepLast
    split
    · rw [ih]; constructor
      · exact fun h => List.mem_cons_of_mem _ h
      · intro h; rcases List.mem_cons.mp h with rfl | h
        · assumption
        · exact h
    · simp [ih]

theorem keepLast_nodup (l : List α) : (keepLast l).Nodup := by
  induction l with
  | nil => simp [keepLast]
  | cons y ys ih =>
    unfold keepLast
    split
    · exact ih
    · exact List.nodup_cons.mpr ⟨by rwa [mem_keepLast], ih⟩

theorem keepLast_of_nodup (l : List α) (h : l.Nodup) : keepLast l = l := by
  induction l with
  | nil => rfl
  | cons y ys ih =>
    have := List.nodup_cons.mp h
    unfold keepLast
    rw [if_neg this.1, ih this.2]

/-- the remove-then-append loop: what was there and does not come again stays in place, followed by
the new names, each at its last occurrence -/
theorem foldl_appendLast (l acc : List α) (h : acc.Nodup) :
    l.foldl appendLast acc = acc.filter (fun a => decide (a ∉ l)) ++ keepLast l := by
  induction l generalizing acc with
  | nil => simp [keepLast]
  | cons x xs ih =>
    have hn : (acc.erase x ++ [x]).Nodup := by
      rw [List.nodup_append]
      refine ⟨h.erase x, by simp, ?_⟩
      intro a ha b hb
      simp only [List.mem_singleton] at hb
      subst hb
      intro e; subst e
      exact (List.Nodup.not_mem_erase h) ha
    rw [List.foldl_cons, appendLast_eq, ih _ hn, List.filter_append, h.erase_eq_filter, List.filter_filter]
    have e1 : List.filter (fun a => decide (a ∉ xs) && (a != x)) acc
        = List.filter (fun a => decide (a ∉ x :: xs)) acc := by
      apply List.filter_congr
      intro a _
      by_cases hax : a = x <;> simp [hax]
    rw [e1, List.append_assoc]
    congr 1
    rw [keepLast_cons]
    by_cases hx : x ∈ xs
    · simp [hx]
    · simp [hx]

end keepLast

/-! ## `rfind` and `basename` -/

theorem rfind_ge (c : Char) (s : Name) : -1 ≤ rfind c s := by
  induction s with
  | nil => simp [rfind]
  | cons x xs ih => simp only [rfind]; split <;> [omega; (split <;> omega)]

/-- `rfind` is `-1` when the character does not occur, otherwise the position after which it does not occur again -/
theorem rfind_spec (c : Char) (s : Name) :
    (rfind c s = -1 ∧ c ∉ s) ∨
    (∃ pre post, s = pre ++ c :: post ∧ c ∉ post ∧ rfind c s = (pre.length : Int)) := by
  induction s with
  | nil => left; simp [rfind]
  | cons x xs ih =>
    simp only [rfind]
    rcases ih with ⟨h1, h2⟩ | ⟨pre, post, h1, h2, h3⟩
    · rw [h1]
      by_cases hx : x = c
      · right; refine ⟨[], xs, by simp [hx], h2, by simp [hx]⟩
      · left; refine ⟨by simp [hx], ?_⟩
        simp only [List.mem_cons, not_or]; exact ⟨fun e => hx e.symm, h2⟩
    · right
      refine ⟨x :: pre, post, by simp [h1], h2, ?_⟩
      rw [h3, if_pos (by omega)]; simp

theorem drop_of_split (pre post : Name) (c : Char) : (pre ++ c :: post).drop (pre.length + 1) = post := by
  induction pre with
  | nil => simp
  | cons x xs ih => simp

theorem basenameSpec_eq_of_split (pre post : Name) (c : Char) (hc : isSep c = true)
    (hpost : ∀ d ∈ post, isSep d = false) : basenameSpec (pre ++ c :: post) = post := by
  unfold basenameSpec
  rw [List.reverse_append, List.reverse_cons, List.append_assoc, List.takeWhile_append_of_pos]
  · simp [hc]
  · intro d hd
    have := hpost d (List.mem_reverse.mp hd)
    simp [this]

theorem basenameSpec_eq_self (s : Name) (h : ∀ d ∈ s, isSep d = false) : basenameSpec s = s := by
  unfold basenameSpec
  rw [List.takeWhile_eq_self_iff.mpr]
  · simp
  · intro d hd
    have := h d (List.mem_reverse.mp hd)
    simp [this]

theorem isSep_iff (c : Char) : isSep c = true ↔ c = '\\' ∨ c = '/' := by
  simp [isSep]

theorem not_sep_of (post : Name) (h1 : '\\' ∉ post) (h2 : '/' ∉ post) : ∀ d ∈ post, isSep d = false := by
  intro d hd
  by_contra hne
  have : isSep d = true := by simpa using hne
  rcases (isSep_iff d).mp this with rfl | rfl
  · exact h1 hd
  · exact h2 hd

/-- the slicing mechanism returns the longest separator-free suffix -/
theorem basename_eq_spec (s : Name) : basename s = basenameSpec s := by
  unfold basename
  rcases rfind_spec '\\' s with ⟨a1, a2⟩ | ⟨p1, q1, a1, a2, a3⟩ <;>
  rcases rfind_spec '/' s with ⟨b1, b2⟩ | ⟨p2, q2, b1, b2, b3⟩
  · rw [a1, b1]; simp
    exact (basenameSpec_eq_self s (not_sep_of s a2 b2)).symm
  · rw [a1, b3]
    have : (max (-1 : Int) (p2.length : Int) + 1).toNat = p2.length + 1 := by omega
    rw [this]
    have hq : '\\' ∉ q2 := fun h => a2 (by rw [b1]; simp [h])
    conv_lhs => rw [b1]
    conv_rhs => rw [b1]
    rw [drop_of_split, basenameSpec_eq_of_split _ _ _ (by simp [isSep]) (not_sep_of q2 hq b2)]
  · rw [a3, b1]
    have : (max (p1.length : Int) (-1 : Int) + 1).toNat = p1.length + 1 := by omega
    rw [this]
    have hq : '/' ∉ q1 := fun h => b2 (by rw [a1]; simp [h])
    conv_lhs => rw [a1]
    conv_rhs => rw [a1]
    rw [drop_of_split, basenameSpec_eq_of_split _ _ _ (by simp [isSep]) (not_sep_of q1 a2 hq)]
  · rw [a3, b3]
    rcases Nat.lt_trichotomy p1.length p2.length with hlt | heq | hgt
    · have : (max (p1.length : Int) (p2.length : Int) + 1).toNat = p2.length + 1 := by omega
      rw [this]
      -- q2 is a suffix of q1
      have hq : '\\' ∉ q2 := by
        intro h
        apply a2
        have e : q1 = (p1 ++ '\\' :: q1).drop (p1.length + 1) := (drop_of_split _ _ _).symm
        have e2 : q2 = (p2 ++ '/' :: q2).drop (p2.length + 1) := (drop_of_split _ _ _).symm
        rw [← a1] at e; rw [← b1] at e2
        rw [e]
        have : q2 = (s.drop (p1.length + 1)).drop (p2.length - p1.length) := by
          rw [List.drop_drop]; rw [e2]; congr 1; omega
        rw [this] at h
        exact List.mem_of_mem_drop h
      conv_lhs => rw [b1]
      conv_rhs => rw [b1]
      rw [drop_of_split, basenameSpec_eq_of_split _ _ _ (by simp [isSep]) (not_sep_of q2 hq b2)]
    · exfalso
      have h1 : s[p1.length]? = some '\\' := by rw [a1]; simp
      have h2 : s[p1.length]? = some '/' := by rw [heq, b1]; simp
      rw [h1] at h2; simp at h2
    · have : (max (p1.length : Int) (p2.length : Int) + 1).toNat = p1.length + 1 := by omega
      rw [this]
      have hq : '/' ∉ q1 := by
        intro h
        apply b2
        have e : q1 = (p1 ++ '\\' :: q1).drop (p1.length + 1) := (drop_of_split _ _ _).symm
        have e2 : q2 = (p2 ++ '/' :: q2).drop (p2.length + 1) := (drop_of_split _ _ _).symm
        rw [← a1] at e; rw [← b1] at e2
        rw [e2]
        have : q1 = (s.drop (p2.length + 1)).drop (p1.length - p2.length) := by
          rw [List.drop_drop]; rw [e]; congr 1; omega
        rw [this] at h
        exact List.mem_of_mem_drop h
      conv_lhs => rw [a1]
      conv_rhs => rw [a1]
      rw [drop_of_split, basenameSpec_eq_of_split _ _ _ (by simp [isSep]) (not_sep_of q1 a2 hq)]

/-! ## the two log readers -/

/-- names the XML loop appends, in log order (mechanism `basename`) -/
def xmlNames (log : List LogEntry) : List Name :=
  log.filterMap (fun e => if e.result = pass then e.file.map basename else none)

theorem xmlNames_eq_passNames (log : List LogEntry) : xmlNames log = passNames log := by
  unfold xmlNames passNames
  congr 1
  funext e
  split
  · cases e.file <;> simp [basename_eq_spec]
  · rfl

theorem foldl_xmlStep (log : List LogEntry) (acc : List Name) :
    log.foldl xmlStep acc = (xmlNames log).foldl appendLast acc := by
  induction log generalizing acc with
  | nil => rfl
  | cons e es ih =>
    rw [List.foldl_cons, ih]
    unfold xmlNames
    by_cases hp : e.result = pass
    · cases hf : e.file with
      | none => simp [xmlStep, hp, hf]
      | some f => simp [xmlStep, hp, hf]
    · simp [xmlStep, hp]

theorem batchXml_eq (log : List LogEntry) : batchXml log = keepLast (xmlNames log) := by
  unfold batchXml
  rw [foldl_xmlStep, foldl_appendLast _ _ List.nodup_nil]
  simp

/-- names the CSV loop appends -/
def csvNames (rows : List CsvRow) : List Name :=
  rows.filterMap (fun r => if r.result.take 4 = pass then some (basename (r.file.take 264)) else none)

theorem foldl_csvStep (rows : List CsvRow) (acc : List Name) :
    rows.foldl csvStep acc = (csvNames rows).foldl appendLast acc := by
  induction rows generalizing acc with
  | nil => rfl
  | cons r rs ih =>
    rw [List.foldl_cons, ih]
    unfold csvNames
    by_cases hp : r.result.take 4 = pass
    · simp [csvStep, hp]
    · simp [csvStep, hp]

theorem batchCsv_eq (rows : List CsvRow) : batchCsv rows = keepLast (csvNames rows) := by
  unfold batchCsv
  rw [foldl_csvStep, foldl_appendLast _ _ List.nodup_nil]
  simp

end Pew.Agilent
