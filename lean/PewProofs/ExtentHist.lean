import PewModel.Extent
import Mathlib.Tactic.Ring
import Mathlib.Tactic.Linarith
set_option linter.unusedSimpArgs false

/-! helper lemmas for C10: histories on configuration objects and lasers (`Heap.run` against `viewSpec`) -/
namespace Pew
namespace Extent

/-- the heap agrees, entry by entry, with the backward reading of the history that produced it -/
structure Inv (h : Heap) (rev : List HOp) : Prop where
  ncfg : h.cfgs.length = countCfgs rev
  nlas : h.lasers.length = countLasers rev
  attr : ∀ id a, (h.cfgs[id]?).map (fun o => o.getAttr a) = attrSpec rev id a
  kind : ∀ id, (h.cfgs[id]?).map (fun o => o.kind) = kindSpec rev id
  held : ∀ l, (h.lasers[l]?).map (fun x => x.cfg) = heldSpec rev l
  shape : ∀ l, (h.lasers[l]?).map (fun x => (x.rows, x.cols)) = shapeSpec rev l

theorem inv_nil : Inv { cfgs := [], lasers := [] } [] :=
  ⟨rfl, rfl, fun _ _ => rfl, fun _ => rfl, fun _ => rfl, fun _ => rfl⟩

theorem getElem?_snoc {α : Type} (l : List α) (x : α) (i : Nat) :
    (l ++ [x])[i]? = if i = l.length then some x else l[i]? := by
  rw [List.getElem?_append]
  by_cases h : i < l.length
  · rw [if_pos h, if_neg (by omega)]
  · rw [if_neg h]
    by_cases h' : i = l.length
    · subst h'; simp
    · rw [if_neg h']
      have : l.length ≤ i := by omega
      rw [List.getElem?_eq_none_iff.mpr this]
      have : 1 ≤ i - l.length := by omega
      exact List.getElem?_eq_none_iff.mpr (by simpa using this)

theorem getAttr_setAttr (o : CfgObj) (a b : Attr) (v : Rat) :
    (o.setAttr a v).getAttr b = if a = b then v else o.getAttr b := by
  cases a <;> cases b <;> simp [CfgObj.setAttr, CfgObj.getAttr]

theorem kind_setAttr (o : CfgObj) (a : Attr) (v : Rat) : (o.setAttr a v).kind = o.kind := by
  cases a <;> rfl

theorem inv_step (h : Heap) (rev : List HOp) (op : HOp) (hi : Inv h rev) : Inv (h.step op) (op :: rev) := by
  obtain ⟨ncfg, nlas, attr, kind, held, shape⟩ := hi
  cases op with
  | newCfg o =>
    refine ⟨?_, nlas, ?_, ?_, held, shape⟩
    · simp [Heap.step, countCfgs, ncfg]
    · intro id a
      simp only [Heap.step, attrSpec, getElem?_snoc, ncfg]
      split_ifs <;> simp [attr]
    · intro id
      simp only [Heap.step, kindSpec, getElem?_snoc, ncfg]
      split_ifs <;> simp [kind]
  | copyCfg src =>
    by_cases hs : src < h.cfgs.length
    · have hsome : h.cfgs[src]? = some h.cfgs[src] := List.getElem?_eq_getElem hs
      have hs' : src < countCfgs rev := ncfg ▸ hs
      have e : h.step (.copyCfg src) = { h with cfgs := h.cfgs ++ [h.cfgs[src]] } := by simp [Heap.step, hsome]
      rw [e]
      refine ⟨?_, nlas, ?_, ?_, held, shape⟩
      · simp [countCfgs, hs', ncfg]
      · intro id a
        simp only [attrSpec, getElem?_snoc, ncfg, hs', and_true]
        split_ifs with h1
        · rw [← attr src a, hsome]
        · exact attr id a
      · intro id
        simp only [kindSpec, getElem?_snoc, ncfg, hs', and_true]
        split_ifs with h1
        · rw [← kind src, hsome]
        · exact kind id
    · have hnone : h.cfgs[src]? = none := List.getElem?_eq_none_iff.mpr (by omega)
      have hs' : ¬ src < countCfgs rev := ncfg ▸ hs
      have e : h.step (.copyCfg src) = h := by simp [Heap.step, hnone]
      rw [e]
      refine ⟨?_, nlas, ?_, ?_, held, shape⟩
      · simp [countCfgs, hs', ncfg]
      · intro id a
        simp only [attrSpec, hs', and_false, if_false]
        exact attr id a
      · intro id
        simp only [kindSpec, hs', and_false, if_false]
        exact kind id
  | newLaser cfg rows cols =>
    refine ⟨ncfg, ?_, attr, kind, ?_, ?_⟩
    · simp [Heap.step, countLasers, nlas]
    · intro l
      simp only [Heap.step, heldSpec, getElem?_snoc, nlas]
      split_ifs <;> simp [held]
    · intro l
      simp only [Heap.step, shapeSpec, getElem?_snoc, nlas]
      split_ifs <;> simp [shape]
  | setCfg laser cfg =>
    refine ⟨ncfg, ?_, attr, kind, ?_, ?_⟩
    · simp [Heap.step, countLasers, nlas]
    · intro l
      simp only [Heap.step, heldSpec, List.getElem?_modify, ← nlas]
      by_cases h1 : laser = l
      · subst h1
        by_cases h2 : laser < h.lasers.length
        · simp [h2, List.getElem?_eq_getElem h2]
        · have : h.lasers[laser]? = none := List.getElem?_eq_none_iff.mpr (by omega)
          simp [h2, this, ← held]
      · simp [h1, ← held]
    · intro l
      simp only [Heap.step, shapeSpec, List.getElem?_modify]
      rw [← shape l]
      cases h.lasers[l]? <;> simp
      split_ifs <;> simp
  | setAttr cfg a v =>
    refine ⟨?_, nlas, ?_, ?_, held, shape⟩
    · simp [Heap.step, countCfgs, ncfg]
    · intro id b
      simp only [Heap.step, attrSpec, List.getElem?_modify, ← ncfg]
      by_cases h1 : cfg = id
      · subst h1
        by_cases h2 : cfg < h.cfgs.length
        · by_cases h3 : a = b
          · subst h3
            simp [h2, List.getElem?_eq_getElem h2, getAttr_setAttr]
          · simp [h2, h3, ← attr, List.getElem?_eq_getElem h2, getAttr_setAttr]
        · have : h.cfgs[cfg]? = none := List.getElem?_eq_none_iff.mpr (by omega)
          simp [h2, this, ← attr]
      · simp [h1, ← attr]
    · intro id
      simp only [Heap.step, kindSpec, List.getElem?_modify]
      rw [← kind id]
      cases h.cfgs[id]? <;> simp
      split_ifs <;> simp [kind_setAttr]
  | setData laser rows cols =>
    refine ⟨ncfg, ?_, attr, kind, ?_, ?_⟩
    · simp [Heap.step, countLasers, nlas]
    · intro l
      simp only [Heap.step, heldSpec, List.getElem?_modify]
      rw [← held l]
      cases h.lasers[l]? <;> simp
      split_ifs <;> simp
    · intro l
      simp only [Heap.step, shapeSpec, List.getElem?_modify, ← nlas]
      by_cases h1 : laser = l
      · subst h1
        by_cases h2 : laser < h.lasers.length
        · simp [h2, List.getElem?_eq_getElem h2]
        · have : h.lasers[laser]? = none := List.getElem?_eq_none_iff.mpr (by omega)
          simp [h2, this, ← shape]
      · simp [h1, ← shape]

theorem inv_foldl (ops : List HOp) : ∀ (h : Heap) (rev : List HOp), Inv h rev →
    Inv (ops.foldl Heap.step h) (ops.reverse ++ rev) := by
  induction ops with
  | nil => intro h rev hi; simpa using hi
  | cons op rest ih =>
    intro h rev hi
    have := ih (h.step op) (op :: rev) (inv_step h rev op hi)
    simpa [List.reverse_cons, List.append_assoc] using this

theorem inv_run (ops : List HOp) : Inv (Heap.run ops) ops.reverse := by
  have := inv_foldl ops _ [] inv_nil
  simpa [Heap.run] using this

/-- an object is determined by its class and its four attributes -/
theorem toCfg_eq (o : CfgObj) :
    o.toCfg = cfgOf o.kind (o.getAttr .spotsize) (o.getAttr .speed) (o.getAttr .scantime) (o.getAttr .spotsizeY) := rfl

end Extent
end Pew
