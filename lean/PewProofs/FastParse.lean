import PewModel.FastParse
import Mathlib.Data.List.Forall2
namespace Pew.FastParse

/-- the dictionary entries of a list of children, in document order -/
def pairs (cls : String → Bool) : List Item → Dict
  | [] => []
  | .cv a v :: r => (a, reVal cls v) :: pairs cls r
  | _ :: r => pairs cls r

abbrev runC (c : Core) (L : List Line) : Core := L.foldl stepCore c

theorem runC_append (c : Core) (A B : List Line) : runC c (A ++ B) = runC (runC c A) B := by
  simp [runC, List.foldl_append]

theorem foldl_addCv (cls : String → Bool) (items : List Item) (cvs : Dict) :
    (renderItems cls items).foldl addCv cvs = (pairs cls items).reverse ++ cvs := by
  induction items generalizing cvs with
  | nil => simp [renderItems, pairs]
  | cons it r ih =>
    cases it <;> simp [renderItems, renderItem, pairs, addCv] at ih ⊢ <;> rw [ih]

theorem run_group_items (cls : String → Bool) (c : Core) (hc : c.err = none) (b : Bool) (id : String)
    (items : List Item) (cvs : Dict) :
    runC { c with mode := .group b id cvs } (renderItems cls items)
      = { c with mode := .group b id ((pairs cls items).reverse ++ cvs) } := by
  induction items generalizing cvs with
  | nil => simp [renderItems, pairs, runC]
  | cons it r ih =>
    simp only [renderItems, List.map_cons, runC, List.foldl_cons] at ih ⊢
    have : stepCore { c with mode := .group b id cvs } (renderItem cls it)
        = { c with mode := .group b id (addCv cvs (renderItem cls it)) } := by
      cases it <;> simp [stepCore, hc, renderItem, endsGroup]
    rw [this, ih]
    cases it <;> simp [renderItem, addCv, pairs]


theorem run_settings_items (cls : String → Bool) (c : Core) (hc : c.err = none)
    (items : List Item) (cvs : Dict) :
    runC { c with mode := .settings cvs } (renderItems cls items)
      = { c with mode := .settings ((pairs cls items).reverse ++ cvs) } := by
  induction items generalizing cvs with
  | nil => simp [renderItems, pairs, runC]
  | cons it r ih =>
    simp only [renderItems, List.map_cons, runC, List.foldl_cons] at ih ⊢
    have : stepCore { c with mode := .settings cvs } (renderItem cls it)
        = { c with mode := .settings (addCv cvs (renderItem cls it)) } := by
      cases it <;> simp [stepCore, hc, renderItem, endsSettings]
    rw [this, ih]
    cases it <;> simp [renderItem, addCv, pairs]

/-- spectrum mode: children of `<spectrum>`, `<scanList>`, `<scan>` only feed the dictionary -/
theorem run_spectrum_items (cls : String → Bool) (c : Core) (hc : c.err = none)
    (items : List Item) (cvs : Dict) (arrs : List (String × String × String)) :
    runC { c with mode := .spectrum { cvs := cvs, arrays := arrs } } (renderItems cls items)
      = { c with mode := .spectrum { cvs := (pairs cls items).reverse ++ cvs, arrays := arrs } } := by
  induction items generalizing cvs with
  | nil => simp [renderItems, pairs, runC]
  | cons it r ih =>
    simp only [renderItems, List.map_cons, runC, List.foldl_cons] at ih ⊢
    cases it with
    | cv a v =>
      have : stepCore { c with mode := .spectrum { cvs := cvs, arrays := arrs } } (renderItem cls (.cv a v))
          = { c with mode := .spectrum { cvs := (a, reVal cls v) :: cvs, arrays := arrs } } := by
        simp [stepCore, hc, renderItem]
      rw [this, ih]; simp [pairs]
    | ref r' =>
      have : stepCore { c with mode := .spectrum { cvs := cvs, arrays := arrs } } (renderItem cls (.ref r'))
          = { c with mode := .spectrum { cvs := cvs, arrays := arrs } } := by
        simp [stepCore, hc, renderItem, startsArrayList, endsSpectrum]
      rw [this, ih]; simp [pairs]
    | misc =>
      have : stepCore { c with mode := .spectrum { cvs := cvs, arrays := arrs } } (renderItem cls .misc)
          = { c with mode := .spectrum { cvs := cvs, arrays := arrs } } := by
        simp [stepCore, hc, renderItem, startsArrayList, endsSpectrum]
      rw [this, ih]; simp [pairs]

/-- lines that do nothing inside `parse_spectrum` -/
theorem step_spectrum_other (c : Core) (hc : c.err = none) (acc : SpecAcc) (l : Line)
    (hl : l = .opn .other "" ∨ l = .cls .other ∨ l = .opn .spectrum "") :
    stepCore { c with mode := .spectrum acc } l = { c with mode := .spectrum acc } := by
  rcases hl with rfl | rfl | rfl <;> simp [stepCore, hc, startsArrayList, endsSpectrum]

def lastRef (items : List Item) : Option String := (refs items).getLast?

theorem run_array_items (cls : String → Bool) (c : Core) (hc : c.err = none) (acc : SpecAcc)
    (items : List Item) (cvs : Dict) (id : Option String) :
    runC { c with mode := .array acc cvs id } (renderItems cls items)
      = { c with mode := (.array acc ((pairs cls items).reverse ++ cvs)
            (match lastRef items with | some r => some r | none => id)) } := by
  induction items generalizing cvs id with
  | nil => simp [renderItems, pairs, runC, lastRef, refs]
  | cons it r ih =>
    simp only [renderItems, List.map_cons, runC, List.foldl_cons] at ih ⊢
    cases it with
    | cv a v =>
      have : stepCore { c with mode := .array acc cvs id } (renderItem cls (.cv a v))
          = { c with mode := .array acc ((a, reVal cls v) :: cvs) id } := by
        simp [stepCore, hc, renderItem, endsArray, addCv]
      rw [this, ih]; simp [pairs, lastRef, refs]
    | ref r' =>
      have : stepCore { c with mode := .array acc cvs id } (renderItem cls (.ref r'))
          = { c with mode := .array acc cvs (some r') } := by
        simp [stepCore, hc, renderItem, endsArray, addCv]
      rw [this, ih]
      simp only [pairs, lastRef, refs]
      cases h : (refs r).getLast? with
      | none =>
        have : refs r = [] := by simpa using h
        simp [this]
      | some x =>
        have : (r' :: refs r).getLast? = some x := by
          cases hr : refs r with
          | nil => simp [hr] at h
          | cons y ys => rw [hr] at h; simpa [List.getLast?_cons_cons] using h
        simp [this]
    | misc =>
      have : stepCore { c with mode := .array acc cvs id } (renderItem cls .misc)
          = { c with mode := .array acc cvs id } := by
        simp [stepCore, hc, renderItem, endsArray, addCv]
      rw [this, ih]; simp [pairs, lastRef, refs]


/-! ### whole elements -/

def fastGroup (cls : String → Bool) (g : Group) : Except Err PGroup :=
  finishGroup g.id ((pairs cls g.items).reverse)

def fastSettings (cls : String → Bool) (s : Settings) : Except Err ScanSet :=
  finishSettings ((pairs cls s.items).reverse)

def fastArr (cls : String → Bool) (a : Arr) : Except Err (String × String × String) :=
  finishArray ((pairs cls a.items).reverse) (lastRef a.items)

theorem run_groupList_items (cls : String → Bool) (c : Core) (hc : c.err = none) (items : List Item) :
    runC { c with mode := .groupList } (renderItems cls items) = { c with mode := .groupList } := by
  induction items with
  | nil => simp [renderItems, runC]
  | cons it r ih =>
    simp only [renderItems, List.map_cons, runC, List.foldl_cons] at ih ⊢
    have : stepCore { c with mode := .groupList } (renderItem cls it) = { c with mode := .groupList } := by
      cases it <;> simp [stepCore, hc, renderItem, startsGroup, endsGroupList, idAttr]
    rw [this, ih]

theorem run_group_other (cls : String → Bool) (c : Core) (hc : c.err = none) (g : Group)
    (h1 : g.id ≠ "mzArray") (h2 : g.id ≠ "intensities") :
    runC { c with mode := .groupList } (renderGroup cls g) = { c with mode := .groupList } := by
  unfold renderGroup
  rw [runC_append, runC_append]
  have e1 : runC { c with mode := .groupList } [Line.opn .group g.id] = { c with mode := .groupList } := by
    simp [runC, stepCore, hc, startsGroup, idAttr, h1, h2]
  rw [e1, run_groupList_items cls c hc]
  simp [runC, stepCore, hc, startsGroup, endsGroupList]

theorem run_group_mz (cls : String → Bool) (c : Core) (hc : c.err = none) (g : Group) (pg : PGroup)
    (h1 : g.id = "mzArray") (hok : fastGroup cls g = .ok pg) :
    runC { c with mode := .groupList } (renderGroup cls g) = { c with mode := .groupList, mz := some pg } := by
  unfold renderGroup
  rw [runC_append, runC_append]
  have e1 : runC { c with mode := .groupList } [Line.opn .group g.id] = { c with mode := .group true "mzArray" [] } := by
    simp [runC, stepCore, hc, startsGroup, idAttr, h1]
  rw [e1, run_group_items cls c hc]
  unfold fastGroup at hok
  rw [h1] at hok
  simp [runC, stepCore, hc, endsGroup, addCv, hok]

theorem run_group_in (cls : String → Bool) (c : Core) (hc : c.err = none) (g : Group) (pg : PGroup)
    (h1 : g.id = "intensities") (hok : fastGroup cls g = .ok pg) :
    runC { c with mode := .groupList } (renderGroup cls g) = { c with mode := .groupList, inten := some pg } := by
  unfold renderGroup
  rw [runC_append, runC_append]
  have e1 : runC { c with mode := .groupList } [Line.opn .group g.id] = { c with mode := .group false "intensities" [] } := by
    simp [runC, stepCore, hc, startsGroup, idAttr, h1]
  rw [e1, run_group_items cls c hc]
  unfold fastGroup at hok
  rw [h1] at hok
  simp [runC, stepCore, hc, endsGroup, addCv, hok]

/-- what the loop over `<referenceableParamGroup>` elements leaves in `mz_params` / `intensity_params` -/
def pickG (cls : String → Bool) (name : String) : Option PGroup → List Group → Option PGroup
  | old, [] => old
  | old, g :: r => pickG cls name (if g.id = name then (fastGroup cls g).toOption else old) r

theorem run_groups (cls : String → Bool) (groups : List Group) (c : Core) (hc : c.err = none)
    (hok : ∀ g ∈ groups, g.id = "mzArray" ∨ g.id = "intensities" → ∃ pg, fastGroup cls g = .ok pg) :
    runC { c with mode := .groupList } (groups.flatMap (renderGroup cls))
      = { c with mode := .groupList, mz := pickG cls "mzArray" c.mz groups,
                 inten := pickG cls "intensities" c.inten groups } := by
  induction groups generalizing c with
  | nil => simp [runC, pickG]
  | cons g r ih =>
    rw [List.flatMap_cons, runC_append]
    have hr : ∀ g ∈ r, g.id = "mzArray" ∨ g.id = "intensities" → ∃ pg, fastGroup cls g = .ok pg :=
      fun g' hg' => hok g' (by simp [hg'])
    by_cases h1 : g.id = "mzArray"
    · obtain ⟨pg, hpg⟩ := hok g (by simp) (Or.inl h1)
      rw [run_group_mz cls c hc g pg h1 hpg]
      have := ih { c with mz := some pg } hc hr
      simp only at this
      rw [this]
      have h2 : g.id ≠ "intensities" := by rw [h1]; decide
      simp [pickG, h1, hpg, Except.toOption]
    · by_cases h2 : g.id = "intensities"
      · obtain ⟨pg, hpg⟩ := hok g (by simp) (Or.inr h2)
        rw [run_group_in cls c hc g pg h2 hpg]
        have := ih { c with inten := some pg } hc hr
        simp only at this
        rw [this]
        simp [pickG, h2, hpg, Except.toOption]
      · rw [run_group_other cls c hc g h1 h2, ih c hc hr]
        simp [pickG, h1, h2]

theorem run_renderGroups (cls : String → Bool) (d : Doc) (c : Core) (hc : c.err = none) (hm : c.mode = .top)
    (hok : ∀ g ∈ d.groups, g.id = "mzArray" ∨ g.id = "intensities" → ∃ pg, fastGroup cls g = .ok pg) :
    runC c (renderGroups cls d)
      = { c with mz := pickG cls "mzArray" c.mz d.groups, inten := pickG cls "intensities" c.inten d.groups } := by
  unfold renderGroups
  rw [runC_append, runC_append]
  have e1 : runC c [Line.opn .groupList ""] = { c with mode := .groupList } := by
    simp [runC, stepCore, hc, hm, startsGroupList]
  rw [e1, run_groups cls d.groups c hc hok]
  simp [runC, stepCore, hc, startsGroup, endsGroupList]
  cases c; simp_all


theorem run_settingsList_nil (c : Core) : runC c [] = c := rfl

theorem run_renderSettings (cls : String → Bool) (c : Core) (hc : c.err = none) (s : Settings) (x : ScanSet)
    (hok : fastSettings cls s = .ok x) :
    runC { c with mode := .settingsList } (renderSettings cls s)
      = { c with mode := .settingsList, scans := c.scans ++ [x] } := by
  unfold renderSettings
  rw [runC_append, runC_append]
  have e1 : runC { c with mode := .settingsList } [Line.opn .settings ""] = { c with mode := .settings [] } := by
    simp [runC, stepCore, hc, startsSettings]
  rw [e1, run_settings_items cls c hc]
  unfold fastSettings at hok
  simp [runC, stepCore, hc, endsSettings, addCv, hok]

theorem run_settings (cls : String → Bool) (ss : List Settings) (xs : List ScanSet) (c : Core) (hc : c.err = none)
    (hok : List.Forall₂ (fun s x => fastSettings cls s = .ok x) ss xs) :
    runC { c with mode := .settingsList } (ss.flatMap (renderSettings cls))
      = { c with mode := .settingsList, scans := c.scans ++ xs } := by
  induction hok generalizing c with
  | nil => simp [runC]
  | @cons s x ss' xs' h _ ih =>
    rw [List.flatMap_cons, runC_append, run_renderSettings cls c hc _ _ h]
    have := ih { c with scans := c.scans ++ [x] } hc
    simp only at this
    rw [this]
    simp

theorem run_renderSettingsList (cls : String → Bool) (d : Doc) (xs : List ScanSet) (c : Core) (hc : c.err = none)
    (hm : c.mode = .top) (hok : List.Forall₂ (fun s x => fastSettings cls s = .ok x) d.settings xs) :
    runC c (renderSettingsList cls d) = { c with scans := c.scans ++ xs } := by
  unfold renderSettingsList
  rw [runC_append, runC_append]
  have e1 : runC c [Line.opn .settingsList ""] = { c with mode := .settingsList } := by
    simp [runC, stepCore, hc, hm, startsGroupList, startsSettingsList]
  rw [e1, run_settings cls d.settings xs c hc hok]
  simp [runC, stepCore, hc, startsSettings, endsSettingsList]
  cases c; simp_all

theorem run_renderArr (cls : String → Bool) (c : Core) (hc : c.err = none) (acc : SpecAcc) (a : Arr)
    (x : String × String × String) (hok : fastArr cls a = .ok x) :
    runC { c with mode := .arrayList acc } (renderArr cls a)
      = { c with mode := .arrayList { acc with arrays := acc.arrays ++ [x] } } := by
  unfold renderArr
  rw [runC_append, runC_append]
  have e1 : runC { c with mode := .arrayList acc } [Line.opn .array ""] = { c with mode := .array acc [] none } := by
    simp [runC, stepCore, hc, startsArray]
  rw [e1, run_array_items cls c hc]
  unfold fastArr at hok
  have e2 : (match lastRef a.items with | some r => some r | none => (none : Option String)) = lastRef a.items := by
    cases lastRef a.items <;> rfl
  rw [e2]
  simp [runC, stepCore, hc, endsArray, addCv, hok]

theorem run_arrays (cls : String → Bool) (as : List Arr) (xs : List (String × String × String)) (c : Core)
    (hc : c.err = none) (acc : SpecAcc)
    (hok : List.Forall₂ (fun a x => fastArr cls a = .ok x) as xs) :
    runC { c with mode := .arrayList acc } (as.flatMap (renderArr cls))
      = { c with mode := .arrayList { acc with arrays := acc.arrays ++ xs } } := by
  induction hok generalizing acc with
  | nil => simp [runC]
  | cons h _ ih =>
    rw [List.flatMap_cons, runC_append, run_renderArr cls c hc acc _ _ h, ih]
    simp

theorem pairs_append (cls : String → Bool) (A B : List Item) : pairs cls (A ++ B) = pairs cls A ++ pairs cls B := by
  induction A with
  | nil => rfl
  | cons it r ih => cases it <;> simp [pairs, ih]

theorem run_renderScan (cls : String → Bool) (sc : List Item) (c : Core) (hc : c.err = none)
    (cvs : Dict) (arrs : List (String × String × String)) :
    runC { c with mode := .spectrum { cvs := cvs, arrays := arrs } } (renderScan cls sc)
      = { c with mode := .spectrum { cvs := (pairs cls sc).reverse ++ cvs, arrays := arrs } } := by
  unfold renderScan
  rw [runC_append, runC_append]
  have e1 : runC { c with mode := .spectrum { cvs := cvs, arrays := arrs } } [Line.opn .other ""]
      = { c with mode := .spectrum { cvs := cvs, arrays := arrs } } := by
    simp only [runC, List.foldl_cons, List.foldl_nil]
    exact step_spectrum_other c hc _ _ (Or.inl rfl)
  rw [e1, run_spectrum_items cls c hc]
  simp only [runC, List.foldl_cons, List.foldl_nil]
  exact step_spectrum_other c hc _ _ (Or.inr (Or.inl rfl))

theorem run_scans (cls : String → Bool) (scans : List (List Item)) (c : Core) (hc : c.err = none)
    (cvs : Dict) (arrs : List (String × String × String)) :
    runC { c with mode := .spectrum { cvs := cvs, arrays := arrs } } (scans.flatMap (renderScan cls))
      = { c with mode := .spectrum { cvs := (pairs cls scans.flatten).reverse ++ cvs, arrays := arrs } } := by
  induction scans generalizing cvs with
  | nil => simp [runC, pairs]
  | cons sc r ih =>
    rw [List.flatMap_cons, runC_append, run_renderScan cls sc c hc, ih]
    simp [pairs_append]

/-- the fast parser's result for one `<spectrum>` -/
def FastSpec (cls : String → Bool) (s : Spec) (x : SpecInfo) : Prop :=
  ∃ xs, List.Forall₂ (fun a y => fastArr cls a = .ok y) s.arrays xs ∧
    finishSpectrum { cvs := (pairs cls s.seen).reverse, arrays := xs } = .ok x

theorem run_specBody (cls : String → Bool) (c : Core) (hc : c.err = none) (s : Spec) (x : SpecInfo)
    (hok : FastSpec cls s x) :
    runC { c with mode := .spectrum { cvs := [], arrays := [] } } (renderSpecBody cls s ++ [Line.cls .spectrum])
      = { c with mode := .top, spectra := c.spectra ++ [x] } := by
  obtain ⟨xs, harr, hfin⟩ := hok
  unfold renderSpecBody
  simp only [runC_append]
  rw [run_spectrum_items cls c hc]
  have inert : ∀ (cvs : Dict) (arrs : List (String × String × String)) (l : Line),
      (l = .opn .other "" ∨ l = .cls .other ∨ l = .opn .spectrum "") →
      runC { c with mode := .spectrum { cvs := cvs, arrays := arrs } } [l]
        = { c with mode := .spectrum { cvs := cvs, arrays := arrs } } := by
    intro cvs arrs l hl
    simp only [runC, List.foldl_cons, List.foldl_nil]
    exact step_spectrum_other c hc _ _ hl
  rw [inert _ _ _ (Or.inl rfl), run_spectrum_items cls c hc, run_scans cls s.scans c hc, inert _ _ _ (Or.inr (Or.inl rfl))]
  have e3 : ∀ acc : SpecAcc, runC { c with mode := .spectrum acc } [Line.opn .arrayList ""] = { c with mode := .arrayList acc } := by
    intro acc; simp [runC, stepCore, hc, startsArrayList]
  rw [e3, run_arrays cls s.arrays xs c hc _ harr]
  have e4 : ∀ acc : SpecAcc, runC { c with mode := .arrayList acc } [Line.cls .arrayList] = { c with mode := .spectrum acc } := by
    intro acc; simp [runC, stepCore, hc, startsArray, endsArrayList]
  rw [e4]
  simp only [List.nil_append]
  rw [run_spectrum_items cls c hc]
  have hd : (pairs cls s.tail).reverse ++ ((pairs cls s.scans.flatten).reverse ++ ((pairs cls s.scanlist).reverse ++ ((pairs cls s.items).reverse ++ [])))
      = (pairs cls s.seen).reverse := by
    simp [Spec.seen, pairs_append]
  rw [hd]
  simp [runC, stepCore, hc, startsArrayList, endsSpectrum, hfin]

/-! ### the spectrum list and the top level -/

theorem run_renderSpec_top (cls : String → Bool) (c : Core) (hc : c.err = none) (hm : c.mode = .top)
    (s : Spec) (x : SpecInfo) (hok : FastSpec cls s x) :
    runC c (renderSpec cls s) = { c with spectra := c.spectra ++ [x] } := by
  unfold renderSpec
  rw [List.append_assoc, runC_append]
  have e1 : runC c [Line.opn .spectrum ""] = { c with mode := .spectrum { cvs := [], arrays := [] } } := by
    simp [runC, stepCore, hc, hm, startsGroupList, startsSettingsList, startsSpectrum]
  rw [e1, run_specBody cls c hc s x hok]
  cases c; simp_all

theorem run_spectra_rest (cls : String → Bool) (ss : List Spec) (xs : List SpecInfo) (c : Core)
    (hc : c.err = none) (hm : c.mode = .top) (hok : List.Forall₂ (FastSpec cls) ss xs) :
    runC c (ss.flatMap (renderSpec cls)) = { c with spectra := c.spectra ++ xs } := by
  induction hok generalizing c with
  | nil => simp [runC]
  | @cons s x ss' xs' h _ ih =>
    rw [List.flatMap_cons, runC_append, run_renderSpec_top cls c hc hm s x h]
    have := ih { c with spectra := c.spectra ++ [x] } hc hm
    rw [this]
    simp

/-- lines the main loop skips -/
def topInert (l : Line) : Bool := !startsGroupList l && !startsSettingsList l && !startsSpectrum l

theorem run_top_inert (c : Core) (hc : c.err = none) (hm : c.mode = .top) (L : List Line)
    (h : ∀ l ∈ L, topInert l = true) : runC c L = c := by
  induction L with
  | nil => rfl
  | cons l r ih =>
    have hl := h l (by simp)
    simp only [topInert, Bool.and_eq_true, Bool.not_eq_true'] at hl
    have : stepCore c l = c := by
      simp [stepCore, hc, hm, hl.1.1, hl.1.2, hl.2]
    simp only [runC, List.foldl_cons, this]
    exact ih (fun l' hl' => h l' (by simp [hl']))

theorem sects_inert (cls : String → Bool) (ss : List Sect) : ∀ l ∈ ss.flatMap (renderSect cls), topInert l = true := by
  intro l hl
  simp only [List.mem_flatMap, renderSect, renderItems, List.mem_append, List.mem_cons, List.mem_map,
    List.not_mem_nil, or_false] at hl
  obtain ⟨s, _, (rfl | ⟨it, _, rfl⟩) | rfl⟩ := hl
  · rfl
  · cases it <;> rfl
  · rfl

/-- `<spectrumList>` starts the first spectrum, whose own `<spectrum …>` line is then skipped inside
`parse_spectrum`; the others are started by their `<spectrum …>` lines -/
theorem run_renderSpectra (cls : String → Bool) (d : Doc) (s0 : Spec) (rest : List Spec) (x0 : SpecInfo)
    (xs : List SpecInfo) (c : Core) (hc : c.err = none) (hm : c.mode = .top)
    (hd : d.spectra = s0 :: rest) (h0 : FastSpec cls s0 x0) (hok : List.Forall₂ (FastSpec cls) rest xs) :
    runC c (renderSpectra cls d) = { c with spectra := c.spectra ++ x0 :: xs } := by
  unfold renderSpectra
  rw [hd, List.flatMap_cons]
  have e0 : ([Line.opn .other "", Line.opn .spectrumList ""] ++ (renderSpec cls s0 ++ rest.flatMap (renderSpec cls))
      ++ [Line.cls .spectrumList, Line.cls .other])
      = [Line.opn .other ""] ++ ([Line.opn .spectrumList ""] ++ ([Line.opn .spectrum ""] ++ ((renderSpecBody cls s0 ++ [Line.cls .spectrum])
          ++ (rest.flatMap (renderSpec cls) ++ [Line.cls .spectrumList, Line.cls .other])))) := by
    simp [renderSpec]
  rw [e0]
  generalize hD : renderSpecBody cls s0 ++ [Line.cls .spectrum] = D
  simp only [runC_append]
  subst hD
  have e1 : runC c [Line.opn .other ""] = c := run_top_inert c hc hm _ (by intro l hl; simp at hl; subst hl; rfl)
  have e2 : runC c [Line.opn .spectrumList ""] = { c with mode := .spectrum { cvs := [], arrays := [] } } := by
    simp [runC, stepCore, hc, hm, startsGroupList, startsSettingsList, startsSpectrum]
  have e3 : runC { c with mode := .spectrum { cvs := [], arrays := [] } } [Line.opn .spectrum ""]
      = { c with mode := .spectrum { cvs := [], arrays := [] } } := by
    simp only [runC, List.foldl_cons, List.foldl_nil]
    exact step_spectrum_other c hc _ _ (Or.inr (Or.inr rfl))
  rw [e1, e2, e3, run_specBody cls c hc s0 x0 h0]
  have hc' : ({ c with mode := .top, spectra := c.spectra ++ [x0] } : Core).err = none := hc
  rw [run_spectra_rest cls rest xs _ hc' rfl hok]
  dsimp only
  rw [run_top_inert { c with mode := .top, spectra := c.spectra ++ [x0] ++ xs } hc rfl]
  · cases c; simp_all
  · intro l hl; simp at hl; rcases hl with rfl | rfl <;> rfl

/-! ### dictionaries against tree queries -/

theorem keys_pairs (cls : String → Bool) (items : List Item) : (pairs cls items).map Prod.fst = accs items := by
  induction items with
  | nil => rfl
  | cons it r ih => cases it <;> simp [pairs, accs, ih]

theorem lookup_pairs (cls : String → Bool) (k : String) (items : List Item) :
    (pairs cls items).lookup k = (firstVal k items).map (reVal cls) := by
  induction items with
  | nil => rfl
  | cons it r ih =>
    cases it with
    | cv a v =>
      simp only [pairs, firstVal, List.lookup_cons]
      by_cases h : k = a
      · subst h; simp
      · have h' : ¬ a = k := fun e => h e.symm
        have hb : (k == a) = false := by simpa using h
        simp [hb, h', ih]
    | ref _ => simpa [pairs, firstVal] using ih
    | misc => simpa [pairs, firstVal] using ih

theorem lookup_none_of_not_mem {V} (l : List (String × V)) (k : String) (h : k ∉ l.map Prod.fst) :
    l.lookup k = none := by
  induction l with
  | nil => rfl
  | cons p r ih =>
    obtain ⟨a, v⟩ := p
    simp only [List.map_cons, List.mem_cons, not_or] at h
    simp only [List.lookup_cons]
    have : (k == a) = false := by simpa using h.1
    rw [this]; exact ih h.2

theorem lookup_isSome_iff {V} (l : List (String × V)) (k : String) :
    (l.lookup k).isSome = true ↔ k ∈ l.map Prod.fst := by
  induction l with
  | nil => simp
  | cons p r ih =>
    obtain ⟨a, v⟩ := p
    simp only [List.lookup_cons, List.map_cons, List.mem_cons]
    by_cases h : k = a
    · subst h; simp
    · have : (k == a) = false := by simpa using h
      rw [this]; simp [ih, h]

/-- with at most one entry for `k`, "last wins" and "first found" coincide -/
theorem lookup_reverse_unique {V} (l : List (String × V)) (k : String) (h : (l.map Prod.fst).count k ≤ 1) :
    l.reverse.lookup k = l.lookup k := by
  induction l with
  | nil => rfl
  | cons p r ih =>
    obtain ⟨a, v⟩ := p
    simp only [List.reverse_cons, List.lookup_append, List.lookup_cons, List.lookup_nil]
    simp only [List.map_cons, List.count_cons] at h
    by_cases hk : k = a
    · subst hk
      have hc : (r.map Prod.fst).count k = 0 := by simp at h; omega
      have hn : k ∉ r.map Prod.fst := List.count_eq_zero.mp hc
      have hn' : k ∉ r.reverse.map Prod.fst := by simpa using hn
      rw [lookup_none_of_not_mem _ _ hn']
      simp
    · have hb : (k == a) = false := by simpa using hk
      have hb' : (a == k) = false := by simpa using (fun e => hk e.symm)
      rw [hb]
      rw [hb'] at h
      simp only [Bool.false_eq_true, if_false, Nat.add_zero] at h
      rw [ih h]
      cases r.lookup k <;> simp

theorem dict_lookup (cls : String → Bool) (k : String) (items : List Item) (h : (accs items).count k ≤ 1) :
    ((pairs cls items).reverse).lookup k = (firstVal k items).map (reVal cls) := by
  rw [lookup_reverse_unique _ _ (by rw [keys_pairs]; exact h), lookup_pairs]

theorem dict_has (cls : String → Bool) (k : String) (items : List Item) :
    (((pairs cls items).reverse).lookup k).isSome = true ↔ k ∈ accs items := by
  rw [lookup_isSome_iff, List.map_reverse, keys_pairs]; simp

theorem hasAcc_iff (k : String) (items : List Item) : hasAcc k items = true ↔ k ∈ accs items := by
  induction items with
  | nil => simp [hasAcc, firstVal, accs]
  | cons it r ih =>
    cases it with
    | cv a v =>
      unfold hasAcc at ih ⊢
      simp only [firstVal, accs, List.mem_cons]
      by_cases h : a = k
      · subst h; simp
      · have h' : ¬ k = a := fun e => h e.symm
        simp [h, h', ih]
    | ref _ => simpa [hasAcc, firstVal, accs] using ih
    | misc => simpa [hasAcc, firstVal, accs] using ih

theorem firstVal_none_of_not_mem (k : String) (items : List Item) (h : k ∉ accs items) : firstVal k items = none := by
  have := (hasAcc_iff k items).not.mpr h
  unfold hasAcc at this
  cases hv : firstVal k items with
  | none => rfl
  | some v => rw [hv] at this; simp at this

theorem accs_append (A B : List Item) : accs (A ++ B) = accs A ++ accs B := by
  induction A with
  | nil => rfl
  | cons it r ih => cases it <;> simp [accs, ih]

theorem firstVal_append (k : String) (A B : List Item) :
    firstVal k (A ++ B) = (firstVal k A).or (firstVal k B) := by
  induction A with
  | nil => simp [firstVal]
  | cons it r ih =>
    cases it with
    | cv a v =>
      simp only [List.cons_append, firstVal]
      by_cases h : a = k <;> simp [h, ih]
    | ref _ => simpa [firstVal] using ih
    | misc => simpa [firstVal] using ih

/-- an accession that occurs exactly once with an accepted value: both parsers read that value -/
theorem oneVal_read (cls : String → Bool) (k : String) (items : List Item) (h : oneVal cls k items) :
    ∃ v, firstVal k items = some (some v) ∧ ((pairs cls items).reverse).lookup k = some (some v) := by
  obtain ⟨hc, hv⟩ := h
  unfold valOk at hv
  cases hf : firstVal k items with
  | none => rw [hf] at hv; simp at hv
  | some ov =>
    cases ov with
    | none => rw [hf] at hv; simp at hv
    | some v =>
      rw [hf] at hv
      refine ⟨v, rfl, ?_⟩
      rw [dict_lookup cls k items (by omega), hf]
      simp [reVal, hv]

theorem optVal_read (cls : String → Bool) (k : String) (items : List Item) (h : optVal cls k items) :
    (firstVal k items = none ∧ ((pairs cls items).reverse).lookup k = none) ∨
    ∃ v, firstVal k items = some (some v) ∧ ((pairs cls items).reverse).lookup k = some (some v) := by
  rcases h with h | h
  · left
    have hn : k ∉ accs items := List.count_eq_zero.mp h
    refine ⟨firstVal_none_of_not_mem k items hn, ?_⟩
    apply lookup_none_of_not_mem
    rw [List.map_reverse, keys_pairs]; simpa using hn
  · right; exact oneVal_read cls k items h

/-! ### element by element: the fast parser reads what the XML parser reads -/

theorem group_agree (cls : String → Bool) (g : Group) (h : GroupOk g) :
    ∃ pg, fastGroup cls g = .ok pg ∧ xmlGroup g = some pg := by
  obtain ⟨hlen, hnc⟩ := h
  have hf1 : binTypes.filter (fun t => (((pairs cls g.items).reverse).lookup t).isSome)
      = binTypes.filter (fun t => decide (t ∈ accs g.items)) := by
    apply List.filter_congr
    intro t _
    rw [Bool.eq_iff_iff, dict_has]; simp
  have hf2 : binTypes.filter (fun t => hasAcc t g.items) = binTypes.filter (fun t => decide (t ∈ accs g.items)) := by
    apply List.filter_congr
    intro t _
    rw [Bool.eq_iff_iff, hasAcc_iff]; simp
  obtain ⟨t, ht⟩ : ∃ t, binTypes.filter (fun t => decide (t ∈ accs g.items)) = [t] := by
    match hl : binTypes.filter (fun t => decide (t ∈ accs g.items)), hlen with
    | [t], _ => exact ⟨t, rfl⟩
  have hnc' : hasAcc accNoCompression g.items = false := by
    rw [Bool.eq_false_iff]; intro hh; exact hnc ((hasAcc_iff _ _).mp hh)
  have hext : (((pairs cls g.items).reverse).lookup accExternal).isSome = hasAcc accExternal g.items := by
    rw [Bool.eq_iff_iff, dict_has, hasAcc_iff]
  refine ⟨{ id := g.id, dtype := t, external := hasAcc accExternal g.items }, ?_, ?_⟩
  · simp only [fastGroup, finishGroup, hf1, ht, List.getLast?_singleton, hext]
  · have : binTypes.find? (fun t => hasAcc t g.items) = some t := by
      rw [← List.head?_filter, hf2, ht]; rfl
    simp [xmlGroup, this, hnc']

theorem settings_agree (cls : String → Bool) (s : Settings) (h : SettingsOk cls s) :
    ∃ x, fastSettings cls s = .ok x ∧ xmlSettings s = some x := by
  obtain ⟨hx, hy, hpx, hpy⟩ := h
  obtain ⟨px, hpx1, hpx2⟩ := oneVal_read cls _ _ hpx
  obtain ⟨py, hpy1, hpy2⟩ := oneVal_read cls _ _ hpy
  rcases optVal_read cls _ _ hx with ⟨hx1, hx2⟩ | ⟨x, hx1, hx2⟩
  · refine ⟨{ size := none, pixel := (px, py) }, ?_, ?_⟩
    · simp [fastSettings, finishSettings, need, hx2, hpx2, hpy2]
    · simp [xmlSettings, hx1, hpx1, hpy1]
  · rcases optVal_read cls _ _ hy with ⟨hy1, hy2⟩ | ⟨y, hy1, hy2⟩
    · refine ⟨{ size := none, pixel := (px, py) }, ?_, ?_⟩
      · simp [fastSettings, finishSettings, need, hx2, hy2, hpx2, hpy2]
      · simp [xmlSettings, hx1, hy1, hpx1, hpy1]
    · refine ⟨{ size := some (x, y), pixel := (px, py) }, ?_, ?_⟩
      · simp [fastSettings, finishSettings, need, hx2, hy2, hpx2, hpy2]
      · simp [xmlSettings, hx1, hy1, hpx1, hpy1]

theorem firstRef_eq (items : List Item) : firstRef items = (refs items).head? := by
  induction items with
  | nil => rfl
  | cons it r ih => cases it <;> simp [firstRef, refs, ih]

theorem arr_agree (cls : String → Bool) (a : Arr) (h : ArrOk cls a) :
    ∃ x, fastArr cls a = .ok x ∧ xmlArr a = some x := by
  obtain ⟨hr, ho, hl⟩ := h
  obtain ⟨o, ho1, ho2⟩ := oneVal_read cls _ _ ho
  obtain ⟨l, hl1, hl2⟩ := oneVal_read cls _ _ hl
  obtain ⟨r, hr'⟩ : ∃ r, refs a.items = [r] := by
    match hh : refs a.items, hr with
    | [r], _ => exact ⟨r, rfl⟩
  refine ⟨(r, o, l), ?_, ?_⟩
  · simp [fastArr, finishArray, need, lastRef, hr', ho2, hl2]
  · simp [xmlArr, firstRef_eq, hr', ho1, hl1]

/-- pointwise agreement lifts to lists: the fast loop's results and `mapM` of the XML reader -/
theorem forall₂_mapM {α β} (P : α → β → Prop) (Q : α → Option β) (l : List α)
    (h : ∀ a ∈ l, ∃ y, P a y ∧ Q a = some y) : ∃ ys, List.Forall₂ P l ys ∧ l.mapM Q = some ys := by
  induction l with
  | nil => exact ⟨[], List.Forall₂.nil, by simp⟩
  | cons a r ih =>
    obtain ⟨y, hy1, hy2⟩ := h a (by simp)
    obtain ⟨ys, hys1, hys2⟩ := ih (fun a' ha' => h a' (by simp [ha']))
    exact ⟨y :: ys, List.Forall₂.cons hy1 hys1, by simp [List.mapM_cons, hy2, hys2]⟩

theorem count_append_accs (k : String) (A B : List Item) :
    (accs (A ++ B)).count k = (accs A).count k + (accs B).count k := by
  rw [accs_append, List.count_append]

theorem spec_agree (cls : String → Bool) (s : Spec) (h : SpecOk cls s) :
    ∃ x, FastSpec cls s x ∧ xmlSpec s = some x := by
  obtain ⟨hne, hpx, hpy, hcx, hcy, hct, htic, harr⟩ := h
  obtain ⟨sc, rest, hsc⟩ : ∃ sc rest, s.scans = sc :: rest := by
    cases hs : s.scans with
    | nil => simp [hs] at hne
    | cons sc rest => exact ⟨sc, rest, rfl⟩
  have hhd : s.scans.headD [] = sc := by simp [hsc]
  rw [hhd] at hpx hpy
  obtain ⟨xs, hxs1, hxs2⟩ := forall₂_mapM (fun a y => fastArr cls a = .ok y) xmlArr s.arrays
    (fun a ha => arr_agree cls a (harr a ha))
  obtain ⟨x, hx1, _⟩ := oneVal_read cls _ _ hpx
  obtain ⟨y, hy1, _⟩ := oneVal_read cls _ _ hpy
  -- the dictionary over everything the spectrum loop sees finds the scan's positions
  have hseen : s.seen = (s.items ++ s.scanlist) ++ (sc ++ (rest.flatten ++ s.tail)) := by
    simp [Spec.seen, hsc]
  have pos_lookup : ∀ k v, (accs s.seen).count k = 1 → (accs sc).count k = 1 → firstVal k sc = some (some v) →
      cls v = true → ((pairs cls s.seen).reverse).lookup k = some (some v) := by
    intro k v hc1 hc2 hf hcl
    rw [dict_lookup cls k s.seen (by omega)]
    have hcnt := hc1
    rw [hseen] at hcnt
    simp only [count_append_accs] at hcnt
    have hA : k ∉ accs (s.items ++ s.scanlist) := List.count_eq_zero.mp (by rw [count_append_accs]; omega)
    rw [hseen, firstVal_append, firstVal_none_of_not_mem k _ hA, firstVal_append, hf]
    simp [reVal, hcl]
  have hclx : cls x = true := by
    have := hpx.2; unfold valOk at this; rw [hx1] at this; exact this
  have hcly : cls y = true := by
    have := hpy.2; unfold valOk at this; rw [hy1] at this; exact this
  have hlx := pos_lookup accPosX x hcx hpx.1 hx1 hclx
  have hly := pos_lookup accPosY y hcy hpy.1 hy1 hcly
  -- total ion current: only direct children of <spectrum> carry it
  have hseen2 : s.seen = s.items ++ ((s.scanlist ++ s.scans.flatten) ++ s.tail) := by simp [Spec.seen]
  have hmid : accTic ∉ accs (s.scanlist ++ s.scans.flatten) := by
    apply List.count_eq_zero.mp
    have := hct
    rw [hseen2] at this
    simp only [count_append_accs] at this ⊢
    omega
  have hfv : firstVal accTic s.seen = firstVal accTic (s.items ++ s.tail) := by
    rw [hseen2, firstVal_append, firstVal_append, firstVal_none_of_not_mem _ _ hmid, firstVal_append]
    simp
  have hcnt_tic : (accs s.seen).count accTic ≤ 1 := by
    rw [hct]
    rcases htic with h0 | h1
    · omega
    · have := h1.1; omega
  have hlt : ((pairs cls s.seen).reverse).lookup accTic = (firstVal accTic (s.items ++ s.tail)).map (reVal cls) := by
    rw [dict_lookup cls _ _ hcnt_tic, hfv]
  rcases htic with h0 | h1
  · have hn : firstVal accTic (s.items ++ s.tail) = none :=
      firstVal_none_of_not_mem _ _ (List.count_eq_zero.mp h0)
    refine ⟨{ x := x, y := y, tic := none, arrays := xs }, ⟨xs, hxs1, ?_⟩, ?_⟩
    · simp [finishSpectrum, need, hlx, hly, hlt, hn]
    · simp [xmlSpec, hsc, hx1, hy1, hxs2, hn]
  · obtain ⟨t, ht1, _⟩ := oneVal_read cls _ _ h1
    have hclt : cls t = true := by
      have := h1.2; unfold valOk at this; rw [ht1] at this; exact this
    refine ⟨{ x := x, y := y, tic := some t, arrays := xs }, ⟨xs, hxs1, ?_⟩, ?_⟩
    · simp [finishSpectrum, need, hlx, hly, hlt, ht1, reVal, hclt]
    · simp [xmlSpec, hsc, hx1, hy1, hxs2, ht1]

/-! ### the two array groups -/

theorem pickG_no (cls : String → Bool) (name : String) (groups : List Group) (old : Option PGroup)
    (h : ∀ g ∈ groups, g.id ≠ name) : pickG cls name old groups = old := by
  induction groups generalizing old with
  | nil => rfl
  | cons g r ih =>
    have hg := h g (by simp)
    simp only [pickG, hg, if_false]
    exact ih old (fun g' hg' => h g' (by simp [hg']))

theorem pickG_unique (cls : String → Bool) (name : String) (groups : List Group) (old : Option PGroup)
    (h : (groups.filter (fun g => g.id = name)).length = 1) :
    ∃ g, g ∈ groups ∧ g.id = name ∧ groups.find? (fun g => g.id = name) = some g ∧
      pickG cls name old groups = (fastGroup cls g).toOption := by
  induction groups generalizing old with
  | nil => simp at h
  | cons g r ih =>
    by_cases hg : g.id = name
    · have hr : ∀ g' ∈ r, g'.id ≠ name := by
        intro g' hg' he
        simp [hg] at h
        exact h g' hg' he
      refine ⟨g, by simp, hg, by simp [hg], ?_⟩
      simp only [pickG, hg, if_true]
      exact pickG_no cls name r _ hr
    · have hlen : (r.filter (fun g => g.id = name)).length = 1 := by
        simpa [List.filter_cons, hg] using h
      obtain ⟨g0, hm, hid, hfind, hpick⟩ := ih old hlen
      refine ⟨g0, by simp [hm], hid, by simp [hg, hfind], ?_⟩
      simp only [pickG, hg, if_false]
      exact hpick

theorem find_congr_mem {α} (l : List α) (p q : α → Bool) (h : ∀ a ∈ l, p a = q a) : l.find? p = l.find? q := by
  induction l with
  | nil => rfl
  | cons a r ih =>
    simp only [List.find?_cons, h a (by simp)]
    rw [ih (fun a' ha' => h a' (by simp [ha']))]

/-- the state of the loops after everything before `<run>`: no error, back at the top level, both
array groups and every `<scanSettings>` read — and the XML parser's queries find the same -/
theorem head_run (cls : String → Bool) (d : Doc) (h : LayoutCore cls d) :
    ∃ pgm pgi sc0 screst gm gi st0 strest,
      runC Core.init (renderHead cls d)
        = { Core.init with mz := some pgm, inten := some pgi, scans := sc0 :: screst } ∧
      d.groups.find? (fun g => hasAcc accMzArray g.items) = some gm ∧
      d.groups.find? (fun g => hasAcc accIntensityArray g.items) = some gi ∧
      xmlGroup gm = some pgm ∧ xmlGroup gi = some pgi ∧
      d.settings = st0 :: strest ∧ xmlSettings st0 = some sc0 := by
  obtain ⟨hmz1, hin1, hmzN, hinN, hgok, hsne, hsok, _, _⟩ := h
  -- groups
  have hgfast : ∀ g ∈ d.groups, g.id = "mzArray" ∨ g.id = "intensities" → ∃ pg, fastGroup cls g = .ok pg := by
    intro g hg hid
    obtain ⟨pg, h1, _⟩ := group_agree cls g (hgok g hg hid)
    exact ⟨pg, h1⟩
  obtain ⟨gm, hgm, hgmid, hgmfind, hgmpick⟩ := pickG_unique cls "mzArray" d.groups none hmz1
  obtain ⟨gi, hgi, hgiid, hgifind, hgipick⟩ := pickG_unique cls "intensities" d.groups none hin1
  obtain ⟨pgm, hpgm1, hpgm2⟩ := group_agree cls gm (hgok gm hgm (Or.inl hgmid))
  obtain ⟨pgi, hpgi1, hpgi2⟩ := group_agree cls gi (hgok gi hgi (Or.inr hgiid))
  have hxm : d.groups.find? (fun g => hasAcc accMzArray g.items) = some gm := by
    rw [← hgmfind]
    apply find_congr_mem
    intro g hg
    rw [Bool.eq_iff_iff, hasAcc_iff]; simp [hmzN g hg]
  have hxi : d.groups.find? (fun g => hasAcc accIntensityArray g.items) = some gi := by
    rw [← hgifind]
    apply find_congr_mem
    intro g hg
    rw [Bool.eq_iff_iff, hasAcc_iff]; simp [hinN g hg]
  -- scan settings
  obtain ⟨scs, hscs1, hscs2⟩ := forall₂_mapM (fun s x => fastSettings cls s = .ok x) xmlSettings d.settings
    (fun s hs => settings_agree cls s (hsok s hs))
  obtain ⟨st0, strest, hst⟩ : ∃ st0 strest, d.settings = st0 :: strest := by
    cases hs : d.settings with
    | nil => simp [hs] at hsne
    | cons a r => exact ⟨a, r, rfl⟩
  obtain ⟨sc0, screst, hsc, hsc0⟩ : ∃ sc0 screst, scs = sc0 :: screst ∧ xmlSettings st0 = some sc0 := by
    rw [hst] at hscs1 hscs2
    cases hscs1 with
    | cons h1 h2 =>
      refine ⟨_, _, rfl, ?_⟩
      simp only [List.mapM_cons] at hscs2
      cases hx : xmlSettings st0 with
      | none => simp [hx] at hscs2
      | some v =>
        simp only [hx] at hscs2
        cases hr : List.mapM xmlSettings strest with
        | none => simp [hr] at hscs2
        | some vs => simp [hr] at hscs2; rw [hscs2.1]
  -- the machine
  have hmid : ∀ c : Core, c.err = none → c.mode = .top → c.mz = none → c.inten = none →
      runC c (if d.settingsFirst
        then renderSettingsList cls d ++ d.mid1.flatMap (renderSect cls) ++ renderGroups cls d
        else renderGroups cls d ++ d.mid1.flatMap (renderSect cls) ++ renderSettingsList cls d)
        = { c with mz := some pgm, inten := some pgi, scans := c.scans ++ scs } := by
    intro c hc hm hz hi
    have hp1 : pickG cls "mzArray" c.mz d.groups = some pgm := by rw [hz, hgmpick, hpgm1]; rfl
    have hp2 : pickG cls "intensities" c.inten d.groups = some pgi := by rw [hi, hgipick, hpgi1]; rfl
    split
    · simp only [runC_append]
      rw [run_renderSettingsList cls d scs c hc hm hscs1]
      rw [run_top_inert { c with scans := c.scans ++ scs } hc hm _ (sects_inert cls d.mid1)]
      rw [run_renderGroups cls d { c with scans := c.scans ++ scs } hc hm hgfast]
      simp only [hp1, hp2]
    · simp only [runC_append]
      rw [run_renderGroups cls d c hc hm hgfast]
      simp only [hp1, hp2]
      rw [run_top_inert { c with mz := some pgm, inten := some pgi } hc hm _ (sects_inert cls d.mid1)]
      rw [run_renderSettingsList cls d scs { c with mz := some pgm, inten := some pgi } hc hm hscs1]
  refine ⟨pgm, pgi, sc0, screst, gm, gi, st0, strest, ?_, hxm, hxi, hpgm2, hpgi2, hst, hsc0⟩
  unfold renderHead
  generalize hM : (if d.settingsFirst
      then renderSettingsList cls d ++ d.mid1.flatMap (renderSect cls) ++ renderGroups cls d
      else renderGroups cls d ++ d.mid1.flatMap (renderSect cls) ++ renderSettingsList cls d) = M at hmid ⊢
  simp only [runC_append]
  have e1 : runC Core.init (if d.decl then [Line.misc] else []) = Core.init := by
    apply run_top_inert _ rfl rfl
    intro l hl; split at hl <;> simp at hl; subst hl; rfl
  have e2 : runC Core.init [Line.opn .other ""] = Core.init := by
    apply run_top_inert _ rfl rfl
    intro l hl; simp at hl; subst hl; rfl
  rw [e1, e2, run_top_inert _ rfl rfl _ (sects_inert cls d.pre), hmid Core.init rfl rfl rfl rfl]
  rw [run_top_inert _ rfl rfl _ (sects_inert cls d.mid2)]
  simp [Core.init, hsc]

/-- under the layout every `<spectrum>` is read alike by both parsers -/
theorem spectra_agree (cls : String → Bool) (d : Doc) (h : LayoutCore cls d) :
    ∃ s0 srest x0 xs, d.spectra = s0 :: srest ∧ FastSpec cls s0 x0 ∧ List.Forall₂ (FastSpec cls) srest xs ∧
      d.spectra.mapM xmlSpec = some (x0 :: xs) := by
  obtain ⟨_, _, _, _, _, _, _, hpne, hpok⟩ := h
  obtain ⟨sps, hsps1, hsps2⟩ := forall₂_mapM (FastSpec cls) xmlSpec d.spectra
    (fun s hs => spec_agree cls s (hpok s hs))
  obtain ⟨s0, srest, hsp⟩ : ∃ s0 srest, d.spectra = s0 :: srest := by
    cases hs : d.spectra with
    | nil => simp [hs] at hpne
    | cons a r => exact ⟨a, r, rfl⟩
  rw [hsp] at hsps1
  cases hsps1 with
  | cons h1 h2 => exact ⟨s0, srest, _, _, hsp, h1, h2, hsps2⟩

theorem tail_inert (cls : String → Bool) (d : Doc) : ∀ l ∈ renderTail cls d, topInert l = true := by
  intro l hl
  unfold renderTail at hl
  rw [List.mem_append] at hl
  rcases hl with hl | hl
  · exact sects_inert cls d.post l hl
  · simp at hl; subst hl; rfl

/-! ### assembly -/

theorem core_eq_xml (cls : String → Bool) (d : Doc) (h : LayoutCore cls d) :
    ∃ m, finishCore (coreRun (render cls d)) = .ok m ∧ xmlView d = some m := by
  obtain ⟨pgm, pgi, sc0, screst, gm, gi, st0, strest, hhead, hxm, hxi, hpgm2, hpgi2, hst, hsc0⟩ := head_run cls d h
  obtain ⟨s0, srest, x0, xs, hsp, hx0, hxrest, hsps2⟩ := spectra_agree cls d h
  have hrun : coreRun (render cls d)
      = { Core.init with mz := some pgm, inten := some pgi, scans := sc0 :: screst, spectra := x0 :: xs } := by
    unfold coreRun render
    change runC Core.init _ = _
    simp only [runC_append]
    rw [hhead]
    rw [run_renderSpectra cls d s0 srest x0 xs _ rfl rfl hsp hx0 hxrest]
    rw [run_top_inert _ rfl rfl _ (tail_inert cls d)]
    simp [Core.init]
  refine ⟨{ scan := sc0, mz := pgm, inten := pgi, spectra := x0 :: xs }, ?_, ?_⟩
  · rw [hrun]
    simp [finishCore, Core.init]
  · simp [xmlView, hxm, hxi, hsps2, hst, hsc0, hpgm2, hpgi2]

/-! ### positions and the callback -/

abbrev runS (cb : Nat → Bool) (s : St) (ls : List (Line × Nat)) : St := ls.foldl (step cb) s

theorem step_aborted (cb : Nat → Bool) (s : St) (ln : Line × Nat) (h : s.aborted = true) : step cb s ln = s := by
  simp [step, h]

/-- while no callback has returned False the machine is the callback-free parser -/
theorem runS_core (cb : Nat → Bool) (ls : List (Line × Nat)) (s : St)
    (h : (runS cb s ls).aborted = false) :
    s.aborted = false ∧ (runS cb s ls).core = (ls.map Prod.fst).foldl stepCore s.core := by
  induction ls generalizing s with
  | nil => exact ⟨h, rfl⟩
  | cons ln r ih =>
    simp only [runS, List.foldl_cons] at h ⊢
    obtain ⟨h1, h2⟩ := ih (step cb s ln) h
    have hs : s.aborted = false := by
      cases hb : s.aborted with
      | false => rfl
      | true => rw [step_aborted cb s ln hb] at h1; rw [hb] at h1; exact h1
    refine ⟨hs, ?_⟩
    rw [h2]
    simp only [List.map_cons, List.foldl_cons]
    congr 1
    unfold step at h1 ⊢
    simp only [hs, Bool.false_eq_true, if_false] at h1 ⊢
    split
    · split
      · rfl
      · rename_i hcall hcb
        simp [hcall, hcb] at h1
    · rfl

/-- the state of the callback protocol: either every invocation so far returned True and the import
goes on, or the LAST invocation returned False, all earlier ones True, and the import is aborted -/
def CbInv (cb : Nat → Bool) (s : St) : Prop :=
  (s.aborted = false ∧ ∀ p ∈ s.calls, cb p = true) ∨
  (s.aborted = true ∧ ∃ pre p, s.calls = pre ++ [p] ∧ cb p = false ∧ ∀ q ∈ pre, cb q = true)

theorem step_cbInv (cb : Nat → Bool) (s : St) (ln : Line × Nat) (h : CbInv cb s) : CbInv cb (step cb s ln) := by
  rcases h with ⟨ha, hall⟩ | ⟨ha, hex⟩
  · unfold step
    simp only [ha, Bool.false_eq_true, if_false]
    split
    · split
      · rename_i _ hcb
        left
        refine ⟨rfl, ?_⟩
        intro p hp
        simp only [List.mem_append, List.mem_singleton] at hp
        rcases hp with hp | rfl
        · exact hall p hp
        · exact hcb
      · rename_i _ hcb
        right
        exact ⟨rfl, s.calls, _, rfl, by simpa using hcb, hall⟩
    · left; exact ⟨rfl, hall⟩
  · right
    rw [step_aborted cb s ln ha]
    exact ⟨ha, hex⟩

theorem runS_cbInv (cb : Nat → Bool) (ls : List (Line × Nat)) (s : St) (h : CbInv cb s) : CbInv cb (runS cb s ls) := by
  induction ls generalizing s with
  | nil => exact h
  | cons ln r ih => exact ih _ (step_cbInv cb s ln h)

theorem init_cbInv (cb : Nat → Bool) : CbInv cb St.init := by
  left; exact ⟨rfl, by intro p hp; simp [St.init] at hp⟩

/-- positions: non-decreasing, and never beyond the current file position -/
def PosInv (s : St) : Prop := s.calls.Pairwise (· ≤ ·) ∧ ∀ p ∈ s.calls, p ≤ s.pos

theorem step_posInv (cb : Nat → Bool) (s : St) (ln : Line × Nat) (h : PosInv s) : PosInv (step cb s ln) := by
  obtain ⟨h1, h2⟩ := h
  have happ : (s.calls ++ [s.pos + ln.2]).Pairwise (· ≤ ·) := by
    rw [List.pairwise_append]
    refine ⟨h1, by simp, ?_⟩
    intro a ha b hb
    simp at hb; subst hb
    have := h2 a ha; omega
  have hle : ∀ p ∈ s.calls ++ [s.pos + ln.2], p ≤ s.pos + ln.2 := by
    intro p hp
    simp only [List.mem_append, List.mem_singleton] at hp
    rcases hp with hp | rfl
    · have := h2 p hp; omega
    · exact Nat.le_refl _
  unfold step
  split
  · exact ⟨h1, h2⟩
  · simp only
    split
    · split
      · exact ⟨happ, hle⟩
      · exact ⟨happ, hle⟩
    · exact ⟨h1, fun p hp => by have := h2 p hp; simp only; omega⟩

theorem runS_posInv (cb : Nat → Bool) (ls : List (Line × Nat)) (s : St) (h : PosInv s) : PosInv (runS cb s ls) := by
  induction ls generalizing s with
  | nil => exact h
  | cons ln r ih => exact ih _ (step_posInv cb s ln h)

/-! ### one invocation per spectrum -/

def inSpec : Mode → Nat
  | .spectrum _ => 1
  | .arrayList _ => 1
  | .array _ _ _ => 1
  | _ => 0

/-- spectra finished plus the one being parsed -/
def started (c : Core) : Nat := c.spectra.length + inSpec c.mode

theorem stepCore_started (c : Core) (l : Line) :
    started (stepCore c l) = started c + (if isCall c l then 1 else 0) := by
  unfold stepCore isCall started
  cases he : c.err with
  | some e => simp
  | none =>
    simp only [Option.isSome_none, Bool.false_eq_true, if_false, Option.isNone_none, Bool.true_and]
    cases hm : c.mode with
    | top =>
      simp only
      by_cases h1 : startsGroupList l = true
      · simp [h1, inSpec]
      · by_cases h2 : startsSettingsList l = true
        · simp [h1, h2, inSpec]
        · by_cases h3 : startsSpectrum l = true
          · simp [h1, h2, h3, inSpec]
          · simp [h1, h2, h3, inSpec, hm]
    | groupList =>
      simp only
      split
      · split
        · simp [inSpec]
        · split <;> simp [inSpec, hm]
      · split <;> simp [inSpec, hm]
    | group b id cvs =>
      simp only
      split
      · split
        · simp [Core.fail, inSpec, hm]
        · split <;> simp [inSpec]
      · simp [inSpec]
    | settingsList =>
      simp only
      split
      · simp [inSpec]
      · split <;> simp [inSpec, hm]
    | settings cvs =>
      simp only
      split
      · split
        · simp [Core.fail, inSpec, hm]
        · simp [inSpec]
      · simp [inSpec]
    | spectrum acc =>
      simp only
      split
      · simp [inSpec]
      · split
        · simp [inSpec]
        · split
          · split
            · simp [Core.fail, inSpec, hm]
            · simp [inSpec]
          · simp [inSpec, hm]
    | arrayList acc =>
      simp only
      split
      · simp [inSpec]
      · split <;> simp [inSpec, hm]
    | array acc cvs id =>
      simp only
      split
      · split
        · simp [Core.fail, inSpec, hm]
        · simp [inSpec]
      · simp [inSpec]

theorem step_calls (cb : Nat → Bool) (s : St) (ln : Line × Nat)
    (h : s.aborted = true ∨ s.calls.length = started s.core) :
    (step cb s ln).aborted = true ∨ (step cb s ln).calls.length = started (step cb s ln).core := by
  rcases h with h | h
  · left; rw [step_aborted cb s ln h]; exact h
  · unfold step
    cases ha : s.aborted with
    | true => left; simp [ha]
    | false =>
      simp only [Bool.false_eq_true, if_false]
      split
      · rename_i hcall
        split
        · right
          simp only [List.length_append, List.length_singleton, stepCore_started, hcall, if_true, h]
        · left; rfl
      · rename_i hcall
        right
        simp only [stepCore_started, hcall, h]
        simp

theorem runS_calls (cb : Nat → Bool) (ls : List (Line × Nat)) (s : St)
    (h : s.aborted = true ∨ s.calls.length = started s.core) :
    (runS cb s ls).aborted = true ∨ (runS cb s ls).calls.length = started (runS cb s ls).core := by
  induction ls generalizing s with
  | nil => exact h
  | cons ln r ih => exact ih _ (step_calls cb s ln h)

theorem mapM_length {α β} (f : α → Option β) (l : List α) (ys : List β) (h : l.mapM f = some ys) :
    ys.length = l.length := by
  induction l generalizing ys with
  | nil => simp at h; subst h; rfl
  | cons a r ih =>
    simp only [List.mapM_cons] at h
    cases hf : f a with
    | none => simp [hf] at h
    | some b =>
      cases hr : r.mapM f with
      | none => simp [hf, hr] at h
      | some bs =>
        simp [hf, hr] at h
        subst h
        simp [ih bs hr]

end Pew.FastParse
