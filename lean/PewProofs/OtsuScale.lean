import PewProofs.Otsu
import Mathlib.Algebra.Order.Ring.Abs
import Mathlib.Algebra.Order.Field.Power
import Mathlib.Tactic.Push

/-! # C15 — the rescaling step of `otsu`: `np.frexp` exponent, centres in units of a power of two -/
namespace Pew.Otsu

theorem pow2_eq_zpow (k : Int) : pow2 k = (2 : ℚ) ^ k := by
  unfold pow2
  split
  · rename_i h
    have : ((2 ^ k.toNat : ℕ) : ℚ) = (2 : ℚ) ^ (k.toNat : ℤ) := by push_cast; rw [zpow_natCast]
    rw [this, Int.toNat_of_nonneg h]
  · rename_i h
    have hk : 0 ≤ -k := by omega
    have : ((2 ^ (-k).toNat : ℕ) : ℚ) = (2 : ℚ) ^ ((-k).toNat : ℤ) := by push_cast; rw [zpow_natCast]
    rw [this, Int.toNat_of_nonneg hk, zpow_neg, one_div, inv_inv]

theorem absQ_eq_abs (q : ℚ) : absQ q = |q| := by
  unfold absQ
  split
  · rename_i h; rw [abs_of_neg h]
  · rename_i h; rw [abs_of_nonneg (not_lt.mp h)]

theorem pow2_add (a b : Int) : pow2 (a + b) = pow2 a * pow2 b := by
  simp only [pow2_eq_zpow]
  exact zpow_add₀ (by norm_num) a b

theorem pow2_neg_mul (k : Int) : pow2 (-k) * pow2 k = 1 := by
  rw [← pow2_add]; simp [pow2_eq_zpow]

/-- `np.frexp`: the exponent brackets the magnitude, `2^(e-1) ≤ |q| < 2^e` -/
theorem frexpExp_spec (q : ℚ) (hq : q ≠ 0) :
    (2 : ℚ) ^ (frexpExp q - 1) ≤ |q| ∧ |q| < (2 : ℚ) ^ (frexpExp q) := by
  have ha : q.num.natAbs ≠ 0 := Int.natAbs_ne_zero.mpr (Rat.num_ne_zero.mpr hq)
  have hb : q.den ≠ 0 := q.den_nz
  have hbq : (0 : ℚ) < (q.den : ℚ) := by exact_mod_cast Nat.pos_of_ne_zero hb
  have habs : |q| * (q.den : ℚ) = (q.num.natAbs : ℚ) := by
    have e : (q.num.natAbs : ℚ) = |(q.num : ℚ)| := by
      rw [← Int.cast_abs, ← Int.natCast_natAbs, Int.cast_natCast]
    have h := congrArg abs (Rat.num_div_den q)
    rw [abs_div, abs_of_pos hbq] at h
    rw [e, ← h]
    field_simp
  have a1 : (2 : ℚ) ^ ((Nat.log2 q.num.natAbs : ℕ) : ℤ) ≤ (q.num.natAbs : ℚ) := by
    rw [zpow_natCast]; exact_mod_cast Nat.log2_self_le ha
  have a2 : (q.num.natAbs : ℚ) < (2 : ℚ) ^ (((Nat.log2 q.num.natAbs : ℕ) : ℤ) + 1) := by
    have : (q.num.natAbs : ℚ) < (2 : ℚ) ^ (Nat.log2 q.num.natAbs + 1) := by
      exact_mod_cast (Nat.lt_log2_self (n := q.num.natAbs))
    rwa [← zpow_natCast, Nat.cast_add, Nat.cast_one] at this
  have b1 : (2 : ℚ) ^ ((Nat.log2 q.den : ℕ) : ℤ) ≤ (q.den : ℚ) := by
    rw [zpow_natCast]; exact_mod_cast Nat.log2_self_le hb
  have b2 : (q.den : ℚ) < (2 : ℚ) ^ (((Nat.log2 q.den : ℕ) : ℤ) + 1) := by
    have : (q.den : ℚ) < (2 : ℚ) ^ (Nat.log2 q.den + 1) := by
      exact_mod_cast (Nat.lt_log2_self (n := q.den))
    rwa [← zpow_natCast, Nat.cast_add, Nat.cast_one] at this
  unfold frexpExp
  rw [if_neg hq]
  simp only [absQ_eq_abs, pow2_eq_zpow]
  generalize (Nat.log2 q.num.natAbs : ℤ) = la at *
  generalize (Nat.log2 q.den : ℤ) = lb at *
  have two : (2 : ℚ) ≠ 0 := by norm_num
  -- 2^(la - lb - 1) < |q| < 2^(la - lb + 1)
  have lo : (2 : ℚ) ^ (la - lb - 1) < |q| := by
    have : (2 : ℚ) ^ (la - lb - 1) * (q.den : ℚ) < |q| * (q.den : ℚ) := by
      rw [habs]
      calc (2 : ℚ) ^ (la - lb - 1) * (q.den : ℚ) < (2 : ℚ) ^ (la - lb - 1) * (2 : ℚ) ^ (lb + 1) :=
            mul_lt_mul_of_pos_left b2 (by positivity)
        _ = (2 : ℚ) ^ la := by rw [← zpow_add₀ two]; congr 1; ring
        _ ≤ _ := a1
    exact lt_of_mul_lt_mul_right this hbq.le
  have hi : |q| < (2 : ℚ) ^ (la - lb + 1) := by
    have : |q| * (q.den : ℚ) < (2 : ℚ) ^ (la - lb + 1) * (q.den : ℚ) := by
      rw [habs]
      calc (q.num.natAbs : ℚ) < (2 : ℚ) ^ (la + 1) := a2
        _ = (2 : ℚ) ^ (la - lb + 1) * (2 : ℚ) ^ lb := by rw [← zpow_add₀ two]; congr 1; ring
        _ ≤ _ := mul_le_mul_of_nonneg_left b1 (by positivity)
    exact lt_of_mul_lt_mul_right this hbq.le
  split
  · rename_i h
    refine ⟨?_, hi⟩
    have : la - lb + 1 - 1 = la - lb := by ring
    rw [this]; exact h
  · rename_i h
    exact ⟨lo.le, not_le.mp h⟩

/-- the bracket determines the exponent -/
theorem frexpExp_unique (q : ℚ) (e : Int) (h1 : (2 : ℚ) ^ (e - 1) ≤ |q|) (h2 : |q| < (2 : ℚ) ^ e) :
    frexpExp q = e := by
  have hq : q ≠ 0 := by
    intro h; rw [h, abs_zero] at h1
    exact absurd h1 (not_le.mpr (by positivity))
  obtain ⟨s1, s2⟩ := frexpExp_spec q hq
  have one : (1 : ℚ) < 2 := by norm_num
  have c1 : e - 1 < frexpExp q := (zpow_lt_zpow_iff_right₀ one).mp (lt_of_le_of_lt h1 s2)
  have c2 : frexpExp q - 1 < e := (zpow_lt_zpow_iff_right₀ one).mp (lt_of_le_of_lt s1 h2)
  omega

/-- multiplying by `2^k` adds `k` to the exponent -/
theorem frexpExp_pow2_mul (k : Int) (q : ℚ) (hq : q ≠ 0) : frexpExp (pow2 k * q) = frexpExp q + k := by
  obtain ⟨s1, s2⟩ := frexpExp_spec q hq
  have two : (2 : ℚ) ≠ 0 := by norm_num
  have hp : (0 : ℚ) < (2 : ℚ) ^ k := by positivity
  apply frexpExp_unique
  · rw [pow2_eq_zpow, abs_mul, abs_of_pos hp]
    have : frexpExp q + k - 1 = k + (frexpExp q - 1) := by ring
    rw [this, zpow_add₀ two]
    exact mul_le_mul_of_nonneg_left s1 hp.le
  · rw [pow2_eq_zpow, abs_mul, abs_of_pos hp]
    have : frexpExp q + k = k + frexpExp q := by ring
    rw [this, zpow_add₀ two]
    exact mul_lt_mul_of_pos_left s2 hp

/-! ### the exponent of the outer edges, and the rescaled centres -/

theorem scaleExp_def (edges : List Rat) : scaleExp edges = frexpExp (outerMag edges) := rfl

theorem outerMag_nonneg (edges : List Rat) : 0 ≤ outerMag edges := by
  unfold outerMag
  rw [absQ_eq_abs]
  exact le_max_of_le_left (abs_nonneg _)

theorem outerMag_scale (c : Rat) (hc : 0 < c) (edges : List Rat) :
    outerMag (edges.map (c * ·)) = c * outerMag edges := by
  unfold outerMag
  rw [List.length_map, getD_map_mul, getD_map_mul]
  simp only [absQ_eq_abs, abs_mul, abs_of_pos hc]
  rw [mul_max_of_nonneg _ _ hc.le]

theorem scaleExp_pow2 (k : Int) (edges : List Rat) (hM : outerMag edges ≠ 0) :
    scaleExp (edges.map (pow2 k * ·)) = scaleExp edges + k := by
  rw [scaleExp_def, scaleExp_def, outerMag_scale _ (pow2_pos k), frexpExp_pow2_mul k _ hM]

/-- **The operands of the criterion do not depend on the power-of-two scale of the data.**  Multiplying all edges by
`2^k` shifts the exponent by `k`, and the rescaled centres - what `hist * centers` is formed from - are the same
numbers.  (In floating point: the same bit patterns, so the criterion array and its argmax are the same array and
the same index, and the returned centre is `2^k` times the other, short of over/underflow of the edges.) -/
theorem scaledCentres_pow2 (k : Int) (edges : List Rat) (hM : outerMag edges ≠ 0) :
    scaledCentres (edges.map (pow2 k * ·)) = scaledCentres edges := by
  unfold scaledCentres
  rw [scaleExp_pow2 k edges hM, centres_scale, List.map_map]
  apply List.map_congr_left
  intro c _
  simp only [Function.comp]
  have : -(scaleExp edges + k) = -(scaleExp edges) + -k := by ring
  rw [this, pow2_add, mul_assoc, ← mul_assoc (pow2 (-k)), pow2_neg_mul, one_mul]

theorem otsuHistS_pow2 (k : Int) (hist : List Nat) (edges : List Rat) (hM : outerMag edges ≠ 0) :
    otsuHistS hist (edges.map (pow2 k * ·)) = pow2 k * otsuHistS hist edges := by
  unfold otsuHistS
  rw [scaledCentres_pow2 k edges hM, centres_scale, getD_map_mul]

/-- every centre lies between the outer edges -/
theorem centre_between (edges : List Rat) (hp : edges.Pairwise (· < ·)) (i : Nat) (hi : i + 1 < edges.length) :
    edges.getD 0 0 ≤ (centres edges).getD i 0 ∧ (centres edges).getD i 0 ≤ edges.getD (edges.length - 1) 0 := by
  rw [centres_getD edges i hi]
  have h1 := pairwise_getD_le edges hp 0 (i + 1) (by omega) (by omega)
  have h2 := pairwise_getD_le edges hp 0 i (by omega) (by omega)
  have h3 := pairwise_getD_le edges hp (i + 1) (edges.length - 1) (by omega) (by omega)
  have h4 := pairwise_getD_le edges hp i (edges.length - 1) (by omega) (by omega)
  constructor <;> linarith

theorem outerMag_pos (edges : List Rat) (hp : edges.Pairwise (· < ·)) (hn : 2 ≤ edges.length) :
    0 < outerMag edges := by
  have h := pairwise_getD_lt edges hp 0 (edges.length - 1) (by omega) (by omega)
  unfold outerMag
  simp only [absQ_eq_abs]
  rcases lt_or_ge (edges.getD 0 0) 0 with h0 | h0
  · exact lt_max_of_lt_left (abs_pos.mpr h0.ne)
  · have hpos : 0 < edges.getD (edges.length - 1) 0 := by linarith
    exact lt_max_of_lt_right (abs_pos.mpr hpos.ne')

/-- the rescaled centres are numbers of magnitude below one (no overflow when their difference is squared), and the
larger outer edge is at least one half in these units -/
theorem scaledCentres_bounded (edges : List Rat) (hp : edges.Pairwise (· < ·)) (hn : 2 ≤ edges.length) :
    (∀ i, i + 1 < edges.length → |(scaledCentres edges).getD i 0| < 1) ∧
    1 / 2 ≤ pow2 (-(scaleExp edges)) * outerMag edges ∧ pow2 (-(scaleExp edges)) * outerMag edges < 1 := by
  have hM := outerMag_pos edges hp hn
  obtain ⟨s1, s2⟩ := frexpExp_spec (outerMag edges) hM.ne'
  rw [abs_of_pos hM, ← scaleExp_def] at s1 s2
  have two : (2 : ℚ) ≠ 0 := by norm_num
  have hpw : pow2 (-(scaleExp edges)) = ((2 : ℚ) ^ (scaleExp edges))⁻¹ := by rw [pow2_eq_zpow, zpow_neg]
  have hpos : (0 : ℚ) < (2 : ℚ) ^ (scaleExp edges) := by positivity
  refine ⟨fun i hi => ?_, ?_, ?_⟩
  · unfold scaledCentres
    rw [getD_map_mul, abs_mul, abs_of_pos (pow2_pos _), hpw, inv_mul_lt_iff₀ hpos, mul_one]
    obtain ⟨c1, c2⟩ := centre_between edges hp i hi
    have hc : |(centres edges).getD i 0| ≤ outerMag edges := by
      unfold outerMag
      simp only [absQ_eq_abs]
      rw [abs_le]
      constructor
      · have := neg_abs_le (edges.getD 0 0)
        have := le_max_left |edges.getD 0 0| |edges.getD (edges.length - 1) 0|
        linarith
      · have := le_abs_self (edges.getD (edges.length - 1) 0)
        have := le_max_right |edges.getD 0 0| |edges.getD (edges.length - 1) 0|
        linarith
    linarith
  · rw [hpw, le_inv_mul_iff₀ hpos]
    have : (2 : ℚ) ^ (scaleExp edges) = (2 : ℚ) ^ (scaleExp edges - 1) * 2 := by
      rw [zpow_sub₀ two, zpow_one]; field_simp
    rw [this]; linarith
  · rw [hpw, inv_mul_lt_iff₀ hpos, mul_one]; exact s2

end Pew.Otsu
