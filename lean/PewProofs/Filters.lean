import PewModel.Filters
import Mathlib.Tactic.Ring
import Mathlib.Tactic.Linarith
import Mathlib.Algebra.Order.Field.Rat

/-! helper lemmas for C13 -/
namespace Pew.Filters

/-! ### slices of padded lists -/

theorem slice_length {α} (i b : Nat) (l : List α) : (slice i b l).length = min b (l.length - i) := by
  simp [slice]

theorem getElem?_slice {α} (i b k : Nat) (l : List α) :
    (slice i b l)[k]? = if k < b then l[i + k]? else none := by
  unfold slice
  rw [List.getElem?_take]
  split
  · rw [List.getElem?_drop]
  · rfl

theorem padEnds_length {α} (h : Nat) (a c : α) (x : List α) :
    (padEnds h a c x).length = x.length + 2 * h := by
  simp [padEnds]; omega

/-- the padded line, index by index -/
theorem getElem?_padEnds {α} (h : Nat) (a c : α) (x : List α) (k : Nat) :
    (padEnds h a c x)[k]? =
      if k < h then some a else if k < h + x.length then x[k - h]?
      else if k < h + x.length + h then some c else none := by
  unfold padEnds
  simp only [List.getElem?_append, List.getElem?_replicate, List.length_append, List.length_replicate]
  by_cases h1 : k < h
  · have : k < h + x.length := by omega
    simp [h1, this]
  · by_cases h2 : k < h + x.length
    · simp [h1, h2]
    · have e : k - (h + x.length) = k - h - x.length := by omega
      by_cases h3 : k < h + x.length + h
      · have : k - h - x.length < h := by omega
        simp [h1, h2, h3, e, this]
      · have : ¬ k - h - x.length < h := by omega
        simp [h1, h2, h3, e, this]

/-- a window that starts at least `h` after the left end and ends at least `h` before the right
end of the padded line contains no padded value -/
theorem slice_padEnds_interior {α} (h b i : Nat) (a c : α) (x : List α)
    (hi : h ≤ i) (hb : i - h + b ≤ x.length) :
    slice i b (padEnds h a c x) = slice (i - h) b x := by
  apply List.ext_getElem?
  intro k
  rw [getElem?_slice, getElem?_slice]
  split
  · rw [getElem?_padEnds]
    have h1 : ¬ (i + k < h) := by omega
    have h2 : i + k < h + x.length := by omega
    simp only [h1, h2, if_true, if_false]
    congr 1; omega
  · rfl

theorem slice_add {α} (j a c : Nat) (l : List α) :
    slice j (a + c) l = slice j a l ++ slice (j + a) c l := by
  unfold slice
  rw [List.take_add, List.drop_drop]

theorem slice_one {α} (k : Nat) (l : List α) (hk : k < l.length) : slice k 1 l = [l[k]] := by
  unfold slice
  rw [List.drop_eq_getElem_cons hk]
  rfl

theorem slice_length_of_le {α} (i b : Nat) (l : List α) (h : i + b ≤ l.length) :
    (slice i b l).length = b := by
  rw [slice_length]; omega

/-- the `2h+1` window around pixel `i`: `h` before, the pixel, `h` after -/
theorem slice_centre {α} (h i : Nat) (l : List α) (hi : h ≤ i) (hn : i < l.length) :
    slice (i - h) (2 * h + 1) l = slice (i - h) h l ++ l[i] :: slice (i + 1) h l := by
  have e : 2 * h + 1 = h + (1 + h) := by omega
  rw [e, slice_add, slice_add]
  have e2 : i - h + h = i := by omega
  rw [e2, slice_one i l hn]
  rfl

theorem eraseIdx_centre {α} (A B : List α) (a : α) (h : Nat) (hA : A.length = h) :
    (A ++ a :: B).eraseIdx h = A ++ B := by
  rw [List.eraseIdx_append_of_length_le (by omega)]
  simp [hA]

theorem slice_map {α β} (f : α → β) (i b : Nat) (l : List α) :
    slice i b (l.map f) = (slice i b l).map f := by
  simp [slice]

/-! ### lengths and indexing of the mechanism -/

theorem pad1_length (stat : List Rat → Rat) (h : Nat) (x : List Rat) :
    (pad1 stat h x).length = x.length + 2 * h := padEnds_length _ _ _ _

theorem windows1_length (b : Nat) (p : List Rat) : (windows1 b p).length = p.length + 1 - b := by
  simp [windows1]

theorem getElem?_windows1 (b : Nat) (p : List Rat) (i : Nat) (hi : i < p.length + 1 - b) :
    (windows1 b p)[i]? = some (slice i b p) := by
  simp [windows1, hi]

theorem half_odd (h : Nat) : (2 * h + 1) / 2 = h := by omega

theorem getElem?_meanCells1 (h : Nat) (x : List Rat) (i : Nat) (hi : i < x.length) :
    (meanCells1 (2 * h + 1) x)[i]? =
      some (meanCell x[i] (slice i (2 * h + 1) (pad1 mean h x))
        ((slice i (2 * h + 1) (pad1 mean h x)).eraseIdx h)) := by
  unfold meanCells1
  rw [half_odd, List.getElem?_zipWith, getElem?_windows1 _ _ _ (by rw [pad1_length]; omega)]
  simp [hi]

theorem meanCells1_length (h : Nat) (x : List Rat) : (meanCells1 (2 * h + 1) x).length = x.length := by
  unfold meanCells1
  rw [half_odd, List.length_zipWith, windows1_length, pad1_length]
  omega

theorem at1_eq (x : List Rat) (i : Nat) (hi : i < x.length) : at1 x i = x[i] := by
  simp [at1, List.getD, hi]

theorem meanCells1_interior (h i : Nat) (x : List Rat) (hi : h ≤ i) (hn : i + h < x.length) :
    (meanCells1 (2 * h + 1) x)[i]? = some (specMeanCell1 h x i) := by
  have hlt : i < x.length := by omega
  have hw : slice i (2 * h + 1) (pad1 mean h x) = slice (i - h) (2 * h + 1) x :=
    slice_padEnds_interior h (2 * h + 1) i _ _ x hi (by omega)
  rw [getElem?_meanCells1 h x i hlt, hw,
    slice_centre h i x hi hlt,
    eraseIdx_centre _ _ _ h (slice_length_of_le _ _ _ (by omega))]
  simp [specMeanCell1, meanCell, at1_eq x i hlt]

/-! ### 2-D -/

theorem modify_centre {α} (A B : List α) (a : α) (f : α → α) (h : Nat) (hA : A.length = h) :
    (A ++ a :: B).modify h f = A ++ f a :: B := by
  subst hA
  induction A with
  | nil => rfl
  | cons c A ih => simp [ih]

theorem colStat_length (stat : List Rat → Rat) (n1 : Nat) (rows : List (List Rat)) :
    (colStat stat n1 rows).length = n1 := by simp [colStat]

theorem pad2_length (stat : List Rat → Rat) (h0 h1 : Nat) (x : List (List Rat)) :
    (pad2 stat h0 h1 x).length = x.length + 2 * h0 := by
  simp [pad2, padEnds_length]

theorem pad2_row_length (stat : List Rat → Rat) (h0 h1 n1 : Nat) (x : List (List Rat))
    (hrect : ∀ r ∈ x, r.length = n1) (hne : x ≠ []) :
    ∀ r ∈ pad2 stat h0 h1 x, r.length = n1 + 2 * h1 := by
  have hn1 : (x.headD []).length = n1 := by
    cases x with
    | nil => exact absurd rfl hne
    | cons a l => exact hrect a (by simp)
  intro r hr
  simp only [pad2, List.mem_map] at hr
  obtain ⟨q, hq, rfl⟩ := hr
  rw [pad1_length]
  have : q.length = n1 := by
    simp only [padEnds, List.mem_append, List.mem_replicate] at hq
    rcases hq with (⟨_, rfl⟩ | hq) | ⟨_, rfl⟩
    · rw [colStat_length, hn1]
    · exact hrect q hq
    · rw [colStat_length, hn1]
  omega

theorem headD_length_of_forall {α} (l : List (List α)) (m : Nat) (hne : l ≠ [])
    (hl : ∀ r ∈ l, r.length = m) : (l.headD []).length = m := by
  cases l with
  | nil => exact absurd rfl hne
  | cons a l => exact hl a (by simp)

theorem getElem?_windows2 (b0 b1 : Nat) (p : List (List Rat)) (i j : Nat)
    (hi : i < p.length + 1 - b0) (hj : j < (p.headD []).length + 1 - b1) :
    ((windows2 b0 b1 p)[i]?).bind (fun r => r[j]?) = some (window2 i j b0 b1 p) := by
  simp only [windows2, List.getElem?_map, List.getElem?_range hi, Option.map_some, Option.bind_some,
    List.getElem?_range hj]

theorem getElem?_meanCells2 (h0 h1 n1 : Nat) (x : List (List Rat)) (hrect : ∀ r ∈ x, r.length = n1)
    (i j : Nat) (hi : i < x.length) (hj : j < n1) :
    ((meanCells2 (2 * h0 + 1) (2 * h1 + 1) x)[i]?).bind (fun r => r[j]?) =
      some (meanCell (at2 x i j)
        (window2 i j (2 * h0 + 1) (2 * h1 + 1) (pad2 mean h0 h1 x)).flatten
        (maskCentre2 h0 h1 (window2 i j (2 * h0 + 1) (2 * h1 + 1) (pad2 mean h0 h1 x)))) := by
  have hne : x ≠ [] := by intro h; simp [h] at hi
  have hrow := pad2_row_length mean h0 h1 n1 x hrect hne
  have hpne : pad2 mean h0 h1 x ≠ [] := by
    intro h; have := pad2_length mean h0 h1 x; rw [h] at this; simp at this; omega
  have hhead := headD_length_of_forall _ _ hpne hrow
  have hw := getElem?_windows2 (2 * h0 + 1) (2 * h1 + 1) (pad2 mean h0 h1 x) i j
    (by rw [pad2_length]; omega) (by rw [hhead]; omega)
  unfold meanCells2
  rw [half_odd, half_odd, List.getElem?_zipWith]
  have hxi : x[i]? = some x[i] := List.getElem?_eq_getElem hi
  have hlen : x[i].length = n1 := hrect _ (List.getElem_mem hi)
  cases hwi : (windows2 (2 * h0 + 1) (2 * h1 + 1) (pad2 mean h0 h1 x))[i]? with
  | none => rw [hwi] at hw; simp at hw
  | some wrow =>
    rw [hwi] at hw
    simp only [Option.bind_some] at hw
    simp only [hxi, Option.bind_some, List.getElem?_zipWith, hw]
    have : x[i][j]? = some x[i][j] := List.getElem?_eq_getElem (by omega)
    simp [this, at2, List.getD, hxi]

theorem at2_eq (x : List (List Rat)) (i j : Nat) (hi : i < x.length) (hj : j < x[i].length) :
    at2 x i j = x[i][j] := by
  simp [at2, List.getD, hi, hj]

theorem getD_eq (x : List (List Rat)) (i : Nat) (hi : i < x.length) : x.getD i [] = x[i] := by
  simp [List.getD, hi]

/-- the centre-masked interior window is the neighbourhood without the pixel, in row-major order -/
theorem maskCentre2_interior (h0 h1 i j n1 : Nat) (x : List (List Rat))
    (hrect : ∀ r ∈ x, r.length = n1)
    (hi : h0 ≤ i) (hn : i + h0 < x.length) (hj : h1 ≤ j) (hm : j + h1 < n1) :
    maskCentre2 h0 h1 ((slice (i - h0) (2 * h0 + 1) x).map (slice (j - h1) (2 * h1 + 1)))
      = others2 h0 h1 x i j := by
  have hlt : i < x.length := by omega
  have hlen : x[i].length = n1 := hrect _ (List.getElem_mem hlt)
  unfold maskCentre2 others2
  rw [slice_centre h0 i x hi hlt, List.map_append, List.map_cons,
    modify_centre _ _ _ _ h0 (by rw [List.length_map]; exact slice_length_of_le _ _ _ (by omega)),
    slice_centre h1 j x[i] hj (by omega),
    eraseIdx_centre _ _ _ h1 (slice_length_of_le _ _ _ (by omega)), getD_eq x i hlt]
  simp

theorem meanCells2_interior (h0 h1 i j n1 : Nat) (x : List (List Rat))
    (hrect : ∀ r ∈ x, r.length = n1)
    (hi : h0 ≤ i) (hn : i + h0 < x.length) (hj : h1 ≤ j) (hm : j + h1 < n1)
    (hw : window2 i j (2 * h0 + 1) (2 * h1 + 1) (pad2 mean h0 h1 x)
      = (slice (i - h0) (2 * h0 + 1) x).map (slice (j - h1) (2 * h1 + 1))) :
    ((meanCells2 (2 * h0 + 1) (2 * h1 + 1) x)[i]?).bind (fun r => r[j]?)
      = some (specMeanCell2 h0 h1 x i j) := by
  rw [getElem?_meanCells2 h0 h1 n1 x hrect i j (by omega) (by omega), hw,
    maskCentre2_interior h0 h1 i j n1 x hrect hi hn hj hm]
  rfl

theorem meanCells2_length (h0 h1 n1 : Nat) (x : List (List Rat)) (hrect : ∀ r ∈ x, r.length = n1) :
    (meanCells2 (2 * h0 + 1) (2 * h1 + 1) x).length = x.length ∧
    ∀ r ∈ meanCells2 (2 * h0 + 1) (2 * h1 + 1) x, r.length = n1 := by
  by_cases hne : x = []
  · subst hne; simp [meanCells2]
  have hrow := pad2_row_length mean h0 h1 n1 x hrect hne
  have hpne : pad2 mean h0 h1 x ≠ [] := by
    intro h; have := pad2_length mean h0 h1 x; rw [h] at this
    have : x.length = 0 := by simp at this; omega
    exact hne (List.length_eq_zero_iff.mp this)
  have hhead := headD_length_of_forall _ _ hpne hrow
  constructor
  · unfold meanCells2
    rw [List.length_zipWith]
    simp only [windows2, List.length_map, List.length_range, pad2_length, half_odd]
    omega
  · intro r hr
    obtain ⟨i, hi, rfl⟩ := List.getElem_of_mem hr
    unfold meanCells2 at hi ⊢
    simp only [List.getElem_zipWith, List.length_zipWith]
    have hi' : i < x.length := by
      rw [List.length_zipWith] at hi; omega
    rw [hrect _ (List.getElem_mem hi')]
    simp only [windows2, List.getElem_map, List.length_map, List.length_range, half_odd, hhead]
    omega

/-! ### median filter, 1-D -/

theorem getElem?_zip3With {α β γ δ} (f : α → β → γ → δ) (a : List α) (b : List β) (c : List γ) (i : Nat) :
    (zip3With f a b c)[i]? =
      (a[i]?).bind (fun x => (b[i]?).bind (fun y => (c[i]?).map (fun z => f x y z))) := by
  induction a generalizing b c i with
  | nil => simp [zip3With]
  | cons x a ih =>
    cases b with
    | nil => simp [zip3With]
    | cons y b =>
      cases c with
      | nil =>
        simp only [zip3With, List.getElem?_nil, Option.map_none]
        cases (x :: a)[i]? <;> cases (y :: b)[i]? <;> simp
      | cons z c =>
        cases i with
        | zero => simp [zip3With]
        | succ i => simp [zip3With, ih]

theorem length_zip3With {α β γ δ} (f : α → β → γ → δ) (a : List α) (b : List β) (c : List γ) :
    (zip3With f a b c).length = min a.length (min b.length c.length) := by
  induction a generalizing b c with
  | nil => simp [zip3With]
  | cons x a ih =>
    cases b with
    | nil => simp [zip3With]
    | cons y b =>
      cases c with
      | nil => simp [zip3With]
      | cons z c => simp [zip3With, ih]

theorem medians1_length (h : Nat) (x : List Rat) : (medians1 (2 * h + 1) x).length = x.length := by
  unfold medians1
  rw [half_odd, List.length_map, windows1_length, pad1_length]; omega

theorem diffs1_length (h : Nat) (x : List Rat) : (diffs1 (2 * h + 1) x).length = x.length := by
  simp [diffs1, medians1_length]

theorem mads1_length (h : Nat) (x : List Rat) : (mads1 (2 * h + 1) x).length = x.length := by
  unfold mads1
  rw [half_odd, List.length_map, windows1_length, pad1_length, diffs1_length]; omega

theorem medianCells1_length (h : Nat) (x : List Rat) :
    (medianCells1 (2 * h + 1) x).length = x.length := by
  simp [medianCells1, length_zip3With, medians1_length, mads1_length]

theorem getElem?_medians1 (h : Nat) (x : List Rat) (i : Nat) (hi : i < x.length) :
    (medians1 (2 * h + 1) x)[i]? = some (median (slice i (2 * h + 1) (pad1 median h x))) := by
  unfold medians1
  rw [half_odd, List.getElem?_map, getElem?_windows1 _ _ _ (by rw [pad1_length]; omega)]
  rfl

theorem getElem?_diffs1 (h : Nat) (x : List Rat) (i : Nat) (hi : i < x.length) :
    (diffs1 (2 * h + 1) x)[i]? =
      some (absR (x[i] - median (slice i (2 * h + 1) (pad1 median h x)))) := by
  unfold diffs1
  rw [List.getElem?_zipWith, getElem?_medians1 h x i hi]
  simp [hi]

theorem getElem?_mads1 (h : Nat) (x : List Rat) (i : Nat) (hi : i < x.length) :
    (mads1 (2 * h + 1) x)[i]? =
      some (median (slice i (2 * h + 1) (pad1 median h (diffs1 (2 * h + 1) x))) * madK) := by
  unfold mads1
  rw [half_odd, List.getElem?_map,
    getElem?_windows1 _ _ _ (by rw [pad1_length, diffs1_length]; omega)]
  rfl

theorem getElem?_medianCells1 (h : Nat) (x : List Rat) (i : Nat) (hi : i < x.length) :
    (medianCells1 (2 * h + 1) x)[i]? = some
      { x := x[i]
        d := absR (x[i] - median (slice i (2 * h + 1) (pad1 median h x)))
        s := median (slice i (2 * h + 1) (pad1 median h (diffs1 (2 * h + 1) x))) * madK
        repl := median (slice i (2 * h + 1) (pad1 median h x)) } := by
  unfold medianCells1
  rw [getElem?_zip3With, getElem?_medians1 h x i hi, getElem?_mads1 h x i hi]
  simp [hi]

theorem diffs1_interior (h k : Nat) (x : List Rat) (hk : h ≤ k) (hn : k + h < x.length) :
    (diffs1 (2 * h + 1) x)[k]? = some (diffAt1 h x k) := by
  have hlt : k < x.length := by omega
  have hw : slice k (2 * h + 1) (pad1 median h x) = slice (k - h) (2 * h + 1) x :=
    slice_padEnds_interior h (2 * h + 1) k _ _ x hk (by omega)
  rw [getElem?_diffs1 h x k hlt, hw]
  simp [diffAt1, medAt1, at1_eq x k hlt]

theorem medianCells1_interior (h i : Nat) (x : List Rat) (hi : 2 * h ≤ i) (hn : i + 2 * h < x.length) :
    (medianCells1 (2 * h + 1) x)[i]? = some (specMedianCell1 h x i) := by
  have hlt : i < x.length := by omega
  have hw : slice i (2 * h + 1) (pad1 median h x) = slice (i - h) (2 * h + 1) x :=
    slice_padEnds_interior h (2 * h + 1) i _ _ x (by omega) (by omega)
  have hd : slice i (2 * h + 1) (pad1 median h (diffs1 (2 * h + 1) x))
      = (List.range (2 * h + 1)).map (fun k => diffAt1 h x (i - h + k)) := by
    have : slice i (2 * h + 1) (pad1 median h (diffs1 (2 * h + 1) x))
        = slice (i - h) (2 * h + 1) (diffs1 (2 * h + 1) x) :=
      slice_padEnds_interior h (2 * h + 1) i _ _ _ (by omega) (by rw [diffs1_length]; omega)
    rw [this]
    apply List.ext_getElem?
    intro k
    rw [getElem?_slice, List.getElem?_map]
    by_cases hk : k < 2 * h + 1
    · rw [if_pos hk, List.getElem?_range hk, diffs1_interior h (i - h + k) x (by omega) (by omega)]
      rfl
    · rw [if_neg hk, List.getElem?_eq_none (by simp; omega)]
      rfl
  rw [getElem?_medianCells1 h x i hlt, hw, hd]
  simp [specMedianCell1, diffAt1, medAt1, at1_eq x i hlt]

/-! ### the cells carry the input values -/

theorem meanCells1_x (h : Nat) (x : List Rat) : (meanCells1 (2 * h + 1) x).map (·.x) = x := by
  apply List.ext_getElem?
  intro i
  by_cases hi : i < x.length
  · rw [List.getElem?_map, getElem?_meanCells1 h x i hi]
    simp [meanCell, hi]
  · rw [List.getElem?_eq_none (by rw [List.length_map, meanCells1_length]; omega),
      List.getElem?_eq_none (by omega)]

theorem medianCells1_x (h : Nat) (x : List Rat) : (medianCells1 (2 * h + 1) x).map (·.x) = x := by
  apply List.ext_getElem?
  intro i
  by_cases hi : i < x.length
  · rw [List.getElem?_map, getElem?_medianCells1 h x i hi]
    simp [hi]
  · rw [List.getElem?_eq_none (by rw [List.length_map, medianCells1_length]; omega),
      List.getElem?_eq_none (by omega)]

theorem ext_getElem?2 {α} (a b : List (List α))
    (h : ∀ i j : Nat, (a[i]?).bind (fun r => r[j]?) = (b[i]?).bind (fun r => r[j]?))
    (hl : a.length = b.length) (hr : ∀ (i : Nat) (h1 : i < a.length) (h2 : i < b.length), a[i].length = b[i].length) :
    a = b := by
  apply List.ext_getElem hl
  intro i h1 h2
  apply List.ext_getElem (hr i h1 h2)
  intro j h3 h4
  have := h i j
  simp only [List.getElem?_eq_getElem h1, List.getElem?_eq_getElem h2, Option.bind_some,
    List.getElem?_eq_getElem h3, List.getElem?_eq_getElem h4] at this
  exact Option.some.inj this

theorem meanCells2_x (h0 h1 n1 : Nat) (x : List (List Rat)) (hrect : ∀ r ∈ x, r.length = n1) :
    (meanCells2 (2 * h0 + 1) (2 * h1 + 1) x).map (fun r => r.map (·.x)) = x := by
  obtain ⟨hl, hr⟩ := meanCells2_length h0 h1 n1 x hrect
  apply ext_getElem?2
  · intro i j
    by_cases hi : i < x.length
    · by_cases hj : j < n1
      · have := getElem?_meanCells2 h0 h1 n1 x hrect i j hi hj
        have hlen : x[i].length = n1 := hrect _ (List.getElem_mem hi)
        rw [List.getElem?_map]
        cases hc : (meanCells2 (2 * h0 + 1) (2 * h1 + 1) x)[i]? with
        | none => rw [hc] at this; simp at this
        | some row =>
          rw [hc] at this
          simp only [Option.bind_some] at this
          simp only [Option.map_some, Option.bind_some, List.getElem?_map, this,
            List.getElem?_eq_getElem hi, meanCell]
          rw [List.getElem?_eq_getElem (by omega)]
          simp [at2_eq x i j hi (by omega)]
      · have hi2 : i < (meanCells2 (2 * h0 + 1) (2 * h1 + 1) x).length := by omega
        have hlen : x[i].length = n1 := hrect _ (List.getElem_mem hi)
        have := hr _ (List.getElem_mem hi2)
        simp only [List.getElem?_map, List.getElem?_eq_getElem hi2, List.getElem?_eq_getElem hi,
          Option.map_some, Option.bind_some]
        rw [List.getElem?_eq_none (by omega), List.getElem?_eq_none (by omega)]
        rfl
    · rw [List.getElem?_eq_none (by rw [List.length_map]; omega), List.getElem?_eq_none (by omega)]
  · simp [hl]
  · intro i h1' h2'
    simp only [List.getElem_map, List.length_map]
    rw [List.length_map] at h1'
    rw [hr _ (List.getElem_mem h1'), hrect _ (List.getElem_mem h2')]

end Pew.Filters
