import PewModel.Filters
import Mathlib.Tactic.Ring
import Mathlib.Tactic.Linarith
import Mathlib.Algebra.Order.Field.Rat
import Mathlib.Analysis.Real.Sqrt

/-! helper lemmas for C13 -/
namespace Pew.Filters

/-! ### slices of padded lists -/

theorem slice_length {α} (i b : Nat) (l : List α) : (slice i b l).length = min b (l.length - i) := by
  simp [slice]

theorem getElem?_slice {α} (i b k : Nat) (l : List α) :
    (slice i b l)[k]? = if k < b then l[i + k]? else none := by
  unfold slice
  rw [List.getElem?_take]
  split
  · rw [List.getElem?_drop]
  · rfl

theorem padEnds_length {α} (h : Nat) (a c : α) (x : List α) :
    (padEnds h a c x).length = x.length + 2 * h := by
  simp [padEnds]; omega

/-- the padded line, index by index -/
theorem getElem?_padEnds {α} (h : Nat) (a c : α) (x : List α) (k : Nat) :
    (padEnds h a c x)[k]? =
      if k < h then some a else if k < h + x.length then x[k - h]?
      else if k < h + x.length + h then some c else none := by
  unfold padEnds
  simp only [List.getElem?_append, List.getElem?_replicate, List.length_append, List.length_replicate]
  by_cases h1 : k < h
  · have : k < h + x.length := by omega
    simp [h1, this]
  · by_cases h2 : k < h + x.length
    · simp [h1, h2]
    · have e : k - (h + x.length) = k - h - x.length := by omega
      by_cases h3 : k < h + x.length + h
      · have : k - h - x.length < h := by omega
        simp [h1, h2, h3, e, this]
      · have : ¬ k - h - x.length < h := by omega
        simp [h1, h2, h3, e, this]

/-- a window that starts at least `h` after the left end and ends at least `h` before the right
end of the padded line contains no padded value -/
theorem slice_padEnds_interior {α} (h b i : Nat) (a c : α) (x : List α)
    (hi : h ≤ i) (hb : i - h + b ≤ x.length) :
    slice i b (padEnds h a c x) = slice (i - h) b x := by
  apply List.ext_getElem?
  intro k
  rw [getElem?_slice, getElem?_slice]
  split
  · rw [getElem?_padEnds]
    have h1 : ¬ (i + k < h) := by omega
    have h2 : i + k < h + x.length := by omega
    simp only [h1, h2, if_true, if_false]
    congr 1; omega
  · rfl

theorem slice_add {α} (j a c : Nat) (l : List α) :
    slice j (a + c) l = slice j a l ++ slice (j + a) c l := by
  unfold slice
  rw [List.take_add, List.drop_drop]

theorem slice_one {α} (k : Nat) (l : List α) (hk : k < l.length) : slice k 1 l = [l[k]] := by
  unfold slice
  rw [List.drop_eq_getElem_cons hk]
  rfl

theorem slice_length_of_le {α} (i b : Nat) (l : List α) (h : i + b ≤ l.length) :
    (slice i b l).length = b := by
  rw [slice_length]; omega

/-- the `2h+1` window around pixel `i`: `h` before, the pixel, `h` after -/
theorem slice_centre {α} (h i : Nat) (l : List α) (hi : h ≤ i) (hn : i < l.length) :
    slice (i - h) (2 * h + 1) l = slice (i - h) h l ++ l[i] :: slice (i + 1) h l := by
  have e : 2 * h + 1 = h + (1 + h) := by omega
  rw [e, slice_add, slice_add]
  have e2 : i - h + h = i := by omega
  rw [e2, slice_one i l hn]
  rfl

theorem eraseIdx_centre {α} (A B : List α) (a : α) (h : Nat) (hA : A.length = h) :
    (A ++ a :: B).eraseIdx h = A ++ B := by
  rw [List.eraseIdx_append_of_length_le (by omega)]
  simp [hA]

theorem slice_map {α β} (f : α → β) (i b : Nat) (l : List α) :
    slice i b (l.map f) = (slice i b l).map f := by
  simp [slice]

/-! ### lengths and indexing of the mechanism -/

theorem pad1_length (stat : List Rat → Rat) (h : Nat) (x : List Rat) :
    (pad1 stat h x).length = x.length + 2 * h := padEnds_length _ _ _ _

theorem windows1_length (b : Nat) (p : List Rat) : (windows1 b p).length = p.length + 1 - b := by
  simp [windows1]

theorem getElem?_windows1 (b : Nat) (p : List Rat) (i : Nat) (hi : i < p.length + 1 - b) :
    (windows1 b p)[i]? = some (slice i b p) := by
  simp [windows1, hi]

theorem half_odd (h : Nat) : (2 * h + 1) / 2 = h := by omega

theorem getElem?_meanCells1 (h : Nat) (x : List Rat) (i : Nat) (hi : i < x.length) :
    (meanCells1 (2 * h + 1) x)[i]? =
      some (meanCell x[i] (slice i (2 * h + 1) (pad1 mean h x))
        ((slice i (2 * h + 1) (pad1 mean h x)).eraseIdx h)) := by
  unfold meanCells1
  rw [half_odd, List.getElem?_zipWith, getElem?_windows1 _ _ _ (by rw [pad1_length]; omega)]
  simp [hi]

theorem meanCells1_length (h : Nat) (x : List Rat) : (meanCells1 (2 * h + 1) x).length = x.length := by
  unfold meanCells1
  rw [half_odd, List.length_zipWith, windows1_length, pad1_length]
  omega

theorem at1_eq (x : List Rat) (i : Nat) (hi : i < x.length) : at1 x i = x[i] := by
  simp [at1, List.getD, hi]

theorem meanCells1_interior (h i : Nat) (x : List Rat) (hi : h ≤ i) (hn : i + h < x.length) :
    (meanCells1 (2 * h + 1) x)[i]? = some (specMeanCell1 h x i) := by
  have hlt : i < x.length := by omega
  have hw : slice i (2 * h + 1) (pad1 mean h x) = slice (i - h) (2 * h + 1) x :=
    slice_padEnds_interior h (2 * h + 1) i _ _ x hi (by omega)
  rw [getElem?_meanCells1 h x i hlt, hw,
    slice_centre h i x hi hlt,
    eraseIdx_centre _ _ _ h (slice_length_of_le _ _ _ (by omega))]
  simp [specMeanCell1, meanCell, at1_eq x i hlt]

/-! ### 2-D -/

theorem modify_centre {α} (A B : List α) (a : α) (f : α → α) (h : Nat) (hA : A.length = h) :
    (A ++ a :: B).modify h f = A ++ f a :: B := by
  subst hA
  induction A with
  | nil => rfl
  | cons c A ih => simp [ih]

theorem colStat_length (stat : List Rat → Rat) (n1 : Nat) (rows : List (List Rat)) :
    (colStat stat n1 rows).length = n1 := by simp [colStat]

theorem pad2_length (stat : List Rat → Rat) (h0 h1 : Nat) (x : List (List Rat)) :
    (pad2 stat h0 h1 x).length = x.length + 2 * h0 := by
  simp [pad2, padEnds_length]

theorem pad2_row_length (stat : List Rat → Rat) (h0 h1 n1 : Nat) (x : List (List Rat))
    (hrect : ∀ r ∈ x, r.length = n1) (hne : x ≠ []) :
    ∀ r ∈ pad2 stat h0 h1 x, r.length = n1 + 2 * h1 := by
  have hn1 : (x.headD []).length = n1 := by
    cases x with
    | nil => exact absurd rfl hne
    | cons a l => exact hrect a (by simp)
  intro r hr
  simp only [pad2, List.mem_map] at hr
  obtain ⟨q, hq, rfl⟩ := hr
  rw [pad1_length]
  have : q.length = n1 := by
    simp only [padEnds, List.mem_append, List.mem_replicate] at hq
    rcases hq with (⟨_, rfl⟩ | hq) | ⟨_, rfl⟩
    · rw [colStat_length, hn1]
    · exact hrect q hq
    · rw [colStat_length, hn1]
  omega

theorem headD_length_of_forall {α} (l : List (List α)) (m : Nat) (hne : l ≠ [])
    (hl : ∀ r ∈ l, r.length = m) : (l.headD []).length = m := by
  cases l with
  | nil => exact absurd rfl hne
  | cons a l => exact hl a (by simp)

theorem getElem?_windows2 (b0 b1 : Nat) (p : List (List Rat)) (i j : Nat)
    (hi : i < p.length + 1 - b0) (hj : j < (p.headD []).length + 1 - b1) :
    ((windows2 b0 b1 p)[i]?).bind (fun r => r[j]?) = some (window2 i j b0 b1 p) := by
  simp only [windows2, List.getElem?_map, List.getElem?_range hi, Option.map_some, Option.bind_some,
    List.getElem?_range hj]

theorem getElem?_meanCells2 (h0 h1 n1 : Nat) (x : List (List Rat)) (hrect : ∀ r ∈ x, r.length = n1)
    (i j : Nat) (hi : i < x.length) (hj : j < n1) :
    ((meanCells2 (2 * h0 + 1) (2 * h1 + 1) x)[i]?).bind (fun r => r[j]?) =
      some (meanCell (at2 x i j)
        (window2 i j (2 * h0 + 1) (2 * h1 + 1) (pad2 mean h0 h1 x)).flatten
        (maskCentre2 h0 h1 (window2 i j (2 * h0 + 1) (2 * h1 + 1) (pad2 mean h0 h1 x)))) := by
  have hne : x ≠ [] := by intro h; simp [h] at hi
  have hrow := pad2_row_length mean h0 h1 n1 x hrect hne
  have hpne : pad2 mean h0 h1 x ≠ [] := by
    intro h; have := pad2_length mean h0 h1 x; rw [h] at this; simp at this; omega
  have hhead := headD_length_of_forall _ _ hpne hrow
  have hw := getElem?_windows2 (2 * h0 + 1) (2 * h1 + 1) (pad2 mean h0 h1 x) i j
    (by rw [pad2_length]; omega) (by rw [hhead]; omega)
  unfold meanCells2
  rw [half_odd, half_odd, List.getElem?_zipWith]
  have hxi : x[i]? = some x[i] := List.getElem?_eq_getElem hi
  have hlen : x[i].length = n1 := hrect _ (List.getElem_mem hi)
  cases hwi : (windows2 (2 * h0 + 1) (2 * h1 + 1) (pad2 mean h0 h1 x))[i]? with
  | none => rw [hwi] at hw; simp at hw
  | some wrow =>
    rw [hwi] at hw
    simp only [Option.bind_some] at hw
    simp only [hxi, Option.bind_some, List.getElem?_zipWith, hw]
    have : x[i][j]? = some x[i][j] := List.getElem?_eq_getElem (by omega)
    simp [this, at2, List.getD, hxi]

theorem at2_eq (x : List (List Rat)) (i j : Nat) (hi : i < x.length) (hj : j < x[i].length) :
    at2 x i j = x[i][j] := by
  simp [at2, List.getD, hi, hj]

theorem getD_eq (x : List (List Rat)) (i : Nat) (hi : i < x.length) : x.getD i [] = x[i] := by
  simp [List.getD, hi]

/-- the centre-masked interior window is the neighbourhood without the pixel, in row-major order -/
theorem maskCentre2_interior (h0 h1 i j n1 : Nat) (x : List (List Rat))
    (hrect : ∀ r ∈ x, r.length = n1)
    (hi : h0 ≤ i) (hn : i + h0 < x.length) (hj : h1 ≤ j) (hm : j + h1 < n1) :
    maskCentre2 h0 h1 ((slice (i - h0) (2 * h0 + 1) x).map (slice (j - h1) (2 * h1 + 1)))
      = others2 h0 h1 x i j := by
  have hlt : i < x.length := by omega
  have hlen : x[i].length = n1 := hrect _ (List.getElem_mem hlt)
  unfold maskCentre2 others2
  rw [slice_centre h0 i x hi hlt, List.map_append, List.map_cons,
    modify_centre _ _ _ _ h0 (by rw [List.length_map]; exact slice_length_of_le _ _ _ (by omega)),
    slice_centre h1 j x[i] hj (by omega),
    eraseIdx_centre _ _ _ h1 (slice_length_of_le _ _ _ (by omega)), getD_eq x i hlt]
  simp

theorem meanCells2_interior (h0 h1 i j n1 : Nat) (x : List (List Rat))
    (hrect : ∀ r ∈ x, r.length = n1)
    (hi : h0 ≤ i) (hn : i + h0 < x.length) (hj : h1 ≤ j) (hm : j + h1 < n1)
    (hw : window2 i j (2 * h0 + 1) (2 * h1 + 1) (pad2 mean h0 h1 x)
      = (slice (i - h0) (2 * h0 + 1) x).map (slice (j - h1) (2 * h1 + 1))) :
    ((meanCells2 (2 * h0 + 1) (2 * h1 + 1) x)[i]?).bind (fun r => r[j]?)
      = some (specMeanCell2 h0 h1 x i j) := by
  rw [getElem?_meanCells2 h0 h1 n1 x hrect i j (by omega) (by omega), hw,
    maskCentre2_interior h0 h1 i j n1 x hrect hi hn hj hm]
  rfl

theorem meanCells2_length (h0 h1 n1 : Nat) (x : List (List Rat)) (hrect : ∀ r ∈ x, r.length = n1) :
    (meanCells2 (2 * h0 + 1) (2 * h1 + 1) x).length = x.length ∧
    ∀ r ∈ meanCells2 (2 * h0 + 1) (2 * h1 + 1) x, r.length = n1 := by
  by_cases hne : x = []
  · subst hne; simp [meanCells2]
  have hrow := pad2_row_length mean h0 h1 n1 x hrect hne
  have hpne : pad2 mean h0 h1 x ≠ [] := by
    intro h; have := pad2_length mean h0 h1 x; rw [h] at this
    have : x.length = 0 := by simp at this; omega
    exact hne (List.length_eq_zero_iff.mp this)
  have hhead := headD_length_of_forall _ _ hpne hrow
  constructor
  · unfold meanCells2
    rw [List.length_zipWith]
    simp only [windows2, List.length_map, List.length_range, pad2_length, half_odd]
    omega
  · intro r hr
    obtain ⟨i, hi, rfl⟩ := List.getElem_of_mem hr
    unfold meanCells2 at hi ⊢
    simp only [List.getElem_zipWith, List.length_zipWith]
    have hi' : i < x.length := by
      rw [List.length_zipWith] at hi; omega
    rw [hrect _ (List.getElem_mem hi')]
    simp only [windows2, List.getElem_map, List.length_map, List.length_range, half_odd, hhead]
    omega

/-! ### median filter, 1-D -/

theorem getElem?_zip3With {α β γ δ} (f : α → β → γ → δ) (a : List α) (b : List β) (c : List γ) (i : Nat) :
    (zip3With f a b c)[i]? =
      (a[i]?).bind (fun x => (b[i]?).bind (fun y => (c[i]?).map (fun z => f x y z))) := by
  induction a generalizing b c i with
  | nil => simp [zip3With]
  | cons x a ih =>
    cases b with
    | nil => simp [zip3With]
    | cons y b =>
      cases c with
      | nil =>
        simp only [zip3With, List.getElem?_nil, Option.map_none]
        cases (x :: a)[i]? <;> cases (y :: b)[i]? <;> simp
      | cons z c =>
        cases i with
        | zero => simp [zip3With]
        | succ i => simp [zip3With, ih]

theorem length_zip3With {α β γ δ} (f : α → β → γ → δ) (a : List α) (b : List β) (c : List γ) :
    (zip3With f a b c).length = min a.length (min b.length c.length) := by
  induction a generalizing b c with
  | nil => simp [zip3With]
  | cons x a ih =>
    cases b with
    | nil => simp [zip3With]
    | cons y b =>
      cases c with
      | nil => simp [zip3With]
      | cons z c => simp [zip3With, ih]

theorem medians1_length (h : Nat) (x : List Rat) : (medians1 (2 * h + 1) x).length = x.length := by
  unfold medians1
  rw [half_odd, List.length_map, windows1_length, pad1_length]; omega

theorem diffs1_length (h : Nat) (x : List Rat) : (diffs1 (2 * h + 1) x).length = x.length := by
  simp [diffs1, medians1_length]

theorem mads1_length (h : Nat) (x : List Rat) : (mads1 (2 * h + 1) x).length = x.length := by
  unfold mads1
  rw [half_odd, List.length_map, windows1_length, pad1_length, diffs1_length]; omega

theorem medianCells1_length (h : Nat) (x : List Rat) :
    (medianCells1 (2 * h + 1) x).length = x.length := by
  simp [medianCells1, length_zip3With, medians1_length, mads1_length]

theorem getElem?_medians1 (h : Nat) (x : List Rat) (i : Nat) (hi : i < x.length) :
    (medians1 (2 * h + 1) x)[i]? = some (median (slice i (2 * h + 1) (pad1 median h x))) := by
  unfold medians1
  rw [half_odd, List.getElem?_map, getElem?_windows1 _ _ _ (by rw [pad1_length]; omega)]
  rfl

theorem getElem?_diffs1 (h : Nat) (x : List Rat) (i : Nat) (hi : i < x.length) :
    (diffs1 (2 * h + 1) x)[i]? =
      some (absR (x[i] - median (slice i (2 * h + 1) (pad1 median h x)))) := by
  unfold diffs1
  rw [List.getElem?_zipWith, getElem?_medians1 h x i hi]
  simp [hi]

theorem getElem?_mads1 (h : Nat) (x : List Rat) (i : Nat) (hi : i < x.length) :
    (mads1 (2 * h + 1) x)[i]? =
      some (median (slice i (2 * h + 1) (pad1 median h (diffs1 (2 * h + 1) x))) * madK) := by
  unfold mads1
  rw [half_odd, List.getElem?_map,
    getElem?_windows1 _ _ _ (by rw [pad1_length, diffs1_length]; omega)]
  rfl

theorem getElem?_medianCells1 (h : Nat) (x : List Rat) (i : Nat) (hi : i < x.length) :
    (medianCells1 (2 * h + 1) x)[i]? = some
      { x := x[i]
        d := absR (x[i] - median (slice i (2 * h + 1) (pad1 median h x)))
        s := median (slice i (2 * h + 1) (pad1 median h (diffs1 (2 * h + 1) x))) * madK
        repl := median (slice i (2 * h + 1) (pad1 median h x)) } := by
  unfold medianCells1
  rw [getElem?_zip3With, getElem?_medians1 h x i hi, getElem?_mads1 h x i hi]
  simp [hi]

theorem diffs1_interior (h k : Nat) (x : List Rat) (hk : h ≤ k) (hn : k + h < x.length) :
    (diffs1 (2 * h + 1) x)[k]? = some (diffAt1 h x k) := by
  have hlt : k < x.length := by omega
  have hw : slice k (2 * h + 1) (pad1 median h x) = slice (k - h) (2 * h + 1) x :=
    slice_padEnds_interior h (2 * h + 1) k _ _ x hk (by omega)
  rw [getElem?_diffs1 h x k hlt, hw]
  simp [diffAt1, medAt1, at1_eq x k hlt]

theorem medianCells1_interior (h i : Nat) (x : List Rat) (hi : 2 * h ≤ i) (hn : i + 2 * h < x.length) :
    (medianCells1 (2 * h + 1) x)[i]? = some (specMedianCell1 h x i) := by
  have hlt : i < x.length := by omega
  have hw : slice i (2 * h + 1) (pad1 median h x) = slice (i - h) (2 * h + 1) x :=
    slice_padEnds_interior h (2 * h + 1) i _ _ x (by omega) (by omega)
  have hd : slice i (2 * h + 1) (pad1 median h (diffs1 (2 * h + 1) x))
      = (List.range (2 * h + 1)).map (fun k => diffAt1 h x (i - h + k)) := by
    have : slice i (2 * h + 1) (pad1 median h (diffs1 (2 * h + 1) x))
        = slice (i - h) (2 * h + 1) (diffs1 (2 * h + 1) x) :=
      slice_padEnds_interior h (2 * h + 1) i _ _ _ (by omega) (by rw [diffs1_length]; omega)
    rw [this]
    apply List.ext_getElem?
    intro k
    rw [getElem?_slice, List.getElem?_map]
    by_cases hk : k < 2 * h + 1
    · rw [if_pos hk, List.getElem?_range hk, diffs1_interior h (i - h + k) x (by omega) (by omega)]
      rfl
    · rw [if_neg hk, List.getElem?_eq_none (by simp; omega)]
      rfl
  rw [getElem?_medianCells1 h x i hlt, hw, hd]
  simp [specMedianCell1, diffAt1, medAt1, at1_eq x i hlt]

/-! ### the cells carry the input values -/

theorem meanCells1_x (h : Nat) (x : List Rat) : (meanCells1 (2 * h + 1) x).map (·.x) = x := by
  apply List.ext_getElem?
  intro i
  by_cases hi : i < x.length
  · rw [List.getElem?_map, getElem?_meanCells1 h x i hi]
    simp [meanCell, hi]
  · rw [List.getElem?_eq_none (by rw [List.length_map, meanCells1_length]; omega),
      List.getElem?_eq_none (by omega)]

theorem medianCells1_x (h : Nat) (x : List Rat) : (medianCells1 (2 * h + 1) x).map (·.x) = x := by
  apply List.ext_getElem?
  intro i
  by_cases hi : i < x.length
  · rw [List.getElem?_map, getElem?_medianCells1 h x i hi]
    simp [hi]
  · rw [List.getElem?_eq_none (by rw [List.length_map, medianCells1_length]; omega),
      List.getElem?_eq_none (by omega)]

theorem ext_getElem?2 {α} (a b : List (List α))
    (h : ∀ i j : Nat, (a[i]?).bind (fun r => r[j]?) = (b[i]?).bind (fun r => r[j]?))
    (hl : a.length = b.length) (hr : ∀ (i : Nat) (h1 : i < a.length) (h2 : i < b.length), a[i].length = b[i].length) :
    a = b := by
  apply List.ext_getElem hl
  intro i h1 h2
  apply List.ext_getElem (hr i h1 h2)
  intro j h3 h4
  have := h i j
  simp only [List.getElem?_eq_getElem h1, List.getElem?_eq_getElem h2, Option.bind_some,
    List.getElem?_eq_getElem h3, List.getElem?_eq_getElem h4] at this
  exact Option.some.inj this

theorem meanCells2_x (h0 h1 n1 : Nat) (x : List (List Rat)) (hrect : ∀ r ∈ x, r.length = n1) :
    (meanCells2 (2 * h0 + 1) (2 * h1 + 1) x).map (fun r => r.map (·.x)) = x := by
  obtain ⟨hl, hr⟩ := meanCells2_length h0 h1 n1 x hrect
  apply ext_getElem?2
  · intro i j
    by_cases hi : i < x.length
    · by_cases hj : j < n1
      · have := getElem?_meanCells2 h0 h1 n1 x hrect i j hi hj
        have hlen : x[i].length = n1 := hrect _ (List.getElem_mem hi)
        rw [List.getElem?_map]
        cases hc : (meanCells2 (2 * h0 + 1) (2 * h1 + 1) x)[i]? with
        | none => rw [hc] at this; simp at this
        | some row =>
          rw [hc] at this
          simp only [Option.bind_some] at this
          simp only [Option.map_some, Option.bind_some, List.getElem?_map, this,
            List.getElem?_eq_getElem hi, meanCell]
          rw [List.getElem?_eq_getElem (by omega)]
          simp [at2_eq x i j hi (by omega)]
      · have hi2 : i < (meanCells2 (2 * h0 + 1) (2 * h1 + 1) x).length := by omega
        have hlen : x[i].length = n1 := hrect _ (List.getElem_mem hi)
        have := hr _ (List.getElem_mem hi2)
        simp only [List.getElem?_map, List.getElem?_eq_getElem hi2, List.getElem?_eq_getElem hi,
          Option.map_some, Option.bind_some]
        rw [List.getElem?_eq_none (by omega), List.getElem?_eq_none (by omega)]
        rfl
    · rw [List.getElem?_eq_none (by rw [List.length_map]; omega), List.getElem?_eq_none (by omega)]
  · simp [hl]
  · intro i h1' h2'
    simp only [List.getElem_map, List.length_map]
    rw [List.length_map] at h1'
    rw [hr _ (List.getElem_mem h1'), hrect _ (List.getElem_mem h2')]

/-! ### statistics stay within the range of their arguments -/

theorem mem_slice_iff {α} (a b : Nat) (l : List α) (v : α) :
    v ∈ slice a b l ↔ ∃ m, a ≤ m ∧ m < a + b ∧ l[m]? = some v := by
  rw [List.mem_iff_getElem?]
  constructor
  · rintro ⟨k, hk⟩
    rw [getElem?_slice] at hk
    by_cases hkb : k < b
    · rw [if_pos hkb] at hk
      exact ⟨a + k, by omega, by omega, hk⟩
    · rw [if_neg hkb] at hk; cases hk
  · rintro ⟨m, h1, h2, h3⟩
    refine ⟨m - a, ?_⟩
    rw [getElem?_slice, if_pos (by omega)]
    have : a + (m - a) = m := by omega
    rw [this]; exact h3

theorem mem_of_mem_slice {α} (a b : Nat) (l : List α) (v : α) (h : v ∈ slice a b l) : v ∈ l := by
  unfold slice at h
  exact List.mem_of_mem_drop (List.mem_of_mem_take h)

theorem sum_bounds (L U : Rat) (l : List Rat) (h : ∀ v ∈ l, L ≤ v ∧ v ≤ U) :
    L * (l.length : Rat) ≤ l.sum ∧ l.sum ≤ U * (l.length : Rat) := by
  induction l with
  | nil => simp
  | cons a l ih =>
    have ha := h a (by simp)
    have := ih (fun v hv => h v (by simp [hv]))
    simp only [List.sum_cons, List.length_cons, Nat.cast_add, Nat.cast_one]
    constructor <;> nlinarith [ha.1, ha.2, this.1, this.2]

theorem mean_in_range (L U : Rat) (l : List Rat) (hne : l ≠ []) (h : ∀ v ∈ l, L ≤ v ∧ v ≤ U) :
    L ≤ mean l ∧ mean l ≤ U := by
  have hpos : (0 : Rat) < (l.length : Rat) := by
    have : 0 < l.length := List.length_pos_iff.mpr hne
    exact_mod_cast this
  obtain ⟨h1, h2⟩ := sum_bounds L U l h
  unfold mean
  constructor
  · rw [le_div_iff₀ hpos]; exact h1
  · rw [div_le_iff₀ hpos]; exact h2

theorem sort_mem (l : List Rat) (v : Rat) : v ∈ sort l ↔ v ∈ l :=
  (List.mergeSort_perm l _).mem_iff

theorem sort_length (l : List Rat) : (sort l).length = l.length :=
  (List.mergeSort_perm l _).length_eq

theorem sort_getD_mem (l : List Rat) (k : Nat) (hk : k < l.length) : (sort l).getD k 0 ∈ l := by
  have hk' : k < (sort l).length := by rw [sort_length]; exact hk
  rw [List.getD_eq_getElem?_getD, List.getElem?_eq_getElem hk']
  exact (sort_mem l _).mp (List.getElem_mem hk')

theorem median_in_range (L U : Rat) (l : List Rat) (hne : l ≠ []) (h : ∀ v ∈ l, L ≤ v ∧ v ≤ U) :
    L ≤ median l ∧ median l ≤ U := by
  have hpos : 0 < l.length := List.length_pos_iff.mpr hne
  unfold median
  simp only
  split
  · exact h _ (sort_getD_mem l _ (by omega))
  · have h1 := h _ (sort_getD_mem l (l.length / 2 - 1) (by omega))
    have h2 := h _ (sort_getD_mem l (l.length / 2) (by omega))
    constructor
    · rw [le_div_iff₀ (by norm_num)]; linarith [h1.1, h2.1]
    · rw [div_le_iff₀ (by norm_num)]; linarith [h1.2, h2.2]

/-- a pad statistic that stays within the range of a non-empty argument (mean, median) -/
def RangeStat (stat : List Rat → Rat) : Prop :=
  ∀ (L U : Rat) (l : List Rat), l ≠ [] → (∀ v ∈ l, L ≤ v ∧ v ≤ U) → L ≤ stat l ∧ stat l ≤ U

theorem rangeStat_mean : RangeStat mean := fun L U l => mean_in_range L U l
theorem rangeStat_median : RangeStat median := fun L U l => median_in_range L U l

/-- every value in the window of pixel `i` of the padded line — real or padded — lies within any
bounds that hold for the real pixels of that window -/
theorem window1_in_range (stat : List Rat → Rat) (hstat : RangeStat stat) (h i : Nat) (x : List Rat)
    (L U : Rat) (hi : i < x.length) (hreal : ∀ v ∈ realWin1 h x i, L ≤ v ∧ v ≤ U) :
    ∀ v ∈ slice i (2 * h + 1) (pad1 stat h x), L ≤ v ∧ v ≤ U := by
  have hxne : x ≠ [] := by intro e; simp [e] at hi
  intro v hv
  rw [mem_slice_iff] at hv
  obtain ⟨m, hm1, hm2, hm3⟩ := hv
  unfold pad1 at hm3
  rw [getElem?_padEnds] at hm3
  have inwin : ∀ k w, x[k]? = some w → i - h ≤ k → k < i + h + 1 → L ≤ w ∧ w ≤ U := by
    intro k w hk h1 h2
    apply hreal
    unfold realWin1
    rw [mem_slice_iff]
    exact ⟨k, h1, by omega, hk⟩
  split at hm3
  · -- left pad
    rename_i hlt
    have hv : v = stat (x.take h) := by injection hm3 with e; exact e.symm
    rw [hv]
    apply hstat
    · intro e
      have : (x.take h).length = 0 := by rw [e]; rfl
      rw [List.length_take] at this
      have : 0 < x.length := by omega
      omega
    · intro w hw
      obtain ⟨k, hk⟩ := List.mem_iff_getElem?.mp hw
      rw [List.getElem?_take] at hk
      split at hk
      · exact inwin k w hk (by omega) (by omega)
      · cases hk
  · split at hm3
    · exact inwin (m - h) v hm3 (by omega) (by omega)
    · split at hm3
      · rename_i h1 h2 h3
        have hv : v = stat (x.drop (x.length - h)) := by injection hm3 with e; exact e.symm
        rw [hv]
        apply hstat
        · intro e
          have : (x.drop (x.length - h)).length = 0 := by rw [e]; rfl
          rw [List.length_drop] at this
          omega
        · intro w hw
          obtain ⟨k, hk⟩ := List.mem_iff_getElem?.mp hw
          rw [List.getElem?_drop] at hk
          have hlt : x.length - h + k < x.length := by
            by_contra hc
            rw [List.getElem?_eq_none (by omega)] at hk; cases hk
          exact inwin _ w hk (by omega) (by omega)
      · cases hm3

theorem minL_le (l : List Rat) (v : Rat) (hv : v ∈ l) : minL l ≤ v := by
  have key : ∀ (l : List Rat) (a : Rat), l.foldl min a ≤ a ∧ ∀ w ∈ l, l.foldl min a ≤ w := by
    intro l
    induction l with
    | nil => intro a; simp
    | cons b l ih =>
      intro a
      simp only [List.foldl_cons, List.mem_cons]
      obtain ⟨h1, h2⟩ := ih (min a b)
      refine ⟨le_trans h1 (min_le_left _ _), ?_⟩
      rintro w (rfl | hw)
      · exact le_trans h1 (min_le_right _ _)
      · exact h2 w hw
  cases l with
  | nil => cases hv
  | cons a l =>
    simp only [minL]
    rcases List.mem_cons.mp hv with rfl | hv
    · exact (key l _).1
    · exact (key l a).2 v hv

theorem le_maxL (l : List Rat) (v : Rat) (hv : v ∈ l) : v ≤ maxL l := by
  have key : ∀ (l : List Rat) (a : Rat), a ≤ l.foldl max a ∧ ∀ w ∈ l, w ≤ l.foldl max a := by
    intro l
    induction l with
    | nil => intro a; simp
    | cons b l ih =>
      intro a
      simp only [List.foldl_cons, List.mem_cons]
      obtain ⟨h1, h2⟩ := ih (max a b)
      refine ⟨le_trans (le_max_left _ _) h1, ?_⟩
      rintro w (rfl | hw)
      · exact le_trans (le_max_right _ _) h1
      · exact h2 w hw
  cases l with
  | nil => cases hv
  | cons a l =>
    simp only [maxL]
    rcases List.mem_cons.mp hv with rfl | hv
    · exact (key l _).1
    · exact (key l a).2 v hv

/-! ### 2-D window maps (medians, MADs) -/

/-- `windows2` of a padded rectangular image, mapped cell by cell -/
def winmap2 (stat : List Rat → Rat) (g : List (List Rat) → Rat) (h0 h1 : Nat) (y : List (List Rat)) :
    List (List Rat) :=
  (windows2 (2 * h0 + 1) (2 * h1 + 1) (pad2 stat h0 h1 y)).map (fun r => r.map g)

theorem pad2_ne_nil (stat : List Rat → Rat) (h0 h1 : Nat) (x : List (List Rat)) (hne : x ≠ []) :
    pad2 stat h0 h1 x ≠ [] := by
  intro h; have := pad2_length stat h0 h1 x; rw [h] at this
  have : x.length = 0 := by simp at this; omega
  exact hne (List.length_eq_zero_iff.mp this)

theorem winmap2_shape (stat : List Rat → Rat) (g : List (List Rat) → Rat) (h0 h1 n1 : Nat)
    (y : List (List Rat)) (hrect : ∀ r ∈ y, r.length = n1) :
    (winmap2 stat g h0 h1 y).length = y.length ∧ ∀ r ∈ winmap2 stat g h0 h1 y, r.length = n1 := by
  by_cases hne : y = []
  · subst hne
    have hl : (pad2 stat h0 h1 ([] : List (List Rat))).length + 1 - (2 * h0 + 1) = 0 := by
      rw [pad2_length]; simp
    simp [winmap2, windows2, hl]
  have hrow := pad2_row_length stat h0 h1 n1 y hrect hne
  have hhead := headD_length_of_forall _ _ (pad2_ne_nil stat h0 h1 y hne) hrow
  constructor
  · simp only [winmap2, windows2, List.length_map, List.length_range, pad2_length]; omega
  · intro r hr
    simp only [winmap2, windows2, List.mem_map, List.mem_range] at hr
    obtain ⟨q, ⟨i, _, rfl⟩, rfl⟩ := hr
    simp only [List.length_map, List.length_range, hhead]; omega

theorem getElem?_winmap2 (stat : List Rat → Rat) (g : List (List Rat) → Rat) (h0 h1 n1 : Nat)
    (y : List (List Rat)) (hrect : ∀ r ∈ y, r.length = n1) (i j : Nat) (hi : i < y.length) (hj : j < n1) :
    ((winmap2 stat g h0 h1 y)[i]?).bind (fun r => r[j]?)
      = some (g (window2 i j (2 * h0 + 1) (2 * h1 + 1) (pad2 stat h0 h1 y))) := by
  have hne : y ≠ [] := by intro h; simp [h] at hi
  have hrow := pad2_row_length stat h0 h1 n1 y hrect hne
  have hhead := headD_length_of_forall _ _ (pad2_ne_nil stat h0 h1 y hne) hrow
  have hw := getElem?_windows2 (2 * h0 + 1) (2 * h1 + 1) (pad2 stat h0 h1 y) i j
    (by rw [pad2_length]; omega) (by rw [hhead]; omega)
  unfold winmap2
  rw [List.getElem?_map]
  cases hwi : (windows2 (2 * h0 + 1) (2 * h1 + 1) (pad2 stat h0 h1 y))[i]? with
  | none => rw [hwi] at hw; simp at hw
  | some wrow =>
    rw [hwi] at hw
    simp only [Option.bind_some] at hw
    simp [hw]

theorem medians2_eq (h0 h1 : Nat) (x : List (List Rat)) :
    medians2 (2 * h0 + 1) (2 * h1 + 1) x = winmap2 median (fun w => median w.flatten) h0 h1 x := by
  unfold medians2 winmap2; rw [half_odd, half_odd]

theorem mads2_eq (h0 h1 : Nat) (x : List (List Rat)) :
    mads2 (2 * h0 + 1) (2 * h1 + 1) x
      = winmap2 median (fun w => median w.flatten * madK) h0 h1 (diffs2 (2 * h0 + 1) (2 * h1 + 1) x) := by
  unfold mads2 winmap2; rw [half_odd, half_odd]

theorem diffs2_shape (h0 h1 n1 : Nat) (x : List (List Rat)) (hrect : ∀ r ∈ x, r.length = n1) :
    (diffs2 (2 * h0 + 1) (2 * h1 + 1) x).length = x.length ∧
    ∀ r ∈ diffs2 (2 * h0 + 1) (2 * h1 + 1) x, r.length = n1 := by
  obtain ⟨hl, hr⟩ := winmap2_shape median (fun w => median w.flatten) h0 h1 n1 x hrect
  rw [← medians2_eq] at hl hr
  constructor
  · simp [diffs2, hl]
  · intro r hr'
    obtain ⟨i, hi, rfl⟩ := List.getElem_of_mem hr'
    unfold diffs2 at hi ⊢
    rw [List.length_zipWith] at hi
    simp only [List.getElem_zipWith, List.length_zipWith]
    rw [hrect _ (List.getElem_mem (by omega)), hr _ (List.getElem_mem (by omega))]
    simp

theorem getElem?_diffs2 (h0 h1 n1 : Nat) (x : List (List Rat)) (hrect : ∀ r ∈ x, r.length = n1)
    (i j : Nat) (hi : i < x.length) (hj : j < n1) :
    ((diffs2 (2 * h0 + 1) (2 * h1 + 1) x)[i]?).bind (fun r => r[j]?)
      = some (absR (at2 x i j
          - median (window2 i j (2 * h0 + 1) (2 * h1 + 1) (pad2 median h0 h1 x)).flatten)) := by
  have hm := getElem?_winmap2 median (fun w => median w.flatten) h0 h1 n1 x hrect i j hi hj
  rw [← medians2_eq] at hm
  have hlen : x[i].length = n1 := hrect _ (List.getElem_mem hi)
  unfold diffs2
  rw [List.getElem?_zipWith]
  cases hc : (medians2 (2 * h0 + 1) (2 * h1 + 1) x)[i]? with
  | none => rw [hc] at hm; simp at hm
  | some mrow =>
    rw [hc] at hm
    simp only [Option.bind_some] at hm
    simp only [List.getElem?_eq_getElem hi, Option.bind_some, Option.map_some, List.getElem?_zipWith, hm]
    rw [List.getElem?_eq_getElem (by omega)]
    simp [at2_eq x i j hi (by omega)]

theorem getElem?_medianCells2 (h0 h1 n1 : Nat) (x : List (List Rat)) (hrect : ∀ r ∈ x, r.length = n1)
    (i j : Nat) (hi : i < x.length) (hj : j < n1) :
    ((medianCells2 (2 * h0 + 1) (2 * h1 + 1) x)[i]?).bind (fun r => r[j]?) = some
      { x := at2 x i j
        d := absR (at2 x i j - median (window2 i j (2 * h0 + 1) (2 * h1 + 1) (pad2 median h0 h1 x)).flatten)
        s := median (window2 i j (2 * h0 + 1) (2 * h1 + 1)
              (pad2 median h0 h1 (diffs2 (2 * h0 + 1) (2 * h1 + 1) x))).flatten * madK
        repl := median (window2 i j (2 * h0 + 1) (2 * h1 + 1) (pad2 median h0 h1 x)).flatten } := by
  have hm := getElem?_winmap2 median (fun w => median w.flatten) h0 h1 n1 x hrect i j hi hj
  rw [← medians2_eq] at hm
  obtain ⟨dl, dr⟩ := diffs2_shape h0 h1 n1 x hrect
  have hs := getElem?_winmap2 median (fun w => median w.flatten * madK) h0 h1 n1
    (diffs2 (2 * h0 + 1) (2 * h1 + 1) x) dr i j (by omega) hj
  rw [← mads2_eq] at hs
  have hlen : x[i].length = n1 := hrect _ (List.getElem_mem hi)
  unfold medianCells2
  rw [getElem?_zip3With]
  cases hc : (medians2 (2 * h0 + 1) (2 * h1 + 1) x)[i]? with
  | none => rw [hc] at hm; simp at hm
  | some mrow =>
    cases hd : (mads2 (2 * h0 + 1) (2 * h1 + 1) x)[i]? with
    | none => rw [hd] at hs; simp at hs
    | some srow =>
      rw [hc] at hm; rw [hd] at hs
      simp only [Option.bind_some] at hm hs
      simp only [List.getElem?_eq_getElem hi, Option.bind_some, Option.map_some, getElem?_zip3With, hm, hs]
      rw [List.getElem?_eq_getElem (by omega)]
      simp [at2_eq x i j hi (by omega)]

theorem medianCells2_shape (h0 h1 n1 : Nat) (x : List (List Rat)) (hrect : ∀ r ∈ x, r.length = n1) :
    (medianCells2 (2 * h0 + 1) (2 * h1 + 1) x).length = x.length ∧
    ∀ r ∈ medianCells2 (2 * h0 + 1) (2 * h1 + 1) x, r.length = n1 := by
  obtain ⟨ml, mr⟩ := winmap2_shape median (fun w => median w.flatten) h0 h1 n1 x hrect
  rw [← medians2_eq] at ml mr
  obtain ⟨dl, dr⟩ := diffs2_shape h0 h1 n1 x hrect
  obtain ⟨sl, sr⟩ := winmap2_shape median (fun w => median w.flatten * madK) h0 h1 n1 _ dr
  rw [← mads2_eq] at sl sr
  constructor
  · simp only [medianCells2, length_zip3With]; omega
  · intro r hr
    obtain ⟨i, hi, rfl⟩ := List.getElem_of_mem hr
    have hi' := hi
    simp only [medianCells2, length_zip3With] at hi'
    have hx : x[i]? = some x[i] := List.getElem?_eq_getElem (by omega)
    have hm : (medians2 (2 * h0 + 1) (2 * h1 + 1) x)[i]? = some (medians2 (2 * h0 + 1) (2 * h1 + 1) x)[i] :=
      List.getElem?_eq_getElem (by omega)
    have hs : (mads2 (2 * h0 + 1) (2 * h1 + 1) x)[i]? = some (mads2 (2 * h0 + 1) (2 * h1 + 1) x)[i] :=
      List.getElem?_eq_getElem (by omega)
    have := getElem?_zip3With (fun row mrow srow =>
      zip3With (fun xi m s => ({ x := xi, d := absR (xi - m), s := s, repl := m } : Cell)) row mrow srow)
      x (medians2 (2 * h0 + 1) (2 * h1 + 1) x) (mads2 (2 * h0 + 1) (2 * h1 + 1) x) i
    rw [hx, hm, hs] at this
    simp only [Option.bind_some, Option.map_some] at this
    have e : (medianCells2 (2 * h0 + 1) (2 * h1 + 1) x)[i] =
        zip3With (fun xi m s => ({ x := xi, d := absR (xi - m), s := s, repl := m } : Cell)) x[i]
          (medians2 (2 * h0 + 1) (2 * h1 + 1) x)[i] (mads2 (2 * h0 + 1) (2 * h1 + 1) x)[i] := by
      have h2 : (medianCells2 (2 * h0 + 1) (2 * h1 + 1) x)[i]? = some (medianCells2 (2 * h0 + 1) (2 * h1 + 1) x)[i] :=
        List.getElem?_eq_getElem hi
      unfold medianCells2 at h2 ⊢
      rw [this] at h2
      exact (Option.some.inj h2).symm
    rw [e, length_zip3With, hrect _ (List.getElem_mem (by omega)), mr _ (List.getElem_mem (by omega)),
      sr _ (List.getElem_mem (by omega))]
    simp

theorem window2_interior (stat : List Rat → Rat) (h0 h1 i j n1 : Nat) (x : List (List Rat))
    (hrect : ∀ r ∈ x, r.length = n1)
    (hi : h0 ≤ i) (hn : i + h0 < x.length) (hj : h1 ≤ j) (hm : j + h1 < n1) :
    window2 i j (2 * h0 + 1) (2 * h1 + 1) (pad2 stat h0 h1 x)
      = (slice (i - h0) (2 * h0 + 1) x).map (slice (j - h1) (2 * h1 + 1)) := by
  unfold window2 pad2
  rw [slice_map, slice_padEnds_interior h0 (2 * h0 + 1) i _ _ x hi (by omega), List.map_map]
  apply List.map_congr_left
  intro r hr
  have := hrect r (mem_of_mem_slice _ _ _ _ hr)
  simp only [Function.comp]
  exact slice_padEnds_interior h1 (2 * h1 + 1) j _ _ r hj (by omega)

theorem diffs2_interior (h0 h1 n1 : Nat) (x : List (List Rat)) (hrect : ∀ r ∈ x, r.length = n1)
    (r c : Nat) (hr0 : h0 ≤ r) (hr1 : r + h0 < x.length) (hc0 : h1 ≤ c) (hc1 : c + h1 < n1) :
    ((diffs2 (2 * h0 + 1) (2 * h1 + 1) x)[r]?).bind (fun q => q[c]?) = some (diffAt2 h0 h1 x r c) := by
  rw [getElem?_diffs2 h0 h1 n1 x hrect r c (by omega) (by omega),
    window2_interior median h0 h1 r c n1 x hrect hr0 hr1 hc0 hc1]
  rfl

theorem medianCells2_interior (h0 h1 i j n1 : Nat) (x : List (List Rat))
    (hrect : ∀ r ∈ x, r.length = n1)
    (hi : 2 * h0 ≤ i) (hn : i + 2 * h0 < x.length) (hj : 2 * h1 ≤ j) (hm : j + 2 * h1 < n1) :
    ((medianCells2 (2 * h0 + 1) (2 * h1 + 1) x)[i]?).bind (fun r => r[j]?)
      = some (specMedianCell2 h0 h1 x i j) := by
  obtain ⟨dl, dr⟩ := diffs2_shape h0 h1 n1 x hrect
  have hmad : window2 i j (2 * h0 + 1) (2 * h1 + 1)
        (pad2 median h0 h1 (diffs2 (2 * h0 + 1) (2 * h1 + 1) x))
      = (List.range (2 * h0 + 1)).map (fun r =>
          (List.range (2 * h1 + 1)).map (fun c => diffAt2 h0 h1 x (i - h0 + r) (j - h1 + c))) := by
    rw [window2_interior median h0 h1 i j n1 _ dr (by omega) (by omega) (by omega) (by omega)]
    apply List.ext_getElem?
    intro r
    rw [List.getElem?_map, getElem?_slice, List.getElem?_map]
    by_cases hr : r < 2 * h0 + 1
    · have hlt : i - h0 + r < (diffs2 (2 * h0 + 1) (2 * h1 + 1) x).length := by omega
      rw [if_pos hr, List.getElem?_range hr, List.getElem?_eq_getElem hlt, Option.map_some, Option.map_some]
      congr 1
      apply List.ext_getElem?
      intro c
      rw [getElem?_slice, List.getElem?_map]
      by_cases hc : c < 2 * h1 + 1
      · have := diffs2_interior h0 h1 n1 x hrect (i - h0 + r) (j - h1 + c)
          (by omega) (by omega) (by omega) (by omega)
        rw [List.getElem?_eq_getElem hlt, Option.bind_some] at this
        rw [if_pos hc, List.getElem?_range hc, this]
        rfl
      · rw [if_neg hc, List.getElem?_eq_none (by simp; omega)]
        rfl
    · rw [if_neg hr, List.getElem?_eq_none (by simp; omega)]
      rfl
  rw [getElem?_medianCells2 h0 h1 n1 x hrect i j (by omega) (by omega), hmad,
    window2_interior median h0 h1 i j n1 x hrect (by omega) (by omega) (by omega) (by omega)]
  rfl

theorem medianCells2_x (h0 h1 n1 : Nat) (x : List (List Rat)) (hrect : ∀ r ∈ x, r.length = n1) :
    (medianCells2 (2 * h0 + 1) (2 * h1 + 1) x).map (fun r => r.map (·.x)) = x := by
  obtain ⟨hl, hr⟩ := medianCells2_shape h0 h1 n1 x hrect
  apply ext_getElem?2
  · intro i j
    by_cases hi : i < x.length
    · by_cases hj : j < n1
      · have := getElem?_medianCells2 h0 h1 n1 x hrect i j hi hj
        have hlen : x[i].length = n1 := hrect _ (List.getElem_mem hi)
        rw [List.getElem?_map]
        cases hc : (medianCells2 (2 * h0 + 1) (2 * h1 + 1) x)[i]? with
        | none => rw [hc] at this; simp at this
        | some row =>
          rw [hc] at this
          simp only [Option.bind_some] at this
          simp only [Option.map_some, Option.bind_some, List.getElem?_map, this,
            List.getElem?_eq_getElem hi]
          rw [List.getElem?_eq_getElem (by omega)]
          simp [at2_eq x i j hi (by omega)]
      · have hi2 : i < (medianCells2 (2 * h0 + 1) (2 * h1 + 1) x).length := by omega
        have hlen : x[i].length = n1 := hrect _ (List.getElem_mem hi)
        have := hr _ (List.getElem_mem hi2)
        simp only [List.getElem?_map, List.getElem?_eq_getElem hi2, List.getElem?_eq_getElem hi,
          Option.map_some, Option.bind_some]
        rw [List.getElem?_eq_none (by omega), List.getElem?_eq_none (by omega)]
        rfl
    · rw [List.getElem?_eq_none (by rw [List.length_map]; omega), List.getElem?_eq_none (by omega)]
  · simp [hl]
  · intro i h1' h2'
    simp only [List.getElem_map, List.length_map]
    rw [List.length_map] at h1'
    rw [hr _ (List.getElem_mem h1'), hrect _ (List.getElem_mem h2')]

/-! ### 2-D: every value of a window lies within the real pixels of that window -/

theorem mem_realWin2 (h0 h1 i j : Nat) (x : List (List Rat)) (p k : Nat) (row : List Rat) (w : Rat)
    (hp : x[p]? = some row) (hk : row[k]? = some w)
    (h1' : i - h0 ≤ p) (h2 : p < i + h0 + 1) (h3 : j - h1 ≤ k) (h4 : k < j + h1 + 1) :
    w ∈ realWin2 h0 h1 x i j := by
  unfold realWin2
  rw [List.mem_flatten]
  refine ⟨slice (j - h1) (j + h1 + 1 - (j - h1)) row, ?_, ?_⟩
  · rw [List.mem_map]
    exact ⟨row, (mem_slice_iff _ _ _ _).mpr ⟨p, h1', by omega, hp⟩, rfl⟩
  · exact (mem_slice_iff _ _ _ _).mpr ⟨k, h3, by omega, hk⟩

theorem mem_flatten_modify_eraseIdx (W : List (List Rat)) (a b : Nat) (v : Rat)
    (hv : v ∈ (W.modify a (fun r => r.eraseIdx b)).flatten) : v ∈ W.flatten := by
  induction W generalizing a with
  | nil => simp at hv
  | cons r W ih =>
    cases a with
    | zero =>
      simp only [List.modify_zero_cons, List.flatten_cons, List.mem_append] at hv ⊢
      rcases hv with hv | hv
      · exact Or.inl (List.mem_of_mem_eraseIdx hv)
      · exact Or.inr hv
    | succ a =>
      simp only [List.modify_succ_cons, List.flatten_cons, List.mem_append] at hv ⊢
      rcases hv with hv | hv
      · exact Or.inl hv
      · exact Or.inr (ih a hv)

theorem getElem?_colStat (stat : List Rat → Rat) (n1 : Nat) (rows : List (List Rat)) (k : Nat) :
    (colStat stat n1 rows)[k]? = if k < n1 then some (stat (column rows k)) else none := by
  unfold colStat
  rw [List.getElem?_map]
  by_cases hk : k < n1
  · simp [hk]
  · rw [List.getElem?_eq_none (by simp; omega)]; simp [hk]

theorem window2_in_range (stat : List Rat → Rat) (hstat : RangeStat stat) (h0 h1 n1 i j : Nat)
    (x : List (List Rat)) (hrect : ∀ r ∈ x, r.length = n1) (L U : Rat)
    (hi : i < x.length) (hj : j < n1) (hreal : ∀ v ∈ realWin2 h0 h1 x i j, L ≤ v ∧ v ≤ U) :
    ∀ v ∈ (window2 i j (2 * h0 + 1) (2 * h1 + 1) (pad2 stat h0 h1 x)).flatten, L ≤ v ∧ v ≤ U := by
  have hxne : x ≠ [] := by intro e; simp [e] at hi
  have hn1 : (x.headD []).length = n1 := headD_length_of_forall x n1 hxne hrect
  -- values of the axis-0 padded rows in the columns of the window
  have stepA : ∀ m q k w, i ≤ m → m < i + (2 * h0 + 1) →
      (padEnds h0 (colStat stat n1 (x.take h0)) (colStat stat n1 (x.drop (x.length - h0))) x)[m]? = some q →
      q[k]? = some w → j - h1 ≤ k → k < j + h1 + 1 → L ≤ w ∧ w ≤ U := by
    intro m q k w hm1 hm2 hq hw hk1 hk2
    rw [getElem?_padEnds] at hq
    split at hq
    · rename_i hlt
      have hq' : q = colStat stat n1 (x.take h0) := by injection hq with e; exact e.symm
      rw [hq', getElem?_colStat] at hw
      split at hw
      · rename_i hkn
        have hw' : w = stat (column (x.take h0) k) := by injection hw with e; exact e.symm
        rw [hw']
        apply hstat
        · intro e
          have : (column (x.take h0) k).length = 0 := by rw [e]; rfl
          simp only [column, List.length_map, List.length_take] at this
          have : 0 < x.length := by omega
          omega
        · intro u hu
          simp only [column, List.mem_map] at hu
          obtain ⟨r, hr, rfl⟩ := hu
          obtain ⟨p, hp⟩ := List.mem_iff_getElem?.mp hr
          rw [List.getElem?_take] at hp
          split at hp
          · have hrl : r.length = n1 := hrect r (List.mem_iff_getElem?.mpr ⟨p, hp⟩)
            apply hreal
            apply mem_realWin2 h0 h1 i j x p k r _ hp _ (by omega) (by omega) hk1 hk2
            rw [List.getD_eq_getElem?_getD, List.getElem?_eq_getElem (by omega)]; rfl
          · cases hp
      · cases hw
    · split at hq
      · exact hreal w (mem_realWin2 h0 h1 i j x (m - h0) k q w hq hw (by omega) (by omega) hk1 hk2)
      · split at hq
        · rename_i h1' h2' h3'
          have hq' : q = colStat stat n1 (x.drop (x.length - h0)) := by injection hq with e; exact e.symm
          rw [hq', getElem?_colStat] at hw
          split at hw
          · rename_i hkn
            have hw' : w = stat (column (x.drop (x.length - h0)) k) := by injection hw with e; exact e.symm
            rw [hw']
            apply hstat
            · intro e
              have : (column (x.drop (x.length - h0)) k).length = 0 := by rw [e]; rfl
              simp only [column, List.length_map, List.length_drop] at this
              omega
            · intro u hu
              simp only [column, List.mem_map] at hu
              obtain ⟨r, hr, rfl⟩ := hu
              obtain ⟨p, hp⟩ := List.mem_iff_getElem?.mp hr
              rw [List.getElem?_drop] at hp
              have hlt : x.length - h0 + p < x.length := by
                by_contra hc
                rw [List.getElem?_eq_none (by omega)] at hp; cases hp
              have hrl : r.length = n1 := hrect r (List.mem_iff_getElem?.mpr ⟨_, hp⟩)
              apply hreal
              apply mem_realWin2 h0 h1 i j x _ k r _ hp _ (by omega) (by omega) hk1 hk2
              rw [List.getD_eq_getElem?_getD, List.getElem?_eq_getElem (by omega)]; rfl
          · cases hw
        · cases hq
  -- rows of the axis-0 padded image have the row length of the image
  have hQlen : ∀ (m : Nat) (q : List Rat),
      (padEnds h0 (colStat stat n1 (x.take h0)) (colStat stat n1 (x.drop (x.length - h0))) x)[m]? = some q →
      q.length = n1 := by
    intro m q hq
    have hmem := List.mem_iff_getElem?.mpr ⟨m, hq⟩
    simp only [padEnds, List.mem_append, List.mem_replicate] at hmem
    rcases hmem with (⟨_, rfl⟩ | hq) | ⟨_, rfl⟩
    · exact colStat_length _ _ _
    · exact hrect q hq
    · exact colStat_length _ _ _
  intro v hv
  rw [List.mem_flatten] at hv
  obtain ⟨R, hR, hvR⟩ := hv
  unfold window2 pad2 at hR
  rw [hn1, List.mem_map] at hR
  obtain ⟨Pm, hPm, rfl⟩ := hR
  rw [mem_slice_iff] at hPm
  obtain ⟨m, hm1, hm2, hm3⟩ := hPm
  rw [List.getElem?_map] at hm3
  cases hq : (padEnds h0 (colStat stat n1 (x.take h0)) (colStat stat n1 (x.drop (x.length - h0))) x)[m]? with
  | none => rw [hq] at hm3; cases hm3
  | some q =>
    rw [hq] at hm3
    have hPm' : Pm = pad1 stat h1 q := by injection hm3 with e; exact e.symm
    rw [hPm'] at hvR
    have hql := hQlen m q hq
    refine window1_in_range stat hstat h1 j q L U (by omega) ?_ v hvR
    intro w hw
    unfold realWin1 at hw
    rw [mem_slice_iff] at hw
    obtain ⟨k, hk1, hk2, hk3⟩ := hw
    exact stepA m q k w hm1 hm2 hq hk3 hk1 (by omega)

theorem getElem?_map2 {α β} (f : α → β) (a : List (List α)) (i j : Nat) :
    ((a.map (fun r => r.map f))[i]?).bind (fun r => r[j]?) = ((a[i]?).bind (fun r => r[j]?)).map f := by
  rw [List.getElem?_map]
  cases a[i]? with
  | none => rfl
  | some r => simp

/-- the first row of a window is a non-empty row of real or padded values -/
theorem window2_first_row (stat : List Rat → Rat) (h0 h1 n1 i j : Nat) (x : List (List Rat))
    (hrect : ∀ r ∈ x, r.length = n1) (hi : i < x.length) (hj : j < n1) :
    ∃ r0 e, (window2 i j (2 * h0 + 1) (2 * h1 + 1) (pad2 stat h0 h1 x))[0]? = some r0 ∧ e ∈ r0 := by
  have hne : x ≠ [] := by intro h; simp [h] at hi
  have hrow := pad2_row_length stat h0 h1 n1 x hrect hne
  have hPi : i < (pad2 stat h0 h1 x).length := by rw [pad2_length]; omega
  have hlen : ((pad2 stat h0 h1 x)[i]).length = n1 + 2 * h1 := hrow _ (List.getElem_mem hPi)
  have hs : (slice j (2 * h1 + 1) (pad2 stat h0 h1 x)[i]).length = 2 * h1 + 1 :=
    slice_length_of_le _ _ _ (by omega)
  refine ⟨slice j (2 * h1 + 1) (pad2 stat h0 h1 x)[i],
    (slice j (2 * h1 + 1) (pad2 stat h0 h1 x)[i])[0]'(by omega), ?_, List.getElem_mem _⟩
  unfold window2
  rw [List.getElem?_map, getElem?_slice, if_pos (by omega)]
  simp only [Nat.add_zero]
  rw [List.getElem?_eq_getElem hPi]
  rfl

theorem maskCentre2_ne_nil (h0 h1 : Nat) (W : List (List Rat)) (r0 : List Rat) (e : Rat)
    (hpos : 1 ≤ h0) (hW : W[0]? = some r0) (he : e ∈ r0) : maskCentre2 h0 h1 W ≠ [] := by
  have : e ∈ maskCentre2 h0 h1 W := by
    unfold maskCentre2
    rw [List.mem_flatten]
    refine ⟨r0, ?_, he⟩
    rw [List.mem_iff_getElem?]
    exact ⟨0, by rw [List.getElem?_modify_ne _ _ (by omega)]; exact hW⟩
  intro h; rw [h] at this; cases this

theorem flatten_ne_nil_of (W : List (List Rat)) (r0 : List Rat) (e : Rat)
    (hW : W[0]? = some r0) (he : e ∈ r0) : W.flatten ≠ [] := by
  have : e ∈ W.flatten := List.mem_flatten.mpr ⟨r0, List.mem_iff_getElem?.mpr ⟨0, hW⟩, he⟩
  intro h; rw [h] at this; cases this

end Pew.Filters
