import PewModel.Imzml
import Mathlib.Tactic.Linarith
import Mathlib.Algebra.Order.Field.Rat
import Mathlib.Algebra.Order.Ring.Rat
import Mathlib.Data.List.Induction
import Mathlib.Data.Rat.Floor

/-! Helper lemmas for C05 (moved here from `design/spikes/ImzmlSlice.lean` and extended). -/
namespace Pew.Imzml

theorem incr_tail {a : Rat} {l : List Rat} (h : Incr (a :: l)) : Incr l := by
  cases l with
  | nil => trivial
  | cons b r => exact h.2

theorem incr_head_lt {a : Rat} {l : List Rat} (h : Incr (a :: l)) : ∀ x ∈ l, a < x := by
  induction l generalizing a with
  | nil => intro x hx; cases hx
  | cons b r ih =>
    intro x hx
    cases hx with
    | head => exact h.1
    | tail _ hx' => exact lt_trans h.1 (ih h.2 x hx')

theorem incrB_iff (l : List Rat) : incrB l = true ↔ Incr l := by
  induction l with
  | nil => simp [incrB, Incr]
  | cons a r ih =>
    cases r with
    | nil => simp [incrB, Incr]
    | cons b r => simp [incrB, Incr, ih]

theorem ssLeft_cons_lt {m v : Rat} (ms : List Rat) (h : m < v) : ssLeft (m :: ms) v = ssLeft ms v + 1 := by
  simp [ssLeft, List.takeWhile, h]

theorem ssLeft_cons_ge {m v : Rat} (ms : List Rat) (h : ¬ m < v) : ssLeft (m :: ms) v = 0 := by
  simp [ssLeft, List.takeWhile, h]

theorem ssLeft_le_length (ms : List Rat) (v : Rat) : ssLeft ms v ≤ ms.length := by
  induction ms with
  | nil => simp [ssLeft]
  | cons m ms ih =>
    by_cases h : m < v
    · rw [ssLeft_cons_lt ms h]; simp; exact ih
    · rw [ssLeft_cons_ge ms h]; simp

theorem ssLeft_mono (ms : List Rat) {v v' : Rat} (h : v ≤ v') : ssLeft ms v ≤ ssLeft ms v' := by
  induction ms with
  | nil => simp [ssLeft]
  | cons m ms ih =>
    by_cases h1 : m < v
    · have h2 : m < v' := lt_of_lt_of_le h1 h
      rw [ssLeft_cons_lt ms h1, ssLeft_cons_lt ms h2]; omega
    · rw [ssLeft_cons_ge ms h1]; omega

theorem ssLeft_zero_of_all_ge {ms : List Rat} {v : Rat} (h : ∀ x ∈ ms, v ≤ x) : ssLeft ms v = 0 := by
  cases ms with
  | nil => simp [ssLeft]
  | cons a r => exact ssLeft_cons_ge r (by have := h a (by simp); linarith)

theorem windowSum_zero_of_all_ge {ms it : List Rat} {lo hi : Rat} (h : ∀ x ∈ ms, hi ≤ x) :
    windowSum ms it lo hi = 0 := by
  induction ms generalizing it with
  | nil => simp [windowSum]
  | cons a r ih =>
    cases it with
    | nil => simp [windowSum]
    | cons i is =>
      have ha : ¬ a < hi := by have := h a (by simp); linarith
      simp [windowSum, ha, ih (fun x hx => h x (by simp [hx]))]

/-- a window whose upper edge is not above its lower edge contains nothing -/
theorem windowSum_empty (ms it : List Rat) {lo hi : Rat} (h : hi ≤ lo) : windowSum ms it lo hi = 0 := by
  induction ms generalizing it with
  | nil => simp [windowSum]
  | cons a r ih =>
    cases it with
    | nil => simp [windowSum]
    | cons i is =>
      have : ¬ (lo ≤ a ∧ a < hi) := by intro ⟨h1, h2⟩; linarith
      simp [windowSum, this, ih]

theorem sliceSum_cons_succ (i : Rat) (is : List Rat) (a b : Nat) :
    sliceSum (i :: is) (a + 1) (b + 1) = sliceSum is a b := by
  simp [sliceSum]

theorem sliceSum_cons_zero_succ (i : Rat) (is : List Rat) (b : Nat) :
    sliceSum (i :: is) 0 (b + 1) = i + sliceSum is 0 b := by
  simp [sliceSum]

theorem sliceSum_empty (a : List Rat) {i j : Nat} (h : j ≤ i) : sliceSum a i j = 0 := by
  have : j - i = 0 := by omega
  simp [sliceSum, this]

/-- the spike: on a strictly increasing axis the slice between the two `searchsorted` indices
sums exactly the peaks inside the half-open window -/
theorem slice_eq_windowSum' (mz it : List Rat) (lo hi : Rat) (hs : Incr mz)
    (hlen : it.length = mz.length) (hle : lo ≤ hi) :
    sliceSum it (ssLeft mz lo) (ssLeft mz hi) = windowSum mz it lo hi := by
  induction mz generalizing it with
  | nil => cases it <;> simp_all [sliceSum, ssLeft, windowSum]
  | cons m ms ih =>
    cases it with
    | nil => simp at hlen
    | cons i is =>
      have hlen' : is.length = ms.length := by simpa using hlen
      have hgt := incr_head_lt hs
      have ih' := ih is (incr_tail hs) hlen'
      by_cases h1 : m < lo
      · have h2 : m < hi := by linarith
        rw [ssLeft_cons_lt ms h1, ssLeft_cons_lt ms h2, sliceSum_cons_succ, ih']
        have : ¬ lo ≤ m := by linarith
        simp [windowSum, this]
      · have hlo : lo ≤ m := by linarith
        have hz : ssLeft ms lo = 0 := ssLeft_zero_of_all_ge (fun x hx => by have := hgt x hx; linarith)
        rw [ssLeft_cons_ge ms h1]
        by_cases h2 : m < hi
        · rw [ssLeft_cons_lt ms h2, sliceSum_cons_zero_succ]
          rw [hz] at ih'
          simp [windowSum, hlo, h2, ih']
        · rw [ssLeft_cons_ge ms h2]
          have hw : windowSum ms is lo hi = 0 :=
            windowSum_zero_of_all_ge (fun x hx => by have := hgt x hx; linarith)
          simp [windowSum, h2, hw, sliceSum]

/-- the zero sentinel does not change a slice that ends inside the original array -/
theorem sliceSum_append_sentinel (it : List Rat) (z : Rat) {a b : Nat} (hb : b ≤ it.length) :
    sliceSum (it ++ [z]) a b = sliceSum it a b := by
  unfold sliceSum
  by_cases ha : a ≤ it.length
  · rw [List.drop_append_of_le_length ha, List.take_append_of_le_length (by simp; omega)]
  · have h0 : b - a = 0 := by omega
    simp [h0]

/-- the suffix sum from the index of `lo` is the sum of all peaks at or above `lo` -/
theorem dropSum_eq_windowSum (mz it : List Rat) (lo hi : Rat) (hs : Incr mz)
    (hlen : it.length = mz.length) (hhi : ∀ x ∈ mz, x < hi) :
    (it.drop (ssLeft mz lo)).sum = windowSum mz it lo hi := by
  induction mz generalizing it with
  | nil => cases it <;> simp_all [ssLeft, windowSum]
  | cons m ms ih =>
    cases it with
    | nil => simp at hlen
    | cons i is =>
      have hlen' : is.length = ms.length := by simpa using hlen
      have hgt := incr_head_lt hs
      have ih' := ih is (incr_tail hs) hlen' (fun x hx => hhi x (by simp [hx]))
      have hm : m < hi := hhi m (by simp)
      by_cases h1 : m < lo
      · rw [ssLeft_cons_lt ms h1]
        have : ¬ lo ≤ m := by linarith
        simp [windowSum, this, ih']
      · have hlo : lo ≤ m := by linarith
        have hz : ssLeft ms lo = 0 := ssLeft_zero_of_all_ge (fun x hx => by have := hgt x hx; linarith)
        rw [ssLeft_cons_ge ms h1]
        rw [hz] at ih'
        simp at ih'
        simp [windowSum, hlo, hm, ih']

/-! ### `reduceat`, `[::2]`, zeroing -/

theorem reduceat_cons (a : List Rat) (j : Nat) (r : List Nat) :
    ∃ y, reduceat a (j :: r) = y :: reduceat a r := by
  cases r with
  | nil => exact ⟨_, rfl⟩
  | cons k r => exact ⟨_, rfl⟩

theorem extractSpectrum_cons (mz it : List Rat) (lo hi : Rat) (rest : List (Rat × Rat)) :
    extractSpectrum mz it ((lo, hi) :: rest)
      = (if ssLeft mz lo < ssLeft mz hi then sliceSum (it ++ [0]) (ssLeft mz lo) (ssLeft mz hi) else 0)
          :: extractSpectrum mz it rest := by
  unfold extractSpectrum
  simp only [flatten, List.flatMap_cons, List.cons_append, List.nil_append, List.map_cons]
  obtain ⟨y, hy⟩ := reduceat_cons (it ++ [0]) (ssLeft mz hi)
    (List.map (ssLeft mz) (List.flatMap (fun w => [w.1, w.2]) rest))
  rw [reduceat, hy]
  simp only [evens, odds, zeroEmpty]
  by_cases h : ssLeft mz lo < ssLeft mz hi
  · have : ¬ ssLeft mz lo ≥ ssLeft mz hi := by omega
    simp [h, this]
  · have : ssLeft mz lo ≥ ssLeft mz hi := by omega
    simp [h, this]

/-! ### running maximum -/

theorem foldl_max_ge (xs : List Int) (x : Int) : x ≤ xs.foldl max x ∧ ∀ y ∈ xs, y ≤ xs.foldl max x := by
  induction xs generalizing x with
  | nil => simp
  | cons z zs ih =>
    simp only [List.foldl_cons, List.mem_cons, forall_eq_or_imp]
    have := ih (max x z)
    refine ⟨by omega, by omega, this.2⟩

theorem le_maxInt (l : List Int) (y : Int) (hy : y ∈ l) : y ≤ maxInt l := by
  cases l with
  | nil => simp at hy
  | cons x xs =>
    simp only [maxInt]
    rcases List.mem_cons.mp hy with h | h
    · subst h; exact (foldl_max_ge xs y).1
    · exact (foldl_max_ge xs x).2 y h

theorem foldl_max_mem (xs : List Int) (x : Int) : xs.foldl max x = x ∨ xs.foldl max x ∈ xs := by
  induction xs generalizing x with
  | nil => simp
  | cons z zs ih =>
    simp only [List.foldl_cons, List.mem_cons]
    rcases ih (max x z) with h | h
    · rcases Int.le_total x z with hxz | hxz
      · right; left; rw [h]; omega
      · left; rw [h]; omega
    · right; right; exact h

theorem maxInt_mem (l : List Int) (hl : l ≠ []) : maxInt l ∈ l := by
  cases l with
  | nil => exact absurd rfl hl
  | cons x xs =>
    simp only [maxInt, List.mem_cons]
    exact foldl_max_mem xs x

/-! ### mass range -/

theorem incr_le_getLast {l : List Rat} (h : Incr l) (hne : l ≠ []) : ∀ x ∈ l, x ≤ l.getLast hne := by
  induction l with
  | nil => exact absurd rfl hne
  | cons a r ih =>
    cases r with
    | nil => intro x hx; simp at hx; simp [hx]
    | cons b r =>
      intro x hx
      have h2 : Incr (b :: r) := h.2
      have := ih h2 (by simp)
      rw [List.getLast_cons (by simp)]
      rcases List.mem_cons.mp hx with rfl | hx
      · exact le_trans (le_of_lt h.1) (this b (by simp))
      · exact this x hx

theorem incr_head_le {a : Rat} {l : List Rat} (h : Incr (a :: l)) : ∀ x ∈ a :: l, a ≤ x := by
  intro x hx
  rcases List.mem_cons.mp hx with rfl | hx
  · exact le_refl _
  · exact le_of_lt (incr_head_lt h x hx)

theorem massRange_append_one (specs : List Spectrum) (s : Spectrum) :
    massRange (specs ++ [s]) = rangeStep (massRange specs) s := by
  simp [massRange, List.foldl_append]

/-- invariant of the running minimum / maximum -/
theorem massRange_inv (specs : List Spectrum) (hne : ∀ s ∈ specs, s.mz ≠ []) (hs : ∀ s ∈ specs, Incr s.mz) :
    (specs = [] ∧ massRange specs = some (none, none)) ∨
    ∃ lo hi, massRange specs = some (some lo, some hi) ∧
      (∀ s ∈ specs, ∀ m ∈ s.mz, lo ≤ m ∧ m ≤ hi) ∧
      (∃ s ∈ specs, lo ∈ s.mz) ∧ (∃ s ∈ specs, hi ∈ s.mz) := by
  induction specs using List.reverseRecOn with
  | nil => left; exact ⟨rfl, rfl⟩
  | append_singleton specs s ih =>
    right
    have hne' : ∀ t ∈ specs, t.mz ≠ [] := fun t ht => hne t (by simp [ht])
    have hs' : ∀ t ∈ specs, Incr t.mz := fun t ht => hs t (by simp [ht])
    have hsne : s.mz ≠ [] := hne s (by simp)
    have hsi : Incr s.mz := hs s (by simp)
    obtain ⟨a, r, hmz⟩ := List.exists_cons_of_ne_nil hsne
    have hlastmem : (s.mz.getLast hsne) ∈ s.mz := List.getLast_mem hsne
    have hhead : s.mz.head? = some a := by rw [hmz]; rfl
    have hlast : s.mz.getLast? = some (s.mz.getLast hsne) := List.getLast?_eq_some_getLast hsne
    have hlo : ∀ m ∈ s.mz, a ≤ m := by rw [hmz]; exact incr_head_le (hmz ▸ hsi)
    have hhi : ∀ m ∈ s.mz, m ≤ s.mz.getLast hsne := incr_le_getLast hsi hsne
    have hamem : a ∈ s.mz := by rw [hmz]; simp
    rw [massRange_append_one]
    rcases ih hne' hs' with ⟨rfl, h0⟩ | ⟨lo, hi, h1, hb, ⟨sl, hsl, hlm⟩, ⟨sh, hsh, hhm⟩⟩
    · refine ⟨a, s.mz.getLast hsne, ?_, ?_, ⟨s, by simp, hamem⟩, ⟨s, by simp, hlastmem⟩⟩
      · simp [h0, rangeStep, hhead, hlast]
      · intro t ht m hm
        simp at ht; subst ht
        exact ⟨hlo m hm, hhi m hm⟩
    · refine ⟨if a < lo then a else lo, if hi < s.mz.getLast hsne then s.mz.getLast hsne else hi, ?_, ?_, ?_, ?_⟩
      · simp [h1, rangeStep, hhead, hlast]
      · intro t ht m hm
        rcases List.mem_append.mp ht with ht | ht
        · have := hb t ht m hm
          constructor
          · split <;> linarith [this.1]
          · split <;> linarith [this.2]
        · simp at ht; subst ht
          have := hlo m hm; have := hhi m hm
          constructor
          · split <;> linarith
          · split <;> linarith
      · by_cases h : a < lo
        · exact ⟨s, by simp, by simp [h, hamem]⟩
        · exact ⟨sl, by simp [hsl], by simp [h, hlm]⟩
      · by_cases h : hi < s.mz.getLast hsne
        · exact ⟨s, by simp, by simp [h, hlastmem]⟩
        · exact ⟨sh, by simp [hsh], by simp [h, hhm]⟩

/-! ### binning -/

theorem denseIdx_lt (n : Nat) (idx : List Nat) (h : denseIdx n idx = true) : ∀ i ∈ idx, i < n := by
  induction idx with
  | nil => intro i hi; cases hi
  | cons a r ih =>
    cases r with
    | nil => intro i hi; simp at hi; subst hi; simpa [denseIdx] using h
    | cons b r =>
      simp only [denseIdx, Bool.and_eq_true, decide_eq_true_eq] at h
      have hr := ih h.2
      intro i hi
      rcases List.mem_cons.mp hi with rfl | hi
      · have := hr b (by simp); omega
      · exact hr i hi

theorem clip_of_lt (n : Nat) (idx : List Nat) (h : ∀ i ∈ idx, i < n) : clip n idx = idx := by
  unfold clip
  conv => rhs; rw [← List.map_id idx]
  apply List.map_congr_left
  intro i hi
  have := h i hi
  simp; omega

theorem getLast?_cons_cons {α} (a b : α) (r : List α) : (a :: b :: r).getLast? = (b :: r).getLast? := by
  simp [List.getLast?_cons_cons]

theorem rightEdges_cons_cons (a b : Rat) (r : List Rat) (w : Rat) :
    rightEdges (a :: b :: r) w = b :: rightEdges (b :: r) w := by
  simp only [rightEdges, getLast?_cons_cons]
  cases h : (b :: r).getLast? with
  | none => simp at h
  | some l => simp

/-- the unclipped core of `binned_masses` on the dense class -/
theorem reduceat_dense (mz it : List Rat) (bins : List Rat) (w : Rat) (hs : Incr mz)
    (hlen : it.length = mz.length) (hd : denseIdx mz.length (bins.map (ssLeft mz)) = true)
    (htop : ∀ l, bins.getLast? = some l → ∀ x ∈ mz, x < l + w) :
    reduceat it (bins.map (ssLeft mz)) = binSpec mz it bins w := by
  induction bins with
  | nil => simp [reduceat, binSpec, rightEdges]
  | cons b r ih =>
    cases r with
    | nil =>
      simp only [List.map_cons, List.map_nil, reduceat, binSpec, rightEdges, List.getLast?_singleton,
        List.drop_one, List.tail_cons, List.nil_append, List.zipWith_cons_cons, List.zipWith_nil_right]
      rw [dropSum_eq_windowSum mz it b (b + w) hs hlen (htop b (by simp))]
    | cons b' r =>
      simp only [List.map_cons, denseIdx, Bool.and_eq_true, decide_eq_true_eq] at hd
      have ih' := ih (by simpa using hd.2) (by intro l hl; exact htop l (by rw [getLast?_cons_cons]; exact hl))
      simp only [List.map_cons] at ih'
      simp only [List.map_cons, reduceat, if_pos hd.1]
      rw [ih']
      simp only [binSpec, rightEdges_cons_cons, List.zipWith_cons_cons]
      congr 1
      apply slice_eq_windowSum' mz it b b' hs hlen
      by_contra hc
      have : b' ≤ b := le_of_lt (not_le.mp hc)
      have := ssLeft_mono mz this
      omega

/-! ### the bins partition the range -/

theorem windowSum_split (mz it : List Rat) {a b c : Rat} (hab : a ≤ b) (hbc : b ≤ c) :
    windowSum mz it a b + windowSum mz it b c = windowSum mz it a c := by
  induction mz generalizing it with
  | nil => simp [windowSum]
  | cons m ms ih =>
    cases it with
    | nil => simp [windowSum]
    | cons i is =>
      simp only [windowSum]
      have := ih is
      by_cases h1 : a ≤ m <;> by_cases h2 : m < b <;> by_cases h3 : b ≤ m <;> by_cases h4 : m < c <;>
        simp [h1, h2, h3, h4] <;> linarith

theorem windowSum_all (mz it : List Rat) {a c : Rat} (hlen : it.length = mz.length)
    (h : ∀ x ∈ mz, a ≤ x ∧ x < c) : windowSum mz it a c = it.sum := by
  induction mz generalizing it with
  | nil => cases it <;> simp_all [windowSum]
  | cons m ms ih =>
    cases it with
    | nil => simp at hlen
    | cons i is =>
      have := h m (by simp)
      simp [windowSum, this, ih is (by simpa using hlen) (fun x hx => h x (by simp [hx]))]

theorem incr_le_last_w {b : Rat} {r : List Rat} (h : Incr (b :: r)) :
    ∀ l, (b :: r).getLast? = some l → b ≤ l := by
  intro l hl
  have := incr_le_getLast h (by simp) b (by simp)
  rw [List.getLast?_eq_some_getLast (by simp)] at hl
  simp at hl
  rw [← hl]; exact this

/-- consecutive bins telescope -/
theorem binSpec_sum (mz it : List Rat) (b : Rat) (r : List Rat) (w : Rat) (hw : 0 ≤ w) (hb : Incr (b :: r)) :
    ∀ l, (b :: r).getLast? = some l → (binSpec mz it (b :: r) w).sum = windowSum mz it b (l + w) := by
  induction r generalizing b with
  | nil => intro l hl; simp at hl; subst hl; simp [binSpec, rightEdges]
  | cons b' r ih =>
    intro l hl
    have hl' : (b' :: r).getLast? = some l := by rw [getLast?_cons_cons] at hl; exact hl
    have := ih b' hb.2 l hl'
    simp only [binSpec, rightEdges_cons_cons, List.zipWith_cons_cons, List.sum_cons]
    simp only [binSpec] at this
    rw [this]
    apply windowSum_split _ _ (le_of_lt hb.1)
    have := incr_le_last_w hb.2 l hl'
    linarith

/-! ### arange -/

theorem incr_map_range' (f : Nat → Rat) (hf : ∀ k, f k < f (k + 1)) (s n : Nat) :
    Incr ((List.range' s n).map f) := by
  induction n generalizing s with
  | zero => simp [Incr]
  | succ n ih =>
    cases n with
    | zero => simp [List.range', Incr]
    | succ n =>
      have := ih (s + 1)
      simp only [List.range'_succ, List.map_cons] at this ⊢
      exact ⟨hf s, this⟩

theorem arange_incr (start stop step : Rat) (h : 0 < step) : Incr (arange start stop step) := by
  unfold arange
  rw [List.range_eq_range']
  apply incr_map_range'
  intro k
  push_cast
  linarith

theorem arange_cover (lo hi w : Rat) (hw : 0 < w) (h : lo ≤ hi) :
    (arange lo (hi + w) w).head? = some lo ∧
    ∀ l, (arange lo (hi + w) w).getLast? = some l → hi < l + w := by
  have hq : 1 ≤ (hi + w - lo) / w := by
    rw [le_div_iff₀ hw]; linarith
  have hc1 : (1 : Rat) ≤ (((hi + w - lo) / w).ceil : Rat) := le_trans hq Rat.le_ceil
  have hc : (1 : Int) ≤ ((hi + w - lo) / w).ceil := by exact_mod_cast hc1
  obtain ⟨m, hm⟩ : ∃ m : Nat, ((hi + w - lo) / w).ceil.toNat = m + 1 := ⟨((hi + w - lo) / w).ceil.toNat - 1, by omega⟩
  have hmq : (hi + w - lo) / w ≤ (m : Rat) + 1 := by
    have h1 : ((((hi + w - lo) / w).ceil.toNat : Int) : Rat) = (((hi + w - lo) / w).ceil : Rat) := by
      rw [Int.toNat_of_nonneg (by omega)]
    rw [hm] at h1
    have := @Rat.le_ceil ((hi + w - lo) / w)
    rw [← h1] at this
    push_cast at this
    exact this
  have hmw : hi + w - lo ≤ ((m : Rat) + 1) * w := by
    rw [div_le_iff₀ hw] at hmq; exact hmq
  unfold arange
  rw [hm]
  constructor
  · simp [List.range_succ_eq_map]
  · intro l hl
    simp [List.range_succ] at hl
    subst hl
    linarith

end Pew.Imzml
