import PewModel.CsvDir

/-! # C04 — the stamp → seconds conversion of the model (`timegm`) is strictly monotone on valid stamps -/
namespace Pew.CsvDir

/-- `validStampB` as a proposition -/
def validStamp : List Nat → Prop
  | [y, m, d, hh, mm, ss] => 1 ≤ y ∧ 1 ≤ m ∧ m ≤ 12 ∧ 1 ≤ d ∧ d ≤ daysInMonth y m ∧ hh < 24 ∧ mm < 60 ∧ ss < 60
  | _ => False

theorem validStamp_of_B (f : List Nat) (h : validStampB f = true) : validStamp f := by
  match f, h with
  | [y, m, d, hh, mm, ss], h =>
    simp only [validStampB, Bool.and_eq_true, decide_eq_true_eq] at h
    obtain ⟨⟨⟨⟨⟨⟨⟨h1, h2⟩, h3⟩, h4⟩, h5⟩, h6⟩, h7⟩, h8⟩ := h
    exact ⟨h1, h2, h3, h4, h5, h6, h7, h8⟩

theorem dbm_step (y m : Nat) (h1 : 1 ≤ m) (h2 : m ≤ 11) :
    daysBeforeMonth y (m + 1) = daysBeforeMonth y m + daysInMonth y m := by
  have : m = 1 ∨ m = 2 ∨ m = 3 ∨ m = 4 ∨ m = 5 ∨ m = 6 ∨ m = 7 ∨ m = 8 ∨ m = 9 ∨ m = 10 ∨ m = 11 := by omega
  rcases this with h | h | h | h | h | h | h | h | h | h | h <;> subst h <;>
    cases hl : isLeap y <;> simp [daysBeforeMonth, daysInMonth, hl]

theorem dim_pos (y m : Nat) : 28 ≤ daysInMonth y m := by
  unfold daysInMonth
  split
  · split <;> omega
  · split <;> omega

theorem dbm_mono (y m m' : Nat) (h1 : 1 ≤ m) (h : m < m') (h2 : m' ≤ 12) :
    daysBeforeMonth y m + (daysInMonth y m : Int) ≤ daysBeforeMonth y m' := by
  induction m' with
  | zero => omega
  | succ n ih =>
    by_cases hmn : m = n
    · subst hmn
      rw [dbm_step y m h1 (by omega)]
      omega
    · have := ih (by omega) (by omega)
      rw [dbm_step y n (by omega) (by omega)]
      have := dim_pos y n
      omega

theorem dbm_dec (y : Nat) : daysBeforeMonth y 12 + (daysInMonth y 12 : Int) = 365 + (if isLeap y then 1 else 0) := by
  cases hl : isLeap y <;> simp [daysBeforeMonth, daysInMonth, hl]

theorem dbm_nonneg (y m : Nat) : 0 ≤ daysBeforeMonth y m := by
  unfold daysBeforeMonth
  have : (0 : Int) ≤ (if (decide (m > 2) && isLeap y) = true then 1 else 0) := by split <;> omega
  omega

theorem dby_step (y : Nat) (hy : 1 ≤ y) :
    daysBeforeYear (y + 1) = daysBeforeYear y + 365 + (if isLeap y then 1 else 0) := by
  unfold daysBeforeYear isLeap
  simp only [Int.natCast_add, Int.cast_ofNat_Int]
  by_cases h4 : y % 4 = 0 <;> by_cases h100 : y % 100 = 0 <;> by_cases h400 : y % 400 = 0 <;>
    simp [h4, h100, h400] <;> omega

theorem dby_mono (y y' : Nat) (hy : 1 ≤ y) (h : y < y') :
    daysBeforeYear y + 365 + (if isLeap y then 1 else 0) ≤ daysBeforeYear y' := by
  induction y' with
  | zero => omega
  | succ n ih =>
    by_cases hyn : y = n
    · subst hyn
      rw [dby_step y hy]; omega
    · have := ih (by omega)
      rw [dby_step n (by omega)]
      have : (0 : Int) ≤ (if isLeap n = true then 1 else 0) := by split <;> omega
      omega

/-- day number of a date -/
def dayNo (y m d : Nat) : Int := daysBeforeYear y + daysBeforeMonth y m + d

theorem dayNo_lt (y m d y' m' d' : Nat) (hy : 1 ≤ y) (hm : 1 ≤ m) (hm12 : m ≤ 12) (hd : d ≤ daysInMonth y m)
    (hm' : 1 ≤ m') (hm12' : m' ≤ 12) (hd' : 1 ≤ d')
    (hlt : y < y' ∨ (y = y' ∧ (m < m' ∨ (m = m' ∧ d < d')))) : dayNo y m d < dayNo y' m' d' := by
  unfold dayNo
  rcases hlt with h | ⟨rfl, h | ⟨rfl, h⟩⟩
  · have h1 := dby_mono y y' hy h
    have h2 : daysBeforeMonth y m + (daysInMonth y m : Int) ≤ 365 + (if isLeap y then 1 else 0) := by
      by_cases hm12e : m = 12
      · subst hm12e; rw [dbm_dec]; omega
      · have := dbm_mono y m 12 hm (by omega) (by omega)
        have := dbm_dec y
        have := dim_pos y 12
        omega
    have h3 := dbm_nonneg y' m'
    omega
  · have := dbm_mono y m m' hm h hm12'
    omega
  · omega

theorem validStamp_shape (f : List Nat) (h : validStamp f) :
    ∃ y m d hh mm ss, f = [y, m, d, hh, mm, ss] := by
  match f, h with
  | [y, m, d, hh, mm, ss], _ => exact ⟨y, m, d, hh, mm, ss, rfl⟩

/-- lexicographic comparison of two six-field keys, spelled out -/
theorem keyLt_six (a1 a2 a3 a4 a5 a6 b1 b2 b3 b4 b5 b6 : Int)
    (h : keyLt [a1, a2, a3, a4, a5, a6] [b1, b2, b3, b4, b5, b6] = true) :
    a1 < b1 ∨ (a1 = b1 ∧ (a2 < b2 ∨ (a2 = b2 ∧ (a3 < b3 ∨ (a3 = b3 ∧ (a4 < b4 ∨ (a4 = b4 ∧ (a5 < b5 ∨ (a5 = b5 ∧ a6 < b6))))))))) := by
  simp only [keyLt, keyLe, Bool.not_eq_eq_eq_not, Bool.not_true] at h
  by_cases c1 : b1 < a1
  · simp [c1] at h
  · by_cases e1 : b1 = a1
    · subst e1
      simp only [Int.lt_irrefl, if_false, if_true] at h
      right; refine ⟨rfl, ?_⟩
      by_cases c2 : b2 < a2
      · simp [c2] at h
      · by_cases e2 : b2 = a2
        · subst e2
          simp only [Int.lt_irrefl, if_false, if_true] at h
          right; refine ⟨rfl, ?_⟩
          by_cases c3 : b3 < a3
          · simp [c3] at h
          · by_cases e3 : b3 = a3
            · subst e3
              simp only [Int.lt_irrefl, if_false, if_true] at h
              right; refine ⟨rfl, ?_⟩
              by_cases c4 : b4 < a4
              · simp [c4] at h
              · by_cases e4 : b4 = a4
                · subst e4
                  simp only [Int.lt_irrefl, if_false, if_true] at h
                  right; refine ⟨rfl, ?_⟩
                  by_cases c5 : b5 < a5
                  · simp [c5] at h
                  · by_cases e5 : b5 = a5
                    · subst e5
                      simp only [Int.lt_irrefl, if_false, if_true] at h
                      right; refine ⟨rfl, ?_⟩
                      by_cases c6 : b6 < a6
                      · simp [c6] at h
                      · by_cases e6 : b6 = a6
                        · subst e6; simp at h
                        · omega
                    · left; omega
                · left; omega
            · left; omega
        · left; omega
    · left; omega

/-- **the model's `timegm` is strictly monotone in (year, month, day, hour, minute, second)** on
valid stamps: an earlier stamp always gets the smaller key -/
theorem timegm_strictMono (f g : List Nat) (hf : validStamp f) (hg : validStamp g)
    (h : keyLt (f.map (fun (n : Nat) => (n : Int))) (g.map (fun (n : Nat) => (n : Int))) = true) :
    timegm f < timegm g := by
  obtain ⟨y, m, d, hh, mm, ss, rfl⟩ := validStamp_shape f hf
  obtain ⟨y', m', d', hh', mm', ss', rfl⟩ := validStamp_shape g hg
  obtain ⟨hy, hm1, hm12, hd1, hd, hH, hM, hS⟩ := hf
  obtain ⟨hy', hm1', hm12', hd1', hd', hH', hM', hS'⟩ := hg
  have hlex := keyLt_six _ _ _ _ _ _ _ _ _ _ _ _ h
  dsimp only at hlex
  simp only [timegm]
  have hD : ∀ (y m d : Nat), daysBeforeYear y + daysBeforeMonth y m + 1 - 719163 + (d : Int) - 1 = dayNo y m d - 719163 := by
    intro y m d; unfold dayNo; omega
  rw [hD, hD]
  by_cases hdate : y < y' ∨ (y = y' ∧ (m < m' ∨ (m = m' ∧ d < d')))
  · have := dayNo_lt y m d y' m' d' hy hm1 hm12 hd hm1' hm12' hd1' hdate
    omega
  · have hsame : y = y' ∧ m = m' ∧ d = d' := by omega
    obtain ⟨rfl, rfl, rfl⟩ := hsame
    omega

end Pew.CsvDir
