import PewModel.LaserEdit
/-! helper lemmas for C07 -/
namespace Pew.LaserEdit

end Pew.LaserEdit
