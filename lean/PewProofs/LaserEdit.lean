import PewModel.LaserEdit
import Mathlib.Data.List.Nodup

/-! helper lemmas for C07 (`PewTheorems/C07.lean`) -/
namespace Pew.LaserEdit

variable {β : Type}

/-! ## `keys` and `get?` -/

@[simp] theorem keys_nil : keys ([] : List (Name × β)) = [] := rfl
@[simp] theorem keys_cons (e : Name × β) (l : List (Name × β)) : keys (e :: l) = e.1 :: keys l := rfl
@[simp] theorem keys_append (l r : List (Name × β)) : keys (l ++ r) = keys l ++ keys r := by
  simp [keys]

theorem keys_filter_key (p : Name → Bool) (l : List (Name × β)) :
    keys (l.filter (fun e => p e.1)) = (keys l).filter p := by
  induction l with
  | nil => rfl
  | cons e r ih =>
    simp only [List.filter_cons, keys_cons]
    cases h : p e.1 <;> simp [ih]

theorem keys_mapKey (g : Name → Name) (l : List (Name × β)) :
    keys (l.map (fun e => (g e.1, e.2))) = (keys l).map g := by
  simp [keys, List.map_map, Function.comp_def]

@[simp] theorem get?_nil (n : Name) : get? ([] : List (Name × β)) n = none := rfl
theorem get?_cons (e : Name × β) (l : List (Name × β)) (n : Name) :
    get? (e :: l) n = if e.1 = n then some e.2 else get? l n := rfl

theorem get?_eq_none_iff (l : List (Name × β)) (n : Name) : get? l n = none ↔ n ∉ keys l := by
  induction l with
  | nil => simp
  | cons e r ih =>
    rw [get?_cons]
    by_cases h : e.1 = n
    · simp [h]
    · simp only [if_neg h, ih, keys_cons, List.mem_cons, not_or]
      exact ⟨fun hr => ⟨fun hh => h hh.symm, hr⟩, fun hr => hr.2⟩

theorem get?_isSome_iff (l : List (Name × β)) (n : Name) : (get? l n).isSome ↔ n ∈ keys l := by
  rw [← not_iff_not, ← get?_eq_none_iff]; simp

theorem get?_of_mem_keys {l : List (Name × β)} {n : Name} (h : n ∈ keys l) : ∃ v, get? l n = some v := by
  have := (get?_isSome_iff l n).2 h
  exact Option.isSome_iff_exists.1 this

theorem get?_append_left {l : List (Name × β)} (r : List (Name × β)) {n : Name} (h : n ∈ keys l) :
    get? (l ++ r) n = get? l n := by
  induction l with
  | nil => simp at h
  | cons e t ih =>
    simp only [List.cons_append, get?_cons]
    by_cases he : e.1 = n
    · simp [he]
    · simp only [if_neg he]
      apply ih
      simp only [keys_cons, List.mem_cons] at h
      rcases h with h | h
      · exact absurd h.symm he
      · exact h

theorem get?_append_right {l : List (Name × β)} (r : List (Name × β)) {n : Name} (h : n ∉ keys l) :
    get? (l ++ r) n = get? r n := by
  induction l with
  | nil => rfl
  | cons e t ih =>
    simp only [keys_cons, List.mem_cons, not_or] at h
    simp only [List.cons_append, get?_cons, if_neg (fun hh : e.1 = n => h.1 hh.symm)]
    exact ih h.2

theorem get?_filter_key_pos (p : Name → Bool) (l : List (Name × β)) {n : Name} (h : p n = true) :
    get? (l.filter (fun e => p e.1)) n = get? l n := by
  induction l with
  | nil => rfl
  | cons e r ih =>
    simp only [List.filter_cons]
    by_cases he : e.1 = n
    · subst he; simp [h, get?_cons]
    · cases hp : p e.1
      · simp only [Bool.false_eq_true, if_false, get?_cons, if_neg he]; exact ih
      · simp only [if_true, get?_cons, if_neg he]; exact ih

theorem get?_filter_key_neg (p : Name → Bool) (l : List (Name × β)) {n : Name} (h : p n = false) :
    get? (l.filter (fun e => p e.1)) n = none := by
  rw [get?_eq_none_iff, keys_filter_key]
  simp [h]

theorem get?_mapKey (g : Name → Name) (l : List (Name × β)) {n : Name} (hn : n ∈ keys l)
    (hinj : ∀ a ∈ keys l, ∀ b ∈ keys l, g a = g b → a = b) :
    get? (l.map (fun e => (g e.1, e.2))) (g n) = get? l n := by
  induction l with
  | nil => simp at hn
  | cons e r ih =>
    simp only [List.map_cons, get?_cons]
    by_cases he : e.1 = n
    · simp [he]
    · have hne : g e.1 ≠ g n := fun hh =>
        he (hinj e.1 (by simp) n hn hh)
      simp only [if_neg he, if_neg hne]
      simp only [keys_cons, List.mem_cons] at hn
      rcases hn with hn | hn
      · exact absurd hn.symm he
      · exact ih hn (fun a ha b hb => hinj a (by simp [ha]) b (by simp [hb]))

/-- in a list with distinct keys every member is the entry found under its key -/
theorem get?_of_mem_nodup {l : List (Name × β)} (hnd : (keys l).Nodup) {e : Name × β} (he : e ∈ l) :
    get? l e.1 = some e.2 := by
  induction l with
  | nil => simp at he
  | cons x r ih =>
    simp only [keys_cons, List.nodup_cons] at hnd
    rw [get?_cons]
    rcases List.mem_cons.1 he with h | h
    · subst h; simp
    · have : x.1 ≠ e.1 := by
        intro hh
        apply hnd.1
        rw [hh]
        exact List.mem_map.2 ⟨e, h, rfl⟩
      simp only [if_neg this]
      exact ih hnd.2 h

theorem get?_map_mk (F : Name → β) (el : List Name) (k : Name) :
    get? (el.map (fun n => (n, F n))) k = if k ∈ el then some (F k) else none := by
  induction el with
  | nil => simp
  | cons a r ih =>
    simp only [List.map_cons, get?_cons, List.mem_cons]
    by_cases h : a = k
    · subst h; simp
    · simp only [if_neg h, ih]
      have : (k = a) = False := by simp; exact fun hh => h hh.symm
      simp [this]

theorem keys_map_mk (F : Name → β) (el : List Name) : keys (el.map (fun n => (n, F n))) = el := by
  simp [keys, List.map_map, Function.comp_def]

/-! ## dict primitives -/

theorem dictSet_new {d : Dict} {k : Name} (v : Nat) (h : k ∉ keys d) : dictSet d k v = d ++ [(k, v)] := by
  simp [dictSet, h]

theorem keys_dictSet_old {d : Dict} {k : Name} (v : Nat) (h : k ∈ keys d) : keys (dictSet d k v) = keys d := by
  unfold dictSet
  rw [if_pos h]
  simp only [keys, List.map_map]
  conv => rhs; rw [← List.map_id d, List.map_map]
  apply List.map_congr_left
  intro e _
  simp only [Function.comp]
  split <;> simp_all

theorem get?_map_set (d : Dict) (k : Name) (v : Nat) (n : Name) :
    get? (d.map (fun e => if e.1 = k then (k, v) else e)) n
      = if n = k then (if k ∈ keys d then some v else none) else get? d n := by
  induction d with
  | nil => simp
  | cons e r ih =>
    simp only [List.map_cons, get?_cons, ih, keys_cons, List.mem_cons]
    by_cases h1 : e.1 = k
    · by_cases h2 : n = k
      · simp [h1, h2]
      · have : ¬ k = n := fun hh => h2 hh.symm
        simp [h1, h2, this]
    · by_cases h2 : n = k
      · have h3 : ¬ e.1 = n := fun hh => h1 (hh.trans h2)
        have h4 : ¬ k = e.1 := fun hh => h1 hh.symm
        simp [h1, h2, h4]
      · simp [h1, h2]

theorem get?_dictSet (d : Dict) (k : Name) (v : Nat) (n : Name) :
    get? (dictSet d k v) n = if n = k then some v else get? d n := by
  by_cases hk : k ∈ keys d
  · simp only [dictSet, if_pos hk, get?_map_set]
  · rw [dictSet_new v hk]
    by_cases hn : n = k
    · subst hn
      rw [get?_append_right _ hk]; simp [get?_cons]
    · simp only [if_neg hn]
      by_cases hd : n ∈ keys d
      · rw [get?_append_left _ hd]
      · rw [get?_append_right _ hd, (get?_eq_none_iff d n).2 hd]
        have hkn : ¬ k = n := fun hh => hn hh.symm
        simp [get?_cons, hkn]

/-- a comprehension / update whose keys are new and distinct appends its items in order -/
theorem foldl_dictSet_fresh (g : Name → Name) (l : Dict) :
    ∀ acc : Dict, ((keys l).map g).Nodup → (∀ k ∈ keys l, g k ∉ keys acc) →
      l.foldl (fun acc e => dictSet acc (g e.1) e.2) acc = acc ++ l.map (fun e => (g e.1, e.2)) := by
  induction l with
  | nil => intro acc _ _; simp
  | cons e r ih =>
    intro acc hnd hfresh
    simp only [keys_cons, List.map_cons, List.nodup_cons] at hnd
    simp only [List.foldl_cons, List.map_cons]
    rw [dictSet_new _ (hfresh e.1 (by simp))]
    rw [ih _ hnd.2]
    · simp
    · intro k hk
      simp only [keys_append, keys_cons, keys_nil, List.mem_append, List.mem_singleton, not_or]
      refine ⟨hfresh k (by simp [hk]), ?_⟩
      intro hh
      exact hnd.1 (hh ▸ List.mem_map.2 ⟨k, hk, rfl⟩)

theorem rebuildDict_eq (d : Dict) (m : NameMap) (h : ((keys d).map (sub m)).Nodup) :
    rebuildDict d m = d.map (fun e => (sub m e.1, e.2)) := by
  unfold rebuildDict
  rw [foldl_dictSet_fresh (sub m) d [] h (by simp)]
  simp

/-- `d.update(g)` for a dict `g` (distinct keys): the value of `g` where it has one, else the old one -/
theorem get?_foldl_update (g : Dict) :
    ∀ d : Dict, (keys g).Nodup → ∀ n,
      get? (g.foldl (fun acc e => dictSet acc e.1 e.2) d) n = (get? g n).or (get? d n) := by
  induction g with
  | nil => intro d _ n; simp
  | cons e r ih =>
    intro d hnd n
    simp only [keys_cons, List.nodup_cons] at hnd
    simp only [List.foldl_cons]
    rw [ih _ hnd.2, get?_dictSet, get?_cons]
    by_cases hn : n = e.1
    · rw [hn, (get?_eq_none_iff r e.1).2 hnd.1]
      simp
    · have hen : ¬ e.1 = n := fun hh => hn hh.symm
      simp [hn, hen]

theorem keys_foldl_update (g : Dict) :
    ∀ d : Dict, (∀ k ∈ keys g, k ∈ keys d) → keys (g.foldl (fun acc e => dictSet acc e.1 e.2) d) = keys d := by
  induction g with
  | nil => intro d _; rfl
  | cons e r ih =>
    intro d h
    simp only [List.foldl_cons]
    have he : e.1 ∈ keys d := h e.1 (by simp)
    rw [ih]
    · exact keys_dictSet_old _ he
    · intro k hk
      rw [keys_dictSet_old _ he]
      exact h k (by simp [hk])

theorem foldl_default (el : List Name) (h : el.Nodup) :
    el.foldl (fun acc n => dictSet acc n 0) [] = el.map (fun n => (n, 0)) := by
  have := foldl_dictSet_fresh id (el.map (fun n => ((n, 0) : Name × Nat))) []
    (by simpa [keys, List.map_map, Function.comp_def] using h) (by simp)
  simpa [List.foldl_map, List.map_map, Function.comp_def] using this

/-- `for name in names: d.pop(name)` succeeds exactly for distinct present names and then removes them -/
theorem popAll_eq (ns : List Name) :
    ∀ d : Dict, popAll d ns =
      if ns.Nodup ∧ ∀ n ∈ ns, n ∈ keys d then some (d.filter (fun e => decide (e.1 ∉ ns))) else none := by
  induction ns with
  | nil => intro d; simp [popAll]
  | cons a r ih =>
    intro d
    simp only [popAll, dictPop]
    by_cases ha : a ∈ keys d
    · simp only [if_pos ha]
      rw [ih]
      have hk : keys (d.filter (fun e => decide (e.1 ≠ a))) = (keys d).filter (fun k => decide (k ≠ a)) :=
        keys_filter_key (fun k => decide (k ≠ a)) d
      have hcond : (r.Nodup ∧ ∀ n ∈ r, n ∈ keys (d.filter (fun e => decide (e.1 ≠ a)))) ↔
          ((a :: r).Nodup ∧ ∀ n ∈ a :: r, n ∈ keys d) := by
        rw [hk]
        simp only [List.mem_filter, decide_eq_true_eq, List.nodup_cons, List.mem_cons, forall_eq_or_imp]
        constructor
        · rintro ⟨h1, h2⟩
          exact ⟨⟨fun hh => (h2 a hh).2 rfl, h1⟩, ha, fun n hn => (h2 n hn).1⟩
        · rintro ⟨⟨h1, h2⟩, _, h4⟩
          exact ⟨h2, fun n hn => ⟨h4 n hn, fun hh => h1 (hh ▸ hn)⟩⟩
      by_cases hc : (a :: r).Nodup ∧ ∀ n ∈ a :: r, n ∈ keys d
      · rw [if_pos (hcond.2 hc), if_pos hc, List.filter_filter]
        congr 1
        apply List.filter_congr
        intro e _
        simp only [List.mem_cons, not_or, Bool.decide_and]
        by_cases h1 : e.1 = a <;> by_cases h2 : e.1 ∈ r <;> simp [h1, h2]
      · rw [if_neg (fun hh => hc (hcond.1 hh)), if_neg hc]
    · simp only [if_neg ha]
      rw [if_neg]
      intro hh
      exact ha (hh.2 a (by simp))

/-! ## layers -/

theorem Spec.ext' {a b : Spec} (h1 : a.srr = b.srr) (h2 : a.shapes = b.shapes) (h3 : a.map = b.map)
    (h4 : a.cfg = b.cfg) : a = b := by
  cases a; cases b; simp_all

def Layer.addField (n : Name) (l : Layer) (a : ArrIn) : Layer := { l with fields := l.fields ++ [(n, a.2)] }

def Layer.renamed (m : NameMap) (l : Layer) : Layer :=
  { l with fields := l.fields.map (fun e => (sub m e.1, e.2)) }

theorem addLayers_eq (n : Name) : ∀ (ls : List Layer) (ds : List ArrIn),
    addLayers n ls ds = if (∀ l ∈ ls, n ∉ keys l.fields) ∧ ds.map (·.1) = ls.map (·.shape)
      then some (List.zipWith (Layer.addField n) ls ds) else none := by
  intro ls
  induction ls with
  | nil => intro ds; cases ds <;> simp [addLayers]
  | cons l r ih =>
    intro ds
    cases ds with
    | nil => simp [addLayers]
    | cons d t =>
      simp only [addLayers, Layer.add, ih t]
      by_cases h0 : d.1 = l.shape
      · simp only [ne_eq, h0, not_true_eq_false, if_false]
        by_cases h1 : n ∈ keys l.fields
        · have hno : ¬ ((∀ l' ∈ l :: r, n ∉ keys l'.fields) ∧
              (d :: t).map (·.1) = (l :: r).map (·.shape)) :=
            fun hh => hh.1 l (by simp) h1
          rw [if_neg hno, if_pos h1]
        · rw [if_neg h1]
          by_cases h2 : (∀ l ∈ r, n ∉ keys l.fields) ∧ t.map (·.1) = r.map (·.shape)
          · have hyes : (∀ l' ∈ l :: r, n ∉ keys l'.fields) ∧
                (d :: t).map (·.1) = (l :: r).map (·.shape) := by
              refine ⟨?_, by simp [h0, h2.2]⟩
              intro l' hl'
              rcases List.mem_cons.1 hl' with hh | hh
              · rw [hh]; exact h1
              · exact h2.1 l' hh
            rw [if_pos hyes, if_pos h2]
            simp [Layer.addField]
          · have hno : ¬ ((∀ l' ∈ l :: r, n ∉ keys l'.fields) ∧
                (d :: t).map (·.1) = (l :: r).map (·.shape)) := by
              intro hh
              apply h2
              refine ⟨fun l hl => hh.1 l (by simp [hl]), ?_⟩
              have := hh.2
              simp only [List.map_cons, List.cons.injEq] at this
              exact this.2
            rw [if_neg hno, if_neg h2]
      · have hno : ¬ ((∀ l' ∈ l :: r, n ∉ keys l'.fields) ∧
            (d :: t).map (·.1) = (l :: r).map (·.shape)) := by
          intro hh
          have := hh.2
          simp only [List.map_cons, List.cons.injEq] at this
          exact h0 this.1
        rw [if_neg hno]
        simp [h0]

theorem renameLayers_eq (m : NameMap) : ∀ ls : List Layer,
    renameLayers m ls = if (∀ l ∈ ls, ((keys l.fields).map (sub m)).Nodup)
      then some (ls.map (Layer.renamed m)) else none := by
  intro ls
  induction ls with
  | nil => simp [renameLayers]
  | cons l r ih =>
    simp only [renameLayers, Layer.rename, ih, keys_mapKey]
    by_cases h1 : ((keys l.fields).map (sub m)).Nodup
    · rw [if_pos h1]
      by_cases h2 : ∀ l ∈ r, ((keys l.fields).map (sub m)).Nodup
      · have hyes : ∀ l' ∈ l :: r, ((keys l'.fields).map (sub m)).Nodup := by
          intro l' hl'
          rcases List.mem_cons.1 hl' with hh | hh
          · rw [hh]; exact h1
          · exact h2 l' hh
        rw [if_pos hyes, if_pos h2]
        simp [Layer.renamed]
      · have hno : ¬ ∀ l' ∈ l :: r, ((keys l'.fields).map (sub m)).Nodup :=
          fun hh => h2 (fun l hl => hh l (by simp [hl]))
        rw [if_neg hno, if_neg h2]
    · have hno : ¬ ∀ l' ∈ l :: r, ((keys l'.fields).map (sub m)).Nodup :=
        fun hh => h1 (hh l (by simp))
      rw [if_neg hno, if_neg h1]

theorem map_zipWith_left {α γ : Type} (g : Layer → α) (f : Layer → γ → Layer) :
    ∀ (ls : List Layer) (ds : List γ), ds.length = ls.length → (∀ l ∈ ls, ∀ d, g (f l d) = g l) →
      (List.zipWith f ls ds).map g = ls.map g := by
  intro ls
  induction ls with
  | nil => intro ds _ _; simp
  | cons l r ih =>
    intro ds hlen h
    cases ds with
    | nil => simp at hlen
    | cons d t =>
      simp only [List.zipWith_cons_cons, List.map_cons]
      rw [h l (by simp) d, ih t (by simpa using hlen) (fun l hl => h l (by simp [hl]))]

theorem map_zipWith_right {α γ : Type} (g : Layer → α) (k : γ → α) (f : Layer → γ → Layer) :
    ∀ (ls : List Layer) (ds : List γ), ds.length = ls.length → (∀ l ∈ ls, ∀ d, g (f l d) = k d) →
      (List.zipWith f ls ds).map g = ds.map k := by
  intro ls
  induction ls with
  | nil => intro ds hlen _; cases ds <;> simp at hlen ⊢
  | cons l r ih =>
    intro ds hlen h
    cases ds with
    | nil => simp at hlen
    | cons d t =>
      simp only [List.zipWith_cons_cons, List.map_cons]
      rw [h l (by simp) d, ih t (by simpa using hlen) (fun l hl => h l (by simp [hl]))]

theorem elementsOf_zipWith (n : Name) (ls : List Layer) (ds : List ArrIn) (hne : ls ≠ [])
    (hlen : ds.length = ls.length) :
    elementsOf (List.zipWith (Layer.addField n) ls ds) = elementsOf ls ++ [n] := by
  cases ls with
  | nil => exact absurd rfl hne
  | cons l r =>
    cases ds with
    | nil => simp at hlen
    | cons d t => simp [elementsOf, Layer.addField]

theorem shapes_length {ds : List ArrIn} {ls : List Layer} (h : ds.map (·.1) = ls.map (·.shape)) :
    ds.length = ls.length := by
  have := congrArg List.length h
  simpa using this

theorem elementsOf_map_drop (ns : List Name) (ls : List Layer) :
    elementsOf (ls.map (·.drop ns)) = (elementsOf ls).filter (fun k => decide (k ∉ ns)) := by
  cases ls with
  | nil => rfl
  | cons l r =>
    simp only [List.map_cons, elementsOf, Layer.drop]
    exact keys_filter_key (fun k => decide (k ∉ ns)) l.fields

theorem elementsOf_map_renamed (m : NameMap) (ls : List Layer) :
    elementsOf (ls.map (Layer.renamed m)) = (elementsOf ls).map (sub m) := by
  cases ls with
  | nil => rfl
  | cons l r => simp only [List.map_cons, elementsOf, Layer.renamed, keys_mapKey]

/-! ## invariant -/

theorem Inv.ne (h : Inv s) : s.layers ≠ [] := h.1
theorem Inv.layer_keys {s : State} (h : Inv s) {l : Layer} (hl : l ∈ s.layers) : keys l.fields = s.elements :=
  h.2.1 l hl
theorem Inv.nodup {s : State} (h : Inv s) : s.elements.Nodup := h.2.2.1
theorem Inv.cal_nodup {s : State} (h : Inv s) : (keys s.cal).Nodup := h.2.2.2.1
theorem Inv.cal_iff {s : State} (h : Inv s) (n : Name) : n ∈ keys s.cal ↔ n ∈ s.elements := h.2.2.2.2 n

theorem Inv.all_layers_iff {s : State} (h : Inv s) (P : List Name → Prop) :
    (∀ l ∈ s.layers, P (keys l.fields)) ↔ P s.elements := by
  constructor
  · intro hh
    obtain ⟨l, hl⟩ := List.exists_mem_of_ne_nil _ h.1
    rw [← h.layer_keys hl]; exact hh l hl
  · intro hh l hl
    rw [h.layer_keys hl]; exact hh

@[simp] theorem abs_map_keys (s : State) : keys (abs s).map = s.elements := by
  simp [abs, keys_map_mk]

@[simp] theorem abs_shapes_length (s : State) : (abs s).shapes.length = s.layers.length := by
  simp [abs]

/-! ## the operations refine the dictionary operations -/

theorem add_refines {s : State} (h : Inv s) (n : Name) (ds : List ArrIn) (c : Nat) :
    (add s n ds c).map abs = (abs s).add n ds c := by
  unfold add Spec.add
  rw [addLayers_eq]
  have hc : ((∀ l ∈ s.layers, n ∉ keys l.fields) ∧ ds.map (·.1) = s.layers.map (·.shape)) ↔
      (n ∉ keys (abs s).map ∧ ds.map (·.1) = (abs s).shapes) := by
    rw [h.all_layers_iff (fun k => n ∉ k), abs_map_keys]; rfl
  by_cases hcond : (∀ l ∈ s.layers, n ∉ keys l.fields) ∧ ds.map (·.1) = s.layers.map (·.shape)
  · rw [if_pos hcond, if_pos (hc.1 hcond)]
    have hlen : ds.length = s.layers.length := shapes_length hcond.2
    simp only [Option.map_some]
    congr 1
    have hn : n ∉ s.elements := (h.all_layers_iff (fun k => n ∉ k)).1 hcond.1
    have hncal : n ∉ keys s.cal := fun hh => hn ((h.cal_iff n).1 hh)
    apply Spec.ext'
    · rfl
    · simp only [abs]
      exact map_zipWith_left (·.shape) (Layer.addField n) s.layers ds hlen (fun _ _ _ => rfl)
    · simp only [abs, State.elements]
      rw [elementsOf_zipWith n s.layers ds h.1 hlen, List.map_append]
      congr 1
      · apply List.map_congr_left
        intro k hk
        have hkn : k ≠ n := fun hh => hn (hh ▸ hk)
        congr 2
        · -- data of the old elements
          unfold dataIn
          apply map_zipWith_left _ _ _ _ hlen
          intro l hl d
          have : k ∈ keys l.fields := by rw [h.layer_keys hl]; exact hk
          simp [Layer.addField, get?_append_left _ this]
        · simp [calIn, get?_dictSet, hkn]
      · simp only [List.map_cons, List.map_nil, List.cons.injEq, and_true, Prod.mk.injEq, true_and]
        constructor
        · unfold dataIn
          apply map_zipWith_right _ (·.2) _ _ _ hlen
          intro l hl d
          have : n ∉ keys l.fields := hcond.1 l hl
          simp [Layer.addField, get?_append_right _ this, get?_cons]
        · simp [calIn, get?_dictSet]
    · rfl
  · rw [if_neg hcond, if_neg (fun hh => hcond (hc.2 hh))]
    rfl

theorem remove_refines {s : State} (h : Inv s) (ns : List Name) :
    (remove s ns).map abs = (abs s).remove ns := by
  unfold remove Spec.remove
  rw [popAll_eq]
  have hc : (ns.Nodup ∧ ∀ n ∈ ns, n ∈ keys s.cal) ↔ (ns.Nodup ∧ ∀ n ∈ ns, n ∈ keys (abs s).map) := by
    simp only [abs_map_keys]
    constructor
    · rintro ⟨h1, h2⟩; exact ⟨h1, fun n hn => (h.cal_iff n).1 (h2 n hn)⟩
    · rintro ⟨h1, h2⟩; exact ⟨h1, fun n hn => (h.cal_iff n).2 (h2 n hn)⟩
  by_cases hcond : ns.Nodup ∧ ∀ n ∈ ns, n ∈ keys s.cal
  · rw [if_pos hcond, if_pos (hc.1 hcond)]
    simp only [Option.map_some]
    congr 1
    apply Spec.ext'
    · rfl
    · simp [abs, List.map_map, Function.comp_def, Layer.drop]
    · simp only [abs, State.elements]
      rw [elementsOf_map_drop, List.filter_map]
      apply List.map_congr_left
      intro k hk
      have hkp : decide (k ∉ ns) = true := by
        have := (List.mem_filter.1 hk).2
        simpa [Function.comp_def] using this
      congr 2
      · simp only [dataIn, List.map_map]
        apply List.map_congr_left
        intro l _
        simp only [Function.comp, Layer.drop]
        rw [get?_filter_key_pos (fun k => decide (k ∉ ns)) l.fields hkp]
      · simp only [calIn]
        rw [get?_filter_key_pos (fun k => decide (k ∉ ns)) s.cal hkp]
    · rfl
  · rw [if_neg hcond, if_neg (fun hh => hcond (hc.2 hh))]
    rfl

theorem rename_refines {s : State} (h : Inv s) (m : NameMap) :
    (rename s m).map abs = (abs s).rename m := by
  unfold rename Spec.rename
  rw [renameLayers_eq]
  have hk : keys ((abs s).map.map (fun e => (sub m e.1, e.2))) = s.elements.map (sub m) := by
    rw [keys_mapKey, abs_map_keys]
  simp only [hk]
  have hiff := h.all_layers_iff (fun k => (k.map (sub m)).Nodup)
  by_cases hcond : (s.elements.map (sub m)).Nodup
  · rw [if_pos (hiff.2 hcond), if_pos hcond]
    simp only [Option.map_some]
    congr 1
    have hinj : ∀ a ∈ s.elements, ∀ b ∈ s.elements, sub m a = sub m b → a = b :=
      List.inj_on_of_nodup_map hcond
    have hcalnd : ((keys s.cal).map (sub m)).Nodup :=
      List.Nodup.map_on
        (fun a ha b hb hab => hinj a ((h.cal_iff a).1 ha) b ((h.cal_iff b).1 hb) hab) h.cal_nodup
    apply Spec.ext'
    · rfl
    · simp [abs, List.map_map, Function.comp_def, Layer.renamed]
    · simp only [abs, State.elements]
      rw [elementsOf_map_renamed, List.map_map, List.map_map]
      apply List.map_congr_left
      intro k hk
      simp only [Function.comp]
      congr 2
      · simp only [dataIn, List.map_map]
        apply List.map_congr_left
        intro l hl
        simp only [Function.comp, Layer.renamed]
        have hkl : keys l.fields = s.elements := h.layer_keys hl
        rw [get?_mapKey (sub m) l.fields (by rw [hkl]; exact hk) (by rw [hkl]; exact hinj)]
      · simp only [calIn]
        rw [rebuildDict_eq _ _ hcalnd]
        rw [get?_mapKey (sub m) s.cal ((h.cal_iff k).2 hk)
          (fun a ha b hb hab => hinj a ((h.cal_iff a).1 ha) b ((h.cal_iff b).1 hb) hab)]
    · rfl
  · rw [if_neg (fun hh => hcond (hiff.1 hh)), if_neg hcond]
    rfl

/-! ## shape of a successful operation's result -/

theorem add_eq_some {s s' : State} (h : Inv s) {n : Name} {ds : List ArrIn} {c : Nat}
    (hs : add s n ds c = some s') :
    n ∉ s.elements ∧ ds.map (·.1) = s.layers.map (·.shape) ∧
      s' = { s with layers := List.zipWith (Layer.addField n) s.layers ds, cal := s.cal ++ [(n, c)] } := by
  unfold add at hs
  rw [addLayers_eq] at hs
  by_cases hcond : (∀ l ∈ s.layers, n ∉ keys l.fields) ∧ ds.map (·.1) = s.layers.map (·.shape)
  · rw [if_pos hcond] at hs
    have hn : n ∉ s.elements := (h.all_layers_iff (fun k => n ∉ k)).1 hcond.1
    have hncal : n ∉ keys s.cal := fun hh => hn ((h.cal_iff n).1 hh)
    simp only [Option.some.injEq] at hs
    rw [dictSet_new _ hncal] at hs
    exact ⟨hn, hcond.2, hs.symm⟩
  · rw [if_neg hcond] at hs
    simp at hs

theorem remove_eq_some {s s' : State} (h : Inv s) {ns : List Name} (hs : remove s ns = some s') :
    ns.Nodup ∧ (∀ n ∈ ns, n ∈ s.elements) ∧
      s' = { s with layers := s.layers.map (·.drop ns),
                    cal := s.cal.filter (fun e => decide (e.1 ∉ ns)) } := by
  unfold remove at hs
  rw [popAll_eq] at hs
  by_cases hcond : ns.Nodup ∧ ∀ n ∈ ns, n ∈ keys s.cal
  · rw [if_pos hcond] at hs
    simp only [Option.some.injEq] at hs
    exact ⟨hcond.1, fun n hn => (h.cal_iff n).1 (hcond.2 n hn), hs.symm⟩
  · rw [if_neg hcond] at hs
    simp at hs

theorem rename_eq_some {s s' : State} (h : Inv s) {m : NameMap} (hs : rename s m = some s') :
    (s.elements.map (sub m)).Nodup ∧
      s' = { s with layers := s.layers.map (Layer.renamed m),
                    cal := s.cal.map (fun e => (sub m e.1, e.2)) } := by
  unfold rename at hs
  rw [renameLayers_eq] at hs
  have hiff := h.all_layers_iff (fun k => (k.map (sub m)).Nodup)
  by_cases hcond : (s.elements.map (sub m)).Nodup
  · rw [if_pos (hiff.2 hcond)] at hs
    have hinj : ∀ a ∈ s.elements, ∀ b ∈ s.elements, sub m a = sub m b → a = b :=
      List.inj_on_of_nodup_map hcond
    have hcalnd : ((keys s.cal).map (sub m)).Nodup :=
      List.Nodup.map_on
        (fun a ha b hb hab => hinj a ((h.cal_iff a).1 ha) b ((h.cal_iff b).1 hb) hab) h.cal_nodup
    simp only [Option.some.injEq] at hs
    rw [rebuildDict_eq _ _ hcalnd] at hs
    exact ⟨hcond, hs.symm⟩
  · rw [if_neg (fun hh => hcond (hiff.1 hh))] at hs
    simp at hs

/-! ## the invariant is kept -/

theorem mem_zipWith_addField {n : Name} : ∀ (ls : List Layer) (ds : List ArrIn) (l' : Layer),
    l' ∈ List.zipWith (Layer.addField n) ls ds → ∃ l ∈ ls, ∃ d, l' = Layer.addField n l d := by
  intro ls
  induction ls with
  | nil => intro ds l' h; simp at h
  | cons l r ih =>
    intro ds l' h
    cases ds with
    | nil => simp at h
    | cons d t =>
      simp only [List.zipWith_cons_cons, List.mem_cons] at h
      rcases h with h | h
      · exact ⟨l, by simp, d, h⟩
      · obtain ⟨l0, hl0, d0, hd0⟩ := ih t l' h
        exact ⟨l0, by simp [hl0], d0, hd0⟩

theorem add_inv {s s' : State} (h : Inv s) {n : Name} {ds : List ArrIn} {c : Nat}
    (hs : add s n ds c = some s') : Inv s' := by
  obtain ⟨hn, hsh, rfl⟩ := add_eq_some h hs
  have hlen : ds.length = s.layers.length := shapes_length hsh
  have hel : elementsOf (List.zipWith (Layer.addField n) s.layers ds) = s.elements ++ [n] :=
    elementsOf_zipWith n s.layers ds h.1 hlen
  refine ⟨?_, ?_, ?_, ?_, ?_⟩
  · intro hh
    have := congrArg List.length hh
    simp only [List.length_zipWith, List.length_nil, hlen, Nat.min_self] at this
    exact h.1 (List.length_eq_zero_iff.1 this)
  · intro l' hl'
    obtain ⟨l, hl, d, rfl⟩ := mem_zipWith_addField _ _ _ hl'
    simp only [State.elements, hel, Layer.addField, keys_append, keys_cons, keys_nil]
    rw [h.layer_keys hl]
    rfl
  · simp only [State.elements, hel]
    rw [List.nodup_append]
    refine ⟨h.nodup, by simp, ?_⟩
    intro a ha b hb
    simp only [List.mem_singleton] at hb
    subst hb
    exact fun hh => hn (hh ▸ ha)
  · simp only [keys_append, keys_cons, keys_nil]
    rw [List.nodup_append]
    refine ⟨h.cal_nodup, by simp, ?_⟩
    intro a ha b hb
    simp only [List.mem_singleton] at hb
    subst hb
    exact fun hh => hn ((h.cal_iff _).1 (hh ▸ ha))
  · intro k
    simp only [State.elements, hel, keys_append, keys_cons, keys_nil, List.mem_append, h.cal_iff k]

theorem remove_inv {s s' : State} (h : Inv s) {ns : List Name} (hs : remove s ns = some s') : Inv s' := by
  obtain ⟨_, _, rfl⟩ := remove_eq_some h hs
  refine ⟨?_, ?_, ?_, ?_, ?_⟩
  · simpa using h.1
  · intro l' hl'
    obtain ⟨l, hl, rfl⟩ := List.mem_map.1 hl'
    show keys (l.drop ns).fields = elementsOf (s.layers.map (·.drop ns))
    rw [elementsOf_map_drop]
    simp only [Layer.drop]
    rw [keys_filter_key (fun k => decide (k ∉ ns)), h.layer_keys hl]
    rfl
  · simp only [State.elements, elementsOf_map_drop]
    exact h.nodup.filter _
  · rw [keys_filter_key (fun k => decide (k ∉ ns))]
    exact h.cal_nodup.filter _
  · intro k
    simp only [State.elements, elementsOf_map_drop]
    rw [keys_filter_key (fun k => decide (k ∉ ns))]
    simp only [List.mem_filter, h.cal_iff k]
    rfl

theorem rename_inv {s s' : State} (h : Inv s) {m : NameMap} (hs : rename s m = some s') : Inv s' := by
  obtain ⟨hnd, rfl⟩ := rename_eq_some h hs
  have hinj : ∀ a ∈ s.elements, ∀ b ∈ s.elements, sub m a = sub m b → a = b :=
    List.inj_on_of_nodup_map hnd
  refine ⟨?_, ?_, ?_, ?_, ?_⟩
  · simpa using h.1
  · intro l' hl'
    obtain ⟨l, hl, rfl⟩ := List.mem_map.1 hl'
    show keys (Layer.renamed m l).fields = elementsOf (s.layers.map (Layer.renamed m))
    rw [elementsOf_map_renamed]
    simp only [Layer.renamed, keys_mapKey]
    rw [h.layer_keys hl]
    rfl
  · simp only [State.elements, elementsOf_map_renamed]
    exact hnd
  · rw [keys_mapKey]
    exact List.Nodup.map_on
      (fun a ha b hb hab => hinj a ((h.cal_iff a).1 ha) b ((h.cal_iff b).1 hb) hab) h.cal_nodup
  · intro k
    simp only [State.elements, elementsOf_map_renamed, keys_mapKey, List.mem_map]
    constructor
    · rintro ⟨a, ha, rfl⟩; exact ⟨a, (h.cal_iff a).1 ha, rfl⟩
    · rintro ⟨a, ha, rfl⟩; exact ⟨a, (h.cal_iff a).2 ha, rfl⟩

theorem step_inv {s s' : State} (h : Inv s) {op : Op} (hs : step s op = some s') : Inv s' := by
  cases op with
  | add n ds c => exact add_inv h hs
  | remove ns => exact remove_inv h hs
  | rename m => exact rename_inv h hs
  | get layer t c =>
    simp only [step] at hs
    split at hs
    · simp only [Option.some.injEq] at hs; exact hs ▸ h
    · simp at hs
  | callerEdit =>
    simp only [step, Option.some.injEq] at hs; exact hs ▸ h

/-! ## reads -/

theorem calibrateAll_eq (cal : Dict) : ∀ f : Fields, (∀ e ∈ f, e.1 ∈ keys cal) →
    calibrateAll cal f = some (f.map (fun e => (e.1, e.2, some (calIn cal e.1)))) := by
  intro f
  induction f with
  | nil => intro _; rfl
  | cons e r ih =>
    intro hsub
    obtain ⟨c, hc⟩ := get?_of_mem_keys (hsub e (by simp))
    simp only [calibrateAll, hc, ih (fun x hx => hsub x (by simp [hx])), List.map_cons, calIn, Option.getD_some]

theorem readAll_eq (cal : Dict) (ls : List Layer) (layer : Nat) (L : Layer) (hL : ls[layer]? = some L)
    (hnd : (keys L.fields).Nodup) (c : Bool) : ∀ f : Fields, (∀ e ∈ f, e ∈ L.fields) →
    Spec.readAll layer c ((keys f).map (fun n => (n, (dataIn ls n, calIn cal n)))) =
      some (f.map (fun e => (e.1, e.2, if c then some (calIn cal e.1) else none))) := by
  intro f
  induction f with
  | nil => intro _; rfl
  | cons e r ih =>
    intro hsub
    have hd : (dataIn ls e.1)[layer]? = some e.2 := by
      simp only [dataIn, List.getElem?_map, hL, Option.map_some]
      rw [get?_of_mem_nodup hnd (hsub e (by simp))]
      rfl
    simp only [keys_cons, List.map_cons, Spec.readAll, hd, ih (fun x hx => hsub x (by simp [hx]))]

theorem read_refines' {s : State} (h : Inv s) (layer : Nat) (t : Option Name) (c : Bool) :
    read s layer t c = (abs s).read layer t c := by
  unfold read Spec.read
  simp only [abs_shapes_length]
  cases hL : s.layers[layer]? with
  | none =>
    have : ¬ layer < s.layers.length := by
      intro hh
      rw [List.getElem?_eq_getElem hh] at hL
      simp at hL
    simp [this]
  | some L =>
    have hlt : layer < s.layers.length := by
      by_contra hh
      rw [List.getElem?_eq_none (Nat.le_of_not_lt hh)] at hL
      simp at hL
    have hmem : L ∈ s.layers := List.mem_of_getElem? hL
    have hkeys : keys L.fields = s.elements := h.layer_keys hmem
    simp only [if_pos hlt]
    cases t with
    | some n =>
      simp only [readLayer, abs, get?_map_mk]
      by_cases hn : n ∈ s.elements
      · have hnL : n ∈ keys L.fields := hkeys ▸ hn
        obtain ⟨d, hd⟩ := get?_of_mem_keys hnL
        obtain ⟨cv, hcv⟩ := get?_of_mem_keys ((h.cal_iff n).2 hn)
        have hdl : (dataIn s.layers n)[layer]? = some d := by
          simp [dataIn, List.getElem?_map, hL, hd]
        simp only [hd, if_pos hn, hdl, hcv, calIn, Option.getD_some]
        cases c <;> simp
      · have hnL : n ∉ keys L.fields := hkeys ▸ hn
        simp [(get?_eq_none_iff _ _).2 hnL, hn]
    | none =>
      simp only [readLayer]
      have hmap : (abs s).map = (keys L.fields).map (fun n => (n, (dataIn s.layers n, calIn s.cal n))) := by
        simp only [abs, hkeys]
      rw [hmap, readAll_eq s.cal s.layers layer L hL (hkeys ▸ h.nodup) c L.fields (fun _ he => he)]
      cases c with
      | true =>
        simp only [if_true]
        rw [calibrateAll_eq]
        intro e he
        have : e.1 ∈ keys L.fields := List.mem_map.2 ⟨e, he, rfl⟩
        exact (h.cal_iff _).2 (hkeys ▸ this)
      | false => simp

/-! ## one step, and whole histories -/

theorem step_refines' {s : State} (h : Inv s) (op : Op) : (step s op).map abs = (abs s).step op := by
  cases op with
  | add n ds c => exact add_refines h n ds c
  | remove ns => exact remove_refines h ns
  | rename m => exact rename_refines h m
  | get layer t c =>
    simp only [step, Spec.step, read_refines' h]
    split <;> rfl
  | callerEdit => rfl

theorem run_refines' (ops : List Op) : ∀ {s : State}, Inv s → (run s ops).map abs = (abs s).run ops := by
  induction ops with
  | nil => intro s _; rfl
  | cons op r ih =>
    intro s h
    have hstep := step_refines' h op
    simp only [run, Spec.run]
    cases hs : step s op with
    | none =>
      rw [hs] at hstep
      simp only [Option.map_none] at hstep
      rw [← hstep]
      rfl
    | some s' =>
      rw [hs] at hstep
      simp only [Option.map_some] at hstep
      rw [← hstep]
      exact ih (step_inv h hs)

theorem run_inv' (ops : List Op) : ∀ {s s' : State}, Inv s → run s ops = some s' → Inv s' := by
  induction ops with
  | nil => intro s s' h hs; simp only [run, Option.some.injEq] at hs; exact hs ▸ h
  | cons op r ih =>
    intro s s' h hs
    simp only [run] at hs
    cases hstep : step s op with
    | none => rw [hstep] at hs; simp at hs
    | some s1 =>
      rw [hstep] at hs
      exact ih (step_inv h hstep) hs

/-! ## constructors and the npz round trip -/

theorem calIn_default (el : List Name) (n : Name) : calIn (el.map (fun n => ((n, 0) : Name × Nat))) n = 0 := by
  simp only [calIn, get?_map_mk (fun _ => 0) el n]
  split <;> rfl

theorem initCal_keys {el : List Name} (hnd : el.Nodup) {given : Option Dict}
    (hg : ∀ g, given = some g → ∀ k ∈ keys g, k ∈ el) : keys (initCal el given) = el := by
  unfold initCal
  rw [foldl_default el hnd]
  cases given with
  | none => simp [keys_map_mk]
  | some g =>
    simp only
    rw [keys_foldl_update]
    · simp [keys_map_mk]
    · intro k hk
      rw [keys_map_mk]
      exact hg g rfl k hk

theorem initCal_calIn {el : List Name} (hnd : el.Nodup) {given : Option Dict}
    (hg : ∀ g, given = some g → (keys g).Nodup) (n : Name) :
    calIn (initCal el given) n = (given.bind (fun g => get? g n)).getD 0 := by
  unfold initCal
  rw [foldl_default el hnd]
  cases given with
  | none => simp [calIn_default]
  | some g =>
    simp only [calIn, Option.bind_some]
    rw [get?_foldl_update g _ (hg g rfl)]
    cases hgn : get? g n with
    | some v => simp
    | none =>
      simp only [Option.none_or, Option.getD_none]
      exact calIn_default el n

theorem mkState_inv {srr : Bool} {ls : List Layer} {given : Option Dict} (cfg : Nat)
    (hl : LayersOK ls) (hg : GivenOK ls given) : Inv (mkState srr ls given cfg) := by
  have hk : keys (initCal (elementsOf ls) given) = elementsOf ls :=
    initCal_keys hl.2.2 (fun g hgg => (hg g hgg).2)
  refine ⟨hl.1, hl.2.1, hl.2.2, ?_, ?_⟩
  · show (keys (initCal (elementsOf ls) given)).Nodup
    rw [hk]; exact hl.2.2
  · intro n
    show n ∈ keys (initCal (elementsOf ls) given) ↔ n ∈ elementsOf ls
    rw [hk]

theorem mkState_abs {srr : Bool} {ls : List Layer} {given : Option Dict} (cfg : Nat)
    (hl : LayersOK ls) (hg : GivenOK ls given) :
    abs (mkState srr ls given cfg) = Spec.construct srr ls given cfg := by
  apply Spec.ext'
  · rfl
  · rfl
  · show (elementsOf ls).map (fun n => (n, (dataIn ls n, calIn (initCal (elementsOf ls) given) n))) = _
    cases ls with
    | nil => exact absurd rfl hl.1
    | cons l r =>
      simp only [elementsOf, Spec.construct, keys, List.map_map]
      apply List.map_congr_left
      intro e _
      simp only [Function.comp, dataIn]
      congr 2
      exact initCal_calIn hl.2.2 (fun g hgg => (hg g hgg).1) e.1
  · rfl

theorem Inv.layersOK {s : State} (h : Inv s) : LayersOK s.layers := ⟨h.1, h.2.1, h.2.2.1⟩

theorem Inv.givenOK {s : State} (h : Inv s) : GivenOK s.layers (some s.cal) := by
  intro g hg
  simp only [Option.some.injEq] at hg
  subst hg
  exact ⟨h.cal_nodup, fun k hk => (h.cal_iff k).1 hk⟩

theorem construct_abs_self {s : State} (h : Inv s) : Spec.construct s.srr s.layers (some s.cal) s.cfg = abs s := by
  apply Spec.ext'
  · rfl
  · rfl
  · show _ = (elementsOf s.layers).map (fun n => (n, (dataIn s.layers n, calIn s.cal n)))
    cases hls : s.layers with
    | nil => exact absurd hls h.1
    | cons l r =>
      simp only [elementsOf, Spec.construct, keys, List.map_map]
      apply List.map_congr_left
      intro e _
      simp [Function.comp, dataIn, calIn]
  · rfl

theorem roundTrip_some {s : State} (hk : KindOK s) :
    roundTrip s = some (mkState s.srr s.layers (some s.cal) s.cfg) := by
  unfold roundTrip
  cases hsrr : s.srr with
  | true =>
    have := hk.1 hsrr
    simp [constructSRR, this]
  | false =>
    have := hk.2 hsrr
    simp only [Bool.false_eq_true, if_false]
    match hls : s.layers, this with
    | [l], _ => simp [constructLaser]

/-! ## specification steps keep shapes, kind and configuration -/

theorem Spec.step_frame {a a' : Spec} {op : Op} (h : a.step op = some a') :
    a'.shapes = a.shapes ∧ a'.srr = a.srr ∧ a'.cfg = a.cfg := by
  cases op with
  | add n ds c =>
    simp only [Spec.step, Spec.add] at h
    split at h
    · simp only [Option.some.injEq] at h; subst h; exact ⟨rfl, rfl, rfl⟩
    · simp at h
  | remove ns =>
    simp only [Spec.step, Spec.remove] at h
    split at h
    · simp only [Option.some.injEq] at h; subst h; exact ⟨rfl, rfl, rfl⟩
    · simp at h
  | rename m =>
    simp only [Spec.step, Spec.rename] at h
    split at h
    · simp only [Option.some.injEq] at h; subst h; exact ⟨rfl, rfl, rfl⟩
    · simp at h
  | get layer t c =>
    simp only [Spec.step] at h
    split at h
    · simp only [Option.some.injEq] at h; subst h; exact ⟨rfl, rfl, rfl⟩
    · simp at h
  | callerEdit =>
    simp only [Spec.step, Option.some.injEq] at h; subst h; exact ⟨rfl, rfl, rfl⟩

theorem step_frame {s s' : State} (h : Inv s) {op : Op} (hs : step s op = some s') :
    s'.layers.map (·.shape) = s.layers.map (·.shape) ∧ s'.srr = s.srr ∧ s'.cfg = s.cfg := by
  have := step_refines' h op
  rw [hs] at this
  simp only [Option.map_some] at this
  have hf := Spec.step_frame this.symm
  exact hf

theorem entry_isSome_iff (s : State) (n : Name) : (entry s n).isSome ↔ n ∈ s.elements := by
  unfold entry
  rw [get?_isSome_iff, abs_map_keys]

theorem entry_eq_none_iff (s : State) (n : Name) : entry s n = none ↔ n ∉ s.elements := by
  unfold entry
  rw [get?_eq_none_iff, abs_map_keys]

theorem entry_eq (s : State) (n : Name) :
    entry s n = if n ∈ s.elements then some (dataIn s.layers n, calIn s.cal n) else none := by
  unfold entry abs
  exact get?_map_mk _ _ _

theorem readAll_items (layer : Nat) (c : Bool) : ∀ (mp : List (Name × Entry)) (out : ReadOut),
    Spec.readAll layer c mp = some out → ∀ item ∈ out, ∃ e ∈ mp,
      e.2.1[layer]? = some item.2.1 ∧ item.1 = e.1 ∧ item.2.2 = (if c then some e.2.2 else none) := by
  intro mp
  induction mp with
  | nil =>
    intro out h item hi
    simp only [Spec.readAll, Option.some.injEq] at h
    subst h; simp at hi
  | cons e r ih =>
    intro out h item hi
    simp only [Spec.readAll] at h
    cases hd : e.2.1[layer]? with
    | none => rw [hd] at h; simp at h
    | some d =>
      cases hr : Spec.readAll layer c r with
      | none => rw [hd, hr] at h; simp at h
      | some out' =>
        rw [hd, hr] at h
        simp only [Option.some.injEq] at h
        subst h
        rcases List.mem_cons.1 hi with hi | hi
        · subst hi
          exact ⟨e, by simp, hd, rfl, rfl⟩
        · obtain ⟨e', he', h1, h2, h3⟩ := ih out' hr item hi
          exact ⟨e', by simp [he'], h1, h2, h3⟩

/-! ## the constructor keeps every key it is given -/

theorem mem_keys_dictSet (d : Dict) (k : Name) (v : Nat) (x : Name) :
    x ∈ keys (dictSet d k v) ↔ x ∈ keys d ∨ x = k := by
  by_cases hk : k ∈ keys d
  · rw [keys_dictSet_old v hk]
    constructor
    · exact Or.inl
    · rintro (h | h)
      · exact h
      · exact h ▸ hk
  · rw [dictSet_new v hk]
    simp

theorem mem_keys_foldl_update (g : Dict) : ∀ (d : Dict) (x : Name),
    x ∈ keys (g.foldl (fun acc e => dictSet acc e.1 e.2) d) ↔ x ∈ keys g ∨ x ∈ keys d := by
  induction g with
  | nil => intro d x; simp
  | cons e r ih =>
    intro d x
    simp only [List.foldl_cons, ih, mem_keys_dictSet, keys_cons, List.mem_cons]
    constructor
    · rintro (h | h | h)
      · exact Or.inl (Or.inr h)
      · exact Or.inr h
      · exact Or.inl (Or.inl h)
    · rintro ((h | h) | h)
      · exact Or.inr (Or.inr h)
      · exact Or.inl h
      · exact Or.inr (Or.inl h)

/-- the keys of the calibration dict of a new laser: the elements and every key of the given dict -/
theorem mem_keys_initCal (el : List Name) (given : Option Dict) (x : Name) :
    x ∈ keys (initCal el given) ↔ x ∈ el ∨ ∃ g, given = some g ∧ x ∈ keys g := by
  have hd0 : ∀ (l : List Name) (d : Dict), x ∈ keys (l.foldl (fun acc n => dictSet acc n 0) d) ↔ x ∈ l ∨ x ∈ keys d := by
    intro l
    induction l with
    | nil => intro d; simp
    | cons a r ih =>
      intro d
      simp only [List.foldl_cons, ih, mem_keys_dictSet, List.mem_cons]
      constructor
      · rintro (h | h | h)
        · exact Or.inl (Or.inr h)
        · exact Or.inr h
        · exact Or.inl (Or.inl h)
      · rintro ((h | h) | h)
        · exact Or.inr (Or.inr h)
        · exact Or.inl h
        · exact Or.inr (Or.inl h)
  unfold initCal
  cases given with
  | none => simp [hd0]
  | some g =>
    simp only [mem_keys_foldl_update, hd0, keys_nil, List.not_mem_nil, or_false, Option.some.injEq, exists_eq_left']
    exact Or.comm

theorem mkState_inv_iff {srr : Bool} {ls : List Layer} {given : Option Dict} (cfg : Nat) (hl : LayersOK ls)
    (hnd : ∀ g, given = some g → (keys g).Nodup) : Inv (mkState srr ls given cfg) ↔ GivenOK ls given := by
  constructor
  · intro h g hg
    refine ⟨hnd g hg, fun k hk => ?_⟩
    have : k ∈ keys (mkState srr ls given cfg).cal :=
      (mem_keys_initCal (elementsOf ls) given k).2 (Or.inr ⟨g, hg, hk⟩)
    exact (h.cal_iff k).1 this
  · exact mkState_inv cfg hl

end Pew.LaserEdit
