import PewModel.ColocalNd
import PewProofs.Colocal

/-! helper lemmas for the n-D block shuffle of C14: per-axis arithmetic on coordinate lists, `ravel`/`unravel`,
the coordinate enumeration, the pixel map `phiNd` -/
namespace Pew.Colocal

/-! ### componentwise `<` -/

theorem ltAll_iff (a n : List Nat) :
    ltAll a n = true ↔ a.length = n.length ∧ ∀ k (h1 : k < a.length) (h2 : k < n.length), a[k] < n[k] := by
  induction a generalizing n with
  | nil =>
    cases n with
    | nil => simp [ltAll]
    | cons m ms => simp [ltAll]
  | cons x xs ih =>
    cases n with
    | nil => simp [ltAll]
    | cons m ms =>
      simp only [ltAll, Bool.and_eq_true, decide_eq_true_eq, ih, List.length_cons, Nat.add_right_cancel_iff]
      constructor
      · rintro ⟨h0, hl, hr⟩
        refine ⟨hl, ?_⟩
        intro k h1 h2
        cases k with
        | zero => simpa using h0
        | succ k => simpa using hr k (by simpa using h1) (by simpa using h2)
      · rintro ⟨hl, hr⟩
        refine ⟨by simpa using hr 0 (by simp) (by simp), hl, ?_⟩
        intro k h1 h2
        have := hr (k + 1) (by simpa using h1) (by simpa using h2)
        simpa only [List.getElem_cons_succ] using this

theorem ltAll_length {a n : List Nat} (h : ltAll a n = true) : a.length = n.length :=
  ((ltAll_iff a n).mp h).1

/-! ### per-axis arithmetic -/

@[simp] theorem length_divL (c b : List Nat) : (divL c b).length = min c.length b.length := by simp [divL]
@[simp] theorem length_modL (c b : List Nat) : (modL c b).length = min c.length b.length := by simp [modL]
@[simp] theorem length_recomb (G b o : List Nat) :
    (recomb G b o).length = min (min G.length b.length) o.length := by simp [recomb]

@[simp] theorem getElem_divL (c b : List Nat) (k : Nat) (h : k < (divL c b).length) :
    (divL c b)[k] = c[k]'(by simp at h; omega) / b[k]'(by simp at h; omega) := by simp [divL]
@[simp] theorem getElem_modL (c b : List Nat) (k : Nat) (h : k < (modL c b).length) :
    (modL c b)[k] = c[k]'(by simp at h; omega) % b[k]'(by simp at h; omega) := by simp [modL]
@[simp] theorem getElem_recomb (G b o : List Nat) (k : Nat) (h : k < (recomb G b o).length) :
    (recomb G b o)[k] = G[k]'(by simp at h; omega) * b[k]'(by simp at h; omega) + o[k]'(by simp at h; omega) := by
  simp [recomb]

theorem divL_recomb (G b o : List Nat) (hG : G.length = b.length) (ho : ltAll o b = true) :
    divL (recomb G b o) b = G := by
  obtain ⟨hl, hlt⟩ := (ltAll_iff o b).mp ho
  apply List.ext_getElem
  · simp; omega
  · intro k h1 h2
    simp only [getElem_divL, getElem_recomb]
    exact blk_div _ _ _ (hlt k (by omega) (by omega))

theorem modL_recomb (G b o : List Nat) (hG : G.length = b.length) (ho : ltAll o b = true) :
    modL (recomb G b o) b = o := by
  obtain ⟨hl, hlt⟩ := (ltAll_iff o b).mp ho
  apply List.ext_getElem
  · simp; omega
  · intro k h1 h2
    simp only [getElem_modL, getElem_recomb]
    exact blk_mod _ _ _ (hlt k (by omega) (by omega))

theorem recomb_div_mod (c b : List Nat) (h : c.length = b.length) : recomb (divL c b) b (modL c b) = c := by
  apply List.ext_getElem
  · simp; omega
  · intro k h1 h2
    simp only [getElem_recomb, getElem_divL, getElem_modL]
    exact blk_recompose _ _

theorem modL_lt (c b : List Nat) (h : c.length = b.length) (hpos : ∀ v ∈ b, 0 < v) : ltAll (modL c b) b = true := by
  rw [ltAll_iff]
  refine ⟨by simp; omega, ?_⟩
  intro k h1 h2
  simp only [getElem_modL]
  exact Nat.mod_lt _ (hpos _ (List.getElem_mem h2))

theorem axis_lt (q r N b : Nat) (hq : q < N / b) (hr : r < b) : q * b + r < N := by
  have h1 : (q + 1) * b ≤ N / b * b := Nat.mul_le_mul_right b hq
  have h2 : N / b * b ≤ N := Nat.div_mul_le_self N b
  rw [Nat.succ_mul] at h1
  omega

theorem recomb_lt (G b o N : List Nat) (hN : N.length = b.length) (hG : ltAll G (divL N b) = true)
    (ho : ltAll o b = true) : ltAll (recomb G b o) N = true := by
  obtain ⟨gl, glt⟩ := (ltAll_iff _ _).mp hG
  obtain ⟨ol, olt⟩ := (ltAll_iff _ _).mp ho
  simp at gl
  rw [ltAll_iff]
  refine ⟨by simp; omega, ?_⟩
  intro k h1 h2
  simp only [getElem_recomb]
  have := glt k (by omega) (by simp; omega)
  simp only [getElem_divL] at this
  exact axis_lt _ _ _ _ this (olt k (by omega) (by omega))

/-! ### `ravel` / `unravel` -/

theorem unravel_length (sh : List Nat) (f : Nat) : (unravel sh f).length = sh.length := by
  induction sh generalizing f with
  | nil => rfl
  | cons n ns ih => simp [unravel, ih]

theorem ravel_lt (sh c : List Nat) (h : ltAll c sh = true) : ravel sh c < prodL sh := by
  induction sh generalizing c with
  | nil => cases c <;> simp [ltAll, ravel, prodL] at *
  | cons n ns ih =>
    cases c with
    | nil => simp [ltAll] at h
    | cons i is =>
      simp only [ltAll, Bool.and_eq_true, decide_eq_true_eq] at h
      simp only [ravel, prodL]
      exact blk_lt _ _ _ _ h.1 (ih is h.2)

theorem unravel_ravel (sh c : List Nat) (h : ltAll c sh = true) : unravel sh (ravel sh c) = c := by
  induction sh generalizing c with
  | nil => cases c <;> simp [ltAll, unravel] at *
  | cons n ns ih =>
    cases c with
    | nil => simp [ltAll] at h
    | cons i is =>
      simp only [ltAll, Bool.and_eq_true, decide_eq_true_eq] at h
      have hr := ravel_lt ns is h.2
      simp only [ravel, unravel]
      rw [blk_div _ _ _ hr, blk_mod _ _ _ hr, ih is h.2]

theorem ravel_unravel (sh : List Nat) (f : Nat) (h : f < prodL sh) : ravel sh (unravel sh f) = f := by
  induction sh generalizing f with
  | nil => simp [prodL] at h; simp [ravel, h]
  | cons n ns ih =>
    simp only [prodL] at h
    have hP : 0 < prodL ns := by
      rcases Nat.eq_zero_or_pos (prodL ns) with h0 | h0
      · rw [h0] at h; simp at h
      · exact h0
    simp only [unravel, ravel]
    rw [ih _ (Nat.mod_lt _ hP)]
    exact blk_recompose _ _

theorem unravel_lt (sh : List Nat) (f : Nat) (h : f < prodL sh) : ltAll (unravel sh f) sh = true := by
  induction sh generalizing f with
  | nil => simp [unravel, ltAll]
  | cons n ns ih =>
    simp only [prodL] at h
    have hP : 0 < prodL ns := by
      rcases Nat.eq_zero_or_pos (prodL ns) with h0 | h0
      · rw [h0] at h; simp at h
      · exact h0
    simp only [unravel, ltAll, Bool.and_eq_true, decide_eq_true_eq]
    exact ⟨(Nat.div_lt_iff_lt_mul hP).mpr h, ih _ (Nat.mod_lt _ hP)⟩

/-! ### the coordinate enumeration -/

theorem mem_coords (sh c : List Nat) : c ∈ coords sh ↔ ltAll c sh = true := by
  induction sh generalizing c with
  | nil => cases c <;> simp [coords, ltAll]
  | cons n ns ih =>
    simp only [coords, List.mem_flatMap, List.mem_range, List.mem_map]
    constructor
    · rintro ⟨i, hi, c', hc', rfl⟩
      simp [ltAll, hi, (ih c').mp hc']
    · intro h
      cases c with
      | nil => simp [ltAll] at h
      | cons i is =>
        simp only [ltAll, Bool.and_eq_true, decide_eq_true_eq] at h
        exact ⟨i, h.1, is, (ih is).mpr h.2, rfl⟩

theorem coords_nodup (sh : List Nat) : (coords sh).Nodup := by
  induction sh with
  | nil => simp [coords]
  | cons n ns ih =>
    simp only [coords]
    rw [List.nodup_flatMap]
    constructor
    · intro i _
      exact List.Nodup.map (fun a b h => by injection h) ih
    · apply List.Pairwise.imp _ (List.nodup_range (n := n))
      intro a b hab
      simp only [Function.onFun, List.disjoint_left, List.mem_map]
      rintro q ⟨c, _, rfl⟩ ⟨c', _, h⟩
      injection h with h1 _
      exact hab h1.symm

/-! ### the selected blocks -/

theorem selectedNd_nodup (M : List Nat → Bool) (block nb : List Nat) (part : Bool) :
    (selectedNd M block nb part).Nodup :=
  List.Nodup.filter _ List.nodup_range

theorem selectedNd_lt (M : List Nat → Bool) (block nb : List Nat) (part : Bool) (f : Nat)
    (hf : f ∈ selectedNd M block nb part) : f < prodL nb := by
  simp only [selectedNd, List.mem_filter, List.mem_range] at hf
  exact hf.1

/-! ### the pixel map `phiNd` -/

/-- what the theorems need to know about the block grid and the permutation -/
structure GeoNd (block nb N idx nidx : List Nat) : Prop where
  hpos : ∀ v ∈ block, 0 < v
  hlenN : N.length = block.length
  hnb : nb = divL N block
  hp : nidx.Perm idx
  hnd : idx.Nodup
  hlt : ∀ f ∈ idx, f < prodL nb

section phiNd
variable {block nb N idx nidx : List Nat}

theorem GeoNd.nb_length (G : GeoNd block nb N idx nidx) : nb.length = block.length := by
  rw [G.hnb]; simp [G.hlenN]

theorem phiNd_valid (c : List Nat) (h : ltAll (divL c block) nb = true) :
    phiNd block nb idx nidx c
      = recomb (unravel nb (src idx nidx (ravel nb (divL c block)))) block (modL c block) := by
  unfold phiNd; rw [if_pos h]

theorem phiNd_invalid (c : List Nat) (h : ¬ ltAll (divL c block) nb = true) :
    phiNd block nb idx nidx c = c := by
  unfold phiNd; rw [if_neg h]

theorem src_flat_lt_nd (G : GeoNd block nb N idx nidx) (c : List Nat) (h : ltAll (divL c block) nb = true) :
    src idx nidx (ravel nb (divL c block)) < prodL nb :=
  src_lt idx nidx G.hp _ G.hlt _ (ravel_lt _ _ h)

theorem phiNd_div (G : GeoNd block nb N idx nidx) (c : List Nat) (hc : c.length = block.length)
    (h : ltAll (divL c block) nb = true) :
    divL (phiNd block nb idx nidx c) block = unravel nb (src idx nidx (ravel nb (divL c block))) := by
  rw [phiNd_valid c h]
  exact divL_recomb _ _ _ (by rw [unravel_length, G.nb_length]) (modL_lt c block hc G.hpos)

theorem phiNd_mod (G : GeoNd block nb N idx nidx) (c : List Nat) (hc : c.length = block.length)
    (h : ltAll (divL c block) nb = true) :
    modL (phiNd block nb idx nidx c) block = modL c block := by
  rw [phiNd_valid c h]
  exact modL_recomb _ _ _ (by rw [unravel_length, G.nb_length]) (modL_lt c block hc G.hpos)

/-- the source pixel lies in the working array -/
theorem phiNd_in_box (G : GeoNd block nb N idx nidx) (c : List Nat) (hc : ltAll c N = true) :
    ltAll (phiNd block nb idx nidx c) N = true := by
  have hcl : c.length = block.length := (ltAll_length hc).trans G.hlenN
  by_cases h : ltAll (divL c block) nb = true
  · rw [phiNd_valid c h]
    refine recomb_lt _ _ _ _ G.hlenN ?_ (modL_lt c block hcl G.hpos)
    rw [← G.hnb]
    exact unravel_lt _ _ (src_flat_lt_nd G c h)
  · rw [phiNd_invalid c h]; exact hc

/-- pixels outside the block grid, and pixels of blocks that were not selected, are fixed -/
theorem phiNd_fix (c : List Nat) (hc : c.length = block.length)
    (h : ¬ ltAll (divL c block) nb = true ∨ ravel nb (divL c block) ∉ idx) :
    phiNd block nb idx nidx c = c := by
  by_cases hv : ltAll (divL c block) nb = true
  · rcases h with h | h
    · exact absurd hv h
    · rw [phiNd_valid c hv, src_of_not_mem idx nidx _ h, unravel_ravel _ _ hv]
      exact recomb_div_mod c block hc
  · exact phiNd_invalid c hv

theorem phiNd_inj (G : GeoNd block nb N idx nidx) (c c' : List Nat) (hc : c.length = block.length)
    (hc' : c'.length = block.length)
    (h : phiNd block nb idx nidx c = phiNd block nb idx nidx c') : c = c' := by
  by_cases hv : ltAll (divL c block) nb = true
  · have d := phiNd_div G c hc hv
    have m := phiNd_mod G c hc hv
    have hvphi : ltAll (divL (phiNd block nb idx nidx c) block) nb = true := by
      rw [d]; exact unravel_lt _ _ (src_flat_lt_nd G c hv)
    by_cases hv' : ltAll (divL c' block) nb = true
    · have d' := phiNd_div G c' hc' hv'
      have m' := phiNd_mod G c' hc' hv'
      rw [h] at d m
      have e1 := d.symm.trans d'
      have e2 : src idx nidx (ravel nb (divL c block)) = src idx nidx (ravel nb (divL c' block)) := by
        have := congrArg (ravel nb) e1
        rwa [ravel_unravel _ _ (src_flat_lt_nd G c hv), ravel_unravel _ _ (src_flat_lt_nd G c' hv')] at this
      have e3 := src_inj idx nidx G.hp G.hnd _ _ e2
      have e4 : divL c block = divL c' block := by
        have := congrArg (unravel nb) e3
        rwa [unravel_ravel _ _ hv, unravel_ravel _ _ hv'] at this
      have e5 : modL c block = modL c' block := m.symm.trans m'
      rw [← recomb_div_mod c block hc, ← recomb_div_mod c' block hc', e4, e5]
    · rw [h, phiNd_invalid c' hv'] at hvphi
      exact absurd hvphi hv'
  · by_cases hv' : ltAll (divL c' block) nb = true
    · have d' := phiNd_div G c' hc' hv'
      have hvphi : ltAll (divL (phiNd block nb idx nidx c') block) nb = true := by
        rw [d']; exact unravel_lt _ _ (src_flat_lt_nd G c' hv')
      rw [← h, phiNd_invalid c hv] at hvphi
      exact absurd hvphi hv
    · rw [phiNd_invalid c hv, phiNd_invalid c' hv'] at h
      exact h

end phiNd

/-- the multiset of the values of the working array is not changed by reading it through `phiNd` -/
theorem conserved_working_nd {α} (X : List Nat → α) {block nb N idx nidx : List Nat}
    (G : GeoNd block nb N idx nidx) :
    ((coords N).map (fun c => X (phiNd block nb idx nidx c))).Perm ((coords N).map X) := by
  have hperm := map_perm_of_inj (coords N) (phiNd block nb idx nidx) (coords_nodup N)
    (by
      intro c hc
      rw [mem_coords] at hc ⊢
      exact phiNd_in_box G c hc)
    (by
      intro c hc c' hc' h
      rw [mem_coords] at hc hc'
      exact phiNd_inj G c c' ((ltAll_length hc).trans G.hlenN) ((ltAll_length hc').trans G.hlenN) h)
  have := hperm.map X
  rwa [List.map_map] at this

/-! ### the geometry of an actual call -/

theorem prepareNd_N_length {α} (x : NdImg α) (mask : List Nat → Bool) (block : List Nat) (padMode : Bool)
    (hlen : block.length = x.shape.length) : (prepareNd x mask block padMode).N.length = block.length := by
  cases padMode <;> simp [prepareNd, hlen]

theorem geoNd_of_call {α} (x : NdImg α) (mask : List Nat → Bool) (block : List Nat) (padMode part : Bool)
    (nidx : List Nat) (hlen : block.length = x.shape.length) (hpos : ∀ v ∈ block, 0 < v)
    (hp : nidx.Perm (shuffleIdxNd x mask block padMode part)) :
    GeoNd block (nBlocksL (prepareNd x mask block padMode).N block) (prepareNd x mask block padMode).N
      (shuffleIdxNd x mask block padMode part) nidx :=
  { hpos := hpos, hlenN := prepareNd_N_length x mask block padMode hlen, hnb := rfl, hp := hp,
    hnd := selectedNd_nodup _ _ _ _, hlt := fun f hf => selectedNd_lt _ _ _ _ f hf }

theorem edge_id (shape c : List Nat) (h : ltAll c shape = true) : List.zipWith edge shape c = c := by
  obtain ⟨hl, hlt⟩ := (ltAll_iff _ _).mp h
  apply List.ext_getElem
  · simp; omega
  · intro k h1 h2
    have := hlt k h2 (by omega)
    simp only [List.getElem_zipWith, edge]
    omega

/-- inside the original shape the working array is the input, in both modes -/
theorem prepareNd_X {α} (x : NdImg α) (mask : List Nat → Bool) (block : List Nat) (padMode : Bool) (c : List Nat)
    (h : ltAll c x.shape = true) : (prepareNd x mask block padMode).X c = x.get c := by
  cases padMode with
  | false => rfl
  | true => simp [prepareNd, edge_id _ _ h]

theorem padExt_list_of_multiple (shape block : List Nat) (hlen : block.length = shape.length)
    (h : (List.zipWith (fun s b => s % b == 0) shape block).all id = true) :
    List.zipWith padExt shape block = shape := by
  apply List.ext_getElem
  · simp; omega
  · intro k h1 h2
    rw [List.all_eq_true] at h
    have := h ((List.zipWith (fun s b => s % b == 0) shape block)[k]'(by simp; omega)) (List.getElem_mem _)
    simp only [List.getElem_zipWith, id, beq_iff_eq] at this ⊢
    exact padExt_of_multiple _ _ this

/-- the list handed to the permutation depends on the image only through its shape -/
theorem shuffleIdxNd_shape {α β} (x : NdImg α) (y : NdImg β) (mask : List Nat → Bool) (block : List Nat)
    (padMode part : Bool) (h : x.shape = y.shape) :
    shuffleIdxNd x mask block padMode part = shuffleIdxNd y mask block padMode part := by
  unfold shuffleIdxNd prepareNd
  cases padMode <;> simp [h]

/-! ### the call: the per-axis trim writes and the frame -/

theorem cuts_fold (L : List (Nat × Nat)) (mask : List Nat → Bool) :
    (L.map (fun tk => cutAxis tk.2 tk.1)).foldl (fun M cut => cut M) mask
      = fun c => mask c && L.all (fun tk => decide (c.getD tk.2 0 < tk.1)) := by
  induction L generalizing mask with
  | nil => funext c; simp
  | cons tk L ih =>
    simp only [List.map_cons, List.foldl_cons, ih]
    funext c
    simp [cutAxis, Bool.and_assoc]

theorem trimCutsNd_fold {α} (x : NdImg α) (mask : List Nat → Bool) (block : List Nat) :
    (trimCutsNd x.shape block).foldl (fun M cut => cut M) mask = (prepareNd x mask block false).M := by
  unfold trimCutsNd
  rw [cuts_fold]
  rfl

/-- the array handed back does not depend on whether the mask was copied: it is the pure model's result -/
theorem shuffleCallNd_ret {α} (copies aliases : Bool) (x : NdImg α) (mask : List Nat → Bool) (block : List Nat)
    (padMode part : Bool) (nidx : List Nat) :
    (shuffleCallNd copies aliases x mask block padMode part nidx).ret
      = shuffleBlocksLayoutNd aliases x mask block padMode part nidx := by
  cases padMode with
  | true => rfl
  | false =>
    have h := inplaceMask_read copies (trimCutsNd x.shape block) mask
    rw [trimCutsNd_fold] at h
    simp only [shuffleCallNd, Bool.false_eq_true, if_false, h]
    rfl

theorem shuffleCallNd_xAfter {α} (copies aliases : Bool) (x : NdImg α) (mask : List Nat → Bool) (block : List Nat)
    (padMode part : Bool) (nidx : List Nat) :
    (shuffleCallNd copies aliases x mask block padMode part nidx).xAfter
      = if padMode then x else shuffleBlocksLayoutNd aliases x mask block false part nidx := by
  cases padMode with
  | true => rfl
  | false =>
    have := shuffleCallNd_ret copies aliases x mask block false part nidx
    simpa [shuffleCallNd] using this

theorem shuffleCallNd_maskAfter_copies {α} (aliases : Bool) (x : NdImg α) (mask : List Nat → Bool) (block : List Nat)
    (padMode part : Bool) (nidx : List Nat) :
    (shuffleCallNd true aliases x mask block padMode part nidx).maskAfter = mask := by
  cases padMode with
  | true => rfl
  | false => exact inplaceMask_frame _ mask

theorem shuffleCallNd_maskAfter_nocopy {α} (aliases : Bool) (x : NdImg α) (mask : List Nat → Bool) (block : List Nat)
    (part : Bool) (nidx : List Nat) :
    (shuffleCallNd false aliases x mask block false part nidx).maskAfter = (prepareNd x mask block false).M := by
  have := inplaceMask_defect (trimCutsNd x.shape block) mask
  rw [trimCutsNd_fold] at this
  exact this

theorem src_self (idx : List Nat) (f : Nat) : src idx idx f = f := by
  unfold src
  split
  · rename_i hlt
    rw [List.getD_eq_getElem?_getD, List.getElem?_eq_getElem hlt]
    exact List.getElem_idxOf hlt
  · rfl

theorem phiNd_self (block nb idx c : List Nat) (hc : c.length = block.length) : phiNd block nb idx idx c = c := by
  by_cases hv : ltAll (divL c block) nb = true
  · rw [phiNd_valid c hv, src_self, unravel_ravel _ _ hv]
    exact recomb_div_mod c block hc
  · exact phiNd_invalid c hv

theorem inSelectedNd_false_iff (block nb idx c : List Nat) :
    inSelectedNd block nb idx c = false ↔
      (¬ ltAll (divL c block) nb = true ∨ ravel nb (divL c block) ∉ idx) := by
  unfold inSelectedNd
  by_cases h0 : ltAll (divL c block) nb = true <;> by_cases hm : ravel nb (divL c block) ∈ idx <;> simp [h0, hm]

/-! ### the 2-D model is the n-D model on shapes `[n0, n1]` -/

theorem coords_two (a b : Nat) :
    coords [a, b] = (List.range a).flatMap (fun i => (List.range b).map (fun j => [i, j])) := by
  have h1 : ∀ l : List Nat, l.flatMap (fun i => [[i]]) = l.map (fun i => [i]) := by
    intro l; induction l with
    | nil => rfl
    | cons a l ih => simp [ih]
  simp [coords, h1, Function.comp_def]

theorem prepareNd_two {α} (x : Img α) (mask : Nat → Nat → Bool) (b0 b1 : Nat) (padMode : Bool) :
    (prepareNd x.toNd (maskToNd mask) [b0, b1] padMode).N
      = [(prepare x mask b0 b1 padMode).N0, (prepare x mask b0 b1 padMode).N1] ∧
    (∀ i j, (prepareNd x.toNd (maskToNd mask) [b0, b1] padMode).X [i, j] = (prepare x mask b0 b1 padMode).X i j) ∧
    (∀ i j, (prepareNd x.toNd (maskToNd mask) [b0, b1] padMode).M [i, j] = (prepare x mask b0 b1 padMode).M i j) := by
  cases padMode with
  | true => simp [prepareNd, prepare, Img.toNd, maskToNd]
  | false => simp [prepareNd, prepare, Img.toNd, maskToNd, inTrim, trimExt, List.zipIdx, Bool.and_assoc]

theorem blockMaskNd_two (M : List Nat → Bool) (M2 : Nat → Nat → Bool) (h : ∀ i j, M [i, j] = M2 i j)
    (b0 b1 : Nat) (part : Bool) (B0 B1 : Nat) :
    blockMaskNd M [b0, b1] part [B0, B1] = blockMask M2 b0 b1 part B0 B1 := by
  have : blockCellsNd M [b0, b1] [B0, B1] = blockCells M2 b0 b1 B0 B1 := by
    simp [blockCellsNd, blockCells, coords_two, List.map_flatMap, recomb, Function.comp_def, h]
  simp [blockMaskNd, blockMask, this]

theorem selectedNd_two (M : List Nat → Bool) (M2 : Nat → Nat → Bool) (h : ∀ i j, M [i, j] = M2 i j)
    (b0 b1 nb0 nb1 : Nat) (part : Bool) :
    selectedNd M [b0, b1] [nb0, nb1] part = selected M2 b0 b1 nb0 nb1 part := by
  simp [selectedNd, selected, prodL, unravel, blockMaskNd_two M M2 h]

theorem phiNd_two (b0 b1 nb0 nb1 : Nat) (idx nidx : List Nat) (i j : Nat) :
    phiNd [b0, b1] [nb0, nb1] idx nidx [i, j]
      = [(phi b0 b1 nb0 nb1 idx nidx i j).1, (phi b0 b1 nb0 nb1 idx nidx i j).2] := by
  unfold phiNd phi
  by_cases h0 : i / b0 < nb0 <;> by_cases h1 : j / b1 < nb1 <;>
    simp [ltAll, divL, modL, h0, h1, recomb, unravel, ravel, prodL]


theorem nBlocksL_two (N0 N1 b0 b1 : Nat) : nBlocksL [N0, N1] [b0, b1] = [nBlocks N0 b0, nBlocks N1 b1] := rfl

theorem shuffleIdxNd_two {α} (x : Img α) (mask : Nat → Nat → Bool) (b0 b1 : Nat) (padMode part : Bool) :
    shuffleIdxNd x.toNd (maskToNd mask) [b0, b1] padMode part = shuffleIdx x mask b0 b1 padMode part := by
  obtain ⟨hN, _, hM⟩ := prepareNd_two x mask b0 b1 padMode
  unfold shuffleIdxNd shuffleIdx
  simp only [hN, nBlocksL_two]
  exact selectedNd_two _ _ hM _ _ _ _ _

theorem shuffleBlocksLayoutNd_two {α} (aliases : Bool) (x : Img α) (mask : Nat → Nat → Bool) (b0 b1 : Nat)
    (padMode part : Bool) (nidx : List Nat) (i j : Nat) :
    (shuffleBlocksLayoutNd aliases x.toNd (maskToNd mask) [b0, b1] padMode part nidx).get [i, j]
      = (shuffleBlocksLayout aliases x mask b0 b1 padMode part nidx).get i j := by
  obtain ⟨hN, hX, hM⟩ := prepareNd_two x mask b0 b1 padMode
  have hidx := shuffleIdxNd_two x mask b0 b1 padMode part
  unfold shuffleIdxNd at hidx
  simp only [hN, nBlocksL_two] at hidx
  unfold shuffleBlocksLayoutNd shuffleFromPrepNd
  simp only [hN, nBlocksL_two, hidx, phiNd_two, hX]
  cases aliases <;> rfl

end Pew.Colocal
