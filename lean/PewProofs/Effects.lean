import PewModel.Effects
namespace Pew.Effects

/-! ## soundness of `ana`

Abstraction of an object is its first component (parameter index, or `np +` allocation site). -/

def A.may (a : A) (x : Var) (o : Nat) : Prop := a.top = true ∨ o ∈ a.raw x
def A.mayE (a : A) (e : AEdge) : Prop := a.top = true ∨ e ∈ a.heap
def A.mayK (a : A) (k : Nat) : Prop := a.top = true ∨ k ∈ a.alloc
def A.mayW (a : A) (o : Nat) : Prop := a.top = true ∨ o ∈ a.w
def A.mayR (a : A) (o : Nat) : Prop := a.top = true ∨ o ∈ a.r

def absE (e : Edge) : AEdge := (e.1.1, e.2.1, e.2.2.1)

/-- the part of the relation that holds whether or not the execution completed (the analysis never forgets it):
written parameters, returned objects and heap edges are covered by the abstract state -/
def WRel (np : Nat) (σ : St) (a : A) : Prop :=
  (∀ o, o ∈ σ.written → o.1 < np → a.mayW o.1) ∧ (∀ o, o ∈ σ.returned → a.mayR o.1) ∧
  (∀ e, e ∈ σ.heap → a.mayE (absE e))

/-- every variable's object and every allocated object is covered too -/
def Rel (np : Nat) (σ : St) (a : A) : Prop :=
  (∀ x o, σ.env x = some o → a.may x o.1) ∧ (∀ o, o ∈ σ.objs → a.mayK o.1) ∧ WRel np σ a

theorem lookup_filter_ne {β : Type} (l : List (Var × β)) (x y : Var) (h : y ≠ x) :
    (l.filter (fun p => p.1 != x)).lookup y = l.lookup y := by
  induction l with
  | nil => rfl
  | cons p r ih =>
    obtain ⟨z, w⟩ := p
    by_cases hz : z = x
    · subst hz
      have : (y == z) = false := by simpa using h
      simp [List.filter, List.lookup, this, ih]
    · have hzx : (z != x) = true := by simpa using hz
      simp only [List.filter, hzx, List.lookup_cons]
      rw [ih]

theorem mem_insertNat {k x : Nat} {l : List Nat} : x ∈ insertNat k l ↔ x = k ∨ x ∈ l := by
  unfold insertNat
  by_cases h : k ∈ l
  · simp only [List.contains_iff_mem, h, if_true]
    constructor
    · exact Or.inr
    · rintro (rfl | h')
      · exact h
      · exact h'
  · simp [h]

theorem lookup_filter_notin {β : Type} (l : List (Var × β)) (xs : List Var) (y : Var) (h : y ∉ xs) :
    (l.filter (fun p => !xs.contains p.1)).lookup y = l.lookup y := by
  induction l with
  | nil => rfl
  | cons p r ih =>
    obtain ⟨z, w⟩ := p
    by_cases hz : z ∈ xs
    · have hyz : (y == z) = false := by
        cases hq : (y == z) with
        | false => rfl
        | true =>
          have : y = z := by simpa using hq
          subst this
          exact absurd hz h
      rw [List.filter_cons_of_neg (by simp [hz]), List.lookup_cons, hyz, ih]
    · rw [List.filter_cons_of_pos (by simp [hz]), List.lookup_cons, List.lookup_cons, ih]

theorem raw_set (a : A) (x y : Var) (ps : List Nat) :
    (a.set x ps).raw y = if y = x then ps.eraseDups else a.raw y := by
  unfold A.raw A.set
  by_cases hyx : y = x
  · subst hyx; simp [List.lookup]
  · have : (y == x) = false := by simpa using hyx
    simp only [List.lookup_cons, this, hyx, if_false]
    rw [lookup_filter_ne _ _ _ hyx]

theorem lookup_map_self {β : Type} (l : List Var) (f : Var → β) (x : Var) :
    (l.map (fun y => (y, f y))).lookup x = if x ∈ l then some (f x) else none := by
  induction l with
  | nil => simp
  | cons y r ih =>
    simp only [List.map_cons, List.lookup_cons, List.mem_cons]
    by_cases h : x = y
    · subst h; simp
    · have : (x == y) = false := by simpa using h
      simp [this, ih, h]

theorem lookup_some_mem {β : Type} (l : List (Var × β)) (x : Var) (v : β)
    (h : l.lookup x = some v) : x ∈ l.map (·.1) := by
  induction l with
  | nil => simp at h
  | cons p r ih =>
    obtain ⟨y, w⟩ := p
    simp only [List.lookup_cons] at h
    by_cases hxy : x = y
    · subst hxy; simp
    · have : (x == y) = false := by simpa using hxy
      simp [this] at h
      simp [ih h]

theorem raw_mem_vars {a : A} {x : Var} {o : Nat} (h : o ∈ a.raw x) : x ∈ a.vars := by
  unfold A.raw at h
  cases hl : a.env.lookup x with
  | none => simp [hl] at h
  | some v => exact lookup_some_mem a.env x v hl

theorem raw_join (a b : A) (x : Var) (o : Nat) (h : o ∈ a.raw x ∨ o ∈ b.raw x) :
    o ∈ (joinA a b).raw x := by
  have hx : x ∈ (a.vars ++ b.vars).eraseDups := by
    rw [List.mem_eraseDups]
    rcases h with h | h
    · exact List.mem_append_left _ (raw_mem_vars h)
    · exact List.mem_append_right _ (raw_mem_vars h)
  unfold A.raw joinA
  simp only [lookup_map_self, hx, if_true, Option.getD_some, List.mem_eraseDups, List.mem_append]
  exact h

theorem mem_unionL {α : Type} [BEq α] [LawfulBEq α] {a b : List α} {x : α} : x ∈ unionL a b ↔ x ∈ a ∨ x ∈ b := by
  unfold unionL
  rw [List.mem_append, List.mem_filter]
  constructor
  · rintro (h | ⟨h, _⟩)
    · exact Or.inl h
    · exact Or.inr h
  · rintro (h | h)
    · exact Or.inl h
    · by_cases ha : x ∈ a
      · exact Or.inl ha
      · exact Or.inr ⟨h, by simpa using ha⟩

theorem may_join_l (a b : A) (x : Var) (o : Nat) (h : a.may x o) : (joinA a b).may x o := by
  rcases h with h | h
  · left; simp [joinA, h]
  · right; exact raw_join a b x o (Or.inl h)

theorem may_join_r (a b : A) (x : Var) (o : Nat) (h : b.may x o) : (joinA a b).may x o := by
  rcases h with h | h
  · left; simp [joinA, h]
  · right; exact raw_join a b x o (Or.inr h)

theorem mayE_join_l (a b : A) (e : AEdge) (h : a.mayE e) : (joinA a b).mayE e := by
  rcases h with h | h
  · left; simp [joinA, h]
  · right; simp [joinA, mem_unionL, h]

theorem mayE_join_r (a b : A) (e : AEdge) (h : b.mayE e) : (joinA a b).mayE e := by
  rcases h with h | h
  · left; simp [joinA, h]
  · right; simp [joinA, mem_unionL, h]

theorem mayK_join_l (a b : A) (k : Nat) (h : a.mayK k) : (joinA a b).mayK k := by
  rcases h with h | h
  · left; simp [joinA, h]
  · right; simp [joinA, mem_unionL, h]

theorem mayK_join_r (a b : A) (k : Nat) (h : b.mayK k) : (joinA a b).mayK k := by
  rcases h with h | h
  · left; simp [joinA, h]
  · right; simp [joinA, mem_unionL, h]

theorem mayW_join_l (a b : A) (o : Nat) (h : a.mayW o) : (joinA a b).mayW o := by
  rcases h with h | h
  · left; simp [joinA, h]
  · right; simp [joinA, mem_unionL, h]

theorem mayW_join_r (a b : A) (o : Nat) (h : b.mayW o) : (joinA a b).mayW o := by
  rcases h with h | h
  · left; simp [joinA, h]
  · right; simp [joinA, mem_unionL, h]

theorem mayR_join_l (a b : A) (o : Nat) (h : a.mayR o) : (joinA a b).mayR o := by
  rcases h with h | h
  · left; simp [joinA, h]
  · right; simp [joinA, mem_unionL, h]

theorem mayR_join_r (a b : A) (o : Nat) (h : b.mayR o) : (joinA a b).mayR o := by
  rcases h with h | h
  · left; simp [joinA, h]
  · right; simp [joinA, mem_unionL, h]

theorem wrel_join_l {np σ} (a b : A) (h : WRel np σ a) : WRel np σ (joinA a b) :=
  ⟨fun o h1 h2 => mayW_join_l a b _ (h.1 o h1 h2), fun o h1 => mayR_join_l a b _ (h.2.1 o h1),
   fun e he => mayE_join_l a b _ (h.2.2 e he)⟩
theorem wrel_join_r {np σ} (a b : A) (h : WRel np σ b) : WRel np σ (joinA a b) :=
  ⟨fun o h1 h2 => mayW_join_r a b _ (h.1 o h1 h2), fun o h1 => mayR_join_r a b _ (h.2.1 o h1),
   fun e he => mayE_join_r a b _ (h.2.2 e he)⟩

theorem rel_join_l {np σ} (a b : A) (h : Rel np σ a) : Rel np σ (joinA a b) :=
  ⟨fun x o h1 => may_join_l a b x _ (h.1 x o h1), fun o ho => mayK_join_l a b _ (h.2.1 o ho), wrel_join_l a b h.2.2⟩
theorem rel_join_r {np σ} (a b : A) (h : Rel np σ b) : Rel np σ (joinA a b) :=
  ⟨fun x o h1 => may_join_r a b x _ (h.1 x o h1), fun o ho => mayK_join_r a b _ (h.2.1 o ho), wrel_join_r a b h.2.2⟩

/-- what `leA a b = true` gives when `b` is not top -/
theorem leA_parts {a b : A} (h : leA a b = true) (hb : ¬ b.top = true) :
    a.top = false ∧ (∀ x ∈ a.vars, ∀ p ∈ a.raw x, p ∈ b.raw x) ∧ (∀ e ∈ a.heap, e ∈ b.heap) ∧
    (∀ k ∈ a.alloc, k ∈ b.alloc) ∧ (∀ p ∈ a.w, p ∈ b.w) ∧ (∀ p ∈ a.r, p ∈ b.r) := by
  unfold leA at h
  simp [hb] at h
  obtain ⟨⟨⟨⟨⟨hat, hv⟩, hh⟩, hk⟩, hw⟩, hr⟩ := h
  exact ⟨hat, hv, fun e he => hh e.1 e.2.1 e.2.2 he, hk, hw, hr⟩

theorem le_may {a b : A} (h : leA a b = true) (x : Var) (o : Nat) (hm : a.may x o) : b.may x o := by
  by_cases hb : b.top = true
  · left; exact hb
  · obtain ⟨hat, hv, _⟩ := leA_parts h hb
    rcases hm with hm | hm
    · simp [hat] at hm
    · right; exact hv x (raw_mem_vars hm) o hm

theorem le_mayE {a b : A} (h : leA a b = true) (e : AEdge) (hm : a.mayE e) : b.mayE e := by
  by_cases hb : b.top = true
  · left; exact hb
  · obtain ⟨hat, _, hh, _⟩ := leA_parts h hb
    rcases hm with hm | hm
    · simp [hat] at hm
    · right; exact hh e hm

theorem le_mayK {a b : A} (h : leA a b = true) (k : Nat) (hm : a.mayK k) : b.mayK k := by
  by_cases hb : b.top = true
  · left; exact hb
  · obtain ⟨hat, _, _, hk, _⟩ := leA_parts h hb
    rcases hm with hm | hm
    · simp [hat] at hm
    · right; exact hk k hm

theorem le_mayW {a b : A} (h : leA a b = true) (o : Nat) (hm : a.mayW o) : b.mayW o := by
  by_cases hb : b.top = true
  · left; exact hb
  · obtain ⟨hat, _, _, _, hw, _⟩ := leA_parts h hb
    rcases hm with hm | hm
    · simp [hat] at hm
    · right; exact hw o hm

theorem le_mayR {a b : A} (h : leA a b = true) (o : Nat) (hm : a.mayR o) : b.mayR o := by
  by_cases hb : b.top = true
  · left; exact hb
  · obtain ⟨hat, _, _, _, _, hr⟩ := leA_parts h hb
    rcases hm with hm | hm
    · simp [hat] at hm
    · right; exact hr o hm

theorem wrel_le {np σ} {a b : A} (h : leA a b = true) (hr : WRel np σ a) : WRel np σ b :=
  ⟨fun o h1 h2 => le_mayW h _ (hr.1 o h1 h2), fun o h1 => le_mayR h _ (hr.2.1 o h1),
   fun e he => le_mayE h _ (hr.2.2 e he)⟩

theorem rel_le {np σ} {a b : A} (h : leA a b = true) (hr : Rel np σ a) : Rel np σ b :=
  ⟨fun x o h1 => le_may h x _ (hr.1 x o h1), fun o ho => le_mayK h _ (hr.2.1 o ho), wrel_le h hr.2.2⟩

theorem wrel_top {np σ} : WRel np σ topA :=
  ⟨fun _ _ _ => Or.inl rfl, fun _ _ => Or.inl rfl, fun _ _ => Or.inl rfl⟩

theorem rel_top {np σ} : Rel np σ topA :=
  ⟨fun _ _ _ => Or.inl rfl, fun _ _ => Or.inl rfl, wrel_top⟩

theorem may_set_ne {a : A} {x y : Var} {ps : List Nat} {o : Nat} (hne : y ≠ x) (h : a.may y o) :
    (a.set x ps).may y o := by
  rcases h with h | h
  · exact Or.inl h
  · right; rw [raw_set]; simp [hne, h]

theorem may_set_eq {a : A} {x : Var} {ps : List Nat} {o : Nat} (h : o ∈ ps) : (a.set x ps).may x o := by
  right; rw [raw_set]; simp [h]

/-- binding `x` to an object whose abstraction is in `ps` (or the state is top) keeps the variables covered -/
theorem env_bind {a : A} {σ : St} {x : Var} {o : Obj} {ps : List Nat}
    (hr : ∀ y o', σ.env y = some o' → a.may y o'.1) (ho : a.top = true ∨ o.1 ∈ ps) :
    ∀ y o', upd σ.env x o y = some o' → (a.set x ps).may y o'.1 := by
  intro y o' hy
  by_cases hyx : y = x
  · subst hyx
    simp [upd] at hy; subst hy
    rcases ho with ht | hm
    · exact Or.inl ht
    · exact may_set_eq hm
  · simp [upd, hyx] at hy
    exact may_set_ne hyx (hr y o' hy)

/-! ### targets and closure -/

theorem mem_targets {h : List AEdge} {os : List Nat} {l l' : Lbl} {o o' : Nat}
    (he : (o, l', o') ∈ h) (ho : o ∈ os) (hl : lmatch l l' = true) : o' ∈ targets h os l := by
  unfold targets
  rw [List.mem_filterMap]
  exact ⟨(o, l', o'), he, by simp [ho, hl]⟩

theorem mem_succs {h : List AEdge} {os : List Nat} {l : Lbl} {o o' : Nat}
    (he : (o, l, o') ∈ h) (ho : o ∈ os) : o' ∈ succs h os := by
  unfold succs
  rw [List.mem_filterMap]
  exact ⟨(o, l, o'), he, by simp [ho]⟩

theorem closeN_mono (h : List AEdge) : ∀ (n : Nat) (os : List Nat) (o : Nat), o ∈ os → o ∈ closeN h n os := by
  intro n
  induction n with
  | zero => intro os o ho; exact ho
  | succ n ih =>
    intro os o ho
    have hm : o ∈ (os ++ succs h os).eraseDups := by
      rw [List.mem_eraseDups]
      exact List.mem_append_left _ ho
    show o ∈ (if (os ++ succs h os).eraseDups.length ≤ os.length then (os ++ succs h os).eraseDups
      else closeN h n (os ++ succs h os).eraseDups)
    split
    · exact hm
    · exact ih _ _ hm

theorem closed_step {h : List AEdge} {c : List Nat} (hc : closedB h c = true) {o o' : Nat} {l : Lbl}
    (he : (o, l, o') ∈ h) (ho : o ∈ c) : o' ∈ c := by
  unfold closedB at hc
  rw [List.all_eq_true] at hc
  have := hc (o, l, o') he
  simpa [ho] using this

/-- a concrete path stays inside any abstractly closed set that contains its start -/
theorem reach_closed {a : A} {σ : St} {c : List Nat} (hnt : ¬ a.top = true)
    (hh : ∀ e, e ∈ σ.heap → a.mayE (absE e)) (hc : closedB a.heap c = true)
    {o o' : Obj} (hr : Reach σ.heap o o') : o.1 ∈ c → o'.1 ∈ c := by
  induction hr with
  | refl o => exact id
  | step o l o₁ o₂ he _ ih =>
    intro ho
    apply ih
    rcases hh _ he with ht | hm
    · exact absurd ht hnt
    · exact closed_step hc hm ho

/-- the analysis never forgets a possibly-written parameter, a possibly-returned object or a heap edge -/
theorem w_mono (np : Nat) (s : Stmt) :
    ∀ (a : A), (∀ o, a.mayW o → (ana np s a).mayW o) ∧ (∀ o, a.mayR o → (ana np s a).mayR o) ∧
      (∀ e, a.mayE e → (ana np s a).mayE e) := by
  induction s with
  | skip => intro a; exact ⟨fun o h => h, fun o h => h, fun e h => h⟩
  | kill xs => intro a; exact ⟨fun o h => h, fun o h => h, fun e h => h⟩
  | bind x src =>
    intro a
    cases src with
    | reach ys =>
      show (∀ o, a.mayW o → (if closedB a.heap (closeN a.heap (a.heap.length + 1) (ys.flatMap a.raw).eraseDups) then
          a.set x (closeN a.heap (a.heap.length + 1) (ys.flatMap a.raw).eraseDups) else topA).mayW o) ∧
        (∀ o, a.mayR o → (if closedB a.heap (closeN a.heap (a.heap.length + 1) (ys.flatMap a.raw).eraseDups) then
          a.set x (closeN a.heap (a.heap.length + 1) (ys.flatMap a.raw).eraseDups) else topA).mayR o) ∧
        (∀ e, a.mayE e → (if closedB a.heap (closeN a.heap (a.heap.length + 1) (ys.flatMap a.raw).eraseDups) then
          a.set x (closeN a.heap (a.heap.length + 1) (ys.flatMap a.raw).eraseDups) else topA).mayE e)
      split
      · exact ⟨fun o h => h, fun o h => h, fun e h => h⟩
      · exact ⟨fun _ _ => Or.inl rfl, fun _ _ => Or.inl rfl, fun _ _ => Or.inl rfl⟩
    | _ => exact ⟨fun o h => h, fun o h => h, fun e h => h⟩
  | write x =>
    intro a
    refine ⟨fun o h => ?_, fun o h => h, fun e h => h⟩
    rcases h with h | h
    · exact Or.inl h
    · right; show o ∈ ((a.raw x).filter (· < np) ++ a.w).eraseDups; simp [h]
  | ret x =>
    intro a
    refine ⟨fun o h => h, fun o h => ?_, fun e h => h⟩
    rcases h with h | h
    · exact Or.inl h
    · right; show o ∈ (a.raw x ++ a.r).eraseDups; simp [h]
  | store x l y =>
    intro a
    refine ⟨fun o h => h, fun o h => h, fun e h => ?_⟩
    rcases h with h | h
    · exact Or.inl h
    · right
      show e ∈ ((a.raw x).flatMap (fun p => (a.raw y).map (fun p' => (p, l, p'))) ++ a.heap).eraseDups
      rw [List.mem_eraseDups]
      exact List.mem_append_right _ h
  | seq s t ihs iht =>
    intro a
    exact ⟨fun o h => (iht _).1 o ((ihs a).1 o h), fun o h => (iht _).2.1 o ((ihs a).2.1 o h),
           fun e h => (iht _).2.2 e ((ihs a).2.2 e h)⟩
  | branch s t ihs _ =>
    intro a
    exact ⟨fun o h => mayW_join_l _ _ o ((ihs a).1 o h), fun o h => mayR_join_l _ _ o ((ihs a).2.1 o h),
           fun e h => mayE_join_l _ _ e ((ihs a).2.2 e h)⟩
  | loop b _ =>
    intro a
    show (∀ o, a.mayW o → (match iter (ana np b) 12 a with
      | some a' => if leA (ana np b a') a' && leA a a' then a' else topA
      | none => topA).mayW o) ∧ (∀ o, a.mayR o → (match iter (ana np b) 12 a with
      | some a' => if leA (ana np b a') a' && leA a a' then a' else topA
      | none => topA).mayR o) ∧ (∀ e, a.mayE e → (match iter (ana np b) 12 a with
      | some a' => if leA (ana np b a') a' && leA a a' then a' else topA
      | none => topA).mayE e)
    split
    · split
      · rename_i a' _ hc
        simp at hc
        exact ⟨fun o h => le_mayW hc.2 o h, fun o h => le_mayR hc.2 o h, fun e h => le_mayE hc.2 e h⟩
      · exact ⟨fun _ _ => Or.inl rfl, fun _ _ => Or.inl rfl, fun _ _ => Or.inl rfl⟩
    · exact ⟨fun _ _ => Or.inl rfl, fun _ _ => Or.inl rfl, fun _ _ => Or.inl rfl⟩

theorem wrel_mono (np : Nat) (s : Stmt) {σ : St} {a : A} (h : WRel np σ a) : WRel np σ (ana np s a) :=
  ⟨fun o h1 h2 => (w_mono np s a).1 _ (h.1 o h1 h2), fun o h1 => (w_mono np s a).2.1 _ (h.2.1 o h1),
   fun e he => (w_mono np s a).2.2 _ (h.2.2 e he)⟩

theorem loop_inv (np : Nat) (b : Stmt) (P Q : St → Prop)
    (hbody : ∀ σ σ₁, P σ → Exec np b σ true σ₁ → P σ₁)
    (hraise : ∀ σ σ₁, P σ → Exec np b σ false σ₁ → Q σ₁)
    (hPQ : ∀ σ, P σ → Q σ) :
    ∀ σ d σ', Exec np (.loop b) σ d σ' → P σ → (d = true → P σ') ∧ Q σ' := by
  intro σ d σ' h
  generalize hs : Stmt.loop b = s at h
  induction h with
  | raise s σ => intro hp; exact ⟨(fun h => by cases h), hPQ _ hp⟩
  | loopDone b' σ => intro hp; exact ⟨fun _ => hp, hPQ _ hp⟩
  | loopStep b' σ σ₁ d σ₂ h1 _ _ ih2 =>
    cases hs
    intro hp
    exact ih2 rfl (hbody _ _ hp h1)
  | loopRaise b' σ σ₁ h1 =>
    cases hs
    intro hp
    exact ⟨(fun h => by cases h), hraise _ _ hp h1⟩
  | _ => cases hs

/-- allocating an object of site `k` and binding it to `x` -/
theorem rel_alloc {np : Nat} {σ : St} {a : A} {x : Var} {k : Nat} {ps : List Nat}
    (hr : Rel np σ a) (hk : np + k ∈ ps) :
    Rel np { σ with env := upd σ.env x (np + k, σ.next), next := σ.next + 1, objs := (np + k, σ.next) :: σ.objs }
      { a.set x ps with alloc := insertNat (np + k) a.alloc } := by
  refine ⟨?_, ?_, hr.2.2⟩
  · exact env_bind (a := a) (σ := σ) hr.1 (Or.inr hk)
  · intro o ho
    simp at ho
    rcases ho with rfl | ho
    · right; show np + k ∈ insertNat (np + k) a.alloc; exact mem_insertNat.mpr (Or.inl rfl)
    · rcases hr.2.1 o ho with ht | hm
      · exact Or.inl ht
      · right; show o.1 ∈ insertNat (np + k) a.alloc; exact mem_insertNat.mpr (Or.inr hm)

/-- the allocated objects stay covered when only a site is added to `alloc` -/
theorem objs_alloc {a : A} {σ : St} {k : Nat} (h : ∀ o, o ∈ σ.objs → a.mayK o.1) (ps : List Nat) (x : Var) :
    ∀ o, o ∈ σ.objs → ({ a.set x ps with alloc := insertNat k a.alloc } : A).mayK o.1 := by
  intro o ho
  rcases h o ho with ht | hm
  · exact Or.inl ht
  · right; show o.1 ∈ insertNat k a.alloc; exact mem_insertNat.mpr (Or.inr hm)

/-- Soundness of the abstract interpretation: for every program, every start state related to the
abstract input and every execution (completed `d = true` or raised `d = false`), the final state is
related to the abstract output (completed), and in both cases every written parameter, every returned object and
every heap edge is covered by the abstract output. -/
theorem sound (np : Nat) (s : Stmt) :
    ∀ (a : A) (σ : St) (d : Bool) (σ' : St), Exec np s σ d σ' → Rel np σ a →
      (d = true → Rel np σ' (ana np s a)) ∧ WRel np σ' (ana np s a) := by
  induction s with
  | skip =>
    intro a σ d σ' h hr
    cases h with
    | raise => exact ⟨(fun h => by cases h), hr.2.2⟩
    | skip => exact ⟨fun _ => hr, hr.2.2⟩
  | kill xs =>
    intro a σ d σ' h hr
    cases h with
    | raise => exact ⟨(fun h => by cases h), hr.2.2⟩
    | kill =>
      have : Rel np { σ with env := fun y => if xs.contains y then none else σ.env y }
          { a with env := a.env.filter (fun p => !xs.contains p.1) } := by
        refine ⟨?_, hr.2.1, hr.2.2⟩
        intro y o hy
        by_cases hc : y ∈ xs
        · simp [hc] at hy
        · simp only [List.contains_iff_mem, hc, if_false] at hy
          rcases hr.1 y o hy with ht | hm
          · exact Or.inl ht
          · right
            show o.1 ∈ ((List.lookup y (a.env.filter (fun p => !xs.contains p.1))).getD [])
            rw [lookup_filter_notin _ _ _ hc]
            exact hm
      exact ⟨fun _ => this, this.2.2⟩
  | bind x src =>
    intro a σ d σ' h hr
    cases h with
    | raise => exact ⟨(fun h => by cases h), wrel_mono np _ hr.2.2⟩
    | bindParam _ i _ hi =>
      have : Rel np { σ with env := upd σ.env x (i, 0) } (a.set x [i]) :=
        ⟨env_bind (a := a) (σ := σ) hr.1 (Or.inr (by simp)), hr.2.1, hr.2.2⟩
      exact ⟨fun _ => this, this.2.2⟩
    | bindFresh _ k =>
      have := rel_alloc (x := x) (k := k) (ps := [np + k]) hr (by simp)
      exact ⟨fun _ => this, this.2.2⟩
    | bindAlias _ ys y o _ hy ho =>
      have : Rel np { σ with env := upd σ.env x o } (a.set x (ys.flatMap a.raw)) := by
        refine ⟨env_bind (a := a) (σ := σ) hr.1 ?_, hr.2.1, hr.2.2⟩
        rcases hr.1 y o ho with ht | hm
        · exact Or.inl ht
        · exact Or.inr (List.mem_flatMap.mpr ⟨y, hy, hm⟩)
      exact ⟨fun _ => this, this.2.2⟩
    | bindLoadEdge _ ys l k y o l' o' _ hy ho he hl =>
      have : Rel np { σ with env := upd σ.env x o' }
          { a.set x ((np + k) :: ((ys.flatMap a.raw).filter (· < np) ++ targets a.heap (ys.flatMap a.raw) l)) with
            alloc := insertNat (np + k) a.alloc } := by
        refine ⟨?_, objs_alloc hr.2.1 _ _, hr.2.2⟩
        apply env_bind (a := a) (σ := σ) hr.1
        rcases hr.1 y o ho with ht | hm
        · exact Or.inl ht
        · rcases hr.2.2.2.2 _ he with ht | hm'
          · exact Or.inl ht
          · right
            apply List.mem_cons_of_mem
            apply List.mem_append_right
            exact mem_targets hm' (List.mem_flatMap.mpr ⟨y, hy, hm⟩) hl
      exact ⟨fun _ => this, this.2.2⟩
    | bindLoadSelf _ ys l k y o _ hy ho hp =>
      have : Rel np { σ with env := upd σ.env x o }
          { a.set x ((np + k) :: ((ys.flatMap a.raw).filter (· < np) ++ targets a.heap (ys.flatMap a.raw) l)) with
            alloc := insertNat (np + k) a.alloc } := by
        refine ⟨?_, objs_alloc hr.2.1 _ _, hr.2.2⟩
        apply env_bind (a := a) (σ := σ) hr.1
        rcases hr.1 y o ho with ht | hm
        · exact Or.inl ht
        · right
          apply List.mem_cons_of_mem
          apply List.mem_append_left
          rw [List.mem_filter]
          exact ⟨List.mem_flatMap.mpr ⟨y, hy, hm⟩, by simpa using hp⟩
      exact ⟨fun _ => this, this.2.2⟩
    | bindLoadNew _ ys l k =>
      have := rel_alloc (x := x) (k := k)
        (ps := (np + k) :: ((ys.flatMap a.raw).filter (· < np) ++ targets a.heap (ys.flatMap a.raw) l)) hr (by simp)
      exact ⟨fun _ => this, this.2.2⟩
    | bindReach _ ys y o o' _ hy ho hreach =>
      show (true = true → Rel np { σ with env := upd σ.env x o' }
          (if closedB a.heap (closeN a.heap (a.heap.length + 1) (ys.flatMap a.raw).eraseDups) then
            a.set x (closeN a.heap (a.heap.length + 1) (ys.flatMap a.raw).eraseDups) else topA)) ∧
        WRel np { σ with env := upd σ.env x o' }
          (if closedB a.heap (closeN a.heap (a.heap.length + 1) (ys.flatMap a.raw).eraseDups) then
            a.set x (closeN a.heap (a.heap.length + 1) (ys.flatMap a.raw).eraseDups) else topA)
      split
      · rename_i hc
        have : Rel np { σ with env := upd σ.env x o' }
            (a.set x (closeN a.heap (a.heap.length + 1) (ys.flatMap a.raw).eraseDups)) := by
          refine ⟨env_bind (a := a) (σ := σ) hr.1 ?_, hr.2.1, hr.2.2⟩
          by_cases hnt : a.top = true
          · exact Or.inl hnt
          · right
            rcases hr.1 y o ho with ht | hm
            · exact absurd ht hnt
            · apply reach_closed hnt hr.2.2.2.2 hc hreach
              apply closeN_mono
              rw [List.mem_eraseDups]
              exact List.mem_flatMap.mpr ⟨y, hy, hm⟩
        exact ⟨fun _ => this, this.2.2⟩
      · exact ⟨fun _ => rel_top, wrel_top⟩
    | bindUnknown _ o _ ho =>
      have : Rel np { σ with env := upd σ.env x o } (a.set x (allParams np ++ a.alloc)) := by
        refine ⟨env_bind (a := a) (σ := σ) hr.1 ?_, hr.2.1, hr.2.2⟩
        rcases ho with hp | hm
        · right; simp [allParams, hp]
        · rcases hr.2.1 o hm with ht | hk
          · exact Or.inl ht
          · right; simp [hk]
      exact ⟨fun _ => this, this.2.2⟩
  | write x =>
    intro a σ d σ' h hr
    cases h with
    | raise => exact ⟨(fun h => by cases h), wrel_mono np _ hr.2.2⟩
    | write _ o _ ho =>
      have : Rel np { σ with written := o :: σ.written } { a with w := ((a.raw x).filter (· < np) ++ a.w).eraseDups } := by
        refine ⟨fun y o' hy => hr.1 y o' hy, hr.2.1, ⟨?_, hr.2.2.2.1, hr.2.2.2.2⟩⟩
        intro o' hm ho'
        simp at hm
        rcases hm with rfl | hm
        · rcases hr.1 x o' ho with ht | hm'
          · exact Or.inl ht
          · right
            show o'.1 ∈ ((a.raw x).filter (· < np) ++ a.w).eraseDups
            simp [hm', ho']
        · rcases hr.2.2.1 o' hm ho' with ht | hm'
          · exact Or.inl ht
          · right; show o'.1 ∈ ((a.raw x).filter (· < np) ++ a.w).eraseDups; simp [hm']
      exact ⟨fun _ => this, this.2.2⟩
  | ret x =>
    intro a σ d σ' h hr
    cases h with
    | raise => exact ⟨(fun h => by cases h), wrel_mono np _ hr.2.2⟩
    | ret _ o _ ho =>
      have : Rel np { σ with returned := o :: σ.returned } { a with r := (a.raw x ++ a.r).eraseDups } := by
        refine ⟨fun y o' hy => hr.1 y o' hy, hr.2.1, ⟨hr.2.2.1, ?_, hr.2.2.2.2⟩⟩
        intro o' hm
        simp at hm
        rcases hm with rfl | hm
        · rcases hr.1 x o' ho with ht | hm'
          · exact Or.inl ht
          · right
            show o'.1 ∈ (a.raw x ++ a.r).eraseDups
            simp [hm']
        · rcases hr.2.2.2.1 o' hm with ht | hm'
          · exact Or.inl ht
          · right; show o'.1 ∈ (a.raw x ++ a.r).eraseDups; simp [hm']
      exact ⟨fun _ => this, this.2.2⟩
  | store x l y =>
    intro a σ d σ' h hr
    cases h with
    | raise => exact ⟨(fun h => by cases h), wrel_mono np _ hr.2.2⟩
    | store _ _ _ o o' _ ho ho' =>
      have : Rel np { σ with heap := (o, l, o') :: σ.heap }
          { a with heap := ((a.raw x).flatMap (fun p => (a.raw y).map (fun p' => (p, l, p'))) ++ a.heap).eraseDups } := by
        refine ⟨fun z o₁ hz => hr.1 z o₁ hz, hr.2.1, ⟨hr.2.2.1, hr.2.2.2.1, ?_⟩⟩
        intro e he
        simp at he
        rcases he with rfl | he
        · rcases hr.1 x o ho with ht | hm
          · exact Or.inl ht
          · rcases hr.1 y o' ho' with ht | hm'
            · exact Or.inl ht
            · right
              show absE (o, l, o') ∈ ((a.raw x).flatMap (fun p => (a.raw y).map (fun p' => (p, l, p'))) ++ a.heap).eraseDups
              rw [List.mem_eraseDups]
              apply List.mem_append_left
              rw [List.mem_flatMap]
              exact ⟨o.1, hm, List.mem_map.mpr ⟨o'.1, hm', rfl⟩⟩
        · rcases hr.2.2.2.2 e he with ht | hm
          · exact Or.inl ht
          · right
            show absE e ∈ ((a.raw x).flatMap (fun p => (a.raw y).map (fun p' => (p, l, p'))) ++ a.heap).eraseDups
            rw [List.mem_eraseDups]
            exact List.mem_append_right _ hm
      exact ⟨fun _ => this, this.2.2⟩
  | seq s t ihs iht =>
    intro a σ d σ' h hr
    cases h with
    | raise => exact ⟨(fun h => by cases h), wrel_mono np _ hr.2.2⟩
    | seq _ _ _ σ₁ _ _ h1 h2 =>
      exact iht _ σ₁ d σ' h2 ((ihs a σ true σ₁ h1 hr).1 rfl)
    | seqRaise _ _ _ _ h1 =>
      exact ⟨(fun h => by cases h), wrel_mono np t (ihs a σ false σ' h1 hr).2⟩
  | branch s t ihs iht =>
    intro a σ d σ' h hr
    cases h with
    | raise => exact ⟨(fun h => by cases h), wrel_mono np _ hr.2.2⟩
    | branchL _ _ _ _ _ h1 =>
      have := ihs a σ d σ' h1 hr
      exact ⟨fun hd => rel_join_l _ _ (this.1 hd), wrel_join_l _ _ this.2⟩
    | branchR _ _ _ _ _ h1 =>
      have := iht a σ d σ' h1 hr
      exact ⟨fun hd => rel_join_r _ _ (this.1 hd), wrel_join_r _ _ this.2⟩
  | loop b ih =>
    intro a σ d σ' h hr
    show (d = true → Rel np σ' (match iter (ana np b) 12 a with
      | some a' => if leA (ana np b a') a' && leA a a' then a' else topA
      | none => topA)) ∧ WRel np σ' (match iter (ana np b) 12 a with
      | some a' => if leA (ana np b a') a' && leA a a' then a' else topA
      | none => topA)
    have key : ∀ a', (leA (ana np b a') a' = true) → Rel np σ a' →
        (d = true → Rel np σ' a') ∧ WRel np σ' a' := by
      intro a' hpost hra
      exact loop_inv np b (fun τ => Rel np τ a') (fun τ => WRel np τ a')
        (fun τ τ₁ hp he => rel_le hpost ((ih a' τ true τ₁ he hp).1 rfl))
        (fun τ τ₁ hp he => wrel_le hpost (ih a' τ false τ₁ he hp).2)
        (fun τ hp => hp.2.2) σ d σ' h hra
    have htop : (d = true → Rel np σ' topA) ∧ WRel np σ' topA := ⟨fun _ => rel_top, wrel_top⟩
    split
    · split
      · rename_i a' _ hc
        simp at hc
        exact key a' hc.1 (rel_le hc.2 hr)
      · exact htop
    · exact htop

end Pew.Effects
