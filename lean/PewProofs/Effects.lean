import PewModel.Effects
namespace Pew.Effects

/-! ## soundness -/

def A.may (a : A) (x : Var) (o : Nat) : Prop := a.top = true ∨ o ∈ a.raw x
def A.mayW (a : A) (o : Nat) : Prop := a.top = true ∨ o ∈ a.w
def A.mayR (a : A) (o : Nat) : Prop := a.top = true ∨ o ∈ a.r

/-- written / returned parameters are covered by the abstract state -/
def WRel (np : Nat) (σ : St) (a : A) : Prop :=
  (∀ o, o ∈ σ.written → o < np → a.mayW o) ∧ (∀ o, o ∈ σ.returned → o < np → a.mayR o)

def Rel (np : Nat) (σ : St) (a : A) : Prop :=
  (∀ x o, σ.env x = some o → o < np → a.may x o) ∧ WRel np σ a ∧ np ≤ σ.next

theorem lookup_filter_ne {β : Type} (l : List (Var × β)) (x y : Var) (h : y ≠ x) :
    (l.filter (fun p => p.1 != x)).lookup y = l.lookup y := by
  induction l with
  | nil => rfl
  | cons p r ih =>
    obtain ⟨z, w⟩ := p
    by_cases hz : z = x
    · subst hz
      have : (y == z) = false := by simpa using h
      simp [List.filter, List.lookup, this, ih]
    · have hzx : (z != x) = true := by simpa using hz
      simp only [List.filter, hzx, List.lookup_cons]
      rw [ih]

theorem raw_set (a : A) (x y : Var) (ps : List Nat) :
    (a.set x ps).raw y = if y = x then ps.eraseDups else a.raw y := by
  unfold A.raw A.set
  by_cases hyx : y = x
  · subst hyx; simp [List.lookup]
  · have : (y == x) = false := by simpa using hyx
    simp only [List.lookup_cons, this, hyx, if_false]
    rw [lookup_filter_ne _ _ _ hyx]

theorem lookup_map_self {β : Type} (l : List Var) (f : Var → β) (x : Var) :
    (l.map (fun y => (y, f y))).lookup x = if x ∈ l then some (f x) else none := by
  induction l with
  | nil => simp
  | cons y r ih =>
    simp only [List.map_cons, List.lookup_cons, List.mem_cons]
    by_cases h : x = y
    · subst h; simp
    · have : (x == y) = false := by simpa using h
      simp [this, ih, h]

theorem lookup_some_mem {β : Type} (l : List (Var × β)) (x : Var) (v : β)
    (h : l.lookup x = some v) : x ∈ l.map (·.1) := by
  induction l with
  | nil => simp at h
  | cons p r ih =>
    obtain ⟨y, w⟩ := p
    simp only [List.lookup_cons] at h
    by_cases hxy : x = y
    · subst hxy; simp
    · have : (x == y) = false := by simpa using hxy
      simp [this] at h
      simp [ih h]

theorem raw_mem_vars {a : A} {x : Var} {o : Nat} (h : o ∈ a.raw x) : x ∈ a.vars := by
  unfold A.raw at h
  cases hl : a.env.lookup x with
  | none => simp [hl] at h
  | some v => exact lookup_some_mem a.env x v hl

theorem raw_join (a b : A) (x : Var) (o : Nat) (h : o ∈ a.raw x ∨ o ∈ b.raw x) :
    o ∈ (joinA a b).raw x := by
  have hx : x ∈ (a.vars ++ b.vars).eraseDups := by
    rw [List.mem_eraseDups]
    rcases h with h | h
    · exact List.mem_append_left _ (raw_mem_vars h)
    · exact List.mem_append_right _ (raw_mem_vars h)
  unfold A.raw joinA
  simp only [lookup_map_self, hx, if_true, Option.getD_some, List.mem_eraseDups, List.mem_append]
  exact h

theorem may_join_l (a b : A) (x : Var) (o : Nat) (h : a.may x o) : (joinA a b).may x o := by
  rcases h with h | h
  · left; simp [joinA, h]
  · right; exact raw_join a b x o (Or.inl h)

theorem may_join_r (a b : A) (x : Var) (o : Nat) (h : b.may x o) : (joinA a b).may x o := by
  rcases h with h | h
  · left; simp [joinA, h]
  · right; exact raw_join a b x o (Or.inr h)

theorem mayW_join_l (a b : A) (o : Nat) (h : a.mayW o) : (joinA a b).mayW o := by
  rcases h with h | h
  · left; simp [joinA, h]
  · right; simp [joinA, h]

theorem mayW_join_r (a b : A) (o : Nat) (h : b.mayW o) : (joinA a b).mayW o := by
  rcases h with h | h
  · left; simp [joinA, h]
  · right; simp [joinA, h]

theorem mayR_join_l (a b : A) (o : Nat) (h : a.mayR o) : (joinA a b).mayR o := by
  rcases h with h | h
  · left; simp [joinA, h]
  · right; simp [joinA, h]

theorem mayR_join_r (a b : A) (o : Nat) (h : b.mayR o) : (joinA a b).mayR o := by
  rcases h with h | h
  · left; simp [joinA, h]
  · right; simp [joinA, h]

theorem wrel_join_l {np σ} (a b : A) (h : WRel np σ a) : WRel np σ (joinA a b) :=
  ⟨fun o h1 h2 => mayW_join_l a b o (h.1 o h1 h2), fun o h1 h2 => mayR_join_l a b o (h.2 o h1 h2)⟩
theorem wrel_join_r {np σ} (a b : A) (h : WRel np σ b) : WRel np σ (joinA a b) :=
  ⟨fun o h1 h2 => mayW_join_r a b o (h.1 o h1 h2), fun o h1 h2 => mayR_join_r a b o (h.2 o h1 h2)⟩

theorem rel_join_l {np σ} (a b : A) (h : Rel np σ a) : Rel np σ (joinA a b) :=
  ⟨fun x o h1 h2 => may_join_l a b x o (h.1 x o h1 h2), wrel_join_l a b h.2.1, h.2.2⟩
theorem rel_join_r {np σ} (a b : A) (h : Rel np σ b) : Rel np σ (joinA a b) :=
  ⟨fun x o h1 h2 => may_join_r a b x o (h.1 x o h1 h2), wrel_join_r a b h.2.1, h.2.2⟩

theorem le_may {a b : A} (h : leA a b = true) (x : Var) (o : Nat) (hm : a.may x o) : b.may x o := by
  unfold leA at h
  by_cases hb : b.top = true
  · left; exact hb
  · simp [hb] at h
    obtain ⟨⟨⟨hat, hv⟩, _⟩, _⟩ := h
    rcases hm with hm | hm
    · simp [hat] at hm
    · right
      have := hv x (raw_mem_vars hm) o hm
      simpa using this

theorem le_mayW {a b : A} (h : leA a b = true) (o : Nat) (hm : a.mayW o) : b.mayW o := by
  unfold leA at h
  by_cases hb : b.top = true
  · left; exact hb
  · simp [hb] at h
    obtain ⟨⟨⟨hat, _⟩, hw⟩, _⟩ := h
    rcases hm with hm | hm
    · simp [hat] at hm
    · right; simpa using hw o hm

theorem le_mayR {a b : A} (h : leA a b = true) (o : Nat) (hm : a.mayR o) : b.mayR o := by
  unfold leA at h
  by_cases hb : b.top = true
  · left; exact hb
  · simp [hb] at h
    obtain ⟨⟨⟨hat, _⟩, _⟩, hr⟩ := h
    rcases hm with hm | hm
    · simp [hat] at hm
    · right; simpa using hr o hm

theorem wrel_le {np σ} {a b : A} (h : leA a b = true) (hr : WRel np σ a) : WRel np σ b :=
  ⟨fun o h1 h2 => le_mayW h o (hr.1 o h1 h2), fun o h1 h2 => le_mayR h o (hr.2 o h1 h2)⟩

theorem rel_le {np σ} {a b : A} (h : leA a b = true) (hr : Rel np σ a) : Rel np σ b :=
  ⟨fun x o h1 h2 => le_may h x o (hr.1 x o h1 h2), wrel_le h hr.2.1, hr.2.2⟩

theorem rel_top {np σ} (h : np ≤ σ.next) : Rel np σ topA :=
  ⟨fun _ _ _ _ => Or.inl rfl, ⟨fun _ _ _ => Or.inl rfl, fun _ _ _ => Or.inl rfl⟩, h⟩

theorem may_set_ne {a : A} {x y : Var} {ps : List Nat} {o : Nat} (hne : y ≠ x) (h : a.may y o) :
    (a.set x ps).may y o := by
  rcases h with h | h
  · exact Or.inl h
  · right; rw [raw_set]; simp [hne, h]

theorem may_set_eq {a : A} {x : Var} {ps : List Nat} {o : Nat} (h : o ∈ ps) : (a.set x ps).may x o := by
  right; rw [raw_set]; simp [h]

/-- the analysis never forgets a possibly-written or possibly-returned parameter -/
theorem w_mono (np : Nat) (s : Stmt) :
    ∀ (a : A), (∀ o, a.mayW o → (ana np s a).mayW o) ∧ (∀ o, a.mayR o → (ana np s a).mayR o) := by
  induction s with
  | skip => intro a; exact ⟨fun o h => h, fun o h => h⟩
  | bind x src => intro a; cases src <;> exact ⟨fun o h => h, fun o h => h⟩
  | write x =>
    intro a
    refine ⟨fun o h => ?_, fun o h => h⟩
    rcases h with h | h
    · exact Or.inl h
    · right; show o ∈ (a.raw x ++ a.w).eraseDups; simp [h]
  | ret x =>
    intro a
    refine ⟨fun o h => h, fun o h => ?_⟩
    rcases h with h | h
    · exact Or.inl h
    · right; show o ∈ (a.raw x ++ a.r).eraseDups; simp [h]
  | seq s t ihs iht =>
    intro a
    exact ⟨fun o h => (iht _).1 o ((ihs a).1 o h), fun o h => (iht _).2 o ((ihs a).2 o h)⟩
  | branch s t ihs _ =>
    intro a
    exact ⟨fun o h => mayW_join_l _ _ o ((ihs a).1 o h), fun o h => mayR_join_l _ _ o ((ihs a).2 o h)⟩
  | loop b _ =>
    intro a
    show (∀ o, a.mayW o → (match iter (ana np b) 8 a with
      | some a' => if leA (ana np b a') a' && leA a a' then a' else topA
      | none => topA).mayW o) ∧ (∀ o, a.mayR o → (match iter (ana np b) 8 a with
      | some a' => if leA (ana np b a') a' && leA a a' then a' else topA
      | none => topA).mayR o)
    split
    · split
      · rename_i a' _ hc
        simp at hc
        exact ⟨fun o h => le_mayW hc.2 o h, fun o h => le_mayR hc.2 o h⟩
      · exact ⟨fun _ _ => Or.inl rfl, fun _ _ => Or.inl rfl⟩
    · exact ⟨fun _ _ => Or.inl rfl, fun _ _ => Or.inl rfl⟩

theorem wrel_mono (np : Nat) (s : Stmt) {σ : St} {a : A} (h : WRel np σ a) : WRel np σ (ana np s a) :=
  ⟨fun o h1 h2 => (w_mono np s a).1 o (h.1 o h1 h2), fun o h1 h2 => (w_mono np s a).2 o (h.2 o h1 h2)⟩

theorem loop_inv (np : Nat) (b : Stmt) (P Q : St → Prop)
    (hbody : ∀ σ σ₁, P σ → Exec np b σ true σ₁ → P σ₁)
    (hraise : ∀ σ σ₁, P σ → Exec np b σ false σ₁ → Q σ₁)
    (hPQ : ∀ σ, P σ → Q σ) :
    ∀ σ d σ', Exec np (.loop b) σ d σ' → P σ → (d = true → P σ') ∧ Q σ' := by
  intro σ d σ' h
  generalize hs : Stmt.loop b = s at h
  induction h with
  | raise s σ => intro hp; exact ⟨(fun h => by cases h), hPQ _ hp⟩
  | loopDone b' σ => intro hp; exact ⟨fun _ => hp, hPQ _ hp⟩
  | loopStep b' σ σ₁ d σ₂ h1 _ _ ih2 =>
    cases hs
    intro hp
    exact ih2 rfl (hbody _ _ hp h1)
  | loopRaise b' σ σ₁ h1 =>
    cases hs
    intro hp
    exact ⟨(fun h => by cases h), hraise _ _ hp h1⟩
  | _ => cases hs

/-- Soundness of the abstract interpretation: for every program, every start state related to the
abstract input and every execution (completed `d = true` or raised `d = false`), the final state is
related to the abstract output (completed), and in both cases every written / returned parameter is
reported. -/
theorem sound (np : Nat) (s : Stmt) :
    ∀ (a : A) (σ : St) (d : Bool) (σ' : St), Exec np s σ d σ' → Rel np σ a →
      (d = true → Rel np σ' (ana np s a)) ∧ WRel np σ' (ana np s a) := by
  induction s with
  | skip =>
    intro a σ d σ' h hr
    cases h with
    | raise => exact ⟨(fun h => by cases h), hr.2.1⟩
    | skip => exact ⟨fun _ => hr, hr.2.1⟩
  | bind x src =>
    intro a σ d σ' h hr
    cases h with
    | raise => exact ⟨(fun h => by cases h), wrel_mono np _ hr.2.1⟩
    | bindParam _ i _ hi =>
      have : Rel np { σ with env := upd σ.env x i } (a.set x [i]) := by
        refine ⟨?_, hr.2.1, hr.2.2⟩
        intro y o hy ho
        by_cases hyx : y = x
        · subst hyx; simp [upd] at hy; subst hy; exact may_set_eq (by simp)
        · simp [upd, hyx] at hy; exact may_set_ne hyx (hr.1 y o hy ho)
      exact ⟨fun _ => this, this.2.1⟩
    | bindFresh =>
      have : Rel np { σ with env := upd σ.env x σ.next, next := σ.next + 1 } (a.set x []) := by
        refine ⟨?_, hr.2.1, Nat.le_succ_of_le hr.2.2⟩
        intro y o hy ho
        by_cases hyx : y = x
        · subst hyx; simp [upd] at hy; subst hy; exact absurd ho (Nat.not_lt.mpr hr.2.2)
        · simp [upd, hyx] at hy; exact may_set_ne hyx (hr.1 y o hy ho)
      exact ⟨fun _ => this, this.2.1⟩
    | bindAlias _ ys y o _ hy ho =>
      have : Rel np { σ with env := upd σ.env x o } (a.set x (ys.flatMap a.raw)) := by
        refine ⟨?_, hr.2.1, hr.2.2⟩
        intro z o' hz ho'
        by_cases hzx : z = x
        · subst hzx; simp [upd] at hz; subst hz
          rcases hr.1 y o ho ho' with ht | hm
          · exact Or.inl ht
          · exact may_set_eq (List.mem_flatMap.mpr ⟨y, hy, hm⟩)
        · simp [upd, hzx] at hz; exact may_set_ne hzx (hr.1 z o' hz ho')
      exact ⟨fun _ => this, this.2.1⟩
    | bindUnknown _ o _ ho =>
      have : Rel np { σ with env := upd σ.env x o } (a.set x (allParams np)) := by
        refine ⟨?_, hr.2.1, hr.2.2⟩
        intro z o' hz ho'
        by_cases hzx : z = x
        · subst hzx; simp [upd] at hz; subst hz
          exact may_set_eq (by simp [allParams, ho'])
        · simp [upd, hzx] at hz; exact may_set_ne hzx (hr.1 z o' hz ho')
      exact ⟨fun _ => this, this.2.1⟩
  | write x =>
    intro a σ d σ' h hr
    cases h with
    | raise => exact ⟨(fun h => by cases h), wrel_mono np _ hr.2.1⟩
    | write _ o _ ho =>
      have : Rel np { σ with written := o :: σ.written } { a with w := (a.raw x ++ a.w).eraseDups } := by
        refine ⟨fun y o' hy ho' => hr.1 y o' hy ho', ⟨?_, fun o' hm ho' => hr.2.1.2 o' hm ho'⟩, hr.2.2⟩
        intro o' hm ho'
        simp at hm
        rcases hm with rfl | hm
        · rcases hr.1 x o' ho ho' with ht | hm'
          · exact Or.inl ht
          · right; show o' ∈ (a.raw x ++ a.w).eraseDups; simp [hm']
        · rcases hr.2.1.1 o' hm ho' with ht | hm'
          · exact Or.inl ht
          · right; show o' ∈ (a.raw x ++ a.w).eraseDups; simp [hm']
      exact ⟨fun _ => this, this.2.1⟩
  | ret x =>
    intro a σ d σ' h hr
    cases h with
    | raise => exact ⟨(fun h => by cases h), wrel_mono np _ hr.2.1⟩
    | ret _ o _ ho =>
      have : Rel np { σ with returned := o :: σ.returned } { a with r := (a.raw x ++ a.r).eraseDups } := by
        refine ⟨fun y o' hy ho' => hr.1 y o' hy ho', ⟨fun o' hm ho' => hr.2.1.1 o' hm ho', ?_⟩, hr.2.2⟩
        intro o' hm ho'
        simp at hm
        rcases hm with rfl | hm
        · rcases hr.1 x o' ho ho' with ht | hm'
          · exact Or.inl ht
          · right; show o' ∈ (a.raw x ++ a.r).eraseDups; simp [hm']
        · rcases hr.2.1.2 o' hm ho' with ht | hm'
          · exact Or.inl ht
          · right; show o' ∈ (a.raw x ++ a.r).eraseDups; simp [hm']
      exact ⟨fun _ => this, this.2.1⟩
  | seq s t ihs iht =>
    intro a σ d σ' h hr
    cases h with
    | raise => exact ⟨(fun h => by cases h), wrel_mono np _ hr.2.1⟩
    | seq _ _ _ σ₁ _ _ h1 h2 =>
      exact iht _ σ₁ d σ' h2 ((ihs a σ true σ₁ h1 hr).1 rfl)
    | seqRaise _ _ _ _ h1 =>
      exact ⟨(fun h => by cases h), wrel_mono np t (ihs a σ false σ' h1 hr).2⟩
  | branch s t ihs iht =>
    intro a σ d σ' h hr
    cases h with
    | raise => exact ⟨(fun h => by cases h), wrel_mono np _ hr.2.1⟩
    | branchL _ _ _ _ _ h1 =>
      have := ihs a σ d σ' h1 hr
      exact ⟨fun hd => rel_join_l _ _ (this.1 hd), wrel_join_l _ _ this.2⟩
    | branchR _ _ _ _ _ h1 =>
      have := iht a σ d σ' h1 hr
      exact ⟨fun hd => rel_join_r _ _ (this.1 hd), wrel_join_r _ _ this.2⟩
  | loop b ih =>
    intro a σ d σ' h hr
    show (d = true → Rel np σ' (match iter (ana np b) 8 a with
      | some a' => if leA (ana np b a') a' && leA a a' then a' else topA
      | none => topA)) ∧ WRel np σ' (match iter (ana np b) 8 a with
      | some a' => if leA (ana np b a') a' && leA a a' then a' else topA
      | none => topA)
    have key : ∀ a', (leA (ana np b a') a' = true) → Rel np σ a' →
        (d = true → Rel np σ' a') ∧ WRel np σ' a' := by
      intro a' hpost hra
      exact loop_inv np b (fun τ => Rel np τ a') (fun τ => WRel np τ a')
        (fun τ τ₁ hp he => rel_le hpost ((ih a' τ true τ₁ he hp).1 rfl))
        (fun τ τ₁ hp he => wrel_le hpost (ih a' τ false τ₁ he hp).2)
        (fun τ hp => hp.2.1) σ d σ' h hra
    have htop : (d = true → Rel np σ' topA) ∧ WRel np σ' topA := by
      have hpost : leA (ana np b topA) topA = true := by simp [leA, topA]
      exact key topA hpost (rel_top hr.2.2)
    split
    · split
      · rename_i a' _ hc
        simp at hc
        exact key a' hc.1 (rel_le hc.2 hr)
      · exact htop
    · exact htop

end Pew.Effects
