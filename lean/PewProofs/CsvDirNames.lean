import PewProofs.CsvDigits
import PewProofs.SortCsv

/-! # C04 — file names: what the matchers accept, and the sort keys read from accepted names -/
namespace Pew.CsvDir

/-! ## characters -/

/-- `toLower` leaves a character alone or maps an upper-case letter into `a..z` -/
theorem toLower_cases (c : Char) :
    c.toLower = c ∨ (97 ≤ c.toLower.toNat ∧ c.toLower.toNat ≤ 122 ∧ 65 ≤ c.toNat ∧ c.toNat ≤ 90) := by
  unfold Char.toLower
  split
  · rename_i h
    right
    have h1 := UInt32.le_iff_toNat_le.mp h.1
    have h2 := UInt32.le_iff_toNat_le.mp h.2
    have e1 : 'A'.val.toNat = 65 := rfl
    have e2 : 'Z'.val.toNat = 90 := rfl
    have e3 : ('a'.val - 'A'.val).toNat = 32 := rfl
    simp only [Char.toNat, UInt32.toNat_add]
    omega
  · left; rfl

theorem toLower_of_digit (c : Char) (h : isDigit c = true) : c.toLower = c := by
  rcases toLower_cases c with h1 | h1
  · exact h1
  · exfalso
    unfold isDigit Char.isDigit at h
    simp only [Bool.and_eq_true, decide_eq_true_eq] at h
    have h2 := UInt32.le_iff_toNat_le.mp h.2
    have e4 : '9'.val.toNat = 57 := rfl
    simp only [Char.toNat] at h1
    omega

/-- a character whose lower-case form is not a letter is that form -/
theorem eq_of_toLower_eq (c k : Char) (hk : k.toNat < 97 ∨ 122 < k.toNat) (h : c.toLower = k) : c = k := by
  rcases toLower_cases c with h1 | h1
  · rw [← h, h1]
  · rw [h] at h1; omega

/-- a digit is none of the characters of a literal made of letters and `_` / `.` -/
theorem not_digit_of_toLower_mem (c : Char) (p : List Char) (hp : ∀ x ∈ p, isDigit x = false)
    (h : c.toLower ∈ p) : isDigit c = false := by
  cases hd : isDigit c with
  | false => rfl
  | true =>
    rw [toLower_of_digit c hd] at h
    rw [hp c h] at hd
    exact hd.symm

/-! ## literals and digit runs -/

theorem lit_some : ∀ (p s r : List Char), lit p s = some r → ∃ u, s = u ++ r ∧ u.map Char.toLower = p
  | [], s, r, h => by
    simp only [lit, Option.some.injEq] at h
    exact ⟨[], by simp [h], rfl⟩
  | _ :: _, [], r, h => by simp [lit] at h
  | a :: ps, c :: cs, r, h => by
    simp only [lit] at h
    split at h
    · rename_i hac
      obtain ⟨u, hu1, hu2⟩ := lit_some ps cs r h
      refine ⟨c :: u, by simp [hu1], ?_⟩
      simp only [List.map_cons, hu2]
      rw [eq_of_beq hac]
    · cases h

theorem digits1_some (s d r : List Char) (h : digits1 s = some (d, r)) :
    s = d ++ r ∧ d ≠ [] ∧ ∀ x ∈ d, isDigit x = true := by
  unfold digits1 at h
  simp only at h
  split at h
  · cases h
  · rename_i hne
    simp only [Option.some.injEq, Prod.mk.injEq] at h
    obtain ⟨h1, h2⟩ := h
    subst h1 h2
    refine ⟨(List.takeWhile_append_dropWhile).symm, ?_, ?_⟩
    · intro e; rw [e] at hne; simp at hne
    · intro x hx
      exact (List.all_eq_true.mp List.all_takeWhile) x hx

/-! ## Nu: `line_<digits>.csv` -/

/-- a name that is `line_<digits>.csv` in full: its parts -/
theorem nuFull_shape (s : List Char) (h : nuFull s = true) :
    ∃ u d e, s = u ++ d ++ e ∧ u.map Char.toLower = "line_".toList ∧ d ≠ [] ∧ (∀ x ∈ d, isDigit x = true) ∧
      e.map Char.toLower = ".csv".toList ∧ nuGroup s = some d := by
  unfold nuFull at h
  split at h
  · cases h
  · rename_i r h1
    split at h
    · rename_i d h2
      obtain ⟨u, hu1, hu2⟩ := lit_some _ _ _ h1
      have hg : numCsv r = some d := by unfold numCsv; rw [h2]; rfl
      unfold numCsvR at h2
      split at h2
      · cases h2
      · rename_i d' r' h3
        cases h4 : lit ".csv".toList r' with
        | none => rw [h4] at h2; cases h2
        | some rest' =>
          rw [h4] at h2
          simp only [Option.map_some, Option.some.injEq, Prod.mk.injEq] at h2
          obtain ⟨hd, hrest⟩ := h2
          subst hd hrest
          obtain ⟨hr1, hr2, hr3⟩ := digits1_some _ _ _ h3
          obtain ⟨e, he1, he2⟩ := lit_some _ _ _ h4
          refine ⟨u, d', e, ?_, hu2, hr2, hr3, he2, ?_⟩
          · rw [hu1, hr1, he1]; simp
          · unfold nuGroup
            rw [h1]
            exact hg
    · cases h

theorem stem_of_ext (a : List Char) (e1 e2 e3 : Char) (ha : a ≠ [])
    (h1 : e1 ≠ '.') (h2 : e2 ≠ '.') (h3 : e3 ≠ '.') : stem (a ++ ['.', e1, e2, e3]) = a := by
  unfold stem
  have hrev : (a ++ ['.', e1, e2, e3]).reverse = e3 :: e2 :: e1 :: '.' :: a.reverse := by simp
  have htw : ((a ++ ['.', e1, e2, e3]).reverse.takeWhile (· != '.')).length = 3 := by
    rw [hrev]
    simp [List.takeWhile_cons, h1, h2, h3]
  have hlen : (a ++ ['.', e1, e2, e3]).length = a.length + 4 := by simp
  have hpos : 0 < a.length := List.length_pos_iff.mpr ha
  simp only [htw, hlen]
  have e : (3 == a.length + 4) = false := by
    apply beq_false_of_ne; omega
  simp only [e, Bool.false_eq_true, if_false]
  have e2' : (decide (0 < a.length + 4 - 1 - 3) && decide (0 < 3)) = true := by
    simp; omega
  simp only [e2', if_true]
  have : a.length + 4 - 1 - 3 = a.length := by omega
  rw [this]
  simp

/-- **Nu: the digits of the stem are exactly the digits of the line index** (any zero padding, any
letter case), so the code's key is the numeric line index -/
theorem nu_key_eq_index (s : List Char) (h : nuFull s = true) :
    stemDigitsKey s = (((nuGroup s).map digitsNat).getD 0 : Nat) := by
  obtain ⟨u, d, e, hs, hu, hd0, hd, he, hg⟩ := nuFull_shape s h
  rw [hg]
  simp only [Option.map_some, Option.getD_some]
  -- the extension is `.` and three letters
  have hlit : ∀ x ∈ "line_".toList, isDigit x = false := by decide
  have hlit2 : ∀ x ∈ ".csv".toList, isDigit x = false := by decide
  have hlen : e.length = 4 := by
    have h1 := congrArg List.length he
    have h2 : ".csv".toList.length = 4 := rfl
    rw [List.length_map, h2] at h1
    exact h1
  match e, he, hlen with
  | [], _, hl => simp at hl
  | [_], _, hl => simp at hl
  | [_, _], _, hl => simp at hl
  | [_, _, _], _, hl => simp at hl
  | _ :: _ :: _ :: _ :: _ :: _, _, hl => simp at hl
  | [e0, e1, e2, e3], he, _ =>
    simp only [List.map_cons, List.map_nil] at he
    have he' : [e0.toLower, e1.toLower, e2.toLower, e3.toLower] = ['.', 'c', 's', 'v'] := he
    simp only [List.cons.injEq, and_true] at he'
    obtain ⟨q0, q1, q2, q3⟩ := he'
    have e0dot : e0 = '.' := eq_of_toLower_eq e0 '.' (by decide) q0
    have n1 : e1 ≠ '.' := by intro e; rw [e] at q1; revert q1; decide
    have n2 : e2 ≠ '.' := by intro e; rw [e] at q2; revert q2; decide
    have n3 : e3 ≠ '.' := by intro e; rw [e] at q3; revert q3; decide
    subst e0dot
    have hne : u ++ d ≠ [] := by
      intro e
      have := (List.append_eq_nil_iff.mp e).2
      exact hd0 this
    have hstem : stem s = u ++ d := by
      rw [hs]; exact stem_of_ext (u ++ d) e1 e2 e3 hne n1 n2 n3
    have hu' : u.filter isDigit = [] := by
      apply List.filter_eq_nil_iff.mpr
      intro x hx
      have : x.toLower ∈ "line_".toList := by
        rw [← hu]; exact List.mem_map.mpr ⟨x, hx, rfl⟩
      simp [not_digit_of_toLower_mem x _ hlit this]
    have hd' : d.filter isDigit = d := List.filter_eq_self.mpr hd
    unfold stemDigitsKey
    simp only [hstem, List.filter_append, hu', hd', List.nil_append]
    have : d.isEmpty = false := by
      cases d with
      | nil => exact absurd rfl hd0
      | cons _ _ => rfl
    simp [this]

/-! ## LDR: the tuple key -/

/-- Python's `str <=`: by code point, a proper prefix first -/
def strLe : List Char → List Char → Bool
  | [], _ => true
  | _ :: _, [] => false
  | a :: as, b :: bs => if a.toNat < b.toNat then true else if a.toNat = b.toNat then strLe as bs else false

/-- **the list encoding of a `(str, int)` key is compared like the Python tuple**: by the string,
and for equal strings by the integer -/
theorem tupleKey_order : ∀ (p q : List Char) (i j : Int),
    keyLe (tupleKey p i) (tupleKey q j) = if p = q then decide (i ≤ j) else strLe p q
  | [], [], i, j => by
    simp only [tupleKey, List.map_nil, List.nil_append, keyLe, if_true, Int.lt_irrefl, if_false]
    by_cases h1 : i < j
    · simp [h1]; omega
    · by_cases h2 : i = j
      · simp [h2]
      · simp [h1, h2]; omega
  | [], b :: bs, i, j => by
    have : (-1 : Int) < (b.toNat : Int) := by omega
    simp [tupleKey, keyLe, this, strLe]
  | a :: as, [], i, j => by
    have h1 : ¬ ((a.toNat : Int) < -1) := by omega
    have h2 : ¬ ((a.toNat : Int) = -1) := by omega
    simp [tupleKey, keyLe, h1, h2, strLe]
  | a :: as, b :: bs, i, j => by
    have ih := tupleKey_order as bs i j
    simp only [tupleKey, List.map_cons, List.cons_append, keyLe] at ih ⊢
    simp only [strLe, List.cons.injEq]
    by_cases h1 : a.toNat < b.toNat
    · have h1' : (a.toNat : Int) < (b.toNat : Int) := by omega
      have hne : a ≠ b := by intro e; subst e; omega
      simp [h1, h1', hne]
    · by_cases h2 : a.toNat = b.toNat
      · have hab : a = b := Char.toNat_inj.mp h2
        subst hab
        simp only [Int.lt_irrefl, if_false, if_true, Nat.lt_irrefl, true_and]
        exact ih
      · have h1' : ¬ ((a.toNat : Int) < (b.toNat : Int)) := by omega
        have h2' : ¬ ((a.toNat : Int) = (b.toNat : Int)) := by omega
        have hne : a ≠ b := by intro e; subst e; exact h2 rfl
        simp [h1, h2, h1', h2', hne]

/-- the name the LDR pattern accepts carries its own key: the fall-back branch of the code's key is
never taken for an accepted file, and the key is the acquisition key -/
theorem ldr_key_eq_acq (s : String) (h : matchesV .ldr s = true) :
    sortKey .ldr (fun _ => 0) s = acqKey .ldr s := by
  simp only [matchesV, ldrGroup, Option.isSome_map] at h
  simp only [sortKey, ldrKey, acqKey]
  cases hp : ldrParts s.toList with
  | none => rw [hp] at h; cases h
  | some pd => rfl

end Pew.CsvDir
