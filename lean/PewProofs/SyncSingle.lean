import PewProofs.SyncRender

/-! # C08 — every complete single-pattern raster lies in the domain of the ground truth -/
namespace Pew.Sync

/-! ## the pixel of a stage cell is injective in (line, step) -/

def Dir.horiz : Dir → Bool
  | .lr => true
  | .rl => true
  | .tb => false
  | .bt => false

theorem lineDir_horiz (p : Pattern) (i : Nat) : (p.lineDir i).horiz = p.dir.horiz := by
  unfold Pattern.lineDir
  split
  · cases p.dir <;> rfl
  · rfl

/-- pixel (row, column) of the stage cell of step `j` of line `i`, counted from the pattern's own corner -/
def Pattern.key (p : Pattern) (i j : Nat) : Int × Int :=
  (((p.stepCell i j).2 - p.Y) / (p.syu : Int), ((p.stepCell i j).1 - p.X) / (p.sxu : Int))

theorem key_eq (p : Pattern) (hu : 0 < p.sxu) (hv : 0 < p.syu) (i j : Nat) :
    p.key i j = match p.lineDir i with
      | .lr => ((i : Int), (j : Int))
      | .rl => ((i : Int), ((p.npix - 1 - j : Nat) : Int))
      | .tb => ((j : Int), (i : Int))
      | .bt => (((p.npix - 1 - j : Nat) : Int), (i : Int)) := by
  unfold Pattern.key Pattern.stepCell
  cases p.lineDir i <;> simp only <;> rw [div_aligned _ _ _ hu, div_aligned _ _ _ hv]

theorem key_inj (p : Pattern) (hu : 0 < p.sxu) (hv : 0 < p.syu) (i1 i2 j1 j2 : Nat) (h1 : j1 < p.npix)
    (h2 : j2 < p.npix) (h : p.key i1 j1 = p.key i2 j2) : i1 = i2 ∧ j1 = j2 := by
  rw [key_eq p hu hv, key_eq p hu hv] at h
  have a1 := lineDir_horiz p i1
  have a2 := lineDir_horiz p i2
  -- the line index is read off the same axis for both
  have hi : i1 = i2 := by
    cases d1 : p.lineDir i1 <;> cases d2 : p.lineDir i2 <;> rw [d1] at a1 h <;> rw [d2] at a2 h <;>
      simp only [Dir.horiz] at a1 a2 <;> simp only [Prod.mk.injEq] at h <;>
      first
        | omega
        | (rw [← a2] at a1; exact absurd a1 (by decide))
  subst hi
  refine ⟨rfl, ?_⟩
  cases d1 : p.lineDir i1 <;> rw [d1] at h <;> simp only [Prod.mk.injEq] at h <;> omega

/-! ## prefix sums of one pattern's lines -/

theorem lineStarts_layLines (p : Pattern) (i0 c s0 : Nat) (lns : List LineSpec)
    (x y : LineRec × Nat) (hx : x ∈ lineStarts s0 (layLines p i0 c lns)) (hy : y ∈ lineStarts s0 (layLines p i0 c lns)) :
    (x.1.i < y.1.i → x.2 + p.npix ≤ y.2) ∧ (x.1.i = y.1.i → x.2 = y.2) := by
  induction lns generalizing i0 c s0 with
  | nil => simp [layLines, lineStarts] at hx
  | cons ln rest ih =>
    simp only [layLines, lineStarts, List.mem_cons] at hx hy
    have tailfacts : ∀ z ∈ lineStarts (s0 + LineRec.gapCount { p := p, i := i0, ln := ln, clock := c } + p.npix)
        (layLines p (i0 + 1) (LineRec.off { p := p, i := i0, ln := ln, clock := c }) rest),
        i0 + 1 ≤ z.1.i ∧ s0 + LineRec.gapCount { p := p, i := i0, ln := ln, clock := c } + p.npix ≤ z.2 := by
      intro z hz
      have := lineStarts_mem _ _ _ hz
      exact ⟨(mem_layLines _ _ _ _ _ this.1).2.1, this.2⟩
    rcases hx with hx | hx <;> rcases hy with hy | hy
    · subst hx; subst hy; simp
    · subst hx
      have := tailfacts y hy
      simp only
      constructor
      · intro _; omega
      · intro h; omega
    · subst hy
      have := tailfacts x hx
      simp only
      constructor
      · intro h; omega
      · intro h; omega
    · exact ih _ _ _ hx hy

/-! ## pairwise facts on `zip (range n)` -/

theorem zip_range_pairwise {β} (n : Nat) (l : List β) :
    (List.zip (List.range n) l).Pairwise (fun a b => a.1 < b.1) := by
  have key : ∀ (A : List Nat) (B : List β), A.Pairwise (· < ·) → (List.zip A B).Pairwise (fun a b => a.1 < b.1) := by
    intro A
    induction A with
    | nil => intro B _; simp
    | cons a as ih =>
      intro B hA
      cases B with
      | nil => simp
      | cons b bs =>
        rw [List.pairwise_cons] at hA
        rw [List.zip_cons_cons, List.pairwise_cons]
        refine ⟨?_, ih bs hA.2⟩
        intro x hx
        exact hA.1 x.1 (List.of_mem_zip (a := x.1) (b := x.2) hx).1
  exact key _ _ List.pairwise_lt_range

/-! ## the domain contains every complete single-pattern acquisition -/

/-- A complete recording (`skip = 0`, every sample taken) of a single logged pattern — any of the eight
scan patterns, any number (≥ 1) and length (≥ 1) of lines, any gaps with or without laser-off samples,
any stage-move rows, any stage origin and positive spot size — lies in the domain `truthHyp` of the
ground truth, provided the pattern is imported (`sel` is `none` or contains its number). -/
theorem truthHyp_single (a : Acq) (sel : Option (List Int)) (p : Pattern) (hp : a.patterns = [p])
    (hsel : isSelected sel p.seq = true)
    (h0 : 0 < a.phase) (h1 : a.phase < 1) (hseq : 0 ≤ p.seq) (hd : 0 < p.dwell)
    (hu : 0 < p.sxu) (hv : 0 < p.syu) (hc : p.circular = true → p.sxu = p.syu)
    (hn : 0 < p.npix) (hl : p.lines ≠ [])
    (hskip : a.skip = 0) (htake : a.take = (emitAll a).samples.length) :
    truthHyp a sel = true := by
  have hps : selectedPatterns a sel = [p] := by simp [selectedPatterns, hp, hsel]
  have horig : truthOrigin a sel = (p.X, p.Y) := by simp [truthOrigin, hps, minList]
  have hdw : ∀ q ∈ a.patterns, 0 < q.dwell := by intro q hq; rw [hp] at hq; simp at hq; rw [hq]; exact hd
  have hlines : a.lines = layLines p 0 0 p.lines := by
    simp [Acq.lines, Acq.recs, hp, layPatterns]
  -- every line ends inside the sample list
  have hend : ∀ (L : List LineRec) (s0 : Nat) (tl : List Sample), ∀ lP ∈ lineStarts s0 L,
      lP.2 + lP.1.p.npix ≤ s0 + (L.flatMap (LineRec.samples a.phase) ++ tl).length := by
    intro L
    induction L with
    | nil => intro s0 tl lP h; simp [lineStarts] at h
    | cons l rest ih =>
      intro s0 tl lP h
      simp only [lineStarts, List.mem_cons] at h
      simp only [List.flatMap_cons, List.length_append, samples_length] at ih ⊢
      rcases h with h | h
      · subst h; simp only; omega
      · have := ih (s0 + l.gapCount + l.p.npix) tl lP h
        omega
  have hpos : 0 < a.take := by
    cases hlns : p.lines with
    | nil => exact absurd hlns hl
    | cons ln rest =>
      rw [htake]
      simp only [emitAll, hlines, hlns, layLines, List.flatMap_cons, List.length_append, samples_length]
      omega
  unfold truthHyp
  simp only [hps, List.head?_cons, horig]
  simp only [Bool.and_eq_true, decide_eq_true_eq, List.all_eq_true, Bool.or_eq_true, beq_iff_eq,
    Bool.not_eq_eq_eq_not, Bool.not_true]
  refine ⟨⟨⟨⟨⟨⟨⟨⟨⟨⟨⟨h0, h1⟩, ?_⟩, ?_⟩, hu⟩, hv⟩, ?_⟩, ?_⟩, ?_⟩, hpos⟩, by rw [hskip, htake]; omega⟩, ?_⟩
  · intro q hq; rw [hp] at hq; simp at hq; rw [hq]; exact ⟨hseq, hd⟩
  · rw [hp]; simp
  · by_cases hcc : p.circular = true
    · right; exact hc hcc
    · left; simpa using hcc
  · intro q hq; simp at hq; subst hq
    refine ⟨⟨⟨⟨⟨⟨rfl, rfl⟩, rfl⟩, by simp⟩, by simp⟩, hn⟩, ?_⟩
    cases hlns : q.lines with
    | nil => exact absurd hlns hl
    | cons _ _ => rfl
  · intro lP hlP
    right
    rw [lineRecorded_iff]
    left
    have hlp : lP.1.p = p := by
      have := (mem_lines a lP.1 (lineStarts_mem _ _ _ hlP).1).1
      rw [hp] at this; simpa using this
    have := hend a.lines 0 a.tailS lP hlP
    have hlen : (emitAll a).samples.length = (a.lines.flatMap (LineRec.samples a.phase) ++ a.tailS).length := rfl
    rw [hskip, htake, hlen, hlp] at *
    omega
  · -- no pixel is visited twice
    unfold truthCells
    simp only [hps, List.head?_cons, horig]
    unfold List.Nodup
    rw [List.pairwise_map, List.pairwise_filterMap]
    refine List.Pairwise.imp_of_mem ?_ (zip_range_pairwise a.take (signal a))
    intro x y hx hy hlt b hb b' hb' heq
    obtain ⟨k1, s1⟩ := x
    obtain ⟨k2, s2⟩ := y
    have hx' := (mem_zip_range _ _ _ _).mp hx
    have hy' := (mem_zip_range _ _ _ _).mp hy
    simp only at hlt hb hb'
    -- unpack the two cells
    split at hb
    · simp at hb
    · rename_i q1 x1 y1 hc1
      split at hb
      · split at hb'
        · simp at hb'
        · rename_i q2 x2 y2 hc2
          split at hb'
          · simp only [Option.some.injEq] at hb hb'
            subst hb; subst hb'
            simp only [Prod.mk.injEq] at heq
            have g1 := hx'.2
            have g2 := hy'.2
            rw [signal_getElem?, if_pos hx'.1, hskip, Nat.zero_add] at g1
            rw [signal_getElem?, if_pos hy'.1, hskip, Nat.zero_add] at g2
            obtain ⟨lP1, hl1, j1, hj1, hn1, hq1⟩ := all_cell_of_index a h0 h1 _ s1 _ g1 hc1
            obtain ⟨lP2, hl2, j2, hj2, hn2, hq2⟩ := all_cell_of_index a h0 h1 _ s2 _ g2 hc2
            have hp1 : lP1.1.p = p := by
              have := (mem_lines a lP1.1 (lineStarts_mem _ _ _ hl1).1).1
              rw [hp] at this; simpa using this
            have hp2 : lP2.1.p = p := by
              have := (mem_lines a lP2.1 (lineStarts_mem _ _ _ hl2).1).1
              rw [hp] at this; simpa using this
            simp only [Prod.mk.injEq] at hq1 hq2
            rw [hp1] at hq1 hj1
            rw [hp2] at hq2 hj2
            have hkey : p.key lP1.1.i j1 = p.key lP2.1.i j2 := by
              unfold Pattern.key
              rw [← hq1.2.1, ← hq1.2.2, ← hq2.2.1, ← hq2.2.2, heq.1, heq.2]
            obtain ⟨hi, hj⟩ := key_inj p hu hv _ _ _ _ hj1 hj2 hkey
            rw [hlines] at hl1 hl2
            have := (lineStarts_layLines p 0 0 0 p.lines lP1 lP2 hl1 hl2).2 hi
            omega
          · simp at hb'
      · simp at hb

/-- on the domain of the ground truth there is something to import: `render` is defined -/
theorem render_defined_core (a : Acq) (sel : Option (List Int)) (hyp : truthHyp a sel = true) :
    ∃ rd, render a sel = some rd := by
  obtain ⟨p0, H⟩ := truthHyp_spec a sel hyp
  have hpairs := rendered_pairs a sel H.seq0 H.inc
  cases hsl : selLines a sel with
  | nil => exact absurd hsl (selLines_ne_nil a sel p0 H)
  | cons l0 rest =>
    have hfind := pairs_find_on _ l0.pair (rest.map LineRec.pair) (by rw [hpairs, hsl]; rfl)
    have hsig : ∃ s0, (signal a).head? = some s0 := by
      have hlen := signal_length a H.len
      cases hs : signal a with
      | nil => rw [hs] at hlen; simp at hlen; have := H.take; omega
      | cons x _ => exact ⟨x, rfl⟩
    obtain ⟨s0, hs0⟩ := hsig
    unfold render firstFiring
    rw [hfind]
    simp only [Option.map_some, hs0]
    exact ⟨_, rfl⟩

end Pew.Sync
