import PewProofs.SyncGeom
import PewProofs.SyncSpot

/-! # C08 — `sync (render a)`: composition of the pieces -/
namespace Pew.Sync

/-! ## the hypotheses, unpacked -/

structure Hyp (a : Acq) (sel : Option (List Int)) (p0 : Pattern) : Prop where
  head : (selectedPatterns a sel).head? = some p0
  ph0 : 0 < a.phase
  ph1 : a.phase < 1
  seq0 : ∀ p ∈ a.patterns, 0 ≤ p.seq
  dwell : ∀ p ∈ a.patterns, 0 < p.dwell
  inc : (a.patterns.map (·.seq)).Pairwise (· ≤ ·)
  su : 0 < p0.sxu
  sv : 0 < p0.syu
  circ : p0.circular = true → p0.sxu = p0.syu
  pats : ∀ p ∈ selectedPatterns a sel, p.sxu = p0.sxu ∧ p.syu = p0.syu ∧ p.circular = p0.circular ∧
    (p.X - (truthOrigin a sel).1) % (p0.sxu : Int) = 0 ∧ (p.Y - (truthOrigin a sel).2) % (p0.syu : Int) = 0 ∧
    0 < p.npix ∧ p.lines ≠ []
  recorded : ∀ lP ∈ lineStarts 0 a.lines, isSelected sel lP.1.p.seq = true → lineRecorded a lP.1 lP.2 = true
  take : 0 < a.take
  len : a.skip + a.take ≤ (emitAll a).samples.length
  nodup : ((truthCells a sel).map (fun e => (e.1, e.2.1))).Nodup

theorem truthHyp_spec (a : Acq) (sel : Option (List Int)) (h : truthHyp a sel = true) : ∃ p0, Hyp a sel p0 := by
  unfold truthHyp at h
  simp only at h
  split at h
  · simp at h
  · rename_i p0 hp0
    simp only [Bool.and_eq_true, decide_eq_true_eq, List.all_eq_true, Bool.or_eq_true,
      beq_iff_eq, Bool.not_eq_eq_eq_not, Bool.not_true] at h
    obtain ⟨⟨⟨⟨⟨⟨⟨⟨⟨⟨⟨h0, h1⟩, hall⟩, hinc⟩, hsu⟩, hsv⟩, hcirc⟩, hps⟩, hrec⟩, htake⟩, hlen⟩, hnd⟩ := h
    refine ⟨p0, hp0, h0, h1, fun p hp => (hall p hp).1, fun p hp => (hall p hp).2, hinc, hsu, hsv, ?_, ?_, ?_,
      htake, hlen, hnd⟩
    · intro hc
      rcases hcirc with h | h
      · rw [hc] at h; exact absurd h (by simp)
      · exact h
    · intro p hp
      obtain ⟨⟨⟨⟨⟨⟨e1, e2⟩, e3⟩, e4⟩, e5⟩, e6⟩, e7⟩ := hps p hp
      refine ⟨e1, e2, e3, e4, e5, e6, ?_⟩
      intro hnil; rw [hnil] at e7; simp at e7
    · intro lP hlP hsel
      rcases hrec lP hlP with h | h
      · rw [hsel] at h; exact absurd h (by simp)
      · exact h

/-! ## membership in the ground truth -/

theorem mem_zip_range {β} (n : Nat) (l : List β) (k : Nat) (x : β) :
    (k, x) ∈ List.zip (List.range n) l ↔ k < n ∧ l[k]? = some x := by
  rw [mem_zip_iff']
  constructor
  · rintro ⟨i, h1, h2⟩
    have hi : i < n := by
      by_contra hcon
      rw [List.getElem?_eq_none (by simp; omega)] at h1; simp at h1
    rw [List.getElem?_range hi] at h1
    simp at h1; subst h1
    exact ⟨hi, h2⟩
  · rintro ⟨hk, hx⟩
    exact ⟨k, by rw [List.getElem?_range hk], hx⟩

theorem mem_truthCells (a : Acq) (sel : Option (List Int)) (p0 : Pattern)
    (hhead : (selectedPatterns a sel).head? = some p0) (r c : Int) (k : Nat) :
    (r, c, k) ∈ truthCells a sel ↔
      ∃ s q x y, k < a.take ∧ (signal a)[k]? = some s ∧ s.cell = some (q, x, y) ∧ isSelected sel q = true ∧
        r = (y - (truthOrigin a sel).2) / (p0.syu : Int) ∧ c = (x - (truthOrigin a sel).1) / (p0.sxu : Int) := by
  unfold truthCells
  simp only [hhead, List.mem_filterMap]
  constructor
  · rintro ⟨⟨k', s⟩, hm, hv⟩
    have hm' := (mem_zip_range _ _ _ _).mp hm
    simp only at hv
    split at hv
    · simp at hv
    · rename_i q x y hc
      split at hv
      · rename_i hsel
        simp only [Option.some.injEq, Prod.mk.injEq] at hv
        obtain ⟨rfl, rfl, rfl⟩ := hv
        exact ⟨s, q, x, y, hm'.1, hm'.2, hc, hsel, rfl, rfl⟩
      · simp at hv
  · rintro ⟨s, q, x, y, hk, hs, hc, hsel, rfl, rfl⟩
    refine ⟨(k, s), (mem_zip_range _ _ _ _).mpr ⟨hk, hs⟩, ?_⟩
    simp only [hc, hsel, if_true]

/-! ## all writes -/

theorem segWrites_range (n : Nat) (g : Seg) (hax : g.y0 = g.y1 ∨ g.x0 = g.x1) (h01 : g.t0 ≤ g.t1) (h1n : g.t1 ≤ n) :
    ∃ w, segWrites (pySlice (List.range n) g.t0 g.t1) g = some w ∧
      ∀ (p : Int × Int) (v : Nat), (p, v) ∈ w ↔
        ∃ k : Nat, k < min (g.t1 - g.t0) g.len ∧ p = g.cellAt (g.len - 1 - k) ∧ v = g.t1 - 1 - k := by
  obtain ⟨w, hw, hmem⟩ := segWrites_spec (pySlice (List.range n) g.t0 g.t1) g hax
  refine ⟨w, hw, ?_⟩
  intro p v
  rw [hmem, pySlice_range_length n _ _ h1n h01]
  constructor
  · rintro ⟨k, hk, hp, hv⟩
    rw [pySlice_range_getElem? n _ _ _ h1n (by omega)] at hv
    exact ⟨k, hk, hp, by simp at hv; omega⟩
  · rintro ⟨k, hk, hp, hv⟩
    refine ⟨k, hk, hp, ?_⟩
    rw [pySlice_range_getElem? n _ _ _ h1n (by omega)]
    congr 1; omega

theorem allWrites_spec (n : Nat) (segs : List Seg)
    (hax : ∀ g ∈ segs, (g.y0 = g.y1 ∨ g.x0 = g.x1) ∧ g.t0 ≤ g.t1 ∧ g.t1 ≤ n) :
    ∃ w, allWrites n segs = some w ∧
      ∀ (p : Int × Int) (v : Nat), (p, v) ∈ w ↔
        ∃ g ∈ segs, ∃ k : Nat, k < min (g.t1 - g.t0) g.len ∧ p = g.cellAt (g.len - 1 - k) ∧ v = g.t1 - 1 - k := by
  induction segs with
  | nil => exact ⟨[], rfl, by simp⟩
  | cons g gs ih =>
    obtain ⟨ws, hws, hmem⟩ := ih (fun g' hg' => hax g' (by simp [hg']))
    obtain ⟨h1, h2, h3⟩ := hax g (by simp)
    obtain ⟨wg, hwg, hg⟩ := segWrites_range n g h1 h2 h3
    refine ⟨wg ++ ws, by simp [allWrites, hwg, hws], ?_⟩
    intro p v
    rw [List.mem_append, hg, hmem]
    simp only [List.mem_cons, exists_eq_or_imp]

/-! ## the reported origin -/

theorem selLines_ne_nil (a : Acq) (sel : Option (List Int)) (p0 : Pattern) (H : Hyp a sel p0) :
    selLines a sel ≠ [] := by
  have hp0 : p0 ∈ selectedPatterns a sel := List.mem_of_mem_head? (by rw [H.head]; rfl)
  obtain ⟨l, hl, _⟩ := selLines_line0 a sel p0 hp0 (H.pats p0 hp0).2.2.2.2.2.2
  exact List.ne_nil_of_mem hl

theorem origin_x (a : Acq) (sel : Option (List Int)) (p0 : Pattern) (H : Hyp a sel p0) :
    minList (((selLines a sel).map LineRec.pair).flatMap (fun p => [p.1.x, p.2.x])) = (truthOrigin a sel).1 := by
  have hp0 : p0 ∈ selectedPatterns a sel := List.mem_of_mem_head? (by rw [H.head]; rfl)
  have hne : (selectedPatterns a sel).map (·.X) ≠ [] := by
    intro h; rw [List.map_eq_nil_iff] at h; rw [h] at hp0; simp at hp0
  apply minList_eq_of
  · obtain ⟨p, hp, hpX⟩ := List.mem_map.mp (minList_mem _ hne)
    obtain ⟨l, hl, hlp, hli⟩ := selLines_line0 a sel p hp (H.pats p hp).2.2.2.2.2.2
    have hz := (lineEnds_zero p).1
    simp only [truthOrigin, List.mem_flatMap, List.mem_map]
    refine ⟨l.pair, ⟨l, hl, rfl⟩, ?_⟩
    simp only [LineRec.pair, setSeq, LineRec.onRow, LineRec.offRow, hlp, hli, List.mem_cons, List.not_mem_nil,
      or_false]
    rw [← hpX]
    rcases hz with h | h
    · left; exact h.symm
    · right; exact h.symm
  · intro x hx
    simp only [List.mem_flatMap, List.mem_map] at hx
    obtain ⟨pr, ⟨l, hl, rfl⟩, hx⟩ := hx
    have hlp := (selLines_pattern a sel l hl).1
    have hmin : minList ((selectedPatterns a sel).map (·.X)) ≤ l.p.X :=
      minList_le _ _ (List.mem_map.mpr ⟨l.p, hlp, rfl⟩)
    have hge := lineEnds_ge l.p l.i
    simp only [LineRec.pair, setSeq, LineRec.onRow, LineRec.offRow, List.mem_cons, List.not_mem_nil,
      or_false] at hx
    simp only [truthOrigin]
    rcases hx with h | h <;> rw [h] <;> omega

theorem origin_y (a : Acq) (sel : Option (List Int)) (p0 : Pattern) (H : Hyp a sel p0) :
    minList (((selLines a sel).map LineRec.pair).flatMap (fun p => [p.1.y, p.2.y])) = (truthOrigin a sel).2 := by
  have hp0 : p0 ∈ selectedPatterns a sel := List.mem_of_mem_head? (by rw [H.head]; rfl)
  have hne : (selectedPatterns a sel).map (·.Y) ≠ [] := by
    intro h; rw [List.map_eq_nil_iff] at h; rw [h] at hp0; simp at hp0
  apply minList_eq_of
  · obtain ⟨p, hp, hpY⟩ := List.mem_map.mp (minList_mem _ hne)
    obtain ⟨l, hl, hlp, hli⟩ := selLines_line0 a sel p hp (H.pats p hp).2.2.2.2.2.2
    have hz := (lineEnds_zero p).2
    simp only [truthOrigin, List.mem_flatMap, List.mem_map]
    refine ⟨l.pair, ⟨l, hl, rfl⟩, ?_⟩
    simp only [LineRec.pair, setSeq, LineRec.onRow, LineRec.offRow, hlp, hli, List.mem_cons, List.not_mem_nil,
      or_false]
    rw [← hpY]
    rcases hz with h | h
    · left; exact h.symm
    · right; exact h.symm
  · intro x hx
    simp only [List.mem_flatMap, List.mem_map] at hx
    obtain ⟨pr, ⟨l, hl, rfl⟩, hx⟩ := hx
    have hlp := (selLines_pattern a sel l hl).1
    have hmin : minList ((selectedPatterns a sel).map (·.Y)) ≤ l.p.Y :=
      minList_le _ _ (List.mem_map.mpr ⟨l.p, hlp, rfl⟩)
    have hge := lineEnds_ge l.p l.i
    simp only [LineRec.pair, setSeq, LineRec.onRow, LineRec.offRow, List.mem_cons, List.not_mem_nil,
      or_false] at hx
    simp only [truthOrigin]
    rcases hx with h | h <;> rw [h] <;> omega

/-- every selected pattern sits a whole number of spot sizes above the origin on both axes -/
theorem grid (a : Acq) (sel : Option (List Int)) (p0 : Pattern) (H : Hyp a sel p0) (p : Pattern)
    (hp : p ∈ selectedPatterns a sel) :
    ∃ cx cy : Nat, p.X = (truthOrigin a sel).1 + ((cx * p.sxu : Nat) : Int) ∧
      p.Y = (truthOrigin a sel).2 + ((cy * p.syu : Nat) : Int) := by
  obtain ⟨e1, e2, _, e4, e5, _, _⟩ := H.pats p hp
  have hx : (truthOrigin a sel).1 ≤ p.X := minList_le _ _ (List.mem_map.mpr ⟨p, hp, rfl⟩)
  have hy : (truthOrigin a sel).2 ≤ p.Y := minList_le _ _ (List.mem_map.mpr ⟨p, hp, rfl⟩)
  obtain ⟨cx, hcx⟩ := aligned_of_mod p.X _ p0.sxu H.su hx e4
  obtain ⟨cy, hcy⟩ := aligned_of_mod p.Y _ p0.syu H.sv hy e5
  exact ⟨cx, cy, by rw [e1]; exact hcx, by rw [e2]; exact hcy⟩

/-! ## the segment of an imported line -/

theorem line_seg (a : Acq) (sel : Option (List Int)) (p0 : Pattern) (H : Hyp a sel p0) (f : Int) (first : Row)
    (hft : first.time = f) (lP : LineRec × Nat) (hlP : lP ∈ lineStarts 0 a.lines) (hsel : lP.1 ∈ selLines a sel)
    (g : Seg)
    (hg : g = mkSeg ((signal a).map (fun x => (x.t - (f : Rat)) / 1000)) first (truthOrigin a sel).1
      (truthOrigin a sel).2 ((p0.sxu : Rat) / 10000) ((p0.syu : Rat) / 10000) lP.1.pair) :
    g.t0 = min (lP.2 - a.skip) a.take ∧ g.t1 = min (lP.2 + lP.1.p.npix - a.skip) a.take ∧
    (g.y0 = g.y1 ∨ g.x0 = g.x1) ∧ g.len = lP.1.p.npix ∧
    (∀ j, j < lP.1.p.npix → g.cellAt j = truthPixel a sel p0 lP.1 j) ∧
    0 ≤ g.x0 ∧ 0 ≤ g.x1 ∧ 0 ≤ g.y0 ∧ 0 ≤ g.y1 := by
  obtain ⟨hp, _⟩ := selLines_pattern a sel lP.1 hsel
  obtain ⟨e1, e2, _, _, _, hn, _⟩ := H.pats lP.1.p hp
  obtain ⟨cx, cy, hX, hY⟩ := grid a sel p0 H lP.1.p hp
  have htimes := fun n s hs => all_times a H.ph0 H.ph1 H.dwell lP hlP n s hs
  have ht0 : g.t0 = min (lP.2 - a.skip) a.take := by
    rw [hg]
    simp only [mkSeg, laserTime, hft, LineRec.pair, setSeq, LineRec.onRow]
    exact searchsorted_event a H.len f lP.1.on lP.2 (fun n s hs => (htimes n s hs).1)
  have ht1 : g.t1 = min (lP.2 + lP.1.p.npix - a.skip) a.take := by
    rw [hg]
    simp only [mkSeg, laserTime, hft, LineRec.pair, setSeq, LineRec.offRow]
    exact searchsorted_event a H.len f lP.1.off (lP.2 + lP.1.p.npix) (fun n s hs => (htimes n s hs).2)
  have hgeom := seg_geom lP.1.p lP.1.i (truthOrigin a sel).1 (truthOrigin a sel).2 cx cy hX hY
    (by rw [e1]; exact H.su) (by rw [e2]; exact H.sv) hn g
    (by rw [hg, e1]; rfl) (by rw [hg, e1]; rfl) (by rw [hg, e2]; rfl) (by rw [hg, e2]; rfl)
  refine ⟨ht0, ht1, hgeom.1, hgeom.2.1, ?_, hgeom.2.2.2⟩
  intro j hj
  rw [hgeom.2.2.1 j hj, truthPixel, e1, e2]

/-! ## the ground truth, line by line -/

/-- A pixel of the ground truth holds sample `v` of the signal iff `v` is the sample of pixel `j` of an
imported line and lies in the recorded window. -/
theorem truthCells_iff (a : Acq) (sel : Option (List Int)) (p0 : Pattern) (H : Hyp a sel p0) (r c : Int) (v : Nat) :
    (r, c, v) ∈ truthCells a sel ↔
      ∃ lP ∈ lineStarts 0 a.lines, lP.1 ∈ selLines a sel ∧ ∃ j, j < lP.1.p.npix ∧ a.skip + v = lP.2 + j ∧
        v < a.take ∧ (r, c) = truthPixel a sel p0 lP.1 j := by
  rw [mem_truthCells a sel p0 H.head]
  constructor
  · rintro ⟨s, q, x, y, hv, hs, hc, hsel, rfl, rfl⟩
    rw [signal_getElem?, if_pos hv] at hs
    obtain ⟨lP, hlP, j, hj, hn, hq⟩ := all_cell_of_index a H.ph0 H.ph1 _ s _ hs hc
    simp only [Prod.mk.injEq] at hq
    obtain ⟨rfl, rfl, rfl⟩ := hq
    refine ⟨lP, hlP, (mem_selLines a sel lP.1).mpr ⟨(lineStarts_mem _ _ _ hlP).1, hsel⟩, j, hj, hn, hv, rfl⟩
  · rintro ⟨lP, hlP, hl, j, hj, hn, hv, hrc⟩
    obtain ⟨s, hs, hc⟩ := all_index_of_cell a lP hlP j hj
    refine ⟨s, _, _, _, hv, ?_, hc, ((mem_selLines a sel lP.1).mp hl).2, ?_, ?_⟩
    · rw [signal_getElem?, if_pos hv, hn]; exact hs
    · exact (Prod.mk.inj hrc).1
    · exact (Prod.mk.inj hrc).2

/-! ## all writes of the rendered acquisition -/

theorem lineRecorded_iff (a : Acq) (l : LineRec) (P : Nat) :
    lineRecorded a l P = true ↔
      (a.skip ≤ P + l.p.npix - 1 ∧ P + l.p.npix - 1 < a.skip + a.take) ∨
      (P + l.p.npix ≤ a.skip ∨ a.skip + a.take ≤ P) := by
  simp [lineRecorded]

/-- The writes `sync` performs for the rendered acquisition are exactly the ground-truth cells, and
every ground-truth cell lies inside the canvas spanned by the imported line ends. -/
theorem render_writes (a : Acq) (sel : Option (List Int)) (p0 : Pattern) (H : Hyp a sel p0) (f : Int) (first : Row)
    (hft : first.time = f) (segs : List Seg)
    (hsegs : segs = ((selLines a sel).map LineRec.pair).map
      (mkSeg ((signal a).map (fun x => (x.t - (f : Rat)) / 1000)) first (truthOrigin a sel).1
        (truthOrigin a sel).2 ((p0.sxu : Rat) / 10000) ((p0.syu : Rat) / 10000))) :
    ∃ w, allWrites a.take segs = some w ∧
      (∀ (p : Int × Int) (v : Nat), (p, v) ∈ w ↔ (p.1, p.2, v) ∈ truthCells a sel) ∧
      (∀ e ∈ truthCells a sel, 0 ≤ e.1 ∧ e.1 ≤ maxList (segs.flatMap (fun g => [g.y0, g.y1])) ∧
        0 ≤ e.2.1 ∧ e.2.1 ≤ maxList (segs.flatMap (fun g => [g.x0, g.x1]))) := by
  -- every segment belongs to an imported line with its prefix sum
  have hseg : ∀ g ∈ segs, ∃ lP ∈ lineStarts 0 a.lines, lP.1 ∈ selLines a sel ∧
      g = mkSeg ((signal a).map (fun x => (x.t - (f : Rat)) / 1000)) first (truthOrigin a sel).1
        (truthOrigin a sel).2 ((p0.sxu : Rat) / 10000) ((p0.syu : Rat) / 10000) lP.1.pair := by
    intro g hg
    rw [hsegs, List.map_map] at hg
    obtain ⟨l, hl, rfl⟩ := List.mem_map.mp hg
    obtain ⟨P, hP⟩ := lineStarts_of_mem 0 a.lines l ((mem_selLines a sel l).mp hl).1
    exact ⟨(l, P), hP, hl, rfl⟩
  have hsegof : ∀ lP ∈ lineStarts 0 a.lines, lP.1 ∈ selLines a sel →
      mkSeg ((signal a).map (fun x => (x.t - (f : Rat)) / 1000)) first (truthOrigin a sel).1
        (truthOrigin a sel).2 ((p0.sxu : Rat) / 10000) ((p0.syu : Rat) / 10000) lP.1.pair ∈ segs := by
    intro lP _ hl
    rw [hsegs, List.map_map]
    exact List.mem_map.mpr ⟨lP.1, hl, rfl⟩
  obtain ⟨w, hw, hmem⟩ := allWrites_spec a.take segs (by
    intro g hg
    obtain ⟨lP, hlP, hl, hgeq⟩ := hseg g hg
    obtain ⟨h0, h1, hax, _⟩ := line_seg a sel p0 H f first hft lP hlP hl g hgeq
    exact ⟨hax, by omega, by omega⟩)
  have hback : ∀ (r c : Int) (v : Nat), (r, c, v) ∈ truthCells a sel →
      ∃ g ∈ segs, (∃ k : Nat, k < min (g.t1 - g.t0) g.len ∧ (r, c) = g.cellAt (g.len - 1 - k) ∧ v = g.t1 - 1 - k) ∧
        0 ≤ g.y0 ∧ 0 ≤ g.y1 ∧ 0 ≤ g.x0 ∧ 0 ≤ g.x1 := by
    intro r c v hcell
    obtain ⟨lP, hlP, hl, j, hj, hn, hv, hrc⟩ := (truthCells_iff a sel p0 H r c v).mp hcell
    refine ⟨_, hsegof lP hlP hl, ?_⟩
    obtain ⟨h0, h1, hax, hlen, hcellAt, hx0, hx1, hy0, hy1⟩ := line_seg a sel p0 H f first hft lP hlP hl _ rfl
    have hrec := (lineRecorded_iff a lP.1 lP.2).mp (H.recorded lP hlP ((mem_selLines a sel lP.1).mp hl).2)
    refine ⟨⟨lP.1.p.npix - 1 - j, ?_, ?_, ?_⟩, hy0, hy1, hx0, hx1⟩
    · rw [h0, h1, hlen]; omega
    · rw [hlen, hrc, ← hcellAt j hj]; congr 1; omega
    · rw [h1]; omega
  refine ⟨w, hw, ?_, ?_⟩
  · intro p v
    rw [hmem]
    constructor
    · rintro ⟨g, hg, k, hk, hp, hv⟩
      obtain ⟨lP, hlP, hl, hgeq⟩ := hseg g hg
      obtain ⟨h0, h1, hax, hlen, hcellAt, _⟩ := line_seg a sel p0 H f first hft lP hlP hl g hgeq
      have hrec := (lineRecorded_iff a lP.1 lP.2).mp (H.recorded lP hlP ((mem_selLines a sel lP.1).mp hl).2)
      rw [h0, h1, hlen] at hk
      rw [hlen] at hp
      rw [h1] at hv
      apply (truthCells_iff a sel p0 H p.1 p.2 v).mpr
      refine ⟨lP, hlP, hl, lP.1.p.npix - 1 - k, by omega, by omega, by omega, ?_⟩
      rw [← hcellAt _ (by omega), ← hp]
    · intro hcell
      obtain ⟨g, hg, hk, _⟩ := hback p.1 p.2 v hcell
      exact ⟨g, hg, hk⟩
  · intro e he
    obtain ⟨r, c, v⟩ := e
    obtain ⟨g, hg, ⟨k, hk, hrc, _⟩, hy0, hy1, hx0, hx1⟩ := hback r c v he
    have hb := seg_cell_bounds g (g.len - 1 - k) (by omega)
    rw [← hrc] at hb
    simp only at hb
    have my : max g.y0 g.y1 ≤ maxList (segs.flatMap (fun g => [g.y0, g.y1])) := by
      have h1 : g.y0 ≤ _ := le_maxList (segs.flatMap (fun g => [g.y0, g.y1])) g.y0
        (List.mem_flatMap.mpr ⟨g, hg, by simp⟩)
      have h2 : g.y1 ≤ _ := le_maxList (segs.flatMap (fun g => [g.y0, g.y1])) g.y1
        (List.mem_flatMap.mpr ⟨g, hg, by simp⟩)
      omega
    have mx : max g.x0 g.x1 ≤ maxList (segs.flatMap (fun g => [g.x0, g.x1])) := by
      have h1 : g.x0 ≤ _ := le_maxList (segs.flatMap (fun g => [g.x0, g.x1])) g.x0
        (List.mem_flatMap.mpr ⟨g, hg, by simp⟩)
      have h2 : g.x1 ≤ _ := le_maxList (segs.flatMap (fun g => [g.x0, g.x1])) g.x1
        (List.mem_flatMap.mpr ⟨g, hg, by simp⟩)
      omega
    simp only
    omega

/-! ## from writes to pixels -/

theorem inj_of_nodup_map {β γ} (f : β → γ) (l : List β) (h : (l.map f).Nodup) (x y : β) (hx : x ∈ l) (hy : y ∈ l)
    (hxy : f x = f y) : x = y := by
  induction l with
  | nil => simp at hx
  | cons z t ih =>
    simp only [List.map_cons, List.nodup_cons] at h
    rcases List.mem_cons.mp hx with h1 | h1 <;> rcases List.mem_cons.mp hy with h2 | h2
    · rw [h1, h2]
    · exfalso; apply h.1; rw [← h1, hxy]; exact List.mem_map.mpr ⟨y, h2, rfl⟩
    · exfalso; apply h.1; rw [← h2, ← hxy]; exact List.mem_map.mpr ⟨x, h1, rfl⟩
    · exact ih h.2 h1 h2

/-- if the writes are exactly the ground-truth cells and no pixel is visited twice, every pixel of
the canvas holds what the ground-truth image holds (NaN where no cell lies) -/
theorem lookup_eq_truth (cells : List (Int × Int × Nat)) (w : List ((Int × Int) × Nat))
    (hnd : (cells.map (fun e => (e.1, e.2.1))).Nodup)
    (hmem : ∀ (p : Int × Int) (v : Nat), (p, v) ∈ w ↔ (p.1, p.2, v) ∈ cells) (r c : Int) :
    lookupLast w (r, c) = (cells.find? (fun e => e.1 == r && e.2.1 == c)).map (·.2.2) := by
  cases hl : lookupLast w (r, c) with
  | none =>
    have hno := (lookupLast_none_iff w (r, c)).mp hl
    have : cells.find? (fun e => e.1 == r && e.2.1 == c) = none := by
      rw [List.find?_eq_none]
      intro e he hpe
      simp only [Bool.and_eq_true, beq_iff_eq] at hpe
      obtain ⟨r', c', v⟩ := e
      simp only at hpe
      obtain ⟨rfl, rfl⟩ := hpe
      exact hno ((r', c'), v) ((hmem (r', c') v).mpr he) rfl
    rw [this]; rfl
  | some v =>
    have hin : (r, c, v) ∈ cells := (hmem (r, c) v).mp (lookupLast_mem w (r, c) v hl)
    cases hf : cells.find? (fun e => e.1 == r && e.2.1 == c) with
    | none =>
      rw [List.find?_eq_none] at hf
      exact absurd (by simp) (hf _ hin)
    | some e =>
      have he := List.mem_of_find?_eq_some hf
      have hpe := List.find?_some hf
      simp only [Bool.and_eq_true, beq_iff_eq] at hpe
      have := inj_of_nodup_map (fun e : Int × Int × Nat => (e.1, e.2.1)) cells hnd e (r, c, v) he hin
        (by simp [hpe.1, hpe.2])
      rw [this]; rfl

/-! ## `render` unpacked -/

theorem render_some (a : Acq) (sel : Option (List Int)) (rd : Rendered) (h : render a sel = some rd) :
    ∃ f s0, firstFiring a sel = some f ∧ (signal a).head? = some s0 ∧
      rd = { rows := (emitAll a).rows
             times := (signal a).map (fun x => a.t0 + (x.t - s0.t) / 1000)
             delay := (s0.t - (f : Rat)) / 1000 } := by
  unfold render at h
  cases hf : firstFiring a sel with
  | none => simp [hf] at h
  | some f =>
    cases hs : (signal a).head? with
    | none => simp [hf, hs] at h
    | some s0 =>
      simp [hf, hs] at h
      exact ⟨f, s0, rfl, rfl, h.symm⟩

theorem spotStr_congr (p q : Pattern) (h1 : p.sxu = q.sxu) (h2 : p.syu = q.syu) (h3 : p.circular = q.circular) :
    p.spotStr = q.spotStr := by
  unfold Pattern.spotStr Pattern.spotL; rw [h1, h2, h3]

/-! ## end to end -/

/-- the image `sync` builds from the imported pairs -/
def syncImage (ts : List Rat) (delay : Rat) (prs : List (Row × Row)) (first : Row) (spot : List Rat) :
    Nat × Nat × Option (List ((Int × Int) × Nat)) :=
  let ox := minList (prs.flatMap (fun p => [p.1.x, p.2.x]))
  let oy := minList (prs.flatMap (fun p => [p.1.y, p.2.y]))
  let segs := prs.map (mkSeg (shiftTimes ts delay) first ox oy (spot.getD 0 0) (spot.getD 1 0))
  ((maxList (segs.flatMap (fun g => [g.y0, g.y1])) + 1).toNat,
   (maxList (segs.flatMap (fun g => [g.x0, g.x1])) + 1).toNat,
   allWrites ts.length segs)

theorem sync_ok (rows : List Row) (sel : Option (List Int)) (ts : List Rat) (delay : Rat) (isnan : Nat → Bool)
    (prs : List (Row × Row)) (first : Row × Row) (spot : List Rat) (writes : List ((Int × Int) × Nat))
    (h1 : pairs (selectRows sel rows) = some prs) (h2 : prs.head? = some first)
    (h3 : spotSize first.1.spot = some spot)
    (h4 : (syncImage ts delay prs first.1 spot).2.2 = some writes) :
    sync rows sel ts delay isnan false = .ok
      { height := (syncImage ts delay prs first.1 spot).1
        width := (syncImage ts delay prs first.1 spot).2.1
        pixels := (List.range (syncImage ts delay prs first.1 spot).1).map (fun (r : Nat) =>
          (List.range (syncImage ts delay prs first.1 spot).2.1).map (fun (c : Nat) =>
            lookupLast writes ((r : Int), (c : Int))))
        origin := (minList (prs.flatMap (fun p => [p.1.x, p.2.x])), minList (prs.flatMap (fun p => [p.1.y, p.2.y])))
        spot := spot } := by
  unfold syncImage at h4
  simp only at h4
  unfold sync
  simp only [h1, h2, h3, h4, pure, Except.pure]
  rfl

theorem sync_ok_squeeze (rows : List Row) (sel : Option (List Int)) (ts : List Rat) (delay : Rat) (isnan : Nat → Bool)
    (prs : List (Row × Row)) (first : Row × Row) (spot : List Rat) (writes : List ((Int × Int) × Nat))
    (h1 : pairs (selectRows sel rows) = some prs) (h2 : prs.head? = some first)
    (h3 : spotSize first.1.spot = some spot)
    (h4 : (syncImage ts delay prs first.1 spot).2.2 = some writes) :
    sync rows sel ts delay isnan true = .ok
      { height := (squeezeImg isnan (syncImage ts delay prs first.1 spot).2.1
          ((List.range (syncImage ts delay prs first.1 spot).1).map (fun (r : Nat) =>
            (List.range (syncImage ts delay prs first.1 spot).2.1).map (fun (c : Nat) =>
              lookupLast writes ((r : Int), (c : Int)))))).1.length
        width := (squeezeImg isnan (syncImage ts delay prs first.1 spot).2.1
          ((List.range (syncImage ts delay prs first.1 spot).1).map (fun (r : Nat) =>
            (List.range (syncImage ts delay prs first.1 spot).2.1).map (fun (c : Nat) =>
              lookupLast writes ((r : Int), (c : Int)))))).2
        pixels := (squeezeImg isnan (syncImage ts delay prs first.1 spot).2.1
          ((List.range (syncImage ts delay prs first.1 spot).1).map (fun (r : Nat) =>
            (List.range (syncImage ts delay prs first.1 spot).2.1).map (fun (c : Nat) =>
              lookupLast writes ((r : Int), (c : Int)))))).1
        origin := (minList (prs.flatMap (fun p => [p.1.x, p.2.x])), minList (prs.flatMap (fun p => [p.1.y, p.2.y])))
        spot := spot } := by
  unfold syncImage at h4
  simp only at h4
  unfold sync
  simp only [h1, h2, h3, h4, pure, Except.pure]
  rfl

/-- everything `sync` computes for a rendered acquisition, before the result is assembled -/
theorem render_core (a : Acq) (sel : Option (List Int)) (rd : Rendered)
    (hyp : truthHyp a sel = true) (hr : render a sel = some rd) :
    ∃ p0 prs first w h wd, Hyp a sel p0 ∧
      pairs (selectRows sel rd.rows) = some prs ∧ prs.head? = some first ∧
      spotSize first.1.spot = some [(p0.sxu : Rat) / 10000, (p0.syu : Rat) / 10000] ∧
      syncImage rd.times rd.delay prs first.1 [(p0.sxu : Rat) / 10000, (p0.syu : Rat) / 10000] = (h, wd, some w) ∧
      minList (prs.flatMap (fun p => [p.1.x, p.2.x])) = (truthOrigin a sel).1 ∧
      minList (prs.flatMap (fun p => [p.1.y, p.2.y])) = (truthOrigin a sel).2 ∧
      (∀ (p : Int × Int) (v : Nat), (p, v) ∈ w ↔ (p.1, p.2, v) ∈ truthCells a sel) ∧
      (∀ e ∈ truthCells a sel, 0 ≤ e.1 ∧ e.1 < (h : Int) ∧ 0 ≤ e.2.1 ∧ e.2.1 < (wd : Int)) := by
  obtain ⟨p0, H⟩ := truthHyp_spec a sel hyp
  obtain ⟨f, s0, hf, hs0, rfl⟩ := render_some a sel rd hr
  have hp0 : p0 ∈ selectedPatterns a sel := List.mem_of_mem_head? (by rw [H.head]; rfl)
  have hpairs := rendered_pairs a sel H.seq0 H.inc
  -- the first imported line
  cases hsl : selLines a sel with
  | nil => exact absurd hsl (selLines_ne_nil a sel p0 H)
  | cons l0 rest =>
    have hl0 : l0 ∈ selLines a sel := by rw [hsl]; simp
    have hl0p := (selLines_pattern a sel l0 hl0).1
    obtain ⟨e1, e2, e3, _⟩ := H.pats l0.p hl0p
    have hhead : ((selLines a sel).map LineRec.pair).head? = some l0.pair := by rw [hsl]; rfl
    have hft : l0.pair.1.time = f := by
      have hfind := pairs_find_on _ l0.pair (rest.map LineRec.pair) (by rw [hpairs, hsl]; rfl)
      unfold firstFiring at hf
      rw [hfind] at hf
      simpa using hf
    have hspot0 : spotSize l0.pair.1.spot = some [(p0.sxu : Rat) / 10000, (p0.syu : Rat) / 10000] := by
      have : l0.pair.1.spot = p0.spotStr := spotStr_congr l0.p p0 e1 e2 e3
      rw [this, spotSize_spotStr p0]
      by_cases hc : p0.circular = true
      · simp [hc, H.circ hc]
      · simp [hc]
    have hshift := shifted_times a H.ph0 H.ph1 H.dwell s0 hs0 f
    have hlen : ((signal a).map (fun x => a.t0 + (x.t - s0.t) / 1000)).length = a.take := by
      rw [List.length_map, signal_length a H.len]
    obtain ⟨w, hw, hmem, hbounds⟩ := render_writes a sel p0 H f l0.pair.1 hft _ rfl
    refine ⟨p0, (selLines a sel).map LineRec.pair, l0.pair, w,
      (maxList ((((selLines a sel).map LineRec.pair).map
        (mkSeg ((signal a).map (fun x => (x.t - (f : Rat)) / 1000)) l0.pair.1 (truthOrigin a sel).1
          (truthOrigin a sel).2 ((p0.sxu : Rat) / 10000) ((p0.syu : Rat) / 10000))).flatMap
        (fun g => [g.y0, g.y1])) + 1).toNat,
      (maxList ((((selLines a sel).map LineRec.pair).map
        (mkSeg ((signal a).map (fun x => (x.t - (f : Rat)) / 1000)) l0.pair.1 (truthOrigin a sel).1
          (truthOrigin a sel).2 ((p0.sxu : Rat) / 10000) ((p0.syu : Rat) / 10000))).flatMap
        (fun g => [g.x0, g.x1])) + 1).toNat, H, hpairs, ?_, hspot0, ?_,
      origin_x a sel p0 H, origin_y a sel p0 H, hmem, ?_⟩
    · rw [hsl]; rfl
    · have g0 : [(p0.sxu : Rat) / 10000, (p0.syu : Rat) / 10000].getD 0 0 = (p0.sxu : Rat) / 10000 := rfl
      have g1 : [(p0.sxu : Rat) / 10000, (p0.syu : Rat) / 10000].getD 1 0 = (p0.syu : Rat) / 10000 := rfl
      unfold syncImage
      simp only [hshift, hlen, origin_x a sel p0 H, origin_y a sel p0 H, g0, g1, hw]
    · intro e he
      have := hbounds e he
      omega

/-- `sync (render a)` for every acquisition in the domain of the ground truth. -/
theorem sync_render_core (a : Acq) (sel : Option (List Int)) (isnan : Nat → Bool) (rd : Rendered)
    (hyp : truthHyp a sel = true) (hr : render a sel = some rd) :
    ∃ r, sync rd.rows sel rd.times rd.delay isnan false = .ok r ∧
      r.origin = truthOrigin a sel ∧
      (∃ p0, (selectedPatterns a sel).head? = some p0 ∧ r.spot = [(p0.sxu : Rat) / 10000, (p0.syu : Rat) / 10000]) ∧
      r.pixels = truthImage a sel r.height r.width ∧
      ∀ e ∈ truthCells a sel, 0 ≤ e.1 ∧ e.1 < (r.height : Int) ∧ 0 ≤ e.2.1 ∧ e.2.1 < (r.width : Int) := by
  obtain ⟨p0, prs, first, w, h, wd, H, hpairs, hhead, hspot, himg, hox, hoy, hmem, hbounds⟩ :=
    render_core a sel rd hyp hr
  have hok := sync_ok rd.rows sel rd.times rd.delay isnan prs first _ w hpairs hhead hspot (by rw [himg])
  refine ⟨_, hok, ?_, ⟨p0, H.head, rfl⟩, ?_, ?_⟩
  · simp only [hox, hoy]
  · simp only [himg]
    unfold truthImage
    apply List.map_congr_left
    intro r _
    apply List.map_congr_left
    intro c _
    exact lookup_eq_truth (truthCells a sel) w H.nodup hmem r c
  · simp only [himg]
    exact hbounds

/-- the same with `squeeze=True`: the result is the ground-truth image on a canvas that holds every
visited pixel, with the all-NaN rows and columns removed -/
theorem sync_render_squeeze_core (a : Acq) (sel : Option (List Int)) (isnan : Nat → Bool) (rd : Rendered)
    (hyp : truthHyp a sel = true) (hr : render a sel = some rd) :
    ∃ (r : Result) (h w : Nat), sync rd.rows sel rd.times rd.delay isnan true = .ok r ∧
      r.origin = truthOrigin a sel ∧
      (∃ p0, (selectedPatterns a sel).head? = some p0 ∧ r.spot = [(p0.sxu : Rat) / 10000, (p0.syu : Rat) / 10000]) ∧
      (∀ e ∈ truthCells a sel, 0 ≤ e.1 ∧ e.1 < (h : Int) ∧ 0 ≤ e.2.1 ∧ e.2.1 < (w : Int)) ∧
      r.pixels = (squeezeImg isnan w (truthImage a sel h w)).1 ∧
      r.width = (squeezeImg isnan w (truthImage a sel h w)).2 ∧ r.height = r.pixels.length := by
  obtain ⟨p0, prs, first, w, h, wd, H, hpairs, hhead, hspot, himg, hox, hoy, hmem, hbounds⟩ :=
    render_core a sel rd hyp hr
  have hok := sync_ok_squeeze rd.rows sel rd.times rd.delay isnan prs first _ w hpairs hhead hspot (by rw [himg])
  have hpix : (List.range h).map (fun (r : Nat) => (List.range wd).map (fun (c : Nat) =>
      lookupLast w ((r : Int), (c : Int)))) = truthImage a sel h wd := by
    unfold truthImage
    apply List.map_congr_left
    intro r _
    apply List.map_congr_left
    intro c _
    exact lookup_eq_truth (truthCells a sel) w H.nodup hmem r c
  refine ⟨_, h, wd, hok, ?_, ⟨p0, H.head, rfl⟩, hbounds, ?_, ?_, rfl⟩
  · simp only [hox, hoy]
  · simp only [himg, hpix]
  · simp only [himg, hpix]

end Pew.Sync
