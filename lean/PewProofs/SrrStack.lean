import PewProofs.Srr

/-! helper lemmas for C09: the reconstruction commutes with every pixelwise change of the cell type -/
namespace Pew.Srr
open Pew

theorem prepLayer_map {α β : Type} (f : α → β) (w : Int) (mag ax len0 len1 i : Nat) (l : Arr2 α) :
    prepLayer w mag ax len0 len1 i (l.map f) = (prepLayer w mag ax len0 len1 i l).map f := by
  unfold prepLayer
  simp only [Arr2.map, Arr2.sliceCols, Arr2.slice, Arr2.rep, Arr2.T]
  split_ifs <;> rfl

theorem ite_map_aux {γ δ : Type} (g : γ → δ) (b1 b2 : Bool) (a1 : δ) (a2 : γ) (hb : b1 = b2) (ha : a1 = g a2) :
    (if b1 = true then some a1 else none) = Option.map g (if b2 = true then some a2 else none) := by
  subst hb ha
  cases b1 <;> rfl

theorem aligned_map {α β : Type} (f : α → β) (z : α) (c : SrrConfig) (m : Rat) (layers : List (Arr2 α)) :
    aligned (f z) c m (layers.map (Arr2.map f)) = (aligned z c m layers).map (Arr3.map f) := by
  unfold aligned
  simp only [List.getElem?_map, List.length_map]
  cases h0 : layers[0]? with
  | none => simp
  | some d0 =>
    cases h1 : layers[1]? with
    | none => simp
    | some d1 =>
      simp only [Option.map_some]
      have hd0 : ∀ ax, (Arr2.map f d0).dim ax = d0.dim ax := fun ax => rfl
      have hd1 : ∀ ax, (Arr2.map f d1).dim ax = d1.dim ax := fun ax => rfl
      simp only [hd0, hd1]
      refine ite_map_aux _ _ _ _ _ ?_ ?_
      · congr 1
        funext i
        cases layers[i]? with
        | none => rfl
        | some l => simp only [Option.map_some, prepLayer_map]; rfl
      · simp only [Arr3.map]
        congr 1
        funext r cc i
        cases layers[i]? with
        | none => rfl
        | some l => simp only [Option.map_some, prepLayer_map]; rfl

theorem subpixelOffset_map {α β : Type} (f : α → β) (z : α) (x : Arr3 α) (offs : List (Nat × Nat)) (ps : Nat × Nat) :
    subpixelOffset (f z) (x.map f) offs ps = (subpixelOffset z x offs ps).map (Arr3.map f) := by
  unfold subpixelOffset
  simp only [Arr3.map]
  by_cases he : (effOffsets offs).isEmpty = true
  · simp [he]
  · simp only [he]
    refine ite_map_aux _ _ _ _ _ rfl ?_
    simp only [Arr3.map]
    congr 1
    funext r cc i
    exact (apply_ite f _ _ _).symm

/-- the whole reconstruction commutes with a pixelwise map of the cells -/
theorem krisskross_map_aux {α β : Type} (f : α → β) (z : α) (c : SrrConfig) (m : Rat) (layers : List (Arr2 α)) :
    krisskross (f z) c m (layers.map (Arr2.map f)) = (krisskross z c m layers).map (Arr3.map f) := by
  unfold krisskross
  rw [aligned_map]
  cases aligned z c m layers with
  | none => rfl
  | some a => simp only [Option.map_some]; exact subpixelOffset_map f z a _ _

/-! ### pixels of a structured stack -/

theorem fieldOf_appendField_lt (n e : Nat) (px : List Int) (v : Int) (h : e < n) :
    fieldOf e (appendField n px v) = fieldOf e px := by
  simp [fieldOf, appendField, List.getD_eq_getElem?_getD, List.getElem?_append_left, h]

theorem fieldOf_appendField_eq (n : Nat) (px : List Int) (v : Int) : fieldOf n (appendField n px v) = v := by
  simp [fieldOf, appendField, List.getD_eq_getElem?_getD]

theorem pickIdx_zero (keep : List Nat) (n : Nat) : pickIdx keep (zeroPx n) = zeroPx keep.length := by
  simp only [pickIdx, zeroPx]
  rw [List.eq_replicate_iff]
  refine ⟨by simp, ?_⟩
  intro b hb
  obtain ⟨i, _, rfl⟩ := List.mem_map.mp hb
  simp only [List.getD_eq_getElem?_getD, List.getElem?_replicate]
  split <;> rfl

theorem filterMap_getElem?_length {α : Type} (fs : List α) (l : List Nat) (h : ∀ i ∈ l, i < fs.length) :
    (l.filterMap (fun i => fs[i]?)).length = l.length := by
  induction l with
  | nil => rfl
  | cons a t ih =>
    have ha : a < fs.length := h a (by simp)
    rw [List.filterMap_cons, List.getElem?_eq_getElem ha]
    simp only [List.length_cons]
    rw [ih (fun i hi => h i (by simp [hi]))]

theorem keepIdx_lt (fields : List (String × String)) (names : List String) : ∀ i ∈ keepIdx fields names, i < fields.length := by
  intro i hi
  simp only [keepIdx, List.mem_filter, List.mem_range] at hi
  exact hi.1

end Pew.Srr
