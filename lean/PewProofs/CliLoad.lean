import PewProofs.Cli

/-! # C20 — helper lemmas about loading (`load`, lines 13-72) -/
namespace Pew.Cli

/-! ## the Agilent method loop -/

@[simp] theorem isOther_ok {α} (a : α) : (Outcome.ok a).isOther = false := rfl
@[simp] theorem isOther_ve {α} : (Outcome.valueError : Outcome α).isOther = false := rfl
@[simp] theorem isOther_other {α} : (Outcome.otherError : Outcome α).isOther = true := rfl
@[simp] theorem isVE_ok {α} (a : α) : (Outcome.ok a).isValueError = false := rfl
@[simp] theorem isVE_ve {α} : (Outcome.valueError : Outcome α).isValueError = true := rfl
@[simp] theorem isVE_other {α} : (Outcome.otherError : Outcome α).isValueError = false := rfl
@[simp] theorem okOf_ok {α β} (l : α) (a : β) : okOf (l, Outcome.ok a) = some (l, a) := rfl
@[simp] theorem okOf_ve {α β} (l : α) : okOf (l, (Outcome.valueError : Outcome β)) = none := rfl
@[simp] theorem okOf_other {α β} (l : α) : okOf (l, (Outcome.otherError : Outcome β)) = none := rfl

theorem getLast?_cons_or {α} (a : α) (l : List α) (d : Option α) :
    ((a :: l).getLast?).or d = (l.getLast?).or (some a) := by
  cases l with
  | nil => simp
  | cons b t =>
    rw [List.getLast?_cons_cons]
    cases h : (b :: t).getLast? with
    | none => simp at h
    | some x => simp

/-- the outcomes of the calls of the loop -/
abbrev attempts (s : Source) (ms : List (List String)) : List (Loader × Outcome Loaded) :=
  ms.map fun m => (Loader.agilent m, s.call (.agilent m))

/-- the loop from any point on, in terms of the outcomes of the calls still to be made: with a
working `load_info` the first call that does not end in a `ValueError` decides; with one that raises
`ValueError` every call is made and the last success (or what was in hand) stays; with one that
fails otherwise the first success is followed by that failure -/
theorem agilentLoop_eq (s : Source) (ms : List (List String)) (data : Option (Loader × Loaded)) :
    agilentLoop s ms data =
      match s.info with
      | .valueError =>
        if (attempts s ms).any (·.2.isOther) then .error .crash
        else .ok (((attempts s ms).filterMap okOf).getLast?.or data)
      | .ok _ =>
        match (attempts s ms).find? (fun o => !o.2.isValueError) with
        | none => .ok data
        | some o =>
          match o.2 with
          | .ok a => .ok (some (o.1, a))
          | _ => .error .crash
      | .otherError =>
        match (attempts s ms).find? (fun o => !o.2.isValueError) with
        | none => .ok data
        | some _ => .error .crash := by
  induction ms generalizing data with
  | nil => cases s.info <;> simp [agilentLoop]
  | cons m ms ih =>
    simp only [agilentLoop, attempts, List.map_cons, List.any_cons, List.find?_cons, List.filterMap_cons]
    cases hc : s.call (.agilent m) with
    | ok x =>
      cases hi : s.info with
      | ok u => simp
      | otherError => simp
      | valueError =>
        simp only [isOther_ok, Bool.false_or, okOf_ok]
        rw [ih, hi]
        simp only [attempts]
        split
        · rfl
        · rw [getLast?_cons_or]
    | valueError =>
      rw [ih]
      cases s.info <;> simp
    | otherError =>
      cases s.info <;> simp

/-! ## suffix tests -/

theorem beq_str (a b : String) : (a == b) = decide (a = b) := by
  by_cases h : a = b <;> simp [h]

/-! ## the configuration overlay -/

theorem configOf_eq (a b c : Tok) (p : Params) : configOf a b c p = configSpec a b c p := by
  obtain ⟨sp, v, t⟩ := p
  unfold configOf overlay configSpec MemCfg.stored
  cases sp with
  | none => cases v <;> cases t <;> rfl
  | some x => cases x <;> cases v <;> cases t <;> rfl


/-! ## the table -/

theorem guards_exclusive (s : Source) :
    ([isAgilentBatch s, isPerkinDir s, isCsvDir s, isNpzFile s, isThermoCsv s, isTextImage s].filter id).length ≤ 1 := by
  unfold isAgilentBatch isPerkinDir isCsvDir isNpzFile isThermoCsv isTextImage
  have hsn : sniffIs s (fun f => !isThermo f) = true → sniffIs s isThermo = false := by
    unfold sniffIs; cases s.sniff <;> simp
  revert hsn
  generalize s.sfx = x
  generalize sniffIs s isThermo = t
  generalize sniffIs s (fun f => !isThermo f) = u
  intro hsn
  cases s.isDir
  · cases t <;> cases u <;> by_cases h2 : x = ".npz" <;> by_cases h3 : x = ".csv" <;>
      by_cases h4 : x = ".txt" <;> by_cases h5 : x = ".text" <;> simp_all [beq_str]
  · cases s.perkinValid <;> cases s.csvValid <;> by_cases h1 : x = ".b" <;> simp_all [beq_str]

theorem choose_single {α} (u : Unit) (ld : Loader) (o : Outcome α) :
    choose (.ok u) [(ld, o)] = match o with
      | .ok a => .ok (ld, a)
      | .valueError => .error .usage
      | .otherError => .error .crash := by
  cases o <;> simp [choose]

theorem image_call (d : Tok × Tok × Tok) (s : Source) (ld : Loader) (h : ld ≠ .npz) :
    s.image d ld = match s.call ld with
      | .ok x => .ok (x.toLaser (configSpec d.1 d.2.1 d.2.2))
      | .valueError => .valueError
      | .otherError => .otherError := by
  cases ld <;> first | rfl | exact absurd rfl h

theorem callOnce_spec (d : Tok × Tok × Tok) (s : Source) (ld : Loader) (h : ld ≠ .npz) :
    (callOnce s ld).map (fun x => (x.1, x.2.toLaser (configOf d.1 d.2.1 d.2.2)))
      = choose (.ok ()) [(ld, s.image d ld)] := by
  have hcfg : configOf d.1 d.2.1 d.2.2 = configSpec d.1 d.2.1 d.2.2 := funext (configOf_eq _ _ _)
  rw [choose_single, image_call d s ld h, hcfg]
  unfold callOnce
  cases s.call ld <;> rfl

theorem filter_table (s : Source) :
    table.filter (·.guard s) =
      (if isAgilentBatch s then [rowAgilent] else []) ++ (if isPerkinDir s then [rowPerkin] else []) ++
      (if isCsvDir s then [rowCsvDir] else []) ++ (if isNpzFile s then [rowNpz] else []) ++
      (if isThermoCsv s then [rowThermo] else []) ++ (if isTextImage s then [rowText] else []) := by
  have e1 : rowAgilent.guard s = isAgilentBatch s := rfl
  have e2 : rowPerkin.guard s = isPerkinDir s := rfl
  have e3 : rowCsvDir.guard s = isCsvDir s := rfl
  have e4 : rowNpz.guard s = isNpzFile s := rfl
  have e5 : rowThermo.guard s = isThermoCsv s := rfl
  have e6 : rowText.guard s = isTextImage s := rfl
  simp only [table, List.filter_cons, List.filter_nil, e1, e2, e3, e4, e5, e6]
  by_cases h1 : isAgilentBatch s = true <;> by_cases h2 : isPerkinDir s = true <;>
    by_cases h3 : isCsvDir s = true <;> by_cases h4 : isNpzFile s = true <;>
    by_cases h5 : isThermoCsv s = true <;> by_cases h6 : isTextImage s = true <;>
    simp [h1, h2, h3, h4, h5, h6]

theorem choose_agilent (d : Tok × Tok × Tok) (s : Source) :
    (match agilentLoop s agilentMethods none with
      | .error e => .error e
      | .ok none => .error .usage
      | .ok (some x) => .ok (x.1, x.2.toLaser (configOf d.1 d.2.1 d.2.2)))
      = choose s.info ((agilentMethods.map Loader.agilent).map fun ld => (ld, s.image d ld)) := by
  have hcfg : configOf d.1 d.2.1 d.2.2 = configSpec d.1 d.2.1 d.2.2 := funext (configOf_eq _ _ _)
  rw [agilentLoop_eq, hcfg]
  simp only [agilentMethods, attempts, List.map_cons, List.map_nil, Source.image]
  cases s.info <;> cases s.call (.agilent ["batch_xml", "batch_csv"]) <;>
    cases s.call (.agilent ["acq_method_xml"]) <;> rfl


theorem okOf_some {α β} (o : α × Outcome β) (x : α × β) (h : okOf o = some x) : o = (x.1, .ok x.2) := by
  obtain ⟨l, oc⟩ := o
  cases oc <;> simp [okOf] at h
  subst h; rfl

theorem choose_ok_mem {α} (info : Outcome Unit) (os : List (Loader × Outcome α)) (ld : Loader) (a : α)
    (h : choose info os = .ok (ld, a)) : (ld, Outcome.ok a) ∈ os := by
  unfold choose at h
  cases info with
  | valueError =>
    simp only at h
    split at h
    · cases h
    · split at h
      · rename_i x hx
        cases h
        have hm := List.mem_of_getLast? hx
        obtain ⟨o, ho, hok⟩ := List.mem_filterMap.mp hm
        rw [okOf_some o _ hok] at ho
        exact ho
      · cases h
  | ok u =>
    simp only at h
    split at h
    · cases h
    · rename_i o ho
      have hm := List.mem_of_find?_eq_some ho
      obtain ⟨l, oc⟩ := o
      cases oc with
      | ok a' => simp only [Except.ok.injEq, Prod.mk.injEq] at h; obtain ⟨rfl, rfl⟩ := h; exact hm
      | valueError => cases h
      | otherError => cases h
  | otherError =>
    simp only at h
    split at h <;> cases h

end Pew.Cli
