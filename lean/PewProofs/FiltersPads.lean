import PewProofs.Filters

/-! helper lemmas for C13: the median filter with the pad statistics left open (`π1` pads the image, `π2` the
deviations).  The statements and proofs are those of `PewProofs/Filters.lean` for `π1 = π2 = median`, with the
pad statistic as a parameter: an interior pixel never sees a pad value. -/
namespace Pew.Filters

def mediansP1 (π : List Rat → Rat) (b : Nat) (x : List Rat) : List Rat :=
  (windows1 b (pad1 π (b / 2) x)).map median

def diffsP1 (π : List Rat → Rat) (b : Nat) (x : List Rat) : List Rat :=
  List.zipWith (fun xi m => absR (xi - m)) x (mediansP1 π b x)

def madsP1 (π1 π2 : List Rat → Rat) (b : Nat) (x : List Rat) : List Rat :=
  (windows1 b (pad1 π2 (b / 2) (diffsP1 π1 b x))).map (fun w => median w * madK)

theorem medianCellsP1_eq (π1 π2 : List Rat → Rat) (b : Nat) (x : List Rat) :
    medianCellsP1 π1 π2 b x = zip3With (fun xi m s => { x := xi, d := absR (xi - m), s := s, repl := m })
      x (mediansP1 π1 b x) (madsP1 π1 π2 b x) := rfl

def mediansP2 (π : List Rat → Rat) (b0 b1 : Nat) (x : List (List Rat)) : List (List Rat) :=
  (windows2 b0 b1 (pad2 π (b0 / 2) (b1 / 2) x)).map (fun r => r.map (fun w => median w.flatten))

def diffsP2 (π : List Rat → Rat) (b0 b1 : Nat) (x : List (List Rat)) : List (List Rat) :=
  List.zipWith (fun row mrow => List.zipWith (fun xi m => absR (xi - m)) row mrow) x (mediansP2 π b0 b1 x)

def madsP2 (π1 π2 : List Rat → Rat) (b0 b1 : Nat) (x : List (List Rat)) : List (List Rat) :=
  (windows2 b0 b1 (pad2 π2 (b0 / 2) (b1 / 2) (diffsP2 π1 b0 b1 x))).map
    (fun r => r.map (fun w => median w.flatten * madK))

theorem medianCellsP2_eq (π1 π2 : List Rat → Rat) (b0 b1 : Nat) (x : List (List Rat)) :
    medianCellsP2 π1 π2 b0 b1 x = zip3With (fun row mrow srow =>
      zip3With (fun xi m s => ({ x := xi, d := absR (xi - m), s := s, repl := m } : Cell)) row mrow srow)
    x (mediansP2 π1 b0 b1 x) (madsP2 π1 π2 b0 b1 x) := rfl

theorem mediansP1_length (π1 π2 : List Rat → Rat) (h : Nat) (x : List Rat) : (mediansP1 π1 (2 * h + 1) x).length = x.length := by
  unfold mediansP1
  rw [half_odd, List.length_map, windows1_length, pad1_length]; omega

theorem diffsP1_length (π1 π2 : List Rat → Rat) (h : Nat) (x : List Rat) : (diffsP1 π1 (2 * h + 1) x).length = x.length := by
  simp [diffsP1, mediansP1_length π1 π2]

theorem madsP1_length (π1 π2 : List Rat → Rat) (h : Nat) (x : List Rat) : (madsP1 π1 π2 (2 * h + 1) x).length = x.length := by
  unfold madsP1
  rw [half_odd, List.length_map, windows1_length, pad1_length, diffsP1_length π1 π2]; omega

theorem getElem?_mediansP1 (π1 π2 : List Rat → Rat) (h : Nat) (x : List Rat) (i : Nat) (hi : i < x.length) :
    (mediansP1 π1 (2 * h + 1) x)[i]? = some (median (slice i (2 * h + 1) (pad1 π1 h x))) := by
  unfold mediansP1
  rw [half_odd, List.getElem?_map, getElem?_windows1 _ _ _ (by rw [pad1_length]; omega)]
  rfl

theorem getElem?_diffsP1 (π1 π2 : List Rat → Rat) (h : Nat) (x : List Rat) (i : Nat) (hi : i < x.length) :
    (diffsP1 π1 (2 * h + 1) x)[i]? =
      some (absR (x[i] - median (slice i (2 * h + 1) (pad1 π1 h x)))) := by
  unfold diffsP1
  rw [List.getElem?_zipWith, getElem?_mediansP1 π1 π2 h x i hi]
  simp [hi]

theorem getElem?_madsP1 (π1 π2 : List Rat → Rat) (h : Nat) (x : List Rat) (i : Nat) (hi : i < x.length) :
    (madsP1 π1 π2 (2 * h + 1) x)[i]? =
      some (median (slice i (2 * h + 1) (pad1 π2 h (diffsP1 π1 (2 * h + 1) x))) * madK) := by
  unfold madsP1
  rw [half_odd, List.getElem?_map,
    getElem?_windows1 _ _ _ (by rw [pad1_length, diffsP1_length π1 π2]; omega)]
  rfl

theorem getElem?_medianCellsP1 (π1 π2 : List Rat → Rat) (h : Nat) (x : List Rat) (i : Nat) (hi : i < x.length) :
    (medianCellsP1 π1 π2 (2 * h + 1) x)[i]? = some
      { x := x[i]
        d := absR (x[i] - median (slice i (2 * h + 1) (pad1 π1 h x)))
        s := median (slice i (2 * h + 1) (pad1 π2 h (diffsP1 π1 (2 * h + 1) x))) * madK
        repl := median (slice i (2 * h + 1) (pad1 π1 h x)) } := by
  rw [medianCellsP1_eq]
  rw [getElem?_zip3With, getElem?_mediansP1 π1 π2 h x i hi, getElem?_madsP1 π1 π2 h x i hi]
  simp [hi]

theorem diffsP1_interior (π1 π2 : List Rat → Rat) (h k : Nat) (x : List Rat) (hk : h ≤ k) (hn : k + h < x.length) :
    (diffsP1 π1 (2 * h + 1) x)[k]? = some (diffAt1 h x k) := by
  have hlt : k < x.length := by omega
  have hw : slice k (2 * h + 1) (pad1 π1 h x) = slice (k - h) (2 * h + 1) x :=
    slice_padEnds_interior h (2 * h + 1) k _ _ x hk (by omega)
  rw [getElem?_diffsP1 π1 π2 h x k hlt, hw]
  simp [diffAt1, medAt1, at1_eq x k hlt]

theorem medianCellsP1_interior (π1 π2 : List Rat → Rat) (h i : Nat) (x : List Rat) (hi : 2 * h ≤ i) (hn : i + 2 * h < x.length) :
    (medianCellsP1 π1 π2 (2 * h + 1) x)[i]? = some (specMedianCell1 h x i) := by
  have hlt : i < x.length := by omega
  have hw : slice i (2 * h + 1) (pad1 π1 h x) = slice (i - h) (2 * h + 1) x :=
    slice_padEnds_interior h (2 * h + 1) i _ _ x (by omega) (by omega)
  have hd : slice i (2 * h + 1) (pad1 π2 h (diffsP1 π1 (2 * h + 1) x))
      = (List.range (2 * h + 1)).map (fun k => diffAt1 h x (i - h + k)) := by
    have : slice i (2 * h + 1) (pad1 π2 h (diffsP1 π1 (2 * h + 1) x))
        = slice (i - h) (2 * h + 1) (diffsP1 π1 (2 * h + 1) x) :=
      slice_padEnds_interior h (2 * h + 1) i _ _ _ (by omega) (by rw [diffsP1_length π1 π2]; omega)
    rw [this]
    apply List.ext_getElem?
    intro k
    rw [getElem?_slice, List.getElem?_map]
    by_cases hk : k < 2 * h + 1
    · rw [if_pos hk, List.getElem?_range hk, diffsP1_interior π1 π2 h (i - h + k) x (by omega) (by omega)]
      rfl
    · rw [if_neg hk, List.getElem?_eq_none (by simp; omega)]
      rfl
  rw [getElem?_medianCellsP1 π1 π2 h x i hlt, hw, hd]
  simp [specMedianCell1, diffAt1, medAt1, at1_eq x i hlt]

theorem mediansP2_eq (π1 π2 : List Rat → Rat) (h0 h1 : Nat) (x : List (List Rat)) :
    mediansP2 π1 (2 * h0 + 1) (2 * h1 + 1) x = winmap2 π1 (fun w => median w.flatten) h0 h1 x := by
  unfold mediansP2 winmap2; rw [half_odd, half_odd]

theorem madsP2_eq (π1 π2 : List Rat → Rat) (h0 h1 : Nat) (x : List (List Rat)) :
    madsP2 π1 π2 (2 * h0 + 1) (2 * h1 + 1) x
      = winmap2 π2 (fun w => median w.flatten * madK) h0 h1 (diffsP2 π1 (2 * h0 + 1) (2 * h1 + 1) x) := by
  unfold madsP2 winmap2; rw [half_odd, half_odd]

theorem diffsP2_shape (π1 π2 : List Rat → Rat) (h0 h1 n1 : Nat) (x : List (List Rat)) (hrect : ∀ r ∈ x, r.length = n1) :
    (diffsP2 π1 (2 * h0 + 1) (2 * h1 + 1) x).length = x.length ∧
    ∀ r ∈ diffsP2 π1 (2 * h0 + 1) (2 * h1 + 1) x, r.length = n1 := by
  obtain ⟨hl, hr⟩ := winmap2_shape π1 (fun w => median w.flatten) h0 h1 n1 x hrect
  rw [← mediansP2_eq π1 π2] at hl hr
  constructor
  · simp [diffsP2, hl]
  · intro r hr'
    obtain ⟨i, hi, rfl⟩ := List.getElem_of_mem hr'
    unfold diffsP2 at hi ⊢
    rw [List.length_zipWith] at hi
    simp only [List.getElem_zipWith, List.length_zipWith]
    rw [hrect _ (List.getElem_mem (by omega)), hr _ (List.getElem_mem (by omega))]
    simp

theorem getElem?_diffsP2 (π1 π2 : List Rat → Rat) (h0 h1 n1 : Nat) (x : List (List Rat)) (hrect : ∀ r ∈ x, r.length = n1)
    (i j : Nat) (hi : i < x.length) (hj : j < n1) :
    ((diffsP2 π1 (2 * h0 + 1) (2 * h1 + 1) x)[i]?).bind (fun r => r[j]?)
      = some (absR (at2 x i j
          - median (window2 i j (2 * h0 + 1) (2 * h1 + 1) (pad2 π1 h0 h1 x)).flatten)) := by
  have hm := getElem?_winmap2 π1 (fun w => median w.flatten) h0 h1 n1 x hrect i j hi hj
  rw [← mediansP2_eq π1 π2] at hm
  have hlen : x[i].length = n1 := hrect _ (List.getElem_mem hi)
  unfold diffsP2
  rw [List.getElem?_zipWith]
  cases hc : (mediansP2 π1 (2 * h0 + 1) (2 * h1 + 1) x)[i]? with
  | none => rw [hc] at hm; simp at hm
  | some mrow =>
    rw [hc] at hm
    simp only [Option.bind_some] at hm
    simp only [List.getElem?_eq_getElem hi, Option.bind_some, Option.map_some, List.getElem?_zipWith, hm]
    rw [List.getElem?_eq_getElem (by omega)]
    simp [at2_eq x i j hi (by omega)]

theorem getElem?_medianCellsP2 (π1 π2 : List Rat → Rat) (h0 h1 n1 : Nat) (x : List (List Rat)) (hrect : ∀ r ∈ x, r.length = n1)
    (i j : Nat) (hi : i < x.length) (hj : j < n1) :
    ((medianCellsP2 π1 π2 (2 * h0 + 1) (2 * h1 + 1) x)[i]?).bind (fun r => r[j]?) = some
      { x := at2 x i j
        d := absR (at2 x i j - median (window2 i j (2 * h0 + 1) (2 * h1 + 1) (pad2 π1 h0 h1 x)).flatten)
        s := median (window2 i j (2 * h0 + 1) (2 * h1 + 1)
              (pad2 π2 h0 h1 (diffsP2 π1 (2 * h0 + 1) (2 * h1 + 1) x))).flatten * madK
        repl := median (window2 i j (2 * h0 + 1) (2 * h1 + 1) (pad2 π1 h0 h1 x)).flatten } := by
  have hm := getElem?_winmap2 π1 (fun w => median w.flatten) h0 h1 n1 x hrect i j hi hj
  rw [← mediansP2_eq π1 π2] at hm
  obtain ⟨dl, dr⟩ := diffsP2_shape π1 π2 h0 h1 n1 x hrect
  have hs := getElem?_winmap2 π2 (fun w => median w.flatten * madK) h0 h1 n1
    (diffsP2 π1 (2 * h0 + 1) (2 * h1 + 1) x) dr i j (by omega) hj
  rw [← madsP2_eq π1 π2] at hs
  have hlen : x[i].length = n1 := hrect _ (List.getElem_mem hi)
  rw [medianCellsP2_eq]
  rw [getElem?_zip3With]
  cases hc : (mediansP2 π1 (2 * h0 + 1) (2 * h1 + 1) x)[i]? with
  | none => rw [hc] at hm; simp at hm
  | some mrow =>
    cases hd : (madsP2 π1 π2 (2 * h0 + 1) (2 * h1 + 1) x)[i]? with
    | none => rw [hd] at hs; simp at hs
    | some srow =>
      rw [hc] at hm; rw [hd] at hs
      simp only [Option.bind_some] at hm hs
      simp only [List.getElem?_eq_getElem hi, Option.bind_some, Option.map_some, getElem?_zip3With, hm, hs]
      rw [List.getElem?_eq_getElem (by omega)]
      simp [at2_eq x i j hi (by omega)]

theorem diffsP2_interior (π1 π2 : List Rat → Rat) (h0 h1 n1 : Nat) (x : List (List Rat)) (hrect : ∀ r ∈ x, r.length = n1)
    (r c : Nat) (hr0 : h0 ≤ r) (hr1 : r + h0 < x.length) (hc0 : h1 ≤ c) (hc1 : c + h1 < n1) :
    ((diffsP2 π1 (2 * h0 + 1) (2 * h1 + 1) x)[r]?).bind (fun q => q[c]?) = some (diffAt2 h0 h1 x r c) := by
  rw [getElem?_diffsP2 π1 π2 h0 h1 n1 x hrect r c (by omega) (by omega),
    window2_interior π1 h0 h1 r c n1 x hrect hr0 hr1 hc0 hc1]
  rfl

theorem medianCellsP2_interior (π1 π2 : List Rat → Rat) (h0 h1 i j n1 : Nat) (x : List (List Rat))
    (hrect : ∀ r ∈ x, r.length = n1)
    (hi : 2 * h0 ≤ i) (hn : i + 2 * h0 < x.length) (hj : 2 * h1 ≤ j) (hm : j + 2 * h1 < n1) :
    ((medianCellsP2 π1 π2 (2 * h0 + 1) (2 * h1 + 1) x)[i]?).bind (fun r => r[j]?)
      = some (specMedianCell2 h0 h1 x i j) := by
  obtain ⟨dl, dr⟩ := diffsP2_shape π1 π2 h0 h1 n1 x hrect
  have hmad : window2 i j (2 * h0 + 1) (2 * h1 + 1)
        (pad2 π2 h0 h1 (diffsP2 π1 (2 * h0 + 1) (2 * h1 + 1) x))
      = (List.range (2 * h0 + 1)).map (fun r =>
          (List.range (2 * h1 + 1)).map (fun c => diffAt2 h0 h1 x (i - h0 + r) (j - h1 + c))) := by
    rw [window2_interior π2 h0 h1 i j n1 _ dr (by omega) (by omega) (by omega) (by omega)]
    apply List.ext_getElem?
    intro r
    rw [List.getElem?_map, getElem?_slice, List.getElem?_map]
    by_cases hr : r < 2 * h0 + 1
    · have hlt : i - h0 + r < (diffsP2 π1 (2 * h0 + 1) (2 * h1 + 1) x).length := by omega
      rw [if_pos hr, List.getElem?_range hr, List.getElem?_eq_getElem hlt, Option.map_some, Option.map_some]
      congr 1
      apply List.ext_getElem?
      intro c
      rw [getElem?_slice, List.getElem?_map]
      by_cases hc : c < 2 * h1 + 1
      · have := diffsP2_interior π1 π2 h0 h1 n1 x hrect (i - h0 + r) (j - h1 + c)
          (by omega) (by omega) (by omega) (by omega)
        rw [List.getElem?_eq_getElem hlt, Option.bind_some] at this
        rw [if_pos hc, List.getElem?_range hc, this]
        rfl
      · rw [if_neg hc, List.getElem?_eq_none (by simp; omega)]
        rfl
    · rw [if_neg hr, List.getElem?_eq_none (by simp; omega)]
      rfl
  rw [getElem?_medianCellsP2 π1 π2 h0 h1 n1 x hrect i j (by omega) (by omega), hmad,
    window2_interior π1 h0 h1 i j n1 x hrect (by omega) (by omega) (by omega) (by omega)]
  rfl

end Pew.Filters
