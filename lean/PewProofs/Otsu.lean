import PewModel.Otsu
import Mathlib.Tactic.Linarith
import Mathlib.Tactic.Ring
import Mathlib.Tactic.FieldSimp
import Mathlib.Tactic.Positivity
import Mathlib.Algebra.Order.Field.Rat
import Mathlib.Algebra.Order.Floor.Ring

/-! helper lemmas for C15 (Otsu) -/
namespace Pew.Otsu

@[simp] theorem sumR_nil : sumR [] = 0 := rfl
@[simp] theorem sumR_cons (a : Rat) (l : List Rat) : sumR (a :: l) = a + sumR l := rfl

theorem sumR_append (l₁ l₂ : List Rat) : sumR (l₁ ++ l₂) = sumR l₁ + sumR l₂ := by
  induction l₁ with
  | nil => simp
  | cons a l ih => simp [ih]; ring

theorem sumR_reverse (l : List Rat) : sumR l.reverse = sumR l := by
  induction l with
  | nil => rfl
  | cons a l ih => simp [sumR_append, ih]; ring

theorem sumR_map_mul (c : Rat) (l : List Rat) : sumR (l.map (c * ·)) = c * sumR l := by
  induction l with
  | nil => simp
  | cons a l ih => simp [ih]; ring

@[simp] theorem cumsum_length (l : List Rat) : (cumsum l).length = l.length := by
  induction l with
  | nil => rfl
  | cons a l ih => simp [cumsum, ih]

theorem cumsum_getElem? (l : List Rat) (i : Nat) (h : i < l.length) :
    (cumsum l)[i]? = some (sumR (l.take (i + 1))) := by
  induction l generalizing i with
  | nil => simp at h
  | cons a l ih =>
    cases i with
    | zero => simp [cumsum]
    | succ i =>
      have hi : i < l.length := by simpa using h
      simp [cumsum, ih i hi]

/-- backward cumulative sums: `np.cumsum(a[::-1])[::-1]` -/
def rcum (l : List Rat) : List Rat := (cumsum l.reverse).reverse

@[simp] theorem rcum_length (l : List Rat) : (rcum l).length = l.length := by simp [rcum]

theorem rcum_getElem? (l : List Rat) (j : Nat) (h : j < l.length) :
    (rcum l)[j]? = some (sumR (l.drop j)) := by
  unfold rcum
  rw [List.getElem?_reverse (by simpa using h)]
  simp only [cumsum_length, List.length_reverse]
  rw [cumsum_getElem? _ _ (by simp; omega)]
  rw [List.take_reverse, sumR_reverse]
  congr 3
  omega

theorem critList_length (hist : List Nat) (cs : List Rat) (hc : cs.length = hist.length) :
    (critList hist cs).length = hist.length - 1 := by
  simp [critList, hc]

/-- the cumulative-sum alignment: entry `i` of the criterion array is the between-class
criterion of the cut "bins ≤ i | bins > i" -/
theorem critList_getElem? (hist : List Nat) (cs : List Rat) (hc : cs.length = hist.length)
    (i : Nat) (hi : i + 1 < hist.length) :
    (critList hist cs)[i]? = some (specCrit hist cs i) := by
  unfold critList specCrit
  simp only
  generalize hh : hist.map (fun (k : Nat) => (k : Rat)) = h
  have hlen : h.length = hist.length := by rw [← hh]; simp
  generalize hz : List.zipWith (· * ·) h cs = z
  have zlen : z.length = hist.length := by rw [← hz]; simp [hlen, hc]
  have e2 : (List.zipWith (· / ·) (cumsum z.reverse) (cumsum h.reverse).reverse.reverse).reverse
      = List.zipWith (· / ·) (rcum z) (rcum h) := by
    rw [List.reverse_zipWith (by simp [zlen, hlen])]
    simp [rcum]
  rw [e2]
  change (List.zipWith (fun a d => a * d ^ 2)
      (List.zipWith (· * ·) (cumsum h) (rcum h).tail)
      (List.zipWith (· - ·) (List.zipWith (· / ·) (cumsum z) (cumsum h))
        (List.zipWith (· / ·) (rcum z) (rcum h)).tail))[i]? = _
  simp only [List.getElem?_zipWith, List.getElem?_tail]
  rw [cumsum_getElem? h i (by omega), cumsum_getElem? z i (by omega),
    rcum_getElem? h (i + 1) (by omega), rcum_getElem? z (i + 1) (by omega)]

theorem specCritList_length (hist : List Nat) (cs : List Rat) :
    (specCritList hist cs).length = hist.length - 1 := by simp [specCritList]

theorem critList_eq_spec (hist : List Nat) (cs : List Rat) (hc : cs.length = hist.length) :
    critList hist cs = specCritList hist cs := by
  apply List.ext_getElem?
  intro i
  by_cases hi : i + 1 < hist.length
  · rw [critList_getElem? hist cs hc i hi]
    simp [specCritList, List.getElem?_range (show i < hist.length - 1 by omega)]
  · have h1 : (critList hist cs).length ≤ i := by rw [critList_length hist cs hc]; omega
    have h2 : (specCritList hist cs).length ≤ i := by rw [specCritList_length]; omega
    rw [List.getElem?_eq_none h1, List.getElem?_eq_none h2]

/-! ### argmax -/

theorem argmaxFirst_spec : ∀ (l : List Rat), l ≠ [] →
    argmaxFirst l < l.length ∧
    ∀ j, j < l.length → l.getD j 0 ≤ l.getD (argmaxFirst l) 0 ∧
      (j < argmaxFirst l → l.getD j 0 < l.getD (argmaxFirst l) 0)
  | [], h => absurd rfl h
  | [a], _ => by
    refine ⟨by simp [argmaxFirst], ?_⟩
    intro j hj
    have : j = 0 := by simpa using hj
    subst this
    simp [argmaxFirst]
  | a :: b :: l, _ => by
    obtain ⟨hlt, hmax⟩ := argmaxFirst_spec (b :: l) (by simp)
    simp only [argmaxFirst]
    generalize argmaxFirst (b :: l) = r at *
    by_cases hc : a < (b :: l).getD r 0
    · simp only [hc, if_true]
      refine ⟨by simpa using hlt, ?_⟩
      intro j hj
      cases j with
      | zero =>
        simp only [List.getD_cons_zero, List.getD_cons_succ]
        exact ⟨le_of_lt hc, fun _ => hc⟩
      | succ j =>
        have hj' : j < (b :: l).length := by simpa using hj
        simp only [List.getD_cons_succ]
        obtain ⟨h1, h2⟩ := hmax j hj'
        exact ⟨h1, fun h => h2 (by omega)⟩
    · simp only [hc, if_false]
      refine ⟨by simp, ?_⟩
      intro j hj
      have hle : (b :: l).getD r 0 ≤ a := not_lt.mp hc
      cases j with
      | zero => simp
      | succ j =>
        have hj' : j < (b :: l).length := by simpa using hj
        simp only [List.getD_cons_succ, List.getD_cons_zero]
        exact ⟨le_trans (hmax j hj').1 hle, fun h => by omega⟩

/-! ### centres and edges -/

@[simp] theorem centres_length (edges : List Rat) : (centres edges).length = edges.length - 1 := by
  simp [centres]

theorem centres_getD (edges : List Rat) (i : Nat) (hi : i + 1 < edges.length) :
    (centres edges).getD i 0 = (edges.getD (i + 1) 0 + edges.getD i 0) / 2 := by
  have h0 : i < edges.length := by omega
  simp [centres, List.getD_eq_getElem?_getD, List.getElem?_zipWith, List.getElem?_tail,
    List.getElem?_eq_getElem hi, List.getElem?_eq_getElem h0]

theorem pairwise_getD_lt (edges : List Rat) (hp : edges.Pairwise (· < ·)) (i j : Nat) (hij : i < j)
    (hj : j < edges.length) : edges.getD i 0 < edges.getD j 0 := by
  have hi : i < edges.length := by omega
  rw [List.getD_eq_getElem?_getD, List.getD_eq_getElem?_getD, List.getElem?_eq_getElem hi,
    List.getElem?_eq_getElem hj]
  exact List.pairwise_iff_getElem.mp hp i j hi hj hij

theorem pairwise_getD_le (edges : List Rat) (hp : edges.Pairwise (· < ·)) (i j : Nat) (hij : i ≤ j)
    (hj : j < edges.length) : edges.getD i 0 ≤ edges.getD j 0 := by
  rcases Nat.lt_or_eq_of_le hij with h | h
  · exact le_of_lt (pairwise_getD_lt edges hp i j h hj)
  · subst h; exact le_refl _

theorem centre_in_range (edges : List Rat) (hp : edges.Pairwise (· < ·)) (i : Nat)
    (hi : i + 2 < edges.length) :
    edges.getD 0 0 < (centres edges).getD i 0 ∧
      (centres edges).getD i 0 < edges.getD (edges.length - 1) 0 := by
  rw [centres_getD edges i (by omega)]
  have h1 := pairwise_getD_lt edges hp 0 (i + 1) (by omega) (by omega)
  have h2 := pairwise_getD_le edges hp 0 i (by omega) (by omega)
  have h3 := pairwise_getD_lt edges hp (i + 1) (edges.length - 1) (by omega) (by omega)
  have h4 := pairwise_getD_lt edges hp i (edges.length - 1) (by omega) (by omega)
  constructor <;> linarith

theorem uniformEdges_length (lo hi : Rat) (n : Nat) : (uniformEdges lo hi n).length = n + 1 := by
  simp [uniformEdges]

theorem uniformEdges_getD (lo hi : Rat) (n k : Nat) (hk : k ≤ n) :
    (uniformEdges lo hi n).getD k 0 = lo + (hi - lo) * (k : Rat) / (n : Rat) := by
  simp [uniformEdges, List.getD_eq_getElem?_getD, List.getElem?_range (show k < n + 1 by omega)]

theorem uniformEdges_pairwise (lo hi : Rat) (n : Nat) (hn : 0 < n) (h : lo < hi) :
    (uniformEdges lo hi n).Pairwise (· < ·) := by
  rw [List.pairwise_iff_getElem]
  intro i j hi' hj' hij
  simp only [uniformEdges, List.getElem_map, List.getElem_range]
  have hnq : (0 : Rat) < (n : Rat) := by exact_mod_cast hn
  have hd : 0 < hi - lo := by linarith
  have hij' : (i : Rat) < (j : Rat) := by exact_mod_cast hij
  have : (hi - lo) * (i : Rat) / (n : Rat) < (hi - lo) * (j : Rat) / (n : Rat) := by
    apply div_lt_div_of_pos_right _ hnq
    exact mul_lt_mul_of_pos_left hij' hd
  linarith

/-! ### min / max -/

theorem foldl_min_spec (l : List Rat) (a : Rat) :
    l.foldl min a ≤ a ∧ (∀ x ∈ l, l.foldl min a ≤ x) ∧ (l.foldl min a = a ∨ l.foldl min a ∈ l) := by
  induction l generalizing a with
  | nil => simp
  | cons b l ih =>
    obtain ⟨h1, h2, h3⟩ := ih (min a b)
    simp only [List.foldl_cons]
    refine ⟨le_trans h1 (min_le_left _ _), ?_, ?_⟩
    · intro x hx
      rcases List.mem_cons.mp hx with rfl | hx
      · exact le_trans h1 (min_le_right _ _)
      · exact h2 x hx
    · rcases h3 with h | h
      · rcases min_choice a b with hm | hm
        · left; rw [h, hm]
        · right; rw [h, hm]; simp
      · right; simp [h]

theorem foldl_max_spec (l : List Rat) (a : Rat) :
    a ≤ l.foldl max a ∧ (∀ x ∈ l, x ≤ l.foldl max a) ∧ (l.foldl max a = a ∨ l.foldl max a ∈ l) := by
  induction l generalizing a with
  | nil => simp
  | cons b l ih =>
    obtain ⟨h1, h2, h3⟩ := ih (max a b)
    simp only [List.foldl_cons]
    refine ⟨le_trans (le_max_left _ _) h1, ?_, ?_⟩
    · intro x hx
      rcases List.mem_cons.mp hx with rfl | hx
      · exact le_trans (le_max_right _ _) h1
      · exact h2 x hx
    · rcases h3 with h | h
      · rcases max_choice a b with hm | hm
        · left; rw [h, hm]
        · right; rw [h, hm]; simp
      · right; simp [h]

theorem minL_spec (xs : List Rat) (hne : xs ≠ []) : minL xs ∈ xs ∧ ∀ x ∈ xs, minL xs ≤ x := by
  cases xs with
  | nil => exact absurd rfl hne
  | cons a l =>
    obtain ⟨h1, h2, h3⟩ := foldl_min_spec l a
    simp only [minL]
    refine ⟨?_, ?_⟩
    · rcases h3 with h | h
      · rw [h]; simp
      · simp [h]
    · intro x hx
      rcases List.mem_cons.mp hx with rfl | hx
      · exact h1
      · exact h2 x hx

theorem maxL_spec (xs : List Rat) (hne : xs ≠ []) : maxL xs ∈ xs ∧ ∀ x ∈ xs, x ≤ maxL xs := by
  cases xs with
  | nil => exact absurd rfl hne
  | cons a l =>
    obtain ⟨h1, h2, h3⟩ := foldl_max_spec l a
    simp only [maxL]
    refine ⟨?_, ?_⟩
    · rcases h3 with h | h
      · rw [h]; simp
      · simp [h]
    · intro x hx
      rcases List.mem_cons.mp hx with rfl | hx
      · exact h1
      · exact h2 x hx

/-! ### the threshold lies strictly inside the edge range -/

theorem otsuHist_in_range (hist : List Nat) (edges : List Rat) (hn : 2 ≤ hist.length)
    (he : edges.length = hist.length + 1) (hp : edges.Pairwise (· < ·)) :
    edges.getD 0 0 < otsuHist hist edges ∧ otsuHist hist edges < edges.getD hist.length 0 := by
  unfold otsuHist
  simp only
  have hcl : (centres edges).length = hist.length := by simp [he]
  have hlen := critList_length hist (centres edges) hcl
  have hne : critList hist (centres edges) ≠ [] := by
    intro h; rw [h] at hlen; simp at hlen; omega
  obtain ⟨hlt, -⟩ := argmaxFirst_spec _ hne
  rw [hlen] at hlt
  have := centre_in_range edges hp (argmaxFirst (critList hist (centres edges))) (by omega)
  rw [he] at this
  simpa using this

/-! ### data level -/

theorem histRange_of_lt (xs : List Rat) (h : minL xs < maxL xs) : histRange xs = (minL xs, maxL xs) := by
  unfold histRange
  simp [ne_of_lt h]

theorem otsuData_in_range (xs : List Rat) (n : Nat) (hn : 2 ≤ n) (h : minL xs < maxL xs) :
    minL xs < otsuData xs n ∧ otsuData xs n < maxL xs := by
  unfold otsuData histogram
  rw [histRange_of_lt xs h]
  simp only
  have hl : ((List.range n).map (fun k => (xs.map (binOf (minL xs) (maxL xs) n)).count k)).length = n := by
    simp
  have := otsuHist_in_range ((List.range n).map (fun k => (xs.map (binOf (minL xs) (maxL xs) n)).count k))
    (uniformEdges (minL xs) (maxL xs) n) (by rw [hl]; exact hn) (by rw [hl, uniformEdges_length])
    (uniformEdges_pairwise _ _ n (by omega) h)
  rw [hl, uniformEdges_getD _ _ n 0 (by omega), uniformEdges_getD _ _ n n (le_refl _)] at this
  have hnq : (n : Rat) ≠ 0 := by
    have : (0 : Rat) < (n : Rat) := by exact_mod_cast (show 0 < n by omega)
    exact ne_of_gt this
  have e1 : minL xs + (maxL xs - minL xs) * ((0 : Nat) : Rat) / (n : Rat) = minL xs := by simp
  have e2 : minL xs + (maxL xs - minL xs) * (n : Rat) / (n : Rat) = maxL xs := by field_simp; ring
  rw [e1, e2] at this
  exact this

/-! ### scaling -/

theorem foldl_min_scale (c : Rat) (hc : 0 < c) (l : List Rat) (a : Rat) :
    (l.map (c * ·)).foldl min (c * a) = c * l.foldl min a := by
  induction l generalizing a with
  | nil => rfl
  | cons b l ih =>
    simp only [List.map_cons, List.foldl_cons]
    rw [← mul_min_of_nonneg _ _ hc.le, ih]

theorem foldl_max_scale (c : Rat) (hc : 0 < c) (l : List Rat) (a : Rat) :
    (l.map (c * ·)).foldl max (c * a) = c * l.foldl max a := by
  induction l generalizing a with
  | nil => rfl
  | cons b l ih =>
    simp only [List.map_cons, List.foldl_cons]
    rw [← mul_max_of_nonneg _ _ hc.le, ih]

theorem minL_scale (c : Rat) (hc : 0 < c) (xs : List Rat) : minL (xs.map (c * ·)) = c * minL xs := by
  cases xs with
  | nil => simp [minL]
  | cons a l => simp only [List.map_cons, minL]; exact foldl_min_scale c hc l a

theorem maxL_scale (c : Rat) (hc : 0 < c) (xs : List Rat) : maxL (xs.map (c * ·)) = c * maxL xs := by
  cases xs with
  | nil => simp [maxL]
  | cons a l => simp only [List.map_cons, maxL]; exact foldl_max_scale c hc l a

theorem binOf_scale (c : Rat) (hc : 0 < c) (lo hi : Rat) (hlh : lo < hi) (n : Nat) (x : Rat) :
    binOf (c * lo) (c * hi) n (c * x) = binOf lo hi n x := by
  unfold binOf
  have hc0 : c ≠ 0 := ne_of_gt hc
  have e1 : (c * x = c * hi) ↔ x = hi := by
    constructor
    · intro h; exact mul_left_cancel₀ hc0 h
    · intro h; rw [h]
  have hd : hi - lo ≠ 0 := by linarith [sub_pos.mpr hlh] |> ne_of_gt
  have e2 : (c * x - c * lo) / (c * hi - c * lo) = (x - lo) / (hi - lo) := by
    have : c * hi - c * lo = c * (hi - lo) := by ring
    rw [this, show c * x - c * lo = c * (x - lo) by ring, mul_div_mul_left _ _ hc0]
  simp only [e1, e2]

theorem uniformEdges_scale (c lo hi : Rat) (n : Nat) :
    uniformEdges (c * lo) (c * hi) n = (uniformEdges lo hi n).map (c * ·) := by
  simp only [uniformEdges, List.map_map]
  apply List.map_congr_left
  intro k _
  simp only [Function.comp]
  ring

theorem centres_scale (c : Rat) (edges : List Rat) :
    centres (edges.map (c * ·)) = (centres edges).map (c * ·) := by
  unfold centres
  rw [← List.map_tail, List.zipWith_map, List.map_zipWith]
  congr 1
  funext a b
  ring

theorem zipWith_mul_scale (c : Rat) (h cs : List Rat) :
    List.zipWith (· * ·) h (cs.map (c * ·)) = (List.zipWith (· * ·) h cs).map (c * ·) := by
  rw [List.zipWith_map_right, List.map_zipWith]
  congr 1
  funext a b
  ring

theorem specCrit_scale (c : Rat) (hist : List Nat) (cs : List Rat) (i : Nat) :
    specCrit hist (cs.map (c * ·)) i = c ^ 2 * specCrit hist cs i := by
  unfold specCrit
  simp only [zipWith_mul_scale, ← List.map_take, ← List.map_drop, sumR_map_mul]
  ring

theorem specCritList_scale (c : Rat) (hist : List Nat) (cs : List Rat) :
    specCritList hist (cs.map (c * ·)) = (specCritList hist cs).map (c ^ 2 * ·) := by
  simp only [specCritList, List.map_map]
  apply List.map_congr_left
  intro i _
  simp [specCrit_scale]

theorem getD_map_mul (k : Rat) (l : List Rat) (r : Nat) :
    (l.map (k * ·)).getD r 0 = k * l.getD r 0 := by
  simp only [List.getD_eq_getElem?_getD, List.getElem?_map]
  cases l[r]? <;> simp

theorem argmaxFirst_scale (k : Rat) (hk : 0 < k) : ∀ (l : List Rat),
    argmaxFirst (l.map (k * ·)) = argmaxFirst l
  | [] => rfl
  | [_] => rfl
  | a :: b :: l => by
    have ih := argmaxFirst_scale k hk (b :: l)
    simp only [List.map_cons] at ih ⊢
    simp only [argmaxFirst]
    rw [ih]
    have := getD_map_mul k (b :: l) (argmaxFirst (b :: l))
    simp only [List.map_cons] at this
    rw [this]
    have e : (k * a < k * (b :: l).getD (argmaxFirst (b :: l)) 0) ↔ (a < (b :: l).getD (argmaxFirst (b :: l)) 0) :=
      mul_lt_mul_iff_right₀ hk
    simp only [e]

theorem otsuHist_scale (c : Rat) (hc : 0 < c) (hist : List Nat) (edges : List Rat)
    (he : edges.length = hist.length + 1) :
    otsuHist hist (edges.map (c * ·)) = c * otsuHist hist edges := by
  unfold otsuHist
  simp only
  have hcl : (centres edges).length = hist.length := by simp [he]
  have hcl' : ((centres edges).map (c * ·)).length = hist.length := by simp [he]
  rw [centres_scale, critList_eq_spec _ _ hcl', critList_eq_spec _ _ hcl, specCritList_scale,
    argmaxFirst_scale _ (by positivity), getD_map_mul]

theorem otsuData_scale (c : Rat) (hc : 0 < c) (xs : List Rat) (n : Nat) (h : minL xs < maxL xs) :
    otsuData (xs.map (c * ·)) n = c * otsuData xs n := by
  have h' : minL (xs.map (c * ·)) < maxL (xs.map (c * ·)) := by
    rw [minL_scale c hc, maxL_scale c hc]; exact mul_lt_mul_of_pos_left h hc
  unfold otsuData histogram
  rw [histRange_of_lt _ h', histRange_of_lt _ h, minL_scale c hc, maxL_scale c hc]
  simp only
  rw [uniformEdges_scale]
  have hb : (xs.map (c * ·)).map (binOf (c * minL xs) (c * maxL xs) n) = xs.map (binOf (minL xs) (maxL xs) n) := by
    rw [List.map_map]
    apply List.map_congr_left
    intro x _
    exact binOf_scale c hc _ _ h n x
  rw [hb]
  apply otsuHist_scale c hc
  simp [uniformEdges_length]

/-! ### no division by zero: the end bins are never empty -/

theorem sumR_nonneg (l : List Rat) (h : ∀ x ∈ l, 0 ≤ x) : 0 ≤ sumR l := by
  induction l with
  | nil => simp
  | cons a l ih =>
    have := h a (by simp)
    have := ih (fun x hx => h x (by simp [hx]))
    simp only [sumR_cons]; linarith

theorem le_sumR_of_mem (l : List Rat) (h : ∀ x ∈ l, 0 ≤ x) (a : Rat) (ha : a ∈ l) : a ≤ sumR l := by
  induction l with
  | nil => simp at ha
  | cons b l ih =>
    simp only [sumR_cons]
    have hb := h b (by simp)
    have hl := sumR_nonneg l (fun x hx => h x (by simp [hx]))
    rcases List.mem_cons.mp ha with rfl | ha'
    · linarith
    · have := ih (fun x hx => h x (by simp [hx])) ha'
      linarith

theorem class_weights_pos (hist : List Nat) (h0 : 1 ≤ hist.getD 0 0)
    (hl : 1 ≤ hist.getD (hist.length - 1) 0) (i : Nat) (hi : i + 1 < hist.length) :
    0 < sumR ((hist.map (fun (k : Nat) => (k : Rat))).take (i + 1)) ∧
    0 < sumR ((hist.map (fun (k : Nat) => (k : Rat))).drop (i + 1)) := by
  have hnn : ∀ (l : List Rat), (∀ x ∈ l, x ∈ hist.map (fun (k : Nat) => (k : Rat))) → ∀ x ∈ l, 0 ≤ x := by
    intro l hsub x hx
    obtain ⟨k, -, rfl⟩ := List.mem_map.mp (hsub x hx)
    exact Nat.cast_nonneg k
  constructor
  · have hmem : ((hist.getD 0 0 : Nat) : Rat) ∈ (hist.map (fun (k : Nat) => (k : Rat))).take (i + 1) := by
      rw [List.mem_iff_getElem]
      refine ⟨0, by simp; omega, ?_⟩
      simp [List.getD_eq_getElem?_getD, List.getElem?_eq_getElem (show 0 < hist.length by omega)]
    have := le_sumR_of_mem _ (hnn _ (fun x hx => List.mem_of_mem_take hx)) _ hmem
    have h1 : (1 : Rat) ≤ ((hist.getD 0 0 : Nat) : Rat) := by exact_mod_cast h0
    linarith
  · have hmem : ((hist.getD (hist.length - 1) 0 : Nat) : Rat) ∈ (hist.map (fun (k : Nat) => (k : Rat))).drop (i + 1) := by
      rw [List.mem_iff_getElem]
      refine ⟨hist.length - 1 - (i + 1), by simp; omega, ?_⟩
      simp only [List.getElem_drop, List.getElem_map]
      have e : i + 1 + (hist.length - 1 - (i + 1)) = hist.length - 1 := by omega
      simp [List.getD_eq_getElem?_getD, e, List.getElem?_eq_getElem (show hist.length - 1 < hist.length by omega)]
    have := le_sumR_of_mem _ (hnn _ (fun x hx => List.mem_of_mem_drop hx)) _ hmem
    have h1 : (1 : Rat) ≤ ((hist.getD (hist.length - 1) 0 : Nat) : Rat) := by exact_mod_cast hl
    linarith

theorem binOf_lo (lo hi : Rat) (n : Nat) (h : lo < hi) : binOf lo hi n lo = 0 := by
  unfold binOf
  have : Rat.floor 0 = 0 := by decide
  simp [ne_of_lt h, this]

theorem binOf_hi (lo hi : Rat) (n : Nat) : binOf lo hi n hi = n - 1 := by
  unfold binOf
  simp

theorem histogram_end_bins (xs : List Rat) (n : Nat) (hn : 2 ≤ n) (h : minL xs < maxL xs) :
    (histogram xs n).1.length = n ∧ 1 ≤ (histogram xs n).1.getD 0 0 ∧
      1 ≤ (histogram xs n).1.getD (n - 1) 0 := by
  have hne : xs ≠ [] := by
    intro h0; subst h0; simp [minL, maxL] at h
  unfold histogram
  rw [histRange_of_lt xs h]
  simp only
  refine ⟨by simp, ?_, ?_⟩
  · simp only [List.getD_eq_getElem?_getD, List.getElem?_map, List.getElem?_range (show 0 < n by omega)]
    simp only [Option.map_some, Option.getD_some]
    apply List.count_pos_iff.mpr
    exact List.mem_map.mpr ⟨minL xs, (minL_spec xs hne).1, binOf_lo _ _ n h⟩
  · simp only [List.getD_eq_getElem?_getD, List.getElem?_map, List.getElem?_range (show n - 1 < n by omega)]
    simp only [Option.map_some, Option.getD_some]
    apply List.count_pos_iff.mpr
    exact List.mem_map.mpr ⟨maxL xs, (maxL_spec xs hne).1, binOf_hi _ _ n⟩

/-! ### the NaN-carrying criterion -/

theorem critListN_length (hist : List Nat) (cs : List Rat) (hc : cs.length = hist.length) :
    (critListN hist cs).length = hist.length - 1 := by
  simp [critListN, hc]

/-- entry `i` of the float criterion: NaN exactly when one of the two classes of cut `i` is empty, otherwise the
between-class criterion of the cut -/
theorem critListN_getElem? (hist : List Nat) (cs : List Rat) (hc : cs.length = hist.length)
    (i : Nat) (hi : i + 1 < hist.length) :
    (critListN hist cs)[i]? = some
      (if sumR ((hist.map (fun (k : Nat) => (k : Rat))).take (i + 1)) = 0 ∨
          sumR ((hist.map (fun (k : Nat) => (k : Rat))).drop (i + 1)) = 0 then none
        else some (specCrit hist cs i)) := by
  unfold critListN specCrit
  simp only
  generalize hh : hist.map (fun (k : Nat) => (k : Rat)) = h
  have hlen : h.length = hist.length := by rw [← hh]; simp
  generalize hz : List.zipWith (· * ·) h cs = z
  have zlen : z.length = hist.length := by rw [← hz]; simp [hlen, hc]
  have e2 : (List.zipWith divN (cumsum z.reverse) (cumsum h.reverse).reverse.reverse).reverse
      = List.zipWith divN (rcum z) (rcum h) := by
    rw [List.reverse_zipWith (by simp [zlen, hlen])]
    simp [rcum]
  rw [e2]
  change (List.zipWith (fun (a : Rat) (d : Option Rat) => d.map (fun d => a * d ^ 2))
      (List.zipWith (· * ·) (cumsum h) (rcum h).tail)
      (List.zipWith subN (List.zipWith divN (cumsum z) (cumsum h))
        (List.zipWith divN (rcum z) (rcum h)).tail))[i]? = _
  simp only [List.getElem?_zipWith, List.getElem?_tail]
  rw [cumsum_getElem? h i (by omega), cumsum_getElem? z i (by omega),
    rcum_getElem? h (i + 1) (by omega), rcum_getElem? z (i + 1) (by omega)]
  simp only [divN]
  by_cases h1 : sumR (h.take (i + 1)) = 0
  · simp [h1, subN]
  · by_cases h2 : sumR (h.drop (i + 1)) = 0
    · simp [h1, h2, subN]
    · simp [h1, h2, subN]

/-- with both end bins occupied no class is empty: the float criterion holds no NaN and is the exact one -/
theorem critListN_eq_some (hist : List Nat) (cs : List Rat) (hc : cs.length = hist.length)
    (h0 : 1 ≤ hist.getD 0 0) (hl : 1 ≤ hist.getD (hist.length - 1) 0) :
    critListN hist cs = (critList hist cs).map some := by
  apply List.ext_getElem?
  intro i
  by_cases hi : i + 1 < hist.length
  · rw [critListN_getElem? hist cs hc i hi, List.getElem?_map, critList_getElem? hist cs hc i hi]
    obtain ⟨p1, p2⟩ := class_weights_pos hist h0 hl i hi
    simp [ne_of_gt p1, ne_of_gt p2]
  · have h1 : (critListN hist cs).length ≤ i := by rw [critListN_length hist cs hc]; omega
    have h2 : ((critList hist cs).map some).length ≤ i := by
      rw [List.length_map, critList_length hist cs hc]; omega
    rw [List.getElem?_eq_none h1, List.getElem?_eq_none h2]

theorem findIdx_map_some (l : List Rat) : (l.map some).findIdx (·.isNone) = (l.map some).length := by
  induction l with
  | nil => rfl
  | cons a l ih => simp [List.findIdx_cons, ih]

theorem argmaxN_map_some (l : List Rat) : argmaxN (l.map some) = argmaxFirst l := by
  unfold argmaxN
  rw [findIdx_map_some]
  simp only [Nat.lt_irrefl, if_false, List.map_map]
  congr 1
  induction l with
  | nil => rfl
  | cons a l ih => simp

/-- `np.argmax` with NaN: when the array holds a NaN the result is the position of the first one -/
theorem argmaxN_spec_nan (l : List (Option Rat)) (h : none ∈ l) :
    argmaxN l < l.length ∧ l[argmaxN l]? = some none ∧ ∀ j, j < argmaxN l → ∃ v, l[j]? = some (some v) := by
  have hlt : l.findIdx (·.isNone) < l.length := by
    apply List.findIdx_lt_length_of_exists
    exact ⟨none, h, rfl⟩
  unfold argmaxN
  rw [if_pos hlt]
  refine ⟨hlt, ?_, ?_⟩
  · have := List.findIdx_getElem (w := hlt)
    rw [List.getElem?_eq_getElem hlt]
    cases hv : l[l.findIdx (·.isNone)] with
    | none => rfl
    | some v => rw [hv] at this; simp at this
  · intro j hj
    have hjl : j < l.length := by omega
    have := List.not_of_lt_findIdx hj
    rw [List.getElem?_eq_getElem hjl]
    cases hv : l[j] with
    | none => rw [hv] at this; simp at this
    | some v => exact ⟨v, rfl⟩

theorem otsuHistN_eq (hist : List Nat) (edges : List Rat) (he : edges.length = hist.length + 1)
    (h0 : 1 ≤ hist.getD 0 0) (hl : 1 ≤ hist.getD (hist.length - 1) 0) :
    otsuHistN hist edges = otsuHist hist edges := by
  unfold otsuHistN otsuHist
  simp only
  rw [critListN_eq_some hist _ (by simp [he]) h0 hl, argmaxN_map_some]

theorem argmaxN_lt (l : List (Option Rat)) (hne : l ≠ []) : argmaxN l < l.length := by
  unfold argmaxN
  split
  · assumption
  · have := (argmaxFirst_spec (l.map (·.getD 0)) (by simpa using hne)).1
    simpa using this

/-- whatever the histogram, the returned centre lies strictly inside the edge range -/
theorem otsuHistN_in_range (hist : List Nat) (edges : List Rat) (hn : 2 ≤ hist.length)
    (he : edges.length = hist.length + 1) (hp : edges.Pairwise (· < ·)) :
    edges.getD 0 0 < otsuHistN hist edges ∧ otsuHistN hist edges < edges.getD hist.length 0 := by
  unfold otsuHistN
  simp only
  have hcl : (centres edges).length = hist.length := by simp [he]
  have hlen := critListN_length hist (centres edges) hcl
  have hne : critListN hist (centres edges) ≠ [] := by
    intro h; rw [h] at hlen; simp at hlen; omega
  have hlt := argmaxN_lt _ hne
  rw [hlen] at hlt
  have := centre_in_range edges hp (argmaxN (critListN hist (centres edges))) (by omega)
  rw [he] at this
  simpa using this

/-- an empty first bin: the first criterion entry is `0/0`, `np.argmax` returns 0, the first centre comes back -/
theorem otsuHistN_first_empty (hist : List Nat) (edges : List Rat) (hn : 2 ≤ hist.length)
    (he : edges.length = hist.length + 1) (h0 : hist.getD 0 0 = 0) :
    (critListN hist (centres edges))[0]? = some none ∧ otsuHistN hist edges = (centres edges).getD 0 0 := by
  have hcl : (centres edges).length = hist.length := by simp [he]
  have e0 := critListN_getElem? hist (centres edges) hcl 0 (by omega)
  have hz : sumR ((hist.map (fun (k : Nat) => (k : Rat))).take (0 + 1)) = 0 := by
    cases hist with
    | nil => simp at hn
    | cons a t =>
      simp only [List.getD_cons_zero] at h0
      simp [h0]
  rw [if_pos (Or.inl hz)] at e0
  refine ⟨e0, ?_⟩
  unfold otsuHistN argmaxN
  simp only
  have hpos : 0 < (critListN hist (centres edges)).length := by
    rw [critListN_length hist _ hcl]; omega
  have hfi : (critListN hist (centres edges)).findIdx (·.isNone) = 0 := by
    cases hc : critListN hist (centres edges) with
    | nil => rw [hc] at hpos; simp at hpos
    | cons a t =>
      rw [hc] at e0
      simp only [List.getElem?_cons_zero, Option.some.injEq] at e0
      simp [List.findIdx_cons, e0]
  rw [hfi, if_pos hpos]

/-! ### the rescaling step: dividing the centres by a power of two does not move the argmax -/

theorem cumsum_map_mul (c : Rat) (l : List Rat) : cumsum (l.map (c * ·)) = (cumsum l).map (c * ·) := by
  induction l with
  | nil => rfl
  | cons a l ih =>
    simp only [List.map_cons, cumsum, ih, List.map_map, List.cons.injEq, true_and]
    apply List.map_congr_left
    intro x _
    simp only [Function.comp]
    ring

theorem zipWith_divN_scale (c : Rat) (l w : List Rat) :
    List.zipWith divN (l.map (c * ·)) w = (List.zipWith divN l w).map (Option.map (c * ·)) := by
  rw [List.zipWith_map_left, List.map_zipWith]
  congr 1
  funext a b
  unfold divN
  split
  · rfl
  · simp [mul_div_assoc]

theorem subN_scale (c : Rat) (o1 o2 : Option Rat) :
    subN (o1.map (c * ·)) (o2.map (c * ·)) = (subN o1 o2).map (c * ·) := by
  cases o1 <;> cases o2 <;> simp [subN, mul_sub]

/-- the criterion array of centres multiplied by `c` is the criterion array multiplied by `c²`, NaN where it was NaN -/
theorem critListN_scale (c : Rat) (hist : List Nat) (cs : List Rat) :
    critListN hist (cs.map (c * ·)) = (critListN hist cs).map (Option.map (c ^ 2 * ·)) := by
  unfold critListN
  simp only
  generalize hist.map (fun (k : Nat) => (k : Rat)) = h
  rw [zipWith_mul_scale, cumsum_map_mul, ← List.map_reverse, cumsum_map_mul, zipWith_divN_scale, zipWith_divN_scale,
    ← List.map_reverse, ← List.map_tail]
  generalize List.zipWith divN (cumsum (List.zipWith (· * ·) h cs)) (cumsum h) = u1
  generalize (List.zipWith divN (cumsum (List.zipWith (· * ·) h cs).reverse) (cumsum h.reverse).reverse.reverse).reverse.tail = u2
  generalize List.zipWith (· * ·) (cumsum h) (cumsum h.reverse).reverse.tail = ww
  rw [List.zipWith_map, List.map_zipWith]
  have e : List.zipWith (fun a b => subN (Option.map (fun x => c * x) a) (Option.map (fun x => c * x) b)) u1 u2
      = (List.zipWith subN u1 u2).map (Option.map (c * ·)) := by
    rw [List.map_zipWith]
    congr 1
    funext o1 o2
    exact subN_scale c o1 o2
  rw [e, List.zipWith_map_right]
  congr 1
  funext a d
  cases d with
  | none => rfl
  | some d => simp only [Option.map_some]; congr 1; ring

theorem findIdx_isNone_map (k : Rat) (l : List (Option Rat)) :
    (l.map (Option.map (k * ·))).findIdx (·.isNone) = l.findIdx (·.isNone) := by
  induction l with
  | nil => rfl
  | cons a l ih => cases a <;> simp [List.findIdx_cons, ih]

theorem argmaxN_scale (k : Rat) (hk : 0 < k) (l : List (Option Rat)) :
    argmaxN (l.map (Option.map (k * ·))) = argmaxN l := by
  unfold argmaxN
  rw [findIdx_isNone_map, List.length_map]
  have : (l.map (Option.map (k * ·))).map (·.getD 0) = (l.map (·.getD 0)).map (k * ·) := by
    rw [List.map_map, List.map_map]
    apply List.map_congr_left
    intro o _
    cases o <;> simp
  rw [this, argmaxFirst_scale k hk]

theorem pow2_pos (k : Int) : 0 < pow2 k := by
  unfold pow2
  split <;> positivity

/-- the code with its rescaling step returns what the plain criterion returns - for every histogram and all edges,
on the NaN path as well -/
theorem otsuHistS_eq (hist : List Nat) (edges : List Rat) : otsuHistS hist edges = otsuHistN hist edges := by
  unfold otsuHistS otsuHistN scaledCentres
  simp only
  rw [critListN_scale, argmaxN_scale _ (by have := pow2_pos (-(scaleExp edges)); positivity)]

/-! ### runs of empty bins -/

theorem sumR_take_succ (l : List Rat) (k : Nat) : sumR (l.take (k + 1)) = sumR (l.take k) + l.getD k 0 := by
  induction l generalizing k with
  | nil => simp
  | cons a l ih =>
    cases k with
    | zero => simp
    | succ k => simp [ih k]; ring

theorem sumR_drop_eq (l : List Rat) (k : Nat) : sumR (l.drop k) = l.getD k 0 + sumR (l.drop (k + 1)) := by
  induction l generalizing k with
  | nil => simp
  | cons a l ih =>
    cases k with
    | zero => simp
    | succ k => simp [ih k]

theorem getD_zipWith_mul (h cs : List Rat) (k : Nat) (hk : h.getD k 0 = 0) :
    (List.zipWith (· * ·) h cs).getD k 0 = 0 := by
  simp only [List.getD_eq_getElem?_getD, List.getElem?_zipWith] at hk ⊢
  cases hh : h[k]? with
  | none => simp
  | some a =>
    rw [hh] at hk
    simp only [Option.getD_some] at hk
    cases cs[k]? <;> simp [hk]

theorem getD_map_cast (hist : List Nat) (k : Nat) :
    (hist.map (fun (k : Nat) => (k : Rat))).getD k 0 = ((hist.getD k 0 : Nat) : Rat) := by
  simp only [List.getD_eq_getElem?_getD, List.getElem?_map]
  cases hist[k]? <;> simp

/-- an empty bin `i + 1`: the cuts before and after it have the same four sums -/
theorem cutSums_succ_of_empty (hist : List Nat) (cs : List Rat) (i : Nat) (h : hist.getD (i + 1) 0 = 0) :
    cutSums hist cs (i + 1) = cutSums hist cs i := by
  have hz : (hist.map (fun (k : Nat) => (k : Rat))).getD (i + 1) 0 = 0 := by
    rw [getD_map_cast, h]; simp
  have hz2 := getD_zipWith_mul _ cs (i + 1) hz
  unfold cutSums
  simp only
  rw [sumR_take_succ _ (i + 1), hz, sumR_take_succ (List.zipWith _ _ _) (i + 1), hz2,
    sumR_drop_eq _ (i + 1), hz, sumR_drop_eq (List.zipWith _ _ _) (i + 1), hz2]
  simp

theorem classStart_le (hist : List Nat) (i : Nat) : classStart hist i ≤ i := by
  induction i with
  | zero => simp [classStart]
  | succ i ih =>
    unfold classStart
    split
    · omega
    · exact Nat.le_refl _

theorem cutSums_classStart (hist : List Nat) (cs : List Rat) (i : Nat) :
    cutSums hist cs (classStart hist i) = cutSums hist cs i := by
  induction i with
  | zero => simp [classStart]
  | succ i ih =>
    unfold classStart
    split
    · rename_i h
      rw [ih, cutSums_succ_of_empty hist cs i h]
    · rfl

/-- all bins strictly after the first cut of the run, up to the cut's own bin, are empty -/
theorem classStart_empty_between (hist : List Nat) (i j : Nat) (h1 : classStart hist i < j) (h2 : j ≤ i) :
    hist.getD j 0 = 0 := by
  induction i with
  | zero => omega
  | succ i ih =>
    unfold classStart at h1
    split at h1
    · rename_i h
      rcases Nat.lt_or_ge i j with hj | hj
      · have : j = i + 1 := by omega
        rw [this]; exact h
      · exact ih h1 hj
    · omega

theorem specCrit_eq_cutSums (hist : List Nat) (cs : List Rat) (i : Nat) :
    specCrit hist cs i =
      (cutSums hist cs i).1 * (cutSums hist cs i).2.1 *
        ((cutSums hist cs i).2.2.1 / (cutSums hist cs i).1 - (cutSums hist cs i).2.2.2 / (cutSums hist cs i).2.1) ^ 2 := rfl

/-! ### binning against a list of edges -/

/-- in an increasing list the elements `≤ x` are a prefix: the number of them is the index of the first one `> x` -/
theorem count_le_sorted (l : List Rat) (hp : l.Pairwise (· < ·)) (x : Rat) :
    (∀ j, j < (l.filter (fun e => decide (e ≤ x))).length → l.getD j 0 ≤ x) ∧
    ((l.filter (fun e => decide (e ≤ x))).length < l.length →
      x < l.getD (l.filter (fun e => decide (e ≤ x))).length 0) ∧
    (l.filter (fun e => decide (e ≤ x))).length ≤ l.length := by
  induction l with
  | nil => simp
  | cons e t ih =>
    obtain ⟨hhd, htl⟩ := List.pairwise_cons.mp hp
    obtain ⟨i1, i2, i3⟩ := ih htl
    by_cases hex : e ≤ x
    · simp only [List.filter_cons, hex, decide_true, if_true, List.length_cons]
      refine ⟨?_, ?_, by omega⟩
      · intro j hj
        cases j with
        | zero => simpa using hex
        | succ j => simpa using i1 j (by omega)
      · intro hlt
        simpa using i2 (by omega)
    · have hnil : t.filter (fun e => decide (e ≤ x)) = [] := by
        rw [List.filter_eq_nil_iff]
        intro a ha
        have := hhd a ha
        simp only [decide_eq_true_eq, not_le]
        linarith [not_le.mp hex]
      simp only [List.filter_cons, hex, decide_false, hnil]
      refine ⟨by simp, ?_, by simp⟩
      intro _
      simpa using not_le.mp hex

theorem interior_getD (edges : List Rat) (j : Nat) (hj : j + 2 < edges.length) :
    edges.tail.dropLast.getD j 0 = edges.getD (j + 1) 0 := by
  simp only [List.getD_eq_getElem?_getD]
  congr 1
  rw [List.getElem?_dropLast]
  simp only [List.length_tail, List.getElem?_tail]
  rw [if_pos (by omega)]

theorem interior_length (edges : List Rat) : edges.tail.dropLast.length = edges.length - 2 := by
  simp; omega

theorem interior_pairwise (edges : List Rat) (hp : edges.Pairwise (· < ·)) :
    edges.tail.dropLast.Pairwise (· < ·) :=
  (hp.sublist (List.tail_sublist edges)).sublist (List.dropLast_sublist _)

/-- **`binByEdges` is the bin.**  For increasing edges `e_0 < … < e_n` and `x ≥ e_0`: the result `k` is a bin
(`k ≤ n - 1`), `e_k ≤ x`, and `x < e_{k+1}` unless `k` is the last bin -/
theorem binByEdges_spec (edges : List Rat) (n : Nat) (hn : 1 ≤ n) (he : edges.length = n + 1)
    (hp : edges.Pairwise (· < ·)) (x : Rat) (h0 : edges.getD 0 0 ≤ x) :
    binByEdges edges x ≤ n - 1 ∧ edges.getD (binByEdges edges x) 0 ≤ x ∧
      (binByEdges edges x < n - 1 → x < edges.getD (binByEdges edges x + 1) 0) := by
  obtain ⟨c1, c2, c3⟩ := count_le_sorted _ (interior_pairwise edges hp) x
  rw [interior_length, he] at c2 c3
  unfold binByEdges
  generalize hk : (edges.tail.dropLast.filter (fun e => decide (e ≤ x))).length = k at *
  refine ⟨by omega, ?_, ?_⟩
  · cases k with
    | zero => exact h0
    | succ k =>
      have := c1 k (by omega)
      rwa [interior_getD edges k (by omega)] at this
  · intro hlt
    have := c2 (by omega)
    rwa [interior_getD edges k (by omega)] at this

/-- a value lies in one bin only -/
theorem bin_unique (edges : List Rat) (n : Nat) (he : edges.length = n + 1)
    (hp : edges.Pairwise (· < ·)) (x : Rat) (k k' : Nat) (hk : k ≤ n - 1) (hk' : k' ≤ n - 1)
    (a1 : edges.getD k 0 ≤ x) (a2 : k < n - 1 → x < edges.getD (k + 1) 0)
    (b1 : edges.getD k' 0 ≤ x) (b2 : k' < n - 1 → x < edges.getD (k' + 1) 0) : k = k' := by
  rcases Nat.lt_trichotomy k k' with h | h | h
  · have := a2 (by omega)
    have := pairwise_getD_le edges hp (k + 1) k' (by omega) (by omega)
    linarith
  · exact h
  · have := b2 (by omega)
    have := pairwise_getD_le edges hp (k' + 1) k (by omega) (by omega)
    linarith

/-- **NumPy's correction steps repair an index estimate that is off by one.**  With increasing edges, a value in
`[e_0, e_n]` and an estimate `est ≤ n` that is the right bin `k`, or `k ± 1`, the clamp and the two comparisons
against the edges return `k` -/
theorem npBin_eq (edges : List Rat) (n : Nat) (hn : 1 ≤ n) (he : edges.length = n + 1)
    (hp : edges.Pairwise (· < ·)) (x : Rat) (h0 : edges.getD 0 0 ≤ x) (est : Nat)
    (hest : est = binByEdges edges x ∨ est = binByEdges edges x + 1 ∨ est + 1 = binByEdges edges x) :
    npBin edges n est x = binByEdges edges x := by
  obtain ⟨s1, s2, s3⟩ := binByEdges_spec edges n hn he hp x h0
  generalize binByEdges edges x = k at *
  have mono : ∀ i j, i < j → j ≤ n → edges.getD i 0 < edges.getD j 0 :=
    fun i j hij hj => pairwise_getD_lt edges hp i j hij (by omega)
  unfold npBin
  rcases hest with rfl | rfl | h
  · -- est = k
    have e0 : (if est = n then est - 1 else est) = est := by rw [if_neg (by omega)]
    simp only [e0]
    rw [if_neg (not_lt.mpr s2)]
    rw [if_neg]
    rintro ⟨h1, h2⟩
    have := s3 (by omega)
    linarith
  · -- est = k + 1
    by_cases hkn : k + 1 = n
    · have e0 : (if k + 1 = n then k + 1 - 1 else k + 1) = k := by rw [if_pos hkn]; omega
      simp only [e0]
      rw [if_neg (not_lt.mpr s2), if_neg]
      rintro ⟨_, h2⟩
      omega
    · have e0 : (if k + 1 = n then k + 1 - 1 else k + 1) = k + 1 := by rw [if_neg hkn]
      simp only [e0]
      have hx := s3 (by omega)
      rw [if_pos hx]
      have e1 : k + 1 - 1 = k := by omega
      simp only [e1]
      rw [if_neg]
      rintro ⟨h1, _⟩
      linarith
  · -- est = k - 1
    have hk : k = est + 1 := h.symm
    subst hk
    have e0 : (if est = n then est - 1 else est) = est := by rw [if_neg (by omega)]
    simp only [e0]
    have hlt := mono est (est + 1) (by omega) (by omega)
    have hnl : ¬ x < edges.getD est 0 := not_lt.mpr (by linarith)
    rw [if_neg hnl]
    rw [if_pos ⟨s2, by omega⟩]

theorem binByEdges_first (edges : List Rat) (n : Nat) (hn : 1 ≤ n) (he : edges.length = n + 1)
    (hp : edges.Pairwise (· < ·)) : binByEdges edges (edges.getD 0 0) = 0 := by
  obtain ⟨_, s2, _⟩ := binByEdges_spec edges n hn he hp _ (le_refl _)
  by_contra hne
  have := pairwise_getD_lt edges hp 0 (binByEdges edges (edges.getD 0 0)) (by omega) (by omega)
  linarith

theorem binByEdges_last (edges : List Rat) (n : Nat) (hn : 1 ≤ n) (he : edges.length = n + 1)
    (hp : edges.Pairwise (· < ·)) : binByEdges edges (edges.getD n 0) = n - 1 := by
  have h0 : edges.getD 0 0 ≤ edges.getD n 0 := pairwise_getD_le edges hp 0 n (by omega) (by omega)
  obtain ⟨s1, _, s3⟩ := binByEdges_spec edges n hn he hp _ h0
  by_contra hne
  have h1 := s3 (by omega)
  have := pairwise_getD_le edges hp (binByEdges edges (edges.getD n 0) + 1) n (by omega) (by omega)
  linarith

@[simp] theorem countBins_length (bins : List Nat) (n : Nat) : (countBins bins n).length = n := by
  simp [countBins]

theorem countBins_getD (bins : List Nat) (n k : Nat) (hk : k < n) :
    (countBins bins n).getD k 0 = bins.count k := by
  simp [countBins, List.getD_eq_getElem?_getD, List.getElem?_range hk]

@[simp] theorem histogramE_length (edges xs : List Rat) : (histogramE edges xs).length = edges.length - 1 := by
  simp [histogramE]

/-- data binned against increasing edges that start at its minimum and end at its maximum: both end bins are occupied -/
theorem histogramE_end_bins (edges xs : List Rat) (n : Nat) (hn : 1 ≤ n) (he : edges.length = n + 1)
    (hp : edges.Pairwise (· < ·)) (hmin : edges.getD 0 0 ∈ xs) (hmax : edges.getD n 0 ∈ xs) :
    1 ≤ (histogramE edges xs).getD 0 0 ∧ 1 ≤ (histogramE edges xs).getD (n - 1) 0 := by
  unfold histogramE
  rw [he, Nat.add_sub_cancel, countBins_getD _ _ _ (by omega), countBins_getD _ _ _ (by omega)]
  constructor
  · apply List.count_pos_iff.mpr
    exact List.mem_map.mpr ⟨_, hmin, binByEdges_first edges n hn he hp⟩
  · apply List.count_pos_iff.mpr
    exact List.mem_map.mpr ⟨_, hmax, binByEdges_last edges n hn he hp⟩

theorem otsuEdges_in_range (edges xs : List Rat) (n : Nat) (hn : 2 ≤ n) (he : edges.length = n + 1)
    (hp : edges.Pairwise (· < ·)) :
    edges.getD 0 0 < otsuEdges edges xs ∧ otsuEdges edges xs < edges.getD n 0 := by
  unfold otsuEdges
  rw [otsuHistS_eq]
  have hl : (histogramE edges xs).length = n := by rw [histogramE_length, he]; omega
  have := otsuHistN_in_range (histogramE edges xs) edges (by omega) (by omega) hp
  rwa [hl] at this

/-! ### scaling, against any edges -/

theorem binByEdges_scale (c : Rat) (hc : 0 < c) (edges : List Rat) (x : Rat) :
    binByEdges (edges.map (c * ·)) (c * x) = binByEdges edges x := by
  unfold binByEdges
  rw [← List.map_tail, ← List.map_dropLast, List.filter_map, List.length_map]
  congr 2
  funext e
  simp only [Function.comp, decide_eq_decide]
  exact mul_le_mul_iff_right₀ hc

theorem histogramE_scale (c : Rat) (hc : 0 < c) (edges xs : List Rat) :
    histogramE (edges.map (c * ·)) (xs.map (c * ·)) = histogramE edges xs := by
  unfold histogramE
  rw [List.map_map, List.length_map]
  congr 2
  funext x
  exact binByEdges_scale c hc edges x

theorem otsuEdges_scale (c : Rat) (hc : 0 < c) (edges xs : List Rat) (n : Nat) (hn : 1 ≤ n)
    (he : edges.length = n + 1) (hp : edges.Pairwise (· < ·))
    (hmin : edges.getD 0 0 ∈ xs) (hmax : edges.getD n 0 ∈ xs) :
    otsuEdges (edges.map (c * ·)) (xs.map (c * ·)) = c * otsuEdges edges xs := by
  obtain ⟨g0, g1⟩ := histogramE_end_bins edges xs n hn he hp hmin hmax
  have hl : (histogramE edges xs).length = n := by rw [histogramE_length, he]; omega
  have he' : edges.length = (histogramE edges xs).length + 1 := by omega
  unfold otsuEdges
  rw [histogramE_scale c hc, otsuHistS_eq, otsuHistS_eq]
  rw [otsuHistN_eq _ _ (by simpa using he') g0 (by rw [hl]; exact g1),
    otsuHistN_eq _ _ he' g0 (by rw [hl]; exact g1)]
  exact otsuHist_scale c hc _ edges he'

/-! ### NaN in the data -/

/-- the boolean mask `~np.isnan(x)` selects the values that are numbers, in their order -/
theorem maskSelect_notNan (xs : List (Option Rat)) :
    maskSelect xs (xs.map (fun v => !v.isNone)) = (xs.filterMap id).map some := by
  induction xs with
  | nil => rfl
  | cons a l ih =>
    cases a with
    | none => simpa [maskSelect] using ih
    | some q =>
      simp only [List.map_cons, Option.isNone_some, Bool.not_false, maskSelect, if_true, List.filterMap_cons, id]
      rw [ih]
      rfl

theorem foldl_nanProp_some (f : Rat → Rat → Rat) (l : List Rat) (a : Rat) :
    (l.map some).foldl (fun (acc v : Option Rat) => match acc, v with
      | some p, some q => some (f p q)
      | _, _ => none) (some a) = some (l.foldl f a) := by
  induction l generalizing a with
  | nil => rfl
  | cons b l ih => simpa using ih (f a b)

theorem reduceN_map_some (f : Rat → Rat → Rat) (a : Rat) (l : List Rat) :
    reduceN f ((a :: l).map some) = some (l.foldl f a) := by
  simp only [List.map_cons, reduceN]
  exact foldl_nanProp_some f l a

theorem foldl_nanProp_none (f : Rat → Rat → Rat) (l : List (Option Rat)) :
    l.foldl (fun (acc v : Option Rat) => match acc, v with
      | some p, some q => some (f p q)
      | _, _ => none) none = none := by
  induction l with
  | nil => rfl
  | cons b l ih => simpa using ih

theorem foldl_nanProp_mem (f : Rat → Rat → Rat) (l : List (Option Rat)) (acc : Option Rat) (h : none ∈ l) :
    l.foldl (fun (acc v : Option Rat) => match acc, v with
      | some p, some q => some (f p q)
      | _, _ => none) acc = none := by
  induction l generalizing acc with
  | nil => simp at h
  | cons b l ih =>
    simp only [List.foldl_cons]
    rcases List.mem_cons.mp h with hb | hl
    · subst hb
      cases acc <;> exact foldl_nanProp_none f l
    · exact ih _ hl

/-- `np.min` / `np.max` of an array that holds a NaN is NaN -/
theorem reduceN_nan (f : Rat → Rat → Rat) (xs : List (Option Rat)) (h : none ∈ xs) : reduceN f xs = none := by
  cases xs with
  | nil => rfl
  | cons a l =>
    simp only [reduceN]
    rcases List.mem_cons.mp h with ha | hl
    · subst ha; exact foldl_nanProp_none f l
    · exact foldl_nanProp_mem f l _ hl

theorem outerEdges_map_some (ys : List Rat) (hne : ys ≠ []) : outerEdges (ys.map some) = some (histRange ys) := by
  cases ys with
  | nil => exact absurd rfl hne
  | cons a l =>
    unfold outerEdges
    rw [reduceN_map_some, reduceN_map_some]
    simp [histRange, minL, maxL]

theorem outerEdges_nan (xs : List (Option Rat)) (h : none ∈ xs) : outerEdges xs = none := by
  unfold outerEdges
  have hne : xs.isEmpty = false := by
    cases xs with
    | nil => simp at h
    | cons _ _ => rfl
  rw [hne, reduceN_nan min xs h]
  simp

theorem keepInRange_all (lo hi : Rat) (ys : List Rat) (h : ∀ y ∈ ys, lo ≤ y ∧ y ≤ hi) :
    keepInRange lo hi (ys.map some) = ys := by
  unfold keepInRange
  induction ys with
  | nil => rfl
  | cons a l ih =>
    have ha := h a (by simp)
    have := ih (fun y hy => h y (by simp [hy]))
    simp [ha.1, ha.2, this]

theorem histRange_contains (ys : List Rat) (hne : ys ≠ []) :
    ∀ y ∈ ys, (histRange ys).1 ≤ y ∧ y ≤ (histRange ys).2 := by
  intro y hy
  have h1 := (minL_spec ys hne).2 y hy
  have h2 := (maxL_spec ys hne).2 y hy
  unfold histRange
  simp only
  split
  · constructor <;> simp only <;> linarith
  · exact ⟨h1, h2⟩

/-- on an array without NaN, `np.histogram` of the `Option` layer is the plain `histogram` -/
theorem histogramN_map_some (ys : List Rat) (hne : ys ≠ []) (n : Nat) :
    histogramN (ys.map some) n = some (histogram ys n) := by
  unfold histogramN
  rw [outerEdges_map_some ys hne]
  simp only [Option.map_some]
  rw [keepInRange_all _ _ ys (histRange_contains ys hne)]
  rfl

theorem otsuArr_false_map_some (ys : List Rat) (hne : ys ≠ []) (n : Nat) :
    otsuArr false (ys.map some) n = some (otsuHistN (histogram ys n).1 (histogram ys n).2) := by
  unfold otsuArr
  simp only [Bool.false_eq_true, if_false]
  rw [histogramN_map_some ys hne]
  simp only [Option.map_some, otsuHistS_eq]

theorem ne_nil_of_min_lt_max (ys : List Rat) (h : minL ys < maxL ys) : ys ≠ [] := by
  intro h0; subst h0; simp [minL, maxL] at h

theorem histogram_snd_length (xs : List Rat) (n : Nat) : (histogram xs n).2.length = n + 1 := by
  unfold histogram
  simp [uniformEdges_length]

/-- two distinct values: the NaN-carrying mechanism on the exact histogram is the plain one -/
theorem otsuHistN_histogram (ys : List Rat) (n : Nat) (hn : 2 ≤ n) (h : minL ys < maxL ys) :
    otsuHistN (histogram ys n).1 (histogram ys n).2 = otsuData ys n := by
  obtain ⟨hl, g0, g1⟩ := histogram_end_bins ys n hn h
  rw [otsuHistN_eq _ _ (by rw [hl, histogram_snd_length]) g0 (by rw [hl]; exact g1)]
  rfl

/-! ### exact uniform binning is binning against the uniform edges -/

theorem binOf_eq_binByEdges (lo hi : Rat) (hlh : lo < hi) (n : Nat) (hn : 1 ≤ n) (x : Rat)
    (hx0 : lo ≤ x) (hx1 : x ≤ hi) :
    binOf lo hi n x = binByEdges (uniformEdges lo hi n) x := by
  have hnq : (0 : Rat) < (n : Rat) := by exact_mod_cast hn
  have hw : 0 < hi - lo := by linarith
  have he := uniformEdges_length lo hi n
  have hp := uniformEdges_pairwise lo hi n hn hlh
  have e0 : (uniformEdges lo hi n).getD 0 0 = lo := by
    rw [uniformEdges_getD lo hi n 0 (by omega)]; simp
  obtain ⟨s1, s2, s3⟩ := binByEdges_spec _ n hn he hp x (by rw [e0]; exact hx0)
  apply bin_unique _ n he hp x _ _ _ s1 _ _ s2 s3
  · -- binOf ≤ n - 1
    unfold binOf
    split
    · exact Nat.le_refl _
    · rename_i hne
      have hxlt : x < hi := lt_of_le_of_ne hx1 hne
      have hp1 : (x - lo) / (hi - lo) * (n : Rat) < (n : Rat) := by
        have : (x - lo) / (hi - lo) < 1 := by rw [div_lt_one hw]; linarith
        nlinarith
      have hfl : ((x - lo) / (hi - lo) * (n : Rat)).floor < (n : Int) := by
        rw [Rat.floor_lt_iff]; exact_mod_cast hp1
      omega
  · -- e_k ≤ x
    unfold binOf
    split
    · rename_i heq
      rw [uniformEdges_getD lo hi n (n - 1) (by omega), heq]
      have : ((n - 1 : Nat) : Rat) ≤ (n : Rat) := by exact_mod_cast Nat.sub_le n 1
      have h1 : (hi - lo) * ((n - 1 : Nat) : Rat) / (n : Rat) ≤ hi - lo := by
        rw [div_le_iff₀ hnq]; nlinarith
      linarith
    · rename_i hne
      have hp0 : 0 ≤ (x - lo) / (hi - lo) * (n : Rat) :=
        mul_nonneg (div_nonneg (by linarith) hw.le) hnq.le
      have hf0 : 0 ≤ ((x - lo) / (hi - lo) * (n : Rat)).floor := by
        rw [Rat.le_floor_iff]; exact_mod_cast hp0
      have hfl := Rat.floor_le ((x - lo) / (hi - lo) * (n : Rat))
      have hk : ((((x - lo) / (hi - lo) * (n : Rat)).floor.toNat : Nat) : Rat)
          = ((((x - lo) / (hi - lo) * (n : Rat)).floor : Int) : Rat) := by
        have := Int.toNat_of_nonneg hf0
        exact_mod_cast congrArg (fun z : Int => (z : Rat)) this
      have hkn : ((x - lo) / (hi - lo) * (n : Rat)).floor.toNat ≤ n := by
        have hp1 : (x - lo) / (hi - lo) * (n : Rat) ≤ (n : Rat) := by
          have : (x - lo) / (hi - lo) ≤ 1 := by rw [div_le_one hw]; linarith
          nlinarith
        have : ((x - lo) / (hi - lo) * (n : Rat)).floor ≤ (n : Int) := by
          have := le_trans (Rat.floor_le ((x - lo) / (hi - lo) * (n : Rat))) hp1
          exact_mod_cast this
        omega
      rw [uniformEdges_getD lo hi n _ hkn, hk]
      have : (hi - lo) * ((((x - lo) / (hi - lo) * (n : Rat)).floor : Int) : Rat) / (n : Rat) ≤ x - lo := by
        rw [div_le_iff₀ hnq]
        have h2 : (x - lo) / (hi - lo) * (n : Rat) * (hi - lo) = (x - lo) * (n : Rat) := by
          field_simp
        nlinarith
      linarith
  · -- x < e_{k+1}
    unfold binOf
    split
    · intro h; omega
    · rename_i hne
      intro hklt
      have hp0 : 0 ≤ (x - lo) / (hi - lo) * (n : Rat) :=
        mul_nonneg (div_nonneg (by linarith) hw.le) hnq.le
      have hf0 : 0 ≤ ((x - lo) / (hi - lo) * (n : Rat)).floor := by
        rw [Rat.le_floor_iff]; exact_mod_cast hp0
      have hlt := Rat.lt_floor_add_one ((x - lo) / (hi - lo) * (n : Rat))
      have hk : ((((x - lo) / (hi - lo) * (n : Rat)).floor.toNat + 1 : Nat) : Rat)
          = ((((x - lo) / (hi - lo) * (n : Rat)).floor + 1 : Int) : Rat) := by
        have := Int.toNat_of_nonneg hf0
        push_cast
        congr 1
        exact_mod_cast congrArg (fun z : Int => (z : Rat)) this
      rw [uniformEdges_getD lo hi n _ (by omega), hk]
      have : x - lo < (hi - lo) * ((((x - lo) / (hi - lo) * (n : Rat)).floor + 1 : Int) : Rat) / (n : Rat) := by
        rw [lt_div_iff₀ hnq]
        have h2 : (x - lo) / (hi - lo) * (n : Rat) * (hi - lo) = (x - lo) * (n : Rat) := by
          field_simp
        nlinarith
      linarith

/-- the exact uniform histogram is the histogram against the uniform edges -/
theorem histogram_eq_histogramE (xs : List Rat) (n : Nat) (hn : 1 ≤ n) (h : minL xs < maxL xs) :
    histogram xs n = (histogramE (uniformEdges (minL xs) (maxL xs) n) xs, uniformEdges (minL xs) (maxL xs) n) := by
  have hne := ne_nil_of_min_lt_max xs h
  unfold histogram histogramE
  rw [histRange_of_lt xs h]
  simp only [uniformEdges_length, Nat.add_sub_cancel]
  congr 1
  change countBins _ n = countBins _ n
  congr 1
  apply List.map_congr_left
  intro x hx
  exact binOf_eq_binByEdges _ _ h n hn x ((minL_spec xs hne).2 x hx) ((maxL_spec xs hne).2 x hx)

/-! ### an empty class has moment zero: the quotient is `0/0`, never `x/0` with `x ≠ 0` -/

theorem sumR_zipWith_zero (h cs : List Rat) (hnn : ∀ x ∈ h, 0 ≤ x) (hz : sumR h = 0) :
    sumR (List.zipWith (· * ·) h cs) = 0 := by
  induction h generalizing cs with
  | nil => simp
  | cons a t ih =>
    have ha := hnn a (by simp)
    have ht := sumR_nonneg t (fun x hx => hnn x (by simp [hx]))
    simp only [sumR_cons] at hz
    have a0 : a = 0 := by linarith
    have t0 : sumR t = 0 := by linarith
    cases cs with
    | nil => simp
    | cons c cs =>
      simp only [List.zipWith_cons_cons, sumR_cons, a0, zero_mul, zero_add]
      exact ih cs (fun x hx => hnn x (by simp [hx])) t0

theorem prefix_moment_zero (hist : List Nat) (cs : List Rat) (i : Nat)
    (h : (cutSums hist cs i).1 = 0) : (cutSums hist cs i).2.2.1 = 0 := by
  unfold cutSums at h ⊢
  simp only at h ⊢
  rw [List.take_zipWith]
  apply sumR_zipWith_zero _ _ _ h
  intro x hx
  obtain ⟨k, -, rfl⟩ := List.mem_map.mp (List.mem_of_mem_take hx)
  exact Nat.cast_nonneg k

theorem suffix_moment_zero (hist : List Nat) (cs : List Rat) (i : Nat)
    (h : (cutSums hist cs i).2.1 = 0) : (cutSums hist cs i).2.2.2 = 0 := by
  unfold cutSums at h ⊢
  simp only at h ⊢
  rw [List.drop_zipWith]
  apply sumR_zipWith_zero _ _ _ h
  intro x hx
  obtain ⟨k, -, rfl⟩ := List.mem_map.mp (List.mem_of_mem_drop hx)
  exact Nat.cast_nonneg k

end Pew.Otsu
