import PewModel.Otsu
import Mathlib.Tactic.Linarith
import Mathlib.Tactic.Ring
import Mathlib.Tactic.FieldSimp
import Mathlib.Tactic.Positivity
import Mathlib.Algebra.Order.Field.Rat
import Mathlib.Algebra.Order.Floor.Ring

/-! helper lemmas for C15 (Otsu) -/
namespace Pew.Otsu

@[simp] theorem sumR_nil : sumR [] = 0 := rfl
@[simp] theorem sumR_cons (a : Rat) (l : List Rat) : sumR (a :: l) = a + sumR l := rfl

theorem sumR_append (l₁ l₂ : List Rat) : sumR (l₁ ++ l₂) = sumR l₁ + sumR l₂ := by
  induction l₁ with
  | nil => simp
  | cons a l ih => simp [ih]; ring

theorem sumR_reverse (l : List Rat) : sumR l.reverse = sumR l := by
  induction l with
  | nil => rfl
  | cons a l ih => simp [sumR_append, ih]; ring

theorem sumR_map_mul (c : Rat) (l : List Rat) : sumR (l.map (c * ·)) = c * sumR l := by
  induction l with
  | nil => simp
  | cons a l ih => simp [ih]; ring

@[simp] theorem cumsum_length (l : List Rat) : (cumsum l).length = l.length := by
  induction l with
  | nil => rfl
  | cons a l ih => simp [cumsum, ih]

theorem cumsum_getElem? (l : List Rat) (i : Nat) (h : i < l.length) :
    (cumsum l)[i]? = some (sumR (l.take (i + 1))) := by
  induction l generalizing i with
  | nil => simp at h
  | cons a l ih =>
    cases i with
    | zero => simp [cumsum]
    | succ i =>
      have hi : i < l.length := by simpa using h
      simp [cumsum, ih i hi]

/-- backward cumulative sums: `np.cumsum(a[::-1])[::-1]` -/
def rcum (l : List Rat) : List Rat := (cumsum l.reverse).reverse

@[simp] theorem rcum_length (l : List Rat) : (rcum l).length = l.length := by simp [rcum]

theorem rcum_getElem? (l : List Rat) (j : Nat) (h : j < l.length) :
    (rcum l)[j]? = some (sumR (l.drop j)) := by
  unfold rcum
  rw [List.getElem?_reverse (by simpa using h)]
  simp only [cumsum_length, List.length_reverse]
  rw [cumsum_getElem? _ _ (by simp; omega)]
  rw [List.take_reverse, sumR_reverse]
  congr 3
  omega

theorem critList_length (hist : List Nat) (cs : List Rat) (hc : cs.length = hist.length) :
    (critList hist cs).length = hist.length - 1 := by
  simp [critList, hc]

/-- the cumulative-sum alignment: entry `i` of the criterion array is the between-class
criterion of the cut "bins ≤ i | bins > i" -/
theorem critList_getElem? (hist : List Nat) (cs : List Rat) (hc : cs.length = hist.length)
    (i : Nat) (hi : i + 1 < hist.length) :
    (critList hist cs)[i]? = some (specCrit hist cs i) := by
  unfold critList specCrit
  simp only
  generalize hh : hist.map (fun (k : Nat) => (k : Rat)) = h
  have hlen : h.length = hist.length := by rw [← hh]; simp
  generalize hz : List.zipWith (· * ·) h cs = z
  have zlen : z.length = hist.length := by rw [← hz]; simp [hlen, hc]
  have e2 : (List.zipWith (· / ·) (cumsum z.reverse) (cumsum h.reverse).reverse.reverse).reverse
      = List.zipWith (· / ·) (rcum z) (rcum h) := by
    rw [List.reverse_zipWith (by simp [zlen, hlen])]
    simp [rcum]
  rw [e2]
  change (List.zipWith (fun a d => a * d ^ 2)
      (List.zipWith (· * ·) (cumsum h) (rcum h).tail)
      (List.zipWith (· - ·) (List.zipWith (· / ·) (cumsum z) (cumsum h))
        (List.zipWith (· / ·) (rcum z) (rcum h)).tail))[i]? = _
  simp only [List.getElem?_zipWith, List.getElem?_tail]
  rw [cumsum_getElem? h i (by omega), cumsum_getElem? z i (by omega),
    rcum_getElem? h (i + 1) (by omega), rcum_getElem? z (i + 1) (by omega)]

theorem specCritList_length (hist : List Nat) (cs : List Rat) :
    (specCritList hist cs).length = hist.length - 1 := by simp [specCritList]

theorem critList_eq_spec (hist : List Nat) (cs : List Rat) (hc : cs.length = hist.length) :
    critList hist cs = specCritList hist cs := by
  apply List.ext_getElem?
  intro i
  by_cases hi : i + 1 < hist.length
  · rw [critList_getElem? hist cs hc i hi]
    simp [specCritList, List.getElem?_range (show i < hist.length - 1 by omega)]
  · have h1 : (critList hist cs).length ≤ i := by rw [critList_length hist cs hc]; omega
    have h2 : (specCritList hist cs).length ≤ i := by rw [specCritList_length]; omega
    rw [List.getElem?_eq_none h1, List.getElem?_eq_none h2]

/-! ### argmax -/

theorem argmaxFirst_spec : ∀ (l : List Rat), l ≠ [] →
    argmaxFirst l < l.length ∧
    ∀ j, j < l.length → l.getD j 0 ≤ l.getD (argmaxFirst l) 0 ∧
      (j < argmaxFirst l → l.getD j 0 < l.getD (argmaxFirst l) 0)
  | [], h => absurd rfl h
  | [a], _ => by
    refine ⟨by simp [argmaxFirst], ?_⟩
    intro j hj
    have : j = 0 := by simpa using hj
    subst this
    simp [argmaxFirst]
  | a :: b :: l, _ => by
    obtain ⟨hlt, hmax⟩ := argmaxFirst_spec (b :: l) (by simp)
    simp only [argmaxFirst]
    generalize argmaxFirst (b :: l) = r at *
    by_cases hc : a < (b :: l).getD r 0
    · simp only [hc, if_true]
      refine ⟨by simpa using hlt, ?_⟩
      intro j hj
      cases j with
      | zero =>
        simp only [List.getD_cons_zero, List.getD_cons_succ]
        exact ⟨le_of_lt hc, fun _ => hc⟩
      | succ j =>
        have hj' : j < (b :: l).length := by simpa using hj
        simp only [List.getD_cons_succ]
        obtain ⟨h1, h2⟩ := hmax j hj'
        exact ⟨h1, fun h => h2 (by omega)⟩
    · simp only [hc, if_false]
      refine ⟨by simp, ?_⟩
      intro j hj
      have hle : (b :: l).getD r 0 ≤ a := not_lt.mp hc
      cases j with
      | zero => simp
      | succ j =>
        have hj' : j < (b :: l).length := by simpa using hj
        simp only [List.getD_cons_succ, List.getD_cons_zero]
        exact ⟨le_trans (hmax j hj').1 hle, fun h => by omega⟩

/-! ### centres and edges -/

@[simp] theorem centres_length (edges : List Rat) : (centres edges).length = edges.length - 1 := by
  simp [centres]

theorem centres_getD (edges : List Rat) (i : Nat) (hi : i + 1 < edges.length) :
    (centres edges).getD i 0 = (edges.getD (i + 1) 0 + edges.getD i 0) / 2 := by
  have h0 : i < edges.length := by omega
  simp [centres, List.getD_eq_getElem?_getD, List.getElem?_zipWith, List.getElem?_tail,
    List.getElem?_eq_getElem hi, List.getElem?_eq_getElem h0]

theorem pairwise_getD_lt (edges : List Rat) (hp : edges.Pairwise (· < ·)) (i j : Nat) (hij : i < j)
    (hj : j < edges.length) : edges.getD i 0 < edges.getD j 0 := by
  have hi : i < edges.length := by omega
  rw [List.getD_eq_getElem?_getD, List.getD_eq_getElem?_getD, List.getElem?_eq_getElem hi,
    List.getElem?_eq_getElem hj]
  exact List.pairwise_iff_getElem.mp hp i j hi hj hij

theorem pairwise_getD_le (edges : List Rat) (hp : edges.Pairwise (· < ·)) (i j : Nat) (hij : i ≤ j)
    (hj : j < edges.length) : edges.getD i 0 ≤ edges.getD j 0 := by
  rcases Nat.lt_or_eq_of_le hij with h | h
  · exact le_of_lt (pairwise_getD_lt edges hp i j h hj)
  · subst h; exact le_refl _

theorem centre_in_range (edges : List Rat) (hp : edges.Pairwise (· < ·)) (i : Nat)
    (hi : i + 2 < edges.length) :
    edges.getD 0 0 < (centres edges).getD i 0 ∧
      (centres edges).getD i 0 < edges.getD (edges.length - 1) 0 := by
  rw [centres_getD edges i (by omega)]
  have h1 := pairwise_getD_lt edges hp 0 (i + 1) (by omega) (by omega)
  have h2 := pairwise_getD_le edges hp 0 i (by omega) (by omega)
  have h3 := pairwise_getD_lt edges hp (i + 1) (edges.length - 1) (by omega) (by omega)
  have h4 := pairwise_getD_lt edges hp i (edges.length - 1) (by omega) (by omega)
  constructor <;> linarith

theorem uniformEdges_length (lo hi : Rat) (n : Nat) : (uniformEdges lo hi n).length = n + 1 := by
  simp [uniformEdges]

theorem uniformEdges_getD (lo hi : Rat) (n k : Nat) (hk : k ≤ n) :
    (uniformEdges lo hi n).getD k 0 = lo + (hi - lo) * (k : Rat) / (n : Rat) := by
  simp [uniformEdges, List.getD_eq_getElem?_getD, List.getElem?_range (show k < n + 1 by omega)]

theorem uniformEdges_pairwise (lo hi : Rat) (n : Nat) (hn : 0 < n) (h : lo < hi) :
    (uniformEdges lo hi n).Pairwise (· < ·) := by
  rw [List.pairwise_iff_getElem]
  intro i j hi' hj' hij
  simp only [uniformEdges, List.getElem_map, List.getElem_range]
  have hnq : (0 : Rat) < (n : Rat) := by exact_mod_cast hn
  have hd : 0 < hi - lo := by linarith
  have hij' : (i : Rat) < (j : Rat) := by exact_mod_cast hij
  have : (hi - lo) * (i : Rat) / (n : Rat) < (hi - lo) * (j : Rat) / (n : Rat) := by
    apply div_lt_div_of_pos_right _ hnq
    exact mul_lt_mul_of_pos_left hij' hd
  linarith

/-! ### min / max -/

theorem foldl_min_spec (l : List Rat) (a : Rat) :
    l.foldl min a ≤ a ∧ (∀ x ∈ l, l.foldl min a ≤ x) ∧ (l.foldl min a = a ∨ l.foldl min a ∈ l) := by
  induction l generalizing a with
  | nil => simp
  | cons b l ih =>
    obtain ⟨h1, h2, h3⟩ := ih (min a b)
    simp only [List.foldl_cons]
    refine ⟨le_trans h1 (min_le_left _ _), ?_, ?_⟩
    · intro x hx
      rcases List.mem_cons.mp hx with rfl | hx
      · exact le_trans h1 (min_le_right _ _)
      · exact h2 x hx
    · rcases h3 with h | h
      · rcases min_choice a b with hm | hm
        · left; rw [h, hm]
        · right; rw [h, hm]; simp
      · right; simp [h]

theorem foldl_max_spec (l : List Rat) (a : Rat) :
    a ≤ l.foldl max a ∧ (∀ x ∈ l, x ≤ l.foldl max a) ∧ (l.foldl max a = a ∨ l.foldl max a ∈ l) := by
  induction l generalizing a with
  | nil => simp
  | cons b l ih =>
    obtain ⟨h1, h2, h3⟩ := ih (max a b)
    simp only [List.foldl_cons]
    refine ⟨le_trans (le_max_left _ _) h1, ?_, ?_⟩
    · intro x hx
      rcases List.mem_cons.mp hx with rfl | hx
      · exact le_trans (le_max_right _ _) h1
      · exact h2 x hx
    · rcases h3 with h | h
      · rcases max_choice a b with hm | hm
        · left; rw [h, hm]
        · right; rw [h, hm]; simp
      · right; simp [h]

theorem minL_spec (xs : List Rat) (hne : xs ≠ []) : minL xs ∈ xs ∧ ∀ x ∈ xs, minL xs ≤ x := by
  cases xs with
  | nil => exact absurd rfl hne
  | cons a l =>
    obtain ⟨h1, h2, h3⟩ := foldl_min_spec l a
    simp only [minL]
    refine ⟨?_, ?_⟩
    · rcases h3 with h | h
      · rw [h]; simp
      · simp [h]
    · intro x hx
      rcases List.mem_cons.mp hx with rfl | hx
      · exact h1
      · exact h2 x hx

theorem maxL_spec (xs : List Rat) (hne : xs ≠ []) : maxL xs ∈ xs ∧ ∀ x ∈ xs, x ≤ maxL xs := by
  cases xs with
  | nil => exact absurd rfl hne
  | cons a l =>
    obtain ⟨h1, h2, h3⟩ := foldl_max_spec l a
    simp only [maxL]
    refine ⟨?_, ?_⟩
    · rcases h3 with h | h
      · rw [h]; simp
      · simp [h]
    · intro x hx
      rcases List.mem_cons.mp hx with rfl | hx
      · exact h1
      · exact h2 x hx

/-! ### the threshold lies strictly inside the edge range -/

theorem otsuHist_in_range (hist : List Nat) (edges : List Rat) (hn : 2 ≤ hist.length)
    (he : edges.length = hist.length + 1) (hp : edges.Pairwise (· < ·)) :
    edges.getD 0 0 < otsuHist hist edges ∧ otsuHist hist edges < edges.getD hist.length 0 := by
  unfold otsuHist
  simp only
  have hcl : (centres edges).length = hist.length := by simp [he]
  have hlen := critList_length hist (centres edges) hcl
  have hne : critList hist (centres edges) ≠ [] := by
    intro h; rw [h] at hlen; simp at hlen; omega
  obtain ⟨hlt, -⟩ := argmaxFirst_spec _ hne
  rw [hlen] at hlt
  have := centre_in_range edges hp (argmaxFirst (critList hist (centres edges))) (by omega)
  rw [he] at this
  simpa using this

/-! ### data level -/

theorem histRange_of_lt (xs : List Rat) (h : minL xs < maxL xs) : histRange xs = (minL xs, maxL xs) := by
  unfold histRange
  simp [ne_of_lt h]

theorem otsuData_in_range (xs : List Rat) (n : Nat) (hn : 2 ≤ n) (h : minL xs < maxL xs) :
    minL xs < otsuData xs n ∧ otsuData xs n < maxL xs := by
  unfold otsuData histogram
  rw [histRange_of_lt xs h]
  simp only
  have hl : ((List.range n).map (fun k => (xs.map (binOf (minL xs) (maxL xs) n)).count k)).length = n := by
    simp
  have := otsuHist_in_range ((List.range n).map (fun k => (xs.map (binOf (minL xs) (maxL xs) n)).count k))
    (uniformEdges (minL xs) (maxL xs) n) (by rw [hl]; exact hn) (by rw [hl, uniformEdges_length])
    (uniformEdges_pairwise _ _ n (by omega) h)
  rw [hl, uniformEdges_getD _ _ n 0 (by omega), uniformEdges_getD _ _ n n (le_refl _)] at this
  have hnq : (n : Rat) ≠ 0 := by
    have : (0 : Rat) < (n : Rat) := by exact_mod_cast (show 0 < n by omega)
    exact ne_of_gt this
  have e1 : minL xs + (maxL xs - minL xs) * ((0 : Nat) : Rat) / (n : Rat) = minL xs := by simp
  have e2 : minL xs + (maxL xs - minL xs) * (n : Rat) / (n : Rat) = maxL xs := by field_simp; ring
  rw [e1, e2] at this
  exact this

/-! ### scaling -/

theorem foldl_min_scale (c : Rat) (hc : 0 < c) (l : List Rat) (a : Rat) :
    (l.map (c * ·)).foldl min (c * a) = c * l.foldl min a := by
  induction l generalizing a with
  | nil => rfl
  | cons b l ih =>
    simp only [List.map_cons, List.foldl_cons]
    rw [← mul_min_of_nonneg _ _ hc.le, ih]

theorem foldl_max_scale (c : Rat) (hc : 0 < c) (l : List Rat) (a : Rat) :
    (l.map (c * ·)).foldl max (c * a) = c * l.foldl max a := by
  induction l generalizing a with
  | nil => rfl
  | cons b l ih =>
    simp only [List.map_cons, List.foldl_cons]
    rw [← mul_max_of_nonneg _ _ hc.le, ih]

theorem minL_scale (c : Rat) (hc : 0 < c) (xs : List Rat) : minL (xs.map (c * ·)) = c * minL xs := by
  cases xs with
  | nil => simp [minL]
  | cons a l => simp only [List.map_cons, minL]; exact foldl_min_scale c hc l a

theorem maxL_scale (c : Rat) (hc : 0 < c) (xs : List Rat) : maxL (xs.map (c * ·)) = c * maxL xs := by
  cases xs with
  | nil => simp [maxL]
  | cons a l => simp only [List.map_cons, maxL]; exact foldl_max_scale c hc l a

theorem binOf_scale (c : Rat) (hc : 0 < c) (lo hi : Rat) (hlh : lo < hi) (n : Nat) (x : Rat) :
    binOf (c * lo) (c * hi) n (c * x) = binOf lo hi n x := by
  unfold binOf
  have hc0 : c ≠ 0 := ne_of_gt hc
  have e1 : (c * x = c * hi) ↔ x = hi := by
    constructor
    · intro h; exact mul_left_cancel₀ hc0 h
    · intro h; rw [h]
  have hd : hi - lo ≠ 0 := by linarith [sub_pos.mpr hlh] |> ne_of_gt
  have e2 : (c * x - c * lo) / (c * hi - c * lo) = (x - lo) / (hi - lo) := by
    have : c * hi - c * lo = c * (hi - lo) := by ring
    rw [this, show c * x - c * lo = c * (x - lo) by ring, mul_div_mul_left _ _ hc0]
  simp only [e1, e2]

theorem uniformEdges_scale (c lo hi : Rat) (n : Nat) :
    uniformEdges (c * lo) (c * hi) n = (uniformEdges lo hi n).map (c * ·) := by
  simp only [uniformEdges, List.map_map]
  apply List.map_congr_left
  intro k _
  simp only [Function.comp]
  ring

theorem centres_scale (c : Rat) (edges : List Rat) :
    centres (edges.map (c * ·)) = (centres edges).map (c * ·) := by
  unfold centres
  rw [← List.map_tail, List.zipWith_map, List.map_zipWith]
  congr 1
  funext a b
  ring

theorem zipWith_mul_scale (c : Rat) (h cs : List Rat) :
    List.zipWith (· * ·) h (cs.map (c * ·)) = (List.zipWith (· * ·) h cs).map (c * ·) := by
  rw [List.zipWith_map_right, List.map_zipWith]
  congr 1
  funext a b
  ring

theorem specCrit_scale (c : Rat) (hist : List Nat) (cs : List Rat) (i : Nat) :
    specCrit hist (cs.map (c * ·)) i = c ^ 2 * specCrit hist cs i := by
  unfold specCrit
  simp only [zipWith_mul_scale, ← List.map_take, ← List.map_drop, sumR_map_mul]
  ring

theorem specCritList_scale (c : Rat) (hist : List Nat) (cs : List Rat) :
    specCritList hist (cs.map (c * ·)) = (specCritList hist cs).map (c ^ 2 * ·) := by
  simp only [specCritList, List.map_map]
  apply List.map_congr_left
  intro i _
  simp [specCrit_scale]

theorem getD_map_mul (k : Rat) (l : List Rat) (r : Nat) :
    (l.map (k * ·)).getD r 0 = k * l.getD r 0 := by
  simp only [List.getD_eq_getElem?_getD, List.getElem?_map]
  cases l[r]? <;> simp

theorem argmaxFirst_scale (k : Rat) (hk : 0 < k) : ∀ (l : List Rat),
    argmaxFirst (l.map (k * ·)) = argmaxFirst l
  | [] => rfl
  | [_] => rfl
  | a :: b :: l => by
    have ih := argmaxFirst_scale k hk (b :: l)
    simp only [List.map_cons] at ih ⊢
    simp only [argmaxFirst]
    rw [ih]
    have := getD_map_mul k (b :: l) (argmaxFirst (b :: l))
    simp only [List.map_cons] at this
    rw [this]
    have e : (k * a < k * (b :: l).getD (argmaxFirst (b :: l)) 0) ↔ (a < (b :: l).getD (argmaxFirst (b :: l)) 0) :=
      mul_lt_mul_iff_right₀ hk
    simp only [e]

theorem otsuHist_scale (c : Rat) (hc : 0 < c) (hist : List Nat) (edges : List Rat)
    (he : edges.length = hist.length + 1) :
    otsuHist hist (edges.map (c * ·)) = c * otsuHist hist edges := by
  unfold otsuHist
  simp only
  have hcl : (centres edges).length = hist.length := by simp [he]
  have hcl' : ((centres edges).map (c * ·)).length = hist.length := by simp [he]
  rw [centres_scale, critList_eq_spec _ _ hcl', critList_eq_spec _ _ hcl, specCritList_scale,
    argmaxFirst_scale _ (by positivity), getD_map_mul]

theorem otsuData_scale (c : Rat) (hc : 0 < c) (xs : List Rat) (n : Nat) (h : minL xs < maxL xs) :
    otsuData (xs.map (c * ·)) n = c * otsuData xs n := by
  have h' : minL (xs.map (c * ·)) < maxL (xs.map (c * ·)) := by
    rw [minL_scale c hc, maxL_scale c hc]; exact mul_lt_mul_of_pos_left h hc
  unfold otsuData histogram
  rw [histRange_of_lt _ h', histRange_of_lt _ h, minL_scale c hc, maxL_scale c hc]
  simp only
  rw [uniformEdges_scale]
  have hb : (xs.map (c * ·)).map (binOf (c * minL xs) (c * maxL xs) n) = xs.map (binOf (minL xs) (maxL xs) n) := by
    rw [List.map_map]
    apply List.map_congr_left
    intro x _
    exact binOf_scale c hc _ _ h n x
  rw [hb]
  apply otsuHist_scale c hc
  simp [uniformEdges_length]

/-! ### no division by zero: the end bins are never empty -/

theorem sumR_nonneg (l : List Rat) (h : ∀ x ∈ l, 0 ≤ x) : 0 ≤ sumR l := by
  induction l with
  | nil => simp
  | cons a l ih =>
    have := h a (by simp)
    have := ih (fun x hx => h x (by simp [hx]))
    simp only [sumR_cons]; linarith

theorem le_sumR_of_mem (l : List Rat) (h : ∀ x ∈ l, 0 ≤ x) (a : Rat) (ha : a ∈ l) : a ≤ sumR l := by
  induction l with
  | nil => simp at ha
  | cons b l ih =>
    simp only [sumR_cons]
    have hb := h b (by simp)
    have hl := sumR_nonneg l (fun x hx => h x (by simp [hx]))
    rcases List.mem_cons.mp ha with rfl | ha'
    · linarith
    · have := ih (fun x hx => h x (by simp [hx])) ha'
      linarith

theorem class_weights_pos (hist : List Nat) (h0 : 1 ≤ hist.getD 0 0)
    (hl : 1 ≤ hist.getD (hist.length - 1) 0) (i : Nat) (hi : i + 1 < hist.length) :
    0 < sumR ((hist.map (fun (k : Nat) => (k : Rat))).take (i + 1)) ∧
    0 < sumR ((hist.map (fun (k : Nat) => (k : Rat))).drop (i + 1)) := by
  have hnn : ∀ (l : List Rat), (∀ x ∈ l, x ∈ hist.map (fun (k : Nat) => (k : Rat))) → ∀ x ∈ l, 0 ≤ x := by
    intro l hsub x hx
    obtain ⟨k, -, rfl⟩ := List.mem_map.mp (hsub x hx)
    exact Nat.cast_nonneg k
  constructor
  · have hmem : ((hist.getD 0 0 : Nat) : Rat) ∈ (hist.map (fun (k : Nat) => (k : Rat))).take (i + 1) := by
      rw [List.mem_iff_getElem]
      refine ⟨0, by simp; omega, ?_⟩
      simp [List.getD_eq_getElem?_getD, List.getElem?_eq_getElem (show 0 < hist.length by omega)]
    have := le_sumR_of_mem _ (hnn _ (fun x hx => List.mem_of_mem_take hx)) _ hmem
    have h1 : (1 : Rat) ≤ ((hist.getD 0 0 : Nat) : Rat) := by exact_mod_cast h0
    linarith
  · have hmem : ((hist.getD (hist.length - 1) 0 : Nat) : Rat) ∈ (hist.map (fun (k : Nat) => (k : Rat))).drop (i + 1) := by
      rw [List.mem_iff_getElem]
      refine ⟨hist.length - 1 - (i + 1), by simp; omega, ?_⟩
      simp only [List.getElem_drop, List.getElem_map]
      have e : i + 1 + (hist.length - 1 - (i + 1)) = hist.length - 1 := by omega
      simp [List.getD_eq_getElem?_getD, e, List.getElem?_eq_getElem (show hist.length - 1 < hist.length by omega)]
    have := le_sumR_of_mem _ (hnn _ (fun x hx => List.mem_of_mem_drop hx)) _ hmem
    have h1 : (1 : Rat) ≤ ((hist.getD (hist.length - 1) 0 : Nat) : Rat) := by exact_mod_cast hl
    linarith

theorem binOf_lo (lo hi : Rat) (n : Nat) (h : lo < hi) : binOf lo hi n lo = 0 := by
  unfold binOf
  have : Rat.floor 0 = 0 := by decide
  simp [ne_of_lt h, this]

theorem binOf_hi (lo hi : Rat) (n : Nat) : binOf lo hi n hi = n - 1 := by
  unfold binOf
  simp

theorem histogram_end_bins (xs : List Rat) (n : Nat) (hn : 2 ≤ n) (h : minL xs < maxL xs) :
    (histogram xs n).1.length = n ∧ 1 ≤ (histogram xs n).1.getD 0 0 ∧
      1 ≤ (histogram xs n).1.getD (n - 1) 0 := by
  have hne : xs ≠ [] := by
    intro h0; subst h0; simp [minL, maxL] at h
  unfold histogram
  rw [histRange_of_lt xs h]
  simp only
  refine ⟨by simp, ?_, ?_⟩
  · simp only [List.getD_eq_getElem?_getD, List.getElem?_map, List.getElem?_range (show 0 < n by omega)]
    simp only [Option.map_some, Option.getD_some]
    apply List.count_pos_iff.mpr
    exact List.mem_map.mpr ⟨minL xs, (minL_spec xs hne).1, binOf_lo _ _ n h⟩
  · simp only [List.getD_eq_getElem?_getD, List.getElem?_map, List.getElem?_range (show n - 1 < n by omega)]
    simp only [Option.map_some, Option.getD_some]
    apply List.count_pos_iff.mpr
    exact List.mem_map.mpr ⟨maxL xs, (maxL_spec xs hne).1, binOf_hi _ _ n⟩

end Pew.Otsu
