import PewProofs.Convolve

/-! # C18 — helper lemmas for the kernel densities: the gamma approximation is positive, `linspace` stays
between its end points, what is assumed of the opaque special functions (`Special.Sound`) -/
namespace Pew.Convolve

/-! ## the gamma approximation is positive on the positive rationals -/

theorem gammaPoly_eq (z : Rat) : gammaPoly z =
    1 + (-577191652 / 1000000000) * z + (988205891 / 1000000000) * z ^ 2 + (-897056937 / 1000000000) * z ^ 3
      + (918206857 / 1000000000) * z ^ 4 + (-756704078 / 1000000000) * z ^ 5 + (482199394 / 1000000000) * z ^ 6
      + (-193527818 / 1000000000) * z ^ 7 + (35868343 / 1000000000) * z ^ 8 := by
  simp [gammaPoly, gammaCoef, at0, List.range_succ]
  ring

/-- on [0, 1] the degree-8 polynomial is at least 0.42 (pair each negative term with the positive one before it) -/
theorem gammaPoly_pos (z : Rat) (h0 : 0 ≤ z) (h1 : z ≤ 1) : 0 < gammaPoly z := by
  rw [gammaPoly_eq]
  have e : (1 : Rat) + (-577191652 / 1000000000) * z + (988205891 / 1000000000) * z ^ 2
      + (-897056937 / 1000000000) * z ^ 3 + (918206857 / 1000000000) * z ^ 4 + (-756704078 / 1000000000) * z ^ 5
      + (482199394 / 1000000000) * z ^ 6 + (-193527818 / 1000000000) * z ^ 7 + (35868343 / 1000000000) * z ^ 8
      = (1 - (577191652 / 1000000000) * z) + z ^ 2 * ((988205891 / 1000000000) - (897056937 / 1000000000) * z)
        + z ^ 4 * ((918206857 / 1000000000) - (756704078 / 1000000000) * z)
        + z ^ 6 * ((482199394 / 1000000000) - (193527818 / 1000000000) * z) + (35868343 / 1000000000) * z ^ 8 := by
    ring
  rw [e]
  have a1 : (0 : Rat) < 1 - (577191652 / 1000000000) * z := by linarith
  have a2 : (0 : Rat) ≤ z ^ 2 * ((988205891 / 1000000000) - (897056937 / 1000000000) * z) :=
    mul_nonneg (by positivity) (by linarith)
  have a3 : (0 : Rat) ≤ z ^ 4 * ((918206857 / 1000000000) - (756704078 / 1000000000) * z) :=
    mul_nonneg (by positivity) (by linarith)
  have a4 : (0 : Rat) ≤ z ^ 6 * ((482199394 / 1000000000) - (193527818 / 1000000000) * z) :=
    mul_nonneg (by positivity) (by linarith)
  have a5 : (0 : Rat) ≤ (35868343 / 1000000000) * z ^ 8 := by positivity
  linarith

theorem risingProd_one' (z : Rat) : risingProd z 1 = 1 := by simp [risingProd]

theorem risingProd_succ' (z : Rat) (k : Nat) :
    risingProd z (k + 2) = risingProd z (k + 1) * (z + ((k + 1 : Nat) : Rat)) := by
  unfold risingProd
  have : k + 2 - 1 = k + 1 := by omega
  rw [this, List.range_succ, List.map_append, List.foldl_append]
  simp

theorem risingProd_pos' (z : Rat) (hz : 0 ≤ z) (n : Nat) : 0 < risingProd z (n + 1) := by
  induction n with
  | zero => rw [risingProd_one']; norm_num
  | succ n ih =>
    rw [risingProd_succ']
    have : (0 : Rat) < z + ((n + 1 : Nat) : Rat) := by
      have : (0 : Rat) < ((n + 1 : Nat) : Rat) := by exact_mod_cast Nat.succ_pos n
      linarith
    exact mul_pos ih this

/-- pewlib's `gamma(x)` is positive for every positive (rational) argument -/
theorem gammaApprox_pos (x : Rat) (hx : 0 < x) : 0 < gammaApprox x := by
  have hfl : ((x.floor : Int) : Rat) ≤ x := Int.floor_le x
  have hfu : x < ((x.floor : Int) : Rat) + 1 := Int.lt_floor_add_one x
  have hz0 : 0 ≤ x - ((x.floor : Int) : Rat) := by linarith
  have hz1 : x - ((x.floor : Int) : Rat) ≤ 1 := by linarith
  have hp := gammaPoly_pos _ hz0 hz1
  unfold gammaApprox
  simp only []
  split
  · exact mul_pos (by positivity) hp
  · rename_i h1
    have h1' : 1 ≤ x := not_lt.mp h1
    obtain ⟨k, hk⟩ : ∃ k : Nat, x.floor.toNat = k + 1 := by
      have : 1 ≤ x.floor := Int.le_floor.mpr (by exact_mod_cast h1')
      exact ⟨(x.floor - 1).toNat, by omega⟩
    rw [hk]
    exact mul_pos (risingProd_pos' _ hz0 k) hp

/-! ## `linspace` stays between its end points -/

theorem linspace_mem_between (a b : Rat) (n : Nat) (x : Rat) (hx : x ∈ linspace a b n) :
    min a b ≤ x ∧ x ≤ max a b := by
  unfold linspace at hx
  obtain ⟨i, hi, rfl⟩ := List.mem_map.mp hx
  have hin : i < n := List.mem_range.mp hi
  split
  · exact ⟨min_le_right a b, le_max_right a b⟩
  · rename_i hlast
    by_cases hn1 : n = 1
    · subst hn1
      have : i = 0 := by omega
      subst this
      simp
    · have hn2 : 2 ≤ n := by omega
      have hi2 : i + 1 < n := by
        rcases Nat.lt_or_ge (i + 1) n with h | h
        · exact h
        · exact absurd ⟨by omega, by omega⟩ hlast
      have hd : (0 : Rat) < (n : Rat) - 1 := by
        have : (2 : Rat) ≤ (n : Rat) := by exact_mod_cast hn2
        linarith
      have ht0 : (0 : Rat) ≤ (i : Rat) / ((n : Rat) - 1) := div_nonneg (by positivity) hd.le
      have ht1 : (i : Rat) / ((n : Rat) - 1) ≤ 1 := by
        rw [div_le_one hd]
        have : ((i + 1 : Nat) : Rat) ≤ (n : Rat) := by exact_mod_cast hi2.le
        push_cast at this
        linarith
      have e : a + (i : Rat) * ((b - a) / ((n : Rat) - 1)) = a + (i : Rat) / ((n : Rat) - 1) * (b - a) := by
        field_simp
      rw [e]
      generalize (i : Rat) / ((n : Rat) - 1) = t at ht0 ht1
      rcases le_total a b with hab | hab
      · rw [min_eq_left hab, max_eq_right hab]
        constructor <;> nlinarith
      · rw [min_eq_right hab, max_eq_left hab]
        constructor <;> nlinarith

theorem linspace_length (a b : Rat) (n : Nat) : (linspace a b n).length = n := by simp [linspace]

/-- for three points or more and distinct end points, the second point lies strictly between them -/
theorem linspace_second_strict (a b : Rat) (n : Nat) (hn : 3 ≤ n) (hab : a ≠ b) :
    ∃ x ∈ linspace a b n, min a b < x ∧ x < max a b := by
  have hmem : at0 (linspace a b n) 1 ∈ linspace a b n := by
    rw [at0_of_lt _ _ (by rw [linspace_length]; omega)]
    exact List.getElem_mem _
  refine ⟨_, hmem, ?_⟩
  have hv : at0 (linspace a b n) 1 = a + (b - a) / ((n : Rat) - 1) := by
    rw [at0_of_lt _ _ (by rw [linspace_length]; omega)]
    simp only [linspace, List.getElem_map, List.getElem_range]
    rw [if_neg (by omega)]
    simp
  rw [hv]
  have hd : (2 : Rat) ≤ (n : Rat) - 1 := by
    have : (3 : Rat) ≤ (n : Rat) := by exact_mod_cast hn
    linarith
  have hd0 : (0 : Rat) < (n : Rat) - 1 := by linarith
  have e : (b - a) / ((n : Rat) - 1) = (1 / ((n : Rat) - 1)) * (b - a) := by field_simp
  have ht0 : (0 : Rat) < 1 / ((n : Rat) - 1) := by positivity
  have ht1 : 1 / ((n : Rat) - 1) < (1 : Rat) := by
    rw [div_lt_one hd0]; linarith
  rw [e]
  generalize 1 / ((n : Rat) - 1) = t at ht0 ht1
  rcases lt_or_gt_of_ne hab with h | h
  · rw [min_eq_left h.le, max_eq_right h.le]
    constructor <;> nlinarith
  · rw [min_eq_right h.le, max_eq_left h.le]
    constructor <;> nlinarith

/-! ## what is assumed of the opaque special functions -/

/-- the facts about `exp`, real powers and `sqrt(2π)` that the eight densities need: nothing else is assumed
(nothing at all about `log` and `abs`) -/
structure Special.Sound {K : Type} [Field K] [LinearOrder K] [IsStrictOrderedRing K] (S : Special K) : Prop where
  cast : ∀ q : Rat, S.ofRat q = (q : K)
  exp_pos : ∀ t, 0 < S.exp t
  rpow_pos : ∀ x y, 0 < x → 0 < S.rpow x y
  rpow_zero_nonneg : ∀ y, 0 ≤ S.rpow 0 y
  s2pi_pos : 0 < S.s2pi

end Pew.Convolve
