import PewModel.Npz
import Mathlib.Tactic.Linarith
import Mathlib.Tactic.Ring
import Mathlib.Tactic.FieldSimp
import Mathlib.Tactic.NormNum
import Mathlib.Tactic.Positivity
import Mathlib.Algebra.Order.Field.Rat
import Mathlib.Algebra.Order.Field.Basic

/-! # C01 — helper lemmas for `PewTheorems.C01` -/
namespace Pew.Npz

/-! ## strings -/

theorem splitOn_ne_nil (sep : Char) (s : Str) : splitOn sep s ≠ [] := by
  induction s with
  | nil => simp [splitOn]
  | cons c cs ih =>
    unfold splitOn
    split
    · simp
    · split <;> simp

theorem splitOn_append_sep (sep : Char) (a rest : Str) (h : sep ∉ a) :
    splitOn sep (a ++ sep :: rest) = a :: splitOn sep rest := by
  induction a with
  | nil => simp [splitOn]
  | cons c a ih =>
    have hc : c ≠ sep := by intro e; apply h; simp [e]
    have ha : sep ∉ a := by intro e; apply h; simp [e]
    simp only [List.cons_append]
    rw [splitOn, if_neg hc, ih ha]

theorem splitOn_noSep (sep : Char) (a : Str) (h : sep ∉ a) : splitOn sep a = [a] := by
  induction a with
  | nil => simp [splitOn]
  | cons c a ih =>
    have hc : c ≠ sep := by intro e; apply h; simp [e]
    have ha : sep ∉ a := by intro e; apply h; simp [e]
    rw [splitOn, if_neg hc, ih ha]

theorem tab_not_mem_tabToSpace (s : Str) : '\t' ∉ tabToSpace s := by
  simp only [tabToSpace, replaceChar, List.mem_map, not_exists, not_and]
  intro c _
  split <;> simp_all [eq_comm]

theorem tabToSpace_of_tabFree (s : Str) (h : '\t' ∉ s) : tabToSpace s = s := by
  simp only [tabToSpace, replaceChar]
  conv => rhs; rw [← List.map_id s]
  apply List.map_congr_left
  intro c hc
  have : c ≠ '\t' := by intro e; apply h; rw [← e]; exact hc
  simp [this]

theorem tabToSpace_idem (s : Str) : tabToSpace (tabToSpace s) = tabToSpace s :=
  tabToSpace_of_tabFree _ (tab_not_mem_tabToSpace s)

theorem stripNul_of_noNulEnd (s : Str) (h : noNulEnd s = true) : stripNul s = s := by
  unfold noNulEnd at h
  unfold stripNul
  rw [List.getLast?_eq_head?_reverse] at h
  cases hr : s.reverse with
  | nil =>
    have : s = [] := by simpa using hr
    simp [this]
  | cons c t =>
    rw [hr] at h
    have hc : (c == NUL) = false := by
      simp only [List.head?_cons, bne_iff_ne, ne_eq, Option.some.injEq] at h
      simpa using h
    rw [List.dropWhile_cons, hc]
    simp only [Bool.false_eq_true, if_false]
    rw [← hr, List.reverse_reverse]

/-- the tab-separated record of key/value pairs splits back into the pairs -/
theorem pairUp_split_join (l : List (Str × Str))
    (h : ∀ kv ∈ l, '\t' ∉ kv.1 ∧ '\t' ∉ kv.2) :
    pairUp (splitOn '\t' (joinSep '\t' (l.map fun kv => kv.1 ++ '\t' :: kv.2))) = l := by
  induction l with
  | nil => simp [joinSep, splitOn, pairUp]
  | cons kv r ih =>
    obtain ⟨hk, hv⟩ := h kv (by simp)
    cases r with
    | nil =>
      simp only [List.map_cons, List.map_nil, joinSep]
      rw [splitOn_append_sep _ _ _ hk, splitOn_noSep _ _ hv]
      simp [pairUp]
    | cons kv' r' =>
      have ih' := ih (fun x hx => h x (by simp [hx]))
      simp only [List.map_cons, joinSep] at ih' ⊢
      rw [List.append_assoc, List.cons_append, splitOn_append_sep _ _ _ hk, splitOn_append_sep _ _ _ hv]
      simp only [pairUp]
      rw [ih']

theorem unpack_packRaw (info : Info) : unpackInfo (packInfoRaw info) = infoSpec info := by
  unfold unpackInfo packInfoRaw infoSpec
  have : ((info.filter fun kv => kv.1 ≠ kFilePath).map fun kv => tabToSpace kv.1 ++ '\t' :: tabToSpace kv.2)
      = (((info.filter fun kv => kv.1 ≠ kFilePath).map fun kv => (tabToSpace kv.1, tabToSpace kv.2)).map
          fun kv => kv.1 ++ '\t' :: kv.2) := by
    simp [List.map_map, Function.comp_def]
  rw [this, pairUp_split_join]
  intro kv hkv
  simp only [List.mem_map] at hkv
  obtain ⟨x, _, rfl⟩ := hkv
  exact ⟨tab_not_mem_tabToSpace _, tab_not_mem_tabToSpace _⟩

/-! ## calibration -/

theorem npStr_id (w : Nat) (s : Str) (hl : s.length ≤ w) (hn : noNulEnd s = true) : npStr w s = s := by
  unfold npStr
  rw [List.take_of_length_le hl, stripNul_of_noNulEnd s hn]

theorem derivedWeights_length (col : List Flt) (b : Bool) : (derivedWeights col b).length = col.length := by
  unfold derivedWeights
  split
  · simp
  · split
    · simp
    · simp only
      split <;> simp

theorem optOfNaN_getD (o : Option Flt) (h : (o.any (·.isNaN)) = false) : optOfNaN (o.getD qnan) = o := by
  cases o with
  | none => simp [optOfNaN, qnan, Flt.isNaN]
  | some f =>
    simp only [Option.any_some] at h
    simp [optOfNaN, h]

theorem rowIsPad_pad : rowIsPad (qnan, (qnan, qnan)) = true := by
  simp [rowIsPad, qnan, Flt.isNaN]

/-- the strip mask removes exactly the padding -/
theorem filter_padded (ws : List Flt) (pts : List (Flt × Flt)) (a b : Nat)
    (hlen : ws.length = pts.length)
    (hrows : (ws.zip pts).all (fun r => !rowIsPad r) = true) :
    ((ws ++ List.replicate a qnan).zip (pts ++ List.replicate b (qnan, qnan))).filter (fun r => !rowIsPad r)
      = ws.zip pts := by
  rw [List.zip_append hlen, List.filter_append]
  have h1 : (ws.zip pts).filter (fun r => !rowIsPad r) = ws.zip pts := by
    apply List.filter_eq_self.mpr
    intro r hr
    exact (List.all_eq_true.mp hrows) r hr
  have h2 : ((List.replicate a qnan).zip (List.replicate b (qnan, qnan))).filter (fun r => !rowIsPad r) = [] := by
    apply List.filter_eq_nil_iff.mpr
    intro r hr
    have := List.of_mem_zip hr
    rw [List.mem_replicate, List.mem_replicate] at this
    obtain ⟨⟨_, e1⟩, ⟨_, e2⟩⟩ := this
    have : r = (qnan, (qnan, qnan)) := by cases r; simp_all
    rw [this, rowIsPad_pad]; simp
  rw [h1, h2, List.append_nil]

theorem cal_roundtrip_aux (c : Cal) (size : Nat) (hok : c.ok = true) (_hsize : c.points.length ≤ size) :
    Cal.fromArray (c.toArray size) = c := by
  simp only [Cal.ok, Bool.and_eq_true, decide_eq_true_eq, Bool.not_eq_true'] at hok
  obtain ⟨⟨⟨⟨⟨⟨⟨hul, hun⟩, hwl⟩, hwn⟩, hrsq⟩, herr⟩, hrows⟩, hw⟩ := hok
  have hlen : c.effWeights.length = c.points.length := by
    unfold Cal.effWeights
    split
    · split <;> simp [derivedWeights_length]
    · rename_i hk
      simpa [hk] using hw
  have hrows' := filter_padded c.effWeights c.points (size - c.effWeights.length) (size - c.points.length) hlen hrows
  unfold Cal.fromArray Cal.toArray
  simp only [hrows', npStr_id 32 c.unit hul hun, npStr_id 32 c.weighting hwl hwn,
    optOfNaN_getD _ hrsq, optOfNaN_getD _ herr]
  rw [List.map_snd_zip (by omega), List.map_fst_zip (by omega)]
  cases c with
  | mk i g u r e p wn ws =>
    simp only [Cal.mk.injEq, true_and]
    split
    · rename_i hk
      simp only [hk, if_true, beq_iff_eq] at hw
      exact hw.symm
    · rename_i hk
      simp [Cal.effWeights, hk]

/-! ## dicts -/

theorem keys_cons {β} (kv : Str × β) (d : List (Str × β)) : keys (kv :: d) = kv.1 :: keys d := rfl

theorem dictInsert_of_not_mem {β} (d : List (Str × β)) (k : Str) (v : β) (h : k ∉ keys d) :
    dictInsert d k v = d ++ [(k, v)] := by
  induction d with
  | nil => rfl
  | cons kv r ih =>
    obtain ⟨k', v'⟩ := kv
    simp only [keys, List.map_cons, List.mem_cons, not_or] at h
    have hne : ¬ k' = k := fun e => h.1 e.symm
    simp only [dictInsert, if_neg hne, List.cons_append]
    rw [ih (by simpa [keys] using h.2)]

theorem keys_dictInsert_of_not_mem {β} (d : List (Str × β)) (k : Str) (v : β) (h : k ∉ keys d) :
    keys (dictInsert d k v) = keys d ++ [k] := by
  rw [dictInsert_of_not_mem d k v h]; simp [keys]

theorem dictUpdate_append_of_nodup {β} (l d : List (Str × β)) (h : (keys (d ++ l)).Nodup) :
    dictUpdate d l = d ++ l := by
  induction l generalizing d with
  | nil => simp [dictUpdate]
  | cons kv r ih =>
    have hk : kv.1 ∉ keys d := by
      simp only [keys, List.map_append, List.map_cons] at h
      have := (List.nodup_append.mp h).2.2
      intro hm
      exact this _ hm _ (by simp) rfl
    simp only [dictUpdate, List.foldl_cons]
    rw [dictInsert_of_not_mem d kv.1 kv.2 hk]
    have := ih (d ++ [(kv.1, kv.2)]) (by simpa using h)
    simpa [dictUpdate] using this

theorem dictOfList_of_nodup {β} (l : List (Str × β)) (h : (keys l).Nodup) : dictOfList l = l := by
  have := dictUpdate_append_of_nodup l [] (by simpa using h)
  simpa [dictOfList] using this

theorem dictUpdate_cons_of_not_mem {β} (k : Str) (v : β) (b d : List (Str × β)) (h : k ∉ keys d) :
    dictUpdate ((k, v) :: b) d = (k, v) :: dictUpdate b d := by
  induction d generalizing b with
  | nil => rfl
  | cons kv r ih =>
    simp only [keys, List.map_cons, List.mem_cons, not_or] at h
    simp only [dictUpdate, List.foldl_cons]
    have hne : ¬ k = kv.1 := h.1
    simp only [dictInsert, if_neg hne]
    exact ih _ (by simpa [keys] using h.2)

/-- updating a dict with a dict that has the same keys in the same order replaces it -/
theorem dictUpdate_same_keys {β} (b d : List (Str × β)) (hk : keys b = keys d) (hn : (keys d).Nodup) :
    dictUpdate b d = d := by
  induction d generalizing b with
  | nil =>
    have : b = [] := by simpa [keys] using hk
    subst this; rfl
  | cons kv r ih =>
    obtain ⟨k, v⟩ := kv
    cases b with
    | nil => simp [keys] at hk
    | cons kv0 b' =>
      obtain ⟨k0, v0⟩ := kv0
      simp only [keys, List.map_cons, List.cons.injEq] at hk
      obtain ⟨rfl, hk'⟩ := hk
      simp only [keys, List.map_cons, List.nodup_cons] at hn
      have h1 : dictUpdate ((k0, v0) :: b') ((k0, v) :: r) = dictUpdate ((k0, v) :: b') r := by
        simp [dictUpdate, dictInsert]
      rw [h1, dictUpdate_cons_of_not_mem k0 v b' r (by simpa [keys] using hn.1)]
      rw [ih b' (by simpa [keys] using hk') hn.2]

/-! ## packed calibrations -/

theorem le_foldl_max (l : List (Str × Cal)) (m : Nat) :
    m ≤ l.foldl (fun m kc => max m kc.2.points.length) m ∧
    ∀ kc ∈ l, kc.2.points.length ≤ l.foldl (fun m kc => max m kc.2.points.length) m := by
  induction l generalizing m with
  | nil => simp
  | cons a r ih =>
    simp only [List.foldl_cons, List.mem_cons, forall_eq_or_imp]
    have := ih (max m a.2.points.length)
    refine ⟨by omega, by omega, this.2⟩

theorem le_maxLen (d : List (Str × Cal)) (kc : Str × Cal) (h : kc ∈ d) : kc.2.points.length ≤ maxLen d :=
  (le_foldl_max d 0).2 kc h

/-! ## SRR configuration -/

theorem roundHalfEven_near (n : Int) (q : Rat) (h1 : (n : Rat) - 1/2 < q) (h2 : q < n + 1/2) :
    roundHalfEven q = n := by
  rcases le_or_gt (n : Rat) q with h | h
  · have hf : q.floor = n := by
      apply le_antisymm
      · have : q.floor < n + 1 := by
          rw [Rat.floor_lt_iff]; push_cast; linarith
        omega
      · rw [Rat.le_floor_iff]; exact h
    unfold roundHalfEven
    simp only [hf]
    rw [if_pos (by linarith)]
  · have hf : q.floor = n - 1 := by
      apply le_antisymm
      · have : q.floor < n := by rw [Rat.floor_lt_iff]; exact h
        omega
      · rw [Rat.le_floor_iff]; push_cast; linarith
    unfold roundHalfEven
    simp only [hf]
    push_cast
    rw [if_neg (by linarith), if_pos (by linarith)]
    ring

/-- robustness of the warm-up recomputation: with every float operation within relative error
2⁻⁵³ of the exact result, `round((n·s)/s) = n` for every positive scan time and |n| ≤ 2⁵⁰ -/
theorem warmup_robust (fl : Rat → Rat) (hfl : ∀ x, |fl x - x| ≤ |x| / 2 ^ 53) (s : Rat) (hs : 0 < s)
    (N : Int) (hN : N.natAbs ≤ 2 ^ 50) :
    roundHalfEven (fl (fl ((N : Rat) * s) / s)) = N := by
  have hA : |(N : Rat)| ≤ 2 ^ 50 := by
    have : ((N.natAbs : Int) : Rat) ≤ ((2 ^ 50 : Nat) : Rat) := by exact_mod_cast hN
    rw [Int.natCast_natAbs, Int.cast_abs] at this
    calc |(N : Rat)| ≤ ((2 ^ 50 : Nat) : Rat) := this
      _ = 2 ^ 50 := by norm_num
  have hy := hfl ((N : Rat) * s)
  have hw : |fl ((N : Rat) * s) / s - N| ≤ |(N : Rat)| / 2 ^ 53 := by
    have e : fl ((N : Rat) * s) / s - N = (fl ((N : Rat) * s) - N * s) / s := by
      field_simp
    rw [e, abs_div, abs_of_pos hs, div_le_iff₀ hs]
    calc |fl (↑N * s) - ↑N * s| ≤ |(N : Rat) * s| / 2 ^ 53 := hy
      _ = |(N : Rat)| / 2 ^ 53 * s := by rw [abs_mul, abs_of_pos hs]; ring
  have hz := hfl (fl ((N : Rat) * s) / s)
  have hwa : |fl ((N : Rat) * s) / s| ≤ |(N : Rat)| + |(N : Rat)| / 2 ^ 53 := by
    have := abs_sub_abs_le_abs_sub (fl ((N : Rat) * s) / s) (N : Rat)
    linarith
  have hfin : |fl (fl ((N : Rat) * s) / s) - N| < 1 / 2 := by
    have t := abs_sub_le (fl (fl ((N : Rat) * s) / s)) (fl ((N : Rat) * s) / s) (N : Rat)
    have h53 : (0 : Rat) < 2 ^ 53 := by positivity
    have : |fl ((N : Rat) * s) / s| / 2 ^ 53 ≤ (|(N : Rat)| + |(N : Rat)| / 2 ^ 53) / 2 ^ 53 :=
      div_le_div_of_nonneg_right hwa h53.le
    have hb : (|(N : Rat)| + |(N : Rat)| / 2 ^ 53) / 2 ^ 53 + |(N : Rat)| / 2 ^ 53 < 1 / 2 := by
      have : |(N : Rat)| / 2 ^ 53 ≤ 2 ^ 50 / 2 ^ 53 := div_le_div_of_nonneg_right hA h53.le
      have h2 : (|(N : Rat)| + |(N : Rat)| / 2 ^ 53) / 2 ^ 53 ≤ (2 ^ 50 + 2 ^ 50 / 2 ^ 53) / 2 ^ 53 :=
        div_le_div_of_nonneg_right (by linarith) h53.le
      have : ((2 : Rat) ^ 50 + 2 ^ 50 / 2 ^ 53) / 2 ^ 53 + 2 ^ 50 / 2 ^ 53 < 1 / 2 := by norm_num
      linarith
    linarith
  rw [abs_lt] at hfin
  exact roundHalfEven_near N _ (by linarith [hfin.1]) (by linarith [hfin.2])

theorem foldl_lcm_const (l : List Int) (s : Nat) (h : ∀ x ∈ l, x = (s : Int)) :
    l.foldl (fun a b => Nat.lcm a b.natAbs) s = s := by
  induction l with
  | nil => rfl
  | cons x r ih =>
    have hx : x = (s : Int) := h x (by simp)
    simp only [List.foldl_cons, hx, Int.natAbs_natCast, Nat.lcm_self]
    exact ih (fun y hy => h y (by simp [hy]))

theorem lcmList_const (l : List Int) (s : Nat) (hne : l ≠ []) (h : ∀ x ∈ l, x = (s : Int)) :
    lcmList l = s := by
  cases l with
  | nil => exact absurd rfl hne
  | cons x r =>
    have hx : x = (s : Int) := h x (by simp)
    simp only [lcmList, List.foldl_cons, hx, Int.natAbs_natCast, Nat.lcm_one_left]
    exact foldl_lcm_const r s (fun y hy => h y (by simp [hy]))

theorem srr_roundtrip (fl : Rat → Rat) (hfl : ∀ x, |fl x - x| ≤ |x| / 2 ^ 53) (c : SRR) (hok : c.ok = true) :
    srrFromArray fl (Config.toArray fl (.srr c)) = .ok (.srr c) := by
  simp only [SRR.ok, Bool.and_eq_true, decide_eq_true_eq, Bool.not_eq_true', List.isEmpty_eq_false_iff] at hok
  obtain ⟨⟨⟨hs, hsz⟩, hoff⟩, hN⟩ := hok
  simp only [Config.toArray, srrFromArray]
  rw [if_neg (by simpa using hoff)]
  have hl : lcmList ((c.subOffsets.map fun o => (o, (c.subSize : Int))).map (·.2)) = c.subSize := by
    apply lcmList_const
    · simpa using hoff
    · intro x hx
      simp only [List.map_map, List.mem_map, Function.comp] at hx
      obtain ⟨_, _, rfl⟩ := hx
      rfl
  have hz : (c.subSize : Int) ≠ 0 := by omega
  rw [List.map_map] at hl
  simp only [SRR.mk', List.map_map, hl, warmup_robust fl hfl c.scantime hs c.warmupN hN]
  have : c.subOffsets.map ((fun od : Int × Int => od.1 * (c.subSize : Int) / od.2) ∘ fun o => (o, (c.subSize : Int)))
      = c.subOffsets := by
    conv => rhs; rw [← List.map_id c.subOffsets]
    apply List.map_congr_left
    intro o _
    simp only [Function.comp, id]
    exact Int.mul_ediv_cancel o hz
  rw [this]
  rfl

/-! ## image data -/

theorem chunks_flatMap (k : Nat) (ls : List Layer) (h : ∀ l ∈ ls, l.cells.length = k) :
    chunks k ls.length (ls.flatMap (·.cells)) = ls.map (·.cells) := by
  induction ls with
  | nil => rfl
  | cons a r ih =>
    have ha : a.cells.length = k := h a (by simp)
    simp only [List.length_cons, List.flatMap_cons, chunks, List.map_cons]
    rw [List.take_left' ha, List.drop_left' ha, ih (fun l hl => h l (by simp [hl]))]

theorem splitLayers_stack (fields : List (Str × Str)) (sh : List Nat) (ls : List Layer)
    (h : ∀ l ∈ ls, l.shape = sh ∧ l.cells.length = prod sh) :
    splitLayers ⟨fields, ls.length :: sh, ls.flatMap (·.cells)⟩ = .ok ls := by
  simp only [splitLayers]
  rw [chunks_flatMap _ _ (fun l hl => (h l hl).2), List.map_map]
  have : ls.map ((fun c => (⟨sh, c⟩ : Layer)) ∘ fun l => l.cells) = ls := by
    conv => rhs; rw [← List.map_id ls]
    apply List.map_congr_left
    intro l hl
    have := (h l hl).1
    cases l
    simp_all
  rw [this]
  rfl

/-! ## trailing NUL of packed strings -/

theorem noNulEnd_append_sep (a t : Str) (c : Char) (hc : c ≠ NUL) (h : noNulEnd t = true) :
    noNulEnd (a ++ c :: t) = true := by
  cases t with
  | nil => simp [noNulEnd, hc]
  | cons d t' =>
    simp only [noNulEnd, List.getLast?_append, List.getLast?_cons_cons] at h ⊢
    cases hl : (d :: t').getLast? with
    | none => simp at hl
    | some x => rw [hl] at h; simpa using h

theorem noNulEnd_tabToSpace (t : Str) : noNulEnd (tabToSpace t) = noNulEnd t := by
  simp only [noNulEnd, tabToSpace, replaceChar, List.getLast?_map]
  cases t.getLast? with
  | none => rfl
  | some c =>
    simp only [Option.map_some]
    by_cases hc : c = '\t'
    · subst hc; decide
    · simp [hc]

theorem tab_ne_NUL : '\t' ≠ NUL := by decide

theorem noNulEnd_joinSep (l : List Str) (h : ∀ x ∈ l, noNulEnd x = true) : noNulEnd (joinSep '\t' l) = true := by
  induction l with
  | nil => rfl
  | cons a r ih =>
    cases r with
    | nil => simpa [joinSep] using h a (by simp)
    | cons b r' =>
      simp only [joinSep]
      exact noNulEnd_append_sep _ _ _ tab_ne_NUL (ih (fun x hx => h x (by simp [hx])))

theorem noNulEnd_packInfoRaw (i : Info) (h : infoNoNul i = true) : noNulEnd (packInfoRaw i) = true := by
  unfold packInfoRaw
  apply noNulEnd_joinSep
  intro x hx
  simp only [List.mem_map, List.mem_filter] at hx
  obtain ⟨kv, ⟨hkv, hne⟩, rfl⟩ := hx
  apply noNulEnd_append_sep _ _ _ tab_ne_NUL
  rw [noNulEnd_tabToSpace]
  have := (List.all_eq_true.mp h) kv hkv
  simp only [Bool.or_eq_true, beq_iff_eq] at this
  rcases this with e | e
  · simp [e] at hne
  · exact e

/-! ## the pieces of `load (save L)` -/

theorem header_unpack (ver cls time : Str) (ht : noNulEnd time = true) :
    unpackInfo (packInfo [(kVersion, ver), (kClass, cls), (kTime, time)])
      = [(kVersion, tabToSpace ver), (kClass, tabToSpace cls), (kTime, tabToSpace time)] := by
  have h1 : kVersion ≠ kFilePath := by decide
  have h2 : kClass ≠ kFilePath := by decide
  have h3 : kTime ≠ kFilePath := by decide
  have h4 : ¬ kVersion = kClass := by decide
  have h5 : ¬ kVersion = kTime := by decide
  have h6 : ¬ kClass = kTime := by decide
  have k1 : tabToSpace kVersion = kVersion := by decide
  have k2 : tabToSpace kClass = kClass := by decide
  have k3 : tabToSpace kTime = kTime := by decide
  have hn : noNulEnd (packInfoRaw [(kVersion, ver), (kClass, cls), (kTime, time)]) = true := by
    have : packInfoRaw [(kVersion, ver), (kClass, cls), (kTime, time)]
        = (tabToSpace kVersion ++ '\t' :: tabToSpace ver) ++ '\t' ::
          ((tabToSpace kClass ++ '\t' :: tabToSpace cls) ++ '\t' :: (tabToSpace kTime ++ '\t' :: tabToSpace time)) := by
      simp [packInfoRaw, List.filter, h1, h2, h3, joinSep]
    rw [this]
    apply noNulEnd_append_sep _ _ _ tab_ne_NUL
    apply noNulEnd_append_sep _ _ _ tab_ne_NUL
    apply noNulEnd_append_sep _ _ _ tab_ne_NUL
    rw [noNulEnd_tabToSpace]; exact ht
  unfold packInfo
  rw [stripNul_of_noNulEnd _ hn, unpack_packRaw]
  simp [infoSpec, dictOfList, dictUpdate, dictInsert, List.filter, h1, h2, h3, h4, h5, h6, k1, k2, k3]

theorem tabFree_of_version (ver : Str) (h : ver.all (fun c => c.isDigit || c == '.') = true) : '\t' ∉ ver := by
  intro hm
  have := (List.all_eq_true.mp h) _ hm
  revert this
  decide

theorem tabToSpace_classOf (c : Config) : tabToSpace (classOf c) = classOf c := by
  cases c <;> (simp only [classOf]; decide)

theorem loadConfig_toArray (fl : Rat → Rat) (hfl : ∀ x, |fl x - x| ≤ |x| / 2 ^ 53) (c : Config) (hok : c.ok = true) :
    loadConfig fl (classOf c) (c.toArray fl) = .ok (if c.isSRR then Kind.srr else Kind.laser, c) := by
  cases c with
  | raster a b d =>
    have : classOf (Config.raster a b d) ∈ clsLaser := by simp only [classOf]; decide
    simp only [loadConfig, if_pos this]; rfl
  | spot a b =>
    have h1 : ¬ classOf (Config.spot a b) ∈ clsLaser := by simp only [classOf]; decide
    have h2 : classOf (Config.spot a b) ∈ clsSpot := by simp only [classOf]; decide
    simp only [loadConfig, if_neg h1, if_pos h2]; rfl
  | srr c =>
    have h1 : ¬ classOf (Config.srr c) ∈ clsLaser := by simp only [classOf]; decide
    have h2 : ¬ classOf (Config.srr c) ∈ clsSpot := by simp only [classOf]; decide
    have h3 : classOf (Config.srr c) ∈ clsSRR := by simp only [classOf]; decide
    simp only [loadConfig, if_neg h1, if_neg h2, if_pos h3]
    rw [srr_roundtrip fl hfl c hok]
    rfl

theorem nativeDtype_of_native (d : Str) (h : isNativeDtype d = true) : nativeDtype d = d := by
  unfold nativeDtype
  split
  · simp [isNativeDtype] at h
  · rfl

theorem map_nativeDtype (fields : List (Str × Str)) (h : fields.all (fun f => isNativeDtype f.2) = true) :
    (fields.map fun f => (f.1, nativeDtype f.2)) = fields := by
  conv => rhs; rw [← List.map_id fields]
  apply List.map_congr_left
  intro f hf
  have := (List.all_eq_true.mp h) f hf
  simp [nativeDtype_of_native f.2 this]

theorem data_roundtrip (L : Laser) (h : layersOk L.kind L.layers = true)
    (hnat : (L.kind != .srr || L.fields.all fun f => isNativeDtype f.2) = true) :
    ∃ d, dataToArray L = .ok d ∧ d.fields = L.fields ∧
      ∀ cal cfg info, construct L.kind d cal cfg info = .ok (mkLaser L.kind L.fields L.layers cal cfg info) := by
  cases hk : L.kind with
  | laser =>
    rw [hk] at h
    match hl : L.layers, h with
    | [l], _ =>
      refine ⟨⟨L.fields, l.shape, l.cells⟩, by simp only [dataToArray, hk, hl]; rfl, rfl, ?_⟩
      intro cal cfg info
      rfl
  | srr =>
    rw [hk] at h
    match hl : L.layers, h with
    | l :: ls, h =>
      simp only [layersOk, Bool.and_eq_true, decide_eq_true_eq, List.all_eq_true, beq_iff_eq] at h
      obtain ⟨hlen, hall⟩ := h
      have hshape : ls.all (fun m => m.shape == l.shape) = true := by
        simp only [List.all_eq_true, beq_iff_eq]
        intro m hm
        exact (hall m (by simp [hm])).1
      have hmap : (L.fields.map fun f => (f.1, nativeDtype f.2)) = L.fields := by
        apply map_nativeDtype
        simpa [hk] using hnat
      refine ⟨⟨L.fields, (ls.length + 1) :: l.shape, (l :: ls).flatMap (·.cells)⟩, ?_, rfl, ?_⟩
      · simp only [dataToArray, hk, hl, hshape, if_true, hmap]; rfl
      · intro cal cfg info
        have hs := splitLayers_stack L.fields l.shape (l :: ls) hall
        simp only [List.length_cons] at hs
        simp only [construct, hs]
        have : ¬ (ls.length + 1 ≤ 1) := by omega
        simp [bind, Except.bind, this]
        rfl

theorem versionOk_cases (ver : Str) (hv : versionOk ver = true) :
    '\t' ∉ ver ∧ (∃ r, compareVersion ver v070 = .ok r ∧ r ≠ -1) ∧ (∃ r, compareVersion ver v080 = .ok r ∧ r ≠ -1) := by
  simp only [versionOk, Bool.and_eq_true] at hv
  obtain ⟨⟨h1, h2⟩, h3⟩ := hv
  refine ⟨tabFree_of_version ver h1, ?_, ?_⟩
  · cases hc : compareVersion ver v070 with
    | error e => simp [hc] at h2
    | ok r => exact ⟨r, rfl, by simpa [hc] using h2⟩
  · cases hc : compareVersion ver v080 with
    | error e => simp [hc] at h3
    | ok r => exact ⟨r, rfl, by simpa [hc] using h3⟩

/-! ## more dict lemmas (for the fixpoint) -/

theorem mem_dictInsert {β} (d : List (Str × β)) (k : Str) (v : β) (x : Str × β) (h : x ∈ dictInsert d k v) :
    x ∈ d ∨ x = (k, v) := by
  induction d with
  | nil => simp [dictInsert] at h; exact Or.inr h
  | cons kv r ih =>
    obtain ⟨k', v'⟩ := kv
    simp only [dictInsert] at h
    split at h
    · rename_i e
      simp only [List.mem_cons] at h
      rcases h with h | h
      · right; rw [h, e]
      · left; simp [h]
    · simp only [List.mem_cons] at h
      rcases h with h | h
      · left; simp [h]
      · rcases ih h with h | h
        · left; simp [h]
        · right; exact h

theorem mem_dictUpdate {β} (d l : List (Str × β)) (x : Str × β) (h : x ∈ dictUpdate d l) : x ∈ d ∨ x ∈ l := by
  induction l generalizing d with
  | nil => left; simpa [dictUpdate] using h
  | cons kv r ih =>
    simp only [dictUpdate, List.foldl_cons] at h
    rcases ih _ h with h | h
    · rcases mem_dictInsert _ _ _ _ h with h | h
      · left; exact h
      · right; simp [h]
    · right; simp [h]

theorem keys_dictInsert_of_mem {β} (d : List (Str × β)) (k : Str) (v : β) (h : k ∈ keys d) :
    keys (dictInsert d k v) = keys d := by
  induction d with
  | nil => simp [keys] at h
  | cons kv r ih =>
    obtain ⟨k', v'⟩ := kv
    simp only [dictInsert]
    split
    · rfl
    · rename_i hne
      simp only [keys, List.map_cons, List.mem_cons] at h ⊢
      rcases h with h | h
      · exact absurd h.symm hne
      · have := ih (by simpa [keys] using h)
        simp only [keys] at this
        rw [this]

theorem nodup_keys_dictInsert {β} (d : List (Str × β)) (k : Str) (v : β) (h : (keys d).Nodup) :
    (keys (dictInsert d k v)).Nodup := by
  by_cases hm : k ∈ keys d
  · rw [keys_dictInsert_of_mem d k v hm]; exact h
  · rw [keys_dictInsert_of_not_mem d k v hm]
    rw [List.nodup_append]
    refine ⟨h, by simp, ?_⟩
    intro a ha b hb
    simp only [List.mem_singleton] at hb
    subst hb
    intro e; subst e; exact hm ha

theorem nodup_keys_dictUpdate {β} (d l : List (Str × β)) (h : (keys d).Nodup) : (keys (dictUpdate d l)).Nodup := by
  induction l generalizing d with
  | nil => simpa [dictUpdate] using h
  | cons kv r ih =>
    simp only [dictUpdate, List.foldl_cons]
    exact ih _ (nodup_keys_dictInsert d kv.1 kv.2 h)

theorem nodup_keys_dictOfList {β} (l : List (Str × β)) : (keys (dictOfList l)).Nodup :=
  nodup_keys_dictUpdate [] l (by simp [keys])

theorem dictGet_dictInsert {β} (d : List (Str × β)) (k k' : Str) (v : β) :
    dictGet (dictInsert d k v) k' = if k = k' then some v else dictGet d k' := by
  induction d with
  | nil => simp [dictInsert, dictGet]
  | cons kv r ih =>
    obtain ⟨k0, v0⟩ := kv
    simp only [dictInsert]
    split
    · rename_i e
      subst e
      simp only [dictGet]
      split <;> rfl
    · rename_i hne
      simp only [dictGet, ih]
      split
      · rename_i e
        subst e
        rw [if_neg (fun e => hne e.symm)]
      · rfl

theorem dictGet_eq_none_iff {β} (d : List (Str × β)) (k : Str) : dictGet d k = none ↔ k ∉ keys d := by
  induction d with
  | nil => simp [dictGet, keys]
  | cons kv r ih =>
    obtain ⟨k0, v0⟩ := kv
    simp only [dictGet, keys, List.map_cons, List.mem_cons, not_or]
    split
    · rename_i e; subst e; simp
    · rename_i hne
      rw [ih]
      simp only [keys]
      constructor
      · intro h; exact ⟨fun e => hne e.symm, h⟩
      · intro h; exact h.2

theorem dictInsert_same {β} (d : List (Str × β)) (k : Str) (v : β) (h : dictGet d k = some v) :
    dictInsert d k v = d := by
  induction d with
  | nil => simp [dictGet] at h
  | cons kv r ih =>
    obtain ⟨k0, v0⟩ := kv
    simp only [dictGet] at h
    simp only [dictInsert]
    split
    · rename_i e
      rw [if_pos e] at h
      simp only [Option.some.injEq] at h
      rw [h]
    · rename_i hne
      rw [if_neg hne] at h
      rw [ih h]

theorem dictGet_filter_ne {β} (d : List (Str × β)) (k k0 : Str) (h : k ≠ k0) :
    dictGet (d.filter fun kv => kv.1 ≠ k0) k = dictGet d k := by
  induction d with
  | nil => rfl
  | cons kv r ih =>
    obtain ⟨k1, v1⟩ := kv
    simp only [List.filter_cons]
    by_cases e : k1 = k0
    · subst e
      simp only [ne_eq, not_true_eq_false, decide_false, Bool.false_eq_true, if_false, dictGet]
      rw [if_neg (fun e => h e.symm)]
      exact ih
    · simp only [ne_eq, e, not_false_eq_true, decide_true, if_true, dictGet, ih]

theorem dictGet_append {β} (a b : List (Str × β)) (k : Str) :
    dictGet (a ++ b) k = (dictGet a k).or (dictGet b k) := by
  induction a with
  | nil => simp [dictGet]
  | cons kv r ih =>
    obtain ⟨k1, v1⟩ := kv
    simp only [List.cons_append, dictGet]
    split
    · rfl
    · exact ih

/-- assigning to a key that is present replaces the value in place -/
theorem dictInsert_eq_map {β} (b : List (Str × β)) (k : Str) (v : β) (hm : k ∈ keys b) (hn : (keys b).Nodup) :
    dictInsert b k v = b.map fun kv => if kv.1 = k then (kv.1, v) else kv := by
  induction b with
  | nil => simp [keys] at hm
  | cons kv r ih =>
    obtain ⟨k0, v0⟩ := kv
    simp only [keys, List.map_cons, List.nodup_cons] at hn
    simp only [dictInsert, List.map_cons]
    by_cases e : k0 = k
    · subst e
      simp only [if_true]
      congr 1
      conv => lhs; rw [← List.map_id r]
      apply List.map_congr_left
      intro kv hkv
      have : kv.1 ≠ k0 := by
        intro e; apply hn.1; rw [← e]; exact List.mem_map_of_mem hkv
      simp [this]
    · simp only [if_neg e]
      congr 1
      apply ih
      · simp only [keys, List.map_cons, List.mem_cons] at hm
        rcases hm with hm | hm
        · exact absurd hm.symm e
        · exact hm
      · exact hn.2

/-- `base.update(d)` when every key of `d` is a key of `base`: each entry of `base` keeps its place and
takes the value `d` holds under its key, if any — the order of `d` plays no part -/
theorem dictUpdate_eq_map {β} (b d : List (Str × β)) (hb : (keys b).Nodup) (hd : (keys d).Nodup)
    (hsub : ∀ k ∈ keys d, k ∈ keys b) :
    dictUpdate b d = b.map fun kv => (kv.1, (dictGet d kv.1).getD kv.2) := by
  induction d generalizing b with
  | nil =>
    simp only [dictUpdate, List.foldl_nil, dictGet, Option.getD_none]
    conv => lhs; rw [← List.map_id b]
    apply List.map_congr_left
    intro kv _
    rfl
  | cons kv r ih =>
    obtain ⟨k, v⟩ := kv
    simp only [keys, List.map_cons, List.nodup_cons] at hd
    have hk : k ∈ keys b := hsub k (by simp [keys])
    have hstep : dictUpdate b ((k, v) :: r) = dictUpdate (dictInsert b k v) r := by
      simp [dictUpdate]
    rw [hstep, ih (dictInsert b k v) (by rw [keys_dictInsert_of_mem b k v hk]; exact hb) hd.2
      (by intro k' hk'; rw [keys_dictInsert_of_mem b k v hk]; exact hsub k' (by simp [keys] at hk' ⊢; right; simpa [keys] using hk'))]
    rw [dictInsert_eq_map b k v hk hb, List.map_map]
    apply List.map_congr_left
    intro kv hkv
    simp only [Function.comp, dictGet]
    by_cases e : kv.1 = k
    · have hnone : dictGet r k = none := by
        rw [dictGet_eq_none_iff]
        simpa [keys] using hd.1
      simp [e, hnone]
    · have e' : ¬ k = kv.1 := fun h => e h.symm
      simp [e, e']

/-! ## the info of a loaded laser is a fixpoint of save → load -/

theorem dictGet_mem {β} (d : List (Str × β)) (k : Str) (v : β) (h : dictGet d k = some v) : (k, v) ∈ d := by
  induction d with
  | nil => simp [dictGet] at h
  | cons kv r ih =>
    obtain ⟨k0, v0⟩ := kv
    simp only [dictGet] at h
    split at h
    · rename_i e
      simp only [Option.some.injEq] at h
      simp [e, h]
    · simp [ih h]

theorem mem_infoSpec (i : Info) (kv : Str × Str) (h : kv ∈ infoSpec i) :
    ∃ kv0 ∈ i, kv0.1 ≠ kFilePath ∧ kv = (tabToSpace kv0.1, tabToSpace kv0.2) := by
  unfold infoSpec dictOfList at h
  rcases mem_dictUpdate _ _ _ h with h | h
  · simp at h
  · simp only [List.mem_map, List.mem_filter] at h
    obtain ⟨kv0, ⟨hm, hne⟩, rfl⟩ := h
    exact ⟨kv0, hm, by simpa using hne, rfl⟩

theorem mem_finishInfo (p : PathInfo) (ver : Str) (i : Info) (kv : Str × Str) (h : kv ∈ finishInfo p ver i) :
    kv ∈ i ∨ (kv.1 = kName ∧ (kv.2 = p.stem ∨ ∃ k', (k', kv.2) ∈ i)) ∨ kv = (kFilePath, p.resolved) ∨
      kv = (kFileVersion, ver) := by
  unfold finishInfo at h
  rcases mem_dictInsert _ _ _ _ h with h | h
  · rcases mem_dictInsert _ _ _ _ h with h | h
    · rcases mem_dictInsert _ _ _ _ h with h | h
      · exact Or.inl h
      · right; left
        rw [h]
        refine ⟨rfl, ?_⟩
        cases hg : dictGet i kName with
        | none => left; simp
        | some n => right; exact ⟨kName, by simpa using dictGet_mem i kName n hg⟩
    · exact Or.inr (Or.inr (Or.inl h))
  · exact Or.inr (Or.inr (Or.inr h))

/-- what is known of the info of a laser that came out of `load` -/
structure Good (p : PathInfo) (ver : Str) (X : Info) : Prop where
  nodup : (keys X).Nodup
  tabfree : ∀ kv ∈ X, kv.1 ≠ kFilePath → '\t' ∉ kv.1 ∧ '\t' ∉ kv.2
  name : kName ∈ keys X
  fver : dictGet X kFileVersion = some ver
  fpath : dictGet X kFilePath = some p.resolved
  nonul : infoNoNul X = true

/-- the info after one more save → load -/
def nextInfo (p : PathInfo) (X : Info) : Info :=
  (X.filter fun kv => kv.1 ≠ kFilePath) ++ [(kFilePath, p.resolved)]

theorem kName_ne_FP : kName ≠ kFilePath := by decide
theorem kFV_ne_FP : kFileVersion ≠ kFilePath := by decide
theorem kFV_ne_Name : kFileVersion ≠ kName := by decide

theorem good_finish (p : PathInfo) (ver : Str) (i : Info) (hi : infoNoNul i = true)
    (hst : '\t' ∉ p.stem) (hsn : noNulEnd p.stem = true) (hvt : '\t' ∉ ver) (hvn : noNulEnd ver = true) :
    Good p ver (finishInfo p ver (infoSpec i)) := by
  have hspec_tab : ∀ kv ∈ infoSpec i, '\t' ∉ kv.1 ∧ '\t' ∉ kv.2 := by
    intro kv hkv
    obtain ⟨kv0, _, _, rfl⟩ := mem_infoSpec i kv hkv
    exact ⟨tab_not_mem_tabToSpace _, tab_not_mem_tabToSpace _⟩
  have hspec_nul : ∀ kv ∈ infoSpec i, noNulEnd kv.2 = true := by
    intro kv hkv
    obtain ⟨kv0, hm, hne, rfl⟩ := mem_infoSpec i kv hkv
    simp only [noNulEnd_tabToSpace]
    have := (List.all_eq_true.mp hi) kv0 hm
    simp only [Bool.or_eq_true, beq_iff_eq] at this
    rcases this with e | e
    · exact absurd e hne
    · exact e
  refine ⟨?_, ?_, ?_, ?_, ?_, ?_⟩
  · exact nodup_keys_dictInsert _ _ _ (nodup_keys_dictInsert _ _ _ (nodup_keys_dictInsert _ _ _ (nodup_keys_dictOfList _)))
  · intro kv hkv hne
    rcases mem_finishInfo p ver _ kv hkv with h | ⟨hk, h⟩ | h | h
    · exact hspec_tab kv h
    · refine ⟨by rw [hk]; decide, ?_⟩
      rcases h with h | ⟨k', h⟩
      · rw [h]; exact hst
      · exact (hspec_tab _ h).2
    · rw [h] at hne; exact absurd rfl hne
    · rw [h]; exact ⟨by show '\t' ∉ kFileVersion; decide, hvt⟩
  · apply Decidable.not_not.mp
    rw [← dictGet_eq_none_iff]
    simp only [finishInfo, dictGet_dictInsert, if_neg kFV_ne_Name, if_neg kName_ne_FP.symm, if_true]
    simp
  · simp [finishInfo, dictGet_dictInsert]
  · simp only [finishInfo, dictGet_dictInsert, if_neg kFV_ne_FP, if_true]
  · apply List.all_eq_true.mpr
    intro kv hkv
    simp only [Bool.or_eq_true, beq_iff_eq]
    rcases mem_finishInfo p ver _ kv hkv with h | ⟨_, h⟩ | h | h
    · exact Or.inr (hspec_nul kv h)
    · right
      rcases h with h | ⟨k', h⟩
      · rw [h]; exact hsn
      · exact hspec_nul (k', kv.2) h
    · left; rw [h]
    · right; rw [h]; exact hvn

theorem infoSpec_good (p : PathInfo) (ver : Str) (X : Info) (g : Good p ver X) :
    infoSpec X = X.filter fun kv => kv.1 ≠ kFilePath := by
  unfold infoSpec
  have hmap : ((X.filter fun kv => kv.1 ≠ kFilePath).map fun kv => (tabToSpace kv.1, tabToSpace kv.2))
      = X.filter fun kv => kv.1 ≠ kFilePath := by
    conv => rhs; rw [← List.map_id (X.filter _)]
    apply List.map_congr_left
    intro kv hkv
    simp only [List.mem_filter, decide_eq_true_eq] at hkv
    obtain ⟨h1, h2⟩ := g.tabfree kv hkv.1 hkv.2
    simp [tabToSpace_of_tabFree _ h1, tabToSpace_of_tabFree _ h2]
  rw [hmap]
  apply dictOfList_of_nodup
  exact List.Nodup.sublist (List.Sublist.map _ List.filter_sublist) g.nodup

theorem not_FP_mem_keys_filter (X : Info) : kFilePath ∉ keys (X.filter fun kv => kv.1 ≠ kFilePath) := by
  simp only [keys, List.mem_map, List.mem_filter, not_exists, not_and]
  intro kv ⟨_, h⟩ e
  simp [e] at h

theorem finish_filter (p : PathInfo) (ver : Str) (X : Info) (g : Good p ver X) :
    finishInfo p ver (X.filter fun kv => kv.1 ≠ kFilePath) = nextInfo p X := by
  unfold finishInfo nextInfo
  have hname : ∃ n, dictGet (X.filter fun kv => kv.1 ≠ kFilePath) kName = some n := by
    rw [dictGet_filter_ne X kName kFilePath kName_ne_FP]
    cases h : dictGet X kName with
    | none => exact absurd g.name ((dictGet_eq_none_iff X kName).mp h)
    | some n => exact ⟨n, rfl⟩
  obtain ⟨n, hn⟩ := hname
  rw [hn, Option.getD_some, dictInsert_same _ _ _ hn,
    dictInsert_of_not_mem _ _ _ (not_FP_mem_keys_filter X)]
  apply dictInsert_same
  rw [dictGet_append, dictGet_filter_ne X kFileVersion kFilePath kFV_ne_FP, g.fver]
  rfl

/-- one more save → load of a loaded laser's info: `File Path` moves to the end, nothing else -/
theorem finish_spec_good (p : PathInfo) (ver : Str) (X : Info) (g : Good p ver X) :
    finishInfo p ver (infoSpec X) = nextInfo p X := by
  rw [infoSpec_good p ver X g, finish_filter p ver X g]

theorem nextInfo_idem (p : PathInfo) (X : Info) : nextInfo p (nextInfo p X) = nextInfo p X := by
  unfold nextInfo
  rw [List.filter_append, List.filter_filter]
  simp

theorem dictGet_nextInfo (p : PathInfo) (ver : Str) (X : Info) (g : Good p ver X) (k : Str) :
    dictGet (nextInfo p X) k = dictGet X k := by
  unfold nextInfo
  rw [dictGet_append]
  by_cases e : k = kFilePath
  · subst e
    rw [(dictGet_eq_none_iff _ _).mpr (not_FP_mem_keys_filter X), g.fpath]
    simp [dictGet]
  · rw [dictGet_filter_ne X k kFilePath e]
    cases dictGet X k with
    | some v => rfl
    | none =>
      simp only [Option.or, dictGet]
      rw [if_neg (fun h => e h.symm)]

theorem good_next (p : PathInfo) (ver : Str) (X : Info) (g : Good p ver X) : Good p ver (nextInfo p X) := by
  have hsub : ∀ kv ∈ (X.filter fun kv => kv.1 ≠ kFilePath), kv ∈ X := fun kv h => (List.mem_filter.mp h).1
  refine ⟨?_, ?_, ?_, ?_, ?_, ?_⟩
  · unfold nextInfo
    simp only [keys, List.map_append, List.map_cons, List.map_nil]
    rw [List.nodup_append]
    refine ⟨List.Nodup.sublist (List.Sublist.map _ List.filter_sublist) g.nodup, by simp, ?_⟩
    intro a ha b hb
    simp only [List.mem_singleton] at hb
    subst hb
    intro e; subst e
    exact not_FP_mem_keys_filter X ha
  · intro kv hkv hne
    unfold nextInfo at hkv
    rcases List.mem_append.mp hkv with h | h
    · exact g.tabfree kv (hsub kv h) hne
    · simp only [List.mem_singleton] at h
      rw [h] at hne; exact absurd rfl hne
  · apply Decidable.not_not.mp
    rw [← dictGet_eq_none_iff, dictGet_nextInfo p ver X g, dictGet_eq_none_iff]
    exact fun h => h g.name
  · rw [dictGet_nextInfo p ver X g]; exact g.fver
  · rw [dictGet_nextInfo p ver X g]; exact g.fpath
  · apply List.all_eq_true.mpr
    intro kv hkv
    unfold nextInfo at hkv
    rcases List.mem_append.mp hkv with h | h
    · exact (List.all_eq_true.mp g.nonul) kv (hsub kv h)
    · simp only [List.mem_singleton] at h
      simp [h]

/-! ## old layouts -/

theorem dictGet_map_of_mem (g : Cal → CalArr) (d : List (Str × Cal)) (hn : (keys d).Nodup) (k : Str) (c : Cal)
    (hm : (k, c) ∈ d) : dictGet (d.map fun kc => (kc.1, g kc.2)) k = some (g c) := by
  induction d with
  | nil => simp at hm
  | cons kv r ih =>
    obtain ⟨k0, c0⟩ := kv
    simp only [keys, List.map_cons, List.nodup_cons] at hn
    simp only [List.map_cons, dictGet]
    simp only [List.mem_cons, Prod.mk.injEq] at hm
    rcases hm with ⟨rfl, rfl⟩ | hm
    · simp
    · have hne : ¬ k0 = k := by
        intro e; subst e
        exact hn.1 (List.mem_map_of_mem (f := (·.1)) hm)
      rw [if_neg hne]
      exact ih hn.2 hm

theorem dictGet_map_val {α β} (g : α → β) (d : List (Str × α)) (k : Str) :
    dictGet (d.map fun kc => (kc.1, g kc.2)) k = (dictGet d k).map g := by
  induction d with
  | nil => rfl
  | cons kv r ih =>
    obtain ⟨k0, c0⟩ := kv
    simp only [List.map_cons, dictGet]
    split
    · rfl
    · exact ih

theorem dictGet_isSome_of_mem {β} (d : List (Str × β)) (k : Str) (h : k ∈ keys d) : ∃ v, dictGet d k = some v := by
  cases hg : dictGet d k with
  | none => exact absurd h ((dictGet_eq_none_iff d k).mp hg)
  | some v => exact ⟨v, rfl⟩

/-- the per-element calibration members of a 0.6 / 0.7 file load back, in element order, to the
calibration each element had — whatever the order of the calibration dict that was written -/
theorem foldlM_calibrationOf (cal : List (Str × Cal)) (hc : ∀ kc ∈ cal, kc.2.ok = true)
    (pre : List (Str × Cal)) (fs : List (Str × Str)) (hfs : (keys fs).Nodup)
    (hdisj : ∀ k ∈ keys fs, k ∉ keys pre) (hsub : ∀ k ∈ keys fs, k ∈ keys cal) :
    fs.foldlM (fun (d : List (Str × Cal)) nf => do
        let a ← getOr Err.keyError (dictGet (cal.map fun kc => (kc.1, kc.2.toArray kc.2.points.length)) nf.1)
        pure (dictInsert d nf.1 (Cal.fromArray a))) pre = Except.ok (pre ++ calByName fs cal) := by
  induction fs generalizing pre with
  | nil => simp [calByName]; rfl
  | cons nf fs' ih =>
    simp only [keys, List.map_cons, List.nodup_cons] at hfs
    obtain ⟨c, hget⟩ := dictGet_isSome_of_mem cal nf.1 (hsub nf.1 (by simp [keys]))
    have hmem : (nf.1, c) ∈ cal := dictGet_mem cal nf.1 c hget
    have hnot : nf.1 ∉ keys pre := hdisj nf.1 (by simp [keys])
    have hg := dictGet_map_val (fun c : Cal => c.toArray c.points.length) cal nf.1
    rw [hget, Option.map_some] at hg
    simp only [List.foldlM_cons, hg, getOr, bind, Except.bind, pure, Except.pure]
    rw [cal_roundtrip_aux c c.points.length (hc _ hmem) (Nat.le_refl _), dictInsert_of_not_mem pre nf.1 c hnot]
    have := ih (pre ++ [(nf.1, c)]) hfs.2
      (by
        intro k hk hk'
        simp only [keys, List.map_append, List.map_cons, List.map_nil, List.mem_append, List.mem_singleton] at hk'
        rcases hk' with hk' | hk'
        · exact hdisj k (by simp only [keys, List.map_cons, List.mem_cons]; right; exact hk) (by simpa [keys] using hk')
        · subst hk'; exact hfs.1 (by simpa [keys] using hk))
      (by intro k hk; exact hsub k (by simp only [keys, List.map_cons, List.mem_cons]; right; simpa [keys] using hk))
    simp only [getOr, bind, Except.bind, pure, Except.pure] at this
    rw [this]
    simp [calByName, hget]

theorem cmpGe_cases (va vb : Str) (h : cmpGe va vb = true) : ∃ r, compareVersion va vb = .ok r ∧ r ≠ -1 := by
  unfold cmpGe at h
  cases hc : compareVersion va vb with
  | error e => simp [hc] at h
  | ok r => exact ⟨r, rfl, by simpa [hc] using h⟩

theorem cmpLt_cases (va vb : Str) (h : cmpLt va vb = true) : compareVersion va vb = .ok (-1) := by
  unfold cmpLt at h
  cases hc : compareVersion va vb with
  | error e => simp [hc] at h
  | ok r =>
    have : r = -1 := by simpa [hc] using h
    rw [this]

/-! ## chains -/

/-- what `Laser.ok` says, one fact per field -/
structure OkFacts (L : Laser) : Prop where
  ne : L.fields ≠ []
  nul : ∀ k ∈ keys L.fields, noNulEnd k = true
  nodup : (keys L.fields).Nodup
  cnodup : (keys L.cal).Nodup
  csub : ∀ k ∈ keys L.cal, k ∈ keys L.fields
  fsub : ∀ k ∈ keys L.fields, k ∈ keys L.cal
  cal : ∀ kc ∈ L.cal, kc.2.ok = true
  kind : L.config.isSRR = (L.kind == .srr)
  cfg : L.config.ok = true
  layers : layersOk L.kind L.layers = true
  native : (L.kind != .srr || L.fields.all fun f => isNativeDtype f.2) = true
  info : noNulEnd (packInfoRaw L.info) = true

theorem okFacts_iff (L : Laser) : L.ok = true ↔ OkFacts L := by
  simp only [Laser.ok, Bool.and_eq_true, decide_eq_true_eq, beq_iff_eq, List.all_eq_true, Bool.not_eq_true',
    List.isEmpty_eq_false_iff]
  constructor
  · rintro ⟨⟨⟨⟨⟨⟨⟨⟨⟨hne, hnul⟩, hnodup⟩, ⟨hcn, hcs⟩, hfs⟩, hcal⟩, hkind⟩, hcfg⟩, hlayers⟩, hnat⟩, hinfo⟩
    exact ⟨hne, hnul, hnodup, hcn, hcs, hfs, hcal, hkind, hcfg, hlayers, hnat, hinfo⟩
  · rintro ⟨hne, hnul, hnodup, hcn, hcs, hfs, hcal, hkind, hcfg, hlayers, hnat, hinfo⟩
    exact ⟨⟨⟨⟨⟨⟨⟨⟨⟨hne, hnul⟩, hnodup⟩, ⟨hcn, hcs⟩, hfs⟩, hcal⟩, hkind⟩, hcfg⟩, hlayers⟩, hnat⟩, hinfo⟩

theorem okFacts (L : Laser) (h : L.ok = true) : OkFacts L := (okFacts_iff L).mp h

/-- a laser with an element has a calibration entry (`Laser.ok` ties the two key lists) -/
theorem cal_nonempty (L : Laser) (F : OkFacts L) : L.cal.isEmpty = false := by
  cases hf : L.fields with
  | nil => exact absurd hf F.ne
  | cons a b =>
    have := F.fsub a.1 (by simp [hf, keys])
    cases hc : L.cal with
    | nil => simp [hc, keys] at this
    | cons _ _ => rfl

theorem keys_calByName (fields : List (Str × Str)) (cal : List (Str × Cal)) : keys (calByName fields cal) = keys fields := by
  simp [keys, calByName, List.map_map, Function.comp_def]

/-- looking an element up in the by-name dict gives what the original dict holds under that name -/
theorem dictGet_calByName (fields : List (Str × Str)) (cal : List (Str × Cal)) (k : Str) (hk : k ∈ keys fields) :
    dictGet (calByName fields cal) k = some ((dictGet cal k).getD Cal.default) := by
  induction fields with
  | nil => simp [keys] at hk
  | cons f r ih =>
    simp only [calByName, List.map_cons, dictGet]
    by_cases e : f.1 = k
    · simp [e]
    · simp only [if_neg e]
      apply ih
      simp only [keys, List.map_cons, List.mem_cons] at hk
      rcases hk with hk | hk
      · exact absurd hk.symm e
      · exact hk

theorem dictGet_calByName_none (fields : List (Str × Str)) (cal : List (Str × Cal)) (k : Str) (hk : k ∉ keys fields) :
    dictGet (calByName fields cal) k = none := by
  rw [dictGet_eq_none_iff, keys_calByName]; exact hk

/-- a calibration dict that already is in element order is its own by-name form -/
theorem calByName_of_ordered (fields : List (Str × Str)) (cal : List (Str × Cal)) (hk : keys cal = keys fields)
    (hn : (keys cal).Nodup) : calByName fields cal = cal := by
  induction cal generalizing fields with
  | nil =>
    have : fields = [] := by simpa [keys] using hk.symm
    subst this; rfl
  | cons kc r ih =>
    obtain ⟨k, c⟩ := kc
    cases fields with
    | nil => simp [keys] at hk
    | cons f fs =>
      simp only [keys, List.map_cons, List.cons.injEq] at hk
      obtain ⟨hk1, hk2⟩ := hk
      subst hk1
      simp only [keys, List.map_cons, List.nodup_cons] at hn
      simp only [calByName, List.map_cons, dictGet, if_true, Option.getD_some]
      congr 1
      have := ih fs (by simpa [keys] using hk2) hn.2
      simp only [calByName] at this
      refine Eq.trans ?_ this
      apply List.map_congr_left
      intro f' hf'
      have hne : ¬ f.1 = f'.1 := by
        intro e
        apply hn.1
        have : f'.1 ∈ List.map (fun x => x.1) fs := List.mem_map_of_mem hf'
        rw [e]
        have hk2' : List.map (fun x => x.1) r = List.map (fun x => x.1) fs := by simpa [keys] using hk2
        rw [hk2']; exact this
      simp [hne]

theorem calByName_idem (fields : List (Str × Str)) (cal : List (Str × Cal)) (hn : (keys fields).Nodup) :
    calByName fields (calByName fields cal) = calByName fields cal :=
  calByName_of_ordered fields _ (keys_calByName fields cal) (by rw [keys_calByName]; exact hn)

/-- `Laser.__init__`: a default calibration per element updated by a dict with exactly the elements as
keys gives the by-name dict, for every order of that dict -/
theorem mkLaser_calByName (L : Laser) (F : OkFacts L) (info : Info) :
    mkLaser L.kind L.fields L.layers L.cal L.config info
      = { L with cal := calByName L.fields L.cal, info := info } := by
  unfold mkLaser
  have hb : keys (L.fields.map fun f => (f.1, Cal.default)) = keys L.fields := by
    simp [keys, List.map_map, Function.comp_def]
  rw [dictUpdate_eq_map _ _ (by rw [hb]; exact F.nodup) F.cnodup (by intro k hk; rw [hb]; exact F.csub k hk)]
  simp only [List.map_map, Function.comp_def, calByName]

theorem cal_default_ok : Cal.default.ok = true := by decide

/-- the by-name form of a laser inside the quantifier is inside the quantifier -/
theorem ok_calByName (L : Laser) (hL : L.ok = true) :
    ({ L with cal := calByName L.fields L.cal } : Laser).ok = true := by
  have F := okFacts L hL
  apply (okFacts_iff _).mpr
  refine ⟨F.ne, F.nul, F.nodup, ?_, ?_, ?_, ?_, F.kind, F.cfg, F.layers, F.native, F.info⟩
  · show (keys (calByName L.fields L.cal)).Nodup
    rw [keys_calByName]; exact F.nodup
  · intro k hk
    have hk' : k ∈ keys (calByName L.fields L.cal) := hk
    rwa [keys_calByName] at hk'
  · intro k hk
    show k ∈ keys (calByName L.fields L.cal)
    rw [keys_calByName]; exact hk
  · intro kc hkc
    have hkc' : kc ∈ calByName L.fields L.cal := hkc
    simp only [calByName, List.mem_map] at hkc'
    obtain ⟨f, _, rfl⟩ := hkc'
    cases h : dictGet L.cal f.1 with
    | none => simpa using cal_default_ok
    | some c => simpa using F.cal _ (dictGet_mem L.cal f.1 c h)

/-- the packed table of a calibration dict in any order unpacks to that dict -/
theorem unpack_pack_of_facts (L : Laser) (F : OkFacts L)
    (hrt : ∀ d : List (Str × Cal), (keys d).Nodup → (∀ kc ∈ d, noNulEnd kc.1 = true) → (∀ kc ∈ d, kc.2.ok = true) →
      unpackCalibration (packCalibration d) = d) :
    unpackCalibration (packCalibration L.cal) = L.cal :=
  hrt L.cal F.cnodup (fun kc hkc => F.nul kc.1 (F.csub kc.1 (List.mem_map_of_mem hkc))) F.cal

theorem ok_with_info (L : Laser) (X : Info) (hL : L.ok = true) (hX : noNulEnd (packInfoRaw X) = true) :
    ({ L with info := X } : Laser).ok = true := by
  simp only [Laser.ok, Bool.and_eq_true] at hL ⊢
  exact ⟨hL.1, hX⟩

theorem noNulEnd_of_version (ver : Str) (h : ver.all (fun c => c.isDigit || c == '.') = true) :
    noNulEnd ver = true := by
  unfold noNulEnd
  cases hl : ver.getLast? with
  | none => rfl
  | some c =>
    have := (List.all_eq_true.mp h) c (List.mem_of_getLast? hl)
    have hc : c ≠ NUL := by
      intro e; subst e; revert this; decide
    simp [hc]

theorem generations_succ (fl : Rat → Rat) (ver time : Str) (p : PathInfo) (n : Nat) (L : Laser) :
    generations fl ver time p (n + 1) L
      = ((save fl ver time L >>= load fl p) >>= generations fl ver time p n) := by
  simp only [generations]
  cases save fl ver time L <;> rfl

/-- save → load of a laser whose info is that of a loaded laser (and whose calibration dict is in
element order, as that of a loaded laser is) only moves `File Path` to the end -/
theorem generations_good (fl : Rat → Rat) (p : PathInfo) (ver time : Str)
    (hls : ∀ L : Laser, L.ok = true → (save fl ver time L >>= load fl p) = .ok (normalise p ver L))
    (L : Laser) (hL : L.ok = true) (hord : calByName L.fields L.cal = L.cal) (n : Nat) (X : Info) (g : Good p ver X) :
    generations fl ver time p (n + 1) { L with info := X } = .ok { L with info := nextInfo p X } := by
  induction n generalizing X with
  | zero =>
    rw [generations_succ, hls _ (ok_with_info L X hL (noNulEnd_packInfoRaw X g.nonul))]
    simp only [normalise, finish_spec_good p ver X g, hord]
    rfl
  | succ n ih =>
    rw [generations_succ, hls _ (ok_with_info L X hL (noNulEnd_packInfoRaw X g.nonul))]
    simp only [normalise, finish_spec_good p ver X g, hord]
    have := ih (nextInfo p X) (good_next p ver X g)
    rw [nextInfo_idem] at this
    exact this

/-! ## versions: the loader's comparison meets `compareSpec` -/

theorem parseNat_eq (s : Str) : parseNat s = if isNum s then .ok (numVal s) else .error .valueError := by
  unfold parseNat isNum numVal
  by_cases h : s ≠ [] ∧ s.all Char.isDigit = true
  · have : (!s.isEmpty && s.all Char.isDigit) = true := by
      obtain ⟨h1, h2⟩ := h
      cases s with
      | nil => exact absurd rfl h1
      | cons a b => simpa using h2
    rw [if_pos h, if_pos this]; rfl
  · have : ¬ ((!s.isEmpty && s.all Char.isDigit) = true) := by
      intro hh
      apply h
      cases s with
      | nil => simp at hh
      | cons a b => exact ⟨by simp, by simpa using hh⟩
    rw [if_neg h, if_neg this]; rfl

theorem cmpComponents_eq_spec (xs ys : List Str) :
    cmpComponents xs ys =
      match (xs.zip ys).find? decisive with
      | none => .ok 0
      | some ab =>
        if isNum ab.1 && isNum ab.2 then .ok (if numVal ab.1 > numVal ab.2 then 1 else -1)
        else .error .valueError := by
  induction xs generalizing ys with
  | nil => simp [cmpComponents]; rfl
  | cons x xs ih =>
    cases ys with
    | nil => simp [cmpComponents]; rfl
    | cons y ys =>
      simp only [cmpComponents, List.zip_cons_cons, List.find?_cons, parseNat_eq, decisive]
      by_cases hx : isNum x = true
      · by_cases hy : isNum y = true
        · simp only [hx, hy, if_true, bind, Except.bind, Bool.and_true, Bool.true_and]
          by_cases hgt : numVal x > numVal y
          · have : (numVal x == numVal y) = false := by simp; omega
            simp [hgt, this, hx, hy]; rfl
          · by_cases hlt : numVal x < numVal y
            · have : (numVal x == numVal y) = false := by simp; omega
              simp [hgt, hlt, this, hx, hy]; rfl
            · have : (numVal x == numVal y) = true := by simp; omega
              simp only [hgt, hlt, this, if_false, Bool.not_true]
              exact ih ys
        · simp [hx, hy, bind, Except.bind]
      · simp [hx, bind, Except.bind]

/-! ## legacy class names -/

theorem loadConfig_legacy (fl : Rat → Rat) (c : Str) (a : CfgArr) :
    loadConfig fl (legacyOf c) a = loadConfig fl c a := by
  unfold legacyOf
  by_cases h1 : c = cRaster
  · subst h1; simp [loadConfig, clsLaser, cRaster]
  · by_cases h2 : c = cSRR
    · subst h2
      have : cSRR ≠ cRaster := by decide
      simp only [if_neg this, if_true]
      simp [loadConfig, clsLaser, clsSpot, clsSRR, cSRR]
    · simp [h1, h2]

/-- everything `load` does after the header has been read -/
def loadRest (fl : Rat → Rat) (p : PathInfo) (f : NpzFile) (hdr : Str × Option Str) : Except Err Laser := do
  let info ← loadInfo f hdr.1
  let cal ← loadCal f hdr.1
  let cls ← getOr .keyError hdr.2
  let kc ← loadConfig fl cls f.config
  construct kc.1 f.data cal kc.2 (finishInfo p hdr.1 info)

theorem load_eq_rest (fl : Rat → Rat) (p : PathInfo) (f : NpzFile) :
    load fl p f = loadHeader f >>= loadRest fl p f := rfl

theorem loadHeader_mapCls (f : NpzFile) (g : Str → Str) :
    loadHeader (f.mapCls g) =
      (loadHeader f).map fun vc => (vc.1, if f.header.isSome then vc.2 else vc.2.map g) := by
  cases hh : f.header with
  | some h =>
    simp only [loadHeader, NpzFile.mapCls, hh, Option.isSome, if_true]
    cases getOr Err.keyError (dictGet (unpackInfo h) kVersion) <;> rfl
  | none =>
    cases hv : f.version with
    | none => simp [loadHeader, NpzFile.mapCls, hh, hv]; rfl
    | some v =>
      simp only [loadHeader, NpzFile.mapCls, hh, hv, bind, Except.bind]
      cases compareVersion v v060 with
      | error e => rfl
      | ok r =>
        by_cases hr : r = -1
        · simp [hr]; rfl
        · cases hcl : f.cls
          all_goals simp [hr, getOr, pure, Except.pure, Except.map]
          all_goals rfl

theorem load_legacy_class_aux (fl : Rat → Rat) (p : PathInfo) (f : NpzFile) :
    load fl p (f.mapCls legacyOf) = load fl p f := by
  rw [load_eq_rest, load_eq_rest, loadHeader_mapCls]
  cases loadHeader f with
  | error e => rfl
  | ok vc =>
    obtain ⟨v, oc⟩ := vc
    simp only [Except.map, bind, Except.bind]
    cases hs : f.header.isSome
    · cases oc with
      | none => rfl
      | some c =>
        simp only [loadRest, NpzFile.mapCls, Bool.false_eq_true, if_false, Option.map, getOr, bind, Except.bind, pure, Except.pure,
          loadConfig_legacy]
        rfl
    · rfl

/-! ## old layouts against `specOld` -/

theorem specOld_of_cmpGe (b : Bool) (p : PathInfo) (ver : Str) (L : Laser) (h : cmpGe ver v060 = true) :
    specOld b p ver L = .ok (if b then normaliseV06 p ver L else normalise p ver L) := by
  obtain ⟨r, hr, hr'⟩ := cmpGe_cases _ _ h
  rw [compareVersion, cmpComponents_eq_spec] at hr; change compareSpec ver v060 = _ at hr
  simp [specOld, hr, hr']

theorem specOld_of_not_cmpGe (b : Bool) (p : PathInfo) (ver : Str) (L : Laser) (h : cmpGe ver v060 = false) :
    specOld b p ver L = .error .valueError := by
  unfold cmpGe at h
  rw [compareVersion, cmpComponents_eq_spec] at h; change (match compareSpec ver v060 with | .ok r => r != -1 | _ => false) = false at h
  unfold specOld
  cases hc : compareSpec ver v060 with
  | error e => rfl
  | ok r =>
    have : r = -1 := by simpa [hc] using h
    simp [this]

theorem saveV06_ok (fl : Rat → Rat) (ver : Str) (L : Laser) (hl : layersOk L.kind L.layers = true)
    (hnat : (L.kind != .srr || L.fields.all fun f => isNativeDtype f.2) = true) :
    ∃ f, saveV06 fl ver L = .ok f ∧ f.header = none ∧ f.version = some (stripNul ver) := by
  obtain ⟨d, hd, _, _⟩ := data_roundtrip L hl hnat
  simp only [saveV06, hd, bind, Except.bind, pure, Except.pure]
  exact ⟨_, rfl, rfl, rfl⟩

theorem saveV07_ok (fl : Rat → Rat) (ver : Str) (L : Laser) (hl : layersOk L.kind L.layers = true)
    (hnat : (L.kind != .srr || L.fields.all fun f => isNativeDtype f.2) = true) :
    ∃ f, saveV07 fl ver L = .ok f ∧ f.header = none ∧ f.version = some (stripNul ver) := by
  obtain ⟨d, hd, _, _⟩ := data_roundtrip L hl hnat
  simp only [saveV07, hd, bind, Except.bind, pure, Except.pure]
  exact ⟨_, rfl, rfl, rfl⟩

theorem layersOk_of_ok (L : Laser) (h : L.ok = true) : layersOk L.kind L.layers = true := by
  simp only [Laser.ok, Bool.and_eq_true] at h
  exact h.1.1.2

theorem native_of_ok (L : Laser) (h : L.ok = true) :
    (L.kind != .srr || L.fields.all fun f => isNativeDtype f.2) = true := by
  simp only [Laser.ok, Bool.and_eq_true] at h
  exact h.1.2

end Pew.Npz
