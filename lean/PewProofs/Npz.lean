import PewModel.Npz

/-! # C01 — helper lemmas for `PewTheorems.C01` -/
namespace Pew.Npz

/-! ## strings -/

theorem splitOn_ne_nil (sep : Char) (s : Str) : splitOn sep s ≠ [] := by
  induction s with
  | nil => simp [splitOn]
  | cons c cs ih =>
    unfold splitOn
    split
    · simp
    · split <;> simp

theorem splitOn_append_sep (sep : Char) (a rest : Str) (h : sep ∉ a) :
    splitOn sep (a ++ sep :: rest) = a :: splitOn sep rest := by
  induction a with
  | nil => simp [splitOn]
  | cons c a ih =>
    have hc : c ≠ sep := by intro e; apply h; simp [e]
    have ha : sep ∉ a := by intro e; apply h; simp [e]
    simp only [List.cons_append]
    rw [splitOn, if_neg hc, ih ha]

theorem splitOn_noSep (sep : Char) (a : Str) (h : sep ∉ a) : splitOn sep a = [a] := by
  induction a with
  | nil => simp [splitOn]
  | cons c a ih =>
    have hc : c ≠ sep := by intro e; apply h; simp [e]
    have ha : sep ∉ a := by intro e; apply h; simp [e]
    rw [splitOn, if_neg hc, ih ha]

theorem tab_not_mem_tabToSpace (s : Str) : '\t' ∉ tabToSpace s := by
  simp only [tabToSpace, replaceChar, List.mem_map, not_exists, not_and]
  intro c _
  split <;> simp_all [eq_comm]

theorem tabToSpace_of_tabFree (s : Str) (h : '\t' ∉ s) : tabToSpace s = s := by
  simp only [tabToSpace, replaceChar]
  conv => rhs; rw [← List.map_id s]
  apply List.map_congr_left
  intro c hc
  have : c ≠ '\t' := by intro e; apply h; rw [← e]; exact hc
  simp [this]

theorem tabToSpace_idem (s : Str) : tabToSpace (tabToSpace s) = tabToSpace s :=
  tabToSpace_of_tabFree _ (tab_not_mem_tabToSpace s)

theorem stripNul_of_noNulEnd (s : Str) (h : noNulEnd s = true) : stripNul s = s := by
  unfold noNulEnd at h
  unfold stripNul
  rw [List.getLast?_eq_head?_reverse] at h
  cases hr : s.reverse with
  | nil =>
    have : s = [] := by simpa using hr
    simp [this]
  | cons c t =>
    rw [hr] at h
    have hc : (c == NUL) = false := by
      simp only [List.head?_cons, bne_iff_ne, ne_eq, Option.some.injEq] at h
      simpa using h
    rw [List.dropWhile_cons, hc]
    simp only [Bool.false_eq_true, if_false]
    rw [← hr, List.reverse_reverse]

/-- the tab-separated record of key/value pairs splits back into the pairs -/
theorem pairUp_split_join (l : List (Str × Str))
    (h : ∀ kv ∈ l, '\t' ∉ kv.1 ∧ '\t' ∉ kv.2) :
    pairUp (splitOn '\t' (joinSep '\t' (l.map fun kv => kv.1 ++ '\t' :: kv.2))) = l := by
  induction l with
  | nil => simp [joinSep, splitOn, pairUp]
  | cons kv r ih =>
    obtain ⟨hk, hv⟩ := h kv (by simp)
    cases r with
    | nil =>
      simp only [List.map_cons, List.map_nil, joinSep]
      rw [splitOn_append_sep _ _ _ hk, splitOn_noSep _ _ hv]
      simp [pairUp]
    | cons kv' r' =>
      have ih' := ih (fun x hx => h x (by simp [hx]))
      simp only [List.map_cons, joinSep] at ih' ⊢
      rw [List.append_assoc, List.cons_append, splitOn_append_sep _ _ _ hk, splitOn_append_sep _ _ _ hv]
      simp only [pairUp]
      rw [ih']

theorem unpack_packRaw (info : Info) : unpackInfo (packInfoRaw info) = infoSpec info := by
  unfold unpackInfo packInfoRaw infoSpec
  have : ((info.filter fun kv => kv.1 ≠ kFilePath).map fun kv => tabToSpace kv.1 ++ '\t' :: tabToSpace kv.2)
      = (((info.filter fun kv => kv.1 ≠ kFilePath).map fun kv => (tabToSpace kv.1, tabToSpace kv.2)).map
          fun kv => kv.1 ++ '\t' :: kv.2) := by
    simp [List.map_map, Function.comp_def]
  rw [this, pairUp_split_join]
  intro kv hkv
  simp only [List.mem_map] at hkv
  obtain ⟨x, _, rfl⟩ := hkv
  exact ⟨tab_not_mem_tabToSpace _, tab_not_mem_tabToSpace _⟩

/-! ## calibration -/

theorem npStr_id (w : Nat) (s : Str) (hl : s.length ≤ w) (hn : noNulEnd s = true) : npStr w s = s := by
  unfold npStr
  rw [List.take_of_length_le hl, stripNul_of_noNulEnd s hn]

theorem derivedWeights_length (col : List Flt) (b : Bool) : (derivedWeights col b).length = col.length := by
  unfold derivedWeights
  split
  · simp
  · split
    · simp
    · simp only
      split <;> simp

theorem optOfNaN_getD (o : Option Flt) (h : (o.any (·.isNaN)) = false) : optOfNaN (o.getD qnan) = o := by
  cases o with
  | none => simp [optOfNaN, qnan, Flt.isNaN]
  | some f =>
    simp only [Option.any_some] at h
    simp [optOfNaN, h]

theorem rowIsPad_pad : rowIsPad (qnan, (qnan, qnan)) = true := by
  simp [rowIsPad, qnan, Flt.isNaN]

/-- the strip mask removes exactly the padding -/
theorem filter_padded (ws : List Flt) (pts : List (Flt × Flt)) (a b : Nat)
    (hlen : ws.length = pts.length)
    (hrows : (ws.zip pts).all (fun r => !rowIsPad r) = true) :
    ((ws ++ List.replicate a qnan).zip (pts ++ List.replicate b (qnan, qnan))).filter (fun r => !rowIsPad r)
      = ws.zip pts := by
  rw [List.zip_append hlen, List.filter_append]
  have h1 : (ws.zip pts).filter (fun r => !rowIsPad r) = ws.zip pts := by
    apply List.filter_eq_self.mpr
    intro r hr
    exact (List.all_eq_true.mp hrows) r hr
  have h2 : ((List.replicate a qnan).zip (List.replicate b (qnan, qnan))).filter (fun r => !rowIsPad r) = [] := by
    apply List.filter_eq_nil_iff.mpr
    intro r hr
    have := List.of_mem_zip hr
    rw [List.mem_replicate, List.mem_replicate] at this
    obtain ⟨⟨_, e1⟩, ⟨_, e2⟩⟩ := this
    have : r = (qnan, (qnan, qnan)) := by cases r; simp_all
    rw [this, rowIsPad_pad]; simp
  rw [h1, h2, List.append_nil]

end Pew.Npz
