import PewProofs.LaserEdit

/-! # C07 — property theorems (statements only depend on `PewModel.LaserEdit`)

`State` is the mechanism (per-layer ordered field lists + insertion-ordered calibration dict),
`Spec` the plain dictionary `name ↦ (data per layer, calibration)`, `abs : State → Spec` the
abstraction, `entry s n` what the dictionary view of `s` holds under `n`.
`Inv s`: at least one layer, all layers have the same field names, names distinct, calibration
keys distinct and (as a set) equal to the field names.  Everything is proved for every state that
satisfies `Inv` and every operation / operation list — no bound on sizes or lengths. -/
namespace Pew.LaserEdit

/-! ## refinement -/

/-- One operation of the mechanism is the same operation on the dictionary — including *whether*
it succeeds: `add` exactly for a fresh name (and one array per layer), `remove` exactly for distinct
present names, `rename` exactly when no two present names end up with the same name, reads exactly
for a present element (or all) of an existing layer. -/
theorem step_refines (s : State) (h : Inv s) (op : Op) : (step s op).map abs = (abs s).step op :=
  step_refines' h op

/-- A successful operation keeps the invariant (so elements = calibration keys, all distinct, all
layers alike) and never changes the image shape, the kind or the configuration. -/
theorem inv_preserved (s s' : State) (h : Inv s) (op : Op) (hs : step s op = some s') :
    Inv s' ∧ s'.shape = s.shape ∧ s'.cfg = s.cfg ∧ s'.srr = s.srr := by
  have hf := step_frame h hs
  refine ⟨step_inv h hs, ?_, hf.2.2, hf.2.1⟩
  simp only [State.shape, hf.1, hf.2.1]

/-- Any history: running the mechanism and then looking at it as a dictionary is running the
dictionary operations on the dictionary view of the start (by induction over the history). -/
theorem history_refines (s : State) (h : Inv s) (ops : List Op) :
    (run s ops).map abs = (abs s).run ops :=
  run_refines' ops h

/-- After any successful history the laser is well-formed again and its shape and configuration are
those it started with. -/
theorem history_inv (s s' : State) (h : Inv s) (ops : List Op) (hs : run s ops = some s') :
    Inv s' ∧ s'.shape = s.shape ∧ s'.cfg = s.cfg := by
  induction ops generalizing s with
  | nil =>
    simp only [run, Option.some.injEq] at hs
    subst hs; exact ⟨h, rfl, rfl⟩
  | cons op r ih =>
    simp only [run] at hs
    cases hstep : step s op with
    | none => rw [hstep] at hs; simp at hs
    | some s1 =>
      rw [hstep] at hs
      obtain ⟨h1, hsh, hcfg, _⟩ := inv_preserved s s1 h op hstep
      obtain ⟨h2, hsh2, hcfg2⟩ := ih s1 h1 hs
      exact ⟨h2, hsh2.trans hsh, hcfg2.trans hcfg⟩

/-! ## corollaries in the words of the property -/

/-- the element tuple and the calibration keys are the same set (and both duplicate-free, and every
layer has exactly these fields), after any successful history -/
theorem elements_eq_calibration_keys (s s' : State) (h : Inv s) (ops : List Op)
    (hs : run s ops = some s') :
    (∀ n, n ∈ s'.elements ↔ n ∈ keys s'.cal) ∧ s'.elements.Nodup ∧ (keys s'.cal).Nodup ∧
      ∀ l ∈ s'.layers, keys l.fields = s'.elements := by
  have h' := (history_inv s s' h ops hs).1
  exact ⟨fun n => (h'.cal_iff n).symm, h'.nodup, h'.cal_nodup, h'.2.1⟩

/-- `rename` succeeds exactly for maps that are injective on the present names after filling in
the identity for unmentioned names (so the image may not collide with an untouched name, but may
reuse names that the same map frees) -/
theorem rename_succeeds_iff (s : State) (h : Inv s) (m : NameMap) :
    (rename s m).isSome ↔ ∀ a ∈ s.elements, ∀ b ∈ s.elements, sub m a = sub m b → a = b := by
  rw [← List.nodup_map_iff_inj_on h.nodup]
  have := rename_refines h m
  constructor
  · intro hh
    obtain ⟨s', hs'⟩ := Option.isSome_iff_exists.1 hh
    exact (rename_eq_some h hs').1
  · intro hh
    cases hr : rename s m with
    | some _ => rfl
    | none =>
      rw [hr] at this
      simp only [Option.map_none, Spec.rename] at this
      rw [if_pos (by rw [keys_mapKey, abs_map_keys]; exact hh)] at this
      simp at this

/-- data and calibration travel together under rename: whatever was stored under a present name
`n` (data in every layer, and calibration) is afterwards stored under `names.get(n, n)` — swaps,
cycles, chains onto freed names included -/
theorem rename_travels (s s' : State) (h : Inv s) (m : NameMap) (hs : rename s m = some s')
    (n : Name) (hn : n ∈ s.elements) : entry s' (sub m n) = entry s n := by
  have hr := rename_refines h m
  rw [hs] at hr
  obtain ⟨hnd, _⟩ := rename_eq_some h hs
  simp only [Option.map_some, Spec.rename] at hr
  rw [if_pos (by rw [keys_mapKey, abs_map_keys]; exact hnd)] at hr
  simp only [Option.some.injEq] at hr
  unfold entry
  rw [hr]
  simp only
  exact get?_mapKey (sub m) (abs s).map (by rw [abs_map_keys]; exact hn)
    (by rw [abs_map_keys]; exact List.inj_on_of_nodup_map hnd)

/-- after a rename exactly the images of the old names are present -/
theorem rename_elements (s s' : State) (h : Inv s) (m : NameMap) (hs : rename s m = some s') :
    s'.elements = s.elements.map (sub m) := by
  obtain ⟨_, rfl⟩ := rename_eq_some h hs
  exact elementsOf_map_renamed m s.layers

/-- an element the map does not mention keeps its name, data and calibration -/
theorem rename_untouched (s s' : State) (h : Inv s) (m : NameMap) (hs : rename s m = some s')
    (n : Name) (hn : n ∈ s.elements) (hm : get? m n = none) : entry s' n = entry s n := by
  have := rename_travels s s' h m hs n hn
  simpa [sub, hm] using this

/-- swapping two present elements always succeeds and exchanges data *and* calibration; every
other name is as before -/
theorem rename_swap (s : State) (h : Inv s) (a b : Name) (ha : a ∈ s.elements) (hb : b ∈ s.elements)
    (hab : a ≠ b) :
    ∃ s', rename s [(a, b), (b, a)] = some s' ∧ entry s' a = entry s b ∧ entry s' b = entry s a ∧
      ∀ k, k ≠ a → k ≠ b → entry s' k = entry s k := by
  have hsub : ∀ x, sub [(a, b), (b, a)] x = if a = x then b else if b = x then a else x := by
    intro x; simp only [sub, get?_cons, get?_nil]; split <;> [rfl; (split <;> rfl)]
  have hinj : ∀ x y, sub [(a, b), (b, a)] x = sub [(a, b), (b, a)] y → x = y := by
    intro x y
    rw [hsub, hsub]
    grind
  have hsome := (rename_succeeds_iff s h _).2 (fun x _ y _ => hinj x y)
  obtain ⟨s', hs'⟩ := Option.isSome_iff_exists.1 hsome
  refine ⟨s', hs', ?_, ?_, ?_⟩
  · have := rename_travels s s' h _ hs' b hb
    rwa [hsub, if_neg hab, if_pos rfl] at this
  · have := rename_travels s s' h _ hs' a ha
    rwa [hsub, if_pos rfl] at this
  · intro k hka hkb
    by_cases hk : k ∈ s.elements
    · have := rename_travels s s' h _ hs' k hk
      rwa [hsub, if_neg (Ne.symm hka), if_neg (Ne.symm hkb)] at this
    · rw [(entry_eq_none_iff s k).2 hk, entry_eq_none_iff, rename_elements s s' h _ hs']
      intro hmem
      obtain ⟨x, hx, hxk⟩ := List.mem_map.1 hmem
      rw [hsub] at hxk
      by_cases h1 : a = x
      · rw [if_pos h1] at hxk; exact hkb hxk.symm
      · rw [if_neg h1] at hxk
        by_cases h2 : b = x
        · rw [if_pos h2] at hxk; exact hka hxk.symm
        · rw [if_neg h2] at hxk; exact hk (hxk ▸ hx)

/-- a chain onto a freed name: `{a: b, b: c}` with `c` not present succeeds; `b` gets what `a` had,
`c` gets what `b` had, `a` is gone -/
theorem rename_chain (s : State) (h : Inv s) (a b c : Name) (ha : a ∈ s.elements) (hb : b ∈ s.elements)
    (hab : a ≠ b) (hc : c ∉ s.elements) :
    ∃ s', rename s [(a, b), (b, c)] = some s' ∧ entry s' b = entry s a ∧ entry s' c = entry s b ∧
      entry s' a = none := by
  have hsub : ∀ x, sub [(a, b), (b, c)] x = if a = x then b else if b = x then c else x := by
    intro x; simp only [sub, get?_cons, get?_nil]; split <;> [rfl; (split <;> rfl)]
  have hca : c ≠ a := fun hh => hc (hh ▸ ha)
  have hcb : c ≠ b := fun hh => hc (hh ▸ hb)
  have hinj : ∀ x ∈ s.elements, ∀ y ∈ s.elements,
      sub [(a, b), (b, c)] x = sub [(a, b), (b, c)] y → x = y := by
    intro x hx y hy
    rw [hsub, hsub]
    have hxc : x ≠ c := fun hh => hc (hh ▸ hx)
    have hyc : y ≠ c := fun hh => hc (hh ▸ hy)
    grind
  have hsome := (rename_succeeds_iff s h _).2 hinj
  obtain ⟨s', hs'⟩ := Option.isSome_iff_exists.1 hsome
  refine ⟨s', hs', ?_, ?_, ?_⟩
  · have := rename_travels s s' h _ hs' a ha
    rwa [hsub, if_pos rfl] at this
  · have := rename_travels s s' h _ hs' b hb
    rwa [hsub, if_neg hab, if_pos rfl] at this
  · rw [entry_eq_none_iff, rename_elements s s' h _ hs']
    intro hmem
    obtain ⟨x, hx, hxa⟩ := List.mem_map.1 hmem
    rw [hsub] at hxa
    by_cases h1 : a = x
    · rw [if_pos h1] at hxa; exact hab hxa.symm
    · rw [if_neg h1] at hxa
      by_cases h2 : b = x
      · rw [if_pos h2] at hxa; exact hca hxa
      · rw [if_neg h2] at hxa; exact h1 hxa.symm

/-- `add` succeeds only with one array per layer, each of exactly its layer's shape (the code's
`assert data.shape == self.data.shape`), stores exactly the given data and calibration under the new
name, and leaves every layer's shape and everything else as it was -/
theorem add_entry (s s' : State) (h : Inv s) (n : Name) (ds : List ArrIn) (c : Nat)
    (hs : add s n ds c = some s') :
    ds.map (·.1) = s.layers.map (·.shape) ∧ s'.layers.map (·.shape) = s.layers.map (·.shape) ∧
    entry s' n = some (ds.map (·.2), c) ∧ ∀ k, k ≠ n → entry s' k = entry s k := by
  have hr := add_refines h n ds c
  rw [hs] at hr
  obtain ⟨hn, hsh, hs'⟩ := add_eq_some h hs
  refine ⟨hsh, ?_, ?_⟩
  · rw [hs']
    exact map_zipWith_left (·.shape) (Layer.addField n) s.layers ds (shapes_length hsh) (fun _ _ _ => rfl)
  simp only [Option.map_some, Spec.add] at hr
  rw [if_pos ⟨by rw [abs_map_keys]; exact hn, hsh⟩] at hr
  simp only [Option.some.injEq] at hr
  unfold entry
  rw [hr]
  simp only
  have hnk : n ∉ keys (abs s).map := by rw [abs_map_keys]; exact hn
  constructor
  · rw [get?_append_right _ hnk]; simp [get?_cons]
  · intro k hk
    by_cases hmem : k ∈ keys (abs s).map
    · rw [get?_append_left _ hmem]
    · rw [get?_append_right _ hmem, (get?_eq_none_iff _ _).2 hmem]
      have : ¬ n = k := fun hh => hk hh.symm
      simp [get?_cons, this]

/-- removed elements are gone from the data of every layer and from the calibrations; untouched
elements keep their data and calibration -/
theorem remove_entry (s s' : State) (h : Inv s) (ns : List Name) (hs : remove s ns = some s') :
    (∀ n ∈ ns, entry s' n = none ∧ n ∉ keys s'.cal ∧ ∀ l ∈ s'.layers, n ∉ keys l.fields) ∧
      ∀ k, k ∉ ns → entry s' k = entry s k := by
  have hr := remove_refines h ns
  rw [hs] at hr
  obtain ⟨hnd, hpres, _⟩ := remove_eq_some h hs
  have h' : Inv s' := remove_inv h hs
  simp only [Option.map_some, Spec.remove] at hr
  rw [if_pos ⟨hnd, by rw [abs_map_keys]; exact hpres⟩] at hr
  simp only [Option.some.injEq] at hr
  have hgone : ∀ n ∈ ns, entry s' n = none := by
    intro n hn
    unfold entry
    rw [hr]
    exact get?_filter_key_neg (fun k => decide (k ∉ ns)) _ (by simp [hn])
  constructor
  · intro n hn
    have hne : n ∉ s'.elements := (entry_eq_none_iff s' n).1 (hgone n hn)
    refine ⟨hgone n hn, fun hh => hne ((h'.cal_iff n).1 hh), ?_⟩
    intro l hl
    rw [h'.layer_keys hl]; exact hne
  · intro k hk
    unfold entry
    rw [hr]
    exact get?_filter_key_pos (fun k => decide (k ∉ ns)) _ (by simp [hk])

/-- what an entry of the dictionary view is, in terms of the stored state: present names map to
the data found under that name in every layer and the calibration found under that name -/
theorem entry_stored (s : State) (h : Inv s) (n : Name) (hn : n ∈ s.elements) :
    ∃ c, get? s.cal n = some c ∧
      entry s n = some (s.layers.map (fun l => (get? l.fields n).getD 0), c) ∧
      ∀ l ∈ s.layers, (get? l.fields n).isSome := by
  obtain ⟨c, hc⟩ := get?_of_mem_keys ((h.cal_iff n).2 hn)
  refine ⟨c, hc, ?_, ?_⟩
  · rw [entry_eq, if_pos hn]; simp [dataIn, calIn, hc]
  · intro l hl
    rw [get?_isSome_iff, h.layer_keys hl]; exact hn

/-! ## reads -/

/-- a read returns what the dictionary holds: the element's (or every element's) data of that
layer and, when calibrated, the element's own calibration -/
theorem read_refines (s : State) (h : Inv s) (layer : Nat) (t : Option Name) (c : Bool) :
    read s layer t c = (abs s).read layer t c :=
  read_refines' h layer t c

/-- every item a successful read returns is the stored data of that element in that layer, and a
calibrated read names that element's own calibration -/
theorem read_items (s : State) (h : Inv s) (layer : Nat) (t : Option Name) (c : Bool) (out : ReadOut)
    (hr : read s layer t c = some out) :
    ∀ item ∈ out, ∃ ds cal, entry s item.1 = some (ds, cal) ∧ ds[layer]? = some item.2.1 ∧
      item.2.2 = (if c then some cal else none) := by
  rw [read_refines s h] at hr
  unfold Spec.read at hr
  split at hr
  · cases t with
    | some n =>
      simp only at hr
      cases hg : get? (abs s).map n with
      | none => rw [hg] at hr; simp at hr
      | some e =>
        rw [hg] at hr
        simp only at hr
        cases hd : e.1[layer]? with
        | none => rw [hd] at hr; simp at hr
        | some d =>
          rw [hd] at hr
          simp only [Option.some.injEq] at hr
          subst hr
          intro item hi
          simp only [List.mem_singleton] at hi
          subst hi
          exact ⟨e.1, e.2, hg, hd, rfl⟩
    | none =>
      simp only at hr
      intro item hi
      obtain ⟨e, he, h1, h2, h3⟩ := readAll_items layer c _ out hr item hi
      refine ⟨e.2.1, e.2.2, ?_, h1, h3⟩
      unfold entry
      rw [h2]
      exact get?_of_mem_nodup (by rw [abs_map_keys]; exact h.nodup) he
  · simp at hr

/-- a successful read leaves the state as it is -/
theorem read_keeps_state (s s' : State) (layer : Nat) (t : Option Name) (c : Bool)
    (h : step s (.get layer t c) = some s') : s' = s := by
  simp only [step] at h
  split at h <;> simp_all

/-- reads and caller-side edits anywhere in a successful history are invisible: the final state is
that of the state-changing operations alone -/
theorem reads_and_caller_edits_invisible (s s' : State) (ops : List Op) (hs : run s ops = some s') :
    run s (ops.filter Op.changes) = some s' := by
  induction ops generalizing s with
  | nil => exact hs
  | cons op r ih =>
    simp only [run] at hs
    cases hstep : step s op with
    | none => rw [hstep] at hs; simp at hs
    | some s1 =>
      rw [hstep] at hs
      cases op with
      | add n ds c => simp only [List.filter_cons, Op.changes, if_true, run, hstep]; exact ih s1 hs
      | remove ns => simp only [List.filter_cons, Op.changes, if_true, run, hstep]; exact ih s1 hs
      | rename m => simp only [List.filter_cons, Op.changes, if_true, run, hstep]; exact ih s1 hs
      | get layer t c =>
        have := read_keeps_state s s1 layer t c hstep
        subst this
        simp only [List.filter_cons, Op.changes, Bool.false_eq_true, if_false]; exact ih s1 hs
      | callerEdit =>
        simp only [step, Option.some.injEq] at hstep
        subst hstep
        simp only [List.filter_cons, Op.changes, Bool.false_eq_true, if_false]; exact ih s hs

/-! ## constructors and the npz round trip -/

/-- a freshly constructed laser is well-formed and stands for the dictionary of its arguments:
every element with its data and the calibration given for it (the default otherwise) -/
theorem construct_refines (srr : Bool) (ls : List Layer) (given : Option Dict) (cfg : Nat)
    (hl : LayersOK ls) (hg : GivenOK ls given) :
    Inv (mkState srr ls given cfg) ∧ abs (mkState srr ls given cfg) = Spec.construct srr ls given cfg :=
  ⟨mkState_inv cfg hl hg, mkState_abs cfg hl hg⟩

/-- saving and loading (the stored stack handed to the constructor with the stored calibrations)
gives a well-formed laser of the same kind that stands for the same dictionary -/
theorem roundtrip_refines (s : State) (h : Inv s) (hk : KindOK s) :
    ∃ s', roundTrip s = some s' ∧ Inv s' ∧ KindOK s' ∧ abs s' = abs s := by
  refine ⟨_, roundTrip_some hk, mkState_inv s.cfg h.layersOK h.givenOK, hk, ?_⟩
  rw [mkState_abs s.cfg h.layersOK h.givenOK]
  exact construct_abs_self h

/-! ## non-vacuity -/

def exLayer : Layer := { shape := [2, 3], fields := [("A", 1), ("B", 3), ("C", 5)] }
def exState : State := constructLaser exLayer (some [("C", 1), ("A", 2)]) 1
def exSRR : State := mkState true [exLayer, { shape := [2, 3], fields := [("A", 7), ("B", 9), ("C", 11)] }] none 1

example : LayersOK [exLayer] ∧ GivenOK [exLayer] (some [("C", 1), ("A", 2)]) := by decide
example : Inv exState ∧ KindOK exState := by decide
example : Inv exSRR ∧ KindOK exSRR := by decide
/-- swap, 3-cycle, remove, chain onto the freed name, add, reads and a caller edit: all succeed -/
example : (run exState [.callerEdit, .rename [("A", "B"), ("B", "A")],
    .rename [("A", "B"), ("B", "C"), ("C", "A")], .get 0 none true, .remove ["C"],
    .rename [("A", "B"), ("B", "C")], .add "A" [([2, 3], 7)] 3, .get 0 (some "A") true]).isSome = true := by decide
example : (rename exState [("A", "B"), ("B", "A")]).map (fun s => (s.elements, s.cal))
    = some (["B", "A", "C"], [("B", 2), ("A", 0), ("C", 1)]) := by decide
example : (rename exSRR [("A", "B"), ("B", "C"), ("C", "A")]).map (fun s => entry s "A")
    = some (some ([5, 11], 0)) := by decide
example : "A" ∈ exState.elements ∧ "B" ∈ exState.elements ∧ "A" ≠ "B" ∧ "D" ∉ exState.elements := by decide
example : (roundTrip exSRR).isSome = true := by decide
example : read exState 0 none true = some [("A", 1, some 2), ("B", 3, some 0), ("C", 5, some 1)] ∧
    read exSRR 1 (some "B") false = some [("B", 9, none)] := by decide
example : (add exState "D" [([2, 3], 9)] 4).isSome = true ∧ (remove exState ["B", "A"]).isSome = true := by decide
/-- the success conditions are real: duplicates, absent names and collisions are rejected -/
example : add exState "A" [([2, 3], 9)] 4 = none ∧ add exState "D" [([3], 9)] 4 = none ∧
    add exState "D" [([2, 3], 9), ([2, 3], 11)] 4 = none ∧ remove exState ["D"] = none ∧ remove exState ["A", "A"] = none ∧
    rename exState [("A", "B")] = none ∧ rename exState [("A", "D"), ("B", "D")] = none := by decide

end Pew.LaserEdit
