import PewProofs.LaserEdit

/-! # C07 — property theorems (statements only depend on `PewModel.LaserEdit`) -/
namespace Pew.LaserEdit

/-- a successful read leaves the state as it is -/
theorem read_keeps_state (s s' : State) (layer : Nat) (t : Option Name) (c : Bool)
    (h : step s (.get layer t c) = some s') : s' = s := by
  simp only [step] at h
  split at h <;> simp_all

end Pew.LaserEdit
