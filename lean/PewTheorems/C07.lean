import PewProofs.LaserEditObj
import PewProofs.LaserEditMulti

/-! # C07 — property theorems (statements only depend on `PewModel.LaserEdit`)

`State` is the mechanism (per-layer ordered field lists + insertion-ordered calibration dict),
`Spec` the plain dictionary `name ↦ (data per layer, calibration)`, `abs : State → Spec` the
abstraction, `entry s n` what the dictionary view of `s` holds under `n`.
`Inv s`: at least one layer, all layers have the same field names, names distinct, calibration
keys distinct and (as a set) equal to the field names.  Everything is proved for every state that
satisfies `Inv` and every operation / operation list — no bound on sizes or lengths.

Below the content level sits the object level (`World`: a heap of array cells, `Calibration`, `Config`,
dict objects with identities; `hstep`; `view : World → State`).  The clauses of the property about
reads ("never modify what is stored") and about the constructor ("copied, so later edits by the caller
do not leak in") are theorems about that level (`get_allocates_only`, `construct_objects`,
`foreign_edit_invisible`, `history_view`); what is *not* detached from the caller is stated as well
(`stored_write_visible`, `write_through_view`, `add_stores_reference`).

Several lasers may live in one memory and may have been built from the same arguments — the same Python list
of layers, the same array, the same calibration dict, the same config object (`MWorld`, `mstep`; an `SRRLaser`
keeps its layers in a list object of its own, `self.data = list(data)`).  `multi_call`, `multi_construct`,
`multi_load`, `shared_arguments_invisible` and `multi_history_view` say that every laser goes on agreeing with
its own dictionary whatever is done to the others, and that the caller's list is left alone. -/
namespace Pew.LaserEdit

/-! ## refinement -/

/-- One operation of the mechanism is the same operation on the dictionary — including *whether*
it succeeds: `add` exactly for a fresh name (and one array per layer), `remove` exactly for distinct
present names, `rename` exactly when no two present names end up with the same name, reads exactly
for a present element (or all) of an existing layer. -/
theorem step_refines (s : State) (h : Inv s) (op : Op) : (step s op).map abs = (abs s).step op :=
  step_refines' h op

/-- A successful operation keeps the invariant (so elements = calibration keys, all distinct, all
layers alike) and never changes the image shape, the kind or the configuration. -/
theorem inv_preserved (s s' : State) (h : Inv s) (op : Op) (hs : step s op = some s') :
    Inv s' ∧ s'.shape = s.shape ∧ s'.cfg = s.cfg ∧ s'.srr = s.srr := by
  have hf := step_frame h hs
  refine ⟨step_inv h hs, ?_, hf.2.2, hf.2.1⟩
  simp only [State.shape, hf.1, hf.2.1]

/-- Any history: running the mechanism and then looking at it as a dictionary is running the
dictionary operations on the dictionary view of the start (by induction over the history). -/
theorem history_refines (s : State) (h : Inv s) (ops : List Op) :
    (run s ops).map abs = (abs s).run ops :=
  run_refines' ops h

/-- After any successful history the laser is well-formed again and its shape and configuration are
those it started with. -/
theorem history_inv (s s' : State) (h : Inv s) (ops : List Op) (hs : run s ops = some s') :
    Inv s' ∧ s'.shape = s.shape ∧ s'.cfg = s.cfg := by
  induction ops generalizing s with
  | nil =>
    simp only [run, Option.some.injEq] at hs
    subst hs; exact ⟨h, rfl, rfl⟩
  | cons op r ih =>
    simp only [run] at hs
    cases hstep : step s op with
    | none => rw [hstep] at hs; simp at hs
    | some s1 =>
      rw [hstep] at hs
      obtain ⟨h1, hsh, hcfg, _⟩ := inv_preserved s s1 h op hstep
      obtain ⟨h2, hsh2, hcfg2⟩ := ih s1 h1 hs
      exact ⟨h2, hsh2.trans hsh, hcfg2.trans hcfg⟩

/-! ## corollaries in the words of the property -/

/-- the element tuple and the calibration keys are the same set (and both duplicate-free, and every
layer has exactly these fields), after any successful history -/
theorem elements_eq_calibration_keys (s s' : State) (h : Inv s) (ops : List Op)
    (hs : run s ops = some s') :
    (∀ n, n ∈ s'.elements ↔ n ∈ keys s'.cal) ∧ s'.elements.Nodup ∧ (keys s'.cal).Nodup ∧
      ∀ l ∈ s'.layers, keys l.fields = s'.elements := by
  have h' := (history_inv s s' h ops hs).1
  exact ⟨fun n => (h'.cal_iff n).symm, h'.nodup, h'.cal_nodup, h'.2.1⟩

/-- `rename` succeeds exactly for maps that are injective on the present names after filling in
the identity for unmentioned names (so the image may not collide with an untouched name, but may
reuse names that the same map frees) -/
theorem rename_succeeds_iff (s : State) (h : Inv s) (m : NameMap) :
    (rename s m).isSome ↔ ∀ a ∈ s.elements, ∀ b ∈ s.elements, sub m a = sub m b → a = b := by
  rw [← List.nodup_map_iff_inj_on h.nodup]
  have := rename_refines h m
  constructor
  · intro hh
    obtain ⟨s', hs'⟩ := Option.isSome_iff_exists.1 hh
    exact (rename_eq_some h hs').1
  · intro hh
    cases hr : rename s m with
    | some _ => rfl
    | none =>
      rw [hr] at this
      simp only [Option.map_none, Spec.rename] at this
      rw [if_pos (by rw [keys_mapKey, abs_map_keys]; exact hh)] at this
      simp at this

/-- data and calibration travel together under rename: whatever was stored under a present name
`n` (data in every layer, and calibration) is afterwards stored under `names.get(n, n)` — swaps,
cycles, chains onto freed names included -/
theorem rename_travels (s s' : State) (h : Inv s) (m : NameMap) (hs : rename s m = some s')
    (n : Name) (hn : n ∈ s.elements) : entry s' (sub m n) = entry s n := by
  have hr := rename_refines h m
  rw [hs] at hr
  obtain ⟨hnd, _⟩ := rename_eq_some h hs
  simp only [Option.map_some, Spec.rename] at hr
  rw [if_pos (by rw [keys_mapKey, abs_map_keys]; exact hnd)] at hr
  simp only [Option.some.injEq] at hr
  unfold entry
  rw [hr]
  simp only
  exact get?_mapKey (sub m) (abs s).map (by rw [abs_map_keys]; exact hn)
    (by rw [abs_map_keys]; exact List.inj_on_of_nodup_map hnd)

/-- after a rename exactly the images of the old names are present -/
theorem rename_elements (s s' : State) (h : Inv s) (m : NameMap) (hs : rename s m = some s') :
    s'.elements = s.elements.map (sub m) := by
  obtain ⟨_, rfl⟩ := rename_eq_some h hs
  exact elementsOf_map_renamed m s.layers

/-- an element the map does not mention keeps its name, data and calibration -/
theorem rename_untouched (s s' : State) (h : Inv s) (m : NameMap) (hs : rename s m = some s')
    (n : Name) (hn : n ∈ s.elements) (hm : get? m n = none) : entry s' n = entry s n := by
  have := rename_travels s s' h m hs n hn
  simpa [sub, hm] using this

/-- swapping two present elements always succeeds and exchanges data *and* calibration; every
other name is as before -/
theorem rename_swap (s : State) (h : Inv s) (a b : Name) (ha : a ∈ s.elements) (hb : b ∈ s.elements)
    (hab : a ≠ b) :
    ∃ s', rename s [(a, b), (b, a)] = some s' ∧ entry s' a = entry s b ∧ entry s' b = entry s a ∧
      ∀ k, k ≠ a → k ≠ b → entry s' k = entry s k := by
  have hsub : ∀ x, sub [(a, b), (b, a)] x = if a = x then b else if b = x then a else x := by
    intro x; simp only [sub, get?_cons, get?_nil]; split <;> [rfl; (split <;> rfl)]
  have hinj : ∀ x y, sub [(a, b), (b, a)] x = sub [(a, b), (b, a)] y → x = y := by
    intro x y
    rw [hsub, hsub]
    grind
  have hsome := (rename_succeeds_iff s h _).2 (fun x _ y _ => hinj x y)
  obtain ⟨s', hs'⟩ := Option.isSome_iff_exists.1 hsome
  refine ⟨s', hs', ?_, ?_, ?_⟩
  · have := rename_travels s s' h _ hs' b hb
    rwa [hsub, if_neg hab, if_pos rfl] at this
  · have := rename_travels s s' h _ hs' a ha
    rwa [hsub, if_pos rfl] at this
  · intro k hka hkb
    by_cases hk : k ∈ s.elements
    · have := rename_travels s s' h _ hs' k hk
      rwa [hsub, if_neg (Ne.symm hka), if_neg (Ne.symm hkb)] at this
    · rw [(entry_eq_none_iff s k).2 hk, entry_eq_none_iff, rename_elements s s' h _ hs']
      intro hmem
      obtain ⟨x, hx, hxk⟩ := List.mem_map.1 hmem
      rw [hsub] at hxk
      by_cases h1 : a = x
      · rw [if_pos h1] at hxk; exact hkb hxk.symm
      · rw [if_neg h1] at hxk
        by_cases h2 : b = x
        · rw [if_pos h2] at hxk; exact hka hxk.symm
        · rw [if_neg h2] at hxk; exact hk (hxk ▸ hx)

/-- a chain onto a freed name: `{a: b, b: c}` with `c` not present succeeds; `b` gets what `a` had,
`c` gets what `b` had, `a` is gone -/
theorem rename_chain (s : State) (h : Inv s) (a b c : Name) (ha : a ∈ s.elements) (hb : b ∈ s.elements)
    (hab : a ≠ b) (hc : c ∉ s.elements) :
    ∃ s', rename s [(a, b), (b, c)] = some s' ∧ entry s' b = entry s a ∧ entry s' c = entry s b ∧
      entry s' a = none := by
  have hsub : ∀ x, sub [(a, b), (b, c)] x = if a = x then b else if b = x then c else x := by
    intro x; simp only [sub, get?_cons, get?_nil]; split <;> [rfl; (split <;> rfl)]
  have hca : c ≠ a := fun hh => hc (hh ▸ ha)
  have hcb : c ≠ b := fun hh => hc (hh ▸ hb)
  have hinj : ∀ x ∈ s.elements, ∀ y ∈ s.elements,
      sub [(a, b), (b, c)] x = sub [(a, b), (b, c)] y → x = y := by
    intro x hx y hy
    rw [hsub, hsub]
    have hxc : x ≠ c := fun hh => hc (hh ▸ hx)
    have hyc : y ≠ c := fun hh => hc (hh ▸ hy)
    grind
  have hsome := (rename_succeeds_iff s h _).2 hinj
  obtain ⟨s', hs'⟩ := Option.isSome_iff_exists.1 hsome
  refine ⟨s', hs', ?_, ?_, ?_⟩
  · have := rename_travels s s' h _ hs' a ha
    rwa [hsub, if_pos rfl] at this
  · have := rename_travels s s' h _ hs' b hb
    rwa [hsub, if_neg hab, if_pos rfl] at this
  · rw [entry_eq_none_iff, rename_elements s s' h _ hs']
    intro hmem
    obtain ⟨x, hx, hxa⟩ := List.mem_map.1 hmem
    rw [hsub] at hxa
    by_cases h1 : a = x
    · rw [if_pos h1] at hxa; exact hab hxa.symm
    · rw [if_neg h1] at hxa
      by_cases h2 : b = x
      · rw [if_pos h2] at hxa; exact hca hxa
      · rw [if_neg h2] at hxa; exact h1 hxa.symm

/-- `add` succeeds only with one array per layer, each of exactly its layer's shape (the code's
`assert data.shape == self.data.shape`), stores exactly the given data and calibration under the new
name, and leaves every layer's shape and everything else as it was -/
theorem add_entry (s s' : State) (h : Inv s) (n : Name) (ds : List ArrIn) (c : Nat)
    (hs : add s n ds c = some s') :
    ds.map (·.1) = s.layers.map (·.shape) ∧ s'.layers.map (·.shape) = s.layers.map (·.shape) ∧
    entry s' n = some (ds.map (·.2), c) ∧ ∀ k, k ≠ n → entry s' k = entry s k := by
  have hr := add_refines h n ds c
  rw [hs] at hr
  obtain ⟨hn, hsh, hs'⟩ := add_eq_some h hs
  refine ⟨hsh, ?_, ?_⟩
  · rw [hs']
    exact map_zipWith_left (·.shape) (Layer.addField n) s.layers ds (shapes_length hsh) (fun _ _ _ => rfl)
  simp only [Option.map_some, Spec.add] at hr
  rw [if_pos ⟨by rw [abs_map_keys]; exact hn, hsh⟩] at hr
  simp only [Option.some.injEq] at hr
  unfold entry
  rw [hr]
  simp only
  have hnk : n ∉ keys (abs s).map := by rw [abs_map_keys]; exact hn
  constructor
  · rw [get?_append_right _ hnk]; simp [get?_cons]
  · intro k hk
    by_cases hmem : k ∈ keys (abs s).map
    · rw [get?_append_left _ hmem]
    · rw [get?_append_right _ hmem, (get?_eq_none_iff _ _).2 hmem]
      have : ¬ n = k := fun hh => hk hh.symm
      simp [get?_cons, this]

/-- removed elements are gone from the data of every layer and from the calibrations; untouched
elements keep their data and calibration -/
theorem remove_entry (s s' : State) (h : Inv s) (ns : List Name) (hs : remove s ns = some s') :
    (∀ n ∈ ns, entry s' n = none ∧ n ∉ keys s'.cal ∧ ∀ l ∈ s'.layers, n ∉ keys l.fields) ∧
      ∀ k, k ∉ ns → entry s' k = entry s k := by
  have hr := remove_refines h ns
  rw [hs] at hr
  obtain ⟨hnd, hpres, _⟩ := remove_eq_some h hs
  have h' : Inv s' := remove_inv h hs
  simp only [Option.map_some, Spec.remove] at hr
  rw [if_pos ⟨hnd, by rw [abs_map_keys]; exact hpres⟩] at hr
  simp only [Option.some.injEq] at hr
  have hgone : ∀ n ∈ ns, entry s' n = none := by
    intro n hn
    unfold entry
    rw [hr]
    exact get?_filter_key_neg (fun k => decide (k ∉ ns)) _ (by simp [hn])
  constructor
  · intro n hn
    have hne : n ∉ s'.elements := (entry_eq_none_iff s' n).1 (hgone n hn)
    refine ⟨hgone n hn, fun hh => hne ((h'.cal_iff n).1 hh), ?_⟩
    intro l hl
    rw [h'.layer_keys hl]; exact hne
  · intro k hk
    unfold entry
    rw [hr]
    exact get?_filter_key_pos (fun k => decide (k ∉ ns)) _ (by simp [hk])

/-- what an entry of the dictionary view is, in terms of the stored state: present names map to
the data found under that name in every layer and the calibration found under that name -/
theorem entry_stored (s : State) (h : Inv s) (n : Name) (hn : n ∈ s.elements) :
    ∃ c, get? s.cal n = some c ∧
      entry s n = some (s.layers.map (fun l => (get? l.fields n).getD 0), c) ∧
      ∀ l ∈ s.layers, (get? l.fields n).isSome := by
  obtain ⟨c, hc⟩ := get?_of_mem_keys ((h.cal_iff n).2 hn)
  refine ⟨c, hc, ?_, ?_⟩
  · rw [entry_eq, if_pos hn]; simp [dataIn, calIn, hc]
  · intro l hl
    rw [get?_isSome_iff, h.layer_keys hl]; exact hn

/-! ## reads -/

/-- a read returns what the dictionary holds: the element's (or every element's) data of that
layer and, when calibrated, the element's own calibration -/
theorem read_refines (s : State) (h : Inv s) (layer : Nat) (t : Option Name) (c : Bool) :
    read s layer t c = (abs s).read layer t c :=
  read_refines' h layer t c

/-- every item a successful read returns is the stored data of that element in that layer, and a
calibrated read names that element's own calibration -/
theorem read_items (s : State) (h : Inv s) (layer : Nat) (t : Option Name) (c : Bool) (out : ReadOut)
    (hr : read s layer t c = some out) :
    ∀ item ∈ out, ∃ ds cal, entry s item.1 = some (ds, cal) ∧ ds[layer]? = some item.2.1 ∧
      item.2.2 = (if c then some cal else none) := by
  rw [read_refines s h] at hr
  unfold Spec.read at hr
  split at hr
  · cases t with
    | some n =>
      simp only at hr
      cases hg : get? (abs s).map n with
      | none => rw [hg] at hr; simp at hr
      | some e =>
        rw [hg] at hr
        simp only at hr
        cases hd : e.1[layer]? with
        | none => rw [hd] at hr; simp at hr
        | some d =>
          rw [hd] at hr
          simp only [Option.some.injEq] at hr
          subst hr
          intro item hi
          simp only [List.mem_singleton] at hi
          subst hi
          exact ⟨e.1, e.2, hg, hd, rfl⟩
    | none =>
      simp only at hr
      intro item hi
      obtain ⟨e, he, h1, h2, h3⟩ := readAll_items layer c _ out hr item hi
      refine ⟨e.2.1, e.2.2, ?_, h1, h3⟩
      unfold entry
      rw [h2]
      exact get?_of_mem_nodup (by rw [abs_map_keys]; exact h.nodup) he
  · simp at hr

/-! ## failing calls -/

/-- `stepE` (the calls with their exceptions) succeeds exactly when `step` does, with the same result -/
theorem stepE_ok_iff (s s' : State) (op : Op) : stepE s op = .ok s' ↔ step s op = some s' := by
  rw [← stepE_toOption, Res.toOption_ok]

/-- A failing `add` raises before anything is assigned when the laser has one layer (`Laser`); in general it
leaves calibrations, configuration, kind and all shapes alone, and the laser is either exactly as before
or no longer well-formed (some layers have the new field, a later one does not). -/
theorem add_fail (s s' : State) (h : Inv s) (n : Name) (ds : List ArrIn) (c : Nat) (e : Err)
    (hs : stepE s (.add n ds c) = .fail e s') :
    s'.cal = s.cal ∧ s'.cfg = s.cfg ∧ s'.srr = s.srr ∧ s'.layers.map (·.shape) = s.layers.map (·.shape) ∧
      (s' = s ∨ ¬ Inv s') ∧ (s.layers.length = 1 → s' = s) := by
  obtain ⟨h1, h2, h3, h4, h5⟩ := addE_fail h hs
  refine ⟨h1, h2, h3, h4, h5, ?_⟩
  intro hlen
  simp only [stepE, addE] at hs
  split at hs
  · simp only [Res.fail.injEq] at hs; exact hs.2.symm
  · match hls : s.layers, hlen with
    | [l], _ =>
      rw [hls] at hs
      cases ds with
      | nil =>
        simp only [addLayersE, Res.fail.injEq] at hs
        obtain ⟨_, rfl⟩ := hs
        cases s; simp_all
      | cons a u =>
        simp only [addLayersE] at hs
        cases hl : l.addE n a with
        | error x =>
          rw [hl] at hs
          simp only [Res.fail.injEq] at hs
          obtain ⟨_, rfl⟩ := hs
          cases s; simp_all
        | ok l' => rw [hl] at hs; simp at hs

/-- A failing `remove` raises `KeyError` after the fields have been dropped from every layer and the names
before the failing one have been popped from the calibrations: the failing name is not (or no longer) a
key.  The laser is well-formed afterwards exactly if every present name of the list had been popped. -/
theorem remove_fail (s s' : State) (h : Inv s) (ns : List Name) (e : Err) (hs : stepE s (.remove ns) = .fail e s') :
    e = .key ∧ s'.layers = s.layers.map (·.drop ns) ∧ s'.cfg = s.cfg ∧ s'.srr = s.srr ∧
      (∃ k, k < ns.length ∧ s'.cal = s.cal.filter (fun x => decide (x.1 ∉ ns.take k)) ∧
        ∀ x, ns[k]? = some x → x ∉ keys s'.cal) ∧
      (Inv s' ↔ ∀ n ∈ ns, n ∈ s.elements → n ∉ keys s'.cal) := by
  obtain ⟨h1, h2, h3, h4, k, hk, hcal, hx⟩ := removeE_fail hs
  refine ⟨h1, h2, h3, h4, ⟨k, hk, hcal, hx⟩, ?_⟩
  have hel : s'.elements = s.elements.filter (fun n => decide (n ∉ ns)) := by
    simp only [State.elements, h2, elementsOf_map_drop]
  have hkeys : keys s'.cal = (keys s.cal).filter (fun n => decide (n ∉ ns.take k)) := by
    rw [hcal]; exact keys_filter_key (fun n => decide (n ∉ ns.take k)) s.cal
  constructor
  · intro h' n hn hne hc
    have := (h'.cal_iff n).1 hc
    rw [hel] at this
    simpa [hn] using (List.mem_filter.1 this).2
  · intro hall
    refine ⟨by rw [h2]; simpa using h.1, ?_, by rw [hel]; exact h.nodup.filter _, by rw [hkeys]; exact h.cal_nodup.filter _, ?_⟩
    · intro l' hl'
      rw [h2] at hl'
      obtain ⟨l, hl, rfl⟩ := List.mem_map.1 hl'
      rw [hel]
      simp only [Layer.drop]
      rw [keys_filter_key (fun k => decide (k ∉ ns)), h.layer_keys hl]
    · intro n
      rw [hel, hkeys]
      simp only [List.mem_filter, decide_eq_true_eq, h.cal_iff n]
      constructor
      · rintro ⟨hne, hnt⟩
        refine ⟨hne, fun hn => ?_⟩
        apply hall n hn hne
        rw [hkeys]
        exact List.mem_filter.2 ⟨(h.cal_iff n).2 hne, by simpa using hnt⟩
      · rintro ⟨hne, hnn⟩
        exact ⟨hne, fun hnt => hnn (List.mem_of_mem_take hnt)⟩

/-- A failing `rename` (two fields would get the same name: `ValueError`) and a failing read leave the
laser exactly as it was. -/
theorem rename_get_fail_atomic (s s' : State) (h : Inv s) (e : Err) :
    (∀ m, stepE s (.rename m) = .fail e s' → e = .value ∧ s' = s) ∧
    (∀ layer t c, stepE s (.get layer t c) = .fail e s' → s' = s) := by
  refine ⟨fun m hs => renameE_fail h hs, fun layer t c hs => ?_⟩
  simp only [stepE] at hs
  split at hs
  · simp at hs
  · simp only [Res.fail.injEq] at hs; exact hs.2.symm

/-! ## the object level: identities, aliasing, who can change what -/

/-- A call on the laser, run on the heap of objects and seen through `view`, is that call of the content
level — success or exception, result or half-edited state — and the laser's references stay valid. -/
theorem call_refines (w : World) (hv : Valid w) (op : HOp) (ha : ArgsOK w.heap op) (hc : op.isCall = true) :
    (hstep w op).map view = stepE (view w) (absOp w.heap op) ∧ Valid (hstep w op).state :=
  hstep_view' w hv op ha hc

/-- Reads never modify what is stored.  A successful `get` returns the stored values (`readE`), leaves the
laser object alone, only allocates: every cell, `Calibration`, config, offsets array and dict that existed
keeps its content.  What it returns is new memory — except for a single element of a `Laser` read
uncalibrated or through an identity calibration (`returnsView`): that is the stored column itself and
nothing is allocated. -/
theorem get_allocates_only (w : World) (hv : Valid w) (layer : Nat) (t : Option Name) (c : Bool) (r : RRes)
    (h' : Heap) (hg : hGet w layer t c = .ok (r, h')) :
    readE (view w) layer t c = .ok r.items ∧ view ⟨h', w.laser⟩ = view w ∧
    w.heap.cells.length ≤ h'.cells.length ∧ (∀ i, i < w.heap.cells.length → h'.cells[i]? = w.heap.cells[i]?) ∧
    h'.cals = w.heap.cals ∧ h'.cfgs = w.heap.cfgs ∧ h'.offs = w.heap.offs ∧ h'.dicts = w.heap.dicts ∧
    (returnsView w t c → ∃ a n i, w.laser.data[layer]? = some a ∧ t = some n ∧ get? a.fields n = some i ∧
      r.cells = [(n, i)] ∧ h' = w.heap) ∧
    (¬ returnsView w t c → r.allNew w.heap) := by
  obtain ⟨h1, h2, h3, h4⟩ := (hGet_spec w hv layer t c).1 r h' hg
  exact ⟨h1, (view_grows hv h2).1, h2.1, h2.2.1, h2.2.2.1, h2.2.2.2.1, h2.2.2.2.2.1, h2.2.2.2.2.2, h3, h4⟩

/-- …and a failing `get` raises what the content level says -/
theorem get_error (w : World) (hv : Valid w) (layer : Nat) (t : Option Name) (c : Bool) (e : Err)
    (hg : hGet w layer t c = .error e) : readE (view w) layer t c = .error e :=
  (hGet_spec w hv layer t c).2 e hg

/-- The constructors, on objects: the new laser stands for `mkState` of the contents of its arguments; its
data arrays are the caller's arrays themselves (by reference); its dict, every `Calibration` in it and
its config are objects that did not exist before (copies); a copied config holds the *same* offsets array
as the caller's; no memory cell is written.  Hypotheses: the arrays and the given calibrations exist. -/
theorem construct_objects (h : Heap) (srr : Bool) (data : List Arr) (given config : Option Nat) (w : World)
    (hd : ∀ a ∈ data, ∀ e ∈ a.fields, e.2 < h.cells.length)
    (hg : ∀ g, given = some g → ∀ e ∈ h.dict g, e.2 < h.cals.length)
    (hw : hConstruct h srr data given config = some w) :
    view w = mkState srr (data.map (viewLayer h)) (given.map (fun g => viewDict h (h.dict g)))
        ((config.map (fun k => (h.cfgOf k).scal)).getD 0) ∧
    Valid w ∧ w.laser.data = data ∧
    h.dicts.length ≤ w.laser.cal ∧ (∀ e ∈ w.heap.dict w.laser.cal, h.cals.length ≤ e.2) ∧
    h.cfgs.length ≤ w.laser.cfg ∧
    (∀ k, config = some k → (w.heap.cfgOf w.laser.cfg).offs = (h.cfgOf k).offs) ∧ w.heap.cells = h.cells := by
  obtain ⟨s1, s2, s3, _, s5, s6, s7, s8, s9, _⟩ := hConstruct_spec h srr data given config w hd hg hw
  exact ⟨s1, s2, s3, s5, s6, s7, s8, s9⟩

/-- in particular the new laser references none of the `Calibration`, dict and config objects that existed
before the call — whatever the caller passed and whatever else it holds -/
theorem construct_separate (h : Heap) (srr : Bool) (data : List Arr) (given config : Option Nat) (w : World)
    (hd : ∀ a ∈ data, ∀ e ∈ a.fields, e.2 < h.cells.length)
    (hg : ∀ g, given = some g → ∀ e ∈ h.dict g, e.2 < h.cals.length)
    (hw : hConstruct h srr data given config = some w) (F : Foreign)
    (hF : (∀ k ∈ F.cals, k < h.cals.length) ∧ (∀ k ∈ F.dicts, k < h.dicts.length) ∧ (∀ k ∈ F.cfgs, k < h.cfgs.length)) :
    Sep F w :=
  hConstruct_sep hd hg hw F hF

/-- Later edits by the caller do not leak in: whoever holds a `Calibration`, dict or config object the
laser does not reference may assign its attributes, write its arrays, delete and insert keys, rebind its
offsets — the laser (as seen through `view`) is unchanged, still valid and still separate. -/
theorem foreign_edit_invisible (F : Foreign) (w : World) (hv : Valid w) (hs : Sep F w) (op : HOp)
    (ha : Allowed F w.heap op) (hc : op.isCall = false) :
    ∃ w', hstep w op = .ok w' ∧ view w' = view w ∧ w'.laser = w.laser ∧ Valid w' ∧ Sep F w' := by
  obtain ⟨w', h1, h2, h3, h4, h5, _⟩ :=
    foreign_edit (h0 := w.heap) hv hs ⟨Nat.le_refl _, fun _ _ => rfl, Nat.le_refl _, fun _ _ _ => rfl⟩ ha hc
  exact ⟨w', h1, h2, h3, h4, h5⟩

/-- Any history (by induction): calls on the laser — with arrays and calibrations the caller created
beforehand and does not write to, none of the calibrations being a foreign one —, reads, and edits of the
foreign objects by their holders, interleaved in any order.  If all calls succeed, the laser's contents
are those of the content-level run in which the reads and the edits do nothing (`absOp` maps them to
`get` / `callerEdit`), and the laser is still separate from the foreign objects. -/
theorem history_view (F : Foreign) (w w' : World) (ops : List HOp) (hv : Valid w) (hs : Sep F w)
    (hall : ∀ op ∈ ops, Allowed F w.heap op) (hr : hrun w ops = some w') :
    run (view w) (ops.map (absOp w.heap)) = some (view w') ∧ Valid w' ∧ Sep F w' :=
  history_view' F w.heap ops w w' hv hs ⟨Nat.le_refl _, fun _ _ => rfl, Nat.le_refl _, fun _ _ _ => rfl⟩ hall hr

/-- What is NOT detached (1): an in-place write into a memory cell of a stored array — by the caller through
the array it handed to the constructor (stored by reference), or by anyone through a returned view — is a
write to the stored element: the next read returns the written value. -/
theorem stored_write_visible (w : World) (hv : Valid w) (layer : Nat) (a : Arr) (n : Name) (i v : Nat)
    (ha : w.laser.data[layer]? = some a) (hi : get? a.fields n = some i) :
    readE (view (hstep w (.writeCell i v)).state) layer (some n) false = .ok [(n, v, none)] :=
  stored_write_visible' w hv layer a n i v ha hi

/-- …so writing through the array returned by a view-returning `get` changes the stored data -/
theorem write_through_view (w : World) (hv : Valid w) (layer : Nat) (n : Name) (c : Bool) (r : RRes) (h' : Heap)
    (v : Nat) (hg : hGet w layer (some n) c = .ok (r, h')) (hr : returnsView w (some n) c) :
    ∃ i, r.cells = [(n, i)] ∧
      readE (view (hstep ⟨h', w.laser⟩ (.writeCell i v)).state) layer (some n) false = .ok [(n, v, none)] := by
  obtain ⟨_, _, h3, _⟩ := (hGet_spec w hv layer (some n) c).1 r h' hg
  obtain ⟨a, n', i, ha, hn, hi, hc, hh⟩ := h3 hr
  simp only [Option.some.injEq] at hn
  subst hn hh
  exact ⟨i, hc, stored_write_visible' w hv layer a n i v ha hi⟩

/-- What is NOT detached (2): `add` stores the caller's `Calibration` object itself; when its holder changes
it afterwards, the laser's calibration of that element changes with it. -/
theorem add_stores_reference (w w' : World) (hv : Valid w) (n : Name) (xs : List ArrIn) (k c : Nat)
    (ha : ArgsOK w.heap (.add n xs (some k))) (hs : hstep w (.add n xs (some k)) = .ok w') :
    get? (w'.heap.dict w'.laser.cal) n = some k ∧
      get? (view (hstep w' (.setCal k c)).state).cal n = some c := by
  obtain ⟨_, h2, h3, _, _⟩ := hAdd_ok_dict hv ha hs
  refine ⟨h2, ?_⟩
  have hk : k < w'.heap.cals.length := by rw [h3]; exact ha.2 k rfl
  simp only [hstep, Res.state, view, viewDict, get?_mapV]
  rw [show ({ w' with heap := { w'.heap with cals := w'.heap.cals.set k c } } : World).heap.dict w'.laser.cal
    = w'.heap.dict w'.laser.cal from rfl, h2]
  simp only [Option.map_some, Option.some.injEq]
  unfold Heap.calOf
  simp [List.getElem?_set_self hk]

/-- Memory: after a successful `add` and after `remove` every stored column is new memory (copies); after a
successful `rename` every layer occupies exactly the cells it occupied before (`rename_fields` returns a view). -/
theorem memory_after_edit (w : World) (hv : Valid w) :
    (∀ n xs cal w', ArgsOK w.heap (.add n xs cal) → hstep w (.add n xs cal) = .ok w' →
      ∀ a ∈ w'.laser.data, ∀ e ∈ a.fields, w.heap.cells.length ≤ e.2) ∧
    (∀ ns, ∀ a ∈ (hstep w (.remove ns)).state.laser.data, ∀ e ∈ a.fields, w.heap.cells.length ≤ e.2) ∧
    (∀ m w', hstep w (.rename m) = .ok w' →
      w'.laser.data.map (fun a => a.fields.map (·.2)) = w.laser.data.map (fun a => a.fields.map (·.2))) := by
  refine ⟨fun n xs cal w' ha hs => hAdd_ok_fresh hv ha hs, fun ns => hRemove_fresh w hv ns, fun m w' hs => ?_⟩
  simp only [hstep, hRename] at hs
  cases hE : renameLayersE m w.laser.data with
  | error p => rw [hE] at hs; obtain ⟨e, ls⟩ := p; simp at hs
  | ok ls =>
    rw [hE] at hs
    simp only [Res.ok.injEq] at hs
    subst hs
    exact renameLayersE_cells hE

/-! ## several lasers in one memory -/

/-- A method of laser `i` among several lasers (`MValid`: all references exist, no two lasers have their dict
object or their list of layers in common).  Laser `i` does what the content level says — success or exception,
result or half-edited state; EVERY OTHER laser stores exactly what it stored; every list object other than
laser `i`'s own (the caller's in particular) holds what it held; the world stays well-formed. -/
theorem multi_call (m : MWorld) (hv : MValid m) (i : Nat) (o : MObj) (hi : m.lasers[i]? = some o) (op : HOp)
    (ha : ArgsOK m.heap op) (hc : op.isCall = true) :
    (mstep m (.call i op)).map (fun m' => mview m' i) = (stepE (view (m.world o)) (absOp m.heap op)).map some ∧
    (∀ j, j ≠ i → mview (mstep m (.call i op)).state j = mview m j) ∧
    (∀ k, o.data ≠ .list k → (mstep m (.call i op)).state.listOf k = m.listOf k) ∧
    (mstep m (.call i op)).state.lasers.length = m.lasers.length ∧
    (mstep m (.call i op)).state.lists.length = m.lists.length ∧ MValid (mstep m (.call i op)).state := by
  obtain ⟨c1, _, _, c4, c5, c6, c7, c8, _⟩ := multi_call' m hv i o hi op ha hc
  exact ⟨c1, c4, c5, c6, c7, c8⟩

/-- A constructor call next to the lasers that exist, with ANY existing objects as arguments — also ones another
laser was built from.  The new laser stands for `mkState` of the contents of its arguments; the lasers that
existed store what they stored; every list object that existed holds what it held, and an `SRRLaser` keeps its
layers in a list object that did not exist before (not in the caller's); its dict, every `Calibration` in it and its
config are objects that did not exist before (so it is `Sep` from whatever existed); the world stays well-formed.
Hypotheses: the arrays' cells and the given calibrations exist. -/
theorem multi_construct (m m' : MWorld) (hv : MValid m) (srr : Bool) (data : DataRef) (given config : Option Nat)
    (hd : ∀ a ∈ data.layers m, ∀ e ∈ a.fields, e.2 < m.heap.cells.length)
    (hg : ∀ g, given = some g → ∀ e ∈ m.heap.dict g, e.2 < m.heap.cals.length)
    (hm : mConstruct m srr data given config = some m') :
    ∃ o', m'.lasers = m.lasers ++ [o'] ∧
      mview m' m.lasers.length = some (mkState srr ((data.layers m).map (viewLayer m.heap))
        (given.map (fun g => viewDict m.heap (m.heap.dict g))) ((config.map (fun k => (m.heap.cfgOf k).scal)).getD 0)) ∧
      (∀ j, j < m.lasers.length → mview m' j = mview m j) ∧
      (∀ k, k < m.lists.length → m'.listOf k = m.listOf k) ∧
      (srr = true → o'.data = .list m.lists.length) ∧ (∀ k, k < m.lists.length → o'.data ≠ .list k) ∧
      m.heap.dicts.length ≤ o'.cal ∧ m.heap.cfgs.length ≤ o'.cfg ∧
      (∀ e ∈ m'.heap.dict o'.cal, m.heap.cals.length ≤ e.2) ∧
      (∀ k, config = some k → (m'.heap.cfgOf o'.cfg).offs = (m.heap.cfgOf k).offs) ∧ MValid m' ∧
      (∀ F : Foreign, (∀ k ∈ F.cals, k < m.heap.cals.length) → (∀ k ∈ F.dicts, k < m.heap.dicts.length) →
        (∀ k ∈ F.cfgs, k < m.heap.cfgs.length) → Sep F (m'.world o')) := by
  obtain ⟨o', a1, a2, a3, _, a5, _, a7, a8, a9, a10, a11, a12, _, a14, a15⟩ :=
    multi_construct' m m' hv srr data given config hd hg hm
  exact ⟨o', a1, a2, a3, a5, a7, a8, a9, a10, a11, a12, a14, a15⟩

/-- Saving laser `i` and loading the file, next to the lasers that exist (the saved one lives on): the loaded
laser stands for the content-level constructor applied to what laser `i` stores, occupies only new memory, keeps
its layers in no list that existed, references no `Calibration`, dict or config that existed; every laser that
existed — the saved one too — stores what it stored; the world stays well-formed. -/
theorem multi_load (m m' : MWorld) (hv : MValid m) (i : Nat) (o : MObj) (hi : m.lasers[i]? = some o)
    (hm : mLoad m i = some m') :
    ∃ o', m'.lasers = m.lasers ++ [o'] ∧
      mview m' m.lasers.length = some (mkState o.srr (view (m.world o)).layers (some (view (m.world o)).cal)
        (view (m.world o)).cfg) ∧
      (∀ j, j < m.lasers.length → mview m' j = mview m j) ∧
      (∀ k, k < m.lists.length → m'.listOf k = m.listOf k) ∧ (∀ k, k < m.lists.length → o'.data ≠ .list k) ∧
      (∀ a ∈ (m'.world o').laser.data, ∀ e ∈ a.fields, m.heap.cells.length ≤ e.2) ∧ MValid m' ∧
      (∀ F : Foreign, (∀ k ∈ F.cals, k < m.heap.cals.length) → (∀ k ∈ F.dicts, k < m.heap.dicts.length) →
        (∀ k ∈ F.cfgs, k < m.heap.cfgs.length) → Sep F (m'.world o')) := by
  obtain ⟨o', a1, a2, a3, _, a5, _, a7, a8, _, a10, a11⟩ := multi_load' m m' hv i o hi hm
  exact ⟨o', a1, a2, a3, a5, a7, a8, a10, a11⟩

/-- Two lasers built one after the other from the SAME arguments — the same list object of layers (or the same
array), the same calibration dict, the same config object.  Both stand for the contents of the arguments; and
whatever method is then called on one of them, with whatever arguments and whether it succeeds or raises: the
OTHER one stores exactly what it stored, and the list the caller handed to both holds what it held. -/
theorem shared_arguments_invisible (m m1 m2 : MWorld) (hv : MValid m) (srr : Bool) (data : DataRef)
    (given config : Option Nat)
    (hd : ∀ a ∈ data.layers m, ∀ e ∈ a.fields, e.2 < m.heap.cells.length) (hk : data.below m.lists.length)
    (hg : ∀ g, given = some g → g < m.heap.dicts.length ∧ ∀ e ∈ m.heap.dict g, e.2 < m.heap.cals.length)
    (hcf : ∀ c, config = some c → c < m.heap.cfgs.length)
    (h1 : mConstruct m srr data given config = some m1) (h2 : mConstruct m1 srr data given config = some m2) :
    m2.lasers.length = m.lasers.length + 2 ∧
    mview m2 m.lasers.length = some (mkState srr ((data.layers m).map (viewLayer m.heap))
      (given.map (fun g => viewDict m.heap (m.heap.dict g))) ((config.map (fun k => (m.heap.cfgOf k).scal)).getD 0)) ∧
    mview m2 (m.lasers.length + 1) = mview m2 m.lasers.length ∧
    MValid m2 ∧ data.layers m2 = data.layers m ∧
    (∀ i j, (i = m.lasers.length ∧ j = m.lasers.length + 1) ∨ (i = m.lasers.length + 1 ∧ j = m.lasers.length) →
      ∀ op, ArgsOK m2.heap op → op.isCall = true →
        mview (mstep m2 (.call i op)).state j = mview m2 j ∧
        data.layers (mstep m2 (.call i op)).state = data.layers m ∧ MValid (mstep m2 (.call i op)).state) :=
  shared_arguments' m m1 m2 hv srr data given config hd hk hg hcf h1 h2

/-- Any history over several lasers (by induction): methods of any of the lasers — with arrays and calibrations
the caller created beforehand and does not write to, none of the calibrations being a foreign one —, edits of the
foreign objects `F` (Calibration, dict, config objects no laser references) and of the foreign lists `L` (list
objects no laser keeps its layers in: the caller's) by their holders, interleaved in any order.  If everything
succeeds, EVERY laser's contents are those of the content-level run of ITS OWN calls (`projOp`: calls on other
lasers, reads and edits do nothing), the foreign lists that were not assigned hold what they held, and the world is
still well-formed and separate. -/
theorem multi_history_view (F : Foreign) (L : List Nat) (m m' : MWorld) (ops : List MOp) (hv : MValid m)
    (hs : MSep F L m) (hall : ∀ op ∈ ops, MAllowed F L m.heap op) (hr : mrun m ops = some m') :
    (∀ (j : Nat) (o : MObj), m.lasers[j]? = some o → ∃ o', m'.lasers[j]? = some o' ∧
      run (view (m.world o)) (ops.map (projOp m.heap j)) = some (view (m'.world o'))) ∧
    m'.lasers.length = m.lasers.length ∧
    (∀ k ∈ L, (∀ op ∈ ops, ∀ l, op ≠ .setList k l) → m'.listOf k = m.listOf k) ∧ MValid m' ∧ MSep F L m' := by
  obtain ⟨a1, a2, a3, a4, a5⟩ := multi_history' F L m.heap ops m m' hv hs
    ⟨Nat.le_refl _, fun _ _ => rfl, Nat.le_refl _, fun _ _ _ => rfl⟩ hall hr
  refine ⟨a1, a2, ?_, a4, a5⟩
  intro k hk hno
  apply a3 k hk
  intro op hop
  cases op with
  | setList k' l => exact fun e => hno _ hop l (by rw [e])
  | _ => trivial

/-! ## constructors and the npz round trip -/

/-- a freshly constructed laser is well-formed and stands for the dictionary of its arguments:
every element with its data and the calibration given for it (the default otherwise) -/
theorem construct_refines (srr : Bool) (ls : List Layer) (given : Option Dict) (cfg : Nat)
    (hl : LayersOK ls) (hg : GivenOK ls given) :
    Inv (mkState srr ls given cfg) ∧ abs (mkState srr ls given cfg) = Spec.construct srr ls given cfg :=
  ⟨mkState_inv cfg hl hg, mkState_abs cfg hl hg⟩

/-- the constructor keeps every key of the calibration dict it is given (also keys that name no element):
the new laser is well-formed exactly when the given keys all name elements.  (`(keys g).Nodup`: a Python
dict has every key once.) -/
theorem construct_inv_iff (srr : Bool) (ls : List Layer) (given : Option Dict) (cfg : Nat) (hl : LayersOK ls)
    (hnd : ∀ g, given = some g → (keys g).Nodup) :
    (Inv (mkState srr ls given cfg) ↔ GivenOK ls given) ∧
    ∀ x, x ∈ keys (mkState srr ls given cfg).cal ↔ x ∈ elementsOf ls ∨ ∃ g, given = some g ∧ x ∈ keys g :=
  ⟨mkState_inv_iff cfg hl hnd, fun x => mem_keys_initCal (elementsOf ls) given x⟩

/-- saving and loading (the stored stack handed to the constructor with the stored calibrations)
gives a well-formed laser of the same kind that stands for the same dictionary -/
theorem roundtrip_refines (s : State) (h : Inv s) (hk : KindOK s) :
    ∃ s', roundTrip s = some s' ∧ Inv s' ∧ KindOK s' ∧ abs s' = abs s := by
  refine ⟨_, roundTrip_some hk, mkState_inv s.cfg h.layersOK h.givenOK, hk, ?_⟩
  rw [mkState_abs s.cfg h.layersOK h.givenOK]
  exact construct_abs_self h

/-- …and on objects: the loaded laser stands for the content-level constructor applied to what was stored,
occupies only new memory and references no `Calibration`, dict or config object that existed before the
load — in particular none of the saved laser's, which the caller may go on using -/
theorem roundtrip_objects (w w' : World) (hv : Valid w) (hw : hRoundTrip w = some w') :
    view w' = mkState w.laser.srr (view w).layers (some (view w).cal) (view w).cfg ∧ Valid w' ∧
    (∀ a ∈ w'.laser.data, ∀ e ∈ a.fields, w.heap.cells.length ≤ e.2) ∧
    ∀ F : Foreign, (∀ k ∈ F.cals, k < w.heap.cals.length) → (∀ k ∈ F.dicts, k < w.heap.dicts.length) →
      (∀ k ∈ F.cfgs, k < w.heap.cfgs.length) → Sep F w' :=
  hRoundTrip_spec w w' hv hw

/-! ## non-vacuity -/

def exLayer : Layer := { shape := [2, 3], fields := [("A", 1), ("B", 3), ("C", 5)] }
def exState : State := constructLaser exLayer (some [("C", 1), ("A", 2)]) 1
def exSRR : State := mkState true [exLayer, { shape := [2, 3], fields := [("A", 7), ("B", 9), ("C", 11)] }] none 1

example : LayersOK [exLayer] ∧ GivenOK [exLayer] (some [("C", 1), ("A", 2)]) := by decide
example : Inv exState ∧ KindOK exState := by decide
example : Inv exSRR ∧ KindOK exSRR := by decide
/-- swap, 3-cycle, remove, chain onto the freed name, add, reads and a caller edit: all succeed -/
example : (run exState [.callerEdit, .rename [("A", "B"), ("B", "A")],
    .rename [("A", "B"), ("B", "C"), ("C", "A")], .get 0 none true, .remove ["C"],
    .rename [("A", "B"), ("B", "C")], .add "A" [([2, 3], 7)] 3, .get 0 (some "A") true]).isSome = true := by decide
example : (rename exState [("A", "B"), ("B", "A")]).map (fun s => (s.elements, s.cal))
    = some (["B", "A", "C"], [("B", 2), ("A", 0), ("C", 1)]) := by decide
example : (rename exSRR [("A", "B"), ("B", "C"), ("C", "A")]).map (fun s => entry s "A")
    = some (some ([5, 11], 0)) := by decide
example : "A" ∈ exState.elements ∧ "B" ∈ exState.elements ∧ "A" ≠ "B" ∧ "D" ∉ exState.elements := by decide
example : (roundTrip exSRR).isSome = true := by decide
example : read exState 0 none true = some [("A", 1, some 2), ("B", 3, some 0), ("C", 5, some 1)] ∧
    read exSRR 1 (some "B") false = some [("B", 9, none)] := by decide
example : (add exState "D" [([2, 3], 9)] 4).isSome = true ∧ (remove exState ["B", "A"]).isSome = true := by decide
/-- the success conditions are real: duplicates, absent names and collisions are rejected -/
example : add exState "A" [([2, 3], 9)] 4 = none ∧ add exState "D" [([3], 9)] 4 = none ∧
    add exState "D" [([2, 3], 9), ([2, 3], 11)] 4 = none ∧ remove exState ["D"] = none ∧ remove exState ["A", "A"] = none ∧
    rename exState [("A", "B")] = none ∧ rename exState [("A", "D"), ("B", "D")] = none := by decide

/-! ### non-vacuity: failing calls -/

/-- `SRRLaser.add` with a wrong shape in the second layer: the first layer already has the new field -/
example : stepE exSRR (.add "D" [([2, 3], 13), ([3], 15)] 4) = .fail .assertion
    { exSRR with layers := [{ shape := [2, 3], fields := [("A", 1), ("B", 3), ("C", 5), ("D", 13)] },
                            { shape := [2, 3], fields := [("A", 7), ("B", 9), ("C", 11)] }] } ∧
    ¬ Inv (stepE exSRR (.add "D" [([2, 3], 13), ([3], 15)] 4)).state := by decide
/-- …with a wrong shape in the first layer, a name that exists, or the wrong number of arrays: nothing happened -/
example : stepE exSRR (.add "D" [([3], 13), ([2, 3], 15)] 4) = .fail .assertion exSRR ∧
    stepE exSRR (.add "A" [([2, 3], 13), ([2, 3], 15)] 4) = .fail .value exSRR ∧
    stepE exSRR (.add "D" [([2, 3], 13)] 4) = .fail .assertion exSRR ∧
    stepE exState (.add "D" [([3], 13)] 4) = .fail .assertion exState := by decide
/-- `remove`: present names before the absent one leave a well-formed laser, after it not -/
example : (stepE exState (.remove ["A", "D"])).err = some .key ∧ Inv (stepE exState (.remove ["A", "D"])).state ∧
    (stepE exState (.remove ["A", "D"])).state.elements = ["B", "C"] ∧
    (stepE exState (.remove ["D", "A"])).err = some .key ∧ ¬ Inv (stepE exState (.remove ["D", "A"])).state ∧
    keys (stepE exState (.remove ["D", "A"])).state.cal = ["A", "B", "C"] ∧
    (stepE exState (.remove ["A", "A"])).err = some .key ∧ stepE exState (.remove ["D"]) = .fail .key exState := by
  decide
example : stepE exState (.rename [("A", "B")]) = .fail .value exState ∧
    stepE exState (.get 0 (some "D") true) = .fail .value exState ∧
    stepE exSRR (.get 2 none false) = .fail .index exSRR := by decide
/-- a stray key given to the constructor is kept: the new laser is not well-formed; `remove` of the stray key
repairs it; a rename onto the stray key loses the renamed element's calibration -/
example : LayersOK [exLayer] ∧ ¬ GivenOK [exLayer] (some [("Zz", 1), ("A", 2)]) ∧
    ¬ Inv (constructLaser exLayer (some [("Zz", 1), ("A", 2)]) 1) ∧
    (constructLaser exLayer (some [("Zz", 1), ("A", 2)]) 1).cal = [("A", 2), ("B", 0), ("C", 0), ("Zz", 1)] ∧
    ((stepE (constructLaser exLayer (some [("Zz", 1), ("A", 2)]) 1) (.remove ["Zz"])).toOption.map
      (fun s => decide (Inv s))) = some true ∧
    ((stepE (constructLaser exLayer (some [("Zz", 1), ("A", 2)]) 1) (.rename [("A", "Zz")])).toOption.map
      (fun s => s.cal)) = some [("Zz", 1), ("B", 0), ("C", 0)] := by decide

/-! ### non-vacuity: the object level -/

/-- the caller's objects: an array with cells 0,1,2, two calibrations, a dict `{C: cal 0, A: cal 1}`, a config -/
def exHeap : Heap := { cells := [1, 3, 5], cals := [1, 2], cfgs := [⟨1, none⟩], offs := [], dicts := [[("C", 0), ("A", 1)]] }
def exArr : Arr := { shape := [2, 3], fields := [("A", 0), ("B", 1), ("C", 2)] }
def exWorld : World := (hConstruct exHeap false [exArr] (some 0) (some 0)).getD ⟨exHeap, ⟨false, [], 0, 0⟩⟩
def exForeign : Foreign := { cals := [0, 1], dicts := [0], cfgs := [0] }

example : hConstruct exHeap false [exArr] (some 0) (some 0) = some exWorld ∧ view exWorld = exState := by decide
example : Valid exWorld ∧ Sep exForeign exWorld ∧ exWorld.laser.data = [exArr] ∧
    exWorld.heap.dict exWorld.laser.cal = [("A", 6), ("B", 3), ("C", 5)] := by decide
/-- a raw single-element read is a view; calibrated by a non-identity calibration it is new memory; an
all-element read is a copy -/
example : (hGet exWorld 0 (some "B") false).toOption.map (·.1.cells) = some [("B", 1)] ∧
    (hGet exWorld 0 (some "B") true).toOption.map (·.1.cells) = some [("B", 1)] ∧
    (hGet exWorld 0 (some "A") true).toOption.map (·.1.cells) = some [("A", 3)] ∧
    (hGet exWorld 0 none true).toOption.map (·.1.cells) = some [("A", 3), ("B", 4), ("C", 5)] := by decide
example : returnsView exWorld (some "B") true ∧ ¬ returnsView exWorld (some "A") true ∧
    ¬ returnsView exWorld none false := by
  refine ⟨⟨rfl, "B", rfl, Or.inr ⟨3, by decide, by decide⟩⟩, ?_, ?_⟩
  · rintro ⟨_, n, hn, h | ⟨k, hk, hk0⟩⟩
    · simp at h
    · simp only [Option.some.injEq] at hn
      subst hn
      have : get? (exWorld.heap.dict exWorld.laser.cal) "A" = some 6 := by decide
      rw [this] at hk
      simp only [Option.some.injEq] at hk
      subst hk
      revert hk0
      decide
  · rintro ⟨_, n, hn, _⟩
    simp at hn
example : (hRoundTrip exWorld).map (fun w => (view w, decide (Valid w), w.laser.data)) =
    some (exState, true, [{ shape := [2, 3], fields := [("A", 3), ("B", 4), ("C", 5)] }]) := by decide
/-- a history: the caller edits everything it gave, the laser is edited and read; all calls succeed -/
def exOps : List HOp := [.setCal 0 9, .setDict 0 [("Q", 1)], .setCfg 0 7, .rename [("A", "B"), ("B", "A")],
  .get 0 (some "A") true, .add "D" [([2, 3], 0)] none, .setCal 1 11, .remove ["C"]]
example : (hrun exWorld exOps).isSome = true ∧ ∀ op ∈ exOps, Allowed exForeign exWorld.heap op := by
  refine ⟨by decide, ?_⟩
  intro op hop
  simp only [exOps, List.mem_cons, List.not_mem_nil, or_false] at hop
  rcases hop with rfl | rfl | rfl | rfl | rfl | rfl | rfl | rfl <;> simp [Allowed, exForeign]
  decide
/-- writing through the returned view of "B" changes the stored "B"; the calibration handed to `add` stays shared -/
example : (view (hstep exWorld (.writeCell 1 99)).state).layers = [{ shape := [2, 3], fields := [("A", 1), ("B", 99), ("C", 5)] }] ∧
    ((hstep exWorld (.add "D" [([2, 3], 0)] (some 0))).toOption.map
      (fun w => (view (hstep w (.setCal 0 42)).state).cal)) = some [("A", 2), ("B", 0), ("C", 1), ("D", 42)] := by decide
/-- `copy.copy(config)` of an `SRRConfig`: a new config object holding the same offsets array -/
example : let h : Heap := { cells := [1, 3], cals := [], cfgs := [⟨1, some 0⟩], offs := [5], dicts := [] }
    (hConstruct h true [⟨[2, 2], [("A", 0)]⟩, ⟨[2, 2], [("A", 1)]⟩] none (some 0)).map
      (fun w => (w.laser.cfg, (w.heap.cfgOf w.laser.cfg).offs, cfgOffsets (hstep w (.writeOffsets 0 8)).state,
                 cfgOffsets (hstep w (.setOffsets 0 8)).state)) = some (1, some 0, some 8, some 5) := by decide


/-! ### non-vacuity: several lasers -/

/-- the caller's objects: two layers (cells 0–3), ONE list object holding them, two calibrations, a dict, an `SRRConfig` -/
def exMHeap : Heap := { cells := [1, 3, 5, 7], cals := [1, 2], cfgs := [⟨1, some 0⟩], offs := [0], dicts := [[("B", 0), ("A", 1)]] }
def exL0 : Arr := { shape := [2, 2], fields := [("A", 0), ("B", 1)] }
def exL1 : Arr := { shape := [2, 2], fields := [("A", 2), ("B", 3)] }
def exM0 : MWorld := { heap := exMHeap, lists := [[exL0, exL1]], lasers := [] }
/-- two `SRRLaser`s built from the same list object, the same dict and the same config -/
def exM1 : MWorld := (mConstruct exM0 true (.list 0) (some 0) (some 0)).getD exM0
def exM2 : MWorld := (mConstruct exM1 true (.list 0) (some 0) (some 0)).getD exM0
def exMForeign : Foreign := { cals := [0, 1], dicts := [0], cfgs := [0] }

example : MValid exM0 ∧ mConstruct exM0 true (.list 0) (some 0) (some 0) = some exM1 ∧
    mConstruct exM1 true (.list 0) (some 0) (some 0) = some exM2 := by decide
example : MValid exM2 ∧ MSep exMForeign [0] exM2 ∧ exM2.lasers.map (·.data) = [.list 1, .list 2] ∧
    mview exM2 0 = mview exM2 1 ∧ (mview exM2 0).map (fun s => (s.elements, s.cal)) = some (["A", "B"], [("A", 2), ("B", 1)]) := by
  decide
/-- add / swap / remove on the first: the second, and the caller's list, are what they were; the first changed -/
example : let r := mstep exM2 (.call 0 (.add "C" [([2, 2], 0), ([2, 2], 2)] (some 0)))
    r.err = none ∧ mview r.state 1 = mview exM2 1 ∧ r.state.listOf 0 = [exL0, exL1] ∧
    (mview r.state 0).map (·.elements) = some ["A", "B", "C"] := by decide
example : let r := mstep exM2 (.call 1 (.rename [("A", "B"), ("B", "A")]))
    r.err = none ∧ mview r.state 0 = mview exM2 0 ∧ r.state.listOf 0 = [exL0, exL1] ∧
    (mview r.state 1).map (·.cal) = some [("B", 2), ("A", 1)] := by decide
/-- a failing call on one (second layer of the wrong shape: half-edited) leaves the other alone, too -/
example : let r := mstep exM2 (.call 0 (.add "C" [([2, 2], 0), ([3], 2)] none))
    r.err = some .assertion ∧ mview r.state 1 = mview exM2 1 ∧ mview r.state 0 ≠ mview exM2 0 := by decide
/-- what `MValid` excludes: were the second laser to keep its layers in the FIRST one's list object (a constructor
that stores the list it is given), a remove on the first would take the element out of the second one's data —
whose calibrations still name it -/
example : let bad : MWorld := { exM2 with lasers := exM2.lasers.map (fun o => { o with data := .list 1 }) }
    ¬ MValid bad ∧
    (mview (mstep bad (.call 0 (.remove ["A"]))).state 1).map (fun s => (s.elements, keys s.cal, decide (Inv s)))
      = some (["B"], ["A", "B"], false) := by decide
/-- a loaded laser next to the saved one -/
example : (mLoad exM2 0).map (fun m => (decide (MValid m), m.lasers.length, decide (mview m 2 = mview m 0))) = some (true, 3, true) := by
  decide
/-- a history over both lasers, the caller editing everything it handed over — its list too -/
def exMOps : List MOp := [.call 0 (.rename [("A", "B"), ("B", "A")]), .edit (.setCal 0 9), .setList 0 [exL1],
  .call 1 (.add "C" [([2, 2], 0), ([2, 2], 2)] none), .edit (.setDict 0 []), .call 0 (.remove ["A"]),
  .call 1 (.get 1 (some "C") true), .edit (.setCfg 0 5), .setList 0 []]
example : (mrun exM2 exMOps).isSome = true ∧ ∀ op ∈ exMOps, MAllowed exMForeign [0] exM2.heap op := by
  refine ⟨by decide, ?_⟩
  intro op hop
  simp only [exMOps, List.mem_cons, List.not_mem_nil, or_false] at hop
  rcases hop with rfl | rfl | rfl | rfl | rfl | rfl | rfl | rfl | rfl <;>
    simp [MAllowed, Allowed, HOp.isCall, exMForeign]
  decide
example : (mrun exM2 exMOps).map (fun m => ((mview m 0).map (·.elements), (mview m 1).map (·.elements))) =
    some (some ["B"], some ["A", "B", "C"]) := by decide

end Pew.LaserEdit
