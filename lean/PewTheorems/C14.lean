import PewProofs.Colocal
import PewProofs.ColocalNd
import PewProofs.ColocalBig

/-! # C14 — property theorems (statements only depend on `PewModel.Colocal`, plus `Real.sqrt`
for the two corollaries about r itself) -/
namespace Pew.Colocal

/-! ## Pearson -/

/-- the code's numerator `mean(xy) - mean(x)mean(y)` is the textbook centred covariance
`Σ(x-mx)(y-my)/n`, and `std²` is the centred variance -/
theorem pearson_textbook (x y : List Rat) (h : x.length = y.length) (hx : x ≠ []) :
    cov x y = covCentred x y ∧ var x = covCentred x x :=
  ⟨cov_eq_centred x y h hx, var_eq_centred x⟩

/-- symmetric in the two images (numerator, r², sign) -/
theorem pearson_symm (x y : List Rat) :
    cov x y = cov y x ∧ pearsonSq x y = pearsonSq y x ∧ pearsonSign x y = pearsonSign y x := by
  have h : cov x y = cov y x := by unfold cov; rw [mulL_comm, mul_comm]
  refine ⟨h, ?_, ?_⟩
  · unfold pearsonSq; rw [h, mul_comm (var x)]
  · unfold pearsonSign; rw [h]

/-- Cauchy–Schwarz: `cov² ≤ var x · var y`, hence `r² ≤ 1` for constant-free images -/
theorem pearson_sq_le_one (x y : List Rat) (h : x.length = y.length) (hx : x ≠ [])
    (hvar : 0 < var x * var y) :
    cov x y * cov x y ≤ var x * var y ∧ pearsonSq x y ≤ 1 := by
  have := cov_sq_le x y h hx
  exact ⟨this, by unfold pearsonSq; exact (div_le_one hvar).mpr this⟩

example : let x : List Rat := [0, 1, 0, 1]; let y : List Rat := [0, 1, 1, 0]
    x.length = y.length ∧ x ≠ [] ∧ 0 < var x * var y := by decide +kernel

/-- positive affine rescaling `a·x + b` (a > 0) of either image scales the numerator by `a` and the
variance by `a²`: r² and the sign, hence r, are unchanged -/
theorem pearson_affine (a b : Rat) (x y : List Rat) (h : x.length = y.length) (hx : x ≠ []) (ha : 0 < a) :
    cov (x.map (fun v => a * v + b)) y = a * cov x y ∧
    var (x.map (fun v => a * v + b)) = a * a * var x ∧
    pearsonSq (x.map (fun v => a * v + b)) y = pearsonSq x y ∧
    pearsonSign (x.map (fun v => a * v + b)) y = pearsonSign x y ∧
    pearsonSq x (y.map (fun v => a * v + b)) = pearsonSq x y ∧
    pearsonSign x (y.map (fun v => a * v + b)) = pearsonSign x y := by
  have hy : y ≠ [] := by intro e; rw [e] at h; exact hx (List.length_eq_zero_iff.mp h)
  have c1 := cov_affine a b x y h hx
  have v1 := var_affine a b x hx
  have c2 : cov x (y.map (fun v => a * v + b)) = a * cov x y := by
    rw [(pearson_symm x _).1, cov_affine a b y x h.symm hy, (pearson_symm y x).1]
  have v2 := var_affine a b y hy
  have hsq : ∀ c vx vy : Rat, a * c * (a * c) / (a * a * vx * vy) = c * c / (vx * vy) := by
    intro c vx vy
    have : a * c * (a * c) / (a * a * vx * vy) = (a * a) * (c * c) / ((a * a) * (vx * vy)) := by ring_nf
    rw [this, mul_div_mul_left _ _ (mul_pos ha ha).ne']
  have hsg : ∀ c : Rat, sgn (a * c) = sgn c := by
    intro c
    unfold sgn
    rcases lt_trichotomy c 0 with hc | hc | hc
    · have : a * c < 0 := mul_neg_of_pos_of_neg ha hc
      simp [hc, this, not_lt_of_gt hc, not_lt_of_gt this]
    · simp [hc]
    · have : 0 < a * c := mul_pos ha hc
      simp [hc, this]
  refine ⟨c1, v1, ?_, ?_, ?_, ?_⟩
  · unfold pearsonSq; rw [c1, v1, hsq]
  · unfold pearsonSign; rw [c1, hsg]
  · unfold pearsonSq; rw [c2, v2]
    have := hsq (cov x y) (var y) (var x)
    rw [mul_comm (var x) (a * a * var y), this, mul_comm (var y)]
  · unfold pearsonSign; rw [c2, hsg]

/-- Pearson's r as the code computes it over the reals -/
noncomputable def pearsonR (x y : List Rat) : ℝ :=
  (cov x y : ℝ) / (Real.sqrt (var x : ℝ) * Real.sqrt (var y : ℝ))

/-- `r ∈ [-1, 1]`, and `r² `/ sign are what the model carries -/
theorem pearson_real_range (x y : List Rat) (h : x.length = y.length) (hx : x ≠ [])
    (hvx : 0 < var x) (hvy : 0 < var y) :
    |pearsonR x y| ≤ 1 ∧ pearsonR x y ^ 2 = (pearsonSq x y : ℝ) := by
  have hvx' : (0 : ℝ) < (var x : ℝ) := by exact_mod_cast hvx
  have hvy' : (0 : ℝ) < (var y : ℝ) := by exact_mod_cast hvy
  have hs : 0 < Real.sqrt (var x : ℝ) * Real.sqrt (var y : ℝ) :=
    mul_pos (Real.sqrt_pos.mpr hvx') (Real.sqrt_pos.mpr hvy')
  have hsq : pearsonR x y ^ 2 = (pearsonSq x y : ℝ) := by
    unfold pearsonR pearsonSq
    rw [div_pow, mul_pow, Real.sq_sqrt hvx'.le, Real.sq_sqrt hvy'.le]
    push_cast
    ring
  refine ⟨?_, hsq⟩
  have hle : (pearsonSq x y : ℝ) ≤ 1 := by
    exact_mod_cast (pearson_sq_le_one x y h hx (mul_pos hvx hvy)).2
  rw [← hsq] at hle
  exact abs_le_one_iff_mul_self_le_one.mpr (by rw [← sq]; exact hle)

theorem pearson_real_affine (a b : Rat) (x y : List Rat) (h : x.length = y.length) (hx : x ≠ []) (ha : 0 < a) :
    pearsonR (x.map (fun v => a * v + b)) y = pearsonR x y ∧
    pearsonR x (y.map (fun v => a * v + b)) = pearsonR x y ∧
    pearsonR y x = pearsonR x y := by
  have hy : y ≠ [] := by intro e; rw [e] at h; exact hx (List.length_eq_zero_iff.mp h)
  have ha' : (0 : ℝ) < (a : ℝ) := by exact_mod_cast ha
  have hsqrt : ∀ v : Rat, Real.sqrt ((a * a * v : Rat) : ℝ) = (a : ℝ) * Real.sqrt (v : ℝ) := by
    intro v
    push_cast
    rw [show (a : ℝ) * a * v = (a : ℝ) ^ 2 * v by ring, Real.sqrt_mul (sq_nonneg _), Real.sqrt_sq ha'.le]
  obtain ⟨c1, v1, _, _, _, _⟩ := pearson_affine a b x y h hx ha
  have c2 : cov x (y.map (fun v => a * v + b)) = a * cov x y := by
    rw [(pearson_symm x _).1, cov_affine a b y x h.symm hy, (pearson_symm y x).1]
  have v2 := var_affine a b y hy
  refine ⟨?_, ?_, ?_⟩
  · unfold pearsonR
    rw [c1, v1, hsqrt]
    push_cast
    rw [mul_assoc, mul_div_mul_left _ _ ha'.ne']
  · unfold pearsonR
    rw [c2, v2, hsqrt]
    push_cast
    rw [show Real.sqrt (var x : ℝ) * ((a : ℝ) * Real.sqrt (var y : ℝ))
      = (a : ℝ) * (Real.sqrt (var x : ℝ) * Real.sqrt (var y : ℝ)) by ring, mul_div_mul_left _ _ ha'.ne']
  · unfold pearsonR
    rw [(pearson_symm y x).1, mul_comm]

/-! ## Li's ICQ -/

/-- the counted condition `(x-ux)(y-uy) ≥ 0` is "the deviations do not have opposite signs" -/
theorem icq_spec (x y : List Rat) : icq x y = icqSpec x y := by
  have : (fun a b => decide ((a - mean x) * (b - mean y) ≥ 0))
      = (fun a b => !oppositeSigns (a - mean x) (b - mean y)) := by
    funext a b; exact not_opposite_iff _ _
  unfold icq icqSpec icqCount
  rw [this]

/-- hence a value in `[-1/2, 1/2]` -/
theorem icq_range (x y : List Rat) (hx : x ≠ []) : -(1 / 2) ≤ icq x y ∧ icq x y ≤ 1 / 2 := by
  have hn := length_pos_cast x hx
  have hc : (icqCount x y : Rat) ≤ (x.length : Rat) := by
    have h1 : icqCount x y ≤ (List.zipWith (fun a b => decide ((a - mean x) * (b - mean y) ≥ 0)) x y).length :=
      List.count_le_length
    have h2 : (List.zipWith (fun a b => decide ((a - mean x) * (b - mean y) ≥ 0)) x y).length ≤ x.length := by
      rw [List.length_zipWith]; exact Nat.min_le_left _ _
    exact_mod_cast le_trans h1 h2
  have h0 : (0 : Rat) ≤ (icqCount x y : Rat) := Nat.cast_nonneg _
  unfold icq
  constructor
  · have : 0 ≤ (icqCount x y : Rat) / (x.length : Rat) := div_nonneg h0 hn.le
    linarith
  · have : (icqCount x y : Rat) / (x.length : Rat) ≤ 1 := (div_le_one hn).mpr hc
    linarith

example : icq [0, 1, 0, 1] [0, 1, 1, 0] = 0 := by decide +kernel

/-! ## Manders -/

/-- the coefficients are the stated thresholded-sum ratios -/
theorem manders_spec (x y : List Rat) (tx ty : Option Rat) :
    manders x y tx ty
      = (mandersSpec1 x y (ty.getD (minOf y)), mandersSpec1 y x (tx.getD (minOf x))) := by
  unfold manders manders1 mandersSpec1
  rw [sumWhere_eq_filter, sumWhere_eq_filter]

/-- and lie in `[0, 1]` for non-negative images with a positive sum -/
theorem manders_range (x y : List Rat) (t : Rat) (hx : ∀ v ∈ x, 0 ≤ v) (hs : 0 < x.sum) :
    0 ≤ manders1 x y t ∧ manders1 x y t ≤ 1 := by
  obtain ⟨h1, h2⟩ := sumWhere_bounds x (y.map (fun b => decide (b > t))) hx
  unfold manders1
  exact ⟨div_nonneg h1 hs.le, (div_le_one hs).mpr h2⟩

example : manders [0, 1, 0, 1] [1, 2, 3, 4] (some 0) (some 0) = (1, 3 / 5) := by decide +kernel

/-! ## block shuffling, 2-D (`shuffleBlocks` of `PewModel/Colocal.lean`; the same theorems for arrays of any
dimension are in the section "block shuffling in any dimension" below, and `nd_coincides_2d` says that this 2-D
model is the n-D model on shapes `[n0, n1]`) -/

/-- **Block shuffling is a permutation of whole blocks.**  For every `nidx` that is a permutation
of the selected flat block indices (what `numpy.random.permutation` returns), the result is the
working array read through a map `φ` of pixel coordinates that (1) is a bijection of the
coordinates of the working array, (2) keeps the offset inside the block and sends all pixels of
a block to one and the same source block, (3) fixes every pixel outside the selected blocks. -/
theorem shuffle_is_bijection {α : Type} (x : Img α) (mask : Nat → Nat → Bool) (b0 b1 : Nat)
    (padMode part : Bool) (nidx : List Nat) (hb0 : 0 < b0) (hb1 : 0 < b1)
    (hp : nidx.Perm (shuffleIdx x mask b0 b1 padMode part)) :
    let p := prepare x mask b0 b1 padMode
    let nb0 := nBlocks p.N0 b0
    let nb1 := nBlocks p.N1 b1
    let idx := shuffleIdx x mask b0 b1 padMode part
    let φ := fun q : Nat × Nat => phi b0 b1 nb0 nb1 idx nidx q.1 q.2
    (∀ i j, (shuffleBlocks x mask b0 b1 padMode part nidx).get i j = p.X (φ (i, j)).1 (φ (i, j)).2) ∧
    ((pixels p.N0 p.N1).map φ).Perm (pixels p.N0 p.N1) ∧
    (∀ q q', φ q = φ q' → q = q') ∧
    (∀ i j, i / b0 < nb0 → j / b1 < nb1 →
      (φ (i, j)).1 % b0 = i % b0 ∧ (φ (i, j)).2 % b1 = j % b1 ∧
      (φ (i, j)).1 / b0 = src idx nidx (i / b0 * nb1 + j / b1) / nb1 ∧
      (φ (i, j)).2 / b1 = src idx nidx (i / b0 * nb1 + j / b1) % nb1) ∧
    (∀ i j, inSelected b0 b1 nb0 nb1 idx i j = false → φ (i, j) = (i, j)) := by
  intro p nb0 nb1 idx φ
  have G := geo_of_call x mask b0 b1 padMode part nidx hb0 hb1 hp
  refine ⟨fun i j => rfl, ?_, ?_, ?_, ?_⟩
  · apply map_perm_of_inj _ _ (pixels_nodup _ _)
    · intro q hq
      rw [mem_pixels] at hq ⊢
      exact phi_in_box G q.1 q.2 hq.1 hq.2
    · intro q _ q' _ h
      exact phi_inj G q.1 q.2 q'.1 q'.2 h
  · intro q q' h
    exact phi_inj G q.1 q.2 q'.1 q'.2 h
  · intro i j h0 h1
    exact phi_offset_block G i j h0 h1
  · intro i j h
    exact phi_fix i j ((inSelected_false_iff _ _ _ _ _ _ _).mp h)

/-- a 2×4 image, 2×2 blocks, full mask: both blocks are selected, `[1, 0]` swaps them -/
example : ([1, 0] : List Nat).Perm
    (shuffleIdx (⟨2, 4, fun i j => ((i * 4 + j : Nat) : Rat)⟩ : Img Rat) (fun _ _ => true) 2 2 false false) := by
  decide

example : (pixels 2 4).map (fun q => (shuffleBlocks (⟨2, 4, fun i j => ((i * 4 + j : Nat) : Rat)⟩ : Img Rat)
      (fun _ _ => true) 2 2 false false [1, 0]).get q.1 q.2) = [2, 3, 0, 1, 6, 7, 4, 5] := by
  decide +kernel

/-- pad mode, 1×5 line, block 2: the padded sixth pixel is an edge copy, the last block is partial -/
example : shuffleIdx (⟨1, 5, fun _ j => (j : Rat)⟩ : Img Rat) (fun _ _ => true) 1 2 true false = [0, 1, 2] := by
  decide

/-- pixels outside the shuffled blocks never move (any `nidx`, both modes) -/
theorem outside_never_move {α : Type} (x : Img α) (mask : Nat → Nat → Bool) (b0 b1 : Nat)
    (padMode part : Bool) (nidx : List Nat) (i j : Nat) (hi : i < x.n0) (hj : j < x.n1)
    (hout : inSelected b0 b1 (nBlocks (prepare x mask b0 b1 padMode).N0 b0)
      (nBlocks (prepare x mask b0 b1 padMode).N1 b1) (shuffleIdx x mask b0 b1 padMode part) i j = false) :
    (shuffleBlocks x mask b0 b1 padMode part nidx).get i j = x.get i j := by
  have hfix := phi_fix (nidx := nidx) i j ((inSelected_false_iff _ _ _ _ _ _ _).mp hout)
  unfold shuffleIdx at hfix
  unfold shuffleBlocks
  simp only [hfix]
  cases padMode with
  | false => simp [prepare]
  | true =>
    have e0 : edge x.n0 i = i := by unfold edge; omega
    have e1 : edge x.n1 j = j := by unfold edge; omega
    simp [prepare, e0, e1]

/-- every output block is one of the selected input blocks: block `f` of the result is block
`src f` of the working array, pixel for pixel, and `src f` is again a selected block -/
theorem blocks_from_input {α : Type} (x : Img α) (mask : Nat → Nat → Bool) (b0 b1 : Nat)
    (padMode part : Bool) (nidx : List Nat) (hp : nidx.Perm (shuffleIdx x mask b0 b1 padMode part))
    (f : Nat) (hf : f ∈ shuffleIdx x mask b0 b1 padMode part) :
    let p := prepare x mask b0 b1 padMode
    let nb1 := nBlocks p.N1 b1
    let g := src (shuffleIdx x mask b0 b1 padMode part) nidx f
    g ∈ shuffleIdx x mask b0 b1 padMode part ∧
    ∀ o0 o1, o0 < b0 → o1 < b1 →
      (shuffleBlocks x mask b0 b1 padMode part nidx).get (f / nb1 * b0 + o0) (f % nb1 * b1 + o1)
        = p.X (g / nb1 * b0 + o0) (g % nb1 * b1 + o1) := by
  intro p nb1 g
  refine ⟨src_mem _ _ hp f hf, ?_⟩
  intro o0 o1 h0 h1
  have hlt : f < nBlocks p.N0 b0 * nb1 := selected_lt _ _ _ _ _ _ f hf
  have hnb1 : 0 < nb1 := by
    rcases Nat.eq_zero_or_pos nb1 with h | h
    · rw [h] at hlt; simp at hlt
    · exact h
  have hB0 : f / nb1 < nBlocks p.N0 b0 := (Nat.div_lt_iff_lt_mul hnb1).mpr hlt
  have hB1 : f % nb1 < nb1 := Nat.mod_lt _ hnb1
  have d0 : (f / nb1 * b0 + o0) / b0 = f / nb1 := blk_div _ _ _ h0
  have d1 : (f % nb1 * b1 + o1) / b1 = f % nb1 := blk_div _ _ _ h1
  have m0 : (f / nb1 * b0 + o0) % b0 = o0 := blk_mod _ _ _ h0
  have m1 : (f % nb1 * b1 + o1) % b1 = o1 := blk_mod _ _ _ h1
  have hflat : f / nb1 * nb1 + f % nb1 = f := blk_recompose f nb1
  have := phi_valid (idx := shuffleIdx x mask b0 b1 padMode part) (nidx := nidx) (nb0 := nBlocks p.N0 b0) (nb1 := nb1)
    (f / nb1 * b0 + o0) (f % nb1 * b1 + o1) (by rw [d0]; exact hB0) (by rw [d1]; exact hB1)
  rw [d0, d1, m0, m1, hflat] at this
  show p.X (phi b0 b1 (nBlocks p.N0 b0) nb1 (shuffleIdx x mask b0 b1 padMode part) nidx _ _).1
      (phi b0 b1 (nBlocks p.N0 b0) nb1 (shuffleIdx x mask b0 b1 padMode part) nidx _ _).2 = _
  rw [this]

/-- pixel values are conserved (as a multiset over the whole image) whenever the shape is a
multiple of the block, and always in in-place mode -/
theorem values_conserved {α : Type} (x : Img α) (mask : Nat → Nat → Bool) (b0 b1 : Nat)
    (padMode part : Bool) (nidx : List Nat) (hb0 : 0 < b0) (hb1 : 0 < b1)
    (hp : nidx.Perm (shuffleIdx x mask b0 b1 padMode part))
    (happ : conservedApplies x b0 b1 padMode = true) :
    ((pixels x.n0 x.n1).map (fun q => (shuffleBlocks x mask b0 b1 padMode part nidx).get q.1 q.2)).Perm
      ((pixels x.n0 x.n1).map (fun q => x.get q.1 q.2)) := by
  have G := geo_of_call x mask b0 b1 padMode part nidx hb0 hb1 hp
  have hN : (prepare x mask b0 b1 padMode).N0 = x.n0 ∧ (prepare x mask b0 b1 padMode).N1 = x.n1 := by
    cases padMode with
    | false => simp [prepare]
    | true =>
      simp only [conservedApplies, Bool.not_true, Bool.false_or, Bool.and_eq_true, beq_iff_eq] at happ
      simp [prepare, padExt_of_multiple _ _ happ.1, padExt_of_multiple _ _ happ.2]
  have hX : ∀ i j, i < x.n0 → j < x.n1 → (prepare x mask b0 b1 padMode).X i j = x.get i j := by
    intro i j hi hj
    cases padMode with
    | false => simp [prepare]
    | true =>
      have e0 : edge x.n0 i = i := by unfold edge; omega
      have e1 : edge x.n1 j = j := by unfold edge; omega
      simp [prepare, e0, e1]
  have hw := conserved_working (prepare x mask b0 b1 padMode).X G
  rw [show pixels (prepare x mask b0 b1 padMode).N0 (prepare x mask b0 b1 padMode).N1 = pixels x.n0 x.n1 by
    rw [hN.1, hN.2]] at hw
  have e1 : (pixels x.n0 x.n1).map (fun q => (shuffleBlocks x mask b0 b1 padMode part nidx).get q.1 q.2)
      = (pixels x.n0 x.n1).map (fun q => (prepare x mask b0 b1 padMode).X
          (phi b0 b1 (nBlocks (prepare x mask b0 b1 padMode).N0 b0) (nBlocks (prepare x mask b0 b1 padMode).N1 b1)
            (shuffleIdx x mask b0 b1 padMode part) nidx q.1 q.2).1
          (phi b0 b1 (nBlocks (prepare x mask b0 b1 padMode).N0 b0) (nBlocks (prepare x mask b0 b1 padMode).N1 b1)
            (shuffleIdx x mask b0 b1 padMode part) nidx q.1 q.2).2) := rfl
  have e2 : (pixels x.n0 x.n1).map (fun q => (prepare x mask b0 b1 padMode).X q.1 q.2)
      = (pixels x.n0 x.n1).map (fun q => x.get q.1 q.2) := by
    apply List.map_congr_left
    intro q hq
    rw [mem_pixels] at hq
    exact hX q.1 q.2 hq.1 hq.2
  rw [e1, ← e2]
  exact hw

example : conservedApplies (⟨4, 6, fun _ _ => (0 : Rat)⟩ : Img Rat) 2 3 true = true ∧
    conservedApplies (⟨5, 7, fun _ _ => (0 : Rat)⟩ : Img Rat) 2 3 false = true := by decide

/-- 1-D arrays (one row, block height 1): the shuffled line is a rearrangement of the line -/
theorem values_conserved_1d {α : Type} (x : Img α) (mask : Nat → Nat → Bool) (b : Nat)
    (padMode part : Bool) (nidx : List Nat) (hrow : x.n0 = 1) (hb : 0 < b)
    (hp : nidx.Perm (shuffleIdx x mask 1 b padMode part))
    (happ : conservedApplies x 1 b padMode = true) :
    ((List.range x.n1).map (fun j => (shuffleBlocks x mask 1 b padMode part nidx).get 0 j)).Perm
      ((List.range x.n1).map (fun j => x.get 0 j)) := by
  have := values_conserved x mask 1 b padMode part nidx (by omega) hb hp happ
  simp only [pixels, hrow, List.range_one, List.flatMap_cons, List.flatMap_nil, List.append_nil,
    List.map_map] at this
  exact this

/-- **The model's result satisfies the relation the check evaluates on the implementation's
result** (`specOutside`, `specBlocks`, `specConserved`), for every permutation `nidx`. -/
theorem model_satisfies_spec (x : Img Rat) (mask : Nat → Nat → Bool) (b0 b1 : Nat)
    (padMode part : Bool) (nidx : List Nat) (hb0 : 0 < b0) (hb1 : 0 < b1)
    (hp : nidx.Perm (shuffleIdx x mask b0 b1 padMode part)) :
    specOutside x (shuffleBlocks x mask b0 b1 padMode part nidx) mask b0 b1 padMode part = true ∧
    specBlocks x (shuffleBlocks x mask b0 b1 padMode part nidx) mask b0 b1 padMode part = true ∧
    (conservedApplies x b0 b1 padMode = true →
      specConserved x (shuffleBlocks x mask b0 b1 padMode part nidx) = true) := by
  refine ⟨?_, ?_, ?_⟩
  · unfold specOutside
    simp only [List.all_eq_true, Bool.or_eq_true, decide_eq_true_eq]
    intro q hq
    rw [mem_pixels] at hq
    by_cases hs : inSelected b0 b1 (nBlocks (prepare x mask b0 b1 padMode).N0 b0)
        (nBlocks (prepare x mask b0 b1 padMode).N1 b1)
        (selected (prepare x mask b0 b1 padMode).M b0 b1 (nBlocks (prepare x mask b0 b1 padMode).N0 b0)
          (nBlocks (prepare x mask b0 b1 padMode).N1 b1) part) q.1 q.2 = true
    · exact Or.inl hs
    · right
      exact outside_never_move x mask b0 b1 padMode part nidx q.1 q.2 hq.1 hq.2
        (by simpa [shuffleIdx] using hs)
  · unfold specBlocks
    simp only [List.all_eq_true, List.any_eq_true, Bool.or_eq_true, decide_eq_true_eq]
    intro f hf
    obtain ⟨hg, hblk⟩ := blocks_from_input x mask b0 b1 padMode part nidx hp f hf
    refine ⟨_, hg, ?_⟩
    intro o ho
    rw [mem_pixels] at ho
    right
    exact hblk o.1 o.2 ho.1 ho.2
  · intro happ
    unfold specConserved
    rw [beq_iff_eq]
    exact sortR_eq_of_perm _ _ (values_conserved x mask b0 b1 padMode part nidx hb0 hb1 hp happ)

/-! ## the probability loop: every rᵢ is computed over the pixels of r -/

/-- **Memory layout (copy case).**  When the block view does not alias the returned array (Fortran-ordered
input, or a strided view in in-place mode: `np.ascontiguousarray` copies) the call returns the input pixel for
pixel - it is the identity permutation of the blocks, still "a permutation of whole blocks inside the mask". -/
theorem layout_copy_returns_input {α : Type} (x : Img α) (mask : Nat → Nat → Bool) (b0 b1 : Nat)
    (padMode part : Bool) (nidx : List Nat) (i j : Nat) (hi : i < x.n0) (hj : j < x.n1) :
    (shuffleBlocksLayout false x mask b0 b1 padMode part nidx).get i j = x.get i j := by
  have hphi : ∀ (nb0 nb1 : Nat) (idx : List Nat), phi b0 b1 nb0 nb1 idx idx i j = (i, j) := by
    intro nb0 nb1 idx
    unfold phi
    split
    · rename_i hv
      have hs : src idx idx (i / b0 * nb1 + j / b1) = i / b0 * nb1 + j / b1 := by
        unfold src
        split
        · rename_i hlt
          rw [List.getD_eq_getElem?_getD, List.getElem?_eq_getElem hlt]
          exact List.getElem_idxOf hlt
        · rfl
      simp only [hs]
      rw [blk_div _ _ _ hv.2, blk_mod _ _ _ hv.2, blk_recompose, blk_recompose]
    · rfl
  unfold shuffleBlocksLayout shuffleBlocks shuffleIdx
  simp only [Bool.false_eq_true, if_false, hphi]
  cases padMode with
  | false => simp [prepare]
  | true =>
    have e0 : edge x.n0 i = i := by unfold edge; omega
    have e1 : edge x.n1 j = j := by unfold edge; omega
    simp [prepare, e0, e1]

/-- whichever the layout, the result satisfies the relation the check evaluates (`model_satisfies_spec` lifted to
`shuffleBlocksLayout`) -/
theorem layout_satisfies_spec (aliases : Bool) (x : Img Rat) (mask : Nat → Nat → Bool) (b0 b1 : Nat)
    (padMode part : Bool) (nidx : List Nat) (hb0 : 0 < b0) (hb1 : 0 < b1)
    (hp : nidx.Perm (shuffleIdx x mask b0 b1 padMode part)) :
    specOutside x (shuffleBlocksLayout aliases x mask b0 b1 padMode part nidx) mask b0 b1 padMode part = true ∧
    specBlocks x (shuffleBlocksLayout aliases x mask b0 b1 padMode part nidx) mask b0 b1 padMode part = true ∧
    (conservedApplies x b0 b1 padMode = true →
      specConserved x (shuffleBlocksLayout aliases x mask b0 b1 padMode part nidx) = true) := by
  unfold shuffleBlocksLayout
  cases aliases with
  | true => simpa using model_satisfies_spec x mask b0 b1 padMode part nidx hb0 hb1 hp
  | false =>
    simpa using model_satisfies_spec x mask b0 b1 padMode part (shuffleIdx x mask b0 b1 padMode part) hb0 hb1
      (List.Perm.refl _)

/-! ## `shuffle_blocks` as a call: what is left of the arguments -/

/-- **"The mask passed must not be written to"** (the code's own comment), as a frame property of the call model
`shuffleCall` with the copy statement in place (`copies = true`, the code as it is): in both modes and whatever the
memory layout, the caller's mask array after the call is the one before; the array handed back is the pure model's
`shuffleBlocksLayout`; in pad mode the caller's `x` is untouched, in in-place mode the caller's `x` *is* the
array handed back.  The trim writes exist in the model (`inplaceMask`, `trimCuts`); they go to the copy. -/
theorem shuffle_call_frame {α : Type} (aliases : Bool) (x : Img α) (mask : Nat → Nat → Bool) (b0 b1 : Nat)
    (padMode part : Bool) (nidx : List Nat) :
    (shuffleCall true aliases x mask b0 b1 padMode part nidx).maskAfter = mask ∧
    (shuffleCall true aliases x mask b0 b1 padMode part nidx).ret
      = shuffleBlocksLayout aliases x mask b0 b1 padMode part nidx ∧
    (shuffleCall true aliases x mask b0 b1 padMode part nidx).xAfter
      = (if padMode then x else (shuffleCall true aliases x mask b0 b1 padMode part nidx).ret) := by
  refine ⟨shuffleCall_maskAfter_copies _ _ _ _ _ _ _ _, shuffleCall_ret _ _ _ _ _ _ _ _ _, ?_⟩
  rw [shuffleCall_xAfter, shuffleCall_ret]
  cases padMode <;> rfl

/-- The same model without the copy statement (`copies = false`: the code before fix fb1e9b9): the array handed back
is the same, but in in-place mode the caller's mask comes back with everything beyond the last whole block switched
off. -/
theorem shuffle_call_without_copy {α : Type} (aliases : Bool) (x : Img α) (mask : Nat → Nat → Bool) (b0 b1 : Nat)
    (part : Bool) (nidx : List Nat) :
    (shuffleCall false aliases x mask b0 b1 false part nidx).maskAfter
      = (fun i j => mask i j && decide (i < x.n0 - x.n0 % b0) && decide (j < x.n1 - x.n1 % b1)) ∧
    (shuffleCall false aliases x mask b0 b1 false part nidx).ret
      = shuffleBlocksLayout aliases x mask b0 b1 false part nidx :=
  ⟨shuffleCall_maskAfter_nocopy _ _ _ _ _ _ _, shuffleCall_ret _ _ _ _ _ _ _ _ _⟩

/-- the defect the copy repairs: a 4×4 mask of ones, block 3 - 9 ones afterwards without the copy, 16 with it -/
example :
    ((pixels 4 4).filter (fun q => (shuffleCall false true (⟨4, 4, fun i j => ((i * 4 + j : Nat) : Rat)⟩ : Img Rat)
        (fun _ _ => true) 3 3 false false [0]).maskAfter q.1 q.2)).length = 9 ∧
    ((pixels 4 4).filter (fun q => (shuffleCall true true (⟨4, 4, fun i j => ((i * 4 + j : Nat) : Rat)⟩ : Img Rat)
        (fun _ _ => true) 3 3 false false [0]).maskAfter q.1 q.2)).length = 16 := by decide +kernel

/-! ## the probability loop: every rᵢ is computed over the pixels of r, and nothing of the caller's is written -/

theorem masked_eq_filter_map (a : Img Rat) (mask : Nat → Nat → Bool) :
    masked a mask = ((pixels a.n0 a.n1).filter (fun q => mask q.1 q.2)).map (fun q => a.get q.1 q.2) := by
  unfold masked
  generalize pixels a.n0 a.n1 = l
  induction l with
  | nil => rfl
  | cons q l ih =>
    by_cases hq : mask q.1 q.2 = true
    · simp [hq, ih]
    · simp [hq, ih]

/-- **Same pixels, untouched arguments.**  In the run of `pearsonr_probablity` as the code does it (the mask is a
loop-carried array handed to every call of `shuffle_blocks`, which copies it before trimming; `shuffled` is
`y.copy()`), for an image `y` of any memory layout `(yC, yF)`:
there is one round per shuffle; the mask array that `x[mask]` and `shuffled[mask]` are evaluated with in *every*
round is the one `r` was computed with - a consequence of the frame property of the call
(`shuffle_call_frame`), not of how the loop is written: the same statement is false for `copies = false`, see the
`example` below -; every `shuffledᵢ` has the shape of `y`, so `shuffledᵢ[mask]` reads exactly the coordinates
`{q | mask q}` that `y[mask]` reads; and after the loop the mask array and the caller's `y` are what they were
(`x` is never passed to anything that could write it). -/
theorem same_pixels (yC yF : Bool) (y : Img Rat) (mask : Nat → Nat → Bool) (b : Nat) (part : Bool)
    (sigmas : List (List Nat)) :
    (probRun true true yC yF y mask b part sigmas).rounds.length = sigmas.length ∧
    (∀ rd ∈ (probRun true true yC yF y mask b part sigmas).rounds,
      rd.mask = (probRun true true yC yF y mask b part sigmas).maskR ∧
      rd.shuffled.n0 = y.n0 ∧ rd.shuffled.n1 = y.n1 ∧
      masked rd.shuffled rd.mask
        = ((pixels y.n0 y.n1).filter (fun q => mask q.1 q.2)).map (fun q => rd.shuffled.get q.1 q.2)) ∧
    (probRun true true yC yF y mask b part sigmas).final.mask = mask ∧
    (probRun true true yC yF y mask b part sigmas).final.yMem.caller = y := by
  obtain ⟨h1, h2, h3, _⟩ := loopRun_spec b part (loopInit true yC yF y mask) y rfl rfl rfl sigmas
  have hshape : ∀ (sg : List (List Nat)) (y : Img Rat), ∀ yi ∈ shuffleSeq y mask b part sg,
      yi.n0 = y.n0 ∧ yi.n1 = y.n1 := by
    intro sg
    induction sg with
    | nil => intro y yi h; simp [shuffleSeq] at h
    | cons s ss ih =>
      intro y yi h
      simp only [shuffleSeq, List.mem_cons] at h
      rcases h with rfl | h
      · exact ⟨rfl, rfl⟩
      · have := ih _ yi h
        exact ⟨this.1, this.2⟩
  refine ⟨?_, ?_, h2, h3⟩
  · show (loopRun true b part (loopInit true yC yF y mask) sigmas).1.length = _
    rw [h1, List.length_map, shuffleSeq_length]
  · intro rd hrd
    change rd ∈ (loopRun true b part (loopInit true yC yF y mask) sigmas).1 at hrd
    rw [h1, List.mem_map] at hrd
    obtain ⟨yi, hyi, rfl⟩ := hrd
    obtain ⟨s0, s1⟩ := hshape sigmas y yi hyi
    refine ⟨rfl, s0, s1, ?_⟩
    rw [masked_eq_filter_map, s0, s1]
    rfl

/-- in terms of the numbers the routine computes: every rᵢ is a coefficient over as many pixels as r (the masked
pixel lists `x[mask]` of round i and of r are the same list) -/
theorem prob_steps_same_pixels (x y : Img Rat) (mask : Nat → Nat → Bool) (b : Nat) (part : Bool)
    (sigmas : List (List Nat)) :
    (probSteps x y mask b part sigmas).length = sigmas.length ∧
    ∀ s ∈ probSteps x y mask b part sigmas, s.n = (masked x mask).length := by
  obtain ⟨hl, hr, _, _⟩ := same_pixels true true y mask b part sigmas
  refine ⟨by simp [probSteps, probStepsOf, hl], ?_⟩
  intro s hs
  simp only [probSteps, probStepsOf, List.mem_map] at hs
  obtain ⟨rd, hrd, rfl⟩ := hs
  rw [(hr rd hrd).1]
  rfl

/-- the loop without the mask copy (the code before fb1e9b9), 4×4 images, block 3: `r` is computed over 16 pixels,
`r₁` over 9 - with the copy, over 16 -/
example :
    let y : Img Rat := ⟨4, 4, fun i j => ((i * 4 + j : Nat) : Rat)⟩
    ((probRun false true true false y (fun _ _ => true) 3 false [[0]]).rounds.map
        (fun rd => (masked y rd.mask).length)) = [9] ∧
    ((probRun true true true false y (fun _ _ => true) 3 false [[0]]).rounds.map
        (fun rd => (masked y rd.mask).length)) = [16] ∧
    (masked y (probRun false true true false y (fun _ _ => true) 3 false [[0]]).maskR).length = 16 := by
  decide +kernel

/-- and without `y.copy()` (`copyY = false`) the in-place shuffles would land in the caller's `y`: the copy statement
is what the "images untouched" part of `same_pixels` rests on -/
example :
    let y : Img Rat := ⟨2, 4, fun i j => ((i * 4 + j : Nat) : Rat)⟩
    (pixels 2 4).map (fun q => (probRun true false true false y (fun _ _ => true) 2 false [[1, 0]]).final.yMem.caller.get q.1 q.2)
      = [2, 3, 0, 1, 6, 7, 4, 5] ∧
    (pixels 2 4).map (fun q => (probRun true true true false y (fun _ _ => true) 2 false [[1, 0]]).final.yMem.caller.get q.1 q.2)
      = [0, 1, 2, 3, 4, 5, 6, 7] := by decide +kernel

/-- **No layout flag is needed in the loop** (`x`, `y`, `mask` may be Fortran-ordered or strided views):
`shuffled = y.copy()` is C-contiguous (`ndarray.copy` has `order='C'`), so `np.ascontiguousarray` inside
`view_as_blocks` returns the array itself and the block assignment reaches it: whatever the layout `(yC, yF)` of `y`,
the arrays the rounds read are the iteration of `shuffleBlocksLayout true` (`shuffleSeq`) started from `y`.
`x[mask]`, `y[mask]`, `shuffled[mask]` are boolean-mask selections, which list the selected pixels in row-major
index order whatever the memory layout of the three arrays. -/
theorem loop_layout_free (yC yF : Bool) (y : Img Rat) (mask : Nat → Nat → Bool) (b : Nat) (part : Bool)
    (sigmas : List (List Nat)) :
    (probRun true true yC yF y mask b part sigmas).rounds.map (·.shuffled) = shuffleSeq y mask b part sigmas := by
  obtain ⟨h1, _, _, _⟩ := loopRun_spec b part (loopInit true yC yF y mask) y rfl rfl rfl sigmas
  show (loopRun true b part (loopInit true yC yF y mask) sigmas).1.map (·.shuffled) = _
  rw [h1, List.map_map]
  exact List.map_id _

example : (probRun true true false true (⟨2, 4, fun i j => ((i * 4 + j : Nat) : Rat)⟩ : Img Rat) (fun _ _ => true) 2 false
      [[1, 0], [1, 0]]).rounds.map (fun rd => (pixels 2 4).map (fun q => rd.shuffled.get q.1 q.2))
    = [[2, 3, 0, 1, 6, 7, 4, 5], [0, 1, 2, 3, 4, 5, 6, 7]] := by decide +kernel

/-- each in-place shuffle of the loop only rearranges the image: every `shuffledᵢ` has the pixel
values of `y` (as a multiset), whatever the mask, the block size and the layout of `y` -/
theorem loop_conserves (yC yF : Bool) (y : Img Rat) (mask : Nat → Nat → Bool) (b : Nat) (part : Bool)
    (sigmas : List (List Nat)) (hb : 0 < b)
    (hp : ∀ s ∈ sigmas, s.Perm (shuffleIdx y mask b b false part)) :
    ∀ rd ∈ (probRun true true yC yF y mask b part sigmas).rounds,
      ((pixels y.n0 y.n1).map (fun q => rd.shuffled.get q.1 q.2)).Perm
        ((pixels y.n0 y.n1).map (fun q => y.get q.1 q.2)) := by
  have key : ∀ (sigmas : List (List Nat)) (y : Img Rat),
      (∀ s ∈ sigmas, s.Perm (shuffleIdx y mask b b false part)) →
      ∀ yi ∈ shuffleSeq y mask b part sigmas,
        ((pixels y.n0 y.n1).map (fun q => yi.get q.1 q.2)).Perm ((pixels y.n0 y.n1).map (fun q => y.get q.1 q.2)) := by
    intro sigmas
    induction sigmas with
    | nil => intro y _ yi h; simp [shuffleSeq] at h
    | cons s ss ih =>
      intro y hp yi h
      have hl : shuffleBlocksLayout true y mask b b false part s = shuffleBlocks y mask b b false part s := by
        simp [shuffleBlocksLayout]
      simp only [shuffleSeq, List.mem_cons, hl] at h
      have hs := hp s (by simp)
      have step := values_conserved y mask b b false part s hb hb hs (by simp [conservedApplies])
      rcases h with rfl | h
      · exact step
      · have hidx : shuffleIdx (shuffleBlocks y mask b b false part s) mask b b false part
            = shuffleIdx y mask b b false part :=
          shuffleIdx_shape _ _ mask b b false part rfl rfl
        have := ih (shuffleBlocks y mask b b false part s)
          (fun s' hs' => by rw [hidx]; exact hp s' (by simp [hs'])) yi h
        exact this.trans step
  intro rd hrd
  have hmem : rd.shuffled ∈ shuffleSeq y mask b part sigmas := by
    rw [← loop_layout_free yC yF]
    exact List.mem_map_of_mem hrd
  exact key sigmas y hp rd.shuffled hmem

/-! ## the shuffle-based probability is a fraction -/

/-- for `n ≥ 1` comparisons the value is a rational `p` with `0 ≤ p ≤ 1` and `p·n` the natural number of `true`s,
at most `n` -/
theorem probability_range (gt : List Bool) (h : gt ≠ []) :
    ∃ p : Rat, probability gt = some p ∧ 0 ≤ p ∧ p ≤ 1 ∧
      p * (gt.length : Rat) = (gt.count true : Rat) ∧ gt.count true ≤ gt.length := by
  have hz : gt.length ≠ 0 := by simpa using h
  have hpos : (0 : Rat) < (gt.length : Rat) := by exact_mod_cast Nat.pos_of_ne_zero hz
  have h0 : (0 : Rat) ≤ (gt.count true : Rat) := Nat.cast_nonneg _
  refine ⟨(gt.count true : Rat) / (gt.length : Rat), by simp [probability, hz], div_nonneg h0 hpos.le,
    (div_le_one hpos).mpr (by exact_mod_cast List.count_le_length), ?_, List.count_le_length⟩
  field_simp

example : probability [true, false, false] = some (1 / 3) := by decide +kernel

/-- the routine: with `n ≥ 1` shuffles the probability is a fraction `k / n` in `[0, 1]`; with `n = 0` it is NaN
(`0 / 0` in NumPy), which the property's "fraction in [0, 1]" cannot speak about -/
theorem pearson_probability_fraction (x y : Img Rat) (mask : Nat → Nat → Bool) (b : Nat) (part : Bool)
    (sigmas : List (List Nat)) :
    (sigmas ≠ [] → ∃ (p : Rat) (k : Nat), pearsonProbability x y mask b part sigmas = some p ∧
      0 ≤ p ∧ p ≤ 1 ∧ p * (sigmas.length : Rat) = (k : Rat) ∧ k ≤ sigmas.length) ∧
    (sigmas = [] → pearsonProbability x y mask b part sigmas = none) := by
  have hlen : ((probSteps x y mask b part sigmas).map (·.gt)).length = sigmas.length := by
    simp [probSteps, probStepsOf, (same_pixels true true y mask b part sigmas).1]
  constructor
  · intro hne
    have hne' : (probSteps x y mask b part sigmas).map (·.gt) ≠ [] := by
      intro e
      rw [e] at hlen
      exact hne (List.length_eq_zero_iff.mp hlen.symm)
    obtain ⟨p, hp, h0, h1, hk, hle⟩ := probability_range _ hne'
    rw [hlen] at hk hle
    exact ⟨p, _, hp, h0, h1, hk, hle⟩
  · intro he
    subst he
    rfl

/-- three shuffles of a 2×4 image in 2×2 blocks (swap, stay, swap): two of the three rᵢ exceed r -/
example : pearsonProbability (⟨2, 4, fun i j => ((i * 4 + j : Nat) : Rat)⟩ : Img Rat)
      (⟨2, 4, fun i j => (((i * 4 + j) * (i * 4 + j) % 3 : Nat) : Rat)⟩ : Img Rat) (fun _ _ => true) 2 false
      [[1, 0], [0, 1], [1, 0]]
    = some (2 / 3) := by decide +kernel

/-! ## block shuffling in any dimension (`shuffle_blocks` is written for n-D arrays)

The theorems of the 2-D section for `shuffleBlocksNd` (`PewModel/ColocalNd.lean`): shapes, blocks and coordinates
are lists.  Hypotheses: `block.length = x.shape.length` (the code asserts it) and positive block sizes. -/

/-- **n-D: block shuffling is a permutation of whole blocks** (cf. `shuffle_is_bijection`) -/
theorem shuffle_is_bijection_nd {α : Type} (x : NdImg α) (mask : List Nat → Bool) (block : List Nat)
    (padMode part : Bool) (nidx : List Nat) (hlen : block.length = x.shape.length) (hpos : ∀ v ∈ block, 0 < v)
    (hp : nidx.Perm (shuffleIdxNd x mask block padMode part)) :
    let p := prepareNd x mask block padMode
    let nb := nBlocksL p.N block
    let idx := shuffleIdxNd x mask block padMode part
    let φ := phiNd block nb idx nidx
    (∀ c, (shuffleBlocksNd x mask block padMode part nidx).get c = p.X (φ c)) ∧
    ((coords p.N).map φ).Perm (coords p.N) ∧
    (∀ c c', c.length = block.length → c'.length = block.length → φ c = φ c' → c = c') ∧
    (∀ c, c.length = block.length → ltAll (divL c block) nb = true →
      modL (φ c) block = modL c block ∧
      divL (φ c) block = unravel nb (src idx nidx (ravel nb (divL c block)))) ∧
    (∀ c, c.length = block.length → inSelectedNd block nb idx c = false → φ c = c) := by
  intro p nb idx φ
  have G := geoNd_of_call x mask block padMode part nidx hlen hpos hp
  refine ⟨fun c => rfl, ?_, ?_, ?_, ?_⟩
  · apply map_perm_of_inj _ _ (coords_nodup _)
    · intro c hc
      rw [mem_coords] at hc ⊢
      exact phiNd_in_box G c hc
    · intro c hc c' hc' h
      rw [mem_coords] at hc hc'
      exact phiNd_inj G c c' ((ltAll_length hc).trans G.hlenN) ((ltAll_length hc').trans G.hlenN) h
  · intro c c' hc hc' h
    exact phiNd_inj G c c' hc hc' h
  · intro c hc hv
    exact ⟨phiNd_mod G c hc hv, phiNd_div G c hc hv⟩
  · intro c hc h
    exact phiNd_fix c hc ((inSelectedNd_false_iff _ _ _ _).mp h)

/-- a 2×2×4 array, blocks 1×2×2, full mask: four blocks, reversed -/
example : ([3, 2, 1, 0] : List Nat).Perm
    (shuffleIdxNd (⟨[2, 2, 4], fun c => (ravel [2, 2, 4] c : Rat)⟩ : NdImg Rat) (fun _ => true) [1, 2, 2] false false) := by
  decide

example : (coords [2, 2, 4]).map (shuffleBlocksNd (⟨[2, 2, 4], fun c => (ravel [2, 2, 4] c : Rat)⟩ : NdImg Rat)
      (fun _ => true) [1, 2, 2] false false [3, 2, 1, 0]).get
    = [10, 11, 8, 9, 14, 15, 12, 13, 2, 3, 0, 1, 6, 7, 4, 5] := by decide +kernel

/-- a 1-D array is the shape `[n]` (no embedding into 2-D): pad mode, 5 elements, block 2 - three blocks, the last
one partly padding -/
example : shuffleIdxNd (⟨[5], fun c => (c.getD 0 0 : Rat)⟩ : NdImg Rat) (fun _ => true) [2] true false = [0, 1, 2] ∧
    (coords [5]).map (shuffleBlocksNd (⟨[5], fun c => (c.getD 0 0 : Rat)⟩ : NdImg Rat) (fun _ => true) [2] true false
      [2, 1, 0]).get = [4, 4, 2, 3, 0] := by decide +kernel

/-- n-D: pixels outside the shuffled blocks never move (any `nidx`, both modes) -/
theorem outside_never_move_nd {α : Type} (x : NdImg α) (mask : List Nat → Bool) (block : List Nat)
    (padMode part : Bool) (nidx : List Nat) (c : List Nat) (hlen : block.length = x.shape.length)
    (hc : ltAll c x.shape = true)
    (hout : inSelectedNd block (nBlocksL (prepareNd x mask block padMode).N block)
      (shuffleIdxNd x mask block padMode part) c = false) :
    (shuffleBlocksNd x mask block padMode part nidx).get c = x.get c := by
  have hcl : c.length = block.length := (ltAll_length hc).trans hlen.symm
  have hfix := phiNd_fix (nidx := nidx) c hcl ((inSelectedNd_false_iff _ _ _ _).mp hout)
  show (prepareNd x mask block padMode).X (phiNd block _ (shuffleIdxNd x mask block padMode part) nidx c) = _
  rw [hfix]
  exact prepareNd_X x mask block padMode c hc

/-- n-D: every output block is one of the selected input blocks: block `f` of the result is block `src f` of the
working array, pixel for pixel (offsets `o` in the box `block`), and `src f` is again a selected block -/
theorem blocks_from_input_nd {α : Type} (x : NdImg α) (mask : List Nat → Bool) (block : List Nat)
    (padMode part : Bool) (nidx : List Nat) (hlen : block.length = x.shape.length)
    (hp : nidx.Perm (shuffleIdxNd x mask block padMode part))
    (f : Nat) (hf : f ∈ shuffleIdxNd x mask block padMode part) :
    let p := prepareNd x mask block padMode
    let nb := nBlocksL p.N block
    let g := src (shuffleIdxNd x mask block padMode part) nidx f
    g ∈ shuffleIdxNd x mask block padMode part ∧
    ∀ o, ltAll o block = true →
      (shuffleBlocksNd x mask block padMode part nidx).get (recomb (unravel nb f) block o)
        = p.X (recomb (unravel nb g) block o) := by
  intro p nb g
  refine ⟨src_mem _ _ hp f hf, ?_⟩
  intro o ho
  have hflt : f < prodL nb := selectedNd_lt _ _ _ _ f hf
  have hnbl : nb.length = block.length := by
    show (divL (prepareNd x mask block padMode).N block).length = _
    rw [length_divL, prepareNd_N_length x mask block padMode hlen]
    simp
  have hul : (unravel nb f).length = block.length := by rw [unravel_length, hnbl]
  have hd : divL (recomb (unravel nb f) block o) block = unravel nb f := divL_recomb _ _ _ hul ho
  have hm : modL (recomb (unravel nb f) block o) block = o := modL_recomb _ _ _ hul ho
  have hv : ltAll (divL (recomb (unravel nb f) block o) block) nb = true := by
    rw [hd]; exact unravel_lt _ _ hflt
  show p.X (phiNd block nb (shuffleIdxNd x mask block padMode part) nidx (recomb (unravel nb f) block o)) = _
  rw [phiNd_valid _ hv, hd, hm, ravel_unravel _ _ hflt]

/-- n-D: pixel values are conserved (as a multiset over the whole array) whenever the shape is a multiple of the
block on every axis, and always in in-place mode -/
theorem values_conserved_nd {α : Type} (x : NdImg α) (mask : List Nat → Bool) (block : List Nat)
    (padMode part : Bool) (nidx : List Nat) (hlen : block.length = x.shape.length) (hpos : ∀ v ∈ block, 0 < v)
    (hp : nidx.Perm (shuffleIdxNd x mask block padMode part))
    (happ : conservedAppliesNd x block padMode = true) :
    ((coords x.shape).map (shuffleBlocksNd x mask block padMode part nidx).get).Perm
      ((coords x.shape).map x.get) := by
  have G := geoNd_of_call x mask block padMode part nidx hlen hpos hp
  have hN : (prepareNd x mask block padMode).N = x.shape := by
    cases padMode with
    | false => rfl
    | true =>
      simp only [conservedAppliesNd, Bool.not_true, Bool.false_or] at happ
      exact padExt_list_of_multiple _ _ hlen happ
  have hw := conserved_working_nd (prepareNd x mask block padMode).X G
  have hco : coords (prepareNd x mask block padMode).N = coords x.shape := by rw [hN]
  rw [hco] at hw
  have e2 : (coords x.shape).map (prepareNd x mask block padMode).X = (coords x.shape).map x.get := by
    apply List.map_congr_left
    intro c hc
    rw [mem_coords] at hc
    exact prepareNd_X x mask block padMode c hc
  rw [← e2]
  exact hw

example : conservedAppliesNd (⟨[4, 6, 2], fun _ => (0 : Rat)⟩ : NdImg Rat) [2, 3, 1] true = true ∧
    conservedAppliesNd (⟨[5, 7, 3], fun _ => (0 : Rat)⟩ : NdImg Rat) [2, 3, 2] false = true ∧
    conservedAppliesNd (⟨[5, 6, 2], fun _ => (0 : Rat)⟩ : NdImg Rat) [2, 3, 1] true = false := by decide

/-- **n-D: the model's result satisfies the relation the check evaluates on the implementation's result**
(`specOutsideNd`, `specBlocksNd`, `specConservedNd`), for every permutation `nidx`, arrays of any dimension. -/
theorem model_satisfies_spec_nd (x : NdImg Rat) (mask : List Nat → Bool) (block : List Nat)
    (padMode part : Bool) (nidx : List Nat) (hlen : block.length = x.shape.length) (hpos : ∀ v ∈ block, 0 < v)
    (hp : nidx.Perm (shuffleIdxNd x mask block padMode part)) :
    specOutsideNd x (shuffleBlocksNd x mask block padMode part nidx) mask block padMode part = true ∧
    specBlocksNd x (shuffleBlocksNd x mask block padMode part nidx) mask block padMode part = true ∧
    (conservedAppliesNd x block padMode = true →
      specConservedNd x (shuffleBlocksNd x mask block padMode part nidx) = true) := by
  refine ⟨?_, ?_, ?_⟩
  · unfold specOutsideNd
    simp only [List.all_eq_true, Bool.or_eq_true, decide_eq_true_eq]
    intro c hc
    rw [mem_coords] at hc
    by_cases hs : inSelectedNd block (nBlocksL (prepareNd x mask block padMode).N block)
        (selectedNd (prepareNd x mask block padMode).M block (nBlocksL (prepareNd x mask block padMode).N block) part)
        c = true
    · exact Or.inl hs
    · right
      exact outside_never_move_nd x mask block padMode part nidx c hlen hc (by simpa [shuffleIdxNd] using hs)
  · unfold specBlocksNd
    simp only [List.all_eq_true, List.any_eq_true, Bool.or_eq_true, decide_eq_true_eq]
    intro f hf
    obtain ⟨hg, hblk⟩ := blocks_from_input_nd x mask block padMode part nidx hlen hp f hf
    refine ⟨_, hg, ?_⟩
    intro o ho
    rw [mem_coords] at ho
    right
    exact hblk o ho
  · intro happ
    unfold specConservedNd
    rw [beq_iff_eq]
    exact sortR_eq_of_perm _ _ (values_conserved_nd x mask block padMode part nidx hlen hpos hp happ)

/-- n-D, memory layout (copy case): when the block view does not alias the returned array the call returns the
input pixel for pixel -/
theorem layout_copy_returns_input_nd {α : Type} (x : NdImg α) (mask : List Nat → Bool) (block : List Nat)
    (padMode part : Bool) (nidx : List Nat) (c : List Nat) (hlen : block.length = x.shape.length)
    (hc : ltAll c x.shape = true) :
    (shuffleBlocksLayoutNd false x mask block padMode part nidx).get c = x.get c := by
  have hcl : c.length = block.length := (ltAll_length hc).trans hlen.symm
  show (prepareNd x mask block padMode).X (phiNd block _ _ _ c) = _
  simp only [Bool.false_eq_true, if_false]
  rw [phiNd_self _ _ _ _ hcl]
  exact prepareNd_X x mask block padMode c hc

/-- n-D: whichever the layout, the result satisfies the relation the check evaluates -/
theorem layout_satisfies_spec_nd (aliases : Bool) (x : NdImg Rat) (mask : List Nat → Bool) (block : List Nat)
    (padMode part : Bool) (nidx : List Nat) (hlen : block.length = x.shape.length) (hpos : ∀ v ∈ block, 0 < v)
    (hp : nidx.Perm (shuffleIdxNd x mask block padMode part)) :
    specOutsideNd x (shuffleBlocksLayoutNd aliases x mask block padMode part nidx) mask block padMode part = true ∧
    specBlocksNd x (shuffleBlocksLayoutNd aliases x mask block padMode part nidx) mask block padMode part = true ∧
    (conservedAppliesNd x block padMode = true →
      specConservedNd x (shuffleBlocksLayoutNd aliases x mask block padMode part nidx) = true) := by
  cases aliases with
  | true => exact model_satisfies_spec_nd x mask block padMode part nidx hlen hpos hp
  | false =>
    exact model_satisfies_spec_nd x mask block padMode part (shuffleIdxNd x mask block padMode part) hlen hpos
      (List.Perm.refl _)

/-- **n-D: "the mask passed must not be written to"** - `shuffle_call_frame` for arrays of any dimension: the
per-axis trim writes `np.swapaxes(mask, 0, axis)[slice(t, None)] = False` go to the copy -/
theorem shuffle_call_frame_nd {α : Type} (aliases : Bool) (x : NdImg α) (mask : List Nat → Bool) (block : List Nat)
    (padMode part : Bool) (nidx : List Nat) :
    (shuffleCallNd true aliases x mask block padMode part nidx).maskAfter = mask ∧
    (shuffleCallNd true aliases x mask block padMode part nidx).ret
      = shuffleBlocksLayoutNd aliases x mask block padMode part nidx ∧
    (shuffleCallNd true aliases x mask block padMode part nidx).xAfter
      = (if padMode then x else (shuffleCallNd true aliases x mask block padMode part nidx).ret) ∧
    (shuffleCallNd false aliases x mask block false part nidx).maskAfter
      = (fun c => mask c && inTrim x.shape block c) := by
  refine ⟨shuffleCallNd_maskAfter_copies _ _ _ _ _ _ _, shuffleCallNd_ret _ _ _ _ _ _ _ _, ?_,
    shuffleCallNd_maskAfter_nocopy _ _ _ _ _ _⟩
  rw [shuffleCallNd_xAfter, shuffleCallNd_ret]
  cases padMode <;> rfl

/-- a 3×3×3 mask of ones, blocks 2×2×2: 8 ones are left without the copy, 27 with it -/
example :
    ((coords [3, 3, 3]).filter (shuffleCallNd false true (⟨[3, 3, 3], fun c => (ravel [3, 3, 3] c : Rat)⟩ : NdImg Rat)
        (fun _ => true) [2, 2, 2] false false [0]).maskAfter).length = 8 ∧
    ((coords [3, 3, 3]).filter (shuffleCallNd true true (⟨[3, 3, 3], fun c => (ravel [3, 3, 3] c : Rat)⟩ : NdImg Rat)
        (fun _ => true) [2, 2, 2] false false [0]).maskAfter).length = 27 := by decide +kernel

/-- **The 2-D model is the n-D model on shapes `[n0, n1]`**: the list handed to the permutation and every pixel of
the result coincide (so the 2-D theorems above and the n-D theorems speak about the same function, and the check
runs both on every 1-D/2-D case). -/
theorem nd_coincides_2d {α : Type} (aliases : Bool) (x : Img α) (mask : Nat → Nat → Bool) (b0 b1 : Nat)
    (padMode part : Bool) (nidx : List Nat) :
    shuffleIdxNd x.toNd (maskToNd mask) [b0, b1] padMode part = shuffleIdx x mask b0 b1 padMode part ∧
    ∀ i j, (shuffleBlocksLayoutNd aliases x.toNd (maskToNd mask) [b0, b1] padMode part nidx).get [i, j]
      = (shuffleBlocksLayout aliases x mask b0 b1 padMode part nidx).get i j :=
  ⟨shuffleIdxNd_two x mask b0 b1 padMode part, shuffleBlocksLayoutNd_two aliases x mask b0 b1 padMode part nidx⟩

/-! ## large images: the quasi-linear forms decide the same relations -/

/-- `mean(x²) - mean(x)²` is `np.std(x)²` (the form used for images of a few hundred thousand pixels) -/
theorem var_fast (x : List Rat) : varFast x = var x := by
  unfold varFast
  cases x with
  | nil => simp [cov, var, mean, mulL]
  | cons a l =>
    rw [(pearson_textbook (a :: l) (a :: l) rfl (by simp)).1, (pearson_textbook (a :: l) (a :: l) rfl (by simp)).2]

example : varFast [1, 2, 3, 6] = 7 / 2 := by decide +kernel

/-- integer-valued images: `covI` (integer sums) is `cov` of the same values as rationals; with `var_fast`
(`var x = cov x x`) every number the check takes from `pstats` is the model's `cov` / `var` / `mean` -/
theorem cov_int (x y : List Int) :
    meanI x = mean (x.map (fun (i : Int) => (i : Rat))) ∧
    covI x y = cov (x.map (fun (i : Int) => (i : Rat))) (y.map (fun (i : Int) => (i : Rat))) := by
  have hm : ∀ l : List Int, meanI l = mean (l.map (fun (i : Int) => (i : Rat))) := by
    intro l
    unfold meanI mean
    rw [List.length_map]
    congr 1
    induction l with
    | nil => simp
    | cons a l ih => simp only [List.sum_cons, List.map_cons, Int.cast_add, ih]
  refine ⟨hm x, ?_⟩
  unfold covI cov mulL
  rw [hm, hm x, hm y]
  congr 2
  induction x generalizing y with
  | nil => simp
  | cons a x ih =>
    cases y with
    | nil => simp
    | cons b y => simp only [List.zipWith_cons_cons, List.map_cons, Int.cast_mul, ih y]

example : covI [1, 2, 3, 6] [2, 1, 5, 4] = 7 / 4 := by decide +kernel

/-- **`specOutsideFast` is `specOutside`** (any image, mask, block, mode) -/
theorem spec_outside_fast (x out : Img Rat) (mask : Nat → Nat → Bool) (b0 b1 : Nat) (padMode part : Bool) :
    specOutsideFast x out mask b0 b1 padMode part = specOutside x out mask b0 b1 padMode part := by
  unfold specOutsideFast specOutside
  simp only [inSelected_selected]

/-- **`specBlocksFast` is `specBlocks`**: the hash-set lookup finds a selected input block with the same visible part
exactly when one exists -/
theorem spec_blocks_fast (x out : Img Rat) (mask : Nat → Nat → Bool) (b0 b1 : Nat) (padMode part : Bool) :
    specBlocksFast x out mask b0 b1 padMode part = specBlocks x out mask b0 b1 padMode part := by
  unfold specBlocksFast specBlocks
  rw [Bool.eq_iff_iff]
  simp only [List.all_eq_true]
  refine forall_congr' (fun f => forall_congr' (fun hf => ?_))
  rw [keys_contains_iff _ _ _ _ _ _ _ f hf]
  simp only [List.any_eq_true, List.all_eq_true, Bool.or_eq_true, Bool.not_eq_true', Bool.and_eq_false_iff,
    decide_eq_false_iff_not, decide_eq_true_eq, blockKey_eq_iff, mem_pixels_vis]
  refine exists_congr (fun g => and_congr_right (fun _ => ?_))
  constructor
  · intro h o ho
    by_cases hv : f / (nBlocks (prepare x mask b0 b1 padMode).N1 b1) * b0 + o.1 < x.n0 ∧
        f % (nBlocks (prepare x mask b0 b1 padMode).N1 b1) * b1 + o.2 < x.n1
    · exact Or.inr (h o ⟨ho, hv.1, hv.2⟩).symm
    · left
      by_cases h1 : f / (nBlocks (prepare x mask b0 b1 padMode).N1 b1) * b0 + o.1 < x.n0
      · exact Or.inr (fun h2 => hv ⟨h1, h2⟩)
      · exact Or.inl h1
  · intro h o ho
    rcases h o ho.1 with hn | he
    · rcases hn with hn | hn
      · exact absurd ho.2.1 hn
      · exact absurd ho.2.2 hn
    · exact he.symm

/-- a 5×7 image in pad mode with 2×3 blocks (partly visible blocks on two sides): yes for a real shuffle, no when a
pixel of a selected block is changed -/
example :
    let x : Img Rat := ⟨5, 7, fun i j => ((i * 7 + j : Nat) : Rat)⟩
    let y := shuffleBlocks x (fun _ _ => true) 2 3 true false [8, 7, 6, 5, 4, 3, 2, 1, 0]
    let z : Img Rat := ⟨5, 7, fun i j => if i = 0 ∧ j = 0 then 1000 else y.get i j⟩
    specBlocksFast x y (fun _ _ => true) 2 3 true false = true ∧
    specBlocksFast x z (fun _ _ => true) 2 3 true false = false := by
  simp only [spec_blocks_fast]
  decide +kernel

/-- **The certificate pins the output.**  If pixels outside the selected blocks are where they were (`specOutside`) and
block `idx[k]` of the output is block `nidx[k]` of the working array for every `k` (`specApplied`), then the output is,
pixel for pixel, the model's `shuffleBlocks … nidx` - for any `nidx` (no permutation hypothesis). -/
theorem applied_determines_output (x out : Img Rat) (mask : Nat → Nat → Bool) (b0 b1 : Nat) (padMode part : Bool)
    (nidx : List Nat)
    (ho : specOutside x out mask b0 b1 padMode part = true)
    (ha : specApplied x out mask b0 b1 padMode part nidx = true) :
    ∀ i j, i < x.n0 → j < x.n1 → out.get i j = (shuffleBlocks x mask b0 b1 padMode part nidx).get i j := by
  intro i j hi hj
  by_cases hs : inSelected b0 b1 (nBlocks (prepare x mask b0 b1 padMode).N0 b0)
      (nBlocks (prepare x mask b0 b1 padMode).N1 b1) (shuffleIdx x mask b0 b1 padMode part) i j = true
  · -- inside a selected block: the certificate entry of that block, at the offset of the pixel
    unfold inSelected shuffleIdx at hs
    simp only [Bool.and_eq_true, decide_eq_true_eq, List.contains_iff_mem] at hs
    obtain ⟨⟨h0, h1⟩, hmem⟩ := hs
    unfold specApplied at ha
    simp only [Bool.and_eq_true, beq_iff_eq, List.all_eq_true, Bool.or_eq_true, Bool.not_eq_true',
      Bool.and_eq_false_iff, decide_eq_false_iff_not, decide_eq_true_eq] at ha
    obtain ⟨hlen, hall⟩ := ha
    have hk1 := List.idxOf_lt_length_iff.mpr hmem
    have hk2 : (selected (prepare x mask b0 b1 padMode).M b0 b1 (nBlocks (prepare x mask b0 b1 padMode).N0 b0)
        (nBlocks (prepare x mask b0 b1 padMode).N1 b1) part).idxOf
        (i / b0 * nBlocks (prepare x mask b0 b1 padMode).N1 b1 + j / b1) < nidx.length := by rw [hlen]; exact hk1
    have hfk := List.getElem_idxOf hk1
    have hpair : ((i / b0 * nBlocks (prepare x mask b0 b1 padMode).N1 b1 + j / b1),
        nidx[(selected (prepare x mask b0 b1 padMode).M b0 b1 (nBlocks (prepare x mask b0 b1 padMode).N0 b0)
          (nBlocks (prepare x mask b0 b1 padMode).N1 b1) part).idxOf
          (i / b0 * nBlocks (prepare x mask b0 b1 padMode).N1 b1 + j / b1)])
        ∈ (selected (prepare x mask b0 b1 padMode).M b0 b1 (nBlocks (prepare x mask b0 b1 padMode).N0 b0)
          (nBlocks (prepare x mask b0 b1 padMode).N1 b1) part).zip nidx := by
      exact List.mem_iff_getElem.mpr ⟨_, (by rw [List.length_zip]; exact Nat.lt_min.mpr ⟨hk1, hk2⟩),
        by rw [List.getElem_zip, hfk]⟩
    have hb0 : 0 < b0 := by
      rcases Nat.eq_zero_or_pos b0 with h | h
      · subst h; simp [nBlocks] at h0
      · exact h
    have hb1 : 0 < b1 := by
      rcases Nat.eq_zero_or_pos b1 with h | h
      · subst h; simp [nBlocks] at h1
      · exact h
    have hoff := hall _ hpair (i % b0, j % b1) ((mem_pixels _ _ _).mpr ⟨Nat.mod_lt _ hb0, Nat.mod_lt _ hb1⟩)
    simp only [blk_div _ _ _ h1, blk_mod _ _ _ h1, blk_recompose] at hoff
    rcases hoff with hn | he
    · rcases hn with hn | hn
      · exact absurd hi hn
      · exact absurd hj hn
    · rw [he]
      show _ = (prepare x mask b0 b1 padMode).X (phi b0 b1 _ _ (selected (prepare x mask b0 b1 padMode).M b0 b1
          (nBlocks (prepare x mask b0 b1 padMode).N0 b0) (nBlocks (prepare x mask b0 b1 padMode).N1 b1) part) nidx i j).1
        (phi b0 b1 _ _ (selected (prepare x mask b0 b1 padMode).M b0 b1
          (nBlocks (prepare x mask b0 b1 padMode).N0 b0) (nBlocks (prepare x mask b0 b1 padMode).N1 b1) part) nidx i j).2
      rw [phi_valid i j h0 h1]
      have hsrc : src (selected (prepare x mask b0 b1 padMode).M b0 b1
          (nBlocks (prepare x mask b0 b1 padMode).N0 b0) (nBlocks (prepare x mask b0 b1 padMode).N1 b1) part) nidx
          (i / b0 * nBlocks (prepare x mask b0 b1 padMode).N1 b1 + j / b1)
          = nidx[(selected (prepare x mask b0 b1 padMode).M b0 b1 (nBlocks (prepare x mask b0 b1 padMode).N0 b0)
            (nBlocks (prepare x mask b0 b1 padMode).N1 b1) part).idxOf
            (i / b0 * nBlocks (prepare x mask b0 b1 padMode).N1 b1 + j / b1)] := by
        unfold src
        rw [if_pos hk1, List.getD_eq_getElem?_getD, List.getElem?_eq_getElem hk2]
        rfl
      rw [hsrc]
  · -- outside: fixed by the implementation's output (`specOutside`) and by the model (`outside_never_move`)
    have hs' : inSelected b0 b1 (nBlocks (prepare x mask b0 b1 padMode).N0 b0)
        (nBlocks (prepare x mask b0 b1 padMode).N1 b1) (shuffleIdx x mask b0 b1 padMode part) i j = false := by
      simpa using hs
    rw [outside_never_move x mask b0 b1 padMode part nidx i j hi hj hs']
    unfold specOutside at ho
    simp only [List.all_eq_true, Bool.or_eq_true, decide_eq_true_eq] at ho
    rcases ho (i, j) ((mem_pixels _ _ _).mpr ⟨hi, hj⟩) with h | h
    · exact absurd h hs
    · exact h

/-- **and the model's output carries the certificate**: `shuffleBlocks … nidx` passes `specApplied … nidx` whenever
`nidx` has one entry per selected block (so "certificate fails" means "differs from the model") -/
theorem model_satisfies_applied (x : Img Rat) (mask : Nat → Nat → Bool) (b0 b1 : Nat) (padMode part : Bool)
    (nidx : List Nat) (hlen : nidx.length = (shuffleIdx x mask b0 b1 padMode part).length) :
    specApplied x (shuffleBlocks x mask b0 b1 padMode part nidx) mask b0 b1 padMode part nidx = true := by
  unfold specApplied
  simp only [Bool.and_eq_true, beq_iff_eq, List.all_eq_true, Bool.or_eq_true, Bool.not_eq_true',
    Bool.and_eq_false_iff, decide_eq_false_iff_not, decide_eq_true_eq]
  refine ⟨hlen, ?_⟩
  intro fg hfg o ho
  right
  obtain ⟨k, h1, h2, e⟩ := mem_zip_getElem _ _ fg hfg
  subst e
  rw [mem_pixels] at ho
  have hsel : (selected (prepare x mask b0 b1 padMode).M b0 b1 (nBlocks (prepare x mask b0 b1 padMode).N0 b0)
      (nBlocks (prepare x mask b0 b1 padMode).N1 b1) part)[k] ∈ selected (prepare x mask b0 b1 padMode).M b0 b1
      (nBlocks (prepare x mask b0 b1 padMode).N0 b0) (nBlocks (prepare x mask b0 b1 padMode).N1 b1) part :=
    List.getElem_mem h1
  have hlt := selected_lt _ _ _ _ _ _ _ hsel
  generalize hF : (selected (prepare x mask b0 b1 padMode).M b0 b1 (nBlocks (prepare x mask b0 b1 padMode).N0 b0)
      (nBlocks (prepare x mask b0 b1 padMode).N1 b1) part)[k] = F at hlt
  have hnb1 : 0 < nBlocks (prepare x mask b0 b1 padMode).N1 b1 := by
    rcases Nat.eq_zero_or_pos (nBlocks (prepare x mask b0 b1 padMode).N1 b1) with h | h
    · rw [h] at hlt; simp at hlt
    · exact h
  have hB0 : F / nBlocks (prepare x mask b0 b1 padMode).N1 b1 < nBlocks (prepare x mask b0 b1 padMode).N0 b0 :=
    (Nat.div_lt_iff_lt_mul hnb1).mpr hlt
  have hB1 : F % nBlocks (prepare x mask b0 b1 padMode).N1 b1 < nBlocks (prepare x mask b0 b1 padMode).N1 b1 :=
    Nat.mod_lt _ hnb1
  show (prepare x mask b0 b1 padMode).X (phi b0 b1 _ _ _ nidx _ _).1 (phi b0 b1 _ _ _ nidx _ _).2 = _
  rw [phi_valid _ _ (by rw [blk_div _ _ _ ho.1]; exact hB0) (by rw [blk_div _ _ _ ho.2]; exact hB1)]
  simp only [blk_div _ _ _ ho.1, blk_div _ _ _ ho.2, blk_mod _ _ _ ho.1, blk_mod _ _ _ ho.2, blk_recompose]
  have hsrc : src (shuffleIdx x mask b0 b1 padMode part) nidx F = nidx[k] := by
    rw [← hF]
    exact src_getElem _ nidx (selected_nodup _ _ _ _ _ _) k h1 h2
  unfold shuffleIdx at hsrc
  rw [hsrc]

/-- a permutation check by sorting is a permutation check -/
theorem is_perm_of_sorted (nidx idx : List Nat) (h : isPermOfSorted nidx idx = true) : nidx.Perm idx := by
  unfold isPermOfSorted at h
  rw [beq_iff_eq] at h
  rw [← h]
  exact (List.mergeSort_perm nidx _).symm

example : isPermOfSorted [2, 0, 1] [0, 1, 2] = true ∧ isPermOfSorted [2, 0, 0] [0, 1, 2] = false := by
  simp [isPermOfSorted, List.mergeSort, List.MergeSort.Internal.splitInTwo]

/-- the certificate for a 2×4 image in 2×2 blocks, `[1, 0]` swaps the two blocks -/
example :
    let x : Img Rat := ⟨2, 4, fun i j => ((i * 4 + j : Nat) : Rat)⟩
    specApplied x (shuffleBlocks x (fun _ _ => true) 2 2 false false [1, 0]) (fun _ _ => true) 2 2 false false [1, 0] = true ∧
    specApplied x x (fun _ _ => true) 2 2 false false [1, 0] = false := by decide +kernel

/-- **The certificate carries the whole specification**: an output that passes `specOutside` and `specApplied` for a
permutation `nidx` of the selected blocks also satisfies "every output block equals some input block" and, where it is
promised, conservation of the pixel values (it is the model's output, and `model_satisfies_spec`). -/
theorem certificate_implies_spec (x out : Img Rat) (mask : Nat → Nat → Bool) (b0 b1 : Nat) (padMode part : Bool)
    (nidx : List Nat) (hb0 : 0 < b0) (hb1 : 0 < b1)
    (hp : nidx.Perm (shuffleIdx x mask b0 b1 padMode part))
    (ho : specOutside x out mask b0 b1 padMode part = true)
    (ha : specApplied x out mask b0 b1 padMode part nidx = true) :
    specBlocks x out mask b0 b1 padMode part = true ∧
    (conservedApplies x b0 b1 padMode = true → specConserved x out = true) := by
  have hd := applied_determines_output x out mask b0 b1 padMode part nidx ho ha
  obtain ⟨_, hB, hC⟩ := model_satisfies_spec x mask b0 b1 padMode part nidx hb0 hb1 hp
  rw [specBlocks_congr x out _ mask b0 b1 padMode part hd, specConserved_congr x out _ hd]
  exact ⟨hB, hC⟩

/-- **Block shuffling is a permutation of whole blocks**, at the level of blocks: for every permutation `nidx` of the
selected flat indices, the list of selected blocks of the model's result is a rearrangement of the list of selected
blocks of the working array (`specBlockMultiset`, which the check evaluates on the implementation's output whenever every
selected block lies inside the image: shape a multiple of the block, or in-place mode).  Strictly more than
"values conserved + every output block equals some input block": see the `example` below. -/
theorem model_block_multiset (x : Img Rat) (mask : Nat → Nat → Bool) (b0 b1 : Nat)
    (padMode part : Bool) (nidx : List Nat) (hp : nidx.Perm (shuffleIdx x mask b0 b1 padMode part)) :
    specBlockMultiset x (shuffleBlocks x mask b0 b1 padMode part nidx) mask b0 b1 padMode part = true := by
  unfold specBlockMultiset
  rw [List.isPerm_iff]
  have hkey : ∀ f ∈ shuffleIdx x mask b0 b1 padMode part,
      blockKey (shuffleBlocks x mask b0 b1 padMode part nidx).get b0 b1 b0 b1
        (f / nBlocks (prepare x mask b0 b1 padMode).N1 b1) (f % nBlocks (prepare x mask b0 b1 padMode).N1 b1)
      = blockKey (prepare x mask b0 b1 padMode).X b0 b1 b0 b1
        (src (shuffleIdx x mask b0 b1 padMode part) nidx f / nBlocks (prepare x mask b0 b1 padMode).N1 b1)
        (src (shuffleIdx x mask b0 b1 padMode part) nidx f % nBlocks (prepare x mask b0 b1 padMode).N1 b1) := by
    intro f hf
    rw [blockKey_eq_iff]
    intro o ho
    rw [mem_pixels] at ho
    exact (blocks_from_input x mask b0 b1 padMode part nidx hp f hf).2 o.1 o.2 ho.1 ho.2
  have h1 := List.map_congr_left hkey
  unfold shuffleIdx at h1 hp
  rw [h1]
  rw [map_src_eq _ nidx hp (selected_nodup _ _ _ _ _ _)
    (fun g => blockKey (prepare x mask b0 b1 padMode).X b0 b1 b0 b1
      (g / nBlocks (prepare x mask b0 b1 padMode).N1 b1) (g % nBlocks (prepare x mask b0 b1 padMode).N1 b1))]
  exact hp.map _

/-- a 1×4 line `[1, 2, 2, 1]` in blocks of two: `[1, 2, 1, 2]` conserves the values and consists of input blocks only,
but uses the block `[1, 2]` twice - not a permutation of blocks -/
example :
    let x : Img Rat := ⟨1, 4, fun _ j => if j = 0 ∨ j = 3 then 1 else 2⟩
    let bad : Img Rat := ⟨1, 4, fun _ j => if j % 2 = 0 then 1 else 2⟩
    ((pixels 1 4).map (fun q => bad.get q.1 q.2)).Perm ((pixels 1 4).map (fun q => x.get q.1 q.2)) ∧
    specBlocks x bad (fun _ _ => true) 1 2 false false = true ∧
    specOutside x bad (fun _ _ => true) 1 2 false false = true ∧
    specBlockMultiset x bad (fun _ _ => true) 1 2 false false = false ∧
    specBlockMultiset x (shuffleBlocks x (fun _ _ => true) 1 2 false false [1, 0]) (fun _ _ => true) 1 2 false false = true := by
  decide +kernel

end Pew.Colocal
