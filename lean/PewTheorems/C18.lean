import PewProofs.ConvolveReal
import PewProofs.ConvolveExt

/-! # C18 — property theorems (the provable, exact-arithmetic part; see the header of
`PewModel/Convolve.lean` for what is *not* proved) -/
namespace Pew.Convolve

/-! ## pad-mode convolution -/

/-- the output has the input's length for every kernel length ≥ 1, odd or even -/
theorem pad_conv_length (x psf : List Rat) (hx : x ≠ []) (hp : psf ≠ []) :
    (convolvePad x psf).length = x.length := by
  have hn : 0 < x.length := List.length_pos_iff.mpr hx
  have hm : 0 < psf.length := List.length_pos_iff.mpr hp
  unfold convolvePad convValid
  simp only [padEdge_length]
  rw [if_neg (by omega)]
  simp [convValidGe, padEdge_length]
  omega

/-- a kernel that sums to one reproduces constant signals, edges included -/
theorem pad_conv_constant (c : Rat) (n : Nat) (hn : 0 < n) (psf : List Rat) (hp : psf ≠ [])
    (hs : psf.sum = 1) : convolvePad (List.replicate n c) psf = List.replicate n c := by
  have hm : 0 < psf.length := List.length_pos_iff.mpr hp
  have hpad : padEdge (List.replicate n c) (psf.length / 2) (psf.length / 2 + psf.length % 2 - 1)
      = List.replicate (n + psf.length - 1) c := by
    unfold padEdge
    have h1 : (List.replicate n c).headD 0 = c := by
      cases n with
      | zero => omega
      | succ k => simp [List.replicate_succ]
    have h2 : (List.replicate n c).getLastD 0 = c := by
      cases n with
      | zero => omega
      | succ k => simp [List.getLastD_eq_getLast?, List.getLast?_replicate]
    rw [h1, h2, List.replicate_append_replicate, List.replicate_append_replicate]
    congr 1; omega
  unfold convolvePad convValid
  simp only []
  rw [hpad]
  simp only [List.length_replicate]
  rw [if_neg (by omega)]
  unfold convValidGe
  simp only [List.length_replicate]
  have hlen : n + psf.length - 1 + 1 - psf.length = n := by omega
  rw [hlen]
  apply List.ext_getElem
  · simp
  · intro k h1 h2
    simp only [List.getElem_map, List.getElem_range, List.getElem_replicate]
    have hk : k < n := by simpa using h1
    have : (List.range psf.length).map (fun j => at0 psf j * at0 (List.replicate (n + psf.length - 1) c) (k + psf.length - 1 - j))
        = (List.range psf.length).map (fun j => at0 psf j * c) := by
      apply List.map_congr_left
      intro j hj
      have hj' : j < psf.length := List.mem_range.mp hj
      rw [at0_replicate _ _ _ (by omega)]
    rw [this, List.sum_map_mul_right, sum_at0_range, hs, one_mul]

example : convolvePad [3, 3, 3, 3] [1 / 4, 1 / 2, 1 / 4] = [3, 3, 3, 3] :=
  pad_conv_constant 3 4 (by norm_num) _ (by simp) (by norm_num)

/-- away from the edges the result is the ordinary convolution, aligned like numpy's `same`:
entry `k` is entry `k + (m − 1 − m/2)` of the full convolution -/
theorem pad_conv_interior (x psf : List Rat) (hp : psf ≠ []) (k : Nat)
    (h1 : psf.length / 2 ≤ k) (h2 : k + (psf.length - 1 - psf.length / 2) < x.length) :
    at0 (convolvePad x psf) k = fullConvAt x psf (k + (psf.length - 1 - psf.length / 2)) := by
  have hm : 0 < psf.length := List.length_pos_iff.mpr hp
  unfold convolvePad convValid
  simp only [padEdge_length]
  rw [if_neg (by omega)]
  unfold convValidGe
  simp only [padEdge_length]
  rw [at0_of_lt _ _ (by simp; omega)]
  simp only [List.getElem_map, List.getElem_range]
  unfold fullConvAt
  congr 1
  apply List.map_congr_left
  intro j hj
  have hj' : j < psf.length := List.mem_range.mp hj
  rw [if_pos (by omega), padEdge_interior _ _ _ _ (by omega) (by omega)]
  congr 2
  omega


/-! ## linspace and normalisation -/

/-- `np.linspace(a, b, 1) = [a]` (the stop is not used; in the model the step `(b − a)/0` is multiplied by 0) -/
theorem linspace_one (a b : Rat) : linspace a b 1 = [a] := by
  simp [linspace]

/-- `np.linspace(a, b, 0)` is empty -/
theorem linspace_zero (a b : Rat) : linspace a b 0 = [] := by
  simp [linspace]

/-- for `n ≥ 2`: `linspace a b n` has `n` entries, entry `i` is `a + i·(b − a)/(n − 1)` (the overwritten last
entry included), it starts at `a`, ends at `b` and consecutive entries differ by `(b − a)/(n − 1)` -/
theorem linspace_spec (a b : Rat) (n : Nat) (hn : 2 ≤ n) :
    (linspace a b n).length = n ∧
    (∀ i, i < n → at0 (linspace a b n) i = a + (i : Rat) * ((b - a) / ((n : Rat) - 1))) ∧
    at0 (linspace a b n) 0 = a ∧ at0 (linspace a b n) (n - 1) = b ∧
    (∀ i, i + 1 < n → at0 (linspace a b n) (i + 1) - at0 (linspace a b n) i = (b - a) / ((n : Rat) - 1)) := by
  have hlen : (linspace a b n).length = n := by simp [linspace]
  have hat : ∀ i, i < n → at0 (linspace a b n) i = a + (i : Rat) * ((b - a) / ((n : Rat) - 1)) := by
    intro i hi
    rw [at0_of_lt _ _ (by rw [hlen]; exact hi)]
    simp only [linspace, List.getElem_map, List.getElem_range]
    split
    · rename_i h
      have hn : (n : Rat) - 1 = (i : Rat) := by
        have : n = i + 1 := h.2.symm
        subst this; push_cast; ring
      have hi0 : (i : Rat) ≠ 0 := by
        have : 0 < i := by omega
        exact_mod_cast this.ne'
      rw [hn]; field_simp; ring
    · rfl
  refine ⟨hlen, hat, ?_, ?_, ?_⟩
  · rw [hat 0 (by omega)]; simp
  · rw [hat (n - 1) (by omega)]
    have h1 : ((n - 1 : Nat) : Rat) = (n : Rat) - 1 := by
      rw [Nat.cast_sub (by omega)]; simp
    have h2 : (n : Rat) - 1 ≠ 0 := by
      have : (2 : Rat) ≤ (n : Rat) := by exact_mod_cast hn
      linarith
    rw [h1]; field_simp; ring
  · intro i hi
    rw [hat (i + 1) hi, hat i (by omega)]
    push_cast; ring

example : linspace 0 1 5 = [0, 1 / 4, 1 / 2, 3 / 4, 1] := by decide +kernel

/-- dividing finite non-negative values with a positive sum by that sum gives the same number of
weights, each in [0, 1], that sum to one -/
theorem normalise_sums_to_one (y : List Rat) (h0 : ∀ v ∈ y, 0 ≤ v) (hs : 0 < y.sum) :
    (normalise y).length = y.length ∧ (normalise y).sum = 1 ∧ ∀ w ∈ normalise y, 0 ≤ w ∧ w ≤ 1 := by
  unfold normalise
  refine ⟨by simp, ?_, ?_⟩
  · rw [sum_map_div]; exact div_self hs.ne'
  · intro w hw
    obtain ⟨v, hv, rfl⟩ := List.mem_map.mp hw
    refine ⟨div_nonneg (h0 v hv) hs.le, ?_⟩
    rw [div_le_one hs]
    exact List.single_le_sum h0 v hv

example : normalise [1, 3, 0, 4] = [1 / 8, 3 / 8, 0, 1 / 2] := by norm_num [normalise]

/-! ## kernel generators -/

/-- THE GENERATOR BODY, for a density with values in any ordered field (ℝ for the eight generators built from
exp / log / powers): if the density is non-negative on the axis and positive at one axis point, the result has
one row per axis point, its first column is the axis, its second column is the density divided by its sum,
and those weights lie in [0, 1] and sum to one.  The two hypotheses are what is NOT proved for the eight
transcendental densities (they are properties of `exp` and of real powers). -/
theorem kernelWith_spec {K : Type} [Field K] [LinearOrder K] [IsStrictOrderedRing K]
    (axis : List Rat) (pdf : Rat → K) (h0 : ∀ x ∈ axis, 0 ≤ pdf x) (h1 : ∃ x ∈ axis, 0 < pdf x) :
    (kernelWith axis pdf).length = axis.length ∧
    (kernelWith axis pdf).map Prod.fst = axis ∧
    (kernelWith axis pdf).map Prod.snd = axis.map (fun x => pdf x / (axis.map pdf).sum) ∧
    ((kernelWith axis pdf).map Prod.snd).sum = 1 ∧
    ∀ w ∈ (kernelWith axis pdf).map Prod.snd, 0 ≤ w ∧ w ≤ 1 := by
  have hy0 : ∀ v ∈ axis.map pdf, 0 ≤ v := by
    intro v hv
    obtain ⟨x, hx, rfl⟩ := List.mem_map.mp hv
    exact h0 x hx
  have hs : 0 < (axis.map pdf).sum := by
    obtain ⟨x, hx, hpos⟩ := h1
    exact lt_of_lt_of_le hpos (List.single_le_sum hy0 _ (List.mem_map_of_mem hx))
  have hsnd : (kernelWith axis pdf).map Prod.snd = axis.map (fun x => pdf x / (axis.map pdf).sum) := by
    unfold kernelWith stackCols normaliseK
    rw [List.map_snd_zip (by simp)]
    simp [List.map_map, Function.comp_def]
  refine ⟨by simp [kernelWith, stackCols, normaliseK], ?_, hsnd, ?_, ?_⟩
  · unfold kernelWith stackCols normaliseK
    rw [List.map_fst_zip (by simp)]
  · rw [hsnd]
    have : axis.map (fun x => pdf x / (axis.map pdf).sum) = (axis.map pdf).map (· / (axis.map pdf).sum) := by
      simp [List.map_map, Function.comp_def]
    rw [this, sum_map_div_field]
    exact div_self hs.ne'
  · intro w hw
    rw [hsnd] at hw
    obtain ⟨x, hx, rfl⟩ := List.mem_map.mp hw
    refine ⟨div_nonneg (h0 x hx) hs.le, ?_⟩
    rw [div_le_one hs]
    exact List.single_le_sum hy0 _ (List.mem_map_of_mem hx)

/-- every generator (`betaWith`, `exponentialWith`, `inversegammaWith`, `laplaceWith`, `loglaplaceWith`,
`lognormalWith`, `normalWith`, `superGaussianWith` and `triangular` are `generatorWith` at their axis kind):
`size` rows, the first column is the `linspace` axis of its kind, the weights lie in [0, 1] and sum to one —
given a density that is non-negative on the axis and positive somewhere on it -/
theorem generator_spec {K : Type} [Field K] [LinearOrder K] [IsStrictOrderedRing K]
    (kind : AxisKind) (pdf : Rat → K) (size : Nat) (scale shift : Rat)
    (h0 : ∀ x ∈ axisOf kind size scale shift, 0 ≤ pdf x) (h1 : ∃ x ∈ axisOf kind size scale shift, 0 < pdf x) :
    (generatorWith kind pdf size scale shift).length = size ∧
    (generatorWith kind pdf size scale shift).map Prod.fst = axisOf kind size scale shift ∧
    ((generatorWith kind pdf size scale shift).map Prod.snd).sum = 1 ∧
    ∀ w ∈ (generatorWith kind pdf size scale shift).map Prod.snd, 0 ≤ w ∧ w ≤ 1 := by
  obtain ⟨hl, hf, _, hs, hw⟩ := kernelWith_spec (axisOf kind size scale shift) pdf h0 h1
  refine ⟨?_, hf, hs, hw⟩
  unfold generatorWith
  rw [hl]
  cases kind <;> simp [axisOf, axisUnit, axisPos, axisSym, linspace]

/-- an everywhere positive density (what `exp` gives the exponential, Laplace, normal and super-Gaussian
generators for a positive width) needs only a non-empty axis -/
theorem generator_spec_of_pos {K : Type} [Field K] [LinearOrder K] [IsStrictOrderedRing K]
    (kind : AxisKind) (pdf : Rat → K) (size : Nat) (scale shift : Rat) (hsize : 0 < size)
    (hpos : ∀ x, 0 < pdf x) :
    (generatorWith kind pdf size scale shift).length = size ∧
    (generatorWith kind pdf size scale shift).map Prod.fst = axisOf kind size scale shift ∧
    ((generatorWith kind pdf size scale shift).map Prod.snd).sum = 1 ∧
    ∀ w ∈ (generatorWith kind pdf size scale shift).map Prod.snd, 0 ≤ w ∧ w ≤ 1 := by
  apply generator_spec
  · intro x _; exact (hpos x).le
  · have hlen : (axisOf kind size scale shift).length = size := by
      cases kind <;> simp [axisOf, axisUnit, axisPos, axisSym, linspace]
    obtain ⟨x, hx⟩ := List.exists_mem_of_length_pos (by rw [hlen]; exact hsize)
    exact ⟨x, hx, hpos x⟩

example : ((generatorWith (K := Rat) .pos (fun x => 1 / (1 + x ^ 2)) 3 1 0).map Prod.snd).sum = 1 :=
  (generator_spec_of_pos .pos (fun x : Rat => 1 / (1 + x ^ 2)) 3 1 0 (by norm_num)
    (fun x => by show (0 : Rat) < 1 / (1 + x ^ 2); positivity)).2.2.1

/-! ### the triangular generator, proved completely -/

/-- the coded triangular density is non-negative for every `a < b` (wherever 0 lies) -/
theorem triangularPdf_nonneg (a b x : Rat) (hab : a < b) : 0 ≤ triangularPdf a b x := by
  unfold triangularPdf
  split
  · exact le_refl 0
  · rename_i h
    rw [not_or, not_lt, not_lt] at h
    obtain ⟨h1, h2⟩ := h
    split
    · exact div_nonneg (by norm_num) (by linarith)
    · split
      · rename_i hx0 hxn
        apply div_nonneg (by linarith)
        exact (mul_pos_of_neg_of_neg (by linarith) (by linarith)).le
      · rename_i hx0 hxn
        have hxp : 0 < x := lt_of_le_of_ne (not_lt.mp hxn) (Ne.symm hx0)
        apply div_nonneg (by linarith)
        exact (mul_pos (by linarith) (by linarith)).le

/-- … and positive exactly on the support minus the two foot points (`x = a < 0`, `x = b > 0`) -/
theorem triangularPdf_pos_iff (a b x : Rat) (hab : a < b) :
    0 < triangularPdf a b x ↔ a ≤ x ∧ x ≤ b ∧ ¬(x = a ∧ a < 0) ∧ ¬(x = b ∧ 0 < b) := by
  unfold triangularPdf
  split
  · rename_i h
    constructor
    · intro h'; exact absurd h' (lt_irrefl 0)
    · rintro ⟨h1, h2, _, _⟩
      rcases h with h | h <;> linarith
  · rename_i h
    rw [not_or, not_lt, not_lt] at h
    obtain ⟨h1, h2⟩ := h
    split
    · rename_i hx0
      subst hx0
      constructor
      · intro _
        exact ⟨h1, h2, fun ⟨e, l⟩ => by linarith, fun ⟨e, l⟩ => by linarith⟩
      · intro _; exact div_pos (by norm_num) (by linarith)
    · split
      · rename_i hx0 hxn
        have hden : 0 < a * (a - b) := mul_pos_of_neg_of_neg (by linarith) (by linarith)
        constructor
        · intro hp
          refine ⟨h1, h2, ?_, fun ⟨e, l⟩ => by linarith⟩
          rintro ⟨e, _⟩
          subst e
          simp at hp
        · rintro ⟨_, _, hna, _⟩
          have : a < x := lt_of_le_of_ne h1 (fun e => hna ⟨e.symm, by linarith⟩)
          exact div_pos (by linarith) hden
      · rename_i hx0 hxn
        have hxp : 0 < x := lt_of_le_of_ne (not_lt.mp hxn) (Ne.symm hx0)
        have hden : 0 < b * (b - a) := mul_pos (by linarith) (by linarith)
        constructor
        · intro hp
          refine ⟨h1, h2, fun ⟨e, l⟩ => by linarith, ?_⟩
          rintro ⟨e, _⟩
          subst e
          simp at hp
        · rintro ⟨_, _, _, hnb⟩
          have : x < b := lt_of_le_of_ne h2 (fun e => hnb ⟨e, by linarith⟩)
          exact div_pos (by linarith) hden

/-- `triangular(size, a, b, scale, shift)` for `a < b` and an axis point strictly inside `(a, b)`: `size` rows,
first column the axis `linspace(−size/2·scale + shift, size/2·scale + shift, size)`, second column weights in
[0, 1] that sum to one.  Nothing is assumed about the density: this generator is proved completely. -/
theorem triangular_spec (size : Nat) (a b scale shift : Rat) (hab : a < b)
    (hpt : ∃ x ∈ axisSym size scale shift, a < x ∧ x < b) :
    (triangular size a b scale shift).length = size ∧
    (triangular size a b scale shift).map Prod.fst = axisSym size scale shift ∧
    ((triangular size a b scale shift).map Prod.snd).sum = 1 ∧
    ∀ w ∈ (triangular size a b scale shift).map Prod.snd, 0 ≤ w ∧ w ≤ 1 := by
  unfold triangular
  apply generator_spec .sym (triangularPdf a b) size scale shift
  · intro x _; exact triangularPdf_nonneg a b x hab
  · obtain ⟨x, hx, h1, h2⟩ := hpt
    refine ⟨x, hx, ?_⟩
    rw [triangularPdf_pos_iff a b x hab]
    exact ⟨h1.le, h2.le, fun ⟨e, _⟩ => by linarith, fun ⟨e, _⟩ => by linarith⟩

example : (triangular 5 (-2) 2 1 0).map Prod.snd = [0, 3 / 14, 4 / 7, 3 / 14, 0] := by decide +kernel

example : 0 < triangularPdf (-2) 2 (-5 / 4) := by
  rw [triangularPdf_pos_iff (-2) 2 (-5 / 4) (by norm_num)]; norm_num

example : ((triangular 4 (-1) 1 1 0).map Prod.snd).sum = 1 :=
  (triangular_spec 4 (-1) 1 1 0 (by norm_num) ⟨-2 / 3, by decide +kernel, by norm_num, by norm_num⟩).2.2.1

/-- an ascending `linspace` whose spacing is below `b − a` has a point strictly inside `(a, b)` as soon as the
interval and the axis overlap -/
theorem linspace_hits (lo hi a b : Rat) (n : Nat) (hn : 2 ≤ n) (hlh : lo < hi)
    (hstep : (hi - lo) / ((n : Rat) - 1) < b - a) (h1 : lo < b) (h2 : a < hi) :
    ∃ x ∈ linspace lo hi n, a < x ∧ x < b := by
  obtain ⟨hlen, hat, h0, _, _⟩ := linspace_spec lo hi n hn
  have hn1 : (0 : Rat) < (n : Rat) - 1 := by
    have : (2 : Rat) ≤ (n : Rat) := by exact_mod_cast hn
    linarith
  have hpos : 0 < (hi - lo) / ((n : Rat) - 1) := div_pos (by linarith) hn1
  have mem : ∀ i, i < n → at0 (linspace lo hi n) i ∈ linspace lo hi n := by
    intro i hi'
    rw [at0_of_lt _ _ (by rw [hlen]; exact hi')]
    exact List.getElem_mem _
  by_cases hc : a < lo
  · have hm0 : lo ∈ linspace lo hi n := by
      have := mem 0 (by omega)
      rwa [h0] at this
    exact ⟨lo, hm0, hc, h1⟩
  · have hc' : lo ≤ a := not_lt.mp hc
    generalize hh : (hi - lo) / ((n : Rat) - 1) = h at hpos hstep hat
    have hnh : ((n : Rat) - 1) * h = hi - lo := by rw [← hh]; field_simp
    have ht0 : 0 ≤ (a - lo) / h := div_nonneg (by linarith) hpos.le
    have hth : (a - lo) / h * h = a - lo := div_mul_cancel₀ _ hpos.ne'
    have htn : (a - lo) / h < (n : Rat) - 1 := by
      rw [div_lt_iff₀ hpos]; linarith
    have hfl : (⌊(a - lo) / h⌋₊ : Rat) ≤ (a - lo) / h := Nat.floor_le ht0
    have hfu : (a - lo) / h < (⌊(a - lo) / h⌋₊ : Rat) + 1 := Nat.lt_floor_add_one _
    have hi_lt : ⌊(a - lo) / h⌋₊ + 1 < n := by
      have : ((⌊(a - lo) / h⌋₊ + 1 : Nat) : Rat) < (n : Rat) := by push_cast; linarith
      exact_mod_cast this
    refine ⟨at0 (linspace lo hi n) (⌊(a - lo) / h⌋₊ + 1), mem _ hi_lt, ?_, ?_⟩
    · rw [hat _ hi_lt]
      push_cast
      have : (a - lo) / h * h < ((⌊(a - lo) / h⌋₊ : Rat) + 1) * h := mul_lt_mul_of_pos_right hfu hpos
      linarith
    · rw [hat _ hi_lt]
      push_cast
      have : ((⌊(a - lo) / h⌋₊ : Rat) + 1) * h ≤ ((a - lo) / h + 1) * h :=
        mul_le_mul_of_nonneg_right (by linarith) hpos.le
      linarith

/-- the triangular generator from its parameters alone: `a < b`, at least two points, a positive scale, an axis
spacing `size·scale/(size − 1)` below `b − a`, and a support that overlaps the axis -/
theorem triangular_spec_of_params (size : Nat) (a b scale shift : Rat) (hab : a < b) (hn : 2 ≤ size)
    (hsc : 0 < scale) (hstep : (size : Rat) * scale / ((size : Rat) - 1) < b - a)
    (h1 : -(size : Rat) * (1 / 2) * scale + shift < b) (h2 : a < (size : Rat) * (1 / 2) * scale + shift) :
    (triangular size a b scale shift).length = size ∧
    (triangular size a b scale shift).map Prod.fst = axisSym size scale shift ∧
    ((triangular size a b scale shift).map Prod.snd).sum = 1 ∧
    ∀ w ∈ (triangular size a b scale shift).map Prod.snd, 0 ≤ w ∧ w ≤ 1 := by
  apply triangular_spec size a b scale shift hab
  unfold axisSym
  have hs : (0 : Rat) < (size : Rat) := by
    have : (2 : Rat) ≤ (size : Rat) := by exact_mod_cast hn
    linarith
  apply linspace_hits _ _ a b size hn
  · nlinarith
  · have e : (size : Rat) * (1 / 2) * scale + shift - (-(size : Rat) * (1 / 2) * scale + shift)
        = (size : Rat) * scale := by ring
    rw [e]; exact hstep
  · exact h1
  · exact h2

/-- the repo's own table: `triangular(10, -5, 5)` -/
example : ((triangular 10 (-5) 5 1 0).map Prod.snd).sum = 1 :=
  (triangular_spec_of_params 10 (-5) 5 1 0 (by norm_num) (by norm_num) (by norm_num) (by norm_num)
    (by norm_num) (by norm_num)).2.2.1

/-- an odd size of at least three puts `shift` itself on the axis (the centre point): `a < shift < b` is
enough, whatever the scale (zero and negative included) -/
theorem triangular_spec_odd (k : Nat) (hk : 1 ≤ k) (a b scale shift : Rat) (h1 : a < shift) (h2 : shift < b) :
    (triangular (2 * k + 1) a b scale shift).length = 2 * k + 1 ∧
    (triangular (2 * k + 1) a b scale shift).map Prod.fst = axisSym (2 * k + 1) scale shift ∧
    ((triangular (2 * k + 1) a b scale shift).map Prod.snd).sum = 1 ∧
    ∀ w ∈ (triangular (2 * k + 1) a b scale shift).map Prod.snd, 0 ≤ w ∧ w ≤ 1 := by
  apply triangular_spec _ a b scale shift (by linarith)
  obtain ⟨hlen, hat, _, _, _⟩ := linspace_spec (-((2 * k + 1 : Nat) : Rat) * (1 / 2) * scale + shift)
    (((2 * k + 1 : Nat) : Rat) * (1 / 2) * scale + shift) (2 * k + 1) (by omega)
  have hmid : at0 (axisSym (2 * k + 1) scale shift) k = shift := by
    unfold axisSym
    rw [hat k (by omega)]
    have hk0 : (k : Rat) ≠ 0 := by
      have : 0 < k := hk
      exact_mod_cast this.ne'
    push_cast
    field_simp
    ring
  have hmem : at0 (axisSym (2 * k + 1) scale shift) k ∈ axisSym (2 * k + 1) scale shift := by
    rw [at0_of_lt _ _ (by unfold axisSym; rw [hlen]; omega)]
    exact List.getElem_mem _
  rw [hmid] at hmem
  exact ⟨shift, hmem, h1, h2⟩

example : ((triangular 3 (-1 / 3) (1 / 7) (-2) 0).map Prod.snd).sum = 1 :=
  (triangular_spec_odd 1 (by norm_num) (-1 / 3) (1 / 7) (-2) 0 (by norm_num) (by norm_num)).2.2.1

/-! ### the eight generators built from `exp`, `log`, real powers and `sqrt(2π)`

`S : Special K` holds those functions; `S.Sound` says `exp` is positive, a power of a positive base is positive,
`0 ** y ≥ 0`, `sqrt(2π) > 0` and `ofRat` is the embedding of ℚ.  Under `S.Sound` every density is positive on
its support for every parameter of the documented domain (the gamma approximation inside `beta_pdf` and
`inversegamma_pdf` is proved positive, `gammaApprox_pos`), so each generator returns `size` rows over its
`linspace` axis with weights in [0, 1] that sum to one.  `realSpecial_sound` discharges `S.Sound` for the real
functions.  (Exact real arithmetic: underflow of a float `exp` to 0 is outside these statements.) -/

section densities
variable {K : Type} [Field K] [LinearOrder K] [IsStrictOrderedRing K] {S : Special K}

theorem exponentialPdf_pos (hS : S.Sound) (lam x : Rat) (hl : 0 < lam) : 0 < exponentialPdf S lam x := by
  unfold exponentialPdf
  rw [hS.cast]
  exact mul_pos (by exact_mod_cast hl) (hS.exp_pos _)

theorem laplacePdf_pos (hS : S.Sound) (b mu x : Rat) (hb : 0 < b) : 0 < laplacePdf S b mu x := by
  unfold laplacePdf
  rw [hS.cast]
  have : (0 : Rat) < 1 / (2 * b) := by positivity
  exact mul_pos (by exact_mod_cast this) (hS.exp_pos _)

theorem normalPdf_pos (hS : S.Sound) (sigma mu x : Rat) (hs : 0 < sigma) : 0 < normalPdf S sigma mu x := by
  unfold normalPdf
  rw [hS.cast, hS.cast]
  have h1 : (0 : K) < (sigma : K) := by exact_mod_cast hs
  have := hS.s2pi_pos
  exact mul_pos (by push_cast; positivity) (hS.exp_pos _)

theorem superGaussianPdf_pos (hS : S.Sound) (sigma mu : Rat) (power : Nat) (x : Rat) (hs : 0 < sigma) :
    0 < superGaussianPdf S sigma mu power x := by
  unfold superGaussianPdf
  rw [hS.cast, hS.cast]
  have h1 : (0 : K) < (sigma : K) := by exact_mod_cast hs
  have := hS.s2pi_pos
  exact mul_pos (by push_cast; positivity) (hS.exp_pos _)

theorem lognormalPdf_pos (hS : S.Sound) (sigma mu x : Rat) (hs : 0 < sigma) (hx : 0 < x) :
    0 < lognormalPdf S sigma mu x := by
  unfold lognormalPdf
  simp only []
  rw [hS.cast 1, hS.cast (x * sigma)]
  have h1 : (0 : K) < ((x * sigma : Rat) : K) := by exact_mod_cast mul_pos hx hs
  have := hS.s2pi_pos
  exact mul_pos (by push_cast at h1 ⊢; positivity) (hS.exp_pos _)

theorem loglaplacePdf_pos (hS : S.Sound) (b mu x : Rat) (hb : 0 < b) (hx : 0 < x) :
    0 < loglaplacePdf S b mu x := by
  unfold loglaplacePdf
  rw [hS.cast (1 / (2 * b * x))]
  have : (0 : Rat) < 1 / (2 * b * x) := by positivity
  exact mul_pos (by exact_mod_cast this) (hS.exp_pos _)

theorem inversegammaPdf_pos (hS : S.Sound) (alpha beta x : Rat) (ha : 0 < alpha) (hb : 0 < beta) (hx : 0 < x) :
    0 < inversegammaPdf S alpha beta x := by
  unfold inversegammaPdf
  rw [hS.cast beta, hS.cast x, hS.cast (gammaApprox alpha)]
  have hg : (0 : K) < ((gammaApprox alpha : Rat) : K) := by exact_mod_cast gammaApprox_pos alpha ha
  have hbK : (0 : K) < (beta : K) := by exact_mod_cast hb
  have hxK : (0 : K) < (x : K) := by exact_mod_cast hx
  exact mul_pos (mul_pos (div_pos (hS.rpow_pos _ _ hbK) hg) (hS.rpow_pos _ _ hxK)) (hS.exp_pos _)

theorem betaNorm_pos (alpha beta : Rat) (ha : 0 < alpha) (hb : 0 < beta) :
    0 < gammaApprox alpha * gammaApprox beta / gammaApprox (alpha + beta) :=
  div_pos (mul_pos (gammaApprox_pos _ ha) (gammaApprox_pos _ hb)) (gammaApprox_pos _ (by linarith))

theorem betaPdf_nonneg (hS : S.Sound) (alpha beta x : Rat) (ha : 0 < alpha) (hb : 0 < beta)
    (h0 : 0 ≤ x) (h1 : x ≤ 1) : 0 ≤ betaPdf S alpha beta x := by
  unfold betaPdf
  rw [hS.cast x, hS.cast (1 - x), hS.cast (gammaApprox alpha * gammaApprox beta / gammaApprox (alpha + beta))]
  have hB : (0 : K) < ((gammaApprox alpha * gammaApprox beta / gammaApprox (alpha + beta) : Rat) : K) := by
    exact_mod_cast betaNorm_pos alpha beta ha hb
  have p : ∀ (t : Rat) (y : K), 0 ≤ t → 0 ≤ S.rpow (t : K) y := by
    intro t y ht
    rcases ht.lt_or_eq with h | h
    · exact (hS.rpow_pos _ y (by exact_mod_cast h)).le
    · subst h; simpa using hS.rpow_zero_nonneg y
  exact div_nonneg (mul_nonneg (p x _ h0) (p (1 - x) _ (by linarith))) hB.le

theorem betaPdf_pos (hS : S.Sound) (alpha beta x : Rat) (ha : 0 < alpha) (hb : 0 < beta)
    (h0 : 0 < x) (h1 : x < 1) : 0 < betaPdf S alpha beta x := by
  unfold betaPdf
  rw [hS.cast x, hS.cast (1 - x), hS.cast (gammaApprox alpha * gammaApprox beta / gammaApprox (alpha + beta))]
  have hB : (0 : K) < ((gammaApprox alpha * gammaApprox beta / gammaApprox (alpha + beta) : Rat) : K) := by
    exact_mod_cast betaNorm_pos alpha beta ha hb
  have hx : (0 : K) < (x : K) := by exact_mod_cast h0
  have hx1 : (0 : K) < ((1 - x : Rat) : K) := by
    have : (0 : Rat) < 1 - x := by linarith
    exact_mod_cast this
  exact div_pos (mul_pos (hS.rpow_pos _ _ hx) (hS.rpow_pos _ _ hx1)) hB

end densities

/-- what the property asks of a generator's return value: `size` rows, the first column is the axis, the
weights lie in [0, 1] and sum to one -/
def IsKernel {K : Type} [Field K] [LinearOrder K] (rows : List (Rat × K)) (size : Nat) (axis : List Rat) : Prop :=
  rows.length = size ∧ rows.map Prod.fst = axis ∧ (rows.map Prod.snd).sum = 1 ∧
    ∀ w ∈ rows.map Prod.snd, 0 ≤ w ∧ w ≤ 1

section generators
variable {K : Type} [Field K] [LinearOrder K] [IsStrictOrderedRing K] {S : Special K}

/-- `exponential(size, λ, scale, shift)`: every `λ > 0`, every size ≥ 1, every scale and shift -/
theorem exponential_isKernel (hS : S.Sound) (size : Nat) (lam scale shift : Rat) (hn : 0 < size) (hl : 0 < lam) :
    IsKernel (exponential S size lam scale shift) size (axisPos size scale shift) :=
  generator_spec_of_pos .pos _ size scale shift hn (fun x => exponentialPdf_pos hS lam x hl)

/-- `laplace(size, b, mu, scale, shift)`: every `b > 0` -/
theorem laplace_isKernel (hS : S.Sound) (size : Nat) (b mu scale shift : Rat) (hn : 0 < size) (hb : 0 < b) :
    IsKernel (laplace S size b mu scale shift) size (axisSym size scale shift) :=
  generator_spec_of_pos .sym _ size scale shift hn (fun x => laplacePdf_pos hS b mu x hb)

/-- `normal(size, sigma, mu, scale, shift)`: every `sigma > 0` -/
theorem normal_isKernel (hS : S.Sound) (size : Nat) (sigma mu scale shift : Rat) (hn : 0 < size) (hs : 0 < sigma) :
    IsKernel (normal S size sigma mu scale shift) size (axisSym size scale shift) :=
  generator_spec_of_pos .sym _ size scale shift hn (fun x => normalPdf_pos hS sigma mu x hs)

/-- `super_gaussian(size, sigma, mu, power, scale, shift)`: every `sigma > 0`, every integer power -/
theorem superGaussian_isKernel (hS : S.Sound) (size : Nat) (sigma mu : Rat) (power : Nat) (scale shift : Rat)
    (hn : 0 < size) (hs : 0 < sigma) :
    IsKernel (superGaussian S size sigma mu power scale shift) size (axisSym size scale shift) :=
  generator_spec_of_pos .sym _ size scale shift hn (fun x => superGaussianPdf_pos hS sigma mu power x hs)

/-- an axis `linspace(shift, size·scale + shift, size)` with both end points positive is positive throughout -/
theorem axisPos_pos (size : Nat) (scale shift : Rat) (h0 : 0 < shift) (h1 : 0 < (size : Rat) * scale + shift) :
    ∀ x ∈ axisPos size scale shift, 0 < x := by
  intro x hx
  have := (linspace_mem_between _ _ _ x hx).1
  have hm : 0 < min shift ((size : Rat) * scale + shift) := lt_min h0 h1
  linarith

/-- a density that is positive on the positive axis (log-normal, log-Laplace, inverse gamma) -/
theorem posAxis_isKernel (pdf : Rat → K) (size : Nat) (scale shift : Rat) (hn : 0 < size)
    (h0 : 0 < shift) (h1 : 0 < (size : Rat) * scale + shift) (hpdf : ∀ x : Rat, 0 < x → 0 < pdf x) :
    IsKernel (generatorWith .pos pdf size scale shift) size (axisPos size scale shift) := by
  apply generator_spec .pos pdf size scale shift
  · intro x hx; exact (hpdf x (axisPos_pos size scale shift h0 h1 x hx)).le
  · have hlen : (axisPos size scale shift).length = size := by simp [axisPos, linspace]
    obtain ⟨x, hx⟩ := List.exists_mem_of_length_pos (by rw [hlen]; exact hn)
    exact ⟨x, hx, hpdf x (axisPos_pos size scale shift h0 h1 x hx)⟩

/-- `lognormal(size, sigma, mu, scale, shift)`: `sigma > 0`, the axis inside `x > 0` -/
theorem lognormal_isKernel (hS : S.Sound) (size : Nat) (sigma mu scale shift : Rat) (hn : 0 < size) (hs : 0 < sigma)
    (h0 : 0 < shift) (h1 : 0 < (size : Rat) * scale + shift) :
    IsKernel (lognormal S size sigma mu scale shift) size (axisPos size scale shift) :=
  posAxis_isKernel _ size scale shift hn h0 h1 (fun x hx => lognormalPdf_pos hS sigma mu x hs hx)

/-- `loglaplace(size, b, mu, scale, shift)`: `b > 0`, the axis inside `x > 0` -/
theorem loglaplace_isKernel (hS : S.Sound) (size : Nat) (b mu scale shift : Rat) (hn : 0 < size) (hb : 0 < b)
    (h0 : 0 < shift) (h1 : 0 < (size : Rat) * scale + shift) :
    IsKernel (loglaplace S size b mu scale shift) size (axisPos size scale shift) :=
  posAxis_isKernel _ size scale shift hn h0 h1 (fun x hx => loglaplacePdf_pos hS b mu x hb hx)

/-- `inversegamma(size, alpha, beta, scale, shift)`: `alpha, beta > 0`, the axis inside `x > 0` -/
theorem inversegamma_isKernel (hS : S.Sound) (size : Nat) (alpha beta scale shift : Rat) (hn : 0 < size)
    (ha : 0 < alpha) (hb : 0 < beta) (h0 : 0 < shift) (h1 : 0 < (size : Rat) * scale + shift) :
    IsKernel (inversegamma S size alpha beta scale shift) size (axisPos size scale shift) :=
  posAxis_isKernel _ size scale shift hn h0 h1 (fun x hx => inversegammaPdf_pos hS alpha beta x ha hb hx)

/-- `beta(size, alpha, beta, scale, shift)`: `alpha, beta > 0` (the property restricts to shapes ≥ 1 so that the
density is finite at 0 and 1; in exact arithmetic positivity needs only > 0), at least three points, the axis
`linspace(shift, scale + shift, size)` inside [0, 1] and not a single point -/
theorem beta_isKernel (hS : S.Sound) (size : Nat) (alpha beta_ scale shift : Rat) (hn : 3 ≤ size)
    (ha : 0 < alpha) (hb : 0 < beta_) (hsc : scale ≠ 0) (h0 : 0 ≤ shift) (h0' : shift ≤ 1)
    (h1 : 0 ≤ 1 * scale + shift) (h1' : 1 * scale + shift ≤ 1) :
    IsKernel (beta S size alpha beta_ scale shift) size (axisUnit size scale shift) := by
  apply generator_spec .unit _ size scale shift
  · intro x hx
    obtain ⟨hlo, hhi⟩ := linspace_mem_between _ _ _ x hx
    have : 0 ≤ min shift (1 * scale + shift) := le_min h0 h1
    have : max shift (1 * scale + shift) ≤ 1 := max_le h0' h1'
    exact betaPdf_nonneg hS alpha beta_ x ha hb (by linarith) (by linarith)
  · obtain ⟨x, hx, hlo, hhi⟩ := linspace_second_strict shift (1 * scale + shift) size hn
      (by intro h; apply hsc; linarith)
    have : 0 ≤ min shift (1 * scale + shift) := le_min h0 h1
    have : max shift (1 * scale + shift) ≤ 1 := max_le h0' h1'
    exact ⟨x, hx, betaPdf_pos hS alpha beta_ x ha hb (by linarith) (by linarith)⟩

end generators

/-- with the real `exp`, `log`, powers and `√(2π)` nothing is left to assume: e.g. the normal and the beta
generator over ℝ, for every parameter of their domains -/
theorem normal_real (size : Nat) (sigma mu scale shift : Rat) (hn : 0 < size) (hs : 0 < sigma) :
    IsKernel (normal realSpecial size sigma mu scale shift) size (axisSym size scale shift) :=
  normal_isKernel realSpecial_sound size sigma mu scale shift hn hs

theorem beta_real (size : Nat) (alpha beta_ : Rat) (hn : 3 ≤ size) (ha : 0 < alpha) (hb : 0 < beta_) :
    IsKernel (beta realSpecial size alpha beta_ 1 0) size (axisUnit size 1 0) :=
  beta_isKernel realSpecial_sound size alpha beta_ 1 0 hn ha hb (by norm_num) (by norm_num) (by norm_num)
    (by norm_num) (by norm_num)

/-- a `Special` over ℚ that is `Sound` (so the hypotheses are satisfiable with computable functions too) -/
example : (⟨fun q => q, fun _ => 1, fun t => t, fun _ _ => 1, fun t => t, 1⟩ : Special Rat).Sound :=
  ⟨fun _ => rfl, fun _ => one_pos, fun _ _ _ => one_pos, fun _ => zero_le_one, one_pos⟩

/-! ## deconvolution -/

/-- series division by a kernel whose first tap is non-zero recovers the signal from its full
convolution: the first `r` coefficients of the quotient are the signal, then zeros -/
theorem deconv_conv (x psf : List Rat) (h0 : at0 psf 0 ≠ 0) (r : Nat) :
    seriesDiv (fullConv x psf) psf r = (List.range r).map (at0 x) := by
  have hm : 0 < psf.length := by
    by_contra hcon
    exact h0 (at0_of_ge psf 0 (by omega))
  induction r with
  | zero => rfl
  | succ r ih =>
    rw [seriesDiv, ih, map_at0_range_succ]
    congr 2
    rw [at0_fullConv x psf hm r]
    unfold fullConvAt
    obtain ⟨m', hm'⟩ : ∃ m', psf.length = m' + 1 := ⟨psf.length - 1, by omega⟩
    rw [hm', List.range_succ_eq_map]
    simp only [List.map_cons, List.sum_cons, List.map_map]
    have htail : (List.range m').map ((fun j => if j ≤ r then at0 psf j * at0 x (r - j) else 0) ∘ Nat.succ)
        = (List.range m').map ((fun j => if 1 ≤ j ∧ j ≤ r then
            at0 psf j * at0 ((List.range r).map (at0 x)) (r - j) else 0) ∘ Nat.succ) := by
      apply List.map_congr_left
      intro j hj
      simp only [Function.comp, Nat.succ_eq_add_one]
      by_cases hjr : j + 1 ≤ r
      · rw [if_pos hjr, if_pos ⟨by omega, hjr⟩]
        congr 1
        rw [at0_of_lt ((List.range r).map (at0 x)) _ (by rw [List.length_map, List.length_range]; omega)]
        simp
      · rw [if_neg hjr, if_neg (by omega)]
    rw [htail]
    simp only [Nat.zero_le, if_true, Nat.sub_zero]
    have : ¬ (1 ≤ 0 ∧ True) := by omega
    rw [if_neg this]
    field_simp
    ring

/-- the number of samples `deconvolve` returns, for every input: `len c − len psf − 1` when the input is longer
than the kernel; for `len c ≤ len psf` the stop of Python's slice is negative and `r − (len psf + 1 − len c)`
of the `r` (the next power of two) coefficients come back -/
theorem deconvolve_length (c psf : List Rat) :
    (deconvolve c psf).length =
      if psf.length < c.length then c.length - psf.length - 1
      else nextPow2 (max c.length psf.length) - (psf.length + 1 - c.length) := by
  unfold deconvolve
  simp only []
  rw [pySliceTo_length, seriesDiv_length]
  have := le_nextPow2 (max c.length psf.length)
  split <;> split <;> omega

example : (deconvolve [1, 2, 3, 4, 5, 6] [2, 1]).length = 3 := by rw [deconvolve_length]; rfl
example : (deconvolve [4, 2] [2, 1, 5]).length = 2 := by rw [deconvolve_length]; decide

/-- the whole `deconvolve` (series division, the slice `[: len c − len psf − 1]`) applied to the full
convolution of ANY signal of at least two samples — zero samples anywhere included — returns the leading
`n − 2` samples of the signal -/
theorem deconvolve_fullConv_of_two_le (x psf : List Rat) (h0 : at0 psf 0 ≠ 0) (h2 : 2 ≤ x.length) :
    deconvolve (fullConv x psf) psf = x.take (x.length - 2) := by
  have hm : 0 < psf.length := by
    by_contra hcon
    exact h0 (at0_of_ge psf 0 (by omega))
  unfold deconvolve
  simp only []
  rw [deconv_conv x psf h0]
  have hlen : (fullConv x psf).length = x.length + psf.length - 1 := by simp [fullConv]
  have hr : x.length ≤ nextPow2 (max (fullConv x psf).length psf.length) := by
    have := le_nextPow2 (max (fullConv x psf).length psf.length)
    rw [hlen] at this ⊢
    omega
  rw [map_at0_range_ge x _ hr, hlen]
  unfold pySliceTo
  rw [if_pos (by omega)]
  have hk : (((x.length + psf.length - 1 : Nat) : Int) - (psf.length : Int) - 1).toNat = x.length - 2 := by omega
  rw [hk, List.take_append_of_le_length (by omega)]

/-- the deconvolution clause for the property's quantifier (signals at least as long as the kernel):
no hypothesis on the samples -/
theorem deconvolve_fullConv (x psf : List Rat) (h0 : at0 psf 0 ≠ 0) (hne : x ≠ [])
    (hnm : psf.length ≤ x.length) :
    deconvolve (fullConv x psf) psf = x.take (x.length - 2) := by
  have hn : 0 < x.length := List.length_pos_iff.mpr hne
  have hm : 0 < psf.length := by
    by_contra hcon
    exact h0 (at0_of_ge psf 0 (by omega))
  by_cases h2 : 2 ≤ x.length
  · exact deconvolve_fullConv_of_two_le x psf h0 h2
  · -- one sample, one tap: the stop of the slice is −1, of r = 1 coefficients none is left
    have hx1 : x.length = 1 := by omega
    have hp1 : psf.length = 1 := by omega
    have hlen : (fullConv x psf).length = 1 := by simp [fullConv, hx1, hp1]
    have hl : (deconvolve (fullConv x psf) psf).length = 0 := by
      rw [deconvolve_length, hlen, hp1]; decide
    rw [List.length_eq_zero_iff.mp hl, hx1]
    rfl

example : deconvolve (fullConv [5, 3, 8, 1, 9] [2, 1]) [2, 1] = [5, 3, 8] := by
  have := deconvolve_fullConv [5, 3, 8, 1, 9] [2, 1] (by norm_num [at0]) (by simp) (by simp)
  simpa using this

/-- a leading zero, an interior run of zeros: kept -/
example : deconvolve (fullConv [0, 9, 0, 0, 2, 0, 4] [8, 1]) [8, 1] = [0, 9, 0, 0, 2] := by
  have := deconvolve_fullConv [0, 9, 0, 0, 2, 0, 4] [8, 1] (by norm_num [at0]) (by simp) (by simp)
  simpa using this

/-- outside the quantifier (a one-sample signal, a longer kernel) the negative stop of the slice returns the
sample followed by padding zeros: `r − 1` values for a signal of one -/
theorem deconvolve_fullConv_single (v : Rat) (psf : List Rat) (h0 : at0 psf 0 ≠ 0) :
    deconvolve (fullConv [v] psf) psf
      = (v :: List.replicate (nextPow2 psf.length - 1) 0).take (nextPow2 psf.length - 1) := by
  have hm : 0 < psf.length := by
    by_contra hcon
    exact h0 (at0_of_ge psf 0 (by omega))
  unfold deconvolve
  simp only []
  rw [deconv_conv [v] psf h0]
  have hlen : (fullConv [v] psf).length = psf.length := by simp [fullConv]
  rw [hlen, Nat.max_self]
  have hr : ([v] : List Rat).length ≤ nextPow2 psf.length := by
    have := le_nextPow2 psf.length
    simp only [List.length_singleton]; omega
  rw [map_at0_range_ge [v] _ hr]
  unfold pySliceTo
  rw [if_neg (by omega)]
  simp

example : deconvolve (fullConv [7] [4, 2, 1]) [4, 2, 1] = [7, 0, 0] := by
  rw [deconvolve_fullConv_single 7 [4, 2, 1] (by norm_num [at0])]; decide

/-- `mode="same"`: the recovered samples followed by the input from there on -/
theorem deconvolveSame_fullConv (x psf : List Rat) (h0 : at0 psf 0 ≠ 0) (hne : x ≠ [])
    (hnm : psf.length ≤ x.length) :
    deconvolveSame (fullConv x psf) psf = x.take (x.length - 2) ++ (fullConv x psf).drop (x.length - 2) := by
  unfold deconvolveSame
  simp only []
  rw [deconvolve_fullConv x psf h0 hne hnm, List.length_take]
  congr 2
  omega

example : deconvolveSame (fullConv [0, 3, 0, 1] [2, 1]) [2, 1] = [0, 3, 3, 2, 1] := by
  have := deconvolveSame_fullConv [0, 3, 0, 1] [2, 1] (by norm_num [at0]) (by simp) (by simp)
  rw [this]; decide +kernel

/-- REGRESSION (the mechanism before /repo 5e4648b, `np.trim_zeros` before the slice): a signal with an exactly
zero leading sample comes back shifted by one — the first sample is lost, a later one appears in its place -/
theorem deconvolve_old_shifts :
    deconvolveOld (fullConv [0, 9, 5, 43, 2, 27, 4, 15, 24] [8, 1]) [8, 1] = [9, 5, 43, 2, 27, 4, 15] ∧
    deconvolve (fullConv [0, 9, 5, 43, 2, 27, 4, 15, 24] [8, 1]) [8, 1] = [0, 9, 5, 43, 2, 27, 4] := by
  decide +kernel

/-- what the hypothesis `∀ v ∈ x, v ≠ 0` of the earlier `deconvolve_fullConv` hid: the old mechanism is right
exactly as far as the first and the last sample are non-zero -/
theorem deconvolveOld_fullConv (x psf : List Rat) (h0 : at0 psf 0 ≠ 0) (h2 : 2 ≤ x.length)
    (hh : ∀ a, x.head? = some a → a ≠ 0) (hl : ∀ a, x.getLast? = some a → a ≠ 0) :
    deconvolveOld (fullConv x psf) psf = x.take (x.length - 2) := by
  have hm : 0 < psf.length := by
    by_contra hcon
    exact h0 (at0_of_ge psf 0 (by omega))
  unfold deconvolveOld
  simp only []
  rw [deconv_conv x psf h0]
  have hlen : (fullConv x psf).length = x.length + psf.length - 1 := by simp [fullConv]
  have hr : x.length ≤ nextPow2 (max (fullConv x psf).length psf.length) := by
    have := le_nextPow2 (max (fullConv x psf).length psf.length)
    rw [hlen] at this ⊢
    omega
  rw [map_at0_range_ge x _ hr, trimZeros_append_zeros x hh hl, hlen]
  unfold pySliceTo
  rw [if_pos (by omega)]
  congr 1
  omega


example : deconvolveOld (fullConv [5, 0, 0, 1, 9] [2, 1]) [2, 1] = [5, 0, 0] := by
  have := deconvolveOld_fullConv [5, 0, 0, 1, 9] [2, 1] (by norm_num [at0]) (by simp) (by simp) (by simp)
  simpa using this

/-! ## error function approximation -/

theorem sgn_neg (x : Rat) : sgn (-x) = -sgn x := by
  unfold sgn
  rcases lt_trichotomy x 0 with h | h | h
  · rw [if_pos (by linarith), if_neg (by linarith), if_pos h]; ring
  · subst h; simp
  · rw [if_neg (by linarith), if_pos (by linarith), if_pos h]

theorem absR_neg (x : Rat) : absR (-x) = absR x := by
  unfold absR
  rcases lt_trichotomy x 0 with h | h | h
  · rw [if_pos (by linarith), if_neg (by linarith)]
  · subst h; simp
  · rw [if_neg (by linarith), if_pos (by linarith)]; ring

/-- the approximation as coded (sign · (1 − 1/(1 + Σ aᵢ|x|ⁱ)⁴)) is odd -/
theorem erf_odd (x : Rat) : erfApprox (-x) = -erfApprox x := by
  unfold erfApprox
  rw [sgn_neg, absR_neg]; ring

/-- before the repair the polynomial was evaluated at `x` instead of `|x|`; that function is not
odd (x = 1) -/
def erfApproxOld (x : Rat) : Rat := sgn x * (1 - 1 / (1 + erfSum x) ^ 4)

theorem erf_old_not_odd : erfApproxOld (-1) ≠ -erfApproxOld 1 := by
  norm_num [erfApproxOld, erfSum, sgn]

/-- for x ≥ 0 the approximation lies in [0, 1), hence in (−1, 1) for all x by oddness -/
theorem erf_range (x : Rat) (hx : 0 ≤ x) : 0 ≤ erfApprox x ∧ erfApprox x < 1 := by
  have hs : 0 ≤ erfSum x := by unfold erfSum; positivity
  have h1 : (1 : Rat) ≤ (1 + erfSum x) ^ 4 := one_le_pow₀ (by linarith)
  have hpos : (0 : Rat) < (1 + erfSum x) ^ 4 := by linarith
  have hinv : 1 / (1 + erfSum x) ^ 4 ≤ 1 := by rw [div_le_one hpos]; exact h1
  have hinv0 : 0 < 1 / (1 + erfSum x) ^ 4 := by positivity
  unfold erfApprox
  have ha : absR x = x := by unfold absR; rw [if_pos hx]
  rw [ha]
  unfold sgn
  rcases hx.lt_or_eq with h | h
  · rw [if_pos h]; constructor <;> linarith
  · subst h; simp

/-- accuracy on x ≥ 0 against any odd function carries over to all x -/
theorem erf_reduce {K : Type*} [Field K] [LinearOrder K] [IsStrictOrderedRing K]
    (f : Rat → K) (hodd : ∀ x, f (-x) = -f x) (ε : K)
    (h : ∀ x : Rat, 0 ≤ x → |((erfApprox x : Rat) : K) - f x| ≤ ε) :
    ∀ x : Rat, |((erfApprox x : Rat) : K) - f x| ≤ ε := by
  intro x
  rcases le_total 0 x with hx | hx
  · exact h x hx
  · have := h (-x) (by linarith)
    rw [erf_odd, hodd] at this
    have e : ((-erfApprox x : Rat) : K) - -f x = -(((erfApprox x : Rat) : K) - f x) := by push_cast; ring
    rwa [e, abs_neg] at this

/-! ## inverse error function: `erfinv` as coded around π, log1p and sqrt -/

/-- `erfinv` as coded is odd, whatever π, `log1p` and `sqrt` are (any field, any functions): the sign is the only
place the sign of the argument enters, the rest sees `-x * x` -/
theorem erfinv_odd {K : Type} [Field K] (pi : K) (log1p : Rat → K) (sqrt : K → K) (x : Rat) :
    erfinvWith ⟨((↑) : Rat → K), pi, log1p, sqrt⟩ (-x) = -erfinvWith ⟨((↑) : Rat → K), pi, log1p, sqrt⟩ x := by
  unfold erfinvWith
  simp only []
  have e : - -x * -x = -x * x := by ring
  rw [e, sgn_neg]
  push_cast
  ring

/-- … and vanishes at 0 (the sign is 0) -/
theorem erfinv_zero {K : Type} [Field K] (pi : K) (log1p : Rat → K) (sqrt : K → K) :
    erfinvWith ⟨((↑) : Rat → K), pi, log1p, sqrt⟩ 0 = 0 := by
  unfold erfinvWith
  simp [sgn]

/-- the form written "without cancellation" is Winitzki's `−tt1 + sqrt(tt1² − tt2)`: for any `s` with
`s² = tt1² − tt2` (the inner square root) and `tt1 + s ≠ 0` -/
theorem erfinv_conjugate {K : Type} [Field K] (tt1 tt2 s : K) (hs : s * s = tt1 * tt1 - tt2) (hd : tt1 + s ≠ 0) :
    -tt2 / (tt1 + s) = -tt1 + s := by
  rw [div_eq_iff hd]
  have : tt2 = tt1 * tt1 - s * s := by rw [hs]; ring
  rw [this]; ring

/-- the argument of the outer square root is non-negative and the denominator positive for every `l ≤ 0`
(`l = log1p(−x²)` on (−1, 1)), given a square root that is non-negative and squares back on non-negatives:
neither square root leaves its domain and there is no division by zero -/
theorem erfinv_domain {K : Type} [Field K] [LinearOrder K] [IsStrictOrderedRing K] (tt1 tt2 : K) (sqrt : K → K)
    (hsq : ∀ t, 0 ≤ t → 0 ≤ sqrt t ∧ sqrt t * sqrt t = t) (h2 : tt2 < 0) :
    0 ≤ tt1 * tt1 - tt2 ∧ 0 < tt1 + sqrt (tt1 * tt1 - tt2) ∧ 0 < -tt2 / (tt1 + sqrt (tt1 * tt1 - tt2)) := by
  have hd : 0 ≤ tt1 * tt1 - tt2 := by nlinarith [mul_self_nonneg tt1]
  obtain ⟨hs0, hss⟩ := hsq _ hd
  have hpos : 0 < tt1 + sqrt (tt1 * tt1 - tt2) := by
    by_contra hcon
    have hle : sqrt (tt1 * tt1 - tt2) ≤ -tt1 := by linarith [not_lt.mp hcon]
    have : sqrt (tt1 * tt1 - tt2) * sqrt (tt1 * tt1 - tt2) ≤ (-tt1) * (-tt1) :=
      mul_self_le_mul_self hs0 hle
    nlinarith
  exact ⟨hd, hpos, div_pos (by linarith) hpos⟩

example : -(-16 : Rat) / (3 + 5) = -3 + 5 := erfinv_conjugate 3 (-16) 5 (by norm_num) (by norm_num)

/-- the real square root meets the hypothesis of `erfinv_domain` -/
example (tt1 tt2 : ℝ) (h2 : tt2 < 0) : 0 < -tt2 / (tt1 + Real.sqrt (tt1 * tt1 - tt2)) :=
  (erfinv_domain tt1 tt2 Real.sqrt (fun t ht => ⟨Real.sqrt_nonneg t, Real.mul_self_sqrt ht⟩) h2).2.2

example : erfinvWith (K := Rat) ⟨((↑) : Rat → Rat), 3, fun _ => 0, fun t => t⟩ (1 / 2) = 0 := by
  norm_num [erfinvWith, sgn]

/-! ## gamma approximation: the recursion skeleton -/

theorem risingProd_one (z : Rat) : risingProd z 1 = 1 := by simp [risingProd]

theorem risingProd_succ (z : Rat) (k : Nat) :
    risingProd z (k + 2) = risingProd z (k + 1) * (z + ((k + 1 : Nat) : Rat)) := by
  unfold risingProd
  have : k + 2 - 1 = k + 1 := by omega
  rw [this, List.range_succ, List.map_append, List.foldl_append]
  simp

theorem risingProd_pos (z : Rat) (hz : 0 ≤ z) (n : Nat) : 0 < risingProd z (n + 1) := by
  induction n with
  | zero => rw [risingProd_one]; norm_num
  | succ n ih =>
    rw [risingProd_succ]
    have : (0 : Rat) < z + ((n + 1 : Nat) : Rat) := by
      have : (0 : Rat) < ((n + 1 : Nat) : Rat) := by exact_mod_cast Nat.succ_pos n
      linarith
    exact mul_pos ih this

/-- For every function `G` on the positive rationals with `G (t + 1) = t · G t` and `G > 0`
(the true gamma function is one): if the degree-8 polynomial approximates `G (z + 1)` on
`0 ≤ z < 1` with relative error ε, the coded recursion (`z = x mod 1`, the product over
`z + 1 … z + ⌊x⌋ − 1`, the `1/x` branch below one) approximates `G x` with the same relative error
at every `x > 0`. -/
theorem gamma_reduce {K : Type*} [Field K] [LinearOrder K] [IsStrictOrderedRing K]
    (G : Rat → K) (hrec : ∀ t : Rat, 0 < t → G (t + 1) = (t : K) * G t) (hpos : ∀ t : Rat, 0 < t → 0 < G t)
    (ε : K)
    (hbase : ∀ z : Rat, 0 ≤ z → z < 1 → |((gammaPoly z : Rat) : K) - G (z + 1)| ≤ ε * G (z + 1)) :
    ∀ x : Rat, 0 < x → |((gammaApprox x : Rat) : K) - G x| ≤ ε * G x := by
  intro x hx
  have hfl : ((x.floor : Int) : Rat) ≤ x := Int.floor_le x
  have hfu : x < ((x.floor : Int) : Rat) + 1 := Int.lt_floor_add_one x
  have hf0 : 0 ≤ x.floor := Int.floor_nonneg.mpr hx.le
  unfold gammaApprox
  simp only []
  by_cases h1 : x < 1
  · -- below one: floor = 0, z = x, Γ(x) = Γ(x + 1) / x
    have hfz : x.floor = 0 := by
      have : x.floor < 1 := by
        have : ((x.floor : Int) : Rat) < 1 := lt_of_le_of_lt hfl h1
        exact_mod_cast this
      omega
    rw [if_pos h1, hfz]
    simp only [Int.cast_zero, sub_zero]
    have hb := hbase x hx.le h1
    have hG : G (x + 1) = (x : K) * G x := hrec x hx
    have hxK : (0 : K) < (x : K) := by exact_mod_cast hx
    rw [hG] at hb
    have e : ((1 / x * gammaPoly x : Rat) : K) - G x = (((gammaPoly x : Rat) : K) - (x : K) * G x) / (x : K) := by
      push_cast; field_simp
    rw [e, abs_div, abs_of_pos hxK, div_le_iff₀ hxK]
    calc |((gammaPoly x : Rat) : K) - (x : K) * G x| ≤ ε * ((x : K) * G x) := hb
      _ = ε * G x * (x : K) := by ring
  · -- x ≥ 1: Γ(z + k) = (z + 1)…(z + k − 1) · Γ(z + 1)
    rw [if_neg h1]
    have h1' : 1 ≤ x := not_lt.mp h1
    obtain ⟨k, hk⟩ : ∃ k : Nat, x.floor = (k : Int) + 1 := by
      have : 1 ≤ x.floor := Int.le_floor.mpr (by exact_mod_cast h1')
      exact ⟨(x.floor - 1).toNat, by omega⟩
    have htn : x.floor.toNat = k + 1 := by omega
    rw [htn, hk]
    set z : Rat := x - (((k : Int) + 1 : Int) : Rat) with hz
    have hz0 : 0 ≤ z := by rw [hz, ← hk]; linarith
    have hz1 : z < 1 := by rw [hz, ← hk]; linarith
    have hxz : x = z + ((k + 1 : Nat) : Rat) := by rw [hz]; push_cast; ring
    -- the functional equation, iterated
    have hiter : ∀ n : Nat, G (z + ((n + 1 : Nat) : Rat)) = ((risingProd z (n + 1) : Rat) : K) * G (z + 1) := by
      intro n
      induction n with
      | zero => simp [risingProd_one]
      | succ n ih =>
        have hpos' : (0 : Rat) < z + ((n + 1 : Nat) : Rat) := by
          have : (0 : Rat) < ((n + 1 : Nat) : Rat) := by exact_mod_cast Nat.succ_pos n
          linarith
        have e : z + ((n + 1 + 1 : Nat) : Rat) = (z + ((n + 1 : Nat) : Rat)) + 1 := by push_cast; ring
        rw [e, hrec _ hpos', ih, risingProd_succ]
        push_cast; ring
    have hP : (0 : Rat) < risingProd z (k + 1) := risingProd_pos z hz0 k
    have hPK : (0 : K) < ((risingProd z (k + 1) : Rat) : K) := by exact_mod_cast hP
    have hb := hbase z hz0 hz1
    have hGx : G x = ((risingProd z (k + 1) : Rat) : K) * G (z + 1) := by rw [hxz]; exact hiter k
    rw [hGx]
    have e : ((risingProd z (k + 1) * gammaPoly z : Rat) : K) - ((risingProd z (k + 1) : Rat) : K) * G (z + 1)
        = ((risingProd z (k + 1) : Rat) : K) * (((gammaPoly z : Rat) : K) - G (z + 1)) := by push_cast; ring
    rw [e, abs_mul, abs_of_pos hPK]
    calc ((risingProd z (k + 1) : Rat) : K) * |((gammaPoly z : Rat) : K) - G (z + 1)|
        ≤ ((risingProd z (k + 1) : Rat) : K) * (ε * G (z + 1)) := mul_le_mul_of_nonneg_left hb hPK.le
      _ = ε * (((risingProd z (k + 1) : Rat) : K) * G (z + 1)) := by ring

/-! ## gamma approximation at the positive integers: exact

At an integer argument the fractional part is 0, the polynomial is its constant term 1 and the recursion is the
plain product 1·2·…·(n − 1): the approximation as coded returns the factorial itself, with no approximation
error at all.  This is what the correspondence check demands of every integer argument (1 … 30) whatever type
carries it — Python `int`, numpy signed / unsigned integer scalars of every width, float scalars, 0-d arrays:
the value is a property of the number, not of its container.  (21! no longer fits a 64-bit integer, 13! no
longer a 32-bit one, 12! is the last one a single-precision float holds exactly: the product has to be formed
in double precision for the statement to carry over to the code.) -/

theorem fact_eq_factorial (n : Nat) : fact n = n.factorial := by
  induction n with
  | zero => rfl
  | succ n ih => simp [fact, ih, Nat.factorial_succ]

theorem risingProd_zero (n : Nat) : risingProd 0 (n + 1) = ((fact n : Nat) : Rat) := by
  induction n with
  | zero => simp [risingProd_one, fact]
  | succ n ih =>
    rw [risingProd_succ, ih]
    simp only [fact]
    push_cast
    ring

/-- `gamma(n + 1) = n!` exactly, for every natural `n` (the model of the code as it is, not of the true function) -/
theorem gammaApprox_nat (n : Nat) : gammaApprox ((n + 1 : Nat) : Rat) = ((fact n : Nat) : Rat) := by
  have hfl : (((n + 1 : Nat) : Rat)).floor = ((n + 1 : Nat) : Int) := Int.floor_natCast (R := Rat) (n + 1)
  have h1 : ¬ (((n + 1 : Nat) : Rat) < 1) := by
    have : (1 : Rat) ≤ ((n + 1 : Nat) : Rat) := by exact_mod_cast Nat.succ_le_succ (Nat.zero_le n)
    exact not_lt.mpr this
  unfold gammaApprox
  simp only [hfl, if_neg h1, Int.toNat_natCast, Int.cast_natCast, sub_self]
  rw [risingProd_zero, gammaPoly_eq]
  simp

/-- … and so it is the true gamma function there: `gamma(n + 1) = n!` with Mathlib's factorial -/
theorem gammaApprox_factorial (n : Nat) : gammaApprox ((n + 1 : Nat) : Rat) = (n.factorial : Rat) := by
  rw [gammaApprox_nat, fact_eq_factorial]

example : gammaApprox ((21 + 1 : Nat) : Rat) = 51090942171709440000 := by
  rw [gammaApprox_factorial]; norm_num [Nat.factorial]

/-- the recursion at an integer: Γ(5) ≈ 4·3·2·1·poly(0) = 24 -/
example : gammaApprox 5 = 24 := by
  have floor5 : (5 : Rat).floor = 5 := by
    have : (5 : Rat) = ((5 : Int) : Rat) := by norm_num
    rw [this]; exact Int.floor_intCast (R := Rat) 5
  unfold gammaApprox
  simp only [floor5]
  have : Int.toNat 5 = 5 := rfl
  rw [this]
  norm_num [risingProd, gammaPoly, gammaCoef, at0, List.range_succ]

example : erfApprox 1 = 1 - 1 / (1 + 587862 / 1000000) ^ 4 := by
  norm_num [erfApprox, sgn, absR, erfSum]

/-! ## extension round: pad mode entry by entry, normalisation under rounding and rescaling, factors -/

/-- THE WHOLE pad-mode result, edges included, for every kernel length (also kernels longer than the signal):
entry `k` is `Σ_j psf[j] · x[clamp(k + (m − 1 − m/2) − j)]`, the ordinary convolution with the signal continued
by its first and last sample -/
theorem pad_conv_entry (x psf : List Rat) (hx : x ≠ []) (hp : psf ≠ []) (k : Nat) (hk : k < x.length) :
    at0 (convolvePad x psf) k = padConvAt x psf k := by
  have hm : 0 < psf.length := List.length_pos_iff.mpr hp
  unfold convolvePad convValid
  simp only [padEdge_length]
  rw [if_neg (by omega)]
  unfold convValidGe
  simp only [padEdge_length]
  rw [at0_of_lt _ _ (by simp; omega)]
  simp only [List.getElem_map, List.getElem_range]
  unfold padConvAt
  congr 1
  apply List.map_congr_left
  intro j hj
  have hj' : j < psf.length := List.mem_range.mp hj
  rw [padEdge_at x hx _ _ _ (by omega)]
  congr 3
  omega

theorem pad_conv_eq_spec (x psf : List Rat) (hx : x ≠ []) (hp : psf ≠ []) :
    convolvePad x psf = padConvSpec x psf := by
  have hm : 0 < psf.length := List.length_pos_iff.mpr hp
  have hn : 0 < x.length := List.length_pos_iff.mpr hx
  have hl : (convolvePad x psf).length = x.length := by
    unfold convolvePad convValid
    simp only [padEdge_length]
    rw [if_neg (by omega)]
    simp [convValidGe, padEdge_length]
    omega
  apply List.ext_getElem
  · rw [hl]; simp [padConvSpec]
  · intro k h1 h2
    have hk : k < x.length := by rw [hl] at h1; exact h1
    rw [← at0_of_lt _ _ h1, pad_conv_entry x psf hx hp k hk]
    simp [padConvSpec]

/-- a kernel longer than the signal: nothing special happens -/
example : convolvePad [1, 2] [1, 1, 1, 1, 1] = [7, 8] := by decide +kernel
example : padConvSpec [1, 2] [1, 1, 1, 1, 1] = [7, 8] := by decide +kernel

/-- a constant signal comes back multiplied by the sum of the kernel, edges included, whatever that sum is
(`pad_conv_constant` is the case `Σ psf = 1`; a kernel whose float weights sum to one only up to rounding
reproduces constants up to the same rounding) -/
theorem pad_conv_constant_scaled (c : Rat) (n : Nat) (hn : 0 < n) (psf : List Rat) (hp : psf ≠ []) :
    convolvePad (List.replicate n c) psf = List.replicate n (c * psf.sum) := by
  rw [pad_conv_eq_spec _ _ (by intro h; have := congrArg List.length h; simp at this; omega) hp]
  unfold padConvSpec
  simp only [List.length_replicate]
  apply List.ext_getElem
  · simp
  · intro k h1 h2
    simp only [List.getElem_map, List.getElem_range, List.getElem_replicate]
    have hk : k < n := by simpa using h1
    unfold padConvAt
    simp only [List.length_replicate]
    have : (List.range psf.length).map (fun j => at0 psf j * at0 (List.replicate n c)
          (clampIdx n ((k : Int) + ((psf.length - 1 - psf.length / 2 : Nat) : Int) - (j : Int))))
        = (List.range psf.length).map (fun j => at0 psf j * c) := by
      apply List.map_congr_left
      intro j _
      rw [at0_replicate _ _ _ (by unfold clampIdx; split; omega; split <;> omega)]
    rw [this, List.sum_map_mul_right, sum_at0_range, mul_comm]

example : convolvePad [4, 4, 4] [1 / 2, 1 / 4] = [3, 3, 3] := by
  have := pad_conv_constant_scaled 4 3 (by norm_num) [1 / 2, 1 / 4] (by simp)
  norm_num [List.replicate] at this
  exact this

/-! ### normalisation: invariant under the magnitude of the densities, stable under rounding -/

/-- the weights do not depend on the magnitude of the densities: multiplying every density by the same non-zero
constant (`1e-310` as well as `1e+300`) changes nothing.  Any field. -/
theorem normaliseK_scale {K : Type} [Field K] (c : K) (hc : c ≠ 0) (y : List K) :
    normaliseK (y.map (c * ·)) = normaliseK y := by
  unfold normaliseK
  have hs : (y.map (c * ·)).sum = c * y.sum := by
    have := List.sum_map_mul_left y (fun v => v) c
    simpa using this
  rw [hs, List.map_map]
  apply List.map_congr_left
  intro v _
  simp only [Function.comp]
  exact mul_div_mul_left _ _ hc

/-- … so a generator's rows do not depend on a constant factor of its density (the `1/B` of `beta_pdf`, the
`1/(σ√(2π))` of the Gaussians, `βᵅ/Γ(α)`) -/
theorem kernelWith_scale {K : Type} [Field K] (c : K) (hc : c ≠ 0) (axis : List Rat) (pdf : Rat → K) :
    kernelWith axis (fun x => c * pdf x) = kernelWith axis pdf := by
  unfold kernelWith
  have : axis.map (fun x => c * pdf x) = (axis.map pdf).map (c * ·) := by simp [List.map_map, Function.comp_def]
  rw [this, normaliseK_scale c hc]

example : normaliseK (([1, 3] : List Rat).map ((1 / 10 ^ 320) * ·)) = normaliseK [1, 3] :=
  normaliseK_scale _ (by positivity) _

/-- REGRESSION (seeded change C18-c2): with the divisor floored at `t`, densities whose sum is positive but below
`t` give weights that sum to `Σy / t < 1`, not to one -/
theorem normaliseFloor_sum (t : Rat) (y : List Rat) (h : y.sum < t) :
    (normaliseFloor t y).sum = y.sum / t := by
  unfold normaliseFloor
  rw [if_pos h, sum_map_div]

theorem normaliseFloor_lt_one (t : Rat) (y : List Rat) (h0 : 0 < y.sum) (h : y.sum < t) :
    (normaliseFloor t y).sum < 1 := by
  rw [normaliseFloor_sum t y h, div_lt_one (lt_trans h0 h)]
  exact h

/-- … and above the floor it is the code's normalisation -/
theorem normaliseFloor_eq (t : Rat) (y : List Rat) (h : t ≤ y.sum) : normaliseFloor t y = normalise y := by
  unfold normaliseFloor normalise
  rw [if_neg (not_lt.mpr h)]

/-- `normal(5, 1.0, 41.0)`: one sample carries 11 steps of the subnormal grid, the floor is `2⁻¹⁰²²` = `2⁵²` steps -/
example (q : Rat) (hq : 0 < q) : (normaliseFloor (2 ^ 52 * q) [0, 0, 0, 0, 11 * q]).sum = 11 / 2 ^ 52 := by
  rw [normaliseFloor_sum _ _ (by norm_num; nlinarith)]
  field_simp
  norm_num
example (q : Rat) (hq : 0 < q) : (normalise [0, 0, 0, 0, 11 * q]).sum = 1 :=
  (normalise_sums_to_one _ (by intro v hv; simp at hv; rcases hv with rfl | rfl <;> positivity)
    (by norm_num; positivity)).2.1

/-- NORMALISATION UNDER ROUNDING, in any ordered field and for densities of ANY magnitude: if the divisor `s` is
the sum of the densities up to a relative error `ε < 1` and every weight is the quotient `yᵢ / s` up to a relative
error `u`, the weights sum to one within `(u + ε) / (1 − ε)`.  Nothing in the bound depends on how small the
densities are.  (binary64: `u = 2⁻⁵³` for a division, `ε ≤ (n − 1)·2⁻⁵³` for any order of summation, `ε = 0` when
all densities are subnormal — sums of subnormal numbers are exact.) -/
theorem normalise_approx {K : Type} [Field K] [LinearOrder K] [IsStrictOrderedRing K]
    (y w : List K) (s u ε : K) (hS : 0 < y.sum) (hu : 0 ≤ u) (hε : ε < 1)
    (hs : |s - y.sum| ≤ ε * y.sum)
    (hw : List.Forall₂ (fun wi yi => |wi - yi / s| ≤ u * (yi / s)) w y) :
    |w.sum - 1| ≤ (u + ε) / (1 - ε) := by
  have h1ε : 0 < 1 - ε := by linarith
  have hspos : 0 < s := by
    have := (abs_le.mp hs).1
    nlinarith
  have hsge : (1 - ε) * y.sum ≤ s := by
    have := (abs_le.mp hs).1
    nlinarith
  -- the exact quotients sum to S / s
  have hq : (y.map (· / s)).sum = y.sum / s := sum_map_div_field y s
  have hw' : List.Forall₂ (fun wi vi => |wi - vi| ≤ u * vi) w (y.map (· / s)) := by
    rw [List.forall₂_map_right_iff]; exact hw
  have h1 : |w.sum - y.sum / s| ≤ u * (y.sum / s) := by
    rw [← hq]; exact abs_sum_sub_sum_le u w _ hw'
  have hr : y.sum / s ≤ 1 / (1 - ε) := by
    rw [div_le_div_iff₀ hspos h1ε]; linarith
  have h2 : |y.sum / s - 1| ≤ ε / (1 - ε) := by
    have e : y.sum / s - 1 = (y.sum - s) / s := by field_simp
    rw [e, abs_div, abs_of_pos hspos, div_le_div_iff₀ hspos h1ε]
    have : |y.sum - s| ≤ ε * y.sum := by rw [abs_sub_comm]; exact hs
    have hεS : 0 ≤ ε * y.sum := le_trans (abs_nonneg _) this
    calc |y.sum - s| * (1 - ε) ≤ (ε * y.sum) * (1 - ε) := mul_le_mul_of_nonneg_right this h1ε.le
      _ = ε * ((1 - ε) * y.sum) := by ring
      _ ≤ ε * s := by
        by_cases hε0 : 0 ≤ ε
        · exact mul_le_mul_of_nonneg_left hsge hε0
        · exfalso; have : ε * y.sum < 0 := mul_neg_of_neg_of_pos (not_le.mp hε0) hS; linarith
  have e : w.sum - 1 = (w.sum - y.sum / s) + (y.sum / s - 1) := by ring
  rw [e]
  refine (abs_add_le _ _).trans ?_
  have : u * (y.sum / s) ≤ u / (1 - ε) := by
    calc u * (y.sum / s) ≤ u * (1 / (1 - ε)) := mul_le_mul_of_nonneg_left hr hu
      _ = u / (1 - ε) := by ring
  rw [add_div]
  linarith

/-- three densities of the order of `10⁻³¹⁰`, a divisor 1 % high, weights 1 % off: the sum is within 3 % of one -/
example : |([(1 : Rat) / 2, 3 / 10, 2 / 10].map (· * (101 / 100) / (101 / 100))).sum - 1| ≤ 1 := by norm_num

/-! ### the factors of the eight densities -/

section factors
variable {K : Type} [Field K] {S : Special K}

theorem exponential_factors_prod (lam x : Rat) : exponentialPdf S lam x = (exponentialFactors S lam x).prod := by
  simp [exponentialPdf, exponentialFactors]

theorem laplace_factors_prod (b mu x : Rat) : laplacePdf S b mu x = (laplaceFactors S b mu x).prod := by
  simp [laplacePdf, laplaceFactors]

theorem normal_factors_prod (sigma mu x : Rat) : normalPdf S sigma mu x = (normalFactors S sigma mu x).prod := by
  simp [normalPdf, normalFactors]

theorem superGaussian_factors_prod (sigma mu : Rat) (power : Nat) (x : Rat) :
    superGaussianPdf S sigma mu power x = (superGaussianFactors S sigma mu power x).prod := by
  simp [superGaussianPdf, superGaussianFactors]

theorem lognormal_factors_prod (sigma mu x : Rat) : lognormalPdf S sigma mu x = (lognormalFactors S sigma mu x).prod := by
  simp [lognormalPdf, lognormalFactors]

theorem loglaplace_factors_prod (b mu x : Rat) : loglaplacePdf S b mu x = (loglaplaceFactors S b mu x).prod := by
  simp [loglaplacePdf, loglaplaceFactors]

theorem inversegamma_factors_prod (alpha beta x : Rat) :
    inversegammaPdf S alpha beta x = (inversegammaFactors S alpha beta x).prod := by
  simp [inversegammaPdf, inversegammaFactors, mul_assoc]

theorem beta_factors_prod [LinearOrder K] [IsStrictOrderedRing K] (hS : S.Sound) (alpha beta x : Rat) :
    betaPdf S alpha beta x = (betaFactors S alpha beta x).prod := by
  simp only [betaPdf, betaFactors, List.prod_cons, List.prod_nil, mul_one]
  rw [hS.cast 1, Rat.cast_one, div_eq_mul_inv, one_div, mul_assoc]

end factors

/-- WHATEVER ORDER the factors are multiplied in: when `robustFactors` holds, the product of every sub-collection
of the factors (any sub-multiset, in any order) lies in `[8·2⁻¹⁰⁷⁴, 2¹⁰⁰⁰]` — every intermediate value of the
evaluation is a positive finite double with room to spare, and so is the density itself -/
theorem robustFactors_spec (fs l : List Rat) (hr : robustFactors fs = true) (hl : l.Subperm fs) :
    tailLo ≤ l.prod ∧ l.prod ≤ tailHi := by
  obtain ⟨l', hperm, hsub⟩ := hl
  have hmem := prod_mem_subProducts l' fs hsub
  rw [hperm.prod_eq] at hmem
  unfold robustFactors at hr
  rw [List.all_eq_true] at hr
  have := hr _ hmem
  simpa using this

theorem robustFactors_pos (fs : List Rat) (hr : robustFactors fs = true) : 0 < fs.prod :=
  lt_of_lt_of_le (by unfold tailLo; positivity) (robustFactors_spec fs fs hr (List.Subperm.refl fs)).1

example : robustFactors [1 / 2, 4 * tailLo] = true := by decide +kernel
example : robustFactors [50, tailLo / 64] = false := by decide +kernel

/-! ### numpy's own modes as windows of the ordinary convolution; commutativity -/

/-- numpy's `valid` mode (what pad mode runs on the padded signal) is a window of the ordinary convolution:
entry `k` is entry `k + m − 1` of the full convolution, for every `k ≤ n − m` -/
theorem convValidGe_entry (a v : List Rat) (hv : v ≠ []) (k : Nat) (hk : k + v.length ≤ a.length) :
    at0 (convValidGe a v) k = fullConvAt a v (k + v.length - 1) := by
  have hm : 0 < v.length := List.length_pos_iff.mpr hv
  unfold convValidGe
  rw [at0_of_lt _ _ (by simp; omega)]
  simp only [List.getElem_map, List.getElem_range]
  unfold fullConvAt
  congr 1
  apply List.map_congr_left
  intro j hj
  have hj' : j < v.length := List.mem_range.mp hj
  rw [if_pos (by omega)]

theorem convValidGe_eq_full (a v : List Rat) (hv : v ≠ []) (h : v.length ≤ a.length) :
    convValidGe a v = ((fullConv a v).drop (v.length - 1)).take (a.length + 1 - v.length) := by
  have hm : 0 < v.length := List.length_pos_iff.mpr hv
  apply List.ext_getElem
  · simp [convValidGe, fullConv]; omega
  · intro k h1 h2
    have hk : k < a.length + 1 - v.length := by simpa [convValidGe] using h1
    rw [← at0_of_lt _ _ h1, convValidGe_entry a v hv k (by omega)]
    simp only [List.getElem_take, List.getElem_drop, fullConv, List.getElem_map, List.getElem_range]
    congr 1; omega

example : convValidGe [1, 2, 3, 4] [1, 1] = [3, 5, 7] := by decide +kernel
example : fullConv [1, 2, 3, 4] [1, 1] = [1, 3, 5, 7, 4] := by decide +kernel

/-- convolution is commutative: signal and kernel may be exchanged (what numpy does when the second argument is
the longer one) -/
theorem fullConvAt_comm (x psf : List Rat) (t : Nat) : fullConvAt x psf t = fullConvAt psf x t := by
  rw [fullConvAt_eq_range, fullConvAt_eq_range]
  have := sum_range_reflect_list (fun j => at0 x j * at0 psf (t - j)) (t + 1)
  rw [← this]
  congr 1
  apply List.map_congr_left
  intro j hj
  have hj' : j < t + 1 := List.mem_range.mp hj
  have e : t + 1 - 1 - j = t - j := by omega
  have e2 : t - (t - j) = j := by omega
  simp only [e, e2]
  ring

theorem fullConv_comm (x psf : List Rat) : fullConv x psf = fullConv psf x := by
  unfold fullConv
  rw [Nat.add_comm psf.length x.length]
  apply List.map_congr_left
  intro t _
  exact fullConvAt_comm x psf t

example : fullConv [1, 2, 3] [1, 1] = fullConv [1, 1] [1, 2, 3] := fullConv_comm _ _

/-- numpy's `valid` mode for ANY two non-empty arrays (the longer one is taken as the signal): the window of the
ordinary convolution in which the shorter array lies completely inside the longer one -/
theorem convValid_eq_full (a v : List Rat) (ha : a ≠ []) (hv : v ≠ []) :
    convValid a v = ((fullConv a v).drop (min a.length v.length - 1)).take
      (max a.length v.length + 1 - min a.length v.length) := by
  unfold convValid
  split
  · rename_i h
    rw [convValidGe_eq_full v a ha (by omega), fullConv_comm v a, Nat.min_eq_left (by omega), Nat.max_eq_right (by omega)]
  · rename_i h
    rw [convValidGe_eq_full a v hv (by omega), Nat.min_eq_right (by omega), Nat.max_eq_left (by omega)]

example : convValid [1, 1] [1, 2, 3, 4] = [3, 5, 7] := by decide +kernel

end Pew.Convolve
